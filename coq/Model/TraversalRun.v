(* Runner for the C03 correspondence streams.

   A case (type [case_t A], emitted by harness/src/bin/c03.rs as a function of the number type, so the same text is
   read as binary64 for the M line and as exact rationals for the S line) holds: a graph, the configured state
   features, the query's state_features, the traversal model configuration (distance model, or speed table + units),
   the access model configuration (none, or heading table + turn-delay table + unit), the cost model configuration
   (weights, vehicle rates, network rates, aggregation; Model/Cost.v of property C07) and an operation:
     OForward es     EdgeTraversal::forward_traversal edge after edge from the declared initial state
     OReverse es     EdgeTraversal::reverse_traversal edge after edge (es listed from the destination backwards)
     OVia fwd rev    both of the above, then bidirectional_ops::reorient_reverse_route(fwd, rev)
     OMulti ess      the routes RETURNED BY A REAL SEARCH (Dijkstra, A*, single-via k-shortest paths) on this
                     configuration: each is re-traversed forward from the declared initial state
   M line  the model of Model/Traversal.v in binary64 -- compared bit for bit with the implementation's line.
   S line  the PROPERTY judged in exact rational arithmetic on the floats the implementation printed (embedded in the
           term): every reported state slot against the closed forms of Model/TraversalSpec.v computed from the raw
           tables (Sum len * Kd,  Sum len/speed * Kt + Sum delay * Kdelay, from the declared initial state), every
           other slot unchanged, distance and time never decreasing, costs = Model/Cost.v (rationals) applied to that
           edge's increments, summary = last state.  An accepted output is re-printed in the implementation's
           format (so I = S), a rejected one prints REJECT(edge index, what). Tolerances: see [judge]. *)
From Coq Require Import ZArith QArith Qabs List String Bool Floats.
From RC Require Import Base.Show Base.Num Base.Res Base.Json Model.Units Model.UnitsRun Model.StateOps
  Model.Traversal Model.TraversalSpec Model.Cost.
Import ListNotations.

Module TR.
Import Units StateOps Traversal TSpec.
Local Open Scope string_scope.

(* ------------------------------------------------------------------ cases *)
Inductive tm_cfg (A : Type) : Type :=
| TDist (du : dist_unit)
| TSpeed (table : list A) (su : speed_unit) (du : option dist_unit) (tu : option time_unit).
Arguments TDist {A} du. Arguments TSpeed {A} table su du tu.
Inductive am_cfg (A : Type) : Type :=
| ANone
| ATurn (hs : list heading) (table : list (turn * A)) (u : time_unit) (fname : string).
Arguments ANone {A}. Arguments ATurn {A} hs table u fname.
Record cost_cfg (A : Type) : Type :=
  { cc_w : list (string * A); cc_v : list (string * Cost.vrate A); cc_n : list (string * Cost.nrate A);
    cc_agg : Cost.agg }.
Arguments cc_w {A} c. Arguments cc_v {A} c. Arguments cc_n {A} c. Arguments cc_agg {A} c.
Arguments Build_cost_cfg {A} cc_w cc_v cc_n cc_agg.
Inductive op : Set :=
| OForward (es : list nat) | OReverse (es : list nat) | OVia (fwd rev : list nat)
| OMulti (ess : list (list nat))    (* several routes (returned by one real search), each re-traversed from the initial state *)
| OEdge (source target : nat) (inners : list (list nat)).
    (* the routes returned by one real EDGE-ORIENTED search between two non-adjacent edges: each is the re-traversal of
       its inner edges framed by the zero-cost source and target edges (Traversal.compose_edge_oriented) *)

Record case_t (A : Type) : Type :=
  { c_nv : nat; c_edges : list (nat * nat * A);
    c_features : list (string * feature A); c_user : list (string * feature A);
    c_tm : tm_cfg A; c_am : am_cfg A; c_cost : cost_cfg A; c_op : op;
    c_summary : bool   (* whether the route is also rendered by the output plugin (traversal_summary) *) }.
Arguments c_nv {A} c. Arguments c_edges {A} c. Arguments c_features {A} c. Arguments c_user {A} c.
Arguments c_tm {A} c. Arguments c_am {A} c. Arguments c_cost {A} c. Arguments c_op {A} c. Arguments c_summary {A} c.
Arguments Build_case_t {A} c_nv c_edges c_features c_user c_tm c_am c_cost c_op c_summary.

Definition zpair (p : nat * nat) : Z * Z := (Z.of_nat (fst p), Z.of_nat (snd p)).
Definition cost_fns_of (N : Num) (cm : Cost.cost_model N) : cost_fns N :=
  Build_cost_fns
    (fun e1 e2 p n => Cost.access_cost N cm (zpair (e1, e2)) p n)
    (fun pair e p n => Cost.edge_cost N cm (option_map zpair pair) (Z.of_nat e) p n)
    (Cost.enforce_strictly_positive N).

(* SearchApp::build_search_instance: traversal model, access model, state model extended by the models' features
   and then the query's, cost model over the extended state model *)
Definition build (N : Num) (c : case_t N) : res (instance N * Cost.cost_model N) :=
  do tm <- match c_tm c with
           | TDist du => Ok (TMDistance du)
           | TSpeed t su du tu => do en <- engine_new N t su du tu; Ok (TMSpeed en)
           end;
  let am := match c_am c with
            | ANone => AMNone
            | ATurn hs t u f => AMTurnDelay (Build_turn_delay hs t u f)
            end in
  do sm <- extend (c_features c) (tm_state_features N tm ++ c_user c);
  do cm <- Cost.new N (cc_w (c_cost c)) (cc_v (c_cost c)) (cc_n (c_cost c)) (cc_agg (c_cost c)) (map fst sm);
  Ok (Build_instance
        (Build_graph (c_nv c) (map (fun e => Build_edge (fst (fst e)) (snd (fst e)) (snd e)) (c_edges c)))
        sm tm am (cost_fns_of N cm), cm).

Inductive outcome (A : Type) : Type :=
| OBuildErr (cls : string)
| ORoutes (rs : list (string * res (list (etrav A)))) (totals : list (list A)) (summary : res (list (string * A)))
| OMultiRoutes (rs : list (string * res (list (etrav A)))) (totals : list (list A))
               (summaries : list (res (list (string * A)))).
    (* the routes of ONE response (OMulti / OEdge): every route has its own traversal_summary *)
    (* totals: EdgeTraversal::total_cost() of every edge of every route that exists, in the order of [rs] *)
Arguments OBuildErr {A} cls. Arguments ORoutes {A} rs totals summary. Arguments OMultiRoutes {A} rs totals summaries.

Definition summary_of (N : Num) (c : case_t N) (inst : instance N) (route : list (etrav N)) : res (list (string * N)) :=
  if negb (c_summary c) then Err "not rendered"
  else match route with
       | [] => Err "EmptyRoute"
       | _ => traversal_summary N inst route
       end.

Definition run (N : Num) (c : case_t N) : outcome N :=
  match build N c with
  | Ok (inst, _) =>
      let init := initial_state (i_sm inst) in
      let mk rs s :=
        ORoutes rs (map (fun nr => match snd nr with
                                   | Ok l => map (total_cost N (i_cost inst)) l
                                   | _ => []
                                   end) rs) s in
      let mkm rs :=
        OMultiRoutes rs (map (fun nr => match snd nr with
                                        | Ok l => map (total_cost N (i_cost inst)) l
                                        | _ => []
                                        end) rs)
                     (map (fun nr => match snd nr with Ok l => summary_of N c inst l | _ => Err "no route" end) rs) in
      match c_op c with
      | OForward es =>
          let r := run_forward N inst None init es in
          mk [("route", r)] (match r with Ok l => summary_of N c inst l | _ => Err "no route" end)
      | OReverse es => mk [("rroute", run_reverse N inst None init es)] (Err "not rendered")
      | OVia f rv =>
          let rf := run_forward N inst None init f in
          let rr := run_reverse N inst None init rv in
          match rf, rr with
          | Ok lf, Ok lr =>
              let v := reorient_reverse_route N inst lf lr in
              mk [("fwd", rf); ("rev", rr); ("via", v)]
                 (match v with Ok lv => summary_of N c inst (lf ++ lv) | _ => Err "no route" end)
          | _, _ => mk [("fwd", rf); ("rev", rr)] (Err "no route")
          end
      | OMulti ess =>
          mkm (map (fun kes => (("r" ++ show_nat (fst kes))%string, run_forward N inst None init (snd kes)))
                   (combine (seq 0 (List.length ess)) ess))
      | OEdge s t ess =>
          mkm (map (fun kes => (("r" ++ show_nat (fst kes))%string,
                                do l <- run_forward N inst None init (snd kes); compose_edge_oriented N inst s t l))
                   (combine (seq 0 (List.length ess)) ess))
      end
  | Err cls => OBuildErr cls
  | Panic _ => OBuildErr "Panic"
  | OutOfFuel => OBuildErr "Hang"
  end.

(* ------------------------------------------------------------------ canonical text *)
Section Show.
  Context {A : Type} (sh : A -> string).
  Definition show_et (et : etrav A) : string :=
    show_nat (et_edge et) ++ ":" ++ sh (et_access et) ++ ":" ++ sh (et_trav et) ++ ":" ++ show_list sh (et_state et).
  Definition show_route (r : res (list (etrav A))) : string :=
    match r with
    | Ok l => show_list show_et l
    | Err c => "Err " ++ c
    | Panic _ => "Panic"
    | OutOfFuel => "Hang"
    end.
  Definition show_summary (s : res (list (string * A))) : string :=
    match s with
    | Err _ => "None"
    | Panic _ => "Panic"
    | OutOfFuel => "Hang"
    | Ok kvs => "{" ++ join "," (map (fun kv => fst kv ++ ":" ++ sh (snd kv)) (sort_by_key kvs)) ++ "}"
    end.
  Definition show_outcome (o : outcome A) : string :=
    match o with
    | OBuildErr cls => "BuildErr " ++ cls
    | ORoutes rs ts s =>
        join " " (map (fun nrt => fst (fst nrt) ++ "=" ++ show_route (snd (fst nrt)) ++ "/" ++ show_list sh (snd nrt))
                      (combine rs ts)) ++ " sum=" ++ show_summary s
    | OMultiRoutes rs ts ss =>
        join " " (map (fun nrt => fst (fst nrt) ++ "=" ++ show_route (snd (fst nrt)) ++ "/" ++ show_list sh (snd nrt))
                      (combine rs ts)) ++ " sums=" ++ show_list show_summary ss
    end.
End Show.

(* T line: the heading pairs of 0..359 x 0..359 on which the regenerated turn table disagrees with the specification
   (count, and the first pair of every distinct heading difference, at most 12) *)
Fixpoint first_by_diff (seen : list Z) (l : list (Z * Z)) : list (Z * Z) :=
  match l with
  | [] => []
  | p :: r => let d := ((snd p - fst p) mod 360)%Z in
              if existsb (Z.eqb d) seen then first_by_diff seen r else p :: first_by_diff (d :: seen) r
  end.
Definition line_turn_failures (id : Z) : string :=
  line "T" id (show_nat (List.length turn_failures) ++ " "
               ++ show_list (fun p => show_Z (fst p) ++ ">" ++ show_Z (snd p)) (firstn 12 (first_by_diff [] turn_failures))).

Definition case_gen : Type := forall A : Type, (float -> A) -> case_t A.

Definition line_M (id : Z) (mk : case_gen) : string :=
  line "M" id (show_outcome show_float (run FN (mk float (fun x => x)))).

(* ------------------------------------------------------------------ the judge (S line) *)
Local Open Scope Q_scope.
Definition qf (f : float) : Q := match UnitsRun.Q_of_float f with Some q => q | None => 0 end.
Definition finite (f : float) : bool := match UnitsRun.Q_of_float f with Some _ => true | None => false end.

(* comparison bands of the judge (applied in fixed point, see [closeZ] and [judge_edge]):
     state slots   |observed - expected| <= 1e-9 * (|observed| + |initial|)      binary64 rounding of the <= ~200 operations
                                                                                 of a 30-edge route is < 1e-13 relative
     exact SI      |observed increment - SI value| <= 0.5 % of the observed increment   (<= 5 table factors, each within
                                                                                 0.1 % of its SI definition, property C09)
     costs         |observed - expected| <= 1e-8 * (|total| + |access|) + 1e-13 * sensitivity * sum |state|
                   (the implementation computes a cost from the DIFFERENCE of two accumulated float states)
   A violation of the property moves a value by far more: a delay in the wrong unit by a factor >= 60, a missing or
   extra delay / edge by one whole term (>= 1e-6 of any total the generator can produce), a stale state by one edge. *)
Fixpoint vmag (r : Cost.vrate Q) : Q :=
  match r with
  | Cost.VZero => 0
  | Cost.VRaw => 1
  | Cost.VFactor f => Qabs f
  | Cost.VOffset _ => 1
  | Cost.VCombined l => fold_left (fun a r' => a * (if Qle_bool (vmag r') 1 then 1 else vmag r')) l 1
  end.
Definition cost_sensitivity (cm : Cost.cost_model Q) : Q :=
  fold_left (fun a f => a + Qabs (Cost.fw f) * vmag (Cost.fv f)) (Cost.cm_feats cm) 0.

Definition rget {A} (r : res A) (d : A) : A := match r with Ok a => a | _ => d end.

(* Arithmetic of the judge.  Every input number is a binary64 value, i.e. a dyadic rational.  To keep the rationals
   small (Coq's Q does not reduce, and a 53-bit denominator per edge makes a 30-edge sum cost seconds) the judge
   works on the grid of 2^-128:
     * the unit constants Kd, Kt, Kdelay of Model/TraversalSpec.v are rounded DOWN to the grid once per case
       (they are >= 1e-8, so the relative error is < 2^-100),
     * the running sums of len, len/speed and raw delay are kept on the grid; len and delay are dyadic and usually
       exact, each quotient len/speed is rounded down (error < 2^-128 per term).
   All these errors are more than twenty orders of magnitude below the comparison bands. *)
Definition grid_bits : Z := 128.
Definition grid : positive := (2 ^ 128)%positive.
Fixpoint pow2_log (p : positive) : option Z :=
  match p with
  | xH => Some 0%Z
  | xO q => match pow2_log q with Some k => Some (Z.succ k) | None => None end
  | xI _ => None
  end.
(* floor (q * 2^128) *)
Definition fix128 (q : Q) : Z :=
  match pow2_log (Qden q) with
  | Some k => if (k <=? grid_bits)%Z then Z.shiftl (Qnum q) (grid_bits - k) else Z.shiftr (Qnum q) (k - grid_bits)
  | None => (Qnum q * Zpos grid / Zpos (Qden q))%Z
  end.
(* floor (a / b * 2^128) for dyadic a, b with b > 0 (0 otherwise: such a route is an error anyway) *)
Definition fix128_div (a b : Q) : Z :=
  match pow2_log (Qden a), pow2_log (Qden b) with
  | Some ka, Some kb =>
      if (Qnum b <=? 0)%Z then 0%Z
      else let s := (grid_bits + kb - ka)%Z in
           if (0 <=? s)%Z then (Z.shiftl (Qnum a) s / Qnum b)%Z else (Qnum a / Z.shiftl (Qnum b) (- s))%Z
  | _, _ => fix128 (a / b)
  end.
Definition unfix (z : Z) : Q := Qmake z grid.
Definition dy (q : Q) : Q := unfix (fix128 q).

(* The same rationals with a cheaper representation: the sum of two dyadic numbers is formed on the larger of the
   two power-of-two denominators instead of their product ([Qplus] multiplies denominators, so the sum of a dozen
   per-feature costs would carry a denominator of thousands of bits).  [dyadd a b == a + b] always. *)
Definition dyadd (a b : Q) : Q :=
  match pow2_log (Qden a), pow2_log (Qden b) with
  | Some ka, Some kb =>
      if (ka <=? kb)%Z then Qmake (Z.shiftl (Qnum a) (kb - ka) + Qnum b) (Qden b)
      else Qmake (Qnum a + Z.shiftl (Qnum b) (ka - kb)) (Qden a)
  | _, _ => Qplus a b
  end.
Definition QD : Num := {|
  T := Q; zero := 0; one := 1;
  add := dyadd; sub := fun a b => dyadd a (Qopp b); mul := Qmult; div := Qdiv; opp := Qopp;
  ltb := Qltb; leb := Qle_bool; eqb := Qeq_bool;
  of_Z := inject_Z; lit := Qlit |}.

Record acc : Type :=
  { a_len : Z; a_los : Z; a_delay : Z; a_other : option nat; a_prev : list float }.

(* fixed-point helpers: integers are multiples of 2^-128 *)
Definition mulF (a b : Z) : Z := Z.shiftr (a * b) grid_bits.          (* floor of the product *)
Definition ffix (f : float) : Z := fix128 (qf f).                       (* exact for |f| >= 2^-75 or f = 0 *)
(* |obs - expd| <= scale / den, with 8 grid units (2^-125) of slack for the floors taken on the way *)
Definition closeZ (obs expd scale den : Z) : bool := (Z.abs (obs - expd) <=? scale / den + 8)%Z.

(* per-case constants *)
Record consts : Type :=
  { k_n : nat; k_id : option nat; k_it : option nat; k_d0 : Z; k_t0 : Z;
    k_Kd : Z; k_Kt : Z; k_Kdelay : Z; k_Kd_si : Q; k_Kt_si : Q; k_Kdelay_si : Q;
    k_sens : Z; k_zeros : list Q; k_speed_model : bool }.

Definition slot_d (sm : smodel Q) : option (nat * dist_unit) :=
  match get_index sm distance_name, lookup_feature sm distance_name with
  | Some i, Some (FDistance u _) => Some (i, u) | _, _ => None end.
Definition slot_t (sm : smodel Q) : option (nat * time_unit) :=
  match get_index sm time_name, lookup_feature sm time_name with
  | Some i, Some (FTime u _) => Some (i, u) | _, _ => None end.

Definition consts_of (inst : instance Q) (cm : Cost.cost_model Q) : consts :=
  let sm := i_sm inst in
  let init := initial_state sm in
  let fu_d := match slot_d sm with Some (_, u) => u | None => Meters end in
  let fu_t := match slot_t sm with Some (_, u) => u | None => Seconds end in
  let id := match slot_d sm with Some (i, _) => Some i | None => None end in
  let it := match slot_t sm with Some (i, _) => Some i | None => None end in
  {| k_n := List.length sm; k_id := id; k_it := it;
     k_d0 := fix128 (match id with Some i => nth i init 0 | None => 0 end);
     k_t0 := fix128 (match it with Some i => nth i init 0 | None => 0 end);
     k_Kd := fix128 (Kd inst fu_d); k_Kt := fix128 (Kt inst fu_t); k_Kdelay := fix128 (Kdelay inst fu_t);
     k_Kd_si := Qred (Kd_si fu_d); k_Kt_si := Qred (Kt_si inst fu_t); k_Kdelay_si := Qred (Kdelay_si inst fu_t);
     k_sens := fix128 (cost_sensitivity cm) + 1; k_zeros := repeat 0 (List.length sm);
     k_speed_model := match i_tm inst with TMSpeed _ => true | _ => false end |}.

(* z (fixed point) times a small exact rational, floor *)
Definition mulQ (z : Z) (q : Q) : Z := (z * Qnum q / Zpos (Qden q))%Z.

Section Judge.
  Variable inst : instance Q.
  Variable cm : Cost.cost_model Q.
  Variable K : consts.

  Definition put (l : list Q) (s : option nat) (v : Q) : list Q :=
    match s with Some i => set_nth l i v | None => l end.
  Definition is_slot (j : nat) (o : option nat) : bool :=
    match o with Some i => Nat.eqb i j | None => false end.
  Definition abs_sum (l : list float) : Z := fold_left (fun a f => a + Z.abs (ffix f))%Z l 0%Z.

  (* one edge of a route: expected values from the accumulators, compared with the observed EdgeTraversal *)
  Definition judge_edge (d : direction) (k : nat) (a : acc) (e : nat) (o : etrav float) (tot : float) : acc + string :=
    let pair := pair_of d e (a_other a) in
    let ql := fix128 (len inst e) in
    let qlos := if k_speed_model K then fix128_div (len inst e) (speed inst e) else 0%Z in
    let qdel := fix128 (raw_pair_delay inst pair) in
    let zl := (a_len a + ql)%Z in
    let zlos := (a_los a + qlos)%Z in
    let zdel := (a_delay a + qdel)%Z in
    let a' := Build_acc zl zlos zdel (Some e) (et_state o) in
    let st := et_state o in
    let tag s := inr ("REJECT(edge " ++ show_nat k ++ ": " ++ s ++ ")")%string in
    if negb (Nat.eqb (et_edge o) e) then tag "edge id"
    else if negb (Nat.eqb (List.length st) (k_n K)) then tag "state length"
    else if negb (forallb finite st && finite (et_access o) && finite (et_trav o) && finite tot) then tag "non-finite value"
    else
      (* distance: declared initial value + (sum of lengths) in the feature's unit; 1e-9 relative; exact SI factor
         within 0.5 %; never decreasing (compared as floats) *)
      let okd := match k_id K with
                 | None => true
                 | Some i =>
                     let f := nth i st PrimFloat.zero in
                     let obs := ffix f in
                     closeZ obs (k_d0 K + mulF zl (k_Kd K)) (Z.abs obs + Z.abs (k_d0 K)) 1000000000
                     && closeZ (obs - k_d0 K) (mulQ zl (k_Kd_si K)) (5 * Z.abs (obs - k_d0 K)) 1000
                     && PrimFloat.leb (nth i (a_prev a) PrimFloat.zero) f
                 end in
      (* time: declared initial value + sum len/speed + sum of the delays of the turns taken *)
      let okt := match k_it K with
                 | None => true
                 | Some i =>
                     let f := nth i st PrimFloat.zero in
                     let obs := ffix f in
                     closeZ obs (k_t0 K + mulF zlos (k_Kt K) + mulF zdel (k_Kdelay K)) (Z.abs obs + Z.abs (k_t0 K)) 1000000000
                     && closeZ (obs - k_t0 K) (mulQ zlos (k_Kt_si K) + mulQ zdel (k_Kdelay_si K)) (5 * Z.abs (obs - k_t0 K)) 1000
                     && PrimFloat.leb (nth i (a_prev a) PrimFloat.zero) f
                 end in
      (* every other slot is untouched (bit for bit) *)
      let oko := forallb (fun j => is_slot j (k_id K) || is_slot j (k_it K) ||
                                   String.eqb (show_float (nth j st PrimFloat.zero)) (show_float (nth j (a_prev a) PrimFloat.zero)))
                         (seq 0 (k_n K)) in
      (* costs: the cost model (Model/Cost.v in exact dyadic rationals) applied to this edge's increments;
         band: 1e-8 relative + 1e-13 * (cost sensitivity) * |state| for the rounding of the float state difference *)
      let dinc := unfix (mulF ql (k_Kd K)) in
      let zacc := mulF qdel (k_Kdelay K) in
      let tacc := unfix zacc in
      let tinc := unfix (zacc + mulF qlos (k_Kt K)) in
      let zp := option_map zpair pair in
      let x_access := match zp with
                      | None => 0%Z
                      | Some pe => fix128 (rget (Cost.access_cost QD cm pe (k_zeros K) (put (k_zeros K) (k_it K) tacc)) 0)
                      end in
      let x_total := fix128 (rget (Cost.edge_cost QD cm zp (Z.of_nat e) (k_zeros K)
                                                  (put (put (k_zeros K) (k_it K) tinc) (k_id K) dinc)) 0) in
      let scale := ((Z.abs x_total + Z.abs x_access) / 100000000
                    + mulF (k_sens K) (abs_sum st) / 10000000000000 + 8)%Z in
      let okc := (Z.abs (ffix (et_access o) - x_access) <=? scale)%Z
                 && (Z.abs (ffix (et_trav o) - (x_total - x_access)) <=? scale)%Z
                 && (Z.abs (ffix tot - x_total) <=? scale)%Z in
      if negb okd then tag "distance is not initial + sum of lengths, or decreases"
      else if negb okt then tag "time is not initial + sum length/speed + sum turn delays, or decreases"
      else if negb oko then tag "an unrelated state slot changed"
      else if negb okc then tag "cost is not the weighted, rated change of state on the edge"
      else inl a'.

  Fixpoint judge_walk (d : direction) (k : nat) (a : acc) (es : list nat) (os : list (etrav float)) (ts : list float)
    : acc + string :=
    match es, os, ts with
    | [], [], [] => inl a
    | e :: er, o :: or, t :: tr =>
        match judge_edge d k a e o t with
        | inl a' => judge_walk d (S k) a' er or tr
        | inr s => inr s
        end
    | _, _, _ => inr "REJECT(route length)"%string
    end.
End Judge.

(* Does the property expect a route at all?  Whether a traversal step fails never depends on the NUMBERS in the
   state vector (they only flow into arithmetic; the failures are missing edges / vertices / table rows / features,
   non-positive speed or length, a state vector of the wrong length), so the status of a walk is decided by running
   the model in rationals one step at a time from the declared initial state (small numbers), not along the
   accumulated state.  The accumulated values are judged against the closed forms. *)
Fixpoint walk_status (step : nat -> option nat -> list Q -> res (etrav Q)) (other : option nat) (st0 : list Q)
         (es : list nat) : option string :=
  match es with
  | [] => None
  | e :: r =>
      match step e other st0 with
      | Ok _ => walk_status step (Some e) st0 r
      | Err c => Some ("Err " ++ c)%string
      | Panic _ => Some "Panic"%string
      | OutOfFuel => Some "Hang"%string
      end
  end.
(* the cost functions cannot fail on a state vector of the right length (one slot per feature), and the walk below
   always starts from the declared initial state, so the status is computed with constant cost functions *)
Definition no_cost : cost_fns Q := Build_cost_fns (fun _ _ _ _ => Ok 1) (fun _ _ _ _ => Ok 1) (fun x => x).
Definition step_of (inst : instance Q) (d : direction) :=
  let i := Build_instance (i_graph inst) (i_sm inst) (i_tm inst) (i_am inst) no_cost in
  match d with Forward => forward_traversal QN i | Reverse => reverse_traversal QN i end.

Definition judge_route (inst : instance Q) (cm : Cost.cost_model Q) (K : consts) (d : direction) (a : acc) (es : list nat)
           (obs : res (list (etrav float)) * list float) : (acc * string) + string :=
  match walk_status (step_of inst d) (a_other a) (initial_state (i_sm inst)) es with
  | Some s => inr (s ++ "/[]")%string       (* no route: the implementation must report the same failure *)
  | None =>
      match fst obs with
      | Ok os => match judge_walk inst cm K d 0 a es os (snd obs) with
                 | inl a' => inl (a', (show_route show_float (fst obs) ++ "/" ++ show_list show_float (snd obs))%string)
                 | inr s => inr s
                 end
      | _ => inr "REJECT(implementation failed where the property expects a route)"%string
      end
  end.

Definition last_state (os : list (etrav float)) (d : list float) : list float :=
  match last (map Some os) None with Some o => et_state o | None => d end.

(* summary = names zipped with the state after the last edge, bit for bit *)
Definition judge_summary (c : case_t Q) (inst : instance Q) (route : list (etrav float)) (s : res (list (string * float))) : string :=
  let expected := match route with
                  | [] => Err "EmptyRoute"%string
                  | _ => if c_summary c then Ok (combine (map fst (i_sm inst)) (last_state route []))
                         else Err "not rendered"%string
                  end in
  if String.eqb (show_summary show_float expected) (show_summary show_float s)
  then show_summary show_float s else "REJECT(summary is not the state after the last edge)"%string.

Definition obs_route (rts : list ((string * res (list (etrav float))) * list float)) (name : string)
  : res (list (etrav float)) * list float :=
  match find (fun nrt => String.eqb (fst (fst nrt)) name) rts with
  | Some nrt => (snd (fst nrt), snd nrt)
  | None => (Err "missing"%string, [])
  end.

(* one route of an edge-oriented result: source edge (zero cost, declared initial state, bit for bit), the inner
   edges judged like any forward route from the initial state, target edge (zero cost, the state of the last inner
   edge, bit for bit); total_cost() of the two end edges is the floor of zero *)
Fixpoint split_last {A} (l : list A) : option (list A * A) :=
  match l with
  | [] => None
  | [x] => Some ([], x)
  | x :: r => match split_last r with Some (m, z) => Some (x :: m, z) | None => None end
  end.
Definition same_floats (a b : list float) : bool :=
  Nat.eqb (List.length a) (List.length b)
  && forallb (fun p => String.eqb (show_float (fst p)) (show_float (snd p))) (combine a b).
Definition zero_cost_end (e : nat) (st : list float) (o : etrav float) (tot : float) : bool :=
  Nat.eqb (et_edge o) e
  && String.eqb (show_float (et_access o)) "+0" && String.eqb (show_float (et_trav o)) "+0"
  && same_floats (et_state o) st
  && String.eqb (show_float tot) (show_float (Cost.enforce_strictly_positive FN PrimFloat.zero)).
Definition judge_edge_route (inst : instance Q) (cm : Cost.cost_model Q) (K : consts) (a0 : acc) (impl_init : list float)
           (source target : nat) (inner : list nat) (obs : res (list (etrav float)) * list float)
  : (acc * string) + string :=
  match fst obs, snd obs with
  | Ok (first :: rest), t0 :: trest =>
      match split_last rest, split_last trest with
      | Some (mid, lst), Some (tmid, tl) =>
          if negb (zero_cost_end source impl_init first t0)
          then inr "REJECT(origin edge of an edge-oriented route: not zero cost with the declared initial state)"%string
          else match judge_route inst cm K Forward a0 inner (Ok mid, tmid) with
               | inr s0 => inr s0
               | inl (a', _) =>
                   if negb (zero_cost_end target (last_state mid impl_init) lst tl)
                   then inr "REJECT(destination edge of an edge-oriented route: not zero cost with the state after the last edge of THIS route)"%string
                   else inl (a', (show_route show_float (fst obs) ++ "/" ++ show_list show_float (snd obs))%string)
               end
      | _, _ => inr "REJECT(edge-oriented route without its end edges)"%string
      end
  | Ok _, _ => inr "REJECT(edge-oriented route without its end edges)"%string
  | _, _ => inr "REJECT(implementation failed where the property expects a route)"%string
  end.

Definition init_ok (inst : instance Q) (impl_init : list float) : bool :=
  let init := initial_state (i_sm inst) in
  Nat.eqb (List.length init) (List.length impl_init)
  && forallb (fun p => Qeq_bool (fst p) (qf (snd p)) && finite (snd p)) (combine init impl_init).
Definition piece (name : string) (r : (acc * string) + string) : string :=
  (name ++ "=" ++ match r with inl (_, s) => s | inr s => s end)%string.
Definition route_names (n : nat) : list string := map (fun k => ("r" ++ show_nat k)%string) (seq 0 n).

(* the routes of one response: every route against ITS OWN edges, every summary against the last state of ITS OWN route *)
Definition judge_multi (c : case_t Q) (inst : instance Q) (cm : Cost.cost_model Q) (impl_init : list float)
           (rs0 : list (string * res (list (etrav float)))) (ts0 : list (list float))
           (ss : list (res (list (string * float)))) : string :=
  let rs := combine rs0 ts0 in
  let K := consts_of inst cm in
  let a0 := Build_acc 0%Z 0%Z 0%Z None impl_init in
  let verdicts : option (list (string * ((acc * string) + string))) :=
    match c_op c with
    | OMulti ess => Some (map (fun ne => (fst ne, judge_route inst cm K Forward a0 (snd ne) (obs_route rs (fst ne))))
                              (combine (route_names (List.length ess)) ess))
    | OEdge src dst ess =>
        Some (map (fun ne => (fst ne, judge_edge_route inst cm K a0 impl_init src dst (snd ne) (obs_route rs (fst ne))))
                  (combine (route_names (List.length ess)) ess))
    | _ => None
    end in
  if negb (init_ok inst impl_init) then "REJECT(initial state is not the declared one)"%string
  else
  match verdicts with
  | None => "REJECT(several routes for an operation that has one)"%string
  | Some vs =>
      if negb (Nat.eqb (List.length vs) (List.length rs0) && Nat.eqb (List.length ss) (List.length rs0))
      then "REJECT(number of routes / summaries)"%string
      else
        let sums := map (fun vs' => match snd (fst vs') with
                                    | inl _ => judge_summary c inst (rget (fst (obs_route rs (fst (fst vs')))) []) (snd vs')
                                    | inr _ => "None"%string
                                    end) (combine vs ss) in
        (* a rejected route / summary is named first (the full text follows) *)
        let why := List.app
                     (flat_map (fun v => match snd v with inr r => [(fst v ++ ": " ++ r)%string] | inl _ => [] end) vs)
                     (flat_map (fun ns => if String.prefix "REJECT" (snd ns) then [(fst ns ++ ": " ++ snd ns)%string] else [])
                               (combine (map fst vs) sums)) in
        ((match why with [] => "" | w :: _ => w ++ " | " end)
         ++ join " " (map (fun v => piece (fst v) (snd v)) vs) ++ " sums=[" ++ join "," sums ++ "]")%string
  end.

Definition judge (c : case_t Q) (impl_init : list float) (impl : outcome float) : string :=
  match build QN c with
  | Err cls => ("BuildErr " ++ cls)%string
  | Panic _ => "BuildErr Panic"%string
  | OutOfFuel => "BuildErr Hang"%string
  | Ok (inst, cm) =>
      match impl with
      | OBuildErr _ => "REJECT(implementation failed to build a valid configuration)"%string
      | OMultiRoutes rs0 ts0 ss => judge_multi c inst cm impl_init rs0 ts0 ss
      | ORoutes rs0 ts0 s =>
          let rs := combine rs0 ts0 in
          let init := initial_state (i_sm inst) in
          let K := consts_of inst cm in
          (* the declared initial state, bit for bit *)
          if negb (Nat.eqb (List.length init) (List.length impl_init)
                   && forallb (fun p => Qeq_bool (fst p) (qf (snd p)) && finite (snd p)) (combine init impl_init))
          then "REJECT(initial state is not the declared one)"%string
          else
          let a0 := Build_acc 0%Z 0%Z 0%Z None impl_init in
          let piece name r := (name ++ "=" ++ match r with inl (_, s) => s | inr s => s end)%string in
          match c_op c with
          | OForward es =>
              let r := judge_route inst cm K Forward a0 es (obs_route rs "route") in
              (piece "route" r ++ " sum=" ++
               match r with
               | inl _ => judge_summary c inst (rget (fst (obs_route rs "route")) []) s
               | inr _ => "None"
               end)%string
          | OReverse es =>
              let r := judge_route inst cm K Reverse a0 es (obs_route rs "rroute") in
              (piece "rroute" r ++ " sum=None")%string
          | OVia f rv =>
              let rf := judge_route inst cm K Forward a0 f (obs_route rs "fwd") in
              let rr := judge_route inst cm K Reverse a0 rv (obs_route rs "rev") in
              match rf, rr with
              | inl (af, _), inl _ =>
                  (* the reverse half, re-oriented: accumulation continues from the forward half *)
                  let ofwd := rget (fst (obs_route rs "fwd")) [] in
                  let av := Build_acc (a_len af) (a_los af) (a_delay af) (a_other af) (last_state ofwd impl_init) in
                  let rv' := judge_route inst cm K Forward av (rev rv) (obs_route rs "via") in
                  (piece "fwd" rf ++ " " ++ piece "rev" rr ++ " " ++ piece "via" rv' ++ " sum=" ++
                   match rv' with
                   | inl _ => judge_summary c inst (ofwd ++ rget (fst (obs_route rs "via")) []) s
                   | inr _ => "None"
                   end)%string
              | _, _ => (piece "fwd" rf ++ " " ++ piece "rev" rr ++ " sum=None")%string
              end
          | OMulti _ | OEdge _ _ _ => "REJECT(one summary for an operation with several routes)"%string
          end
      end
  end.

Definition line_S (id : Z) (mk : case_gen) (impl_init : list float) (impl : outcome float) : string :=
  line "S" id (judge (mk Q qf) impl_init impl).

End TR.
