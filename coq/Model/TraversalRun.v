(* Runner for the C03 correspondence streams.

   A case (type [case_t A], emitted by harness/src/bin/c03.rs as a function of the number type, so the same text is
   read as binary64 for the M line and as exact rationals for the S line) holds: a graph, the configured state
   features, the query's state_features, the traversal model configuration (distance model, or speed table + units),
   the access model configuration (none, or heading table + turn-delay table + unit), the cost model configuration
   (weights, vehicle rates, network rates, aggregation; Model/Cost.v of property C07) and an operation:
     OForward es     EdgeTraversal::forward_traversal edge after edge from the declared initial state
     OReverse es     EdgeTraversal::reverse_traversal edge after edge (es listed from the destination backwards)
     OVia fwd rev    both of the above, then bidirectional_ops::reorient_reverse_route(fwd, rev)
     OMulti ess      the routes RETURNED BY A REAL SEARCH (Dijkstra, A*, single-via k-shortest paths) on this
                     configuration: each is re-traversed forward from the declared initial state
   M line  the model of Model/Traversal.v in binary64 -- compared bit for bit with the implementation's line.
   S line  the PROPERTY judged in exact rational arithmetic on the floats the implementation printed (embedded in the
           term): every reported state slot against the closed forms of Model/TraversalSpec.v computed from the raw
           tables (Sum len * Kd,  Sum len/speed * Kt + Sum delay * Kdelay, from the declared initial state), every
           other slot unchanged, distance and time never decreasing, costs = Model/Cost.v (rationals) applied to that
           edge's increments, summary = last state.  An accepted output is re-printed in the implementation's
           format (so I = S), a rejected one prints REJECT(edge index, what). Tolerances: see [judge]. *)
From Coq Require Import ZArith QArith Qabs List String Bool Floats.
From RC Require Import Base.Show Base.Num Base.Res Base.Json Model.Units Model.UnitsRun Model.StateOps
  Model.Traversal Model.TraversalSpec Model.Cost.
Import ListNotations.

Module TR.
Import Units StateOps Traversal TSpec.
Local Open Scope string_scope.

(* ------------------------------------------------------------------ cases *)
Inductive tm_cfg (A : Type) : Type :=
| TDist (du : dist_unit)
| TSpeed (table : list A) (su : speed_unit) (du : option dist_unit) (tu : option time_unit).
Arguments TDist {A} du. Arguments TSpeed {A} table su du tu.
Inductive am_cfg (A : Type) : Type :=
| ANone
| ATurn (hs : list heading) (table : list (turn * A)) (u : time_unit) (fname : string).
Arguments ANone {A}. Arguments ATurn {A} hs table u fname.
Record cost_cfg (A : Type) : Type :=
  { cc_w : list (string * A); cc_v : list (string * Cost.vrate A); cc_n : list (string * Cost.nrate A);
    cc_agg : Cost.agg }.
Arguments cc_w {A} c. Arguments cc_v {A} c. Arguments cc_n {A} c. Arguments cc_agg {A} c.
Arguments Build_cost_cfg {A} cc_w cc_v cc_n cc_agg.
Inductive op : Set :=
| OForward (es : list nat) | OReverse (es : list nat) | OVia (fwd rev : list nat)
| OMulti (ess : list (list nat)).   (* several routes (returned by one real search), each re-traversed from the initial state *)

Record case_t (A : Type) : Type :=
  { c_nv : nat; c_edges : list (nat * nat * A);
    c_features : list (string * feature A); c_user : list (string * feature A);
    c_tm : tm_cfg A; c_am : am_cfg A; c_cost : cost_cfg A; c_op : op;
    c_summary : bool   (* whether the route is also rendered by the output plugin (traversal_summary) *) }.
Arguments c_nv {A} c. Arguments c_edges {A} c. Arguments c_features {A} c. Arguments c_user {A} c.
Arguments c_tm {A} c. Arguments c_am {A} c. Arguments c_cost {A} c. Arguments c_op {A} c. Arguments c_summary {A} c.
Arguments Build_case_t {A} c_nv c_edges c_features c_user c_tm c_am c_cost c_op c_summary.

Definition zpair (p : nat * nat) : Z * Z := (Z.of_nat (fst p), Z.of_nat (snd p)).
Definition cost_fns_of (N : Num) (cm : Cost.cost_model N) : cost_fns N :=
  Build_cost_fns
    (fun e1 e2 p n => Cost.access_cost N cm (zpair (e1, e2)) p n)
    (fun pair e p n => Cost.edge_cost N cm (option_map zpair pair) (Z.of_nat e) p n).

(* SearchApp::build_search_instance: traversal model, access model, state model extended by the models' features
   and then the query's, cost model over the extended state model *)
Definition build (N : Num) (c : case_t N) : res (instance N * Cost.cost_model N) :=
  do tm <- match c_tm c with
           | TDist du => Ok (TMDistance du)
           | TSpeed t su du tu => do en <- engine_new N t su du tu; Ok (TMSpeed en)
           end;
  let am := match c_am c with
            | ANone => AMNone
            | ATurn hs t u f => AMTurnDelay (Build_turn_delay hs t u f)
            end in
  do sm <- extend (c_features c) (tm_state_features N tm ++ c_user c);
  do cm <- Cost.new N (cc_w (c_cost c)) (cc_v (c_cost c)) (cc_n (c_cost c)) (cc_agg (c_cost c)) (map fst sm);
  Ok (Build_instance
        (Build_graph (c_nv c) (map (fun e => Build_edge (fst (fst e)) (snd (fst e)) (snd e)) (c_edges c)))
        sm tm am (cost_fns_of N cm), cm).

Inductive outcome (A : Type) : Type :=
| OBuildErr (cls : string)
| ORoutes (rs : list (string * res (list (etrav A)))) (summary : res (list (string * A))).
Arguments OBuildErr {A} cls. Arguments ORoutes {A} rs summary.

(* construct_route_output also renders the cost model: CostModel::serialize_cost_info does `json![net_rate]`, and
   serde_json cannot write the tuple keys of an EdgeEdgeLookup ("key must be a string"): the macro unwraps, the
   plugin panics and no summary is produced for such a configuration (current behaviour, reported as a finding) *)
Fixpoint has_pair_rate {A} (r : Cost.nrate A) : bool :=
  match r with
  | Cost.NEdgeEdge _ => true
  | Cost.NCombined l => existsb has_pair_rate l
  | _ => false
  end.
Definition summary_of (N : Num) (c : case_t N) (inst : instance N) (route : list (etrav N)) : res (list (string * N)) :=
  if negb (c_summary c) then Err "not rendered"
  else match route with
       | [] => Err "EmptyRoute"
       | _ => if existsb (fun nr => has_pair_rate (snd nr)) (cc_n (c_cost c)) then Panic "serialize_cost_info"
              else traversal_summary N inst route
       end.

Definition run (N : Num) (c : case_t N) : outcome N :=
  match build N c with
  | Ok (inst, _) =>
      let init := initial_state (i_sm inst) in
      match c_op c with
      | OForward es =>
          let r := run_forward N inst None init es in
          ORoutes [("route", r)] (match r with Ok l => summary_of N c inst l | _ => Err "no route" end)
      | OReverse es => ORoutes [("rroute", run_reverse N inst None init es)] (Err "not rendered")
      | OVia f rv =>
          let rf := run_forward N inst None init f in
          let rr := run_reverse N inst None init rv in
          match rf, rr with
          | Ok lf, Ok lr =>
              let v := reorient_reverse_route N inst lf lr in
              ORoutes [("fwd", rf); ("rev", rr); ("via", v)]
                      (match v with Ok lv => summary_of N c inst (lf ++ lv) | _ => Err "no route" end)
          | _, _ => ORoutes [("fwd", rf); ("rev", rr)] (Err "no route")
          end
      | OMulti ess =>
          ORoutes (map (fun kes => (("r" ++ show_nat (fst kes))%string, run_forward N inst None init (snd kes)))
                       (combine (seq 0 (List.length ess)) ess)) (Err "not rendered")
      end
  | Err cls => OBuildErr cls
  | Panic _ => OBuildErr "Panic"
  | OutOfFuel => OBuildErr "Hang"
  end.

(* ------------------------------------------------------------------ canonical text *)
Section Show.
  Context {A : Type} (sh : A -> string).
  Definition show_et (et : etrav A) : string :=
    show_nat (et_edge et) ++ ":" ++ sh (et_access et) ++ ":" ++ sh (et_trav et) ++ ":" ++ show_list sh (et_state et).
  Definition show_route (r : res (list (etrav A))) : string :=
    match r with
    | Ok l => show_list show_et l
    | Err c => "Err " ++ c
    | Panic _ => "Panic"
    | OutOfFuel => "Hang"
    end.
  Definition show_summary (s : res (list (string * A))) : string :=
    match s with
    | Err _ => "None"
    | Panic _ => "Panic"
    | OutOfFuel => "Hang"
    | Ok kvs => "{" ++ join "," (map (fun kv => fst kv ++ ":" ++ sh (snd kv)) (sort_by_key kvs)) ++ "}"
    end.
  Definition show_outcome (o : outcome A) : string :=
    match o with
    | OBuildErr cls => "BuildErr " ++ cls
    | ORoutes rs s => join " " (map (fun nr => fst nr ++ "=" ++ show_route (snd nr)) rs) ++ " sum=" ++ show_summary s
    end.
End Show.

Definition case_gen : Type := forall A : Type, (float -> A) -> case_t A.

Definition line_M (id : Z) (mk : case_gen) : string :=
  line "M" id (show_outcome show_float (run FN (mk float (fun x => x)))).

(* ------------------------------------------------------------------ the judge (S line) *)
Local Open Scope Q_scope.
Definition qf (f : float) : Q := match UnitsRun.Q_of_float f with Some q => q | None => 0 end.
Definition finite (f : float) : bool := match UnitsRun.Q_of_float f with Some _ => true | None => false end.

Definition eps_state : Q := 1 # 1000000000.        (* 1e-9: binary64 rounding of <= ~200 operations is < 1e-13 *)
Definition eps_cost : Q := 1 # 100000000.          (* 1e-8 relative on a cost *)
Definition eps_delta : Q := 1 # 10000000000000.    (* 1e-13 * |state|: rounding of the state difference a cost is computed from *)
Definition eps_si : Q := 5 # 1000.                 (* table factors vs exact SI: <= 4 factors each within 0.1 % (C09) *)

Definition close (e : Q) (obs expd scale : Q) : bool := Qle_bool (Qabs (obs - expd)) (e * scale).

Fixpoint vmag (r : Cost.vrate Q) : Q :=
  match r with
  | Cost.VZero => 0
  | Cost.VRaw => 1
  | Cost.VFactor f => Qabs f
  | Cost.VOffset _ => 1
  | Cost.VCombined l => fold_left (fun a r' => a * (if Qle_bool (vmag r') 1 then 1 else vmag r')) l 1
  end.
Definition cost_sensitivity (cm : Cost.cost_model Q) : Q :=
  fold_left (fun a f => a + Qabs (Cost.fw f) * vmag (Cost.fv f)) (Cost.cm_feats cm) 0.

Definition rget {A} (r : res A) (d : A) : A := match r with Ok a => a | _ => d end.

(* accumulators of the closed forms along a route *)
Record acc : Type :=
  { a_len : Q; a_los : Q; a_delay : Q; a_other : option nat; a_prev : list float }.

Section Judge.
  Variable inst : instance Q.
  Variable cm : Cost.cost_model Q.
  Let sm := i_sm inst.
  Let n := List.length sm.

  Definition slot_d : option (nat * dist_unit) :=
    match get_index sm distance_name, lookup_feature sm distance_name with
    | Some i, Some (FDistance u _) => Some (i, u) | _, _ => None end.
  Definition slot_t : option (nat * time_unit) :=
    match get_index sm time_name, lookup_feature sm time_name with
    | Some i, Some (FTime u _) => Some (i, u) | _, _ => None end.
  Definition fu_d : dist_unit := match slot_d with Some (_, u) => u | None => Meters end.
  Definition fu_t : time_unit := match slot_t with Some (_, u) => u | None => Seconds end.
  Definition init : list Q := initial_state sm.
  Definition d0 : Q := match slot_d with Some (i, _) => nth i init 0 | None => 0 end.
  Definition t0 : Q := match slot_t with Some (i, _) => nth i init 0 | None => 0 end.

  Definition zeros : list Q := repeat 0 n.
  Definition put (l : list Q) (s : option nat) (v : Q) : list Q :=
    match s with Some i => set_nth l i v | None => l end.
  Definition id_opt : option nat := match slot_d with Some (i, _) => Some i | None => None end.
  Definition it_opt : option nat := match slot_t with Some (i, _) => Some i | None => None end.

  Definition is_slot (j : nat) (o : option nat) : bool :=
    match o with Some i => Nat.eqb i j | None => false end.
  Definition abs_sum (l : list float) : Q := fold_left (fun a f => a + Qabs (qf f)) l 0.

  (* one edge of a route: expected values from the accumulators, compared with the observed EdgeTraversal *)
  Definition judge_edge (d : direction) (k : nat) (a : acc) (e : nat) (o : etrav float) : acc + string :=
    let pair := pair_of d e (a_other a) in
    let sl := a_len a + len inst e in
    let slos := a_los a + (match i_tm inst with TMSpeed _ => len inst e / speed inst e | _ => 0 end) in
    let sdel := a_delay a + raw_pair_delay inst pair in
    let a' := Build_acc sl slos sdel (Some e) (et_state o) in
    let st := et_state o in
    let tag s := inr ("REJECT(edge " ++ show_nat k ++ ": " ++ s ++ ")")%string in
    if negb (Nat.eqb (et_edge o) e) then tag "edge id"
    else if negb (Nat.eqb (List.length st) n) then tag "state length"
    else if negb (forallb finite st && finite (et_access o) && finite (et_trav o)) then tag "non-finite value"
    else
      (* distance: declared initial value + (sum of lengths) in the feature's unit *)
      let okd := match slot_d with
                 | None => true
                 | Some (i, _) =>
                     let obs := qf (nth i st PrimFloat.zero) in
                     close eps_state obs (d0 + sl * Kd inst fu_d) (Qabs obs + Qabs d0)
                     && close eps_si (obs - d0) (sl * Kd_si fu_d) (Qabs (sl * Kd_si fu_d))
                     && Qle_bool (qf (nth i (a_prev a) PrimFloat.zero)) obs
                 end in
      (* time: declared initial value + sum len/speed + sum of the delays of the turns taken *)
      let okt := match slot_t with
                 | None => true
                 | Some (i, _) =>
                     let obs := qf (nth i st PrimFloat.zero) in
                     let si := slos * Kt_si inst fu_t + sdel * Kdelay_si inst fu_t in
                     close eps_state obs (t0 + slos * Kt inst fu_t + sdel * Kdelay inst fu_t) (Qabs obs + Qabs t0)
                     && close eps_si (obs - t0) si (Qabs si)
                     && Qle_bool (qf (nth i (a_prev a) PrimFloat.zero)) obs
                 end in
      (* every other slot is untouched (bit for bit) *)
      let oko := forallb (fun j => is_slot j id_opt || is_slot j it_opt ||
                                   String.eqb (show_float (nth j st PrimFloat.zero)) (show_float (nth j (a_prev a) PrimFloat.zero)))
                         (seq 0 n) in
      (* costs: the cost model (rationals) applied to this edge's increments *)
      let dinc := dist_inc inst fu_d e in
      let tacc := delay_inc inst fu_t pair in
      let tinc := tacc + time_inc inst fu_t e in
      let zp := option_map zpair pair in
      let x_access := match zp with
                      | None => 0
                      | Some pe => 0 + rget (Cost.access_cost QN cm pe zeros (put zeros it_opt tacc)) 0
                      end in
      let x_total := rget (Cost.edge_cost QN cm zp (Z.of_nat e) zeros (put (put zeros it_opt tinc) id_opt dinc)) 0 in
      let scale := eps_cost * (Qabs x_total + Qabs x_access) + eps_delta * cost_sensitivity cm * abs_sum st in
      let okc := Qle_bool (Qabs (qf (et_access o) - x_access)) scale
                 && Qle_bool (Qabs (qf (et_trav o) - (x_total - x_access))) scale in
      if negb okd then tag "distance is not initial + sum of lengths, or decreases"
      else if negb okt then tag "time is not initial + sum length/speed + sum turn delays, or decreases"
      else if negb oko then tag "an unrelated state slot changed"
      else if negb okc then tag "cost is not the weighted, rated change of state on the edge"
      else inl a'.

  Fixpoint judge_walk (d : direction) (k : nat) (a : acc) (es : list nat) (os : list (etrav float)) : acc + string :=
    match es, os with
    | [], [] => inl a
    | e :: er, o :: or =>
        match judge_edge d k a e o with
        | inl a' => judge_walk d (S k) a' er or
        | inr s => inr s
        end
    | _, _ => inr "REJECT(route length)"%string
    end.
End Judge.

(* expected status of a route from the model in rationals; the values are judged against the closed forms *)
Definition status_of {A} (r : res (list (etrav A))) : option string :=
  match r with Ok _ => None | Err c => Some ("Err " ++ c)%string | Panic _ => Some "Panic"%string | OutOfFuel => Some "Hang"%string end.

Definition judge_route (inst : instance Q) (cm : Cost.cost_model Q) (d : direction) (a : acc) (es : list nat)
           (spec : res (list (etrav Q))) (obs : res (list (etrav float))) : (acc * string) + string :=
  match status_of spec with
  | Some s => inr s                         (* no route: the implementation must report the same failure *)
  | None =>
      match obs with
      | Ok os => match judge_walk inst cm d 0 a es os with
                 | inl a' => inl (a', show_route show_float obs)
                 | inr s => inr s
                 end
      | _ => inr "REJECT(implementation failed where the property expects a route)"%string
      end
  end.

Definition last_state (os : list (etrav float)) (d : list float) : list float :=
  match last (map Some os) None with Some o => et_state o | None => d end.

(* summary = names zipped with the state after the last edge, bit for bit *)
Definition judge_summary (c : case_t Q) (inst : instance Q) (route : list (etrav float)) (s : res (list (string * float))) : string :=
  let expected := match route with
                  | [] => Err "EmptyRoute"%string
                  | _ => if c_summary c then Ok (combine (map fst (i_sm inst)) (last_state route []))
                         else Err "not rendered"%string
                  end in
  if String.eqb (show_summary show_float expected) (show_summary show_float s)
  then show_summary show_float s else "REJECT(summary is not the state after the last edge)"%string.

Definition obs_route (rs : list (string * res (list (etrav float)))) (name : string) : res (list (etrav float)) :=
  match find (fun nr => String.eqb (fst nr) name) rs with Some nr => snd nr | None => Err "missing"%string end.

Definition judge (c : case_t Q) (impl_init : list float) (impl : outcome float) : string :=
  match build QN c with
  | Err cls => ("BuildErr " ++ cls)%string
  | Panic _ => "BuildErr Panic"%string
  | OutOfFuel => "BuildErr Hang"%string
  | Ok (inst, cm) =>
      match impl with
      | OBuildErr _ => "REJECT(implementation failed to build a valid configuration)"%string
      | ORoutes rs s =>
          let init := initial_state (i_sm inst) in
          (* the declared initial state, bit for bit *)
          if negb (Nat.eqb (List.length init) (List.length impl_init)
                   && forallb (fun p => Qeq_bool (fst p) (qf (snd p)) && finite (snd p)) (combine init impl_init))
          then "REJECT(initial state is not the declared one)"%string
          else
          let a0 := Build_acc 0 0 0 None impl_init in
          let piece name r := (name ++ "=" ++ match r with inl (_, s) => s | inr s => s end)%string in
          match c_op c with
          | OForward es =>
              let r := judge_route inst cm Forward a0 es (run_forward QN inst None init es) (obs_route rs "route") in
              (piece "route" r ++ " sum=" ++
               match r with
               | inl _ => judge_summary c inst (rget (obs_route rs "route") []) s
               | inr _ => "None"
               end)%string
          | OReverse es =>
              let r := judge_route inst cm Reverse a0 es (run_reverse QN inst None init es) (obs_route rs "rroute") in
              (piece "rroute" r ++ " sum=None")%string
          | OVia f rv =>
              let sf := run_forward QN inst None init f in
              let sr := run_reverse QN inst None init rv in
              let rf := judge_route inst cm Forward a0 f sf (obs_route rs "fwd") in
              let rr := judge_route inst cm Reverse a0 rv sr (obs_route rs "rev") in
              match rf, rr, sf, sr with
              | inl (af, _), inl _, Ok lf, Ok lr =>
                  (* the reverse half, re-oriented: accumulation continues from the forward half *)
                  let ofwd := rget (obs_route rs "fwd") [] in
                  let av := Build_acc (a_len af) (a_los af) (a_delay af) (a_other af) (last_state ofwd impl_init) in
                  let rv' := judge_route inst cm Forward av (rev rv) (reorient_reverse_route QN inst lf lr) (obs_route rs "via") in
                  (piece "fwd" rf ++ " " ++ piece "rev" rr ++ " " ++ piece "via" rv' ++ " sum=" ++
                   match rv' with
                   | inl _ => judge_summary c inst (ofwd ++ rget (obs_route rs "via") []) s
                   | inr _ => "None"
                   end)%string
              | _, _, _, _ => (piece "fwd" rf ++ " " ++ piece "rev" rr ++ " sum=None")%string
              end
          | OMulti ess =>
              (join " " (map (fun kes =>
                               let nm := ("r" ++ show_nat (fst kes))%string in
                               piece nm (judge_route inst cm Forward a0 (snd kes)
                                                     (run_forward QN inst None init (snd kes)) (obs_route rs nm)))
                             (combine (seq 0 (List.length ess)) ess)) ++ " sum=None")%string
          end
      end
  end.

Definition line_S (id : Z) (mk : case_gen) (impl_init : list float) (impl : outcome float) : string :=
  line "S" id (judge (mk Q qf) impl_init impl).

End TR.
