(* SPECIFICATION side of property C03, in exact rationals: what a route accumulates, written directly from the raw
   tables (edge lengths, speed table, heading table, turn-delay table, unit configuration) -- no state vector, no
   name lookups, no error plumbing.  Definitions only; Proofs/Traversal.v proves that the model of
   Model/Traversal.v (instance QN) computes exactly these, Model/TraversalRun.v compares them with the floats the
   implementation printed.

     len e            length of edge e as stored in the graph (metres)
     dist_inc e       what traversing e adds to the "distance" feature, in the feature's unit  (converted once)
     time_inc e       what traversing e adds to the "time" feature: length / table speed, in the feature's unit
     delay_inc pair   what the turn (e1 -> e2) adds to the "time" feature: the table delay of the turn class of the
                      two headings, converted once from the table's unit to the feature's unit; 0 without a pair
     sum_dist, sum_time  the sums along an edge sequence; [pair_of dir this other] orients the pair:
                      forward: the edge is reached FROM [other];  reverse: the edge LEADS TO [other]
   Closed forms (proved equal):  sum_dist es == (Sum len) * Kd,
                                 sum_time    == (Sum len/speed) * Kt + (Sum delay) * Kdelay                       *)
From Coq Require Import ZArith QArith List String Bool.
From RC Require Import Base.Num Base.Res Model.Units Model.UnitsRun Model.StateOps Model.Traversal Gen.TurnTable.
Import ListNotations.

Module TSpec.
Import Units StateOps Traversal TurnTable.
Local Open Scope Q_scope.

Inductive direction : Set := Forward | Reverse.
(* the (prev, next) edge pair whose turn is taken when [this] is traversed next to [other] *)
Definition pair_of (d : direction) (this : nat) (other : option nat) : option (nat * nat) :=
  match other with
  | None => None
  | Some o => Some (match d with Forward => (o, this) | Reverse => (this, o) end)
  end.

(* independent reading of "the turn class of two headings": signed difference of the headings brought into
   [-180, 180) and classified by its magnitude; positive = to the right *)
Definition spec_angle (from_heading to_heading : Z) : Z := ((to_heading - from_heading + 180) mod 360 - 180)%Z.
Definition spec_class (a : Z) : turn :=
  let m := Z.abs a in
  if (m <? 20)%Z then NoTurn
  else if (m <? 45)%Z then (if (0 <? a)%Z then SlightRight else SlightLeft)
  else if (m <? 135)%Z then (if (0 <? a)%Z then Right else Left)
  else if (m <? 160)%Z then (if (0 <? a)%Z then SharpRight else SharpLeft)
  else UTurn.
Definition spec_turn (from_heading to_heading : Z) : turn := spec_class (spec_angle from_heading to_heading).

(* the delay of the turn from edge e1 into edge e2: heading at the END of e1 and at the START of e2, classified by
   [spec_turn] (NOT by the transcription of the Rust code), looked up in the table; 0 when a row is missing (the
   theorems are about routes that exist) *)
Definition spec_delay (td : turn_delay Q) (e1 e2 : nat) : Q :=
  match nth_error (td_headings td) e1, nth_error (td_headings td) e2 with
  | Some h1, Some h2 =>
      match table_get QN (td_table td) (spec_turn (end_heading h1) (start_heading h2)) with
      | Some v => v
      | None => 0
      end
  | _, _ => 0
  end.

(* finite facts about the (regenerated) turn table, proof-free so that a run can still LIST the entries that fail
   when a changed table breaks the proofs of Proofs/Traversal.v:
     turn_ok h1 h2   for one pair of headings: the wrapped difference is in [-180, 180], exactly one arm of
                     Turn::from_angle contains it, from_angle returns that arm's turn, and it is [spec_turn h1 h2]
     angle_ok a      from_angle a is [spec_class a] wherever it does not fail *)
Definition heading_range : list Z := map Z.of_nat (seq 0 360).
Definition angle_range : list Z := map (fun n => (Z.of_nat n - 180)%Z) (seq 0 361).
Definition rows_matching (a : Z) : nat :=
  List.length (filter (fun r => (fst (fst r) <=? a)%Z && (a <=? snd (fst r))%Z) turn_ranges).
Definition turn_ok (h1 h2 : Z) : bool :=
  match bearing_to_destination (Build_heading h1 None) (Build_heading h2 None) with
  | Ok a =>
      (-180 <=? a)%Z && (a <=? 180)%Z && Nat.eqb (rows_matching a) 1
      && match from_angle a with Ok t => turn_eqb t (spec_turn h1 h2) | _ => false end
  | _ => false
  end.
Definition angle_ok (a : Z) : bool :=
  match from_angle a with Ok t => turn_eqb t (spec_class a) | _ => true end.
(* heading pairs (0..359 x 0..359) that fail [turn_ok] *)
Definition turn_failures : list (Z * Z) :=
  filter (fun p => negb (turn_ok (fst p) (snd p))) (list_prod heading_range heading_range).

Section Spec.
  Variable inst : instance Q.
  Variable fu_d : dist_unit.    (* unit of the "distance" feature *)
  Variable fu_t : time_unit.    (* unit of the "time" feature *)

  Definition len (e : nat) : Q :=
    match nth_error (g_edges (i_graph inst)) e with Some x => e_dist x | None => 0 end.
  Definition model_du : dist_unit :=
    match i_tm inst with TMDistance du => du | TMSpeed en => sp_du en end.
  Definition speed (e : nat) : Q :=
    match i_tm inst with TMSpeed en => nth e (sp_table en) 0 | TMDistance _ => 0 end.

  Definition dist_inc (e : nat) : Q :=
    convert_distance QN model_du fu_d (convert_distance QN base_distance_unit model_du (len e)).
  (* Time::create without its guard, then the feature's unit *)
  Definition time_inc (e : nat) : Q :=
    match i_tm inst with
    | TMDistance _ => 0
    | TMSpeed en =>
        convert_time QN (sp_tu en) fu_t
          (convert_time QN base_time_unit (sp_tu en)
             (convert_distance QN (sp_du en) base_distance_unit
                (convert_distance QN base_distance_unit (sp_du en) (len e))
              / convert_speed QN (sp_su en) base_speed_unit (speed e)))
    end.

  Definition raw_delay (td : turn_delay Q) (e1 e2 : nat) : Q := spec_delay td e1 e2.
  Definition delay_inc (pair : option (nat * nat)) : Q :=
    match i_am inst, pair with
    | AMTurnDelay td, Some (e1, e2) => convert_time QN (td_unit td) fu_t (raw_delay td e1 e2)
    | _, _ => 0
    end.

  Fixpoint sum_dist (es : list nat) : Q :=
    match es with [] => 0 | e :: r => dist_inc e + sum_dist r end.
  Fixpoint sum_time (d : direction) (other : option nat) (es : list nat) : Q :=
    match es with
    | [] => 0
    | e :: r => delay_inc (pair_of d e other) + time_inc e + sum_time d (Some e) r
    end.

  (* ---- closed forms ---- *)
  Fixpoint sum_len (es : list nat) : Q := match es with [] => 0 | e :: r => len e + sum_len r end.
  Fixpoint sum_len_over_speed (es : list nat) : Q :=
    match es with [] => 0 | e :: r => len e / speed e + sum_len_over_speed r end.
  Definition raw_pair_delay (pair : option (nat * nat)) : Q :=
    match i_am inst, pair with AMTurnDelay td, Some (e1, e2) => raw_delay td e1 e2 | _, _ => 0 end.
  Fixpoint sum_delay (d : direction) (other : option nat) (es : list nat) : Q :=
    match es with [] => 0 | e :: r => raw_pair_delay (pair_of d e other) + sum_delay d (Some e) r end.

  Definition Kd : Q := k_dist base_distance_unit model_du * k_dist model_du fu_d.
  Definition Kt : Q :=
    match i_tm inst with
    | TMDistance _ => 0
    | TMSpeed en => k_dist base_distance_unit (sp_du en) * UnitsRun.time_factor (sp_su en) (sp_du en) (sp_tu en)
                    * k_time (sp_tu en) fu_t
    end.
  Definition Kdelay : Q :=
    match i_am inst with AMTurnDelay td => k_time (td_unit td) fu_t | _ => 0 end.

  (* the same constants from exact SI definitions (metres, seconds): what the numbers mean physically *)
  Definition Kd_si : Q := 1 / UnitsRun.si_distance fu_d.
  Definition Kt_si : Q :=
    match i_tm inst with
    | TMDistance _ => 0
    | TMSpeed en => 1 / UnitsRun.si_speed (sp_su en) / UnitsRun.si_time fu_t
    end.
  Definition Kdelay_si : Q :=
    match i_am inst with AMTurnDelay td => UnitsRun.si_time (td_unit td) / UnitsRun.si_time fu_t | _ => 0 end.
End Spec.

End TSpec.
