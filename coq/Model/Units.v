(* Unit conversions and the derived-quantity builders of routee-compass-core::model::unit.

   Faithful transcription, definitions only:
     DistanceUnit/TimeUnit/SpeedUnit/EnergyUnit/GradeUnit/WeightUnit ::convert
         -> convert_distance / convert_time / convert_speed / convert_energy / convert_grade / convert_weight
     builders::create_time / create_speed / create_energy (= Time::create, Speed::create, Energy::create)
         -> create_time / create_speed / create_energy
     SpeedUnit::associated_{time,distance}_unit, EnergyRateUnit::associated_{distance,energy}_unit,
     BASE_{DISTANCE,TIME,SPEED}_UNIT

   The factor of every (from, to) arm, and whether the arm multiplies or divides, is NOT written here:
   it is looked up in Gen/UnitTables.v, which the translator regenerates from the Rust sources on every
   run.  The unit enumerations themselves are written by hand (below); [Proofs/Units.v] checks that they
   list exactly the variants the translator found in the source.

   Everything numeric is generic in [N : Num] (explicit first argument): instantiate with [QN] in
   theorems, [FN] for bit-exact execution next to the Rust code.

   Interface for other models:
     types      dist_unit time_unit speed_unit energy_unit energy_rate_unit grade_unit weight_unit
     equality   dist_eqb time_eqb speed_eqb energy_eqb energy_rate_eqb grade_eqb weight_eqb
     names      show_dist ... show_weight   (serde snake_case = Rust Display / config file spelling)
                dist_name ... weight_name   (Rust variant identifier, key of the generated tables)
                dist_of_show ... weight_of_show  (parse the serde spelling)
     all units  all_dist all_time all_speed all_energy all_energy_rate all_grade all_weight
     convert    convert_distance N from to x, convert_time, convert_speed, convert_energy,
                convert_grade, convert_weight
     builders   create_time N speed su distance du tu        : res N
                create_speed N time tu distance du su        : res N
                create_energy N rate eru distance du         : res (N * energy_unit)
     bases      base_distance_unit base_time_unit base_speed_unit
     associated speed_time_unit speed_distance_unit energy_rate_distance_unit energy_rate_energy_unit *)
From Coq Require Import ZArith QArith String List Bool.
From RC Require Import Base.Num Base.Res Gen.UnitTables.
Import ListNotations.

Module Units.
Import UnitTables.
Local Open Scope string_scope.

(* ---- enumerations (declaration order of the Rust enums) ---- *)
Inductive dist_unit : Set := Meters | Kilometers | Miles | Inches | Feet.
Inductive time_unit : Set := Hours | Minutes | Seconds | Milliseconds.
Inductive speed_unit : Set := KilometersPerHour | MilesPerHour | MetersPerSecond.
Inductive energy_unit : Set := GallonsGasoline | GallonsDiesel | KilowattHours.
Inductive energy_rate_unit : Set :=
  GallonsGasolinePerMile | GallonsDieselPerMile | KilowattHoursPerMile | KilowattHoursPerKilometer | KilowattHoursPerMeter.
Inductive grade_unit : Set := Percent | Decimal | Millis.
Inductive weight_unit : Set := Pounds | Tons | Kg.

Definition all_dist := [Meters; Kilometers; Miles; Inches; Feet].
Definition all_time := [Hours; Minutes; Seconds; Milliseconds].
Definition all_speed := [KilometersPerHour; MilesPerHour; MetersPerSecond].
Definition all_energy := [GallonsGasoline; GallonsDiesel; KilowattHours].
Definition all_energy_rate :=
  [GallonsGasolinePerMile; GallonsDieselPerMile; KilowattHoursPerMile; KilowattHoursPerKilometer; KilowattHoursPerMeter].
Definition all_grade := [Percent; Decimal; Millis].
Definition all_weight := [Pounds; Tons; Kg].

(* Rust variant identifiers: keys of the generated tables *)
Definition dist_name (u : dist_unit) : string :=
  match u with Meters => "Meters" | Kilometers => "Kilometers" | Miles => "Miles" | Inches => "Inches" | Feet => "Feet" end.
Definition time_name (u : time_unit) : string :=
  match u with Hours => "Hours" | Minutes => "Minutes" | Seconds => "Seconds" | Milliseconds => "Milliseconds" end.
Definition speed_name (u : speed_unit) : string :=
  match u with KilometersPerHour => "KilometersPerHour" | MilesPerHour => "MilesPerHour" | MetersPerSecond => "MetersPerSecond" end.
Definition energy_name (u : energy_unit) : string :=
  match u with GallonsGasoline => "GallonsGasoline" | GallonsDiesel => "GallonsDiesel" | KilowattHours => "KilowattHours" end.
Definition energy_rate_name (u : energy_rate_unit) : string :=
  match u with
  | GallonsGasolinePerMile => "GallonsGasolinePerMile" | GallonsDieselPerMile => "GallonsDieselPerMile"
  | KilowattHoursPerMile => "KilowattHoursPerMile" | KilowattHoursPerKilometer => "KilowattHoursPerKilometer"
  | KilowattHoursPerMeter => "KilowattHoursPerMeter"
  end.
Definition grade_name (u : grade_unit) : string :=
  match u with Percent => "Percent" | Decimal => "Decimal" | Millis => "Millis" end.
Definition weight_name (u : weight_unit) : string :=
  match u with Pounds => "Pounds" | Tons => "Tons" | Kg => "Kg" end.

(* serde(rename_all = "snake_case") spelling = Display = what configuration files and output use *)
Definition show_dist (u : dist_unit) : string :=
  match u with Meters => "meters" | Kilometers => "kilometers" | Miles => "miles" | Inches => "inches" | Feet => "feet" end.
Definition show_time (u : time_unit) : string :=
  match u with Hours => "hours" | Minutes => "minutes" | Seconds => "seconds" | Milliseconds => "milliseconds" end.
Definition show_speed (u : speed_unit) : string :=
  match u with KilometersPerHour => "kilometers_per_hour" | MilesPerHour => "miles_per_hour" | MetersPerSecond => "meters_per_second" end.
Definition show_energy (u : energy_unit) : string :=
  match u with GallonsGasoline => "gallons_gasoline" | GallonsDiesel => "gallons_diesel" | KilowattHours => "kilowatt_hours" end.
Definition show_energy_rate (u : energy_rate_unit) : string :=
  match u with
  | GallonsGasolinePerMile => "gallons_gasoline_per_mile" | GallonsDieselPerMile => "gallons_diesel_per_mile"
  | KilowattHoursPerMile => "kilowatt_hours_per_mile" | KilowattHoursPerKilometer => "kilowatt_hours_per_kilometer"
  | KilowattHoursPerMeter => "kilowatt_hours_per_meter"
  end.
Definition show_grade (u : grade_unit) : string :=
  match u with Percent => "percent" | Decimal => "decimal" | Millis => "millis" end.
Definition show_weight (u : weight_unit) : string :=
  match u with Pounds => "pounds" | Tons => "tons" | Kg => "kg" end.

(* boolean equalities *)
Definition dist_eqb (a b : dist_unit) : bool :=
  match a, b with
  | Meters, Meters | Kilometers, Kilometers | Miles, Miles | Inches, Inches | Feet, Feet => true
  | _, _ => false
  end.
Definition time_eqb (a b : time_unit) : bool :=
  match a, b with
  | Hours, Hours | Minutes, Minutes | Seconds, Seconds | Milliseconds, Milliseconds => true
  | _, _ => false
  end.
Definition speed_eqb (a b : speed_unit) : bool :=
  match a, b with
  | KilometersPerHour, KilometersPerHour | MilesPerHour, MilesPerHour | MetersPerSecond, MetersPerSecond => true
  | _, _ => false
  end.
Definition energy_eqb (a b : energy_unit) : bool :=
  match a, b with
  | GallonsGasoline, GallonsGasoline | GallonsDiesel, GallonsDiesel | KilowattHours, KilowattHours => true
  | _, _ => false
  end.
Definition energy_rate_eqb (a b : energy_rate_unit) : bool :=
  match a, b with
  | GallonsGasolinePerMile, GallonsGasolinePerMile | GallonsDieselPerMile, GallonsDieselPerMile
  | KilowattHoursPerMile, KilowattHoursPerMile | KilowattHoursPerKilometer, KilowattHoursPerKilometer
  | KilowattHoursPerMeter, KilowattHoursPerMeter => true
  | _, _ => false
  end.
Definition grade_eqb (a b : grade_unit) : bool :=
  match a, b with
  | Percent, Percent | Decimal, Decimal | Millis, Millis => true
  | _, _ => false
  end.
Definition weight_eqb (a b : weight_unit) : bool :=
  match a, b with
  | Pounds, Pounds | Tons, Tons | Kg, Kg => true
  | _, _ => false
  end.

(* parsing a name back (by the Rust identifier, or by the serde spelling) *)
Definition find_by {A} (name : A -> string) (all : list A) (s : string) : option A :=
  find (fun u => String.eqb (name u) s) all.
Definition dist_of_name := find_by dist_name all_dist.
Definition time_of_name := find_by time_name all_time.
Definition speed_of_name := find_by speed_name all_speed.
Definition energy_of_name := find_by energy_name all_energy.
Definition energy_rate_of_name := find_by energy_rate_name all_energy_rate.
Definition grade_of_name := find_by grade_name all_grade.
Definition weight_of_name := find_by weight_name all_weight.
Definition dist_of_show := find_by show_dist all_dist.
Definition time_of_show := find_by show_time all_time.
Definition speed_of_show := find_by show_speed all_speed.
Definition energy_of_show := find_by show_energy all_energy.
Definition energy_rate_of_show := find_by show_energy_rate all_energy_rate.
Definition grade_of_show := find_by show_grade all_grade.
Definition weight_of_show := find_by show_weight all_weight.

(* ---- table lookup ---- *)
Definition table := list ((string * string) * conv).

Fixpoint lookup (t : table) (a b : string) : option conv :=
  match t with
  | [] => None
  | ((a', b'), c) :: r => if String.eqb a a' && String.eqb b b' then Some c else lookup r a b
  end.

(* The Rust match is exhaustive (rustc enforces it) and the translator refuses a table with a missing
   pair; [Proofs/Units.v] proves every lookup below succeeds.  A missing arm would read as
   "multiply by 0", which no theorem of C09 survives. *)
Definition missing_arm : conv := Mul 0 0.
Definition conv_of (t : table) (a b : string) : conv :=
  match lookup t a b with Some c => c | None => missing_arm end.

(* the arm body: `*value`, `*value * k`, `*value / k` -- same operation as the Rust arm *)
Definition apply_conv (N : Num) (c : conv) (x : N) : N :=
  match c with
  | Id => x
  | Mul m e => mul x (lit m e)
  | Div m e => div x (lit m e)
  end.

Definition convert_distance (N : Num) (u v : dist_unit) (x : N) : N :=
  apply_conv N (conv_of distance_table (dist_name u) (dist_name v)) x.
Definition convert_time (N : Num) (u v : time_unit) (x : N) : N :=
  apply_conv N (conv_of time_table (time_name u) (time_name v)) x.
Definition convert_speed (N : Num) (u v : speed_unit) (x : N) : N :=
  apply_conv N (conv_of speed_table (speed_name u) (speed_name v)) x.
Definition convert_energy (N : Num) (u v : energy_unit) (x : N) : N :=
  apply_conv N (conv_of energy_table (energy_name u) (energy_name v)) x.
Definition convert_grade (N : Num) (u v : grade_unit) (x : N) : N :=
  apply_conv N (conv_of grade_table (grade_name u) (grade_name v)) x.
Definition convert_weight (N : Num) (u v : weight_unit) (x : N) : N :=
  apply_conv N (conv_of weight_table (weight_name u) (weight_name v)) x.

(* ---- base units and associated units (from the generated file; the fallbacks are never taken,
        see Proofs/Units.v [gen_names_resolve]) ---- *)
Definition base_distance_unit : dist_unit :=
  match dist_of_name UnitTables.base_distance_unit with Some u => u | None => Meters end.
Definition base_time_unit : time_unit :=
  match time_of_name UnitTables.base_time_unit with Some u => u | None => Seconds end.
Definition base_speed_unit : speed_unit :=
  match speed_of_name UnitTables.base_speed_unit with Some u => u | None => MetersPerSecond end.

Fixpoint assoc (l : list (string * string)) (a : string) : string :=
  match l with
  | [] => EmptyString
  | (a', b) :: r => if String.eqb a a' then b else assoc r a
  end.

Definition speed_time_unit (u : speed_unit) : time_unit :=
  match time_of_name (assoc UnitTables.speed_time_unit (speed_name u)) with Some t => t | None => Seconds end.
Definition speed_distance_unit (u : speed_unit) : dist_unit :=
  match dist_of_name (assoc UnitTables.speed_distance_unit (speed_name u)) with Some d => d | None => Meters end.
Definition energy_rate_distance_unit (u : energy_rate_unit) : dist_unit :=
  match dist_of_name (assoc UnitTables.energy_rate_distance_unit (energy_rate_name u)) with Some d => d | None => Meters end.
Definition energy_rate_energy_unit (u : energy_rate_unit) : energy_unit :=
  match energy_of_name (assoc UnitTables.energy_rate_energy_unit (energy_rate_name u)) with Some e => e | None => KilowattHours end.

(* ---- builders.rs ---- *)
Definition err_time : string := "TimeFromSpeedAndDistanceError".
Definition err_speed : string := "SpeedFromTimeAndDistanceError".

(* builders::create_time:
     let d = distance_unit.convert(distance, &BASE_DISTANCE_UNIT);
     let s = speed_unit.convert(speed, &BASE_SPEED_UNIT);
     if s <= Speed::ZERO || d <= Distance::ZERO { Err(..) }
     else { let time = (d, s).into() /* d / s */; Ok(BASE_TIME_UNIT.convert(&time, time_unit)) }    *)
Definition create_time (N : Num) (speed : N) (su : speed_unit) (distance : N) (du : dist_unit)
                       (tu : time_unit) : res N :=
  let d := convert_distance N du base_distance_unit distance in
  let s := convert_speed N su base_speed_unit speed in
  if leb s zero || leb d zero then Err err_time
  else Ok (convert_time N base_time_unit tu (div d s)).

(* builders::create_speed:
     let d = distance_unit.convert(distance, &BASE_DISTANCE_UNIT);
     let t = time_unit.convert(time, &BASE_TIME_UNIT);
     if t <= Time::ZERO { Err(..) } else { Ok(BASE_SPEED_UNIT.convert(&(d / t), speed_unit)) }       *)
Definition create_speed (N : Num) (time : N) (tu : time_unit) (distance : N) (du : dist_unit)
                        (su : speed_unit) : res N :=
  let d := convert_distance N du base_distance_unit distance in
  let t := convert_time N tu base_time_unit time in
  if leb t zero then Err err_speed
  else Ok (convert_speed N base_speed_unit su (div d t)).

(* builders::create_energy:
     let calc_distance = distance_unit.convert(distance, &energy_rate_unit.associated_distance_unit());
     Ok((energy_rate * calc_distance, energy_rate_unit.associated_energy_unit()))                    *)
Definition create_energy (N : Num) (rate : N) (eru : energy_rate_unit) (distance : N) (du : dist_unit)
    : res (N * energy_unit) :=
  let calc_distance := convert_distance N du (energy_rate_distance_unit eru) distance in
  Ok (mul rate calc_distance, energy_rate_energy_unit eru).

(* ---- exact (rational) reading of the generated table --------------------------------------------
   Every arm is multiplication by one constant: `*value` by 1, `*value * k` by k, `*value / k` by 1/k.
   [k_dist u v] ... [k_weight u v] are these constants for the arm (u, v) of the regenerated table;
   Proofs/Units.v proves  convert_<family> QN u v x == x * k_<family> u v. *)
Definition conv_factor (c : conv) : Q :=
  match c with
  | Id => 1%Q
  | Mul m e => Qlit m e
  | Div m e => Qinv (Qlit m e)
  end.
Definition k_dist (u v : dist_unit) : Q := conv_factor (conv_of distance_table (dist_name u) (dist_name v)).
Definition k_time (u v : time_unit) : Q := conv_factor (conv_of time_table (time_name u) (time_name v)).
Definition k_speed (u v : speed_unit) : Q := conv_factor (conv_of speed_table (speed_name u) (speed_name v)).
Definition k_energy (u v : energy_unit) : Q := conv_factor (conv_of energy_table (energy_name u) (energy_name v)).
Definition k_grade (u v : grade_unit) : Q := conv_factor (conv_of grade_table (grade_name u) (grade_name v)).
Definition k_weight (u v : weight_unit) : Q := conv_factor (conv_of weight_table (weight_name u) (weight_name v)).

End Units.
