(* Runner for the C09 streams.

   M lines  (stream `convert`): the model of Model/Units.v evaluated in binary64 ([FN]) on the same
            inputs as the Rust functions -- compared bit for bit with the implementation.
   S lines  (stream `spec`): the C09 specification evaluated, in exact rational arithmetic, on the
            OUTPUT OF THE IMPLEMENTATION (embedded in the case term): linear, identity, round trip
            within 0.1 %, physical factor within 0.1 %, builders = definition of the derived quantity.
            The SI tables below are specification (trusted base); Props/C09.v (module C09Spec) restates them
            and proves they are these.
   T line   [line_table_failures]: the entries of the regenerated table that fail a finite fact of C09
            (identity / round trip / physical / positive / constructor factor) -- the run replays them on the
            implementation when a changed factor breaks a proof.
   A lines  (stream `approx`): tolerance-band re-judgement of `convert` cases whose bits differ (DESIGN 1.2). *)
From Coq Require Import ZArith QArith Qabs String List Bool Floats.
From RC Require Import Base.Show Base.Num Base.Res Model.Units.
Import ListNotations.

Module UnitsRun.
Import Units.
Local Open Scope string_scope.

(* ------------------------------------------------------------------ M lines *)
Definition show_floats (l : list float) : string := show_list show_float l.

Definition line_dist (id : Z) (u v : dist_unit) (xs : list float) : string :=
  line "M" id (show_floats (map (convert_distance FN u v) xs)).
Definition line_time (id : Z) (u v : time_unit) (xs : list float) : string :=
  line "M" id (show_floats (map (convert_time FN u v) xs)).
Definition line_speed (id : Z) (u v : speed_unit) (xs : list float) : string :=
  line "M" id (show_floats (map (convert_speed FN u v) xs)).
Definition line_energy (id : Z) (u v : energy_unit) (xs : list float) : string :=
  line "M" id (show_floats (map (convert_energy FN u v) xs)).
Definition line_grade (id : Z) (u v : grade_unit) (xs : list float) : string :=
  line "M" id (show_floats (map (convert_grade FN u v) xs)).
Definition line_weight (id : Z) (u v : weight_unit) (xs : list float) : string :=
  line "M" id (show_floats (map (convert_weight FN u v) xs)).

Definition show_resf (r : res float) : string := show_res show_float r.
Definition line_create_time (id : Z) (su : speed_unit) (du : dist_unit) (tu : time_unit)
                            (sds : list (float * float)) : string :=
  line "M" id (show_list show_resf (map (fun sd => create_time FN (fst sd) su (snd sd) du tu) sds)).
Definition line_create_speed (id : Z) (tu : time_unit) (du : dist_unit) (su : speed_unit)
                             (tds : list (float * float)) : string :=
  line "M" id (show_list show_resf (map (fun td => create_speed FN (fst td) tu (snd td) du su) tds)).
Definition show_energy_res (r : res (float * energy_unit)) : string :=
  show_res (fun p => show_float (fst p) ++ "@" ++ show_energy (snd p)) r.
Definition line_create_energy (id : Z) (eru : energy_rate_unit) (du : dist_unit)
                              (rds : list (float * float)) : string :=
  line "M" id (show_list show_energy_res (map (fun rd => create_energy FN (fst rd) eru (snd rd) du) rds)).

(* Display / serde names, base units and associated units as the model has them *)
Definition line_names (id : Z) : string :=
  line "M" id
    ("distance=" ++ show_list show_dist all_dist ++ " time=" ++ show_list show_time all_time
     ++ " speed=" ++ show_list show_speed all_speed ++ " energy=" ++ show_list show_energy all_energy
     ++ " energy_rate=" ++ show_list show_energy_rate all_energy_rate
     ++ " grade=" ++ show_list show_grade all_grade ++ " weight=" ++ show_list show_weight all_weight).
Definition line_assoc (id : Z) : string :=
  line "M" id
    ("base=" ++ show_dist base_distance_unit ++ "," ++ show_time base_time_unit ++ "," ++ show_speed base_speed_unit
     ++ " speed=" ++ show_list (fun u => show_dist (speed_distance_unit u) ++ "/" ++ show_time (speed_time_unit u)) all_speed
     ++ " energy_rate=" ++ show_list (fun u => show_energy (energy_rate_energy_unit u) ++ "/"
                                               ++ show_dist (energy_rate_distance_unit u)) all_energy_rate).

(* ------------------------------------------------------------------ specification tables *)
Local Open Scope Q_scope.

(* exact SI definitions: metres per unit (international mile / foot / inch) *)
Definition si_distance (u : dist_unit) : Q :=
  match u with
  | Meters => 1 | Kilometers => 1000 | Miles => 1609344 # 1000 | Inches => 254 # 10000 | Feet => 3048 # 10000
  end.
(* seconds per unit *)
Definition si_time (u : time_unit) : Q :=
  match u with Hours => 3600 | Minutes => 60 | Seconds => 1 | Milliseconds => 1 # 1000 end.
(* metres per second per unit *)
Definition si_speed (u : speed_unit) : Q :=
  match u with
  | KilometersPerHour => 1000 # 3600 | MilesPerHour => 1609344 # 3600000 | MetersPerSecond => 1
  end.
(* slope as a plain ratio (rise / run) per unit *)
Definition si_grade (u : grade_unit) : Q :=
  match u with Percent => 1 # 100 | Decimal => 1 | Millis => 1 # 1000 end.
(* kilograms per unit (avoirdupois pound, short ton of 2000 lb) *)
Definition si_weight (u : weight_unit) : Q :=
  match u with Pounds => 45359237 # 100000000 | Tons => 90718474 # 100000 | Kg => 1 end.
(* an energy rate is an energy unit per distance unit *)
Definition rate_energy (u : energy_rate_unit) : energy_unit :=
  match u with
  | GallonsGasolinePerMile => GallonsGasoline | GallonsDieselPerMile => GallonsDiesel
  | KilowattHoursPerMile | KilowattHoursPerKilometer | KilowattHoursPerMeter => KilowattHours
  end.
Definition rate_distance (u : energy_rate_unit) : dist_unit :=
  match u with
  | GallonsGasolinePerMile | GallonsDieselPerMile | KilowattHoursPerMile => Miles
  | KilowattHoursPerKilometer => Kilometers
  | KilowattHoursPerMeter => Meters
  end.

(* tolerances granted by the property text *)
Definition tol : Q := 1 # 1000.
(* three factors each within 0.1 %, one of them in the denominator: 1.001^2/0.999 - 1 < 0.31 % *)
Definition tol3 : Q := 31 # 10000.

Definition within (t a b : Q) : bool := Qle_bool (Qabs (a - b)) (t * Qabs b).

(* ------------------------------------------------------------------ the finite table facts of C09
   Boolean tests on the exact factors [k_* u v] of the REGENERATED table (Model/Units.v).  Proofs/Units.v
   proves that each holds for every unit / ordered pair / triple ([forallb ... = true] by vm_compute) and
   lifts them to every magnitude and sign by linearity.  They live here, proof-free, so that the run can
   still LIST the entries that fail ([table_failures]) when a changed factor breaks one of those proofs. *)
Definition id_ok {U} (k : U -> U -> Q) (u : U) : bool := Qeq_bool (k u u) 1.
Definition rt_ok {U} (k : U -> U -> Q) (p : U * U) : bool :=
  within tol (k (fst p) (snd p) * k (snd p) (fst p)) 1.
Definition phys_ok {U} (k : U -> U -> Q) (si : U -> Q) (p : U * U) : bool :=
  within tol (k (fst p) (snd p)) (si (fst p) / si (snd p)).
Definition pos_ok {U} (k : U -> U -> Q) (b : U) (u : U) : bool := Qltb 0 (k u b) && Qltb 0 (k b u).

(* combined factor of a constructor (what the model multiplies the quotient / product of the raw inputs by)
   and its specification (the same combination of exact SI factors) *)
Definition time_factor (su : speed_unit) (du : dist_unit) (tu : time_unit) : Q :=
  k_dist du base_distance_unit / k_speed su base_speed_unit * k_time base_time_unit tu.
Definition time_si (su : speed_unit) (du : dist_unit) (tu : time_unit) : Q :=
  si_distance du / si_speed su / si_time tu.
Definition speed_factor (tu : time_unit) (du : dist_unit) (su : speed_unit) : Q :=
  k_dist du base_distance_unit / k_time tu base_time_unit * k_speed base_speed_unit su.
Definition speed_si (tu : time_unit) (du : dist_unit) (su : speed_unit) : Q :=
  si_distance du / si_time tu / si_speed su.
Definition energy_factor (eru : energy_rate_unit) (du : dist_unit) : Q :=
  k_dist du (energy_rate_distance_unit eru).
Definition energy_si (eru : energy_rate_unit) (du : dist_unit) : Q :=
  si_distance du / si_distance (rate_distance eru).

Definition time_triples : list (speed_unit * dist_unit * time_unit) := list_prod (list_prod all_speed all_dist) all_time.
Definition speed_triples : list (time_unit * dist_unit * speed_unit) := list_prod (list_prod all_time all_dist) all_speed.
Definition energy_pairs : list (energy_rate_unit * dist_unit) := list_prod all_energy_rate all_dist.

Definition time_ok (p : speed_unit * dist_unit * time_unit) : bool :=
  let '(su, du, tu) := p in within tol3 (time_factor su du tu) (time_si su du tu).
Definition speed_ok (p : time_unit * dist_unit * speed_unit) : bool :=
  let '(tu, du, su) := p in within tol3 (speed_factor tu du su) (speed_si tu du su).
Definition energy_ok (p : energy_rate_unit * dist_unit) : bool :=
  let '(eru, du) := p in
  within tol (energy_factor eru du) (energy_si eru du)
  && energy_eqb (energy_rate_energy_unit eru) (rate_energy eru)
  && dist_eqb (energy_rate_distance_unit eru) (rate_distance eru).

(* the entries that fail, as text "<fact> <family> <unit> <unit> [<unit>]" (variant identifiers) *)
Local Open Scope string_scope.
Definition fails {A} (what : string) (show : A -> string) (ok : A -> bool) (l : list A) : list string :=
  map (fun a => what ++ " " ++ show a) (filter (fun a => negb (ok a)) l).
Definition show2 {U} (name : U -> string) (p : U * U) : string := name (fst p) ++ " " ++ name (snd p).
Definition family_failures {U} (fam : string) (name : U -> string) (all : list U) (k : U -> U -> Q)
                           (si : option (U -> Q)) (base : option U) : list string :=
  fails ("identity " ++ fam) (fun u => name u ++ " " ++ name u) (id_ok k) all
  ++ fails ("roundtrip " ++ fam) (show2 name) (rt_ok k) (list_prod all all)
  ++ match si with Some f => fails ("physical " ++ fam) (show2 name) (phys_ok k f) (list_prod all all) | None => [] end
  ++ match base with Some b => fails ("positive " ++ fam) (fun u => name u ++ " " ++ name b) (pos_ok k b) all | None => [] end.
Definition table_failures : list string :=
  family_failures "distance" dist_name all_dist k_dist (Some si_distance) (Some base_distance_unit)
  ++ family_failures "time" time_name all_time k_time (Some si_time) (Some base_time_unit)
  ++ family_failures "speed" speed_name all_speed k_speed (Some si_speed) (Some base_speed_unit)
  ++ family_failures "energy" energy_name all_energy k_energy None None
  ++ family_failures "grade" grade_name all_grade k_grade (Some si_grade) None
  ++ family_failures "weight" weight_name all_weight k_weight (Some si_weight) None
  ++ fails "create_time" (fun p => let '(su, du, tu) := p in speed_name su ++ " " ++ dist_name du ++ " " ++ time_name tu)
           time_ok time_triples
  ++ fails "create_speed" (fun p => let '(tu, du, su) := p in time_name tu ++ " " ++ dist_name du ++ " " ++ speed_name su)
           speed_ok speed_triples
  ++ fails "create_energy" (fun p => energy_rate_name (fst p) ++ " " ++ dist_name (snd p)) energy_ok energy_pairs.
Definition line_table_failures (id : Z) : string := line "T" id (show_list (fun s => s) table_failures).
Local Open Scope Q_scope.

(* ------------------------------------------------------------------ S lines *)
(* exact value of a finite binary64 number *)
Definition Q_of_float (f : float) : option Q :=
  match Prim2SF f with
  | S754_zero _ => Some 0
  | S754_finite s m e =>
      let mag := match e with
                 | Z0 => inject_Z (Zpos m)
                 | Zpos p => inject_Z (Zpos m * 2 ^ Zpos p)
                 | Zneg p => Zpos m # (2 ^ p)%positive
                 end in
      Some (if s then - mag else mag)
  | _ => None
  end.

Local Open Scope string_scope.
Definition verdict (checks : list (string * bool)) : string :=
  match filter (fun c => negb (snd c)) checks with
  | [] => "ok"
  | bad => "FAIL " ++ join "," (map fst bad)
  end.

(* one conversion observed on the implementation:
     y = convert(u, v, x)   z = convert(v, u, y)   yn = convert(u, v, -x)   y2 = convert(u, v, 2x)
   [same]: u = v;  [phys]: Some (si u / si v) for the families with a physical factor *)
Definition spec_convert (same : bool) (phys : option Q) (x y z yn y2 : float) : string :=
  match Q_of_float x, Q_of_float y, Q_of_float z, Q_of_float yn, Q_of_float y2 with
  | Some qx, Some qy, Some qz, Some qyn, Some qy2 =>
      verdict [ ("identity", if same then Qeq_bool qy qx else true);
                ("odd", Qeq_bool qyn (- qy));
                ("homogeneous", Qeq_bool qy2 (2 * qy));
                ("roundtrip", within tol qz qx);
                ("physical", match phys with Some p => within tol qy (qx * p)%Q | None => true end) ]
  | _, _, _, _, _ => "FAIL not-finite"
  end.

Definition spec_dist (id : Z) (u v : dist_unit) (x y z yn y2 : float) : string :=
  line "S" id (spec_convert (dist_eqb u v) (Some (si_distance u / si_distance v)%Q) x y z yn y2).
Definition spec_time (id : Z) (u v : time_unit) (x y z yn y2 : float) : string :=
  line "S" id (spec_convert (time_eqb u v) (Some (si_time u / si_time v)%Q) x y z yn y2).
Definition spec_speed (id : Z) (u v : speed_unit) (x y z yn y2 : float) : string :=
  line "S" id (spec_convert (speed_eqb u v) (Some (si_speed u / si_speed v)%Q) x y z yn y2).
Definition spec_energy (id : Z) (u v : energy_unit) (x y z yn y2 : float) : string :=
  line "S" id (spec_convert (energy_eqb u v) None x y z yn y2).
Definition spec_grade (id : Z) (u v : grade_unit) (x y z yn y2 : float) : string :=
  line "S" id (spec_convert (grade_eqb u v) (Some (si_grade u / si_grade v)%Q) x y z yn y2).
Definition spec_weight (id : Z) (u v : weight_unit) (x y z yn y2 : float) : string :=
  line "S" id (spec_convert (weight_eqb u v) (Some (si_weight u / si_weight v)%Q) x y z yn y2).

(* time = distance / speed, in the requested units; non-positive speed or distance rejected *)
Definition spec_create_time (id : Z) (su : speed_unit) (du : dist_unit) (tu : time_unit)
                            (s d : float) (r : res float) : string :=
  line "S" id
    match Q_of_float s, Q_of_float d with
    | Some qs, Some qd =>
        if Qle_bool qs 0 || Qle_bool qd 0 then
          verdict [("rejects-nonpositive", match r with Err _ => true | _ => false end)]
        else
          match r with
          | Ok t => match Q_of_float t with
                    | Some qt => verdict [("time=distance/speed",
                                   within tol3 qt ((qd * si_distance du) / (qs * si_speed su) / si_time tu)%Q)]
                    | None => "FAIL not-finite"
                    end
          | _ => "FAIL rejected-positive-input"
          end
    | _, _ => "FAIL not-finite"
    end.

(* speed = distance / time for every positive time (any sign of the distance); non-positive time rejected *)
Definition spec_create_speed (id : Z) (tu : time_unit) (du : dist_unit) (su : speed_unit)
                             (t d : float) (r : res float) : string :=
  line "S" id
    match Q_of_float t, Q_of_float d with
    | Some qt, Some qd =>
        if Qle_bool qt 0 then
          (* the analogue of create_time's rejection (builders.rs returns SpeedFromTimeAndDistanceError; the
             model proves it, Props/C09.v c09_create_speed_rejects): a non-positive time is not turned into a speed *)
          verdict [("rejects-nonpositive-time", match r with Err _ => true | _ => false end)]
        else
          match r with
          | Ok v => match Q_of_float v with
                    | Some qv => verdict [("speed=distance/time",
                                   within tol3 qv ((qd * si_distance du) / (qt * si_time tu) / si_speed su)%Q)]
                    | None => "FAIL not-finite"
                    end
          | _ => "FAIL rejected-positive-time"
          end
    | _, _ => "FAIL not-finite"
    end.

(* energy = rate * distance, in the energy unit of the rate *)
Definition spec_create_energy (id : Z) (eru : energy_rate_unit) (du : dist_unit)
                              (rate d : float) (r : res (float * energy_unit)) : string :=
  line "S" id
    match Q_of_float rate, Q_of_float d with
    | Some qr, Some qd =>
        match r with
        | Ok (e, eu) => match Q_of_float e with
                        | Some qe => verdict [("energy-unit", energy_eqb eu (rate_energy eru));
                                              ("energy=rate*distance",
                                               within tol qe (qr * (qd * (si_distance du / si_distance (rate_distance eru))))%Q)]
                        | None => "FAIL not-finite"
                        end
        | _ => "FAIL rejected"
        end
    | _, _ => "FAIL not-finite"
    end.

(* ------------------------------------------------------------------ A lines (stream `approx`)
   DESIGN.md 1.2: bit-exactness is the primary correspondence criterion; a case whose bits differ is
   re-judged here against the EXACT value of the model ([QN] on the exact rational value of the inputs):
   the implementation's result must be within 1e-9 relative (+ 2^-1000 absolute, for the subnormal range) of it
   (six orders of magnitude below the 0.1 % the property grants), with the same outcome class (Ok / Err class / energy unit).  Where no exact value
   exists (infinite or NaN input or result) only bit-equality with the binary64 model counts; inputs next to the
   subnormal range or to overflow are judged by outcome class only (see [extreme]). *)
Local Open Scope Q_scope.
Definition band : Q := 1 # 1000000000.
(* absolute floor for results in the subnormal range, where binary64 rounding is absolute (2^-1074), not relative:
   2^-1000, i.e. about 1e-301 -- far below any magnitude a unit conversion is applied to *)
Definition band_floor : Q := 1 # (2 ^ 1000).
(* an input within a factor 2^64 of the subnormal range or of overflow: intermediates of a re-ordered but
   equivalent computation may be subnormal (absolute rounding) or overflow there, so in the FALLBACK (never in
   the bit-exact comparison) such an element is judged by its outcome class only *)
Definition extreme (f : float) : bool :=
  match Prim2SF f with
  | S754_finite _ _ e => (e + 52 <? -960)%Z || (960 <? e + 52)%Z
  | _ => false
  end.
(* element verdicts: 0 = same bits or inside the band, 1 = extreme input, outcome class agrees, 2 = outside *)
Definition close_float (loose : bool) (exact : option Q) (model impl : float) : Z :=
  if String.eqb (show_float model) (show_float impl) then 0%Z
  else if loose then 1%Z
  else match exact, Q_of_float impl with
       | Some q, Some qi => if Qle_bool (Qabs (qi - q)) (band * Qabs q + band_floor) then 0%Z else 2%Z
       | _, _ => 2%Z
       end.
Definition close_res (loose : bool) (exact : option (res Q)) (model impl : res float) : Z :=
  match model, impl with
  | Ok a, Ok b => close_float loose (match exact with Some (Ok q) => Some q | _ => None end) a b
  | Err c1, Err c2 => if String.eqb c1 c2 then 0%Z else 2%Z
  | _, _ => 2%Z
  end.
Local Open Scope string_scope.
Fixpoint indices_of (v : Z) (i : Z) (l : list Z) : list Z :=
  match l with
  | [] => []
  | b :: r => (if Z.eqb b v then [i] else []) ++ indices_of v (i + 1)%Z r
  end.
Definition approx_verdict (n m : nat) (l : list Z) : string :=
  if negb (Nat.eqb n m) then "FAIL length"
  else match indices_of 2 0 l, indices_of 1 0 l with
       | [], [] => "ok"
       | [], loose => "ok extreme-inputs-judged-by-outcome-class-only=" ++ show_nat (List.length loose)
       | bad, _ => "FAIL outside-1e-9-band-at " ++ show_list show_Z bad
       end.

Definition approx_conv (id : Z) (cf : float -> float) (cq : Q -> Q) (xs ys : list float) : string :=
  line "A" id (approx_verdict (List.length xs) (List.length ys)
    (map (fun xy => close_float (extreme (fst xy)) (option_map cq (Q_of_float (fst xy))) (cf (fst xy)) (snd xy)) (combine xs ys))).
Definition approx_dist (id : Z) (u v : dist_unit) (xs ys : list float) : string :=
  approx_conv id (convert_distance FN u v) (convert_distance QN u v) xs ys.
Definition approx_time (id : Z) (u v : time_unit) (xs ys : list float) : string :=
  approx_conv id (convert_time FN u v) (convert_time QN u v) xs ys.
Definition approx_speed (id : Z) (u v : speed_unit) (xs ys : list float) : string :=
  approx_conv id (convert_speed FN u v) (convert_speed QN u v) xs ys.
Definition approx_energy (id : Z) (u v : energy_unit) (xs ys : list float) : string :=
  approx_conv id (convert_energy FN u v) (convert_energy QN u v) xs ys.
Definition approx_grade (id : Z) (u v : grade_unit) (xs ys : list float) : string :=
  approx_conv id (convert_grade FN u v) (convert_grade QN u v) xs ys.
Definition approx_weight (id : Z) (u v : weight_unit) (xs ys : list float) : string :=
  approx_conv id (convert_weight FN u v) (convert_weight QN u v) xs ys.

Definition exact2 {A} (f : Q -> Q -> A) (a b : float) : option A :=
  match Q_of_float a, Q_of_float b with Some qa, Some qb => Some (f qa qb) | _, _ => None end.
Definition approx_create_time (id : Z) (su : speed_unit) (du : dist_unit) (tu : time_unit)
                              (sds : list (float * float)) (rs : list (res float)) : string :=
  line "A" id (approx_verdict (List.length sds) (List.length rs)
    (map (fun c => let '(s, d, r) := c in
                   close_res (extreme s || extreme d) (exact2 (fun qs qd => create_time QN qs su qd du tu) s d)
                             (create_time FN s su d du tu) r)
         (combine sds rs))).
Definition approx_create_speed (id : Z) (tu : time_unit) (du : dist_unit) (su : speed_unit)
                               (tds : list (float * float)) (rs : list (res float)) : string :=
  line "A" id (approx_verdict (List.length tds) (List.length rs)
    (map (fun c => let '(t, d, r) := c in
                   close_res (extreme t || extreme d) (exact2 (fun qt qd => create_speed QN qt tu qd du su) t d)
                             (create_speed FN t tu d du su) r)
         (combine tds rs))).
Definition approx_create_energy (id : Z) (eru : energy_rate_unit) (du : dist_unit)
                                (rds : list (float * float)) (rs : list (res (float * energy_unit))) : string :=
  line "A" id (approx_verdict (List.length rds) (List.length rs)
    (map (fun c => let '(r, d, o) := c in
                   match create_energy FN r eru d du, o with
                   | Ok (a, ua), Ok (b, ub) =>
                       if energy_eqb ua ub
                       then close_float (extreme r || extreme d)
                                        (match exact2 (fun qr qd => create_energy QN qr eru qd du) r d with
                                         | Some (Ok (q, _)) => Some q | _ => None end) a b
                       else 2%Z
                   | _, _ => 2%Z
                   end)
         (combine rds rs))).

End UnitsRun.
