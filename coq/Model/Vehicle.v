(* Vehicle energy models of routee-compass-powertrain and the pieces of routee-compass-core they
   stand on.  Faithful transcription, definitions only, generic in [N : Num] (QN for theorems,
   FN for bit-exact execution: the ORDER of the floating point operations is the Rust order).

     core   model/state/state_model.rs      get_/set_/add_ {distance,time,energy}, get_/set_custom_f64,
                                            get_state_variable, update_state, extend, initial_state
                                            (the CURRENT code: add_* accumulate in the feature's unit)
            model/state/state_feature.rs    get_*_unit, get_custom_feature_format, get_initial
            util/cache_policy/float_cache_policy.rs + the `lru` crate (get promotes, put evicts the oldest)
     powertrain
            vehicle/vehicle_ops.rs          as_soc_percent, soc_from_battery_and_delta, update_soc_percent
            prediction/prediction_model_record.rs   PredictionModelRecord::predict
            prediction/*_speed_grade_model.rs       PredictionModel::predict = convert the inputs to the
                                            model's units, then the underlying predictor (a FUNCTION here)
            vehicle/default/{ice,bev,phev}.rs  state_features, best_case_energy(_state), consume_energy,
                                            update_from_query, get_phev_energy

   Unit conversion and the builders come from Model/Units.v (property C09), imported read-only.
   Rust Result::Err values are [Err class]; classes are spelled "<TraversalModelError variant>" or
   "State:<StateModelError variant>" / "Units:<UnitError variant>" (the harness prints the same). *)
From Coq Require Import ZArith QArith String List Bool.
From RC Require Import Base.Num Base.Res Model.Units.
Import ListNotations.

Module Vehicle.
Import Units.
Local Open Scope string_scope.

(* error classes *)
Definition e_unknown : string := "State:UnknownStateVariableName".
Definition e_runtime : string := "State:RuntimeError".
Definition e_index : string := "State:InvalidStateVariableIndex".
Definition e_feature_unit : string := "State:UnexpectedFeatureUnit".
Definition e_encode : string := "State:EncodeError".
Definition e_decode : string := "State:DecodeError".
Definition e_state_build : string := "State:BuildError".
Definition e_build : string := "BuildError".
Definition e_failure : string := "TraversalModelFailure".
Definition e_units_time : string := "Units:TimeFromSpeedAndDistanceError".
Definition e_units_speed : string := "Units:SpeedFromTimeAndDistanceError".

(* feature names *)
Definition n_liquid : string := "energy_liquid".
Definition n_electric : string := "energy_electric".
Definition n_soc : string := "battery_state".
Definition n_time : string := "time".
Definition n_distance : string := "distance".

(* the value of query["starting_soc_percent"] as update_from_query sees it:
   serde_json `get` gives None (key absent / query not an object), `as_f64` gives None for a
   non-number *)
Inductive qval (A : Type) : Type := QMissing | QNonNumeric | QNumber (x : A).
Arguments QMissing {A}. Arguments QNonNumeric {A}. Arguments QNumber {A} x.

Section V.
  Variable N : Num.

  Definition hundred : N := lit 100 0.

  (* ------------------------------------------------------------------ state model *)
  (* StateFeature; a Custom feature is FloatingPoint ([FCustomF64]) or one of the other three
     formats ([FCustomOther]: only its failure modes matter here) *)
  Inductive feature : Type :=
  | FDistance (u : dist_unit) (init : N)
  | FTime (u : time_unit) (init : N)
  | FEnergy (u : energy_unit) (init : N)
  | FCustomF64 (init : N)
  | FCustomOther (init : N).
  Definition smodel := list (string * feature).
  Definition state := list N.

  Fixpoint index_of (sm : smodel) (name : string) (i : nat) : option nat :=
    match sm with
    | [] => None
    | (n, _) :: r => if String.eqb n name then Some i else index_of r name (S i)
    end.
  Fixpoint feature_of (sm : smodel) (name : string) : option feature :=
    match sm with
    | [] => None
    | (n, f) :: r => if String.eqb n name then Some f else feature_of r name
    end.
  Fixpoint set_nth (st : state) (i : nat) (v : N) : state :=
    match st, i with
    | [], _ => []
    | _ :: r, O => v :: r
    | x :: r, S j => x :: set_nth r j v
    end.

  (* StateModel::get_feature *)
  Definition get_feature (sm : smodel) (name : string) : res feature :=
    match feature_of sm name with Some f => Ok f | None => Err e_unknown end.
  (* StateModel::get_state_variable *)
  Definition get_state_variable (sm : smodel) (st : state) (name : string) : res N :=
    match index_of sm name 0 with
    | None => Err e_unknown
    | Some i => match nth_error st i with Some v => Ok v | None => Err e_runtime end
    end.
  (* StateModel::update_state with UpdateOperation::Replace *)
  Definition update_state (sm : smodel) (st : state) (name : string) (v : N) : res state :=
    match index_of sm name 0 with
    | None => Err e_unknown
    | Some i => match nth_error st i with Some _ => Ok (set_nth st i v) | None => Err e_index end
    end.

  Definition get_distance_unit (f : feature) : res dist_unit :=
    match f with FDistance u _ => Ok u | _ => Err e_feature_unit end.
  Definition get_time_unit (f : feature) : res time_unit :=
    match f with FTime u _ => Ok u | _ => Err e_feature_unit end.
  Definition get_energy_unit (f : feature) : res energy_unit :=
    match f with FEnergy u _ => Ok u | _ => Err e_feature_unit end.
  (* get_custom_feature_format followed by decode_f64 / encode_f64 *)
  Definition custom_f64_ok (f : feature) (e : string) : res unit :=
    match f with
    | FCustomF64 _ => Ok tt
    | FCustomOther _ => Err e
    | _ => Err e_feature_unit
    end.
  Definition get_initial (f : feature) : N :=
    match f with
    | FDistance _ i | FTime _ i | FEnergy _ i | FCustomF64 i | FCustomOther i => i
    end.
  (* StateModel::initial_state *)
  Definition initial_state (sm : smodel) : state := map (fun p => get_initial (snd p)) sm.

  (* StateFeature::eq : Distance/Time/Energy features compare equal whatever their unit and
     initial value; two Custom features compare by type and unit name (here: by constructor) *)
  Definition feature_same (a b : feature) : bool :=
    match a, b with
    | FDistance _ _, FDistance _ _ | FTime _ _, FTime _ _ | FEnergy _ _, FEnergy _ _
    | FCustomF64 _, FCustomF64 _ | FCustomOther _, FCustomOther _ => true
    | _, _ => false
    end.
  (* CompactOrderedHashMap::insert on the ordered map (property C11: an insertion-ordered map) *)
  Fixpoint sm_insert (sm : smodel) (name : string) (f : feature) : smodel * option feature :=
    match sm with
    | [] => ([(name, f)], None)
    | (n, g) :: r =>
        if String.eqb n name then ((n, f) :: r, Some g)
        else let '(r', old) := sm_insert r name f in ((n, g) :: r', old)
    end.
  (* StateModel::extend: insert all, then fail if any insert replaced a different feature *)
  Fixpoint extend_go (sm : smodel) (entries : smodel) (clash : bool) : smodel * bool :=
    match entries with
    | [] => (sm, clash)
    | (n, f) :: r =>
        let '(sm', old) := sm_insert sm n f in
        let c := match old with Some g => negb (feature_same g f) | None => false end in
        extend_go sm' r (clash || c)
    end.
  Definition extend (sm : smodel) (entries : smodel) : res smodel :=
    let '(sm', clash) := extend_go sm entries false in
    if clash then Err e_state_build else Ok sm'.

  (* get_distance / get_time / get_energy: value first, then the feature, then its unit *)
  Definition get_distance (sm : smodel) (st : state) (name : string) (u : dist_unit) : res N :=
    do v <- get_state_variable sm st name;
    do f <- get_feature sm name;
    do fu <- get_distance_unit f;
    Ok (convert_distance N fu u v).
  Definition get_time (sm : smodel) (st : state) (name : string) (u : time_unit) : res N :=
    do v <- get_state_variable sm st name;
    do f <- get_feature sm name;
    do fu <- get_time_unit f;
    Ok (convert_time N fu u v).
  Definition get_energy (sm : smodel) (st : state) (name : string) (u : energy_unit) : res N :=
    do v <- get_state_variable sm st name;
    do f <- get_feature sm name;
    do fu <- get_energy_unit f;
    Ok (convert_energy N fu u v).
  Definition get_custom_f64 (sm : smodel) (st : state) (name : string) : res N :=
    do v <- get_state_variable sm st name;
    do f <- get_feature sm name;
    do _ <- custom_f64_ok f e_decode;
    Ok v.

  Definition set_distance (sm : smodel) (st : state) (name : string) (x : N) (from : dist_unit) : res state :=
    do f <- get_feature sm name;
    do tu <- get_distance_unit f;
    update_state sm st name (convert_distance N from tu x).
  Definition set_time (sm : smodel) (st : state) (name : string) (x : N) (from : time_unit) : res state :=
    do f <- get_feature sm name;
    do tu <- get_time_unit f;
    update_state sm st name (convert_time N from tu x).
  Definition set_energy (sm : smodel) (st : state) (name : string) (x : N) (from : energy_unit) : res state :=
    do f <- get_feature sm name;
    do tu <- get_energy_unit f;
    update_state sm st name (convert_energy N from tu x).
  Definition set_custom_f64 (sm : smodel) (st : state) (name : string) (x : N) : res state :=
    do f <- get_feature sm name;
    do _ <- custom_f64_ok f e_encode;
    update_state sm st name x.

  (* add_distance / add_time / add_energy (after fix e80a615):
       let feature_unit = self.get_feature(name)?.get_X_unit()?;
       let prev = self.get_X(state, name, &feature_unit)?;
       let next = prev + from_unit.convert(x, &feature_unit);
       self.set_X(state, name, &next, &feature_unit)                                   *)
  Definition add_distance (sm : smodel) (st : state) (name : string) (x : N) (from : dist_unit) : res state :=
    do f <- get_feature sm name;
    do fu <- get_distance_unit f;
    do prev <- get_distance sm st name fu;
    set_distance sm st name (add prev (convert_distance N from fu x)) fu.
  Definition add_time (sm : smodel) (st : state) (name : string) (x : N) (from : time_unit) : res state :=
    do f <- get_feature sm name;
    do fu <- get_time_unit f;
    do prev <- get_time sm st name fu;
    set_time sm st name (add prev (convert_time N from fu x)) fu.
  Definition add_energy (sm : smodel) (st : state) (name : string) (x : N) (from : energy_unit) : res state :=
    do f <- get_feature sm name;
    do fu <- get_energy_unit f;
    do prev <- get_energy sm st name fu;
    set_energy sm st name (add prev (convert_energy N from fu x)) fu.

  (* ------------------------------------------------------------------ vehicle_ops.rs *)
  (* f64::clamp(0.0, 100.0):  if x < 0 {0} ; if x > 100 {100} *)
  Definition clamp_0_100 (x : N) : N :=
    if ltb x zero then zero else if ltb hundred x then hundred else x.
  Definition as_soc_percent (remaining max_battery : N) : N :=
    clamp_0_100 (mul (div remaining max_battery) hundred).
  Definition soc_from_battery_and_delta (start_battery energy_used max_battery : N) : N :=
    clamp_0_100 (mul (div (sub start_battery energy_used) max_battery) hundred).
  Definition update_soc_percent (sm : smodel) (st : state) (name : string) (delta max_battery : N) : res state :=
    do start_soc <- get_custom_f64 sm st name;
    let start_battery := mul max_battery (div start_soc hundred) in
    set_custom_f64 sm st name (soc_from_battery_and_delta start_battery delta max_battery).

  (* ------------------------------------------------------------------ prediction cache *)
  (* FloatCachePolicy over lru::LruCache: most recently used first.  [c_key] is
     float_key_to_int_key ( (value * 10^precision).round() as i64 per component ); it is a
     function of the record so that the model stays generic in N (Model/VehicleRun.v gives the
     binary64 instance). *)
  Record cache_cfg := { c_cap : nat; c_key : N -> N -> list Z }.
  Definition cache := list (list Z * N).
  Fixpoint key_eqb (a b : list Z) : bool :=
    match a, b with
    | [], [] => true
    | x :: a', y :: b' => Z.eqb x y && key_eqb a' b'
    | _, _ => false
    end.
  Fixpoint lru_find (c : cache) (k : list Z) : option N :=
    match c with
    | [] => None
    | (k', v) :: r => if key_eqb k' k then Some v else lru_find r k
    end.
  Fixpoint lru_remove (c : cache) (k : list Z) : cache :=
    match c with
    | [] => []
    | (k', v) :: r => if key_eqb k' k then r else (k', v) :: lru_remove r k
    end.
  (* LruCache::get: a hit becomes the most recently used entry *)
  Definition lru_get (c : cache) (k : list Z) : option N * cache :=
    match lru_find c k with
    | Some v => (Some v, (k, v) :: lru_remove c k)
    | None => (None, c)
    end.
  (* LruCache::put: replace or insert as most recent; at capacity the least recent entry goes *)
  Definition lru_put (cap : nat) (c : cache) (k : list Z) (v : N) : cache :=
    match lru_find c k with
    | Some _ => (k, v) :: lru_remove c k
    | None => (k, v) :: (if Nat.leb cap (List.length c) then removelast c else c)
    end.

  (* ------------------------------------------------------------------ PredictionModelRecord *)
  (* [pm_rate speed grade]: the underlying predictor (random forest, ONNX graph, the harness's
     affine function) on inputs ALREADY in the model's speed_unit / grade_unit *)
  Record pmr := {
    pm_rate : N -> N -> N;
    pm_su : speed_unit; pm_gu : grade_unit; pm_eru : energy_rate_unit;
    pm_ideal : N; pm_adj : N;
    pm_cache : option cache_cfg }.

  (* PredictionModel::predict of Smartcore/Onnx models (and of the harness's model):
       let speed_value = speed_unit.convert(&speed, &self.speed_unit);
       let grade_value = grade_unit.convert(&grade, &self.grade_unit);  rf.predict([speed, grade]) *)
  Definition model_predict (r : pmr) (speed : N) (su : speed_unit) (grade : N) (gu : grade_unit) : N :=
    pm_rate r (convert_speed N su (pm_su r) speed) (convert_grade N gu (pm_gu r) grade).

  (* PredictionModelRecord::predict *)
  Definition predict (r : pmr) (speed : N) (su : speed_unit) (grade : N) (gu : grade_unit)
                     (distance : N) (du : dist_unit) (c : cache) : res ((N * energy_unit) * cache) :=
    let '(energy_rate, c') :=
      match pm_cache r with
      | Some cfg =>
          let key := c_key cfg speed grade in
          match lru_get c key with
          | (Some er, c1) => (er, c1)
          | (None, c1) =>
              let er := model_predict r speed su grade gu in
              (er, lru_put (c_cap cfg) c1 key er)
          end
      | None => (model_predict r speed su grade gu, c)
      end in
    let energy_rate_real_world := mul energy_rate (pm_adj r) in
    do eu <- create_energy N energy_rate_real_world (pm_eru r) distance du;
    Ok (eu, c').

  (* ------------------------------------------------------------------ vehicles *)
  Inductive vehicle : Type :=
  | ICE (r : pmr)
  | BEV (r : pmr) (capacity starting : N) (bu : energy_unit)
  | PHEV (charge_sustain charge_depleting : pmr) (capacity starting : N) (bu : energy_unit).
  (* one cache per prediction model record: (ICE/BEV record or PHEV charge-sustain, PHEV charge-depleting) *)
  Definition caches := (cache * cache)%type.

  Definition state_features (v : vehicle) : smodel :=
    match v with
    | ICE r => [(n_liquid, FEnergy (energy_rate_energy_unit (pm_eru r)) zero)]
    | BEV r cap start bu =>
        [(n_electric, FEnergy bu zero); (n_soc, FCustomF64 (as_soc_percent start cap))]
    | PHEV cs cd cap start bu =>
        [(n_electric, FEnergy bu zero); (n_soc, FCustomF64 (as_soc_percent start cap));
         (n_liquid, FEnergy (energy_rate_energy_unit (pm_eru cs)) zero)]
    end.

  Definition best_case_energy (v : vehicle) (distance : N) (du : dist_unit) : res (N * energy_unit) :=
    match v with
    | ICE r | BEV r _ _ _ => create_energy N (pm_ideal r) (pm_eru r) distance du
    | PHEV _ cd _ _ _ => create_energy N (pm_ideal cd) (pm_eru cd) distance du
    end.

  (* BEV / PHEV (after fix 0840f02): the best-case energy comes in the rate's energy unit; it is
     recorded with that unit and converted into the battery unit for the charge, as consume_energy does *)
  Definition best_case_energy_state (v : vehicle) (distance : N) (du : dist_unit) (st : state) (sm : smodel)
      : res state :=
    do eu <- best_case_energy v distance du;
    let energy := fst eu in
    let energy_unit := snd eu in
    match v with
    | ICE r => add_energy sm st n_liquid energy (energy_rate_energy_unit (pm_eru r))
    | BEV _ cap _ bu | PHEV _ _ cap _ bu =>
        let battery_delta := convert_energy N energy_unit bu energy in
        do st1 <- add_energy sm st n_electric energy energy_unit;
        update_soc_percent sm st1 n_soc battery_delta cap
    end.

  (* phev.rs get_phev_energy: (electric, its unit, liquid, its unit) and the caches *)
  Definition get_phev_energy (cs cd : pmr) (battery_soc_percent : N)
      (speed : N) (su : speed_unit) (grade : N) (gu : grade_unit) (distance : N) (du : dist_unit) (cc : caches)
      : res ((N * energy_unit * N * energy_unit) * caches) :=
    let electrical_energy_unit := energy_rate_energy_unit (pm_eru cd) in
    let liquid_fuel_energy_unit := energy_rate_energy_unit (pm_eru cs) in
    if ltb zero battery_soc_percent then
      do r <- predict cd speed su grade gu distance du (snd cc);
      let '((e, eu), c') := r in
      Ok ((e, eu, zero, liquid_fuel_energy_unit), (fst cc, c'))
    else
      do r <- predict cs speed su grade gu distance du (fst cc);
      let '((e, eu), c') := r in
      Ok ((zero, electrical_energy_unit, e, eu), (c', snd cc)).

  Definition consume_energy (v : vehicle) (speed : N) (su : speed_unit) (grade : N) (gu : grade_unit)
      (distance : N) (du : dist_unit) (st : state) (sm : smodel) (cc : caches) : res (state * caches) :=
    match v with
    | ICE r =>
        do p <- predict r speed su grade gu distance du (fst cc);
        let '((energy, _), c') := p in
        do st1 <- add_energy sm st n_liquid energy (energy_rate_energy_unit (pm_eru r));
        Ok (st1, (c', snd cc))
    | BEV r cap _ bu =>
        do p <- predict r speed su grade gu distance du (fst cc);
        let '((energy, eu), c') := p in
        let battery_delta := convert_energy N eu bu energy in
        do st1 <- add_energy sm st n_electric energy eu;
        do st2 <- update_soc_percent sm st1 n_soc battery_delta cap;
        Ok (st2, (c', snd cc))
    | PHEV cs cd cap _ bu =>
        do start_soc <- get_custom_f64 sm st n_soc;
        do p <- get_phev_energy cs cd start_soc speed su grade gu distance du cc;
        let '((elec, elec_unit, liq, liq_unit), cc') := p in
        do st1 <- add_energy sm st n_electric elec elec_unit;
        do st2 <- add_energy sm st1 n_liquid liq liq_unit;
        let delta := convert_energy N elec_unit bu elec in
        do st3 <- update_soc_percent sm st2 n_soc delta cap;
        Ok (st3, cc')
    end.

  (* update_from_query: ICE ignores the query; BEV defaults to 100, PHEV requires the key *)
  Definition soc_in_query_range (x : N) : bool := leb zero x && leb x hundred.
  Definition starting_energy (soc_percent capacity : N) : N := mul (mul (lit 1 (-2)) soc_percent) capacity.
  Definition update_from_query (v : vehicle) (q : qval N) : res vehicle :=
    match v with
    | ICE r => Ok (ICE r)
    | BEV r cap _ bu =>
        do soc <- match q with QNumber x => Ok x | QNonNumeric => Err e_build | QMissing => Ok hundred end;
        if soc_in_query_range soc then Ok (BEV r cap (starting_energy soc cap) bu) else Err e_build
    | PHEV cs cd cap _ bu =>
        do soc <- match q with QNumber x => Ok x | QNonNumeric => Err e_build | QMissing => Err e_build end;
        if soc_in_query_range soc then Ok (PHEV cs cd cap (starting_energy soc cap) bu) else Err e_build
    end.
End V.

Arguments FDistance {N}. Arguments FTime {N}. Arguments FEnergy {N}. Arguments FCustomF64 {N}. Arguments FCustomOther {N}.
Arguments ICE {N}. Arguments BEV {N}. Arguments PHEV {N}.
Arguments Build_cache_cfg {N}. Arguments c_cap {N}. Arguments c_key {N}.
Arguments Build_pmr {N}. Arguments pm_rate {N}. Arguments pm_su {N}. Arguments pm_gu {N}. Arguments pm_eru {N}.
Arguments pm_ideal {N}. Arguments pm_adj {N}. Arguments pm_cache {N}.

End Vehicle.
