(* Runner of the C08 streams.
     M line: the model (Model/Vehicle.v + Model/EnergyTraversal.v) executed in binary64 (FN) on the
             case -- compared bit for bit with the implementation's I line;
     S line: the specification checker of Model/VehicleSpec.v evaluated in exact rationals on the
             IMPLEMENTATION's output embedded in the term; it re-prints that output when every check
             passes (so that I = S) and "REJECT <what>" otherwise.
   A case is described once, with binary64 inputs ([rcase]); [mk_*] build the FN / QN instances. *)
From Coq Require Import ZArith QArith Qabs String List Bool Floats.
From RC Require Import Base.Show Base.Num Base.Res Model.Units Model.Vehicle Model.EnergyTraversal Model.VehicleSpec.
Import ListNotations.

Module VehicleRun.
Import Units Vehicle EnergyTraversal VehicleSpec.
Local Open Scope string_scope.

(* ------------------------------------------------------------------ case description *)
(* the harness's predictor: rate = a + b * speed + c * grade on inputs in the model's units *)
Record rrec := {
  rr_a : float; rr_b : float; rr_c : float;
  rr_su : speed_unit; rr_gu : grade_unit; rr_eru : energy_rate_unit;
  rr_ideal : float; rr_adj : float;
  (* FloatCachePolicy: capacity and 10f64.powi(precision) of the two key components *)
  rr_cache : option (nat * float * float) }.
Inductive rveh :=
| RICE (r : rrec)
| RBEV (r : rrec) (cap : float) (bu : energy_unit)
| RPHEV (cs cd : rrec) (cap : float) (bu : energy_unit).
Inductive rfeat :=
| RFEnergy (u : energy_unit) (init : float)
| RFTime (u : time_unit) (init : float)
| RFDistance (u : dist_unit) (init : float)
| RFSoc (init : float).
Record rcase := {
  rc_veh : rveh;
  rc_query : qval float;
  rc_speeds : list float; rc_en_su : speed_unit; rc_en_tu : time_unit; rc_en_du : dist_unit;
  rc_sv_su : speed_unit; rc_grades : option (list float); rc_sv_gu : grade_unit; rc_sv_du : dist_unit;
  (* None: the state model is EnergyTraversalModel::state_features(); Some: same names, these units
     (electric, liquid, time, distance) *)
  rc_sm : option (energy_unit * energy_unit * time_unit * dist_unit);
  rc_edges : list (nat * float);
  rc_hav : float;
  (* features a [state] configuration section declares BEFORE the model's (StateModel::try_from), and features the
     query's `state_features` key appends AFTER them (search_app_ops::collect_features): a later definition of a
     name replaces the earlier one in place (StateModel::extend / CompactOrderedHashMap::insert) *)
  rc_pre : list (string * rfeat);
  rc_post : list (string * rfeat) }.

(* exact value of a finite binary64 number (0 for inf / nan: never produced by the generators) *)
Definition Q_of_float (f : float) : Q :=
  match Prim2SF f with
  | S754_finite s m e =>
      let mag := match e with
                 | Z0 => inject_Z (Zpos m)
                 | Zpos p => inject_Z (Zpos m * 2 ^ Zpos p)
                 | Zneg p => Zpos m # (2 ^ p)%positive
                 end in
      if s then Qopp mag else mag
  | _ => 0%Q
  end.

(* (x * mult).round() as i64 : round half away from zero, saturating, NaN -> 0 *)
Definition i64_max : Z := 9223372036854775807.
Definition round_i64 (f : float) : Z :=
  match Prim2SF f with
  | S754_zero _ => 0
  | S754_nan => 0
  | S754_infinity s => if s then (- i64_max - 1) else i64_max
  | S754_finite s m e =>
      let mag := match e with
                 | Z0 => Zpos m
                 | Zpos p => Zpos m * 2 ^ Zpos p
                 | Zneg p => let d := 2 ^ Zpos p in
                             let q := Zpos m / d in
                             let r := Zpos m mod d in
                             if (d <=? 2 * r) then q + 1 else q
                 end in
      let z := if s then - mag else mag in
      Z.max (- i64_max - 1) (Z.min i64_max z)
  end%Z.
Definition key_FN (ms mg : float) (speed grade : float) : list Z :=
  [round_i64 (PrimFloat.mul speed ms); round_i64 (PrimFloat.mul grade mg)].

Section Mk.
  Variable N : Num.
  Variable inj : float -> N.
  Variable key : float -> float -> N -> N -> list Z.

  Definition mk_pmr (r : rrec) : pmr N :=
    Build_pmr (fun s g => add (add (inj (rr_a r)) (mul (inj (rr_b r)) s)) (mul (inj (rr_c r)) g))
              (rr_su r) (rr_gu r) (rr_eru r) (inj (rr_ideal r)) (inj (rr_adj r))
              (match rr_cache r with
               | Some (cap, ms, mg) => Some (Build_cache_cfg cap (key ms mg))
               | None => None
               end).
  (* the vehicle as the configuration builders make it: starting energy = capacity *)
  Definition mk_vehicle (v : rveh) : vehicle N :=
    match v with
    | RICE r => ICE (mk_pmr r)
    | RBEV r cap bu => BEV (mk_pmr r) (inj cap) (inj cap) bu
    | RPHEV cs cd cap bu => PHEV (mk_pmr cs) (mk_pmr cd) (inj cap) (inj cap) bu
    end.
  Definition mk_query (q : qval float) : qval N :=
    match q with QMissing => QMissing | QNonNumeric => QNonNumeric | QNumber x => QNumber (inj x) end.
  Definition mk_engine (c : rcase) : @engine N :=
    let speeds := map inj (rc_speeds c) in
    Build_engine speeds (rc_en_su c) (rc_en_tu c) (rc_en_du c)
                 (match get_max_speed N speeds with Ok m => m | _ => zero end).
  Definition mk_service (c : rcase) : @service N :=
    Build_service (rc_sv_su c) (option_map (map inj) (rc_grades c)) (rc_sv_gu c) Seconds (rc_sv_du c).
  Definition mk_edges (c : rcase) : list (@edge N) :=
    map (fun p => Build_edge (fst p) (inj (snd p))) (rc_edges c).

  Definition retarget (units : energy_unit * energy_unit * time_unit * dist_unit) (p : string * feature N)
      : string * feature N :=
    let '(fe, fl, ft, fd) := units in
    let '(name, f) := p in
    (name, match f with
           | FEnergy _ i => FEnergy (if String.eqb name n_electric then fe else fl) i
           | FTime _ i => FTime ft i
           | FDistance _ i => FDistance fd i
           | other => other
           end).
  Definition mk_feature (p : string * rfeat) : string * feature N :=
    (fst p, match snd p with
            | RFEnergy u i => FEnergy u (inj i)
            | RFTime u i => FTime u (inj i)
            | RFDistance u i => FDistance u (inj i)
            | RFSoc i => FCustomF64 (inj i)
            end).
  Definition mk_smodel (c : rcase) (v : vehicle N) : res (smodel N) :=
    let features := state_features N v (speed_features N (mk_engine c)) in
    extend N (map mk_feature (rc_pre c))
           (List.app (match rc_sm c with None => features | Some u => map (retarget u) features end)
                     (map mk_feature (rc_post c))).
End Mk.

(* ------------------------------------------------------------------ M line *)
Definition show_state (st : list float) : string := show_list show_float st.
Definition show_rstate (r : res (list float)) : string := show_res show_state r.
Definition show_bc (r : res (float * energy_unit)) : string :=
  show_res (fun p => show_float (fst p) ++ "@" ++ show_energy (snd p)) r.

Definition payload (start : res (list float)) (edges : list (res (list float))) (est : res (list float))
                   (bc : res (float * energy_unit)) : string :=
  match start with
  | Ok st0 => "start=" ++ show_rstate start ++ " edges=" ++ join ";" (map show_rstate edges)
              ++ " est=" ++ show_rstate est ++ " bc=" ++ show_bc bc
  | _ => "start=" ++ show_rstate start
  end.

Definition keyF := key_FN.
Definition run_FN (c : rcase) : string :=
  let v0 := mk_vehicle FN (fun x => x) keyF (rc_veh c) in
  match update_from_query FN v0 (mk_query FN (fun x => x) (rc_query c)) with
  | Ok v =>
      match mk_smodel FN (fun x => x) c v with
      | Ok sm =>
          let en := mk_engine FN (fun x => x) c in
          let sv := mk_service FN (fun x => x) c in
          let st0 := initial_state FN sm in
          let edges := run_edges FN (speed_traverse FN en) sv v (mk_edges FN (fun x => x) c) st0 sm ([], []) in
          let est := estimate_traversal FN (speed_estimate FN en) sv v (rc_hav c) st0 sm in
          let bc := best_case_energy FN v (convert_distance FN Meters (sv_du sv) (rc_hav c)) (sv_du sv) in
          payload (Ok st0) edges est bc
      | Err e => payload (Err e) [] (Err e) (Err e)
      | _ => "model-crash"
      end
  | Err e => payload (Err e) [] (Err e) (Err e)
  | _ => "model-crash"
  end.
Definition line_model (id : Z) (c : rcase) : string := line "M" id (run_FN c).

(* ------------------------------------------------------------------ S line *)
Definition keyQ (ms mg : float) (s g : Q) : list Z := [].   (* the checker never looks at a cache *)
Definition rmapQ (r : res (list float)) : res (list Q) := rmap (map Q_of_float) r.

Definition check_case (c : rcase) (start : res (list float)) (edges : list (res (list float)))
                      (est : res (list float)) : option string :=
  let v0 := mk_vehicle QN Q_of_float keyQ (rc_veh c) in
  let q := mk_query QN Q_of_float (rc_query c) in
  match spec_start v0 q, start with
  | Err cl, Err cl' => if String.eqb cl cl' then None else Some "start:error-class"
  | Err _, _ => Some "start:must-be-rejected"
  | Ok soc, Ok st0f =>
      match update_from_query QN v0 q with
      | Ok v =>
          match mk_smodel QN Q_of_float c v with
          | Ok sm =>
              let st0 := map Q_of_float st0f in
              let en := mk_engine QN Q_of_float c in
              let sv := mk_service QN Q_of_float c in
              let start_ok :=
                match soc with
                | Some s => near (slot sm st0 n_soc) s 100
                            && Qle_bool 0 (slot sm st0 n_soc) && Qle_bool (slot sm st0 n_soc) 100
                | None => true
                end in
              if negb start_ok then Some "start:soc-is-not-the-query-value"
              else
                let '(ta, tb, zeros) := route_tables en sv v sm in
                match check_route en sv v sm (mk_edges QN Q_of_float c) st0 st0 ta tb zeros zeros (map rmapQ edges) 0 with
                | Some bad => Some bad
                | None =>
                    let hav := Q_of_float (rc_hav c) in
                    if Qeq_bool hav 0 then None
                    else match est with
                         | Ok cur =>
                             match and_all (check_estimate sv v sm hav st0 (map Q_of_float cur)) with
                             | Some bad => Some ("estimate:" ++ bad)
                             | None => None
                             end
                         | _ => Some "estimate:unexpected-error"
                         end
                end
          | _ => Some "state-model"
          end
      | _ => Some "start:spec-accepts-model-rejects"
      end
  | Ok _, _ => Some "start:must-be-accepted"
  | _, _ => Some "start:spec-crash"
  end.

(* [collision]: the case is an exhibit of the cache returning another input's rate (D-CACHE); the
   harness passes true only when that class is not to be judged *)
Definition line_check (id : Z) (c : rcase) (unjudged : bool) (start : res (list float))
                      (edges : list (res (list float))) (est : res (list float))
                      (bc : res (float * energy_unit)) : string :=
  line "S" id
    (if unjudged then "unspecified"
     else match check_case c start edges est with
          | None => payload start edges est bc
          | Some bad => "REJECT " ++ bad
          end).

(* what the checker says about a case, without the echo (used by the D-CACHE exhibit) *)
Definition line_verdict (id : Z) (c : rcase) (start : res (list float)) (edges : list (res (list float)))
                        (est : res (list float)) : string :=
  line "V" id (match check_case c start edges est with None => "accept" | Some bad => "REJECT " ++ bad end).

(* ------------------------------------------------------------------ several queries on ONE service instance *)
(* every query is judged on its own (history-free): the model runs each query from scratch, the
   implementation serves them one after the other from one EnergyModelService *)
Definition obs := (rcase * res (list float) * list (res (list float)) * res (list float) * res (float * energy_unit))%type.
Definition line_model_seq (id : Z) (cs : list rcase) : string := line "M" id (join " || " (map run_FN cs)).
Fixpoint first_reject (l : list obs) (i : nat) : option string :=
  match l with
  | [] => None
  | (c, start, edges, est, _) :: r =>
      match check_case c start edges est with
      | Some bad => Some ("q" ++ show_nat i ++ ":" ++ bad)
      | None => first_reject r (S i)
      end
  end.
Definition line_check_seq (id : Z) (l : list obs) : string :=
  line "S" id
    match first_reject l 0 with
    | Some bad => "REJECT " ++ bad
    | None => join " || " (map (fun o => let '(_, start, edges, est, bc) := o in payload start edges est bc) l)
    end.

(* ------------------------------------------------------------------ vehicles built by the configuration builders *)
(* The predictor is the bundled random forest (not modelled): the checker judges what needs no
   predictor -- the start charge, the charge range, the charge step against the energy the
   implementation itself recorded (electric feature and capacity both in the configured
   battery_capacity_unit), the PHEV switch, and the best case against best_case_energy (in every unit combination). *)
Inductive bkind := BIce | BBev (cap : float) (bu : energy_unit) | BPhev (cap : float) (bu : energy_unit).
Definition bobs := (bkind * qval float * res (list float) * list (res (list float)) * res (list float)
                    * res (float * energy_unit))%type.

Definition spec_start_kind (k : bkind) (q : qval Q) : res (option Q) :=
  let in_range x := if Qle_bool 0 x && Qle_bool x 100 then Ok (Some x) else Err e_build in
  match k, q with
  | BIce, _ => Ok None
  | _, QNonNumeric => Err e_build
  | BBev _ _, QMissing => Ok (Some 100%Q)
  | BPhev _ _, QMissing => Err e_build
  | _, QNumber x => in_range x
  end.
Definition nthQ (i : nat) (l : list Q) : Q := nth i l 0%Q.
Definition built_step (cap : Q) (prev cur : list Q) (delta_e : Q) : list (string * bool) :=
  let s0 := nthQ 1 prev in
  let s1 := nthQ 1 cur in
  let u := (s0 - 100 * delta_e / cap)%Q in
  [("soc-in-0-100", Qle_bool 0 s1 && Qle_bool s1 100);
   ("soc-step=-100*E/capacity", near s1 (clampQ u) (100 + Qabs u)%Q)].
Definition built_edge (k : bkind) (prev cur : list Q) : list (string * bool) :=
  match k with
  | BIce => [("state-shape", Nat.eqb (List.length cur) 3)]
  | BBev cap _ => ("state-shape", Nat.eqb (List.length cur) 4)
                  :: built_step (Q_of_float cap) prev cur (nthQ 0 cur - nthQ 0 prev)
  | BPhev cap _ =>
      ("state-shape", Nat.eqb (List.length cur) 5)
      :: (if Qle_bool (nthQ 1 prev) 0
          then ("phev-empty-no-electric", Qeq_bool (nthQ 0 cur) (nthQ 0 prev))
          else ("phev-charged-no-liquid", Qeq_bool (nthQ 2 cur) (nthQ 2 prev)))
      :: built_step (Q_of_float cap) prev cur (nthQ 0 cur - nthQ 0 prev)
  end.
Fixpoint built_route (k : bkind) (prev : list Q) (outs : list (res (list float))) (i : nat) : option string :=
  match outs with
  | [] => None
  | Ok curf :: r =>
      let cur := map Q_of_float curf in
      match and_all (built_edge k prev cur) with
      | Some bad => Some ("edge" ++ show_nat i ++ ":" ++ bad)
      | None => built_route k cur r (S i)
      end
  | _ :: _ => Some ("edge" ++ show_nat i ++ ":unexpected-error")
  end.
(* best case: the electric (ICE: liquid) feature grows by best_case_energy converted into the feature's
   unit, and the charge falls by 100 * that / capacity *)
Definition built_estimate (k : bkind) (st0 cur : list Q) (bc : Q) (eu : energy_unit) : list (string * bool) :=
  match k with
  | BIce => [("best-case=ideal*distance", near3 (nthQ 0 st0) (nthQ 0 cur) bc)]
  | BBev cap bu | BPhev cap bu =>
      let e := (bc * k_energy eu bu)%Q in
      ("best-case=ideal*distance(in the battery unit)", near3 (nthQ 0 st0) (nthQ 0 cur) e)
      :: built_step (Q_of_float cap) st0 cur e
  end.
Definition check_built (o : bobs) : option string :=
  let '(k, q, start, edges, est, bc) := o in
  match spec_start_kind k (mk_query QN Q_of_float q), start with
  | Err cl, Err cl' => if String.eqb cl cl' then None else Some "start:error-class"
  | Err _, _ => Some "start:must-be-rejected"
  | Ok soc, Ok st0f =>
      let st0 := map Q_of_float st0f in
      let start_ok := match soc with
                      | Some s => near (nthQ 1 st0) s 100 && Qle_bool 0 (nthQ 1 st0) && Qle_bool (nthQ 1 st0) 100
                      | None => true
                      end in
      if negb start_ok then Some "start:soc-is-not-the-query-value"
      else match built_route k st0 edges 0 with
           | Some bad => Some bad
           | None =>
               match est, bc with
               | Ok curf, Ok (b, eu) =>
                   if Nat.eqb (List.length curf) (List.length st0f) && negb (Qeq_bool (Q_of_float b) 0)
                   then match and_all (built_estimate k st0 (map Q_of_float curf) (Q_of_float b) eu) with
                        | Some bad => Some ("estimate:" ++ bad)
                        | None => None
                        end
                   else None
               | _, _ => Some "estimate:unexpected-error"
               end
           end
  | Ok _, _ => Some "start:must-be-accepted"
  | _, _ => Some "start:spec-crash"
  end.
Fixpoint first_built_reject (l : list bobs) (i : nat) : option string :=
  match l with
  | [] => None
  | o :: r => match check_built o with
              | Some bad => Some ("q" ++ show_nat i ++ ":" ++ bad)
              | None => first_built_reject r (S i)
              end
  end.
Definition line_built (id : Z) (l : list bobs) : string :=
  line "S" id
    match first_built_reject l 0 with
    | Some bad => "REJECT " ++ bad
    | None => join " || " (map (fun o => let '(_, _, start, edges, est, bc) := o in payload start edges est bc) l)
    end.

End VehicleRun.
