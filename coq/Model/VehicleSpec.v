(* SPECIFICATION side of property C08, in exact rational arithmetic, definitions only.

   1. closed forms: what an edge must cost in energy, in terms of the table speed, the grade, the
      edge length and the conversion constants of the regenerated unit tables (k_dist, k_time, ...);
      Proofs/Vehicle*.v prove that the QN reading of the model computes exactly these;
   2. the checker [check_route] the runner applies to the OUTPUT OF THE IMPLEMENTATION (binary64
      values read as exact rationals), within a relative band of 1e-9. *)
From Coq Require Import ZArith QArith Qabs String List Bool.
From RC Require Import Base.Num Base.Res Model.Units Model.UnitsRun Model.Vehicle Model.EnergyTraversal.
Import ListNotations.

Module VehicleSpec.
Import Units UnitsRun Vehicle EnergyTraversal.
Local Open Scope Q_scope.

Notation pmrQ := (pmr QN).
Notation vehicleQ := (vehicle QN).
Notation engineQ := (@engine QN).
Notation serviceQ := (@service QN).

(* ------------------------------------------------------------------ 1. closed forms *)
(* the speed handed to the predictor = [speed_factor] * table speed.  Factors, in the order the
   code applies them:  edge length m -> engine distance unit -> m (create_time), table speed ->
   m/s (create_time), s -> engine time unit, -> unit of the "time" feature (add_time), -> time
   unit of the service's speed unit (get_time), edge length m -> distance unit of that speed
   unit, quotient, then service speed unit -> model speed unit. *)
Definition time_chain (en : engineQ) (ftu : time_unit) (sv : serviceQ) : Q :=
  k_dist base_distance_unit (en_du en) * k_dist (en_du en) base_distance_unit
  / k_speed (en_su en) base_speed_unit
  * k_time base_time_unit (en_tu en) * k_time (en_tu en) ftu * k_time ftu (speed_time_unit (sv_su sv)).
Definition speed_factor (en : engineQ) (ftu : time_unit) (sv : serviceQ) (su_model : speed_unit) : Q :=
  k_dist base_distance_unit (speed_distance_unit (sv_su sv)) / time_chain en ftu sv
  * k_speed (sv_su sv) su_model.
(* the same factor relative to the exact SI conversion of the table speed into the model's unit *)
Definition tau (en : engineQ) (ftu : time_unit) (sv : serviceQ) (su_model : speed_unit) : Q :=
  speed_factor en ftu sv su_model / (si_speed (en_su en) / si_speed su_model).

Definition spec_speed (en : engineQ) (ftu : time_unit) (sv : serviceQ) (r : pmrQ) (v : Q) : Q :=
  v * speed_factor en ftu sv (pm_su r).
Definition spec_grade (sv : serviceQ) (r : pmrQ) (g : Q) : Q := g * k_grade (sv_gu sv) (pm_gu r).
(* edge length in the distance unit of the rate *)
Definition spec_length (sv : serviceQ) (r : pmrQ) (d : Q) : Q :=
  d * k_dist base_distance_unit (sv_du sv) * k_dist (sv_du sv) (energy_rate_distance_unit (pm_eru r)).
(* energy of one edge in the energy unit of the rate:  rate(speed', grade') * adjustment * length *)
Definition spec_energy (en : engineQ) (ftu : time_unit) (sv : serviceQ) (r : pmrQ) (v g d : Q) : Q :=
  pm_rate r (spec_speed en ftu sv r v) (spec_grade sv r g) * pm_adj r * spec_length sv r d.
(* best case: ideal rate * great-circle distance (hav_m in meters) *)
Definition spec_length_hav (sv : serviceQ) (r : pmrQ) (hav_m : Q) : Q :=
  hav_m * k_dist Meters (sv_du sv) * k_dist (sv_du sv) (energy_rate_distance_unit (pm_eru r)).
Definition spec_best_case (sv : serviceQ) (r : pmrQ) (hav_m : Q) : Q := pm_ideal r * spec_length_hav sv r hav_m.

Definition clampQ (x : Q) : Q := if Qle_bool x 0 then 0 else if Qle_bool 100 x then 100 else x.
(* state of charge after an edge that used E (battery unit) from a battery of capacity cap *)
Definition spec_soc (soc e cap : Q) : Q := clampQ (soc - 100 * e / cap).

(* all unit configurations the factor ranges over *)
Definition tau_configs : list (speed_unit * dist_unit * time_unit * time_unit * speed_unit * speed_unit) :=
  list_prod (list_prod (list_prod (list_prod (list_prod all_speed all_dist) all_time) all_time) all_speed) all_speed.
Definition mk_engine (su : speed_unit) (du : dist_unit) (tu : time_unit) : engineQ :=
  @Build_engine QN [] su tu du 0%Q.
Definition mk_service (su : speed_unit) : serviceQ := @Build_service QN su None Decimal Seconds Meters.
(* accumulated tolerance of [tau]: at most eight table factors, each within 0.1 % *)
Definition tau_tol : Q := 1 # 100.
Definition tau_ok (c : speed_unit * dist_unit * time_unit * time_unit * speed_unit * speed_unit) : bool :=
  let '(esu, edu, etu, ftu, ssu, msu) := c in
  within tau_tol (tau (mk_engine esu edu etu) ftu (mk_service ssu) msu) 1.

(* ------------------------------------------------------------------ 2. checker on implementation output *)
Definition band : Q := 1 # 1000000000.
(* |a - b| <= 1e-9 * scale *)
Definition near (a b scale : Q) : bool := Qle_bool (Qabs (a - b)) (band * scale).
Definition near3 (prev cur delta_spec : Q) : bool :=
  near (cur - prev) delta_spec (Qabs prev + Qabs cur + Qabs delta_spec).

Definition slot (sm : smodel QN) (st : list Q) (name : string) : Q :=
  match index_of QN sm name 0 with Some i => nth i st 0 | None => 0 end.
Definition feature_energy_unit (sm : smodel QN) (name : string) : energy_unit :=
  match feature_of QN sm name with Some (FEnergy u _) => u | _ => KilowattHours end.
Definition feature_time_unit (sm : smodel QN) : time_unit :=
  match feature_of QN sm n_time with Some (FTime u _) => u | _ => Seconds end.

Local Open Scope string_scope.
Definition and_all (checks : list (string * bool)) : option string :=
  match filter (fun c => negb (snd c)) checks with
  | [] => None
  | bad => Some (Show.join "," (map fst bad))
  end.

(* which error an edge must produce, in the order the code meets them *)
Definition spec_edge_error (en : engineQ) (sv : serviceQ) (e : @edge QN) : option string :=
  match nth_error (en_speeds en) (e_id e) with
  | None => Some e_failure
  | Some v =>
      if Qle_bool v 0 || Qle_bool (e_dist e) 0 then Some e_units_time
      else match sv_grades sv with
           | None => None
           | Some gt => match nth_error gt (e_id e) with Some _ => None | None => Some e_failure end
           end
  end.
Definition edge_speed (en : engineQ) (e : @edge QN) : Q := nth (e_id e) (en_speeds en) 0%Q.
Definition edge_grade (sv : serviceQ) (e : @edge QN) : Q :=
  match sv_grades sv with Some gt => nth (e_id e) gt 0%Q | None => 0%Q end.

(* ------------------------------------------------------------------ the law of one edge, and of a route *)
Definition in_0_100 (x : Q) : Prop := 0 <= x /\ x <= 100.

(* [prev] / [cur]: state vectors before and after the edge; slots are found by feature name *)
Definition edge_law (en : engineQ) (sv : serviceQ) (v : vehicleQ) (sm : smodel QN) (e : @edge QN)
                    (prev cur : list Q) : Prop :=
  let ftu := feature_time_unit sm in
  let vs := edge_speed en e in
  let g := edge_grade sv e in
  let d := e_dist e in
  match v with
  | ICE r =>
      (* energy recorded = rate(speed', grade') * adjustment * length, in the feature's unit *)
      slot sm cur n_liquid == slot sm prev n_liquid
        + spec_energy en ftu sv r vs g d * k_energy (energy_rate_energy_unit (pm_eru r)) (feature_energy_unit sm n_liquid)
  | BEV r cap _ bu =>
      let E := spec_energy en ftu sv r vs g d in
      let eu := energy_rate_energy_unit (pm_eru r) in
      slot sm cur n_electric == slot sm prev n_electric + E * k_energy eu (feature_energy_unit sm n_electric)
      /\ slot sm cur n_soc == spec_soc (slot sm prev n_soc) (E * k_energy eu bu) cap
      /\ in_0_100 (slot sm cur n_soc)
  | PHEV cs cd cap _ bu =>
      (* entered with charge remaining: electricity only *)
      (0 < slot sm prev n_soc ->
         let E := spec_energy en ftu sv cd vs g d in
         let eu := energy_rate_energy_unit (pm_eru cd) in
         slot sm cur n_liquid == slot sm prev n_liquid
         /\ slot sm cur n_electric == slot sm prev n_electric + E * k_energy eu (feature_energy_unit sm n_electric)
         /\ slot sm cur n_soc == spec_soc (slot sm prev n_soc) (E * k_energy eu bu) cap)
      (* entered empty: liquid fuel only *)
      /\ (slot sm prev n_soc <= 0 ->
         let E := spec_energy en ftu sv cs vs g d in
         slot sm cur n_electric == slot sm prev n_electric
         /\ slot sm cur n_liquid == slot sm prev n_liquid
              + E * k_energy (energy_rate_energy_unit (pm_eru cs)) (feature_energy_unit sm n_liquid)
         /\ slot sm cur n_soc == clampQ (slot sm prev n_soc))
      /\ in_0_100 (slot sm cur n_soc)
  end.

(* the law holds between every two consecutive states of a route *)
Fixpoint chain (P : @edge QN -> list Q -> list Q -> Prop) (es : list (@edge QN)) (prev : list Q)
               (states : list (list Q)) : Prop :=
  match es, states with
  | [], [] => True
  | e :: es', cur :: states' => P e prev cur /\ chain P es' cur states'
  | _, _ => False
  end.

(* an edge the time model and the grade table accept: positive table speed and length, ids inside the tables *)
Definition edge_ok (en : engineQ) (sv : serviceQ) (e : @edge QN) : Prop :=
  (exists v, nth_error (en_speeds en) (e_id e) = Some v /\ 0 < v)
  /\ 0 < e_dist e
  /\ match sv_grades sv with Some gt => exists g, nth_error gt (e_id e) = Some g | None => True end.

(* energy the specification assigns to an edge for a single-record vehicle (feature unit [fu]) *)
Definition edge_energy_in (en : engineQ) (ftu : time_unit) (sv : serviceQ) (r : pmrQ) (fu : energy_unit) (e : @edge QN) : Q :=
  spec_energy en ftu sv r (edge_speed en e) (edge_grade sv e) (e_dist e)
  * k_energy (energy_rate_energy_unit (pm_eru r)) fu.
Definition sumQ (l : list Q) : Q := fold_right Qplus 0 l.

(* the checker normalises fractions as it goes (Qred x == x): without it the numerators of a 40-edge
   route reach tens of thousands of bits *)
Definition spec_energy_r (en : engineQ) (ftu : time_unit) (sv : serviceQ) (r : pmrQ) (v g d : Q) : Q :=
  Qred (pm_rate r (Qred (spec_speed en ftu sv r v)) (Qred (spec_grade sv r g)) * pm_adj r * Qred (spec_length sv r d)).

(* one successful edge: prev / cur are the implementation's state vectors before and after *)
Definition check_edge (en : engineQ) (sv : serviceQ) (v : vehicleQ) (sm : smodel QN) (e : @edge QN)
                      (prev cur : list Q) : list (string * bool) :=
  let ftu := feature_time_unit sm in
  let vs := edge_speed en e in
  let g := edge_grade sv e in
  let d := e_dist e in
  match v with
  | ICE r =>
      let E := spec_energy_r en ftu sv r vs g d in
      let fu := feature_energy_unit sm n_liquid in
      [("energy=rate*adj*length",
        near3 (slot sm prev n_liquid) (slot sm cur n_liquid) (E * k_energy (energy_rate_energy_unit (pm_eru r)) fu)%Q)]
  | BEV r cap _ bu =>
      let E := spec_energy_r en ftu sv r vs g d in
      let eu := energy_rate_energy_unit (pm_eru r) in
      let fu := feature_energy_unit sm n_electric in
      let s0 := slot sm prev n_soc in
      let s1 := slot sm cur n_soc in
      let u := (s0 - 100 * (E * k_energy eu bu) / cap)%Q in
      [("energy=rate*adj*length", near3 (slot sm prev n_electric) (slot sm cur n_electric) (E * k_energy eu fu)%Q);
       ("soc-in-0-100", Qle_bool 0 s1 && Qle_bool s1 100);
       ("soc-step", near s1 (clampQ u) (100 + Qabs u)%Q)]
  | PHEV cs cd cap _ bu =>
      let s0 := slot sm prev n_soc in
      let s1 := slot sm cur n_soc in
      let fe := feature_energy_unit sm n_electric in
      let fl := feature_energy_unit sm n_liquid in
      if Qle_bool s0 0 then
        (* entered empty: only liquid fuel *)
        let E := spec_energy_r en ftu sv cs vs g d in
        [("phev-empty-no-electric", Qeq_bool (slot sm cur n_electric) (slot sm prev n_electric));
         ("energy=rate*adj*length",
          near3 (slot sm prev n_liquid) (slot sm cur n_liquid) (E * k_energy (energy_rate_energy_unit (pm_eru cs)) fl)%Q);
         ("soc-in-0-100", Qle_bool 0 s1 && Qle_bool s1 100);
         ("soc-step", near s1 (clampQ s0) 100)]
      else
        (* entered with charge: only electricity *)
        let E := spec_energy_r en ftu sv cd vs g d in
        let eu := energy_rate_energy_unit (pm_eru cd) in
        let u := (s0 - 100 * (E * k_energy eu bu) / cap)%Q in
        [("phev-charged-no-liquid", Qeq_bool (slot sm cur n_liquid) (slot sm prev n_liquid));
         ("energy=rate*adj*length", near3 (slot sm prev n_electric) (slot sm cur n_electric) (E * k_energy eu fe)%Q);
         ("soc-in-0-100", Qle_bool 0 s1 && Qle_bool s1 100);
         ("soc-step", near s1 (clampQ u) (100 + Qabs u)%Q)]
  end.

(* the whole route: every edge locally, and the accumulated energies against the sum of the
   per-edge specification energies ([acc_*]: sums so far, in the feature's unit) *)
Definition edge_energies (en : engineQ) (sv : serviceQ) (v : vehicleQ) (sm : smodel QN) (e : @edge QN)
                         (prev : list Q) : Q * Q (* electric, liquid: feature units *) :=
  let ftu := feature_time_unit sm in
  let vs := edge_speed en e in
  let g := edge_grade sv e in
  let d := e_dist e in
  match v with
  | ICE r => (0, spec_energy_r en ftu sv r vs g d
                 * k_energy (energy_rate_energy_unit (pm_eru r)) (feature_energy_unit sm n_liquid))%Q
  | BEV r _ _ _ => (spec_energy_r en ftu sv r vs g d
                    * k_energy (energy_rate_energy_unit (pm_eru r)) (feature_energy_unit sm n_electric), 0)%Q
  | PHEV cs cd _ _ _ =>
      if Qle_bool (slot sm prev n_soc) 0
      then (0, spec_energy_r en ftu sv cs vs g d
               * k_energy (energy_rate_energy_unit (pm_eru cs)) (feature_energy_unit sm n_liquid))%Q
      else (spec_energy_r en ftu sv cd vs g d
            * k_energy (energy_rate_energy_unit (pm_eru cd)) (feature_energy_unit sm n_electric), 0)%Q
  end.

Fixpoint check_route (en : engineQ) (sv : serviceQ) (v : vehicleQ) (sm : smodel QN) (es : list (@edge QN))
    (st0 : list Q) (prev : list Q) (acc_e acc_l mag : Q) (outs : list (res (list Q))) (i : nat) : option string :=
  match es, outs with
  | [], [] => None
  | e :: es', out :: outs' =>
      match spec_edge_error en sv e, out with
      | Some c, Err c' => if String.eqb c c' then (match outs' with [] => None | _ => Some "results-after-error" end)
                          else Some ("edge" ++ Show.show_nat i ++ ":error-class")
      | Some _, _ => Some ("edge" ++ Show.show_nat i ++ ":must-be-rejected")
      | None, Ok cur =>
          match and_all (check_edge en sv v sm e prev cur) with
          | Some bad => Some ("edge" ++ Show.show_nat i ++ ":" ++ bad)
          | None =>
              let '(de, dl) := edge_energies en sv v sm e prev in
              let acc_e' := Qred (acc_e + de)%Q in
              let acc_l' := Qred (acc_l + dl)%Q in
              let mag' := Qred (mag + Qabs de + Qabs dl)%Q in
              let has_e := match v with ICE _ => false | _ => true end in
              let has_l := match v with BEV _ _ _ _ => false | _ => true end in
              if (negb has_e || near (slot sm cur n_electric - slot sm st0 n_electric) acc_e' mag')
                 && (negb has_l || near (slot sm cur n_liquid - slot sm st0 n_liquid) acc_l' mag')
              then check_route en sv v sm es' st0 cur acc_e' acc_l' mag' outs' (S i)
              else Some ("edge" ++ Show.show_nat i ++ ":not-additive")
          end
      | None, _ => Some ("edge" ++ Show.show_nat i ++ ":unexpected-error")
      end
  | _, _ => Some "length-mismatch"
  end.

(* starting charge: the query's value (BEV: 100 when absent), rejected outside [0, 100] or when
   not a number; PHEV as the code has it: the key is required *)
Definition spec_start (v : vehicleQ) (q : qval Q) : res (option Q) (* Some soc for battery vehicles *) :=
  match v with
  | ICE _ => Ok None
  | BEV _ _ _ _ =>
      match q with
      | QMissing => Ok (Some 100%Q)
      | QNonNumeric => Err e_build
      | QNumber x => if Qle_bool 0 x && Qle_bool x 100 then Ok (Some x) else Err e_build
      end
  | PHEV _ _ _ _ _ =>
      match q with
      | QMissing => Err e_build
      | QNonNumeric => Err e_build
      | QNumber x => if Qle_bool 0 x && Qle_bool x 100 then Ok (Some x) else Err e_build
      end
  end.

(* best case estimate from state [prev] to [cur] over a great-circle distance hav_m (meters) *)
Definition check_estimate (sv : serviceQ) (v : vehicleQ) (sm : smodel QN) (hav_m : Q) (prev cur : list Q)
    : list (string * bool) :=
  match v with
  | ICE r =>
      let E := spec_best_case sv r hav_m in
      [("best-case=ideal*distance",
        near3 (slot sm prev n_liquid) (slot sm cur n_liquid)
              (E * k_energy (energy_rate_energy_unit (pm_eru r)) (feature_energy_unit sm n_liquid))%Q)]
  | BEV r cap _ bu | PHEV _ r cap _ bu =>
      (* the code labels the best-case energy with the battery unit (exact when the rate's energy
         unit IS the battery unit, the only configuration the checker is given) *)
      let E := spec_best_case sv r hav_m in
      let s0 := slot sm prev n_soc in
      let u := (s0 - 100 * E / cap)%Q in
      [("best-case=ideal*distance",
        near3 (slot sm prev n_electric) (slot sm cur n_electric) (E * k_energy bu (feature_energy_unit sm n_electric))%Q);
       ("soc-in-0-100", Qle_bool 0 (slot sm cur n_soc) && Qle_bool (slot sm cur n_soc) 100);
       ("soc-step", near (slot sm cur n_soc) (clampQ u) (100 + Qabs u)%Q)]
  end.

End VehicleSpec.
