(* SPECIFICATION side of property C08, in exact rational arithmetic, definitions only.

   1. closed forms: what an edge must cost in energy, in terms of the table speed, the grade, the
      edge length and the conversion constants of the regenerated unit tables (k_dist, k_time, ...);
      Proofs/Vehicle*.v prove that the QN reading of the model computes exactly these;
   2. the checker [check_route] the runner applies to the OUTPUT OF THE IMPLEMENTATION (binary64
      values read as exact rationals), within a relative band of 1e-9. *)
From Coq Require Import ZArith QArith Qabs String List Bool.
From RC Require Import Base.Num Base.Res Model.Units Model.UnitsRun Model.Vehicle Model.EnergyTraversal.
Import ListNotations.

Module VehicleSpec.
Import Units UnitsRun Vehicle EnergyTraversal.
Local Open Scope Q_scope.

Notation pmrQ := (pmr QN).
Notation vehicleQ := (vehicle QN).
Notation engineQ := (@engine QN).
Notation serviceQ := (@service QN).

(* ------------------------------------------------------------------ 1. closed forms *)
(* the speed handed to the predictor = [speed_factor] * table speed.  Factors, in the order the
   code applies them:  edge length m -> engine distance unit -> m (create_time), table speed ->
   m/s (create_time), s -> engine time unit, -> unit of the "time" feature (add_time), -> time
   unit of the service's speed unit (get_time), edge length m -> distance unit of that speed
   unit, quotient, then service speed unit -> model speed unit. *)
Definition time_chain (en : engineQ) (ftu : time_unit) (sv : serviceQ) : Q :=
  k_dist base_distance_unit (en_du en) * k_dist (en_du en) base_distance_unit
  / k_speed (en_su en) base_speed_unit
  * k_time base_time_unit (en_tu en) * k_time (en_tu en) ftu * k_time ftu (speed_time_unit (sv_su sv)).
Definition speed_factor (en : engineQ) (ftu : time_unit) (sv : serviceQ) (su_model : speed_unit) : Q :=
  k_dist base_distance_unit (speed_distance_unit (sv_su sv)) / time_chain en ftu sv
  * k_speed (sv_su sv) su_model.
(* the same factor relative to the exact SI conversion of the table speed into the model's unit *)
Definition tau (en : engineQ) (ftu : time_unit) (sv : serviceQ) (su_model : speed_unit) : Q :=
  speed_factor en ftu sv su_model / (si_speed (en_su en) / si_speed su_model).

Definition spec_speed (en : engineQ) (ftu : time_unit) (sv : serviceQ) (r : pmrQ) (v : Q) : Q :=
  v * speed_factor en ftu sv (pm_su r).
Definition spec_grade (sv : serviceQ) (r : pmrQ) (g : Q) : Q := g * k_grade (sv_gu sv) (pm_gu r).
(* edge length in the distance unit of the rate *)
Definition spec_length (sv : serviceQ) (r : pmrQ) (d : Q) : Q :=
  d * k_dist base_distance_unit (sv_du sv) * k_dist (sv_du sv) (energy_rate_distance_unit (pm_eru r)).
(* energy of one edge in the energy unit of the rate:  rate(speed', grade') * adjustment * length *)
Definition spec_energy (en : engineQ) (ftu : time_unit) (sv : serviceQ) (r : pmrQ) (v g d : Q) : Q :=
  pm_rate r (spec_speed en ftu sv r v) (spec_grade sv r g) * pm_adj r * spec_length sv r d.
(* best case: ideal rate * great-circle distance (hav_m in meters) *)
Definition spec_length_hav (sv : serviceQ) (r : pmrQ) (hav_m : Q) : Q :=
  hav_m * k_dist Meters (sv_du sv) * k_dist (sv_du sv) (energy_rate_distance_unit (pm_eru r)).
Definition spec_best_case (sv : serviceQ) (r : pmrQ) (hav_m : Q) : Q := pm_ideal r * spec_length_hav sv r hav_m.

Definition clampQ (x : Q) : Q := if Qle_bool x 0 then 0 else if Qle_bool 100 x then 100 else x.
(* state of charge after an edge that used E (battery unit) from a battery of capacity cap *)
Definition spec_soc (soc e cap : Q) : Q := clampQ (soc - 100 * e / cap).

(* all unit configurations the factor ranges over *)
Definition tau_configs : list (speed_unit * dist_unit * time_unit * time_unit * speed_unit * speed_unit) :=
  list_prod (list_prod (list_prod (list_prod (list_prod all_speed all_dist) all_time) all_time) all_speed) all_speed.
Definition mk_engine (su : speed_unit) (du : dist_unit) (tu : time_unit) : engineQ :=
  @Build_engine QN [] su tu du 0%Q.
Definition mk_service (su : speed_unit) : serviceQ := @Build_service QN su None Decimal Seconds Meters.
(* accumulated tolerance of [tau]: nine table factors, each within 0.1 % of its SI value, many of them
   cancelling; the largest deviation over the 2160 configurations of the current tables is 0.0214 % *)
Definition tau_tol : Q := 3 # 1000.
Definition tau_ok (c : speed_unit * dist_unit * time_unit * time_unit * speed_unit * speed_unit) : bool :=
  let '(esu, edu, etu, ftu, ssu, msu) := c in
  within tau_tol (tau (mk_engine esu edu etu) ftu (mk_service ssu) msu) 1.

(* ------------------------------------------------------------------ 2. checker on implementation output *)
Definition band : Q := 1 # 1000000000.
(* |a - b| <= 1e-9 * scale *)
Definition near (a b scale : Q) : bool := Qle_bool (Qabs (a - b)) (band * scale).
Definition near3 (prev cur delta_spec : Q) : bool :=
  near (cur - prev) delta_spec (Qabs prev + Qabs cur + Qabs delta_spec).

Definition slot (sm : smodel QN) (st : list Q) (name : string) : Q :=
  match index_of QN sm name 0 with Some i => nth i st 0 | None => 0 end.
Definition feature_energy_unit (sm : smodel QN) (name : string) : energy_unit :=
  match feature_of QN sm name with Some (FEnergy u _) => u | _ => KilowattHours end.
Definition feature_time_unit (sm : smodel QN) : time_unit :=
  match feature_of QN sm n_time with Some (FTime u _) => u | _ => Seconds end.

Local Open Scope string_scope.
Definition and_all (checks : list (string * bool)) : option string :=
  match filter (fun c => negb (snd c)) checks with
  | [] => None
  | bad => Some (Show.join "," (map fst bad))
  end.

(* which error an edge must produce, in the order the code meets them *)
Definition spec_edge_error (en : engineQ) (sv : serviceQ) (e : @edge QN) : option string :=
  match nth_error (en_speeds en) (e_id e) with
  | None => Some e_failure
  | Some v =>
      if Qle_bool v 0 || Qle_bool (e_dist e) 0 then Some e_units_time
      else match sv_grades sv with
           | None => None
           | Some gt => match nth_error gt (e_id e) with Some _ => None | None => Some e_failure end
           end
  end.
Definition edge_speed (en : engineQ) (e : @edge QN) : Q := nth (e_id e) (en_speeds en) 0%Q.
Definition edge_grade (sv : serviceQ) (e : @edge QN) : Q :=
  match sv_grades sv with Some gt => nth (e_id e) gt 0%Q | None => 0%Q end.

(* ------------------------------------------------------------------ the law of one edge, and of a route *)
Definition in_0_100 (x : Q) : Prop := 0 <= x /\ x <= 100.

(* [prev] / [cur]: state vectors before and after the edge; slots are found by feature name *)
Definition edge_law (en : engineQ) (sv : serviceQ) (v : vehicleQ) (sm : smodel QN) (e : @edge QN)
                    (prev cur : list Q) : Prop :=
  let ftu := feature_time_unit sm in
  let vs := edge_speed en e in
  let g := edge_grade sv e in
  let d := e_dist e in
  match v with
  | ICE r =>
      (* energy recorded = rate(speed', grade') * adjustment * length, in the feature's unit *)
      slot sm cur n_liquid == slot sm prev n_liquid
        + spec_energy en ftu sv r vs g d * k_energy (energy_rate_energy_unit (pm_eru r)) (feature_energy_unit sm n_liquid)
  | BEV r cap _ bu =>
      let E := spec_energy en ftu sv r vs g d in
      let eu := energy_rate_energy_unit (pm_eru r) in
      slot sm cur n_electric == slot sm prev n_electric + E * k_energy eu (feature_energy_unit sm n_electric)
      /\ slot sm cur n_soc == spec_soc (slot sm prev n_soc) (E * k_energy eu bu) cap
      /\ in_0_100 (slot sm cur n_soc)
  | PHEV cs cd cap _ bu =>
      (* entered with charge remaining: electricity only *)
      (0 < slot sm prev n_soc ->
         let E := spec_energy en ftu sv cd vs g d in
         let eu := energy_rate_energy_unit (pm_eru cd) in
         slot sm cur n_liquid == slot sm prev n_liquid
         /\ slot sm cur n_electric == slot sm prev n_electric + E * k_energy eu (feature_energy_unit sm n_electric)
         /\ slot sm cur n_soc == spec_soc (slot sm prev n_soc) (E * k_energy eu bu) cap)
      (* entered empty: liquid fuel only *)
      /\ (slot sm prev n_soc <= 0 ->
         let E := spec_energy en ftu sv cs vs g d in
         slot sm cur n_electric == slot sm prev n_electric
         /\ slot sm cur n_liquid == slot sm prev n_liquid
              + E * k_energy (energy_rate_energy_unit (pm_eru cs)) (feature_energy_unit sm n_liquid)
         /\ slot sm cur n_soc == clampQ (slot sm prev n_soc))
      /\ in_0_100 (slot sm cur n_soc)
  end.

(* the law holds between every two consecutive states of a route *)
Fixpoint chain (P : @edge QN -> list Q -> list Q -> Prop) (es : list (@edge QN)) (prev : list Q)
               (states : list (list Q)) : Prop :=
  match es, states with
  | [], [] => True
  | e :: es', cur :: states' => P e prev cur /\ chain P es' cur states'
  | _, _ => False
  end.

(* an edge the time model and the grade table accept: positive table speed and length, ids inside the tables *)
Definition edge_ok (en : engineQ) (sv : serviceQ) (e : @edge QN) : Prop :=
  (exists v, nth_error (en_speeds en) (e_id e) = Some v /\ 0 < v)
  /\ 0 < e_dist e
  /\ match sv_grades sv with Some gt => exists g, nth_error gt (e_id e) = Some g | None => True end.

(* energy the specification assigns to an edge for a single-record vehicle (feature unit [fu]) *)
Definition edge_energy_in (en : engineQ) (ftu : time_unit) (sv : serviceQ) (r : pmrQ) (fu : energy_unit) (e : @edge QN) : Q :=
  spec_energy en ftu sv r (edge_speed en e) (edge_grade sv e) (e_dist e)
  * k_energy (energy_rate_energy_unit (pm_eru r)) fu.
Definition sumQ (l : list Q) : Q := fold_right Qplus 0 l.

(* The checker normalises fractions as it goes (Qred x == x) and uses that the energy of an edge is
   linear in its length: [epm_table] holds, per table row, the specification energy PER METER
   (spec_energy ... 1); an edge of length d then costs epm * d  ( == spec_energy ... d ). *)
(* nearest-below dyadic rational with 96 significant bits: relative error < 2^-95, thirty orders of
   magnitude inside the 1e-9 band; keeps the checker's integers short (the exact per-meter energies
   have ~500-bit fractions: products of ten decimal conversion factors) *)
Definition dyadic96 (q : Q) : Q :=
  let n := Qnum q in
  let d := Zpos (Qden q) in
  if (n =? 0)%Z then 0%Q
  else
    let s := (96 - (Z.log2 (Z.abs n) - Z.log2 d))%Z in
    match s with
    | Zpos p => Qred ((n * 2 ^ s / d)%Z # (2 ^ p)%positive)
    | Z0 => inject_Z (n / d)
    | Zneg p => inject_Z (n / (d * 2 ^ Zpos p) * 2 ^ Zpos p)
    end.

Definition epm_table (en : engineQ) (ftu : time_unit) (sv : serviceQ) (r : pmrQ) : list Q :=
  map (fun i => dyadic96 (spec_energy en ftu sv r (nth i (en_speeds en) 0%Q)
                                  (match sv_grades sv with Some gt => nth i gt 0%Q | None => 0%Q end) 1))
      (seq 0 (List.length (en_speeds en))).
Definition edge_E (tab : list Q) (e : @edge QN) : Q := nth (e_id e) tab 0%Q * e_dist e.

(* one successful edge: prev / cur are the implementation's state vectors before and after;
   Ea / Eb: specification energy of the edge for the first record (ICE, BEV, PHEV charge-sustaining)
   and for the PHEV's charge-depleting record, in the energy unit of the rate *)
Definition check_edge (v : vehicleQ) (sm : smodel QN) (prev cur : list Q) (Ea Eb : Q) : list (string * bool) :=
  match v with
  | ICE r =>
      let fu := feature_energy_unit sm n_liquid in
      [("energy=rate*adj*length",
        near3 (slot sm prev n_liquid) (slot sm cur n_liquid) (Ea * k_energy (energy_rate_energy_unit (pm_eru r)) fu)%Q)]
  | BEV r cap _ bu =>
      let E := Ea in
      let eu := energy_rate_energy_unit (pm_eru r) in
      let fu := feature_energy_unit sm n_electric in
      let s0 := slot sm prev n_soc in
      let s1 := slot sm cur n_soc in
      let u := (s0 - 100 * (E * k_energy eu bu) / cap)%Q in
      [("energy=rate*adj*length", near3 (slot sm prev n_electric) (slot sm cur n_electric) (E * k_energy eu fu)%Q);
       ("soc-in-0-100", Qle_bool 0 s1 && Qle_bool s1 100);
       ("soc-step", near s1 (clampQ u) (100 + Qabs u)%Q)]
  | PHEV cs cd cap _ bu =>
      let s0 := slot sm prev n_soc in
      let s1 := slot sm cur n_soc in
      let fe := feature_energy_unit sm n_electric in
      let fl := feature_energy_unit sm n_liquid in
      if Qle_bool s0 0 then
        (* entered empty: only liquid fuel *)
        let E := Ea in
        [("phev-empty-no-electric", Qeq_bool (slot sm cur n_electric) (slot sm prev n_electric));
         ("energy=rate*adj*length",
          near3 (slot sm prev n_liquid) (slot sm cur n_liquid) (E * k_energy (energy_rate_energy_unit (pm_eru cs)) fl)%Q);
         ("soc-in-0-100", Qle_bool 0 s1 && Qle_bool s1 100);
         ("soc-step", near s1 (clampQ s0) 100)]
      else
        (* entered with charge: only electricity *)
        let E := Eb in
        let eu := energy_rate_energy_unit (pm_eru cd) in
        let u := (s0 - 100 * (E * k_energy eu bu) / cap)%Q in
        [("phev-charged-no-liquid", Qeq_bool (slot sm cur n_liquid) (slot sm prev n_liquid));
         ("energy=rate*adj*length", near3 (slot sm prev n_electric) (slot sm cur n_electric) (E * k_energy eu fe)%Q);
         ("soc-in-0-100", Qle_bool 0 s1 && Qle_bool s1 100);
         ("soc-step", near s1 (clampQ u) (100 + Qabs u)%Q)]
  end.

(* additivity: per table row, the total length driven under the first / second record *)
Fixpoint add_at (l : list Q) (i : nat) (x : Q) : list Q :=
  match l, i with
  | [], _ => []
  | y :: r, O => Qred (y + x) :: r
  | y :: r, S j => y :: add_at r j x
  end.
Definition dotQ (a b : list Q) : Q := fold_right Qplus 0 (map (fun p => Qred (fst p * snd p)) (combine a b)).
Definition dot_abs (a b : list Q) : Q := fold_right Qplus 0 (map (fun p => Qred (Qabs (fst p) * snd p)) (combine a b)).

(* does the edge run under the second record (PHEV entered with charge)? *)
Definition second_regime (v : vehicleQ) (sm : smodel QN) (prev : list Q) : bool :=
  match v with PHEV _ _ _ _ _ => negb (Qle_bool (slot sm prev n_soc) 0) | _ => false end.

Definition check_totals (v : vehicleQ) (sm : smodel QN) (st0 cur : list Q) (ta tb La Lb : list Q) : bool :=
  let tot_a := Qred (dotQ ta La) in
  let tot_b := Qred (dotQ tb Lb) in
  let mag := Qred (dot_abs ta La + dot_abs tb Lb) in
  match v with
  | ICE r =>
      let k := k_energy (energy_rate_energy_unit (pm_eru r)) (feature_energy_unit sm n_liquid) in
      near (slot sm cur n_liquid - slot sm st0 n_liquid) (tot_a * k) (mag * k)
  | BEV r _ _ _ =>
      let k := k_energy (energy_rate_energy_unit (pm_eru r)) (feature_energy_unit sm n_electric) in
      near (slot sm cur n_electric - slot sm st0 n_electric) (tot_a * k) (mag * k)
  | PHEV cs cd _ _ _ =>
      let kl := k_energy (energy_rate_energy_unit (pm_eru cs)) (feature_energy_unit sm n_liquid) in
      let ke := k_energy (energy_rate_energy_unit (pm_eru cd)) (feature_energy_unit sm n_electric) in
      near (slot sm cur n_liquid - slot sm st0 n_liquid) (tot_a * kl) (mag * kl)
      && near (slot sm cur n_electric - slot sm st0 n_electric) (tot_b * ke) (mag * ke)
  end.

(* the whole route: every edge locally, and at the end of the route the accumulated energies against
   the sum of the per-edge specification energies *)
Fixpoint check_route (en : engineQ) (sv : serviceQ) (v : vehicleQ) (sm : smodel QN) (es : list (@edge QN))
    (st0 : list Q) (prev : list Q) (ta tb La Lb : list Q) (outs : list (res (list Q))) (i : nat) : option string :=
  match es, outs with
  | [], [] => None
  | e :: es', out :: outs' =>
      match spec_edge_error en sv e, out with
      | Some c, Err c' => if String.eqb c c' then (match outs' with [] => None | _ => Some "results-after-error" end)
                          else Some ("edge" ++ Show.show_nat i ++ ":error-class")
      | Some _, _ => Some ("edge" ++ Show.show_nat i ++ ":must-be-rejected")
      | None, Ok cur =>
          let second := second_regime v sm prev in
          let E := edge_E (if second then tb else ta) e in
          match and_all (check_edge v sm prev cur E E) with
          | Some bad => Some ("edge" ++ Show.show_nat i ++ ":" ++ bad)
          | None =>
              let La' := if second then La else add_at La (e_id e) (e_dist e) in
              let Lb' := if second then add_at Lb (e_id e) (e_dist e) else Lb in
              if (match outs' with [] | [Err _] => check_totals v sm st0 cur ta tb La' Lb' | _ => true end)
              then check_route en sv v sm es' st0 cur ta tb La' Lb' outs' (S i)
              else Some ("edge" ++ Show.show_nat i ++ ":not-additive")
          end
      | None, _ => Some ("edge" ++ Show.show_nat i ++ ":unexpected-error")
      end
  | _, _ => Some "length-mismatch"
  end.

(* tables and zeroed length sums for a case *)
Definition route_tables (en : engineQ) (sv : serviceQ) (v : vehicleQ) (sm : smodel QN) : list Q * list Q * list Q :=
  let ftu := feature_time_unit sm in
  let zeros := map (fun _ => 0%Q) (en_speeds en) in
  match v with
  | ICE r | BEV r _ _ _ => let t := epm_table en ftu sv r in (t, t, zeros)
  | PHEV cs cd _ _ _ => (epm_table en ftu sv cs, epm_table en ftu sv cd, zeros)
  end.

(* starting charge: the query's value (BEV: 100 when absent), rejected outside [0, 100] or when
   not a number; PHEV as the code has it: the key is required *)
Definition spec_start (v : vehicleQ) (q : qval Q) : res (option Q) (* Some soc for battery vehicles *) :=
  match v with
  | ICE _ => Ok None
  | BEV _ _ _ _ =>
      match q with
      | QMissing => Ok (Some 100%Q)
      | QNonNumeric => Err e_build
      | QNumber x => if Qle_bool 0 x && Qle_bool x 100 then Ok (Some x) else Err e_build
      end
  | PHEV _ _ _ _ _ =>
      match q with
      | QMissing => Err e_build
      | QNonNumeric => Err e_build
      | QNumber x => if Qle_bool 0 x && Qle_bool x 100 then Ok (Some x) else Err e_build
      end
  end.

(* best case estimate from state [prev] to [cur] over a great-circle distance hav_m (meters) *)
Definition check_estimate (sv : serviceQ) (v : vehicleQ) (sm : smodel QN) (hav_m : Q) (prev cur : list Q)
    : list (string * bool) :=
  match v with
  | ICE r =>
      let E := spec_best_case sv r hav_m in
      [("best-case=ideal*distance",
        near3 (slot sm prev n_liquid) (slot sm cur n_liquid)
              (E * k_energy (energy_rate_energy_unit (pm_eru r)) (feature_energy_unit sm n_liquid))%Q)]
  | BEV r cap _ bu | PHEV _ r cap _ bu =>
      let E := spec_best_case sv r hav_m in
      let eu := energy_rate_energy_unit (pm_eru r) in
      let s0 := slot sm prev n_soc in
      let u := (s0 - 100 * (E * k_energy eu bu) / cap)%Q in
      [("best-case=ideal*distance",
        near3 (slot sm prev n_electric) (slot sm cur n_electric) (E * k_energy eu (feature_energy_unit sm n_electric))%Q);
       ("soc-in-0-100", Qle_bool 0 (slot sm cur n_soc) && Qle_bool (slot sm cur n_soc) 100);
       ("soc-step", near (slot sm cur n_soc) (clampQ u) (100 + Qabs u)%Q)]
  end.

End VehicleSpec.
