(* Lemmas about Model/Batch.v: chunking, partition_map, the greedy load balancer. *)
From Coq Require Import String.
From Coq Require Import List Arith Bool Lia Permutation.
From RC Require Import Base.Res Base.Num Model.Batch.
Import ListNotations.
Import Batch.

(* ------------------------------------------------------------------ chunks *)
Section ChunkLemmas.
  Context {A : Type}.

  Lemma chunks_go_concat : forall fuel k (l : list A),
      1 <= k -> length l <= fuel -> concat (chunks_go fuel k l) = l.
  Proof.
    induction fuel as [|fuel IH]; intros k l Hk Hl.
    - destruct l; [reflexivity | simpl in Hl; lia].
    - destruct l as [|x r]; [reflexivity|].
      cbn [chunks_go concat]. rewrite IH.
      + apply firstn_skipn.
      + exact Hk.
      + rewrite skipn_length. cbn [length] in *. lia.
  Qed.

  (* slice::chunks loses nothing and duplicates nothing, for every chunk size >= 1 *)
  Lemma chunks_concat : forall k (l : list A), 1 <= k -> concat (chunks k l) = l.
  Proof. intros k l Hk. apply chunks_go_concat; [exact Hk | apply le_n]. Qed.

  Lemma chunks_go_sizes : forall fuel k (l : list A),
      1 <= k -> Forall (fun c => 1 <= length c <= k) (chunks_go fuel k l).
  Proof.
    induction fuel as [|fuel IH]; intros k l Hk; [constructor|].
    destruct l as [|x r]; [constructor|].
    cbn [chunks_go]. constructor; [|apply IH; exact Hk].
    rewrite firstn_length. simpl. lia.
  Qed.
  Lemma chunks_sizes : forall k (l : list A),
      1 <= k -> Forall (fun c => 1 <= length c <= k) (chunks k l).
  Proof. intros. apply chunks_go_sizes. assumption. Qed.

  Lemma update_length : forall (l : list A) i f, length (update l i f) = length l.
  Proof.
    induction l as [|x r IH]; intros i f; [reflexivity|].
    destruct i; simpl; [reflexivity | rewrite IH; reflexivity].
  Qed.

  Lemma update_nth : forall (l : list A) i f j d,
      i < length l ->
      nth j (update l i f) d = if Nat.eqb i j then f (nth j l d) else nth j l d.
  Proof.
    induction l as [|x r IH]; intros i f j d Hi; [simpl in Hi; lia|].
    destruct i as [|i]; destruct j as [|j]; simpl; try reflexivity.
    apply IH. simpl in Hi. lia.
  Qed.
End ChunkLemmas.

Lemma chunk_size_pos : forall n p, 1 <= chunk_size n p.
Proof. intros. unfold chunk_size. lia. Qed.

(* ------------------------------------------------------------------ partition_map *)
Section PartitionMap.
  Context {A L R : Type} (f : A -> L + R).

  Lemma partition_map_app : forall l1 l2,
      partition_map f (l1 ++ l2)
      = (fst (partition_map f l1) ++ fst (partition_map f l2),
         snd (partition_map f l1) ++ snd (partition_map f l2)).
  Proof.
    induction l1 as [|x r IH]; intros l2.
    - simpl. destruct (partition_map f l2); reflexivity.
    - simpl. rewrite IH. destruct (partition_map f r) as [ls rs].
      destruct (f x); reflexivity.
  Qed.

  (* chunk-wise partition_map, unzip, flatten = partition_map of the whole *)
  Lemma partition_map_chunks : forall cs : list (list A),
      let parts := map (partition_map f) cs in
      (concat (fst (split parts)), concat (snd (split parts))) = partition_map f (concat cs).
  Proof.
    induction cs as [|c cs IH]; [reflexivity|].
    cbn zeta in *. cbn [map concat]. rewrite partition_map_app, <- IH.
    cbn [split]. destruct (split (map (partition_map f) cs)) as [a b].
    destruct (partition_map f c) as [x y]. reflexivity.
  Qed.

  Lemma partition_map_perm : forall {B} (g : L -> list B) (h : R -> B) l,
      Permutation (flat_map g (fst (partition_map f l)) ++ map h (snd (partition_map f l)))
                  (flat_map (fun x => match f x with inl a => g a | inr b => [h b] end) l).
  Proof.
    intros B g h. induction l as [|x r IH]; [constructor|].
    cbn [partition_map flat_map]. destruct (partition_map f r) as [ls rs].
    destruct (f x) as [a|b]; cbn [fst snd flat_map map] in *.
    - rewrite <- app_assoc. apply Permutation_app_head. exact IH.
    - apply Permutation_sym. cbn [app].
      apply Permutation_cons_app. apply Permutation_sym. exact IH.
  Qed.

  Lemma partition_map_lengths : forall l,
      length (fst (partition_map f l)) + length (snd (partition_map f l)) = length l.
  Proof.
    induction l as [|x r IH]; [reflexivity|].
    cbn [partition_map]. destruct (partition_map f r) as [ls rs].
    destruct (f x); cbn [fst snd length] in *; lia.
  Qed.
End PartitionMap.

(* ------------------------------------------------------------------ subseq / Merge *)
Lemma subseq_refl {A} : forall l : list A, subseq l l.
Proof. induction l; constructor; assumption. Qed.
Lemma subseq_nil_l {A} : forall l : list A, subseq [] l.
Proof. induction l; constructor; assumption. Qed.

Lemma Merge_perm {A} : forall (ls : list (list A)) out, Merge ls out -> Permutation out (concat ls).
Proof.
  intros ls out H. induction H as [ls Hall | pre x l post out H IH].
  - induction Hall as [|l ls Hl Hall IH]; [constructor|]. subst l. exact IH.
  - rewrite concat_app in *. cbn [concat] in *.
    change ((x :: l) ++ concat post) with (x :: (l ++ concat post)).
    apply Permutation_cons_app. exact IH.
Qed.

(* ------------------------------------------------------------------ load balancer *)
Section Balance.
  Context {N : Num} {query : Type}.
  Variable weight : query -> res (option N).

  Lemma min_bin_from_lt : forall (rest : list N) bi (bw : N) i,
      bi < i -> min_bin_from bi bw i rest < i + length rest.
  Proof.
    induction rest as [|w r IH]; intros bi bw i Hb; cbn [min_bin_from length].
    - lia.
    - destruct (ltb w bw).
      + specialize (IH i w (S i)). lia.
      + specialize (IH bi bw (S i)). lia.
  Qed.

  Lemma min_bin_lt : forall (bins : list N) b, min_bin bins = Some b -> b < length bins.
  Proof.
    intros [|w r] b H; [discriminate|]. injection H as <-.
    pose proof (min_bin_from_lt r 0 w 1). simpl. lia.
  Qed.

  (* the queries of [qs] sent to bin [b] by the assignment [asg], in order *)
  Fixpoint select (b : nat) (qs : list query) (asg : list nat) : list query :=
    match qs, asg with
    | q :: r, a :: asg' => if Nat.eqb a b then q :: select b r asg' else select b r asg'
    | _, _ => []
    end.

  Lemma select_subseq : forall b qs asg, length asg = length qs -> subseq (select b qs asg) qs.
  Proof.
    intros b. induction qs as [|q r IH]; intros asg Hl.
    - destruct asg; constructor.
    - destruct asg as [|a asg']; [discriminate|]. simpl in Hl. injection Hl as Hl.
      cbn [select]. destruct (Nat.eqb a b); constructor; apply IH; exact Hl.
  Qed.

  (* the loop of apply_load_balancing_policy: there is an assignment (the sequence of chosen
     bins) and every bin receives exactly the queries assigned to it, appended in order *)
  Lemma lb_go_spec : forall qs d totals bins out,
      length totals = length bins ->
      lb_go weight qs d totals bins = Ok out ->
      exists asg, length asg = length qs
             /\ Forall (fun a => a < length bins) asg
             /\ length out = length bins
             /\ forall b, nth b out [] = nth b bins [] ++ select b qs asg.
  Proof.
    induction qs as [|q r IH]; intros d totals bins out Hlen H.
    - cbn [lb_go] in H. injection H as <-. exists []. repeat split; [constructor|].
      intros b. cbn [select]. rewrite app_nil_r. reflexivity.
    - cbn [lb_go] in H. destruct (weight q) as [wo| | |]; cbn [bind] in H; try discriminate.
      destruct (min_bin totals) as [a|] eqn:Ha; [|discriminate].
      pose proof (min_bin_lt _ _ Ha) as Hlt. rewrite Hlen in Hlt.
      apply IH in H; [|rewrite !update_length; exact Hlen].
      destruct H as [asg [Hl [Hall [Hout Hnth]]]].
      rewrite update_length in Hall, Hout.
      exists (a :: asg). repeat split.
      + simpl. rewrite Hl. reflexivity.
      + constructor; assumption.
      + exact Hout.
      + intros b. rewrite Hnth, update_nth by exact Hlt. cbn [select].
        destruct (Nat.eqb a b); [rewrite <- app_assoc|]; reflexivity.
  Qed.

  Lemma nth_repeat_nil : forall {A} p b, nth b (repeat (@nil A) p) [] = [].
  Proof. induction p; destruct b; simpl; auto. Qed.

  Lemma list_as_nth : forall {A} (l : list (list A)), l = map (fun b => nth b l []) (seq 0 (length l)).
  Proof.
    induction l as [|x r IH]; [reflexivity|].
    cbn [length seq map nth]. f_equal. rewrite <- seq_shift, map_map. exact IH.
  Qed.

  (* distributing a list over bins by an assignment with values < p is a permutation *)
  Lemma select_cons_perm : forall q a (g : nat -> list query) p s,
      s <= a < s + p ->
      Permutation (concat (map (fun b => if Nat.eqb a b then q :: g b else g b) (seq s p)))
                  (q :: concat (map g (seq s p))).
  Proof.
    intros q a g. induction p as [|p IH]; intros s Hs; [lia|].
    cbn [seq map concat]. destruct (Nat.eqb a s) eqn:E.
    - apply Nat.eqb_eq in E. subst s. cbn [app]. constructor.
      replace (map (fun b => if Nat.eqb a b then q :: g b else g b) (seq (S a) p))
        with (map g (seq (S a) p)); [apply Permutation_refl|].
      apply map_ext_in. intros b Hb. apply in_seq in Hb.
      destruct (Nat.eqb a b) eqn:E'; [apply Nat.eqb_eq in E'; lia | reflexivity].
    - apply Nat.eqb_neq in E.
      apply Permutation_trans with (g s ++ q :: concat (map g (seq (S s) p))).
      + apply Permutation_app_head. apply IH. lia.
      + apply Permutation_sym, Permutation_middle.
  Qed.

  Lemma select_all_perm : forall p qs asg,
      length asg = length qs -> Forall (fun a => a < p) asg ->
      Permutation (concat (map (fun b => select b qs asg) (seq 0 p))) qs.
  Proof.
    intros p. induction qs as [|q r IH]; intros asg Hl Hall.
    - replace (map (fun b => select b [] asg) (seq 0 p)) with (map (fun _ : nat => @nil query) (seq 0 p)).
      + induction (seq 0 p); [constructor | exact IHl].
      + apply map_ext. intros b. destruct asg; reflexivity.
    - destruct asg as [|a asg']; [discriminate|]. simpl in Hl. injection Hl as Hl.
      inversion Hall as [|? ? Ha Hall']; subst.
      cbn [select].
      eapply Permutation_trans; [apply (select_cons_perm q a (fun b => select b r asg')); lia|].
      constructor. apply IH; assumption.
  Qed.

  (* apply_load_balancing_policy, whole function *)
  Lemma balance_spec : forall qs p d bins,
      balance weight qs p d = Ok bins ->
      (qs = [] /\ bins = [])
      \/ (qs <> [] /\ length bins = p
          /\ exists asg, length asg = length qs /\ Forall (fun a => a < p) asg
                    /\ forall b, nth b bins [] = select b qs asg).
  Proof.
    intros qs p d bins H. destruct qs as [|q r].
    - left. cbn [balance] in H. injection H as <-. split; reflexivity.
    - right. split; [discriminate|]. unfold balance in H.
      apply lb_go_spec in H; [|rewrite !repeat_length; reflexivity].
      destruct H as [asg [Hl [Hall [Hout Hnth]]]]. rewrite repeat_length in Hall, Hout.
      split; [exact Hout|]. exists asg. repeat split; try assumption.
      intros b. rewrite Hnth, nth_repeat_nil. reflexivity.
  Qed.

  Lemma balance_perm : forall qs p d bins,
      balance weight qs p d = Ok bins -> Permutation (concat bins) qs.
  Proof.
    intros qs p d bins H. destruct (balance_spec _ _ _ _ H) as [[-> ->] | [_ [Hp [asg [Hl [Hall Hnth]]]]]].
    - constructor.
    - rewrite (list_as_nth bins), Hp.
      replace (map (fun b => nth b bins []) (seq 0 p)) with (map (fun b => select b qs asg) (seq 0 p)).
      + apply select_all_perm; assumption.
      + apply map_ext. intros b. symmetry. apply Hnth.
  Qed.

  Lemma balance_order : forall qs p d bins,
      balance weight qs p d = Ok bins -> Forall (fun bin => subseq bin qs) bins.
  Proof.
    intros qs p d bins H. destruct (balance_spec _ _ _ _ H) as [[-> ->] | [_ [Hp [asg [Hl [Hall Hnth]]]]]].
    - constructor.
    - rewrite (list_as_nth bins). apply Forall_forall. intros bin Hin.
      apply in_map_iff in Hin. destruct Hin as [b [<- _]]. rewrite Hnth.
      apply select_subseq. exact Hl.
  Qed.

  (* it succeeds whenever there is at least one bin and every weight is readable *)
  Lemma lb_go_ok : forall qs d totals bins,
      length totals = length bins -> 1 <= length bins ->
      (forall q, In q qs -> is_ok (weight q) = true) ->
      exists out, lb_go weight qs d totals bins = Ok out.
  Proof.
    induction qs as [|q r IH]; intros d totals bins Hlen Hp Hw.
    - eexists. reflexivity.
    - cbn [lb_go]. pose proof (Hw q (or_introl eq_refl)) as Hq.
      destruct (weight q) as [wo| | |]; try discriminate. cbn [bind].
      destruct totals as [|t ts]; [simpl in Hlen; lia|]. cbn [min_bin].
      apply IH.
      + rewrite !update_length. exact Hlen.
      + rewrite update_length. exact Hp.
      + intros q' Hin. apply Hw. right. exact Hin.
  Qed.

  Lemma balance_ok : forall qs p d,
      1 <= p -> (forall q, In q qs -> is_ok (weight q) = true) ->
      exists bins, balance weight qs p d = Ok bins.
  Proof.
    intros qs p d Hp Hw. destruct qs as [|q r]; [eexists; reflexivity|].
    unfold balance. apply lb_go_ok; rewrite ?repeat_length; auto.
  Qed.

  (* parallelism 0 with at least one query: min_bin of an empty slice *)
  Lemma balance_zero : forall q r d,
      is_ok (weight q) = true -> balance weight (q :: r) 0 d = Err "InternalError"%string.
  Proof.
    intros q r d Hq. cbn [balance repeat lb_go]. destruct (weight q); try discriminate. reflexivity.
  Qed.
End Balance.
