(* Lemmas about Batch.apply_core: outside the class K (an expanded query rejected after
   the expansion while it has siblings) the plugin stage answers every expanded query on its own;
   inside it, one error response replaces all of them. *)
From Coq Require Import String.
From Coq Require Import List Arith Bool Lia Permutation ZArith.
From RC Require Import Base.Res Base.Num Model.Batch Proofs.Batch Proofs.BatchResponses.
Import ListNotations.
Import Batch.

Lemma flat_map_ext_in {A B} (f g : A -> list B) l :
  (forall x, In x l -> f x = g x) -> flat_map f l = flat_map g l.
Proof.
  intros H. induction l as [|x r IH]; [reflexivity|]. cbn [flat_map].
  rewrite (H x (or_introl eq_refl)), IH; [reflexivity|]. intros y Hy. apply H. right. exact Hy.
Qed.

Section PluginLemmas.
  Context {query response : Type}.
  Variable is_object : query -> bool.
  Variable invariant_error : query -> response.
  Notation plugin := (@plugin query response).
  Notation finish := (finish is_object invariant_error).
  Notation apply_core := (apply_core is_object invariant_error).

  Lemma stage_all_app : forall (pl : plugin) l1 l2,
      stage_all pl (l1 ++ l2)
      = match stage_all pl l1 with
        | inr e => inr e
        | inl o1 => match stage_all pl l2 with inr e => inr e | inl o2 => inl (o1 ++ o2) end
        end.
  Proof.
    intros pl. induction l1 as [|q r IH]; intros l2.
    - cbn [app stage_all]. destruct (stage_all pl l2); reflexivity.
    - cbn [app stage_all]. destruct (pl q) as [out|e]; [|reflexivity].
      rewrite IH. destruct (stage_all pl r) as [o1|e]; [|reflexivity].
      destruct (stage_all pl l2) as [o2|e]; [|reflexivity]. rewrite app_assoc. reflexivity.
  Qed.

  Lemma apply_stages_app_ok : forall (st : list plugin) l1 l2 o1 o2,
      apply_stages st l1 = inl o1 -> apply_stages st l2 = inl o2 ->
      apply_stages st (l1 ++ l2) = inl (o1 ++ o2).
  Proof.
    induction st as [|pl rest IH]; intros l1 l2 o1 o2 H1 H2.
    - cbn [apply_stages] in *. congruence.
    - cbn [apply_stages] in *. rewrite stage_all_app.
      destruct (stage_all pl l1) as [m1|e]; [|discriminate].
      destruct (stage_all pl l2) as [m2|e]; [|discriminate].
      apply IH; assumption.
  Qed.

  Lemma apply_stages_app_inv : forall (st : list plugin) l1 l2 o,
      apply_stages st (l1 ++ l2) = inl o ->
      exists o1 o2, apply_stages st l1 = inl o1 /\ apply_stages st l2 = inl o2 /\ o = o1 ++ o2.
  Proof.
    induction st as [|pl rest IH]; intros l1 l2 o H.
    - cbn [apply_stages] in *. injection H as <-. exists l1, l2. auto.
    - cbn [apply_stages] in *. rewrite stage_all_app in H.
      destruct (stage_all pl l1) as [m1|e]; [|discriminate].
      destruct (stage_all pl l2) as [m2|e]; [|discriminate].
      apply IH. exact H.
  Qed.

  Lemma last_non_object_none : forall l acc,
      last_non_object is_object l acc = None <-> acc = None /\ forallb is_object l = true.
  Proof.
    induction l as [|q r IH]; intros acc; cbn [last_non_object forallb].
    - split; [intros ->; split; reflexivity | intros [-> _]; reflexivity].
    - rewrite IH. destruct (is_object q); cbn [andb]; split; intros [H1 H2]; try discriminate; auto.
  Qed.

  Lemma finish_ok : forall l l', finish l = inl l' <-> l' = l /\ forallb is_object l = true.
  Proof.
    intros l l'. unfold Batch.finish.
    destruct (last_non_object is_object l None) as [bad|] eqn:E.
    - split; [discriminate|]. intros [_ H].
      assert (Hn : last_non_object is_object l None = None) by (apply last_non_object_none; auto).
      congruence.
    - apply last_non_object_none in E. destruct E as [_ E].
      split; [intros H; injection H as <-; auto | intros [-> _]; reflexivity].
  Qed.

  Lemma apply_core_ok : forall (st : list plugin) c out,
      apply_core st c = inl out <->
      apply_stages st [c] = inl out /\ forallb is_object out = true.
  Proof.
    intros st c out. unfold Batch.apply_core.
    destruct (apply_stages st [c]) as [l|e].
    - rewrite finish_ok. split; [intros [-> H]; auto | intros [H1 H2]; injection H1 as ->; auto].
    - split; [discriminate | intros [H _]; discriminate].
  Qed.

  (* every expanded query accepted on its own => the whole list is accepted, with the
     concatenation of the individual results *)
  Lemma all_children_ok : forall (st : list plugin) kids,
      (forall c, In c kids -> exists out, apply_core st c = inl out) ->
      exists outs, apply_stages st kids = inl outs
              /\ forallb is_object outs = true
              /\ forall (B : Type) (g : query -> B),
                  map g outs
                  = flat_map (fun c => match apply_core st c with
                                       | inl cs => map g cs | inr _ => [] end) kids.
  Proof.
    intros st. induction kids as [|c r IH]; intros H.
    - exists []. split; [|split; [reflexivity | intros; reflexivity]].
      clear. induction st as [|pl rest IH]; [reflexivity | exact IH].
    - destruct (H c (or_introl eq_refl)) as [out Hc].
      destruct IH as [outs [Hs [Ho Hm]]]; [intros c' Hin; apply H; right; exact Hin|].
      pose proof Hc as Hc'. apply apply_core_ok in Hc'. destruct Hc' as [Hc1 Hc2].
      exists (out ++ outs). split; [|split].
      + change (c :: r) with ([c] ++ r). apply apply_stages_app_ok; assumption.
      + rewrite forallb_app, Hc2, Ho. reflexivity.
      + intros B g. cbn [flat_map]. rewrite Hc, map_app, Hm. reflexivity.
  Qed.
End PluginLemmas.

Section IdealLemmas.
  Context {N : Num} {query response : Type}.
  Variable grid : @plugin query response.
  Variable later : list (@plugin query response).
  Variable is_object : query -> bool.
  Variable invariant_error : query -> response.
  Variable weight : query -> res (option N).
  Variable weight_error : query -> response.
  Variable single : query -> response.
  Variable fmt : response -> response.
  Variable not_object_error : query -> response.

  Notation plugins := (Batch.apply_input_plugins is_object invariant_error not_object_error (grid :: later)).
  Notation answer := (Batch.answer plugins weight weight_error single fmt).
  Notation answer_ideal := (Batch.answer_ideal grid later is_object invariant_error weight weight_error single fmt not_object_error).
  Notation K := (Batch.K grid later is_object invariant_error).

  Lemma plugins_unfold : forall q,
      plugins q = if is_object q then
                    match grid q with
                    | inr e => inr e
                    | inl kids => match apply_stages later kids with
                                  | inr e => inr e
                                  | inl l => finish is_object invariant_error l
                                  end
                    end
                  else inr (not_object_error q).
  Proof.
    intros q. unfold Batch.apply_input_plugins, Batch.apply_core. cbn [apply_stages stage_all].
    destruct (is_object q); [|reflexivity].
    destruct (grid q) as [kids|e]; [|reflexivity]. rewrite app_nil_r. reflexivity.
  Qed.

  (* outside K the real plugin stage is the ideal one *)
  Lemma answer_outside_K : forall q, ~ K q -> answer q = answer_ideal q.
  Proof.
    intros q HK. unfold Batch.answer, Batch.answer_ideal. rewrite plugins_unfold.
    destruct (is_object q) eqn:Eo; [|reflexivity].
    destruct (grid q) as [kids|e] eqn:Eg; [|reflexivity].
    destruct kids as [|c [|c2 r]].
    - (* no child *)
      assert (Hs : apply_stages later (@nil query) = inl []).
      { clear. induction later as [|pl rest IH]; [reflexivity | exact IH]. }
      rewrite Hs. reflexivity.
    - (* one child: the definitions coincide *)
      cbn [flat_map]. rewrite app_nil_r. unfold Batch.answer_child, Batch.apply_core.
      destruct (apply_stages later [c]) as [l|e]; [|reflexivity]. reflexivity.
    - (* at least two children: none may fail on its own *)
      assert (Hall : forall c', In c' (c :: c2 :: r) ->
                           exists out, apply_core is_object invariant_error later c' = inl out).
      { intros c' Hin. destruct (apply_core is_object invariant_error later c') as [out|e] eqn:E.
        - exists out. reflexivity.
        - exfalso. apply HK. split; [exact Eo|]. exists (c :: c2 :: r). split; [exact Eg|]. split; [simpl; lia|].
          exists c', e. split; assumption. }
      destruct (all_children_ok is_object invariant_error later _ Hall) as [outs [Hs [Ho Hm]]].
      rewrite Hs. assert (Hf : finish is_object invariant_error outs = inl outs) by (apply finish_ok; auto).
      rewrite Hf, Hm. apply flat_map_ext_in. intros c' Hin. unfold Batch.answer_child.
      destruct (Hall c' Hin) as [out ->]. reflexivity.
  Qed.

  Lemma flat_map_answer_outside_K : forall batch,
      (forall q, In q batch -> ~ K q) -> flat_map answer batch = flat_map answer_ideal batch.
  Proof.
    intros batch H. apply flat_map_ext_in. intros q Hin. apply answer_outside_K, H, Hin.
  Qed.

  (* inside K: one error response, whatever the number of children and however many are good *)
  Lemma answer_inside_K : forall q, K q -> exists e, answer q = [fmt e].
  Proof.
    intros q [Eo [kids [Eg [_ [c [e [Hin Hc]]]]]]]. unfold Batch.answer. rewrite plugins_unfold, Eo, Eg.
    destruct (apply_stages later kids) as [l|e'] eqn:Es; [|exists e'; reflexivity].
    destruct (finish is_object invariant_error l) as [l'|e'] eqn:Ef; [|exists e'; reflexivity].
    exfalso. apply finish_ok in Ef. destruct Ef as [-> Ho].
    (* the list was accepted as a whole, so c was accepted on its own *)
    clear Eg. revert l Es Ho. induction kids as [|k r IH]; intros l Es Ho; [destruct Hin|].
    change (k :: r) with ([k] ++ r) in Es.
    destruct (apply_stages_app_inv later [k] r l Es) as [o1 [o2 [H1 [H2 ->]]]].
    rewrite forallb_app in Ho. apply andb_prop in Ho. destruct Ho as [Ho1 Ho2].
    destruct Hin as [<- | Hin].
    - assert (apply_core is_object invariant_error later k = inl o1)
        by (apply apply_core_ok; auto). congruence.
    - exact (IH Hin o2 H2 Ho2).
  Qed.

  Lemma answer_ideal_length : forall q,
      length (answer_ideal q)
      = Batch.expanded_ideal grid later is_object invariant_error q.
  Proof.
    intros q. unfold Batch.answer_ideal, Batch.expanded_ideal.
    destruct (is_object q); [|reflexivity].
    destruct (grid q) as [kids|e]; [|reflexivity].
    induction kids as [|c r IH]; [reflexivity|].
    cbn [flat_map map list_sum]. rewrite app_length, IH.
    change (list_sum (?a :: ?l)) with (a + list_sum l). f_equal.
    unfold Batch.answer_child.
    destruct (apply_core is_object invariant_error later c); [apply map_length | reflexivity].
  Qed.

  Variable sink_ok : response -> bool.
  Hypothesis sink_total : forall r, sink_ok r = true.

  (* the batch, outside K: every expanded query is answered on its own, exactly once *)
  Lemma run_perm_ideal : forall pol p_cfg p_run batch,
      1 <= p_run -> (forall q, In q batch -> ~ K q) ->
      exists o, Batch.run plugins weight weight_error single fmt sink_ok pol p_cfg p_run batch = Ok o
           /\ Permutation (responses pol o) (flat_map answer_ideal batch)
           /\ length (responses pol o)
              = list_sum (map (Batch.expanded_ideal grid later is_object invariant_error) batch).
  Proof.
    intros pol p_cfg p_run batch Hp HK.
    destruct (run_perm plugins weight weight_error single fmt sink_ok pol p_cfg p_run batch Hp sink_total)
      as [o [Ho Hperm]].
    rewrite (flat_map_answer_outside_K batch HK) in Hperm.
    exists o. split; [exact Ho|]. split; [exact Hperm|].
    rewrite (Permutation_length Hperm). clear.
    induction batch as [|q r IH]; [reflexivity|].
    cbn [flat_map map list_sum]. rewrite app_length, IH, answer_ideal_length. reflexivity.
  Qed.
End IdealLemmas.

(* ------------------------------------------------------------------ K witness
   grid: query 0 expands into 10, 11, 12 and query 1 into 13; one later plugin rejects 11. *)
Definition exK_grid (q : Z) : list Z + Z :=
  match q with 0 => inl [10; 11; 12] | 1 => inl [13] | _ => inr (-1) end%Z.
Definition exK_later : list (@plugin Z Z) := [fun c => if Z.eqb c 11 then inr 900%Z else inl [c]].
Definition exK_plugins : Z -> list Z + Z :=
  Batch.apply_input_plugins (fun _ => true) (fun _ => (-2)%Z) (fun _ => (-3)%Z) (exK_grid :: exK_later).
Definition exK_weight (c : Z) : res (option QN) := Ok None.
Definition exK_run pol p_cfg p_run batch :=
  @Batch.run QN Z Z exK_plugins exK_weight (fun c => (c + 91)%Z) (fun c => (c + 90)%Z) (fun r => r)
             (fun _ => true) pol p_cfg p_run batch.
Definition exK_ideal :=
  @Batch.answer_ideal QN Z Z exK_grid exK_later (fun _ => true) (fun _ => (-2)%Z) exK_weight
                      (fun c => (c + 91)%Z) (fun c => (c + 90)%Z) (fun r => r) (fun _ => (-3)%Z).

Lemma K_witness :
  Batch.K exK_grid exK_later (fun _ => true) (fun _ => (-2)%Z) 0%Z
  /\ exK_ideal 0%Z = [100; 900; 102]%Z
  /\ exists o, exK_run PersistInMemory 2 2 [1; 0]%Z = Ok o /\ returned o = [103; 900]%Z.
Proof.
  split; [|split].
  - split; [reflexivity|]. exists [10; 11; 12]%Z. split; [reflexivity|]. split; [simpl; lia|].
    exists 11%Z, 900%Z. split; [simpl; auto | reflexivity].
  - vm_compute. reflexivity.
  - eexists. split; vm_compute; reflexivity.
Qed.
