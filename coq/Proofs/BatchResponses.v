(* Lemmas about Batch.run: the responses of a batch are, as a multiset, the answers of its
   queries taken one by one. *)
From Coq Require Import String.
From Coq Require Import List Arith Bool Lia Permutation.
From RC Require Import Base.Res Base.Num Model.Batch Proofs.Batch.
Import ListNotations.
Import Batch.

Lemma flat_map_singleton {A B} (f : A -> B) l : flat_map (fun x => [f x]) l = map f l.
Proof. induction l; simpl; congruence. Qed.

Lemma map_flat_map {A B C} (f : B -> C) (g : A -> list B) l :
  map f (flat_map g l) = flat_map (fun x => map f (g x)) l.
Proof. induction l as [|x r IH]; [reflexivity|]. simpl. rewrite map_app, IH. reflexivity. Qed.

Lemma filter_all_true {A} (f : A -> bool) l : (forall x, f x = true) -> filter f l = l.
Proof. intros H. induction l as [|x r IH]; [reflexivity|]. simpl. rewrite H, IH. reflexivity. Qed.

Lemma partition_map_fst_in {A L R} (f : A -> L + R) l a :
  In a (fst (partition_map f l)) -> exists x, In x l /\ f x = inl a.
Proof.
  induction l as [|x r IH]; [intros []|].
  cbn [partition_map]. destruct (partition_map f r) as [ls rs]. destruct (f x) as [a'|b] eqn:E.
  - cbn [fst]. intros [<- | Hin].
    + exists x. split; [left; reflexivity | exact E].
    + destruct (IH Hin) as [y [Hy Hf]]. exists y. split; [right; exact Hy | exact Hf].
  - cbn [fst] in *. intros Hin. destruct (IH Hin) as [y [Hy Hf]].
    exists y. split; [right; exact Hy | exact Hf].
Qed.

Section RunLemmas.
  Context {N : Num} {query response : Type}.
  Variable plugins : query -> list query + response.
  Variable weight : query -> res (option N).
  Variable weight_error : query -> response.
  Variable single : query -> response.
  Variable fmt : response -> response.
  Variable sink_ok : response -> bool.

  Notation run := (Batch.run plugins weight weight_error single fmt sink_ok).
  Notation resp := (Batch.resp single fmt).
  Notation answer1 := (Batch.answer1 weight weight_error single fmt).
  Notation answer := (Batch.answer plugins weight weight_error single fmt).
  Notation expanded := (Batch.expanded plugins).

  (* steps 1: chunking is invisible *)
  Lemma input_stage_eq : forall p batch,
      input_stage plugins p batch
      = (concat (fst (partition_map plugins batch)), snd (partition_map plugins batch)).
  Proof.
    intros p batch. unfold input_stage.
    pose proof (partition_map_chunks plugins (chunks (chunk_size (length batch) p) batch)) as H.
    cbn zeta in H. rewrite chunks_concat in H by apply chunk_size_pos.
    destruct (split (map (partition_map plugins) (chunks (chunk_size (length batch) p) batch))) as [a b].
    cbn [fst snd] in H. rewrite <- H. reflexivity.
  Qed.

  Lemma weight_stage_ok : forall qs q,
      In q (fst (weight_stage weight weight_error qs)) -> is_ok (weight q) = true.
  Proof.
    intros qs q Hin. unfold weight_stage in Hin.
    apply partition_map_fst_in in Hin. destruct Hin as [x [_ Hx]].
    destruct (weight x) eqn:E; try discriminate. injection Hx as <-. rewrite E. reflexivity.
  Qed.

  Lemma weight_stage_perm : forall qs,
      Permutation (map resp (fst (weight_stage weight weight_error qs))
                   ++ map fmt (snd (weight_stage weight weight_error qs)))
                  (map answer1 qs).
  Proof.
    intros qs. unfold weight_stage.
    pose proof (partition_map_perm
                  (fun q => match weight q with Ok _ => inl q | _ => inr (weight_error q) end)
                  (fun q => [resp q]) fmt qs) as H.
    rewrite flat_map_singleton in H.
    eapply Permutation_trans; [exact H|].
    rewrite <- flat_map_singleton.
    erewrite flat_map_ext; [apply Permutation_refl|].
    intros q. unfold Batch.answer1. destruct (weight q); reflexivity.
  Qed.

  Lemma plugins_perm : forall batch,
      Permutation (map answer1 (concat (fst (partition_map plugins batch)))
                   ++ map fmt (snd (partition_map plugins batch)))
                  (flat_map answer batch).
  Proof.
    intros batch.
    pose proof (partition_map_perm plugins (map answer1) fmt batch) as H.
    rewrite concat_map, <- flat_map_concat_map.
    eapply Permutation_trans; [exact H|].
    erewrite flat_map_ext; [apply Permutation_refl|].
    intros q. unfold Batch.answer. destruct (plugins q); reflexivity.
  Qed.

  (* steps 5, 6 *)
  Lemma run_bins_perm : forall pol bins errors,
      (forall r, sink_ok r = true) ->
      exists o, run_bins single fmt sink_ok pol bins errors = Ok o
           /\ Permutation (returned o)
                          (match pol with PersistInMemory => map resp (concat bins) ++ errors
                                     | DiscardFromMemory => errors end)
           /\ Permutation (written o) (map resp (concat bins) ++ errors).
  Proof.
    intros pol bins errors Hs. destruct pol; cbn [run_bins].
    - replace (forallb (forallb (fun q => sink_ok (single q))) bins) with true.
      + eexists. split; [reflexivity|]. cbn [returned written].
        rewrite concat_map. split; [apply Permutation_refl | apply Permutation_app_comm].
      + symmetry. apply forallb_forall. intros b _. apply forallb_forall. intros q _. apply Hs.
    - eexists. split; [reflexivity|]. cbn [returned written].
      replace (map (fun b => map fmt (filter sink_ok (map single b))) bins) with (map (map resp) bins).
      + rewrite <- concat_map. split; [apply Permutation_refl | apply Permutation_app_comm].
      + apply map_ext. intros b. rewrite filter_all_true by exact Hs. rewrite map_map. reflexivity.
  Qed.

  (* the whole call: it succeeds; the sink holds every response; so does the returned vector
     under the persist policy; under the discard policy the returned vector holds exactly the
     responses produced before the search *)
  Lemma run_full : forall pol p_cfg p_run batch,
      1 <= p_run -> (forall r, sink_ok r = true) ->
      exists o, run pol p_cfg p_run batch = Ok o
           /\ Permutation (written o) (flat_map answer batch)
           /\ (pol = PersistInMemory -> Permutation (returned o) (flat_map answer batch))
           /\ (pol = DiscardFromMemory ->
               returned o = map fmt (snd (partition_map plugins batch)
                                     ++ snd (weight_stage weight weight_error
                                               (concat (fst (partition_map plugins batch)))))).
  Proof.
    intros pol p_cfg p_run batch Hp Hs. unfold Batch.run. rewrite input_stage_eq.
    set (oks := fst (partition_map plugins batch)). set (errs := snd (partition_map plugins batch)).
    pose proof (weight_stage_perm (concat oks)) as Hw.
    pose proof (weight_stage_ok (concat oks)) as Hok.
    destruct (weight_stage weight weight_error (concat oks)) as [processed werrs].
    cbn [fst snd] in Hw, Hok |- *.
    destruct (balance_ok weight processed p_run one Hp Hok) as [bins Hb].
    rewrite Hb. cbn [bind].
    replace (forallb sink_ok (errs ++ werrs)) with true
      by (symmetry; apply forallb_forall; intros r _; apply Hs).
    pose proof (balance_perm weight _ _ _ _ Hb) as Hperm.
    assert (Hmain : Permutation (map resp (concat bins) ++ map fmt (errs ++ werrs)) (flat_map answer batch)).
    { eapply Permutation_trans; [|apply plugins_perm]. fold oks errs. rewrite map_app.
      eapply Permutation_trans; [apply Permutation_app_head, Permutation_app_comm|].
      rewrite app_assoc. apply Permutation_app_tail.
      eapply Permutation_trans; [|exact Hw].
      apply Permutation_app_tail, Permutation_map. exact Hperm. }
    destruct bins as [|b bs].
    - eexists. split; [reflexivity|]. cbn [returned written]. cbn [concat map app] in Hmain.
      split; [exact Hmain|]. split; [intros _; exact Hmain | intros _; reflexivity].
    - destruct (run_bins_perm pol (b :: bs) (map fmt (errs ++ werrs)) Hs) as [o [Ho [Hr Hwr]]].
      exists o. split; [exact Ho|].
      split; [eapply Permutation_trans; [exact Hwr | exact Hmain]|].
      split.
      + intros ->. eapply Permutation_trans; [exact Hr | exact Hmain].
      + intros ->. clear - Ho. cbn [run_bins] in Ho. injection Ho as <-. reflexivity.
  Qed.

  Lemma run_perm : forall pol p_cfg p_run batch,
      1 <= p_run -> (forall r, sink_ok r = true) ->
      exists o, run pol p_cfg p_run batch = Ok o
           /\ Permutation (responses pol o) (flat_map answer batch).
  Proof.
    intros pol p_cfg p_run batch Hp Hs.
    destruct (run_full pol p_cfg p_run batch Hp Hs) as [o [Ho [Hw [Hr _]]]].
    exists o. split; [exact Ho|]. destruct pol; cbn [responses]; [apply Hr; reflexivity | exact Hw].
  Qed.

  Lemma answer_length : forall batch,
      length (flat_map answer batch) = list_sum (map expanded batch).
  Proof.
    induction batch as [|q r IH]; [reflexivity|].
    cbn [flat_map map list_sum]. rewrite app_length, IH.
    change (list_sum (expanded q :: map expanded r)) with (expanded q + list_sum (map expanded r)).
    f_equal.
    unfold Batch.answer, Batch.expanded. destruct (plugins q); [apply map_length | reflexivity].
  Qed.

  (* parallelism 0 (accepted by the configuration reader): Err as soon as one query reaches
     the load balancer *)
  Lemma run_zero : forall pol p_cfg batch q cs c,
      In q batch -> plugins q = inl cs -> In c cs -> is_ok (weight c) = true ->
      run pol p_cfg 0 batch = Err "InternalError"%string.
  Proof.
    intros pol p_cfg batch q cs c Hq Hcs Hc Hw. unfold Batch.run. rewrite input_stage_eq.
    destruct (weight_stage weight weight_error (concat (fst (partition_map plugins batch))))
      as [processed werrs] eqn:E.
    assert (Hin : In c processed).
    { (* c survives both partitions *)
      assert (H1 : In c (concat (fst (partition_map plugins batch)))).
      { clear E. induction batch as [|x r IH]; [destruct Hq|].
        cbn [partition_map]. destruct (partition_map plugins r) as [ls rs].
        destruct Hq as [-> | Hq].
        - rewrite Hcs. cbn [fst concat]. apply in_or_app. left. exact Hc.
        - specialize (IH Hq). destruct (plugins x); cbn [fst concat] in *; [apply in_or_app; right|]; exact IH. }
      replace processed with (fst (weight_stage weight weight_error (concat (fst (partition_map plugins batch)))))
        by (rewrite E; reflexivity).
      clear E. unfold weight_stage.
      induction (concat (fst (partition_map plugins batch))) as [|x r IH]; [destruct H1|].
      cbn [partition_map].
      destruct (partition_map (fun q0 => match weight q0 with Ok _ => inl q0 | _ => inr (weight_error q0) end) r)
        as [ls rs]. destruct H1 as [-> | H1].
      - destruct (weight c); try discriminate. left. reflexivity.
      - specialize (IH H1). destruct (weight x); cbn [fst] in *; [right|..]; exact IH. }
    assert (Hall : forall x, In x processed -> is_ok (weight x) = true).
    { intros x Hx. apply (weight_stage_ok (concat (fst (partition_map plugins batch)))).
      rewrite E. exact Hx. }
    destruct processed as [|x r]; [destruct Hin|].
    rewrite (balance_zero weight x r one (Hall x (or_introl eq_refl))). reflexivity.
  Qed.
End RunLemmas.

(* [answer] looks at the weight only to decide readable / unreadable *)
Lemma answer_weight_ext {N N' : Num} {query response : Type}
      (plugins : query -> list query + response)
      (w : query -> res (option N)) (w' : query -> res (option N'))
      weight_error single fmt :
  (forall q, is_ok (w q) = is_ok (w' q)) ->
  forall q, Batch.answer plugins w weight_error single fmt q
            = Batch.answer plugins w' weight_error single fmt q.
Proof.
  intros H q. unfold Batch.answer. destruct (plugins q) as [cs|e]; [|reflexivity].
  apply map_ext. intros c. unfold Batch.answer1. specialize (H c).
  destruct (w c), (w' c); try discriminate; reflexivity.
Qed.

(* ------------------------------------------------------------------ shared mutable state *)
Section StatefulLemmas.
  Context {S query response : Type}.
  Variable step : S -> query -> response * S.
  Variable single : query -> response.

  (* a state that never shows in the responses is invisible to a sequential worker *)
  Lemma run_seq_transparent :
    (forall s q, fst (step s q) = single q) ->
    forall qs s, fst (run_seq step s qs) = map single qs.
  Proof.
    intros H. induction qs as [|q r IH]; intros s; [reflexivity|].
    cbn [run_seq map]. specialize (H s q). destruct (step s q) as [a s'].
    specialize (IH s'). destruct (run_seq step s' r) as [rs s'']. cbn [fst] in *.
    subst. reflexivity.
  Qed.
End StatefulLemmas.

Section CacheLemmas.
  Variable key : nat -> nat.
  Variable f : nat -> nat.
  Definition cache_inv (c : cache) : Prop :=
    forall k v, cget c k = Some v -> forall x, key x = k -> f x = v.

  (* if the prediction is constant on every rounding cell, the cache cannot be observed *)
  Lemma cache_transparent_if_stable :
    (forall x y, key x = key y -> f x = f y) ->
    forall qs c, cache_inv c -> fst (run_seq (fun c x => predict key f c x) c qs) = map f qs.
  Proof.
    intros Hst. induction qs as [|q r IH]; intros c Hc; [reflexivity|].
    cbn [run_seq map]. unfold predict at 1. destruct (cget c (key q)) as [v|] eqn:E.
    - specialize (IH c Hc). destruct (run_seq (fun c x => predict key f c x) c r) as [rs s'']. cbn [fst] in *.
      rewrite (Hc _ _ E q eq_refl), IH. reflexivity.
    - assert (Hc' : cache_inv ((key q, f q) :: c)).
      { intros k v Hk x Hx. cbn [cget] in Hk. destruct (Nat.eqb (key q) k) eqn:Ek.
        - injection Hk as <-. apply Nat.eqb_eq in Ek. apply Hst. congruence.
        - exact (Hc k v Hk x Hx). }
      specialize (IH _ Hc'). destruct (run_seq (fun c x => predict key f c x) ((key q, f q) :: c) r) as [rs s'']. cbn [fst] in *.
      rewrite IH. reflexivity.
  Qed.
End CacheLemmas.

(* otherwise it can: rounding to tens, identity prediction, inputs 12 and 17 *)
Lemma cache_order_dependent :
  exists key f x y,
    fst (run_seq (fun c q => predict key f c q) [] [x; y]) = [f x; f x]
    /\ fst (run_seq (fun c q => predict key f c q) [] [y; x]) = [f y; f y]
    /\ f x <> f y.
Proof.
  exists (fun x => x / 10), (fun x => x), 12, 17. repeat split. discriminate.
Qed.

(* ------------------------------------------------------------------ corollaries *)
Lemma flat_map_perm_pointwise {A B} (f g : A -> list B) l :
  (forall x, Permutation (f x) (g x)) -> Permutation (flat_map f l) (flat_map g l).
Proof.
  intros H. induction l as [|x r IH]; [constructor|]. simpl. apply Permutation_app; auto.
Qed.

Section Corollaries.
  Context {N : Num} {query response : Type}.
  Variable plugins : query -> list query + response.
  Variable weight : query -> res (option N).
  Variable weight_error : query -> response.
  Variable single : query -> response.
  Variable fmt : response -> response.
  Variable sink_ok : response -> bool.
  Hypothesis sink_total : forall r, sink_ok r = true.

  Notation run := (Batch.run plugins weight weight_error single fmt sink_ok).
  Notation answer := (Batch.answer plugins weight weight_error single fmt).

  (* what one query returns when it is run alone, parallelism 1 *)
  Definition alone (pol : persistence) (q : query) : list response :=
    match run pol 1 1 [q] with Ok o => responses pol o | _ => [] end.

  Lemma alone_answer : forall pol q, Permutation (alone pol q) (answer q).
  Proof.
    intros pol q. unfold alone.
    destruct (run_perm plugins weight weight_error single fmt sink_ok pol 1 1 [q] (le_n 1) sink_total)
      as [o [Ho Hp]].
    rewrite Ho. cbn [flat_map] in Hp. rewrite app_nil_r in Hp. exact Hp.
  Qed.

  Lemma run_equals_alone : forall pol pol' p_cfg p_run batch,
      1 <= p_run ->
      exists o, run pol p_cfg p_run batch = Ok o
           /\ Permutation (responses pol o) (flat_map (alone pol') batch).
  Proof.
    intros pol pol' p_cfg p_run batch Hp.
    destruct (run_perm plugins weight weight_error single fmt sink_ok pol p_cfg p_run batch Hp sink_total)
      as [o [Ho Hperm]].
    exists o. split; [exact Ho|]. eapply Permutation_trans; [exact Hperm|].
    apply flat_map_perm_pointwise. intros q. apply Permutation_sym, alone_answer.
  Qed.

  Lemma run_count : forall pol p_cfg p_run batch,
      1 <= p_run ->
      exists o, run pol p_cfg p_run batch = Ok o
           /\ length (responses pol o) = list_sum (map (Batch.expanded plugins) batch).
  Proof.
    intros pol p_cfg p_run batch Hp.
    destruct (run_perm plugins weight weight_error single fmt sink_ok pol p_cfg p_run batch Hp sink_total)
      as [o [Ho Hperm]].
    exists o. split; [exact Ho|].
    rewrite (Permutation_length Hperm). apply answer_length.
  Qed.

  (* the responses to the rest of the batch do not depend on the query at one position *)
  Lemma run_local : forall pol p_cfg p_run l1 l2 q,
      1 <= p_run ->
      exists o o0, run pol p_cfg p_run (l1 ++ q :: l2) = Ok o
              /\ run pol p_cfg p_run (l1 ++ l2) = Ok o0
              /\ Permutation (responses pol o) (answer q ++ responses pol o0).
  Proof.
    intros pol p_cfg p_run l1 l2 q Hp.
    destruct (run_perm plugins weight weight_error single fmt sink_ok pol p_cfg p_run (l1 ++ q :: l2) Hp sink_total)
      as [o [Ho Hperm]].
    destruct (run_perm plugins weight weight_error single fmt sink_ok pol p_cfg p_run (l1 ++ l2) Hp sink_total)
      as [o0 [Ho0 Hperm0]].
    exists o, o0. repeat split; try assumption.
    eapply Permutation_trans; [exact Hperm|].
    eapply Permutation_trans; [|apply Permutation_app_head, Permutation_sym, Hperm0].
    rewrite !flat_map_app. cbn [flat_map].
    rewrite !app_assoc. apply Permutation_app_tail, Permutation_app_comm.
  Qed.

  (* every response carries the request it answers *)
  Variable request_of : response -> query.
  Definition requests (q : query) : list query :=
    match plugins q with inl cs => cs | inr e => [request_of (fmt e)] end.

  Lemma run_requests : forall pol p_cfg p_run batch,
      1 <= p_run ->
      (forall c, request_of (fmt (single c)) = c) ->
      (forall c, request_of (fmt (weight_error c)) = c) ->
      exists o, run pol p_cfg p_run batch = Ok o
           /\ Permutation (map request_of (responses pol o)) (flat_map requests batch).
  Proof.
    intros pol p_cfg p_run batch Hp Hs He.
    destruct (run_perm plugins weight weight_error single fmt sink_ok pol p_cfg p_run batch Hp sink_total)
      as [o [Ho Hperm]].
    exists o. split; [exact Ho|].
    eapply Permutation_trans; [apply Permutation_map, Hperm|].
    rewrite map_flat_map. erewrite flat_map_ext; [apply Permutation_refl|].
    intros q. unfold Batch.answer, requests. destruct (plugins q) as [cs|e]; [|reflexivity].
    rewrite map_map. rewrite <- (map_id cs) at 2. apply map_ext. intros c.
    unfold Batch.answer1, Batch.resp. destruct (weight c); auto.
  Qed.
End Corollaries.

(* independence from everything but the set of queries *)
Lemma run_independent {N N' : Num} {query response : Type}
      (plugins : query -> list query + response)
      (w : query -> res (option N)) (w' : query -> res (option N'))
      weight_error single fmt sink_ok :
  (forall r, sink_ok r = true) ->
  (forall q, is_ok (w q) = is_ok (w' q)) ->
  forall pol pol' p_cfg p_cfg' p_run p_run' batch batch',
    1 <= p_run -> 1 <= p_run' -> Permutation batch batch' ->
    exists o o',
      Batch.run plugins w weight_error single fmt sink_ok pol p_cfg p_run batch = Ok o
      /\ Batch.run plugins w' weight_error single fmt sink_ok pol' p_cfg' p_run' batch' = Ok o'
      /\ Permutation (responses pol o) (responses pol' o').
Proof.
  intros Hs Hw pol pol' p_cfg p_cfg' p_run p_run' batch batch' Hp Hp' Hb.
  destruct (run_perm plugins w weight_error single fmt sink_ok pol p_cfg p_run batch Hp Hs) as [o [Ho H1]].
  destruct (run_perm plugins w' weight_error single fmt sink_ok pol' p_cfg' p_run' batch' Hp' Hs) as [o' [Ho' H2]].
  exists o, o'. repeat split; try assumption.
  eapply Permutation_trans; [exact H1|]. eapply Permutation_trans; [|apply Permutation_sym, H2].
  erewrite flat_map_ext; [|apply (answer_weight_ext plugins w w'); exact Hw].
  apply Permutation_flat_map. exact Hb.
Qed.

(* ------------------------------------------------------------------ a concrete batch (non-vacuity)
   5 queries: 0 expands into 3 (grid search), 1 is rejected by the input plugins, the only child
   of 2 has an unreadable weight, 3 and 4 are plain; weights 5, default, 1/2, default, 2. *)
From Coq Require Import ZArith QArith.
Close Scope Q_scope.
Definition ex_plugins (q : Z) : list Z + Z :=
  match q with
  | 0 => inl [10; 11; 12] | 1 => inr 103 | 2 => inl [13] | 3 => inl [14] | 4 => inl [15]
  | _ => inr (-1)
  end%Z.
Definition ex_weight (c : Z) : res (option QN) :=
  match c with
  | 10 => Ok (Some 5%Q) | 12 => Ok (Some (1 # 2)%Q) | 13 => Err "weight"%string | 15 => Ok (Some 2%Q)
  | _ => Ok None
  end%Z.
Definition ex_single (c : Z) : Z := (c + 90)%Z.
Definition ex_weight_error (c : Z) : Z := (c + 91)%Z.
Definition ex_run pol p_cfg p_run batch :=
  @Batch.run QN Z Z ex_plugins ex_weight ex_weight_error ex_single (fun r => r) (fun _ => true)
             pol p_cfg p_run batch.
