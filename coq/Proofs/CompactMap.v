(* Refinement proof: CM.cmap (model of CompactOrderedHashMap) refines an insertion-ordered
   association list (CM.spec with CM.s_get / CM.s_ins / CM.s_index).

   Nothing here assumes anything about the ORDER of the association list that models the
   std HashMap inside the NEntries variant: the abstraction relation [Abs] only talks about
   membership ([In]), key uniqueness and length. *)
From Coq Require Import List Arith Bool Lia Permutation Sorted ZArith.
Require Import RC.Model.CompactMap.
Import ListNotations.

(* ------------------------------------------------------------------------------------ *)
(* Part 1: facts about association lists with replace-or-append insertion.  Generic in   *)
(* the value type W, because CM.hget / CM.hins (W = V * nat) are the same functions as   *)
(* CM.s_get / CM.s_ins (W = V).                                                          *)
(* ------------------------------------------------------------------------------------ *)
Section Assoc.
  Context {K W : Type} (keqb : K -> K -> bool).
  Hypothesis keqb_spec : forall a b, reflect (a = b) (keqb a b).

  Implicit Types (s : list (K * W)) (k : K) (v : W) (i : nat).

  Lemma keqb_refl a : keqb a a = true.
  Proof. destruct (keqb_spec a a) as [_|Hne]; [reflexivity | contradiction]. Qed.

  Lemma keqb_neq a b : a <> b -> keqb a b = false.
  Proof. intros Hne. destruct (keqb_spec a b) as [Heq|_]; [contradiction | reflexivity]. Qed.

  Lemma keqb_sym a b : keqb a b = keqb b a.
  Proof.
    destruct (keqb_spec a b) as [Heq|Hne], (keqb_spec b a) as [Heq'|Hne'];
      try reflexivity; exfalso; congruence.
  Qed.

  (* ---- s_get ---- *)
  Lemma s_get_none s k : CM.s_get keqb s k = None <-> ~ In k (map fst s).
  Proof.
    induction s as [|[k0 v0] r IH]; cbn [CM.s_get map fst In].
    - tauto.
    - destruct (keqb_spec k0 k) as [Heq|Hne].
      + split; [discriminate | intros H; exfalso; apply H; left; exact Heq].
      + rewrite IH. tauto.
  Qed.

  Lemma s_get_in s k v :
    NoDup (map fst s) -> (CM.s_get keqb s k = Some v <-> In (k, v) s).
  Proof.
    induction s as [|[k0 v0] r IH]; cbn [CM.s_get map fst In]; intros Hnd.
    - split; [discriminate | tauto].
    - inversion Hnd as [|x l Hnin Hnd']; subst x l.
      destruct (keqb_spec k0 k) as [Heq|Hne].
      + subst k0. split.
        * intros H; injection H as H; subst v0; left; reflexivity.
        * intros [H|H]; [injection H as H; subst v0; reflexivity|].
          exfalso; apply Hnin. apply (in_map fst) in H. exact H.
      + rewrite (IH Hnd'). split; [tauto|].
        intros [H|H]; [injection H as H1 H2; contradiction | exact H].
  Qed.

  Lemma s_get_some_key s k v : CM.s_get keqb s k = Some v -> In (k, v) s.
  Proof.
    induction s as [|[k0 v0] r IH]; cbn [CM.s_get In]; [discriminate|].
    destruct (keqb_spec k0 k) as [Heq|Hne].
    - intros H; injection H as H; subst; left; reflexivity.
    - intros H; right; exact (IH H).
  Qed.

  (* ---- s_ins ---- *)
  Lemma s_ins_app s k v : CM.s_get keqb s k = None -> CM.s_ins keqb s k v = s ++ [(k, v)].
  Proof.
    induction s as [|[k0 v0] r IH]; cbn [CM.s_get CM.s_ins app]; [reflexivity|].
    destruct (keqb k0 k); [discriminate|].
    intros H; rewrite (IH H); reflexivity.
  Qed.

  Lemma s_ins_keys s k v k' :
    In k' (map fst (CM.s_ins keqb s k v)) <-> k' = k \/ In k' (map fst s).
  Proof.
    induction s as [|[k0 v0] r IH]; cbn [CM.s_ins map fst In].
    - intuition congruence.
    - destruct (keqb_spec k0 k) as [Heq|Hne]; cbn [map fst In].
      + subst k0. intuition congruence.
      + rewrite IH. tauto.
  Qed.

  Lemma s_ins_nodup s k v : NoDup (map fst s) -> NoDup (map fst (CM.s_ins keqb s k v)).
  Proof.
    induction s as [|[k0 v0] r IH]; cbn [CM.s_ins map fst]; intros Hnd.
    - constructor; [intros [] | constructor].
    - inversion Hnd as [|x l Hnin Hnd']; subst x l.
      destruct (keqb_spec k0 k) as [Heq|Hne]; cbn [map fst].
      + constructor; assumption.
      + constructor; [|exact (IH Hnd')].
        rewrite s_ins_keys. intros [H|H]; [exact (Hne H) | exact (Hnin H)].
  Qed.

  Lemma s_ins_length s k v :
    length (CM.s_ins keqb s k v) = if CM.s_get keqb s k then length s else S (length s).
  Proof.
    induction s as [|[k0 v0] r IH]; cbn [CM.s_ins CM.s_get length]; [reflexivity|].
    destruct (keqb k0 k); cbn [length]; [reflexivity|].
    rewrite IH. destruct (CM.s_get keqb r k); reflexivity.
  Qed.

  Lemma s_ins_in s k v k' v' :
    NoDup (map fst s) ->
    (In (k', v') (CM.s_ins keqb s k v) <-> (k' = k /\ v' = v) \/ (k' <> k /\ In (k', v') s)).
  Proof.
    induction s as [|[k0 v0] r IH]; cbn [CM.s_ins map fst In]; intros Hnd.
    - split.
      + intros [H|[]]. injection H as H1 H2. left; split; congruence.
      + intros [[H1 H2]|[_ []]]. left; congruence.
    - inversion Hnd as [|x l Hnin Hnd']; subst x l.
      destruct (keqb_spec k0 k) as [Heq|Hne]; cbn [In].
      + subst k0. split.
        * intros [H|H].
          -- injection H as H1 H2. left; split; congruence.
          -- right; split; [|right; exact H].
             intros ->. apply Hnin. apply (in_map fst) in H. exact H.
        * intros [[H1 H2]|[H1 [H2|H2]]].
          -- left; congruence.
          -- injection H2 as H2 H3. exfalso; apply H1; congruence.
          -- right; exact H2.
      + rewrite (IH Hnd'). split.
        * intros [H|[H|H]].
          -- injection H as H1 H2. right; split; [congruence | left; congruence].
          -- left; exact H.
          -- right; split; [tauto | right; tauto].
        * intros [H|[H1 [H2|H2]]].
          -- right; left; exact H.
          -- left; exact H2.
          -- right; right; split; assumption.
  Qed.

  Lemma s_get_ins_same s k v : CM.s_get keqb (CM.s_ins keqb s k v) k = Some v.
  Proof.
    induction s as [|[k0 v0] r IH]; cbn [CM.s_ins CM.s_get].
    - rewrite keqb_refl; reflexivity.
    - destruct (keqb k0 k) eqn:E; cbn [CM.s_get]; rewrite E; [reflexivity | exact IH].
  Qed.

  Lemma s_get_ins_other s k v k' :
    k' <> k -> CM.s_get keqb (CM.s_ins keqb s k v) k' = CM.s_get keqb s k'.
  Proof.
    intros Hne. induction s as [|[k0 v0] r IH]; cbn [CM.s_ins CM.s_get].
    - rewrite keqb_neq by congruence. reflexivity.
    - destruct (keqb_spec k0 k) as [Heq|Hne0]; cbn [CM.s_get].
      + subst k0. rewrite keqb_neq by congruence. reflexivity.
      + rewrite IH. reflexivity.
  Qed.

  (* ---- s_index ---- *)
  Lemma s_index_nth_fwd s k i :
    CM.s_index keqb s k = Some i -> exists v, nth_error s i = Some (k, v).
  Proof.
    revert i. induction s as [|[k0 v0] r IH]; intros i; cbn [CM.s_index]; [discriminate|].
    destruct (keqb_spec k0 k) as [Heq|Hne].
    - intros H; injection H as H; subst i k0. exists v0; reflexivity.
    - destruct (CM.s_index keqb r k) as [j|]; cbn [option_map]; [|discriminate].
      intros H; injection H as H; subst i. cbn [nth_error]. apply IH; reflexivity.
  Qed.

  Lemma s_index_nth_bwd s k v i :
    NoDup (map fst s) -> nth_error s i = Some (k, v) -> CM.s_index keqb s k = Some i.
  Proof.
    revert i. induction s as [|[k0 v0] r IH]; intros i Hnd; cbn [CM.s_index].
    - destruct i; discriminate.
    - cbn [map fst] in Hnd. inversion Hnd as [|x l Hnin Hnd']; subst x l.
      destruct i as [|j]; cbn [nth_error].
      + intros H; injection H as H1 H2; subst. rewrite keqb_refl; reflexivity.
      + intros H. rewrite keqb_neq.
        * rewrite (IH j Hnd' H). reflexivity.
        * intros ->. apply Hnin. apply nth_error_In in H. apply (in_map fst) in H. exact H.
  Qed.

  Lemma s_index_lt s k i : CM.s_index keqb s k = Some i -> i < length s.
  Proof.
    intros H. destruct (s_index_nth_fwd _ _ _ H) as [v Hv].
    apply nth_error_Some. rewrite Hv. discriminate.
  Qed.

  Lemma s_index_nth s k i :
    NoDup (map fst s) ->
    (CM.s_index keqb s k = Some i <-> exists v, nth_error s i = Some (k, v)).
  Proof.
    intros Hnd. split; [apply s_index_nth_fwd|].
    intros [v Hv]. exact (s_index_nth_bwd _ _ _ _ Hnd Hv).
  Qed.

  Lemma s_index_inj s k1 k2 i :
    CM.s_index keqb s k1 = Some i -> CM.s_index keqb s k2 = Some i -> k1 = k2.
  Proof.
    intros H1 H2.
    destruct (s_index_nth_fwd _ _ _ H1) as [v1 Hv1].
    destruct (s_index_nth_fwd _ _ _ H2) as [v2 Hv2].
    congruence.
  Qed.

  Lemma s_index_surj s i :
    NoDup (map fst s) -> i < length s -> exists k, CM.s_index keqb s k = Some i.
  Proof.
    intros Hnd Hlt. destruct (nth_error s i) as [[k v]|] eqn:E.
    - exists k. exact (s_index_nth_bwd _ _ _ _ Hnd E).
    - apply nth_error_None in E. lia.
  Qed.

  Lemma s_index_get s k :
    CM.s_index keqb s k = None <-> CM.s_get keqb s k = None.
  Proof.
    induction s as [|[k0 v0] r IH]; cbn [CM.s_index CM.s_get]; [tauto|].
    destruct (keqb k0 k); [split; discriminate|].
    rewrite <- IH. destruct (CM.s_index keqb r k); cbn [option_map]; split; congruence.
  Qed.

  Lemma s_ins_index_old s k v k' i :
    CM.s_index keqb s k' = Some i -> CM.s_index keqb (CM.s_ins keqb s k v) k' = Some i.
  Proof.
    revert i. induction s as [|[k0 v0] r IH]; intros i; cbn [CM.s_index CM.s_ins]; [discriminate|].
    destruct (keqb k0 k); cbn [CM.s_index]; [tauto|].
    destruct (keqb k0 k'); [tauto|].
    destruct (CM.s_index keqb r k') as [j|]; cbn [option_map]; [|discriminate].
    intros H. rewrite (IH j eq_refl). exact H.
  Qed.

  Lemma s_ins_index_new s k v :
    CM.s_get keqb s k = None -> CM.s_index keqb (CM.s_ins keqb s k v) k = Some (length s).
  Proof.
    induction s as [|[k0 v0] r IH]; cbn [CM.s_get CM.s_ins CM.s_index length].
    - intros _. rewrite keqb_refl. reflexivity.
    - destruct (keqb k0 k) eqn:E; [discriminate|]. cbn [CM.s_index]. rewrite E.
      intros H. rewrite (IH H). reflexivity.
  Qed.

  (* replacing the value of an existing key changes exactly its own slot *)
  Lemma s_ins_nth_hit s k v i0 i :
    CM.s_index keqb s k = Some i0 ->
    nth_error (CM.s_ins keqb s k v) i = if Nat.eqb i i0 then Some (k, v) else nth_error s i.
  Proof.
    revert i i0. induction s as [|[k0 v0] r IH]; intros i i0; cbn [CM.s_index CM.s_ins];
      [discriminate|].
    destruct (keqb_spec k0 k) as [Heq|Hne].
    - intros H; injection H as H; subst i0 k0.
      destruct i as [|i]; reflexivity.
    - destruct (CM.s_index keqb r k) as [j|] eqn:E; cbn [option_map]; [|discriminate].
      intros H; injection H as H; subst i0.
      destruct i as [|i]; cbn [nth_error Nat.eqb]; [reflexivity|].
      apply IH. reflexivity.
  Qed.
End Assoc.

(* ------------------------------------------------------------------------------------ *)
(* Part 2: lists of (key, index) sorted by index.                                        *)
(* ------------------------------------------------------------------------------------ *)
Section SortByIndex.
  Context {K : Type}.

  Definition le_snd (a b : K * nat) : Prop := snd a <= snd b.

  Lemma insert_sorted_perm (e : K * nat) (l : list (K * nat)) : Permutation (e :: l) (CM.insert_sorted e l).
  Proof.
    induction l as [|x r IH]; cbn [CM.insert_sorted]; [apply Permutation_refl|].
    destruct (Nat.leb (snd x) (snd e)); [|apply Permutation_refl].
    eapply perm_trans; [apply perm_swap|]. apply perm_skip. exact IH.
  Qed.

  Lemma insert_sorted_sorted (e : K * nat) (l : list (K * nat)) :
    StronglySorted le_snd l -> StronglySorted le_snd (CM.insert_sorted e l).
  Proof.
    induction l as [|x r IH]; cbn [CM.insert_sorted]; intros Hs.
    - constructor; constructor.
    - inversion Hs as [|y l' Hs' Hall]; subst y l'.
      destruct (Nat.leb (snd x) (snd e)) eqn:E.
      + apply Nat.leb_le in E. constructor; [exact (IH Hs')|].
        eapply Permutation_Forall; [apply insert_sorted_perm|].
        constructor; [exact E | exact Hall].
      + apply Nat.leb_gt in E. constructor; [exact Hs|].
        constructor; [unfold le_snd; lia|].
        eapply Forall_impl; [|exact Hall]. unfold le_snd. intros a Ha. lia.
  Qed.

  Lemma fold_insert_sorted {A} (f : A -> K * nat) (m : list A) (acc : list (K * nat)) :
    StronglySorted le_snd acc ->
    StronglySorted le_snd (fold_left (fun a x => CM.insert_sorted (f x) a) m acc)
    /\ Permutation (map f m ++ acc) (fold_left (fun a x => CM.insert_sorted (f x) a) m acc).
  Proof.
    revert acc. induction m as [|x r IH]; intros acc Hs; cbn [fold_left map app].
    - split; [exact Hs | apply Permutation_refl].
    - destruct (IH (CM.insert_sorted (f x) acc) (insert_sorted_sorted _ _ Hs)) as [H1 H2].
      split; [exact H1|].
      eapply perm_trans; [|exact H2].
      eapply perm_trans; [apply Permutation_middle|].
      apply Permutation_app_head. apply insert_sorted_perm.
  Qed.

  (* a list sorted by index whose indices are pairwise distinct is determined by its set of
     elements *)
  Lemma sorted_perm_eq (l1 l2 : list (K * nat)) :
    StronglySorted le_snd l1 -> StronglySorted le_snd l2 ->
    NoDup (map snd l1) -> Permutation l1 l2 -> l1 = l2.
  Proof.
    revert l2. induction l1 as [|a r1 IH]; intros l2 Hs1 Hs2 Hnd Hp.
    - apply Permutation_nil in Hp. congruence.
    - destruct l2 as [|b r2].
      + apply Permutation_sym, Permutation_nil in Hp. discriminate.
      + inversion Hs1 as [|x1 y1 Hs1' Hall1]; subst x1 y1.
        inversion Hs2 as [|x2 y2 Hs2' Hall2]; subst x2 y2.
        cbn [map] in Hnd. inversion Hnd as [|x3 y3 Hnin Hnd']; subst x3 y3.
        assert (Hab : a = b).
        { assert (Ha : In a (b :: r2)) by (eapply Permutation_in; [exact Hp | left; reflexivity]).
          assert (Hb : In b (a :: r1))
            by (eapply Permutation_in; [apply Permutation_sym; exact Hp | left; reflexivity]).
          destruct Ha as [Ha|Ha]; [congruence|].
          destruct Hb as [Hb|Hb]; [congruence|].
          exfalso. apply Hnin.
          rewrite Forall_forall in Hall1, Hall2.
          pose proof (Hall1 _ Hb) as H1. pose proof (Hall2 _ Ha) as H2.
          unfold le_snd in H1, H2.
          replace (snd a) with (snd b) by lia.
          apply in_map. exact Hb. }
        subst b. f_equal.
        apply IH; try assumption.
        eapply Permutation_cons_inv. exact Hp.
  Qed.
End SortByIndex.

(* ------------------------------------------------------------------------------------ *)
(* Part 3: the refinement.                                                               *)
(* ------------------------------------------------------------------------------------ *)
Section Refine.
  Context {K V : Type} (keqb : K -> K -> bool).
  Hypothesis keqb_spec : forall a b, reflect (a = b) (keqb a b).

  Implicit Types (c : CM.cmap K V) (s : CM.spec K V) (m : CM.hmap K V) (k : K) (v : V).

  Local Notation kneq := (keqb_neq keqb keqb_spec).
  Local Notation krefl := (keqb_refl keqb keqb_spec).

  (* the std HashMap operations are the association-list operations at value type V * nat *)
  Lemma hget_eq m k : CM.hget keqb m k = CM.s_get (V := V * nat) keqb m k.
  Proof. reflexivity. Qed.
  Lemma hins_eq m k e : CM.hins keqb m k e = CM.s_ins (V := V * nat) keqb m k e.
  Proof. reflexivity. Qed.

  (* ---- the spec list decorated with positions ---- *)
  Fixpoint indexed_from (i : nat) (s : CM.spec K V) : CM.hmap K V :=
    match s with
    | [] => []
    | (k, v) :: r => (k, (v, i)) :: indexed_from (S i) r
    end.
  Definition indexed (s : CM.spec K V) : CM.hmap K V := indexed_from 0 s.

  Lemma indexed_from_enum i s :
    map (fun p => (fst (snd p), (snd (snd p), fst p))) (CM.enumerate_from i s) = indexed_from i s.
  Proof.
    revert i. induction s as [|[k v] r IH]; intros i; cbn [CM.enumerate_from map indexed_from fst snd].
    - reflexivity.
    - rewrite IH. reflexivity.
  Qed.

  Lemma indexed_from_fst i s : map fst (indexed_from i s) = map fst s.
  Proof.
    revert i. induction s as [|[k v] r IH]; intros i; cbn [indexed_from map fst]; [reflexivity|].
    rewrite IH. reflexivity.
  Qed.

  Lemma indexed_from_length i s : length (indexed_from i s) = length s.
  Proof.
    revert i. induction s as [|[k v] r IH]; intros i; cbn [indexed_from length]; [reflexivity|].
    rewrite IH. reflexivity.
  Qed.

  Lemma indexed_from_snd i s :
    map (fun kv => snd (snd kv)) (indexed_from i s) = seq i (length s).
  Proof.
    revert i. induction s as [|[k v] r IH]; intros i; cbn [indexed_from map snd length seq];
      [reflexivity|].
    rewrite IH. reflexivity.
  Qed.

  Lemma indexed_from_in i s k v j :
    In (k, (v, j)) (indexed_from i s) <-> exists p, j = i + p /\ nth_error s p = Some (k, v).
  Proof.
    revert i. induction s as [|[k0 v0] r IH]; intros i; cbn [indexed_from In].
    - split; [intros [] | intros [p [_ H]]; destruct p; discriminate].
    - rewrite IH. split.
      + intros [H|[p [H1 H2]]].
        * injection H as H1 H2 H3; subst. exists 0. split; [lia | reflexivity].
        * exists (S p). split; [lia | exact H2].
      + intros [[|p] [H1 H2]]; cbn [nth_error] in H2.
        * injection H2 as H2 H3; subst. left. f_equal. f_equal. lia.
        * right. exists p. split; [lia | exact H2].
  Qed.

  Lemma indexed_in s k v j : In (k, (v, j)) (indexed s) <-> nth_error s j = Some (k, v).
  Proof.
    unfold indexed. rewrite indexed_from_in. split.
    - intros [p [H1 H2]]. cbn [Nat.add] in H1. subst p. exact H2.
    - intros H. exists j. split; [reflexivity | exact H].
  Qed.

  Lemma indexed_from_nth i s p :
    nth_error (indexed_from i s) p
    = option_map (fun kv => (fst kv, (snd kv, i + p))) (nth_error s p).
  Proof.
    revert i p. induction s as [|[k v] r IH]; intros i p; cbn [indexed_from].
    - destruct p; reflexivity.
    - destruct p as [|p]; cbn [nth_error option_map fst snd].
      + rewrite Nat.add_0_r. reflexivity.
      + rewrite IH. rewrite Nat.add_succ_r. reflexivity.
  Qed.

  Lemma indexed_nth s p :
    nth_error (indexed s) p = option_map (fun kv => (fst kv, (snd kv, p))) (nth_error s p).
  Proof. unfold indexed. rewrite indexed_from_nth. reflexivity. Qed.

  Definition key_idx (kv : K * (V * nat)) : K * nat := (fst kv, snd (snd kv)).

  Lemma indexed_from_sorted i s : StronglySorted le_snd (map key_idx (indexed_from i s)).
  Proof.
    revert i. induction s as [|[k v] r IH]; intros i; cbn [indexed_from map]; constructor.
    - apply IH.
    - rewrite Forall_forall. intros [k' j'] Hin.
      apply in_map_iff in Hin. destruct Hin as [[k'' [v'' j'']] [Heq Hin]].
      unfold key_idx in Heq. cbn [fst snd] in Heq. injection Heq as H1 H2; subst.
      apply indexed_from_in in Hin. destruct Hin as [p [Hp _]].
      unfold le_snd, key_idx. cbn [fst snd]. lia.
  Qed.

  (* ---- small NoDup facts ---- *)
  Ltac nodup_fwd :=
    intros Hnd;
    repeat match goal with
           | H : NoDup (_ :: _) |- _ => inversion H; clear H; subst
           end;
    cbn [In] in *; intuition.
  Ltac nodup_bwd :=
    intros Hnd; repeat (apply NoDup_cons || apply NoDup_nil); cbn [In]; intuition congruence.

  Lemma nodup2 (a b : K) : NoDup [a; b] <-> a <> b.
  Proof. split; [nodup_fwd | nodup_bwd]. Qed.
  Lemma nodup3 (a b c : K) : NoDup [a; b; c] <-> a <> b /\ a <> c /\ b <> c.
  Proof. split; [nodup_fwd | nodup_bwd]. Qed.
  Lemma nodup4 (a b c d : K) :
    NoDup [a; b; c; d] <-> a <> b /\ a <> c /\ a <> d /\ b <> c /\ b <> d /\ c <> d.
  Proof. split; [nodup_fwd | nodup_bwd]. Qed.
  Lemma nodup5 (a b c d e : K) :
    NoDup [a; b; c; d; e] <->
    a <> b /\ a <> c /\ a <> d /\ a <> e /\ b <> c /\ b <> d /\ b <> e /\ c <> d /\ c <> e /\ d <> e.
  Proof. split; [nodup_fwd | nodup_bwd]. Qed.

  (* ---- the abstraction relation ---- *)
  Definition Abs (c : CM.cmap K V) (s : CM.spec K V) : Prop :=
    match c with
    | CM.One k1 v1 => s = [(k1, v1)]
    | CM.Two k1 k2 v1 v2 => s = [(k1, v1); (k2, v2)] /\ NoDup [k1; k2]
    | CM.Three k1 k2 k3 v1 v2 v3 =>
        s = [(k1, v1); (k2, v2); (k3, v3)] /\ NoDup [k1; k2; k3]
    | CM.Four k1 k2 k3 k4 v1 v2 v3 v4 =>
        s = [(k1, v1); (k2, v2); (k3, v3); (k4, v4)] /\ NoDup [k1; k2; k3; k4]
    | CM.NE m =>
        NoDup (map fst m) /\ NoDup (map fst s) /\ length m = length s
        /\ forall k v i, In (k, (v, i)) m <-> nth_error s i = Some (k, v)
    end.

  Theorem abs_empty : Abs CM.empty [].
  Proof.
    unfold CM.empty. cbn [Abs map length]. repeat split; try constructor.
    - intros [].
    - destruct i; discriminate.
  Qed.

  Theorem abs_nodup c s : Abs c s -> NoDup (map fst s).
  Proof.
    destruct c as [k1 v1|k1 k2 v1 v2|k1 k2 k3 v1 v2 v3|k1 k2 k3 k4 v1 v2 v3 v4|m]; cbn [Abs].
    - intros ->. cbn [map fst]. constructor; [intros [] | constructor].
    - intros [-> Hnd]. exact Hnd.
    - intros [-> Hnd]. exact Hnd.
    - intros [-> Hnd]. exact Hnd.
    - intros (_ & Hnd & _). exact Hnd.
  Qed.

  Theorem abs_len c s : Abs c s -> CM.len c = length s.
  Proof.
    destruct c as [k1 v1|k1 k2 v1 v2|k1 k2 k3 v1 v2 v3|k1 k2 k3 k4 v1 v2 v3 v4|m];
      cbn [Abs CM.len].
    - intros ->. reflexivity.
    - intros [-> _]. reflexivity.
    - intros [-> _]. reflexivity.
    - intros [-> _]. reflexivity.
    - intros (_ & _ & Hlen & _). exact Hlen.
  Qed.

  (* the list of hash-map entries is, up to order, the spec decorated with positions *)
  Lemma abs_ne_perm m s : Abs (CM.NE m) s -> Permutation m (indexed s).
  Proof.
    cbn [Abs]. intros (Hndm & Hnds & _ & Hin).
    apply NoDup_Permutation.
    - eapply NoDup_map_inv. exact Hndm.
    - eapply NoDup_map_inv. unfold indexed. rewrite indexed_from_fst. exact Hnds.
    - intros [k [v i]]. rewrite indexed_in. apply Hin.
  Qed.

  Lemma abs_indexed s : NoDup (map fst s) -> Abs (CM.NE (indexed s)) s.
  Proof.
    intros Hnd. cbn [Abs]. unfold indexed at 1 2.
    rewrite indexed_from_fst, indexed_from_length.
    repeat split; try assumption; apply indexed_in.
  Qed.

  (* Order independence, stated outright: Abs on the NEntries variant only depends on the
     multiset of HashMap entries. *)
  Lemma abs_ne_perm_iff m s :
    Abs (CM.NE m) s <-> NoDup (map fst s) /\ Permutation m (indexed s).
  Proof.
    split.
    - intros Habs. split; [exact (abs_nodup _ _ Habs) | exact (abs_ne_perm _ _ Habs)].
    - intros [Hnds Hp]. cbn [Abs]. repeat split.
      + eapply Permutation_NoDup.
        * apply Permutation_sym. apply Permutation_map. exact Hp.
        * unfold indexed. rewrite indexed_from_fst. exact Hnds.
      + exact Hnds.
      + rewrite (Permutation_length Hp). apply indexed_from_length.
      + intros Hin. apply indexed_in. eapply Permutation_in; [exact Hp | exact Hin].
      + intros Hnth. apply indexed_in in Hnth.
        eapply Permutation_in; [apply Permutation_sym; exact Hp | exact Hnth].
  Qed.

  Lemma abs_ne_reorder m m' s : Permutation m m' -> Abs (CM.NE m) s -> Abs (CM.NE m') s.
  Proof.
    intros Hp Habs. apply abs_ne_perm_iff in Habs. destruct Habs as [Hnds Hp'].
    apply abs_ne_perm_iff. split; [exact Hnds|].
    eapply perm_trans; [apply Permutation_sym; exact Hp | exact Hp'].
  Qed.

  (* what a hash-map lookup says about the spec *)
  Lemma abs_ne_hget m s k :
    Abs (CM.NE m) s ->
    match CM.hget keqb m k with
    | Some (v, i) => nth_error s i = Some (k, v)
    | None => CM.s_get keqb s k = None
    end.
  Proof.
    cbn [Abs]. intros (Hndm & Hnds & _ & Hin).
    destruct (CM.hget keqb m k) as [[v i]|] eqn:E; rewrite hget_eq in E.
    - apply (s_get_in keqb keqb_spec m k (v, i) Hndm) in E. apply Hin. exact E.
    - apply (s_get_none keqb keqb_spec) in E. apply (s_get_none keqb keqb_spec).
      intros Hk. apply E. apply in_map_iff in Hk. destruct Hk as [[k' v'] [Hf Hk]].
      cbn [fst] in Hf. subst k'.
      apply In_nth_error in Hk. destruct Hk as [i Hi].
      apply Hin in Hi. apply (in_map fst) in Hi. exact Hi.
  Qed.

  Theorem abs_get c s k : Abs c s -> CM.get keqb c k = CM.s_get keqb s k.
  Proof.
    destruct c as [k1 v1|k1 k2 v1 v2|k1 k2 k3 v1 v2 v3|k1 k2 k3 k4 v1 v2 v3 v4|m].
    - cbn [Abs]. intros ->. reflexivity.
    - cbn [Abs]. intros [-> _]. reflexivity.
    - cbn [Abs]. intros [-> _]. reflexivity.
    - cbn [Abs]. intros [-> _]. reflexivity.
    - intros Habs. pose proof (abs_ne_hget m s k Habs) as Hg.
      destruct Habs as (_ & Hnds & _ & _). cbn [CM.get].
      destruct (CM.hget keqb m k) as [[v i]|]; cbn [option_map fst].
      + symmetry. apply (s_get_in keqb keqb_spec s k v Hnds).
        eapply nth_error_In. exact Hg.
      + symmetry. exact Hg.
  Qed.

  Theorem abs_get_index c s k : Abs c s -> CM.get_index keqb c k = CM.s_index keqb s k.
  Proof.
    destruct c as [k1 v1|k1 k2 v1 v2|k1 k2 k3 v1 v2 v3|k1 k2 k3 k4 v1 v2 v3 v4|m].
    - cbn [Abs]. intros ->. cbn [CM.get_index CM.s_index].
      rewrite (keqb_sym keqb keqb_spec k k1). destruct (keqb k1 k); reflexivity.
    - cbn [Abs]. intros [-> _]. cbn [CM.get_index CM.s_index].
      rewrite (keqb_sym keqb keqb_spec k k1), (keqb_sym keqb keqb_spec k k2).
      destruct (keqb k1 k), (keqb k2 k); reflexivity.
    - cbn [Abs]. intros [-> _]. cbn [CM.get_index CM.s_index].
      rewrite (keqb_sym keqb keqb_spec k k1), (keqb_sym keqb keqb_spec k k2),
        (keqb_sym keqb keqb_spec k k3).
      destruct (keqb k1 k), (keqb k2 k), (keqb k3 k); reflexivity.
    - cbn [Abs]. intros [-> _]. cbn [CM.get_index CM.s_index].
      rewrite (keqb_sym keqb keqb_spec k k1), (keqb_sym keqb keqb_spec k k2),
        (keqb_sym keqb keqb_spec k k3), (keqb_sym keqb keqb_spec k k4).
      destruct (keqb k1 k), (keqb k2 k), (keqb k3 k), (keqb k4 k); reflexivity.
    - intros Habs. pose proof (abs_ne_hget m s k Habs) as Hg.
      destruct Habs as (_ & Hnds & _ & _). cbn [CM.get_index].
      destruct (CM.hget keqb m k) as [[v i]|]; cbn [option_map snd].
      + symmetry. exact (s_index_nth_bwd keqb keqb_spec s k v i Hnds Hg).
      + symmetry. apply (s_index_get keqb). exact Hg.
  Qed.

  Lemma hfind_some m i k v : CM.hfind_index m i = Some (k, v) -> In (k, (v, i)) m.
  Proof.
    induction m as [|[k0 [v0 j0]] r IH]; cbn [CM.hfind_index In]; [discriminate|].
    destruct (Nat.eqb_spec j0 i) as [Heq|Hne].
    - intros H; injection H as H1 H2; subst. left; reflexivity.
    - intros H; right; exact (IH H).
  Qed.

  Lemma hfind_none m i k v : CM.hfind_index m i = None -> ~ In (k, (v, i)) m.
  Proof.
    induction m as [|[k0 [v0 j0]] r IH]; cbn [CM.hfind_index In]; [tauto|].
    destruct (Nat.eqb_spec j0 i) as [Heq|Hne]; [discriminate|].
    intros H [Hin|Hin]; [injection Hin as H1 H2 H3; contradiction | exact (IH H Hin)].
  Qed.

  Theorem abs_get_pair c s i : Abs c s -> CM.get_pair c i = nth_error s i.
  Proof.
    destruct c as [k1 v1|k1 k2 v1 v2|k1 k2 k3 v1 v2 v3|k1 k2 k3 k4 v1 v2 v3 v4|m]; cbn [Abs].
    - intros ->. destruct i as [|[|i]]; reflexivity.
    - intros [-> _]. destruct i as [|[|[|i]]]; reflexivity.
    - intros [-> _]. destruct i as [|[|[|[|i]]]]; reflexivity.
    - intros [-> _]. destruct i as [|[|[|[|[|i]]]]]; reflexivity.
    - intros (_ & _ & Hlen & Hin). cbn [CM.get_pair].
      destruct (Nat.ltb_spec (length m) i) as [Hlt|Hge].
      + symmetry. apply nth_error_None. lia.
      + destruct (CM.hfind_index m i) as [[k v]|] eqn:E.
        * symmetry. apply Hin. apply hfind_some. exact E.
        * destruct (nth_error s i) as [[k v]|] eqn:E'; [|reflexivity].
          apply Hin in E'. exfalso. exact (hfind_none m i k v E E').
  Qed.

  Lemma skipn_nth {A} (l : list A) i p : nth_error l i = Some p -> skipn i l = p :: skipn (S i) l.
  Proof.
    revert i. induction l as [|a r IH]; intros [|i]; cbn [nth_error]; try discriminate.
    - intros H; injection H as ->. reflexivity.
    - intros H. cbn [skipn]. rewrite (IH i H). reflexivity.
  Qed.

  Lemma iter_from_skipn c s :
    (forall i, CM.get_pair c i = nth_error s i) ->
    forall fuel i, i + fuel = length s -> CM.iter_from c i fuel = skipn i s.
  Proof.
    intros Hgp. induction fuel as [|f IH]; intros i Hi; cbn [CM.iter_from].
    - symmetry. apply skipn_all2. lia.
    - rewrite Hgp. destruct (nth_error s i) as [p|] eqn:E.
      + rewrite (skipn_nth s i p E). f_equal. apply IH. lia.
      + apply nth_error_None in E. lia.
  Qed.

  Theorem abs_iter c s : Abs c s -> CM.iter c = s.
  Proof.
    intros Habs. unfold CM.iter.
    rewrite (iter_from_skipn c s (fun i => abs_get_pair c s i Habs)).
    - reflexivity.
    - rewrite (abs_len c s Habs). reflexivity.
  Qed.

  Theorem abs_to_vec c s : Abs c s -> CM.to_vec c = indexed s.
  Proof.
    intros Habs. unfold CM.to_vec. rewrite (abs_iter c s Habs). apply indexed_from_enum.
  Qed.

  Theorem abs_keys c s : Abs c s -> CM.keys c = map fst s.
  Proof.
    destruct c as [k1 v1|k1 k2 v1 v2|k1 k2 k3 v1 v2 v3|k1 k2 k3 k4 v1 v2 v3 v4|m].
    - cbn [Abs]. intros ->. reflexivity.
    - cbn [Abs]. intros [-> _]. reflexivity.
    - cbn [Abs]. intros [-> _]. reflexivity.
    - cbn [Abs]. intros [-> _]. reflexivity.
    - intros Habs. cbn [CM.keys]. unfold CM.sort_by_index.
      change (fun (acc : list (K * nat)) (kv : K * (V * nat)) =>
                CM.insert_sorted (fst kv, snd (snd kv)) acc)
        with (fun (acc : list (K * nat)) (kv : K * (V * nat)) =>
                CM.insert_sorted (key_idx kv) acc).
      destruct (fold_insert_sorted key_idx m [] (SSorted_nil _)) as [Hs Hp].
      rewrite app_nil_r in Hp.
      rewrite <- (sorted_perm_eq (map key_idx (indexed s)) _
                    (indexed_from_sorted 0 s) Hs).
      + rewrite map_map. unfold key_idx. cbn [fst]. apply indexed_from_fst.
      + rewrite map_map. unfold key_idx. cbn [snd]. unfold indexed.
        rewrite indexed_from_snd. apply seq_NoDup.
      + eapply perm_trans; [|exact Hp].
        apply Permutation_map. apply Permutation_sym. apply abs_ne_perm. exact Habs.
  Qed.

  (* ---- insert ---- *)
  Lemma insert_NE_nonempty m k v :
    m <> [] ->
    CM.insert keqb (CM.NE m) k v
    = (CM.NE (CM.hins keqb m k
                (v, match CM.hget keqb m k with Some (_, i) => i | None => length m end)),
       option_map fst (CM.hget keqb m k)).
  Proof. destruct m; [congruence | reflexivity]. Qed.

  Lemma abs_ne_insert m s k v :
    Abs (CM.NE m) s ->
    Abs (CM.NE (CM.hins keqb m k
                  (v, match CM.hget keqb m k with Some (_, i) => i | None => length m end)))
        (CM.s_ins keqb s k v)
    /\ option_map fst (CM.hget keqb m k) = CM.s_get keqb s k.
  Proof.
    intros Habs. pose proof (abs_ne_hget m s k Habs) as Hg.
    destruct Habs as (Hndm & Hnds & Hlen & Hin).
    destruct (CM.hget keqb m k) as [[v0 i0]|] eqn:E; rewrite hget_eq in E.
    - (* existing key: value replaced, slot kept *)
      assert (Hidx : CM.s_index keqb s k = Some i0)
        by exact (s_index_nth_bwd keqb keqb_spec s k v0 i0 Hnds Hg).
      assert (Hsg : CM.s_get keqb s k = Some v0).
      { apply (s_get_in keqb keqb_spec s k v0 Hnds). eapply nth_error_In. exact Hg. }
      split; [|cbn [option_map fst]; symmetry; exact Hsg].
      cbn [Abs]. rewrite hins_eq.
      split; [apply (s_ins_nodup keqb keqb_spec); exact Hndm|].
      split; [apply (s_ins_nodup keqb keqb_spec); exact Hnds|].
      split.
      + rewrite !s_ins_length. rewrite Hsg, E. exact Hlen.
      + intros k' v' i.
        rewrite (s_ins_nth_hit keqb keqb_spec s k v i0 i Hidx).
        rewrite (s_ins_in keqb keqb_spec m k (v, i0) k' (v', i) Hndm).
        split.
        * intros [[Hk Heq]|[Hne Hin']].
          -- injection Heq as Hv Hi. subst k' v' i. rewrite Nat.eqb_refl. reflexivity.
          -- destruct (Nat.eqb_spec i i0) as [Hi|Hi].
             ++ subst i. apply Hin in Hin'. exfalso. apply Hne. congruence.
             ++ apply Hin. exact Hin'.
        * destruct (Nat.eqb_spec i i0) as [Hi|Hi].
          -- intros H. injection H as Hk Hv. subst i k' v'. left; split; reflexivity.
          -- intros H. right. split; [|apply Hin; exact H].
             intros Hk. subst k'. apply Hin in H.
             apply (s_get_in keqb keqb_spec m k (v', i) Hndm) in H.
             apply Hi. congruence.
    - (* new key: appended with the next free index *)
      split; [|cbn [option_map]; symmetry; exact Hg].
      cbn [Abs]. rewrite hins_eq.
      split; [apply (s_ins_nodup keqb keqb_spec); exact Hndm|].
      split; [apply (s_ins_nodup keqb keqb_spec); exact Hnds|].
      rewrite (s_ins_app keqb m k (v, length m) E), (s_ins_app keqb s k v Hg).
      split; [rewrite !app_length; cbn [length]; lia|].
      intros k' v' i. rewrite in_app_iff. cbn [In]. split.
      + intros [H|[H|[]]].
        * apply Hin in H. rewrite nth_error_app1; [exact H|].
          apply nth_error_Some. rewrite H. discriminate.
        * injection H as H1 H2 H3. subst k' v' i.
          rewrite nth_error_app2 by lia. rewrite Hlen, Nat.sub_diag. reflexivity.
      + intros H. destruct (Nat.lt_ge_cases i (length s)) as [Hlt|Hge].
        * rewrite nth_error_app1 in H by exact Hlt. left. apply Hin. exact H.
        * rewrite nth_error_app2 in H by exact Hge.
          destruct (i - length s) as [|d] eqn:Ed; cbn [nth_error] in H.
          -- injection H as H1 H2. subst k' v'. right; left.
             replace i with (length m) by lia. reflexivity.
          -- destruct d; discriminate.
  Qed.

  Ltac small_ins :=
    cbn [fst snd Abs]; repeat split; try reflexivity;
    try (first [apply nodup2 | apply nodup3 | apply nodup4]; repeat split; congruence).

  Theorem abs_insert c s k v :
    Abs c s ->
    Abs (fst (CM.insert keqb c k v)) (CM.s_ins keqb s k v)
    /\ snd (CM.insert keqb c k v) = CM.s_get keqb s k.
  Proof.
    destruct c as [k1 v1|k1 k2 v1 v2|k1 k2 k3 v1 v2 v3|k1 k2 k3 k4 v1 v2 v3 v4|m].
    - cbn [Abs]. intros ->. cbn [CM.insert CM.s_ins CM.s_get].
      destruct (keqb_spec k1 k) as [H1|H1]; small_ins.
    - cbn [Abs]. intros [-> Hnd]. apply nodup2 in Hnd. cbn [CM.insert CM.s_ins CM.s_get].
      destruct (keqb_spec k1 k) as [H1|H1]; [small_ins|].
      destruct (keqb_spec k2 k) as [H2|H2]; small_ins.
    - cbn [Abs]. intros [-> Hnd]. apply nodup3 in Hnd. destruct Hnd as (N12 & N13 & N23).
      cbn [CM.insert CM.s_ins CM.s_get].
      destruct (keqb_spec k1 k) as [H1|H1]; [small_ins|].
      destruct (keqb_spec k2 k) as [H2|H2]; [small_ins|].
      destruct (keqb_spec k3 k) as [H3|H3]; small_ins.
    - cbn [Abs]. intros [-> Hnd]. apply nodup4 in Hnd.
      destruct Hnd as (N12 & N13 & N14 & N23 & N24 & N34).
      cbn [CM.insert CM.s_ins CM.s_get].
      destruct (keqb_spec k1 k) as [H1|H1]; [small_ins|].
      destruct (keqb_spec k2 k) as [H2|H2]; [small_ins|].
      destruct (keqb_spec k3 k) as [H3|H3]; [small_ins|].
      destruct (keqb_spec k4 k) as [H4|H4]; [small_ins|].
      (* Four -> NEntries: the five inserts into a fresh HashMap *)
      cbn [fst snd]. split; [|reflexivity].
      assert (Hm : CM.hins keqb (CM.hins keqb (CM.hins keqb (CM.hins keqb (CM.hins keqb []
                     k1 (v1, 0)) k2 (v2, 1)) k3 (v3, 2)) k4 (v4, 3)) k (v, 4)
                   = indexed [(k1, v1); (k2, v2); (k3, v3); (k4, v4); (k, v)]).
      { repeat (cbn [CM.hins]; rewrite ?kneq by congruence). reflexivity. }
      rewrite Hm. apply abs_indexed. cbn [map fst].
      apply nodup5. repeat split; congruence.
    - intros Habs. destruct m as [|e0 r] eqn:Em.
      + destruct Habs as (_ & _ & Hlen & _). destruct s; [|discriminate].
        cbn [CM.insert CM.s_ins CM.s_get fst snd Abs]. split; reflexivity.
      + rewrite <- Em in *. rewrite insert_NE_nonempty by (subst m; discriminate).
        cbn [fst snd]. apply abs_ne_insert. exact Habs.
  Qed.

  Theorem ops_refine (ops : list (K * V)) c s :
    Abs c s ->
    Abs (fold_left (fun c kv => fst (CM.insert keqb c (fst kv) (snd kv))) ops c)
        (fold_left (fun s kv => CM.s_ins keqb s (fst kv) (snd kv)) ops s).
  Proof.
    revert c s. induction ops as [|[k v] ops IH]; intros c s Habs; cbn [fold_left fst snd].
    - exact Habs.
    - apply IH. apply abs_insert. exact Habs.
  Qed.

  Theorem abs_from_iter (l : list (K * V)) :
    Abs (CM.from_iter keqb l)
        (fold_left (fun s kv => CM.s_ins keqb s (fst kv) (snd kv)) l []).
  Proof. unfold CM.from_iter. apply ops_refine. exact abs_empty. Qed.

  (* ---- new ---- *)
  Lemma mem_in k (l : list K) : CM.mem keqb k l = true <-> In k l.
  Proof.
    induction l as [|a r IH]; cbn [CM.mem In].
    - split; [discriminate | tauto].
    - rewrite orb_true_iff, IH. split; (intros [H|H]; [left | right; exact H]).
      + destruct (keqb_spec a k) as [Heq|Hne]; [exact Heq | discriminate].
      + subst a. apply krefl.
  Qed.

  Lemma nodupb_spec (l : list K) : CM.nodupb keqb l = true <-> NoDup l.
  Proof.
    induction l as [|a r IH]; cbn [CM.nodupb].
    - split; [constructor | reflexivity].
    - rewrite andb_true_iff, negb_true_iff, IH. split.
      + intros [H1 H2]. constructor; [|exact H2].
        rewrite <- mem_in. rewrite H1. discriminate.
      + intros H. inversion H as [|x l Hnin Hnd]; subst x l. split; [|exact Hnd].
        destruct (CM.mem keqb a r) eqn:E; [|reflexivity].
        apply mem_in in E. contradiction.
  Qed.

  Lemma collect_indexed_fresh (l : list (K * V)) i acc :
    NoDup (map fst l) ->
    (forall k, In k (map fst l) -> ~ In k (map fst acc)) ->
    CM.collect_indexed keqb l i acc = acc ++ indexed_from i l.
  Proof.
    revert i acc. induction l as [|[k v] r IH]; intros i acc Hnd Hfresh;
      cbn [CM.collect_indexed indexed_from].
    - rewrite app_nil_r. reflexivity.
    - cbn [map fst] in Hnd, Hfresh. inversion Hnd as [|x y Hnin Hnd']; subst x y.
      rewrite hins_eq, s_ins_app.
      + rewrite IH.
        * rewrite <- app_assoc. reflexivity.
        * exact Hnd'.
        * intros k' Hk'. rewrite map_app, in_app_iff. cbn [map fst In].
          intros [H|[H|[]]].
          -- apply (Hfresh k'); [right; exact Hk' | exact H].
          -- subst k'. exact (Hnin Hk').
      + apply (s_get_none keqb keqb_spec). apply Hfresh. left; reflexivity.
  Qed.

  Theorem abs_new (l : list (K * V)) : NoDup (map fst l) -> Abs (CM.new keqb l) l.
  Proof.
    intros Hnd.
    assert (Hbig : Abs (CM.NE (CM.collect_indexed keqb l 0 [])) l).
    { rewrite collect_indexed_fresh; [|exact Hnd|intros k _ []].
      cbn [app]. apply abs_indexed. exact Hnd. }
    destruct l as [|[k1 v1] [|[k2 v2] [|[k3 v3] [|[k4 v4] [|[k5 v5] r]]]]];
      cbv beta iota delta [CM.new]; cbn [map fst] in Hnd.
    - exact abs_empty.
    - reflexivity.
    - rewrite (proj2 (nodupb_spec _) Hnd). cbn [Abs]. split; [reflexivity | exact Hnd].
    - rewrite (proj2 (nodupb_spec _) Hnd). cbn [Abs]. split; [reflexivity | exact Hnd].
    - rewrite (proj2 (nodupb_spec _) Hnd). cbn [Abs]. split; [reflexivity | exact Hnd].
    - exact Hbig.
  Qed.
End Refine.

(* ------------------------------------------------------------------------------------ *)
(* The key hypothesis in its boolean form: any [keqb] with                               *)
(* [keqb a b = true <-> a = b] satisfies the [reflect] hypothesis used above.            *)
(* ------------------------------------------------------------------------------------ *)
Lemma keqb_reflect_of_iff {K : Type} (keqb : K -> K -> bool) :
  (forall a b, keqb a b = true <-> a = b) -> forall a b, reflect (a = b) (keqb a b).
Proof. intros Hiff a b. apply iff_reflect. symmetry. apply Hiff. Qed.

(* ------------------------------------------------------------------------------------ *)
(* Non-vacuity: a concrete 7-key map (8 inserts, key 1 inserted twice) over Z keys.      *)
(* ------------------------------------------------------------------------------------ *)
Section Example7.
  Open Scope Z_scope.

  Definition ex_ops : list (Z * Z) :=
    [(3, 30); (1, 10); (4, 40); (1, 11); (5, 50); (9, 90); (2, 20); (6, 60)].
  Definition ex_spec : list (Z * Z) :=
    [(3, 30); (1, 11); (4, 40); (5, 50); (9, 90); (2, 20); (6, 60)].

  Example ex7_abs : Abs (CM.from_iter Z.eqb ex_ops) ex_spec.
  Proof. exact (abs_from_iter Z.eqb Z.eqb_spec ex_ops). Qed.

  (* the concrete state is an NEntries map, i.e. the interesting branch of Abs *)
  Example ex7_is_NE : exists m, CM.from_iter Z.eqb ex_ops = CM.NE m /\ length m = 7%nat.
  Proof. eexists. split; [vm_compute; reflexivity | reflexivity]. Qed.

  Example ex7_keys : CM.keys (CM.from_iter Z.eqb ex_ops) = [3; 1; 4; 5; 9; 2; 6].
  Proof. rewrite (abs_keys _ _ ex7_abs). reflexivity. Qed.

  Example ex7_index : CM.get_index Z.eqb (CM.from_iter Z.eqb ex_ops) 9 = Some 4%nat.
  Proof. rewrite (abs_get_index Z.eqb Z.eqb_spec _ _ 9 ex7_abs). reflexivity. Qed.
End Example7.

Check @abs_empty. Check @abs_new. Check @abs_insert. Check @abs_nodup. Check @abs_len.
Check @abs_get. Check @abs_get_index. Check @abs_get_pair. Check @abs_iter. Check @abs_keys.
Check @abs_to_vec. Check @abs_from_iter. Check @ops_refine.
Check @s_index_lt. Check @s_index_nth. Check @s_index_inj. Check @s_index_surj.
Check @s_ins_length. Check @s_ins_index_old. Check @s_ins_index_new. Check @s_ins_nodup.
Check @s_get_ins_same. Check @s_get_ins_other.

Print Assumptions abs_insert.
Print Assumptions abs_iter.
Print Assumptions abs_keys.
Print Assumptions ops_refine.
Print Assumptions abs_new.
Print Assumptions abs_to_vec.
Print Assumptions ex7_abs.
