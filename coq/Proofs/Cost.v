(* Lemmas for property C07: the cost model (Model/Cost.v) read in exact rationals (QN) computes the
   specification of Model/CostSpec.v; positivity, the access/traversal split, linearity in the weights,
   zero-weight features.  All statements are about QN; none mentions FN. *)
From Coq Require Import ZArith QArith Qminmax List Bool String Lia Lqa Setoid Morphisms.
From RC Require Import Base.Num Base.Res Gen.CostConsts Model.Cost Model.CostSpec.
Import ListNotations.
Import Cost CostSpec.
Local Open Scope Q_scope.

(* ------------------------------------------------------------------ constants and the two clamps *)

Lemma cost_zero_Q : cost_zero QN = 0.
Proof. reflexivity. Qed.
Lemma cost_one_Q : cost_one QN = 1.
Proof. reflexivity. Qed.

(* Cost::MIN_COST of the source is strictly positive *)
Lemma MIN_pos : 0 < MIN.
Proof. unfold MIN, min_cost, of_lit. vm_compute. reflexivity. Qed.

(* enforce_strictly_positive as the source has it now (operator and substitute from Gen/CostConsts.v) *)
Lemma esp_floor : forall x : Q, enforce_strictly_positive QN x = floor_pos x.
Proof. intros x. reflexivity. Qed.
Lemma enn_clip : forall x : Q, enforce_non_negative QN x = clip0 x \/ (x == 0 /\ enforce_non_negative QN x == clip0 x).
Proof.
  intros x. unfold enforce_non_negative, clip0, cmp_bound. cbn [CostConsts.ENN_CMP ltb QN].
  unfold Qltb. change (of_lit QN CostConsts.ENN_BOUND) with 0. destruct (Qle_bool 0 x) eqn:E; cbn [negb]; left; reflexivity.
Qed.

Lemma floor_pos_pos : forall x, 0 < floor_pos x.
Proof.
  intros x. unfold floor_pos. destruct (Qle_bool x 0) eqn:E.
  - exact MIN_pos.
  - destruct (Qlt_le_dec 0 x) as [H|H]; [exact H|]. apply Qle_bool_iff in H. congruence.
Qed.
Lemma floor_pos_spec : forall x, (0 < x -> floor_pos x = x) /\ (x <= 0 -> floor_pos x = MIN).
Proof.
  intros x. unfold floor_pos. split; intros H.
  - destruct (Qle_bool x 0) eqn:E; [|reflexivity]. apply Qle_bool_iff in E. lra.
  - apply Qle_bool_iff in H. rewrite H. reflexivity.
Qed.
Lemma Qle_bool_compat : forall x y u v, x == y -> u == v -> Qle_bool x u = Qle_bool y v.
Proof.
  intros x y u v H1 H2. destruct (Qle_bool x u) eqn:E1, (Qle_bool y v) eqn:E2; try reflexivity.
  - apply Qle_bool_iff in E1. rewrite H1, H2 in E1. apply Qle_bool_iff in E1. congruence.
  - apply Qle_bool_iff in E2. rewrite <- H1, <- H2 in E2. apply Qle_bool_iff in E2. congruence.
Qed.
Lemma floor_pos_compat : forall x y, x == y -> floor_pos x == floor_pos y.
Proof.
  intros x y H. unfold floor_pos. rewrite (Qle_bool_compat x y 0 0 H (Qeq_refl 0)).
  destruct (Qle_bool y 0); [reflexivity | exact H].
Qed.
Lemma clip0_nonneg : forall x, 0 <= clip0 x.
Proof.
  intros x. unfold clip0. destruct (Qle_bool 0 x) eqn:E; [apply Qle_bool_iff; exact E | lra].
Qed.
Lemma clip0_spec : forall x, (0 <= x -> clip0 x = x) /\ (x < 0 -> clip0 x = 0).
Proof.
  intros x. unfold clip0. split; intros H.
  - apply Qle_bool_iff in H. rewrite H. reflexivity.
  - destruct (Qle_bool 0 x) eqn:E; [|reflexivity]. apply Qle_bool_iff in E. lra.
Qed.
Lemma enn_is_clip : forall x : Q, enforce_non_negative QN x = clip0 x.
Proof.
  intros x. unfold enforce_non_negative, clip0, cmp_bound. cbn [CostConsts.ENN_CMP ltb QN]. unfold Qltb.
  change (of_lit QN CostConsts.ENN_BOUND) with 0. destruct (Qle_bool 0 x); reflexivity.
Qed.

(* ------------------------------------------------------------------ sums and products *)

Lemma Qsum_nil : Qsum [] = 0.
Proof. reflexivity. Qed.
Lemma Qsum_cons : forall x l, Qsum (x :: l) = x + Qsum l.
Proof. reflexivity. Qed.
Lemma Qprod_nil : Qprod [] = 1.
Proof. reflexivity. Qed.
Lemma Qprod_cons : forall x l, Qprod (x :: l) = x * Qprod l.
Proof. reflexivity. Qed.

Lemma fold_left_Qplus : forall l a, fold_left Qplus l a == a + Qsum l.
Proof.
  induction l as [|x l IH]; intros a; cbn [fold_left].
  - rewrite Qsum_nil. ring.
  - rewrite IH, Qsum_cons. ring.
Qed.
Lemma fold_left_Qmult : forall l a, fold_left Qmult l a == a * Qprod l.
Proof.
  induction l as [|x l IH]; intros a; cbn [fold_left].
  - rewrite Qprod_nil. ring.
  - rewrite IH, Qprod_cons. ring.
Qed.
Lemma Qsum_app : forall l1 l2, Qsum (l1 ++ l2) == Qsum l1 + Qsum l2.
Proof.
  induction l1 as [|x l1 IH]; intros l2; cbn [app].
  - rewrite Qsum_nil. ring.
  - rewrite !Qsum_cons, IH. ring.
Qed.
Lemma Qsum_ext : forall l l', Forall2 Qeq l l' -> Qsum l == Qsum l'.
Proof.
  induction 1 as [|x y l l' Hxy _ IH]; [reflexivity|].
  rewrite !Qsum_cons, Hxy, IH. reflexivity.
Qed.
Lemma Qprod_ext : forall l l', Forall2 Qeq l l' -> Qprod l == Qprod l'.
Proof.
  induction 1 as [|x y l l' Hxy _ IH]; [reflexivity|].
  rewrite !Qprod_cons, Hxy, IH. reflexivity.
Qed.
Lemma agg_spec_ext : forall a l l', Forall2 Qeq l l' -> agg_spec a l == agg_spec a l'.
Proof.
  intros a l l' H. destruct a; cbn [agg_spec].
  - exact (Qsum_ext l l' H).
  - destruct H as [|x y l l' Hxy H]; [reflexivity|]. apply Qprod_ext. constructor; assumption.
Qed.
Lemma Forall2_map_ext : forall {A} (f g : A -> Q) l, (forall x, f x == g x) -> Forall2 Qeq (map f l) (map g l).
Proof. intros A f g l H. induction l; cbn [map]; constructor; auto. Qed.

(* CostAggregation::agg_iter is the plain sum / product *)
Lemma aggregate_spec : forall a (cs : list Q), aggregate QN a cs == agg_spec a cs.
Proof.
  intros a cs. destruct a; cbn [aggregate agg_spec].
  - change (add (n:=QN)) with Qplus. rewrite fold_left_Qplus. rewrite cost_zero_Q. ring.
  - destruct cs as [|c cs]; [reflexivity|].
    change (mul (n:=QN)) with Qmult. rewrite fold_left_Qmult. rewrite cost_one_Q. ring.
Qed.

(* ------------------------------------------------------------------ rates *)

Section VrateInd.
  Variable A : Type.
  Variable P : vrate A -> Prop.
  Hypothesis HZ : P VZero.
  Hypothesis HR : P VRaw.
  Hypothesis HF : forall f, P (VFactor f).
  Hypothesis HO : forall o, P (VOffset o).
  Hypothesis HC : forall l, Forall P l -> P (VCombined l).
  Fixpoint vrate_nested_ind (r : vrate A) : P r :=
    match r with
    | VZero => HZ
    | VRaw => HR
    | VFactor f => HF f
    | VOffset o => HO o
    | VCombined l =>
        HC l ((fix F (l : list (vrate A)) : Forall P l :=
                 match l with
                 | [] => Forall_nil P
                 | r' :: l' => Forall_cons r' (vrate_nested_ind r') (F l')
                 end) l)
    end.
End VrateInd.

Section NrateInd.
  Variable A : Type.
  Variable P : nrate A -> Prop.
  Hypothesis HZ : P NZero.
  Hypothesis HE : forall l, P (NEdge l).
  Hypothesis HEE : forall l, P (NEdgeEdge l).
  Hypothesis HC : forall l, Forall P l -> P (NCombined l).
  Fixpoint nrate_nested_ind (r : nrate A) : P r :=
    match r with
    | NZero => HZ
    | NEdge l => HE l
    | NEdgeEdge l => HEE l
    | NCombined l =>
        HC l ((fix F (l : list (nrate A)) : Forall P l :=
                 match l with
                 | [] => Forall_nil P
                 | r' :: l' => Forall_cons r' (nrate_nested_ind r') (F l')
                 end) l)
    end.
End NrateInd.

(* VehicleCostRate::map_value is the affine map of the specification, at every nesting depth *)
Lemma map_value_rated : forall (r : vrate Q) (x : Q), map_value QN r x == rated r x.
Proof.
  induction r as [| | f | o | l IH] using vrate_nested_ind; intros x; unfold rated;
    cbn [map_value affine fst snd].
  - rewrite cost_zero_Q. ring.
  - ring.
  - change (mul (n:=QN)) with Qmult. ring.
  - change (add (n:=QN)) with Qplus. ring.
  - (* Combined: generalise the accumulators *)
    assert (G : forall (y : Q) (acc : Q * Q), y == fst acc * x + snd acc ->
       (fix go (l : list (vrate QN)) (acc : QN) {struct l} : QN :=
          match l with [] => acc | r' :: l' => go l' (map_value QN r' acc) end) l y
       == fst ((fix go (l : list (vrate Q)) (acc : Q * Q) {struct l} : Q * Q :=
                  match l with
                  | [] => acc
                  | r' :: l' => go l' (fst acc * fst (affine r'), snd acc * fst (affine r') + snd (affine r'))
                  end) l acc) * x
          + snd ((fix go (l : list (vrate Q)) (acc : Q * Q) {struct l} : Q * Q :=
                  match l with
                  | [] => acc
                  | r' :: l' => go l' (fst acc * fst (affine r'), snd acc * fst (affine r') + snd (affine r'))
                  end) l acc)).
    { induction IH as [|r' l' Hr' _ IHl]; intros y acc Hy.
      - exact Hy.
      - apply IHl. cbn [fst snd]. rewrite (Hr' y). unfold rated. rewrite Hy. ring. }
    apply G. cbn [fst snd]. ring.
Qed.

Lemma n_traversal_fee : forall (r : nrate Q) (e : Z), n_traversal QN r e == edge_fee r e.
Proof.
  induction r as [| l | l | l IH] using nrate_nested_ind; intros e; cbn [n_traversal edge_fee].
  - reflexivity.
  - unfold lookup_edge. change (@assoc Z (T QN)) with (@assoc Z Q). destruct (assoc Z.eqb l e); reflexivity.
  - reflexivity.
  - assert (G : forall acc : Q,
       (fix go (rs : list (nrate QN)) (acc : QN) {struct rs} : QN :=
          match rs with [] => acc | r' :: rs' => go rs' (add acc (n_traversal QN r' e)) end) l acc
       == acc + Qsum (map (fun r' => edge_fee r' e) l)).
    { induction IH as [|r' l' Hr' _ IHl]; intros acc; cbn [map Qsum fold_right].
      - ring.
      - rewrite IHl. change (add (n:=QN)) with Qplus. rewrite (Hr' e).
        fold (Qsum (map (fun r'0 => edge_fee r'0 e) l')). ring. }
    rewrite G. rewrite cost_zero_Q. ring.
Qed.
Lemma n_access_fee : forall (r : nrate Q) (pe : Z * Z), n_access QN r pe == turn_fee r pe.
Proof.
  induction r as [| l | l | l IH] using nrate_nested_ind; intros pe; cbn [n_access turn_fee].
  - reflexivity.
  - reflexivity.
  - unfold lookup_pair. change (@assoc (Z * Z) (T QN)) with (@assoc (Z * Z) Q). destruct (assoc pair_eqb l pe); reflexivity.
  - assert (G : forall acc : Q,
       (fix go (rs : list (nrate QN)) (acc : QN) {struct rs} : QN :=
          match rs with [] => acc | r' :: rs' => go rs' (add acc (n_access QN r' pe)) end) l acc
       == acc + Qsum (map (fun r' => turn_fee r' pe) l)).
    { induction IH as [|r' l' Hr' _ IHl]; intros acc; cbn [map Qsum fold_right].
      - ring.
      - rewrite IHl. change (add (n:=QN)) with Qplus. rewrite (Hr' pe).
        fold (Qsum (map (fun r'0 => turn_fee r'0 pe) l')). ring. }
    rewrite G. rewrite cost_zero_Q. ring.
Qed.

(* ------------------------------------------------------------------ per-feature costs *)

Lemma rows_length : forall {A} (fs : list (feat A)) p n,
  (List.length fs <= List.length p)%nat -> (List.length fs <= List.length n)%nat ->
  List.length (rows fs p n) = List.length fs.
Proof.
  induction fs as [|f fs IH]; intros p n Hp Hn; [reflexivity|].
  destruct p as [|a p]; [cbn in Hp; lia|]. destruct n as [|b n]; [cbn in Hn; lia|].
  cbn [rows List.length] in *. rewrite IH; lia.
Qed.

Lemma per_feature_ok : forall term (fs : list (feat QN)) (p n : list QN),
  (List.length fs <= List.length p)%nat -> (List.length fs <= List.length n)%nat ->
  per_feature QN term fs p n = Ok (map (fun r : feat Q * Q * Q => let '(f, a, b) := r in term f a b) (rows fs p n)).
Proof.
  induction fs as [|f fs IH]; intros p n Hp Hn; [reflexivity|].
  destruct p as [|a p]; [cbn in Hp; lia|]. destruct n as [|b n]; [cbn in Hn; lia|].
  cbn [per_feature rows map List.length] in *. rewrite IH by lia. reflexivity.
Qed.
Lemma per_feature_err : forall term (fs : list (feat QN)) (p n : list QN),
  ((List.length p < List.length fs)%nat \/ (List.length n < List.length fs)%nat) ->
  per_feature QN term fs p n = Err "StateIndexOutOfBounds"%string.
Proof.
  induction fs as [|f fs IH]; intros p n H; [cbn in H; lia|].
  destruct p as [|a p]; [reflexivity|]. destruct n as [|b n]; [reflexivity|].
  cbn [per_feature List.length] in *. rewrite IH by lia. reflexivity.
Qed.

Definition long_enough (fs : list (feat QN)) (p n : list QN) : Prop :=
  (List.length fs <= List.length p)%nat /\ (List.length fs <= List.length n)%nat.

Lemma calc_ok : forall term sterm cm p n,
  long_enough (cm_feats cm) p n ->
  (forall f a b, term f a b == sterm (f, a, b)) ->
  exists c, calc QN term cm p n = Ok c /\ c == agg_spec (cm_agg cm) (map sterm (rows (cm_feats cm) p n)).
Proof.
  intros term sterm cm p n [Hp Hn] Ht. unfold calc. eexists.
  split; [rewrite (per_feature_ok term _ p n Hp Hn); cbn [bind]; reflexivity|]. rewrite aggregate_spec. apply agg_spec_ext.
  apply Forall2_map_ext. intros [[f a] b]. apply Ht.
Qed.

Lemma vehicle_term_spec : forall f a b, vehicle_term QN f a b == veh_term (f, a, b).
Proof.
  intros f a b. unfold vehicle_term, veh_term. change (T QN) with Q in *. change (mul (n:=QN)) with Qmult. change (sub (n:=QN)) with Qminus.
  rewrite map_value_rated. ring.
Qed.
Lemma net_traversal_term_spec : forall e f a b, net_traversal_term QN e f a b == edge_term e (f, a, b).
Proof.
  intros e f a b. unfold net_traversal_term, edge_term. change (T QN) with Q in *. change (mul (n:=QN)) with Qmult.
  rewrite n_traversal_fee. ring.
Qed.
Lemma net_access_term_spec : forall pe f a b, net_access_term QN pe f a b == turn_term pe (f, a, b).
Proof.
  intros pe f a b. unfold net_access_term, turn_term. change (T QN) with Q in *. change (mul (n:=QN)) with Qmult.
  rewrite n_access_fee. ring.
Qed.

Lemma calc_vehicle_spec : forall cm p n, long_enough (cm_feats cm) p n ->
  exists c, calc_vehicle QN cm p n = Ok c /\ c == veh_total (cm_agg cm) (cm_feats cm) p n.
Proof. intros cm p n H. exact (calc_ok _ veh_term cm p n H vehicle_term_spec). Qed.
Lemma calc_net_traversal_spec : forall e cm p n, long_enough (cm_feats cm) p n ->
  exists c, calc_net_traversal QN e cm p n = Ok c /\ c == edge_total (cm_agg cm) (cm_feats cm) e p n.
Proof. intros e cm p n H. exact (calc_ok _ (edge_term e) cm p n H (net_traversal_term_spec e)). Qed.
Lemma calc_net_access_spec : forall pe cm p n, long_enough (cm_feats cm) p n ->
  exists c, calc_net_access QN pe cm p n = Ok c /\ c == turn_total (cm_agg cm) (cm_feats cm) (Some pe) p n.
Proof. intros pe cm p n H. exact (calc_ok _ (turn_term pe) cm p n H (net_access_term_spec pe)). Qed.

Lemma calc_err : forall term cm p n, ~ long_enough (cm_feats cm) p n ->
  calc QN term cm p n = Err "StateIndexOutOfBounds"%string.
Proof.
  intros term cm p n H. unfold calc. rewrite per_feature_err; [reflexivity|]. unfold long_enough in H. lia.
Qed.

(* ------------------------------------------------------------------ the four entry points, any aggregation *)

Lemma traversal_cost_spec : forall cm e p n, long_enough (cm_feats cm) p n ->
  exists c, traversal_cost QN cm e p n = Ok c
    /\ c == floor_pos (raw_total (cm_agg cm) (cm_feats cm) None e p n).
Proof.
  intros cm e p n H. destruct (calc_vehicle_spec cm p n H) as [v [Hv Ev]].
  destruct (calc_net_traversal_spec e cm p n H) as [t [Ht Et]].
  unfold traversal_cost. eexists. split; [rewrite Hv, Ht; cbn [bind]; reflexivity|].
  rewrite esp_floor. apply floor_pos_compat. unfold raw_total. cbn [turn_total].
  change (add (n:=QN)) with Qplus. rewrite Ev, Et. ring.
Qed.
Lemma edge_cost_spec : forall cm pe e p n, long_enough (cm_feats cm) p n ->
  exists c, edge_cost QN cm pe e p n = Ok c /\ c == charge (cm_agg cm) (cm_feats cm) pe e p n.
Proof.
  intros cm pe e p n H. destruct (calc_vehicle_spec cm p n H) as [v [Hv Ev]].
  destruct (calc_net_traversal_spec e cm p n H) as [t [Ht Et]].
  unfold edge_cost, charge. destruct pe as [pe|].
  - destruct (calc_net_access_spec pe cm p n H) as [a [Ha Ea]].
    eexists. split; [rewrite Hv, Ht, Ha; cbn [bind]; reflexivity|]. rewrite esp_floor. apply floor_pos_compat. unfold raw_total.
    change (add (n:=QN)) with Qplus. rewrite Ev, Et, Ea. ring.
  - eexists. split; [rewrite Hv, Ht; cbn [bind]; reflexivity|]. rewrite esp_floor. apply floor_pos_compat.
    unfold raw_total. cbn [turn_total]. change (add (n:=QN)) with Qplus. rewrite Ev, Et, cost_zero_Q. ring.
Qed.
Lemma access_cost_spec : forall cm pe p n, long_enough (cm_feats cm) p n ->
  exists c, access_cost QN cm pe p n = Ok c
    /\ c == floor_pos (veh_total (cm_agg cm) (cm_feats cm) p n + turn_total (cm_agg cm) (cm_feats cm) (Some pe) p n).
Proof.
  intros cm pe p n H. destruct (calc_vehicle_spec cm p n H) as [v [Hv Ev]].
  destruct (calc_net_access_spec pe cm p n H) as [a [Ha Ea]].
  unfold access_cost. eexists. split; [rewrite Hv, Ha; cbn [bind]; reflexivity|].
  rewrite esp_floor. apply floor_pos_compat. change (add (n:=QN)) with Qplus. rewrite Ev, Ea. ring.
Qed.
Lemma clip0_compat : forall x y, x == y -> clip0 x == clip0 y.
Proof.
  intros x y H. unfold clip0. rewrite (Qle_bool_compat 0 0 x y (Qeq_refl 0) H).
  destruct (Qle_bool 0 y); [exact H | reflexivity].
Qed.
Lemma cost_estimate_spec : forall cm p n, long_enough (cm_feats cm) p n ->
  exists c, cost_estimate QN cm p n = Ok c /\ c == clip0 (veh_total (cm_agg cm) (cm_feats cm) p n).
Proof.
  intros cm p n H. destruct (calc_vehicle_spec cm p n H) as [v [Hv Ev]].
  unfold cost_estimate. eexists. split; [rewrite Hv; cbn [bind]; reflexivity|].
  rewrite enn_is_clip. apply clip0_compat. exact Ev.
Qed.

(* failure exactly when a state vector is shorter than the state model *)
Lemma entry_points_err : forall cm pe e p n, ~ long_enough (cm_feats cm) p n ->
  traversal_cost QN cm e p n = Err "StateIndexOutOfBounds"%string
  /\ edge_cost QN cm pe e p n = Err "StateIndexOutOfBounds"%string
  /\ (forall pe', access_cost QN cm pe' p n = Err "StateIndexOutOfBounds"%string)
  /\ cost_estimate QN cm p n = Err "StateIndexOutOfBounds"%string.
Proof.
  intros cm pe e p n H. unfold traversal_cost, edge_cost, access_cost, cost_estimate, calc_vehicle.
  rewrite (calc_err _ cm p n H). cbn [bind]. repeat split; reflexivity.
Qed.

(* positivity does not need the length hypothesis: whenever a cost is returned it is positive *)
Lemma traversal_cost_pos : forall cm e p n c, traversal_cost QN cm e p n = Ok c -> 0 < c.
Proof.
  intros cm e p n c H. unfold traversal_cost in H.
  destruct (calc_vehicle QN cm p n) as [v| | |]; cbn [bind] in H; try discriminate.
  destruct (calc_net_traversal QN e cm p n) as [t| | |]; cbn [bind] in H; try discriminate.
  injection H as <-. rewrite esp_floor. apply floor_pos_pos.
Qed.
Lemma access_cost_pos : forall cm pe p n c, access_cost QN cm pe p n = Ok c -> 0 < c.
Proof.
  intros cm pe p n c H. unfold access_cost in H.
  destruct (calc_vehicle QN cm p n) as [v| | |]; cbn [bind] in H; try discriminate.
  destruct (calc_net_access QN pe cm p n) as [t| | |]; cbn [bind] in H; try discriminate.
  injection H as <-. rewrite esp_floor. apply floor_pos_pos.
Qed.
Lemma edge_cost_pos : forall cm pe e p n c, edge_cost QN cm pe e p n = Ok c -> 0 < c.
Proof.
  intros cm pe e p n c H. unfold edge_cost in H.
  destruct (calc_vehicle QN cm p n) as [v| | |]; cbn [bind] in H; try discriminate.
  destruct (calc_net_traversal QN e cm p n) as [t| | |]; cbn [bind] in H; try discriminate.
  destruct (match pe with None => Ok (cost_zero QN) | Some pe0 => calc_net_access QN pe0 cm p n end) as [a| | |];
    cbn [bind] in H; try discriminate.
  injection H as <-. rewrite esp_floor. apply floor_pos_pos.
Qed.
Lemma estimate_nonneg : forall cm p n c, cost_estimate QN cm p n = Ok c -> 0 <= c.
Proof.
  intros cm p n c H. unfold cost_estimate in H.
  destruct (calc_vehicle QN cm p n) as [v| | |]; cbn [bind] in H; try discriminate.
  injection H as <-. rewrite enn_is_clip. apply clip0_nonneg.
Qed.

(* ------------------------------------------------------------------ the access / traversal split *)

(* EdgeTraversal::total_cost() is strictly positive for ANY two shares (the floor is enforced on the sum) *)
Lemma total_cost_pos : forall et : Q * Q, 0 < total_cost QN et.
Proof. intros et. unfold total_cost. rewrite esp_floor. apply floor_pos_pos. Qed.

Lemma split_sums_to_total : forall cm this other d p sa st a t,
  edge_traversal QN cm this other d p sa st = Ok (a, t) ->
  exists tot, edge_cost QN cm (edge_pair this other d) this p st = Ok tot
    /\ total_cost QN (a, t) == tot /\ 0 < total_cost QN (a, t)
    /\ match edge_pair this other d with
       | None => a == 0
       | Some pe => exists ac, access_cost QN cm pe p sa = Ok ac /\ a == ac /\ 0 < a
       end.
Proof.
  intros cm this other d p sa st a t H. unfold edge_traversal in H.
  destruct (edge_pair this other d) as [pe|].
  - destruct (access_cost QN cm pe p sa) as [ac| | |] eqn:Ha; cbn [bind] in H; try discriminate.
    destruct (edge_cost QN cm (Some pe) this p st) as [tot| | |] eqn:Ht; cbn [bind] in H; try discriminate.
    injection H as <- <-. exists tot. split; [reflexivity|].
    assert (E : total_cost QN (add (cost_zero QN) ac, sub tot (add (cost_zero QN) ac)) == tot).
    { unfold total_cost. cbn [fst snd]. rewrite esp_floor.
      rewrite <- (proj1 (floor_pos_spec tot) (edge_cost_pos _ _ _ _ _ _ Ht)) at 2. apply floor_pos_compat.
      change (add (n:=QN)) with Qplus. change (sub (n:=QN)) with Qminus. rewrite cost_zero_Q. ring. }
    split; [exact E|]. split; [rewrite E; exact (edge_cost_pos _ _ _ _ _ _ Ht)|].
    exists ac. split; [reflexivity|]. pose proof (access_cost_pos _ _ _ _ _ Ha) as Hp.
    change (0 + ac == ac /\ 0 < 0 + ac). split; [ring | lra].
  - cbn [bind] in H.
    destruct (edge_cost QN cm None this p st) as [tot| | |] eqn:Ht; cbn [bind] in H; try discriminate.
    injection H as <- <-. exists tot. split; [reflexivity|].
    assert (E : total_cost QN (cost_zero QN, sub tot (cost_zero QN)) == tot).
    { unfold total_cost. cbn [fst snd]. rewrite esp_floor.
      rewrite <- (proj1 (floor_pos_spec tot) (edge_cost_pos _ _ _ _ _ _ Ht)) at 2. apply floor_pos_compat.
      change (add (n:=QN)) with Qplus. change (sub (n:=QN)) with Qminus. rewrite cost_zero_Q. ring. }
    split; [exact E|]. split; [rewrite E; exact (edge_cost_pos _ _ _ _ _ _ Ht)|]. reflexivity.
Qed.

(* ------------------------------------------------------------------ sum aggregation *)

Lemma Qsum_map_plus : forall {A} (f g : A -> Q) l,
  Qsum (map (fun x => f x + g x) l) == Qsum (map f l) + Qsum (map g l).
Proof.
  intros A f g l. induction l as [|x l IH]; cbn [map Qsum fold_right]; [ring|].
  fold (Qsum (map (fun x => f x + g x) l)). fold (Qsum (map f l)). fold (Qsum (map g l)). rewrite IH. ring.
Qed.

(* under Sum the uncapped charge is the single sum of the property sentence *)
Lemma raw_total_sum_form : forall fs pe e p n, raw_total ASum fs pe e p n == sum_form fs pe e p n.
Proof.
  intros fs pe e p n. unfold raw_total, sum_form, veh_total, edge_total, turn_total. cbn [agg_spec].
  set (R := rows fs p n).
  transitivity (Qsum (map (fun r => veh_term r + (edge_term e r + match pe with None => 0 | Some pe => turn_term pe r end)) R)).
  - rewrite (Qsum_map_plus veh_term). rewrite (Qsum_map_plus (edge_term e)).
    destruct pe as [pe|].
    + change (fun x : feat Q * Q * Q => turn_term pe x) with (turn_term pe). ring.
    + assert (Z0 : Qsum (map (fun _ : feat Q * Q * Q => 0) R) == 0).
      { induction R as [|r R IH]; cbn [map Qsum fold_right]; [reflexivity|].
        fold (Qsum (map (fun _ : feat Q * Q * Q => 0) R)). rewrite IH. ring. }
      rewrite Z0. ring.
  - apply Qsum_ext. apply Forall2_map_ext. intros [[f a] b]. unfold veh_term, edge_term, turn_term, turn_fee_opt.
    destruct pe; ring.
Qed.

Lemma sum_charge_spec : forall fs pe e p n, long_enough fs p n ->
  exists c, edge_cost QN (Build_cost_model fs ASum) pe e p n = Ok c
    /\ c == floor_pos (sum_form fs pe e p n).
Proof.
  intros fs pe e p n H. destruct (edge_cost_spec (Build_cost_model fs ASum) pe e p n H) as [c [Hc Ec]].
  exists c. split; [exact Hc|]. rewrite Ec. unfold charge. cbn [cm_agg cm_feats].
  apply floor_pos_compat. apply raw_total_sum_form.
Qed.

(* linear in the weights *)
Lemma rows_reweight_sum : forall (g : feat Q * Q * Q -> Q) (h : feat Q -> Q -> Q -> Q),
  (forall w f a b, g (Build_feat w (fv f) (fn f), a, b) == w * h f a b) ->
  forall ca u cb v fs p n, List.length u = List.length fs -> List.length v = List.length fs ->
  Qsum (map g (rows (reweight (lincomb ca u cb v) fs) p n))
  == ca * Qsum (map g (rows (reweight u fs) p n)) + cb * Qsum (map g (rows (reweight v fs) p n)).
Proof.
  intros g h Hg ca u cb v fs. revert u v.
  induction fs as [|f fs IH]; intros u v p n Hu Hv.
  - destruct u; [|discriminate]. destruct v; [|discriminate]. cbn. ring.
  - destruct u as [|x u]; [discriminate|]. destruct v as [|y v]; [discriminate|].
    cbn [lincomb reweight]. destruct p as [|a p]; [cbn; ring|]. destruct n as [|b n]; [cbn; ring|].
    cbn [rows map Qsum fold_right].
    fold (Qsum (map g (rows (reweight (lincomb ca u cb v) fs) p n))).
    fold (Qsum (map g (rows (reweight u fs) p n))). fold (Qsum (map g (rows (reweight v fs) p n))).
    rewrite IH by (cbn in Hu, Hv; lia). rewrite !Hg. ring.
Qed.

Lemma sum_linear_in_weights : forall ca u cb v fs pe e p n,
  List.length u = List.length fs -> List.length v = List.length fs ->
  raw_total ASum (reweight (lincomb ca u cb v) fs) pe e p n
  == ca * raw_total ASum (reweight u fs) pe e p n + cb * raw_total ASum (reweight v fs) pe e p n.
Proof.
  intros ca u cb v fs pe e p n Hu Hv. unfold raw_total, veh_total, edge_total, turn_total. cbn [agg_spec].
  rewrite (rows_reweight_sum veh_term (fun f a b => rated (fv f) (b - a))) by (auto; intros; cbn; ring).
  rewrite (rows_reweight_sum (edge_term e) (fun f _ _ => edge_fee (fn f) e)) by (auto; intros; cbn; ring).
  destruct pe as [pe|].
  - rewrite (rows_reweight_sum (turn_term pe) (fun f _ _ => turn_fee (fn f) pe)) by (auto; intros; cbn; ring).
    ring.
  - ring.
Qed.

(* zero-weight features are ignored *)
Lemma rows_app : forall {A} (fs1 fs2 : list (feat A)) p1 p2 n1 n2,
  List.length p1 = List.length fs1 -> List.length n1 = List.length fs1 ->
  rows (fs1 ++ fs2) (p1 ++ p2) (n1 ++ n2) = rows fs1 p1 n1 ++ rows fs2 p2 n2.
Proof.
  induction fs1 as [|f fs1 IH]; intros fs2 p1 p2 n1 n2 Hp Hn.
  - destruct p1; [|discriminate]. destruct n1; [|discriminate]. reflexivity.
  - destruct p1 as [|a p1]; [discriminate|]. destruct n1 as [|b n1]; [discriminate|].
    cbn [app rows]. rewrite IH by (cbn in Hp, Hn; lia). reflexivity.
Qed.

Lemma zero_weight_raw : forall fs1 f fs2 p1 x p2 n1 y n2 pe e,
  fw f == 0 -> List.length p1 = List.length fs1 -> List.length n1 = List.length fs1 ->
  raw_total ASum (fs1 ++ f :: fs2) pe e (p1 ++ x :: p2) (n1 ++ y :: n2)
  == raw_total ASum (fs1 ++ fs2) pe e (p1 ++ p2) (n1 ++ n2).
Proof.
  intros fs1 f fs2 p1 x p2 n1 y n2 pe e Hw Hp Hn.
  unfold raw_total, veh_total, edge_total, turn_total. cbn [agg_spec].
  rewrite (rows_app fs1 (f :: fs2) p1 (x :: p2) n1 (y :: n2) Hp Hn).
  rewrite (rows_app fs1 fs2 p1 p2 n1 n2 Hp Hn). cbn [rows].
  rewrite !map_app. cbn [map]. rewrite !Qsum_app. cbn [Qsum fold_right].
  fold (Qsum (map veh_term (rows fs2 p2 n2))). fold (Qsum (map (edge_term e) (rows fs2 p2 n2))).
  unfold veh_term at 2. unfold edge_term at 2.
  destruct pe as [pe|].
  - rewrite !map_app. cbn [map]. rewrite !Qsum_app. cbn [Qsum fold_right].
    fold (Qsum (map (turn_term pe) (rows fs2 p2 n2))). unfold turn_term at 2. rewrite Hw. ring.
  - rewrite Hw. ring.
Qed.

Lemma zero_weight_ignored : forall fs1 f fs2 p1 x p2 n1 y n2 pe e,
  fw f == 0 -> List.length p1 = List.length fs1 -> List.length n1 = List.length fs1 ->
  long_enough fs2 p2 n2 ->
  exists c c',
    edge_cost QN (Build_cost_model (fs1 ++ f :: fs2) ASum) pe e (p1 ++ x :: p2) (n1 ++ y :: n2) = Ok c
    /\ edge_cost QN (Build_cost_model (fs1 ++ fs2) ASum) pe e (p1 ++ p2) (n1 ++ n2) = Ok c'
    /\ c == c'.
Proof.
  intros fs1 f fs2 p1 x p2 n1 y n2 pe e Hw Hp Hn H2.
  assert (L1 : long_enough (fs1 ++ f :: fs2) (p1 ++ x :: p2) (n1 ++ y :: n2)).
  { unfold long_enough in *. change (T QN) with Q in *. rewrite !app_length. cbn [List.length]. lia. }
  assert (L2 : long_enough (fs1 ++ fs2) (p1 ++ p2) (n1 ++ n2)).
  { unfold long_enough in *. change (T QN) with Q in *. rewrite !app_length. lia. }
  destruct (edge_cost_spec (Build_cost_model (fs1 ++ f :: fs2) ASum) pe e _ _ L1) as [c [Hc Ec]].
  destruct (edge_cost_spec (Build_cost_model (fs1 ++ fs2) ASum) pe e _ _ L2) as [c' [Hc' Ec']].
  exists c, c'. split; [exact Hc|]. split; [exact Hc'|]. rewrite Ec, Ec'. unfold charge. cbn [cm_agg cm_feats].
  apply floor_pos_compat. apply zero_weight_raw; assumption.
Qed.

(* linearity stated on the model: the charge for weights ca*u + cb*v is the floored linear combination *)
Lemma reweight_length : forall ws fs, List.length ws = List.length fs -> List.length (reweight ws fs) = List.length fs.
Proof.
  induction ws as [|w ws IH]; intros fs H; destruct fs as [|f fs]; try discriminate; [reflexivity|].
  cbn [reweight List.length] in *. rewrite IH; lia.
Qed.
Lemma lincomb_length : forall ca u cb v, List.length u = List.length v -> List.length (lincomb ca u cb v) = List.length u.
Proof.
  induction u as [|x u IH]; intros cb v H; destruct v as [|y v]; try discriminate; [reflexivity|].
  cbn [lincomb List.length] in *. rewrite IH; lia.
Qed.

Lemma sum_charge_linear : forall ca u cb v fs pe e p n,
  List.length u = List.length fs -> List.length v = List.length fs -> long_enough fs p n ->
  exists c, edge_cost QN (Build_cost_model (reweight (lincomb ca u cb v) fs) ASum) pe e p n = Ok c
    /\ c == floor_pos (ca * sum_form (reweight u fs) pe e p n + cb * sum_form (reweight v fs) pe e p n).
Proof.
  intros ca u cb v fs pe e p n Hu Hv HL.
  assert (L : long_enough (reweight (lincomb ca u cb v) fs) p n).
  { unfold long_enough in *. change (T QN) with Q in *.
    rewrite reweight_length by (rewrite lincomb_length; lia). exact HL. }
  destruct (sum_charge_spec _ pe e p n L) as [c [Hc Ec]]. exists c. split; [exact Hc|].
  rewrite Ec. apply floor_pos_compat. rewrite <- !raw_total_sum_form. apply sum_linear_in_weights; assumption.
Qed.

(* ------------------------------------------------------------------ concrete witnesses (exact rationals) *)

(* three features: a negative weight, a nested Combined rate (factor, offset inside a Combined inside a Combined),
   a per-edge and a per-turn surcharge that both hit, a negative state change *)
Definition ex_fs : list (feat Q) :=
  [ Build_feat 3 (VCombined [VFactor (1#2); VCombined [VOffset 1; VCombined [VFactor 2]]]) (NEdge [(7%Z, 5)]);
    Build_feat (-1) VRaw (NCombined [NEdgeEdge [((6%Z, 7%Z), 4)]; NEdge [(7%Z, 1#4)]]);
    Build_feat 0 (VOffset 1000) (NEdge [(7%Z, 1000)]) ].
Definition ex_p : list Q := [10; 8; 0].
Definition ex_n : list Q := [14; 3; 1].

Lemma ex_long : long_enough ex_fs ex_p ex_n.
Proof. unfold long_enough. cbn. lia. Qed.
(* 3*((14-10)/2+1)*2 = 18, -1*(3-8) = 5, edge 3*5 - 1/4 = 59/4, turn -4:  18 + 5 + 59/4 - 4 = 135/4 *)
Lemma ex_charge : exists c, edge_cost QN (Build_cost_model ex_fs ASum) (Some (6%Z, 7%Z)) 7%Z ex_p ex_n = Ok c
  /\ c == 135 # 4 /\ ~ c == MIN.
Proof.
  eexists. split; [vm_compute; reflexivity|]. split; vm_compute; congruence.
Qed.
Lemma ex_sum_form : sum_form ex_fs (Some (6%Z, 7%Z)) 7%Z ex_p ex_n == 135 # 4.
Proof. vm_compute. reflexivity. Qed.
(* the same configuration when the vehicle regains more than it spends: floored *)
Lemma ex_floor : exists c, edge_cost QN (Build_cost_model ex_fs ASum) None 7%Z [10; 8; 0] [0; 30; 0] = Ok c /\ c == MIN.
Proof. eexists. split; [vm_compute; reflexivity|]. vm_compute. reflexivity. Qed.

(* the floor is a substitute for non-positive totals, NOT a lower bound: a positive total below MIN_COST passes *)
Lemma floor_is_not_a_lower_bound :
  exists cm e p n c, traversal_cost QN cm e p n = Ok c /\ 0 < c /\ c < MIN.
Proof.
  exists (Build_cost_model [Build_feat 1 VRaw NZero] ASum), 0%Z, [0], [1 # 1000000000000].
  eexists. split; [vm_compute; reflexivity|]. split; vm_compute; reflexivity.
Qed.

(* under Mul a zero-weight feature is NOT ignored: it annihilates the vehicle product (contrast to zero_weight_ignored) *)
Lemma mul_zero_weight_not_ignored :
  exists f1 f0 a b x y c c',
    fw f0 == 0
    /\ edge_cost QN (Build_cost_model [f1; f0] AMul) None 0%Z [a; x] [b; y] = Ok c
    /\ edge_cost QN (Build_cost_model [f1] AMul) None 0%Z [a] [b] = Ok c'
    /\ ~ c == c'.
Proof.
  exists (Build_feat 1 VRaw NZero), (Build_feat 0 VRaw NZero), 0, 5, 0, 1. do 2 eexists.
  split; [reflexivity|]. split; [vm_compute; reflexivity|]. split; [vm_compute; reflexivity|].
  vm_compute. congruence.
Qed.

(* ------------------------------------------------------------------ CSV-backed network rates (NetworkCostRateBuilder) *)

Section NbuilderInd.
  Variable A : Type.
  Variable P : nbuilder A -> Prop.
  Hypothesis HT : forall rows, P (BTraversal rows).
  Hypothesis HA : forall rows, P (BAccess rows).
  Hypothesis HC : forall l, Forall P l -> P (BCombined l).
  Fixpoint nbuilder_nested_ind (b : nbuilder A) : P b :=
    match b with
    | BTraversal rows => HT rows
    | BAccess rows => HA rows
    | BCombined l =>
        HC l ((fix F (l : list (nbuilder A)) : Forall P l :=
                 match l with
                 | [] => Forall_nil P
                 | b' :: l' => Forall_cons b' (nbuilder_nested_ind b') (F l')
                 end) l)
    end.
End NbuilderInd.

(* a HashMap collected from the rows holds, for a key, the value of the last row with that key *)
Lemma assoc_rev_last_row : forall {K} (keqb : K -> K -> bool) (rows : list (K * Q)) k,
  assoc keqb (rev rows) k = last_row keqb rows k.
Proof.
  intros K keqb rows k. induction rows as [|x rows IH] using rev_ind; [reflexivity|].
  rewrite rev_app_distr. cbn [rev app]. unfold last_row. rewrite fold_left_app. cbn [fold_left].
  unfold assoc in *. cbn [find]. destruct (keqb (fst x) k); [reflexivity|]. exact IH.
Qed.

(* the rate the builder returns charges, for every edge and every edge pair, the SUM over all configured tables *)
Lemma nbuild_fee : forall (b : nbuilder Q) r, nbuild b = Ok r ->
  (forall e, edge_fee r e == builder_edge_fee b e) /\ (forall pe, turn_fee r pe == builder_turn_fee b pe).
Proof.
  induction b as [rows | rows | l IH] using nbuilder_nested_ind; intros r H.
  - destruct rows as [rows|]; cbn [nbuild] in H; [|discriminate]. injection H as <-.
    split; intros k; cbn [edge_fee turn_fee builder_edge_fee builder_turn_fee]; [|reflexivity].
    unfold table_value. rewrite assoc_rev_last_row. reflexivity.
  - destruct rows as [rows|]; cbn [nbuild] in H; [|discriminate]. injection H as <-.
    split; intros k; cbn [edge_fee turn_fee builder_edge_fee builder_turn_fee]; [reflexivity|].
    unfold table_value. rewrite assoc_rev_last_row. reflexivity.
  - cbn [nbuild] in H.
    set (go := fix go (l : list (nbuilder Q)) : res (list (nrate Q)) :=
                 match l with
                 | [] => Ok []
                 | b' :: l' => do r <- nbuild b'; do rs <- go l'; Ok (r :: rs)
                 end) in H.
    destruct (go l) as [rs| | |] eqn:G; cbn [bind] in H; try discriminate. injection H as <-.
    assert (S : forall rs, go l = Ok rs ->
              (forall e, Qsum (map (fun r' => edge_fee r' e) rs) == Qsum (map (fun b' => builder_edge_fee b' e) l))
              /\ (forall pe, Qsum (map (fun r' => turn_fee r' pe) rs) == Qsum (map (fun b' => builder_turn_fee b' pe) l))).
    { clear G rs. induction IH as [|b' l' Hb' _ IHl]; intros rs G.
      - cbn in G. injection G as <-. split; intros; reflexivity.
      - cbn [go] in G. fold go in G. destruct (nbuild b') as [r'| | |] eqn:B; cbn [bind] in G; try discriminate.
        destruct (go l') as [rs'| | |] eqn:G'; cbn [bind] in G; try discriminate. injection G as <-.
        destruct (Hb' r' eq_refl) as [He Ht]. destruct (IHl rs' eq_refl) as [Se St].
        split; intros k; cbn [map]; rewrite !Qsum_cons; [rewrite He, Se | rewrite Ht, St]; reflexivity. }
    destruct (S rs G) as [Se St]. split; intros k; cbn [edge_fee turn_fee builder_edge_fee builder_turn_fee]; auto.
Qed.

(* ... and so does the cost model that is given that rate *)
Lemma nbuild_charged : forall (b : nbuilder Q) r, nbuild b = Ok r ->
  (forall e, n_traversal QN r e == builder_edge_fee b e) /\ (forall pe, n_access QN r pe == builder_turn_fee b pe).
Proof.
  intros b r H. destruct (nbuild_fee b r H) as [He Ht]. split; intros k.
  - rewrite n_traversal_fee. apply He.
  - rewrite n_access_fee. apply Ht.
Qed.

(* two toll tables and a nested congestion table that all list edge 7; two turn tables that both list (3,7) *)
Definition ex_builder : nbuilder Q :=
  BCombined [ BTraversal (Some [(3%Z, 3); (7%Z, 4)]);
              BCombined [ BTraversal (Some [(7%Z, 3 # 2); (9%Z, 8)]); BAccess (Some [((3%Z, 7%Z), 1)]) ];
              BAccess (Some [((3%Z, 7%Z), 1 # 2); ((7%Z, 9%Z), 2)]) ].
Lemma ex_builder_sums : exists r, nbuild ex_builder = Ok r
  /\ n_traversal QN r 7%Z == 11 # 2 /\ n_access QN r (3%Z, 7%Z) == 3 # 2 /\ n_traversal QN r 5%Z == 0.
Proof. eexists. split; [reflexivity|]. repeat split; vm_compute; reflexivity. Qed.
