(* Lemmas about the frontier models of Model/Frontier.v (property C04, part 1).
   Everything numeric is about the exact-rational instance [QN]; the structural lemmas hold for every [Num]. *)
From Coq Require Import ZArith QArith String List Bool Arith Lia Floats.
From RC Require Import Base.Num Base.Res Base.Json Model.Units Model.Frontier.
Import ListNotations.
Import Units Frontier.
Local Open Scope list_scope.

(* ------------------------------------------------------------------ induction over the nested model type *)
Section Ind.
  Variable N : Num.
  Variable P : fmodel N -> Prop.
  Hypothesis HNo : P NoRestriction.
  Hypothesis HRc : forall lookup allowed, P (RoadClass lookup allowed).
  Hypothesis HVe : forall rows vp, P (Vehicle N rows vp).
  Hypothesis HTu : forall pairs, P (Turn pairs).
  Hypothesis HCut : forall cut under, P under -> P (EdgeCut N cut under).
  Hypothesis HCo : forall inner, Forall P inner -> P (Combined N inner).

  Fixpoint fmodel_rect' (m : fmodel N) : P m :=
    match m with
    | NoRestriction => HNo
    | RoadClass lookup allowed => HRc lookup allowed
    | Vehicle _ rows vp => HVe rows vp
    | Turn pairs => HTu pairs
    | EdgeCut _ cut under => HCut cut under (fmodel_rect' under)
    | Combined _ inner =>
        HCo inner ((fix go (l : list (fmodel N)) : Forall P l :=
                      match l with
                      | [] => Forall_nil P
                      | m' :: r => Forall_cons m' (fmodel_rect' m') (go r)
                      end) inner)
    end.
End Ind.

Section Structural.
  Variable N : Num.
  Notation vf := (valid_frontier N).

  (* the loop of CombinedFrontierModel::valid_frontier, named *)
  Fixpoint all_valid (l : list (fmodel N)) (e : nat) (prev : option nat) : res bool :=
    match l with
    | [] => Ok true
    | m :: r => do ok <- vf m e prev; if ok then all_valid r e prev else Ok false
    end.
  Lemma combined_unfold l e prev : vf (Combined N l) e prev = all_valid l e prev.
  Proof. cbn [valid_frontier]. induction l as [|m r IH]; [reflexivity|]. cbn [all_valid]. rewrite <- IH. reflexivity. Qed.

  (* --- combined models: usable iff every inner model permits --- *)
  Lemma combined_true_iff l e prev :
    vf (Combined N l) e prev = Ok true <-> Forall (fun m => vf m e prev = Ok true) l.
  Proof.
    rewrite combined_unfold. induction l as [|m r IH]; cbn [all_valid].
    - split; [constructor | reflexivity].
    - destruct (vf m e prev) as [[|]| | |] eqn:E; cbn [bind].
      + rewrite IH. split; [intro H; constructor; [exact E | exact H] | intro H; inversion H; assumption].
      + split; [discriminate | intro H; inversion H; congruence].
      + split; [discriminate | intro H; inversion H; congruence].
      + split; [discriminate | intro H; inversion H; congruence].
      + split; [discriminate | intro H; inversion H; congruence].
  Qed.

  (* refused iff some inner model refuses and every model before it permits (early false) *)
  Lemma combined_false_iff l e prev :
    vf (Combined N l) e prev = Ok false <->
    exists l1 m l2, l = l1 ++ m :: l2 /\ Forall (fun m' => vf m' e prev = Ok true) l1 /\ vf m e prev = Ok false.
  Proof.
    rewrite combined_unfold. induction l as [|m r IH]; cbn [all_valid].
    - split; [discriminate | intros (l1 & m & l2 & H & _); destruct l1; discriminate].
    - destruct (vf m e prev) as [[|]| | |] eqn:E; cbn [bind].
      + rewrite IH. split.
        * intros (l1 & m' & l2 & -> & H1 & H2). exists (m :: l1), m', l2. repeat split; [constructor; assumption | assumption].
        * intros (l1 & m' & l2 & H & H1 & H2). destruct l1 as [|x l1]; cbn in H; inversion H; subst.
          -- congruence.
          -- inversion H1; subst. exists l1, m', l2. repeat split; assumption.
      + split; [intros _; exists [], m, r; repeat split; [constructor | assumption] |reflexivity].
      + split; [discriminate|]. intros (l1 & m' & l2 & H & H1 & H2).
        destruct l1 as [|x l1]; cbn in H; inversion H; subst; [congruence | inversion H1; congruence].
      + split; [discriminate|]. intros (l1 & m' & l2 & H & H1 & H2).
        destruct l1 as [|x l1]; cbn in H; inversion H; subst; [congruence | inversion H1; congruence].
      + split; [discriminate|]. intros (l1 & m' & l2 & H & H1 & H2).
        destruct l1 as [|x l1]; cbn in H; inversion H; subst; [congruence | inversion H1; congruence].
  Qed.

  Definition permits (m : fmodel N) (e : nat) (prev : option nat) : bool :=
    match vf m e prev with Ok b => b | _ => false end.

  (* when no inner model fails, the combined answer is the conjunction of the inner answers, for any number
     of inner models *)
  Lemma combined_is_conjunction l e prev :
    Forall (fun m => exists b, vf m e prev = Ok b) l ->
    vf (Combined N l) e prev = Ok (forallb (fun m => permits m e prev) l).
  Proof.
    rewrite combined_unfold. induction 1 as [|m r [b Hb] _ IH]; [reflexivity|].
    cbn [all_valid forallb]. unfold permits at 1. rewrite Hb. cbn [bind]. destruct b; [exact IH | reflexivity].
  Qed.

  (* a failing inner model is reached only if every earlier one permits *)
  Lemma combined_never_more_permissive l e prev m :
    In m l -> vf (Combined N l) e prev = Ok true -> vf m e prev = Ok true.
  Proof. intros Hin H. apply combined_true_iff in H. rewrite Forall_forall in H. exact (H m Hin). Qed.

  (* --- edge cut --- *)
  Lemma edge_cut_spec cut under e prev :
    vf (EdgeCut N cut under) e prev = if existsb (Nat.eqb e) cut then Ok false else vf under e prev.
  Proof. reflexivity. Qed.
  Lemma edge_cut_true cut under e prev :
    vf (EdgeCut N cut under) e prev = Ok true <-> ~ In e cut /\ vf under e prev = Ok true.
  Proof.
    rewrite edge_cut_spec. destruct (existsb (Nat.eqb e) cut) eqn:E.
    - apply existsb_exists in E. destruct E as (x & Hx & Hex). apply Nat.eqb_eq in Hex. subst x.
      split; [discriminate | intros [H _]; contradiction].
    - split; [intro H; split; [|exact H] | intros [_ H]; exact H].
      intro Hin. assert (existsb (Nat.eqb e) cut = true) by (apply existsb_exists; exists e; split; [assumption | apply Nat.eqb_refl]).
      congruence.
  Qed.

  (* --- turn restrictions --- *)
  Lemma pair_in_spec p e pairs : pair_in p e pairs = true <-> In (p, e) pairs.
  Proof.
    unfold pair_in. rewrite existsb_exists. split.
    - intros ([a b] & Hin & H). apply andb_true_iff in H. destruct H as [H1 H2].
      apply Nat.eqb_eq in H1. apply Nat.eqb_eq in H2. cbn in H1, H2. subst. exact Hin.
    - intro Hin. exists (p, e). split; [exact Hin|]. cbn. rewrite !Nat.eqb_refl. reflexivity.
  Qed.
  (* the turn model never fails; it refuses exactly the listed (previous edge, edge) pairs, and the first
     edge of a search (no previous edge) is never refused *)
  Lemma turn_model_spec pairs e prev :
    exists b, vf (Turn pairs) e prev = Ok b /\ (b = false <-> exists p, prev = Some p /\ In (p, e) pairs).
  Proof.
    cbn [valid_frontier]. destruct prev as [p|].
    - destruct (pair_in p e pairs) eqn:E.
      + exists false. split; [reflexivity|]. split; [intros _; exists p; split; [reflexivity | apply pair_in_spec; exact E] | reflexivity].
      + exists true. split; [reflexivity|]. split; [discriminate|]. intros (p' & Hp & Hin). inversion Hp; subst.
        apply pair_in_spec in Hin. congruence.
    - exists true. split; [reflexivity|]. split; [discriminate | intros (p & Hp & _); discriminate].
  Qed.
  Lemma turn_model_first_edge pairs e : vf (Turn pairs) e None = Ok true.
  Proof. reflexivity. Qed.

  (* --- road class --- *)
  Lemma road_class_spec lookup allowed e prev b :
    vf (RoadClass lookup allowed) e prev = Ok b ->
    b = true <-> (allowed = None \/ exists classes c, allowed = Some classes /\ nth_error lookup e = Some c /\ In c classes).
  Proof.
    cbn [valid_frontier]. destruct allowed as [classes|].
    - destruct (nth_error lookup e) as [c|] eqn:E; [|discriminate]. intro H. inversion H; subst b. clear H. split.
      + intro H. right. exists classes, c. repeat split. apply existsb_exists in H. destruct H as (x & Hin & Hx).
        apply Nat.eqb_eq in Hx. subst. exact Hin.
      + intros [H | (cl & c' & H1 & H2 & H3)]; [discriminate|]. inversion H1; subst. inversion H2; subst.
        apply existsb_exists. exists c'. split; [exact H3 | apply Nat.eqb_refl].
    - intro H. inversion H. split; [intros _; left; reflexivity | reflexivity].
  Qed.

  (* --- models that never look at the previous edge (and none looks at the traversal state) --- *)
  Lemma edge_local_ignores_prev m : edge_local N m = true -> forall e p p', vf m e p = vf m e p'.
  Proof.
    induction m as [| | | |cut under IH|inner IH] using fmodel_rect'; intros Hl e p p'; cbn [edge_local] in Hl; try reflexivity.
    - discriminate.
    - rewrite !edge_cut_spec. destruct (existsb (Nat.eqb e) cut); [reflexivity | apply IH; exact Hl].
    - rewrite !combined_unfold. induction inner as [|m r IHr]; [reflexivity|].
      cbn [forallb] in Hl. apply andb_true_iff in Hl. destruct Hl as [Hm Hr]. inversion IH; subst.
      cbn [all_valid]. rewrite (H1 Hm e p p'). rewrite (IHr H2 Hr). reflexivity.
  Qed.
  Lemma as_frontier_ignores_state {St} m e (st st' : St) prev : as_frontier N m e st prev = as_frontier N m e st' prev.
  Proof. reflexivity. Qed.
  (* the decision of an edge-local model, as a predicate of the edge alone *)
  Definition edge_ok (m : fmodel N) (e : nat) : bool := permits m e None.
  Lemma edge_local_decision {St} m : edge_local N m = true ->
    forall e (st : St) prev, as_frontier N m e st prev = Ok true -> edge_ok m e = true.
  Proof.
    intros Hl e st prev H. unfold as_frontier in H. unfold edge_ok, permits.
    rewrite (edge_local_ignores_prev m Hl e None prev), H. reflexivity.
  Qed.
End Structural.

(* ------------------------------------------------------------------ vehicle restrictions, exact arithmetic *)
Local Open Scope Q_scope.

Lemma apply_conv_factor c (x : Q) : apply_conv QN c x == x * conv_factor c.
Proof. destruct c; cbn [apply_conv conv_factor mul div lit QN T]; [ring | reflexivity | reflexivity]. Qed.
Lemma convert_weight_factor u v (x : Q) : convert_weight QN u v x == x * k_weight u v.
Proof. apply apply_conv_factor. Qed.
Lemma convert_distance_factor u v (x : Q) : convert_distance QN u v x == x * k_dist u v.
Proof. apply apply_conv_factor. Qed.

Lemma ord_le_Q (a b : Q) : ord_le QN a b = true <-> a <= b.
Proof.
  unfold ord_le. cbn [leb eqb QN T]. rewrite (proj2 (Qeq_bool_iff b b) (Qeq_refl b)). cbn [negb]. rewrite orb_false_r.
  apply Qle_bool_iff.
Qed.

(* VehicleRestriction::valid, each of the six kinds: the vehicle's quantity converted to the restriction's
   unit (exact factor of the conversion table; per axle: total weight / number of axles) is compared with the
   restriction's limit *)
Theorem vehicle_valid_spec (r : restriction QN) (vp : vparams QN) :
  valid QN r vp = true <->
  match r with
  | MaximumTotalWeight _ lim u => fst (vp_total_weight QN vp) * k_weight (snd (vp_total_weight QN vp)) u <= lim
  | MaximumWeightPerAxle _ lim u =>
      fst (vp_total_weight QN vp) * k_weight (snd (vp_total_weight QN vp)) u / inject_Z (Z.of_nat (vp_axles QN vp)) <= lim
  | MaximumLength _ lim u => fst (vp_total_length QN vp) * k_dist (snd (vp_total_length QN vp)) u <= lim
  | MaximumWidth _ lim u => fst (vp_width QN vp) * k_dist (snd (vp_width QN vp)) u <= lim
  | MaximumHeight _ lim u => fst (vp_height QN vp) * k_dist (snd (vp_height QN vp)) u <= lim
  | MaximumTrailerLength _ lim u => fst (vp_trailer_length QN vp) * k_dist (snd (vp_trailer_length QN vp)) u <= lim
  end.
Proof.
  destruct vp as [[h hu] [w wu] [tl tlu] [trl trlu] [tw twu] ax].
  destruct r as [lim u|lim u|lim u|lim u|lim u|lim u]; cbn [valid vp_total_weight vp_total_length vp_width vp_height vp_trailer_length vp_axles fst snd];
    rewrite ord_le_Q.
  - rewrite convert_weight_factor. reflexivity.
  - cbn [div of_Z QN T]. rewrite convert_weight_factor. reflexivity.
  - rewrite convert_distance_factor. reflexivity.
  - rewrite convert_distance_factor. reflexivity.
  - rewrite convert_distance_factor. reflexivity.
  - rewrite convert_distance_factor. reflexivity.
Qed.

(* the vehicle model admits an edge iff every restriction row of that edge is satisfied *)
Lemma vehicle_model_spec (N : Num) rows vp e prev :
  valid_frontier N (Vehicle N rows vp) e prev = Ok true <->
  forall r, In (e, r) rows -> valid N r vp = true.
Proof.
  cbn [valid_frontier]. unfold restrictions_of. split.
  - intros H r Hin. injection H as H'. rewrite forallb_forall in H'. apply H'.
    apply in_map_iff. exists (e, r). split; [reflexivity|]. apply filter_In. split; [exact Hin | cbn; apply Nat.eqb_refl].
  - intro H. f_equal. apply forallb_forall. intros r Hr. apply in_map_iff in Hr. destruct Hr as ([e' r'] & Heq & Hf).
    cbn in Heq. subst r'. apply filter_In in Hf. destruct Hf as [Hin He]. cbn in He. apply Nat.eqb_eq in He. subst e'.
    apply H. exact Hin.
Qed.
Lemma vehicle_model_total (N : Num) rows vp e prev : exists b, valid_frontier N (Vehicle N rows vp) e prev = Ok b.
Proof. eexists. reflexivity. Qed.

(* ------------------------------------------------------------------ what "accepted" means for the concrete models *)
Section Accepted.
  Variable N : Num.
  Notation vf := (valid_frontier N).

  (* an accepted edge is not cut and is accepted by the wrapped model *)
  Lemma accepted_cut cut under e prev : vf (EdgeCut N cut under) e prev = Ok true -> ~ In e cut /\ vf under e prev = Ok true.
  Proof. apply edge_cut_true. Qed.
  (* an accepted edge is accepted by every inner model *)
  Lemma accepted_combined l e prev m : vf (Combined N l) e prev = Ok true -> In m l -> vf m e prev = Ok true.
  Proof. intros H Hin. exact (combined_never_more_permissive N l e prev m Hin H). Qed.
  (* an accepted edge has an allowed road class (when the query restricts classes at all) *)
  Lemma accepted_road_class lookup classes e prev :
    vf (RoadClass lookup (Some classes)) e prev = Ok true -> exists c, nth_error lookup e = Some c /\ In c classes.
  Proof.
    intro H. destruct (proj1 (road_class_spec N _ _ _ _ _ H) eq_refl) as [H0 | (cl & c & H1 & H2 & H3)]; [discriminate|].
    inversion H1; subst. exists c. split; assumption.
  Qed.
  (* an accepted edge satisfies every restriction row of the table *)
  Lemma accepted_vehicle rows vp e prev r : vf (Vehicle N rows vp) e prev = Ok true -> In (e, r) rows -> valid N r vp = true.
  Proof. intros H Hin. exact (proj1 (vehicle_model_spec N rows vp e prev) H r Hin). Qed.
  (* an accepted edge does not follow its previous edge through a restricted turn, however the turn model is nested *)
  Lemma accepted_turn pairs e p : vf (Turn pairs) e (Some p) = Ok true -> ~ In (p, e) pairs.
  Proof.
    intros H Hin. destruct (turn_model_spec N pairs e (Some p)) as (b & Hb & Hiff). rewrite H in Hb. inversion Hb; subst b.
    assert (true = false) by (apply Hiff; exists p; split; [reflexivity | exact Hin]). discriminate.
  Qed.

  (* [has_turn pairs m]: the turn model over [pairs] sits somewhere inside m under conjunctions / edge cuts *)
  Fixpoint has_turn (pairs : list (nat * nat)) (m : fmodel N) : Prop :=
    match m with
    | Turn ps => ps = pairs
    | EdgeCut _ _ under => has_turn pairs under
    | Combined _ inner => (fix any (l : list (fmodel N)) : Prop := match l with [] => False | m' :: r => has_turn pairs m' \/ any r end) inner
    | _ => False
    end.
  Lemma has_turn_refuses pairs m : has_turn pairs m -> forall e p, vf m e (Some p) = Ok true -> pair_in p e pairs = false.
  Proof.
    induction m as [| | | |cut under IH|inner IH] using fmodel_rect'; cbn [has_turn]; intros Hh e p Hv; try contradiction.
    - subst. destruct (pair_in p e pairs) eqn:E; [|reflexivity]. apply pair_in_spec in E. exfalso. exact (accepted_turn _ _ _ Hv E).
    - apply accepted_cut in Hv. destruct Hv as [_ Hv]. exact (IH Hh e p Hv).
    - apply combined_true_iff in Hv. induction inner as [|m r IHr]; [contradiction|].
      inversion IH; subst. inversion Hv; subst. destruct Hh as [Hh | Hh]; [exact (H1 Hh e p H3) | exact (IHr H2 Hh H4)].
  Qed.
End Accepted.
