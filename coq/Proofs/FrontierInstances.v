(* The non-vacuity instance of Props/C04.v, evaluated. *)
From Coq Require Import List Arith Bool String ZArith QArith.
From RC Require Import Base.Num Base.Res Model.Units Model.Frontier Model.Search Model.FrontierReopen Proofs.Frontier.
Import ListNotations.
Import Frontier FrontierReopen.
Local Open Scope nat_scope.

Lemma nonvacuous_ok :
  NonVacuous.route_edges = Ok [[1; 3; 5]]
  /\ NonVacuous.reopens = false
  /\ edge_local QN NonVacuous.local_part = true
  /\ has_turn QN NonVacuous.turn_pairs NonVacuous.model
  /\ map (edge_ok QN NonVacuous.local_part) [0; 1; 2; 3; 4; 5] = [false; true; false; true; false; true].
Proof.
  split; [vm_compute; reflexivity|]. split; [vm_compute; reflexivity|]. split; [reflexivity|].
  split; [cbn; left; reflexivity|]. vm_compute; reflexivity.
Qed.
