(* Property C04, search level: what the frontier model refuses never reaches a tree or a route.
   Proved over Model/Search.v for every graph, every frontier / traverse / estimate / terminate function, every
   cost type and comparison (NO hypothesis on costs is needed), both directions, every fuel. *)
From Coq Require Import List Arith Bool String Lia.
From stdpp Require Import gmap.
From RC Require Import Base.Res Model.Search Model.FrontierReopen.
Import ListNotations.
Import Search FrontierReopen.

(* ------------------------------------------------------------------ graph: incident edges *)
Lemma edges_where_spec f l : forall i n, In n (edges_where f l i) ->
  i <= n /\ exists e, nth_error l (n - i) = Some e /\ f e = true.
Proof.
  induction l as [|e r IH]; intros i n Hin; cbn [edges_where] in Hin; [contradiction|].
  destruct (f e) eqn:Hf.
  - destruct Hin as [<- | Hin].
    + split; [lia|]. exists e. rewrite Nat.sub_diag. split; [reflexivity | exact Hf].
    + destruct (IH (S i) n Hin) as (Hle & e' & Hn & Hf'). split; [lia|]. exists e'. split; [|exact Hf'].
      replace (n - i) with (S (n - S i)) by lia. exact Hn.
  - destruct (IH (S i) n Hin) as (Hle & e' & Hn & Hf'). split; [lia|]. exists e'. split; [|exact Hf'].
    replace (n - i) with (S (n - S i)) by lia. exact Hn.
Qed.
Lemma incident_term d g v eid e : In eid (incident d g v) -> get_edge g eid = Some e -> term_vertex d e = v.
Proof.
  intros Hin Hg. unfold get_edge in Hg. destruct d; cbn [incident] in Hin; unfold out_edges, in_edges in Hin;
    apply edges_where_spec in Hin; destruct Hin as (_ & e' & Hn & Hf); rewrite Nat.sub_0_r in Hn;
    rewrite Hg in Hn; inversion Hn; subst e'; apply Nat.eqb_eq in Hf; exact Hf.
Qed.

Section FS.
  Context {C St : Type}.
  Variable clt : C -> C -> bool.
  Variable cadd : C -> C -> C.
  Variable czero : C.
  Variable cfloor : C -> C.
  Variable g : graph.
  Variable frontier : nat -> St -> option nat -> res bool.
  Variable traverse : dir -> nat -> option nat -> St -> res (C * C * St).
  Variable estimate : nat -> nat -> St -> res C.
  Variable init_state : res St.
  Variable terminate : nat -> nat -> option string.

  Notation sstate := (sstate C St).
  Notation branch := (branch C St).
  Notation etrav := (etrav C St).
  Notation sresult := (sresult C St).
  Notation relax := (relax clt cadd czero cfloor g frontier traverse estimate).
  Notation relax_all := (relax_all clt cadd czero cfloor g frontier traverse estimate).
  Notation step := (step clt cadd czero cfloor g frontier traverse estimate terminate).
  Notation run_loop := (run_loop clt cadd czero cfloor g frontier traverse estimate terminate).
  Notation run_a_star := (run_a_star clt cadd czero cfloor g frontier traverse estimate init_state terminate).
  Notation run_vertex_oriented := (run_vertex_oriented clt cadd czero cfloor g frontier traverse estimate init_state terminate).
  Notation run_edge_oriented := (run_edge_oriented czero g traverse init_state).
  Notation init_sstate source h0 := (mkS [(source, h0)] {[source := czero]} (∅ : gmap nat branch) 0).
  Notation edge_of b := (et_edge (b_et b)).

  (* ---------------------------------------------------------------- one relaxation *)
  (* the tree is either untouched, or the candidate edge was accepted by the frontier model WITH THE STATE AND
     PREVIOUS EDGE CURRENT AT THAT MOMENT and its branch is written at the edge's key vertex *)
  Lemma relax_cases d target cur last s eid s' :
    relax d target cur last s eid = Ok s' ->
    s_tree s' = s_tree s \/
    exists e ac tc st', get_edge g eid = Some e /\ frontier eid cur last = Ok true /\
      traverse d eid last cur = Ok (ac, tc, st') /\
      s_tree s' = <[key_vertex d e := mkBranch (term_vertex d e) (mkEt eid ac tc st')]> (s_tree s).
  Proof.
    unfold Search.relax. destruct (get_edge g eid) as [e|]; [|discriminate].
    destruct (frontier eid cur last) as [[|]| | |] eqn:Hf; cbn [bind negb]; try discriminate.
    2: { intros H; inversion H; left; reflexivity. }
    destruct (traverse d eid last cur) as [[[ac tc] st']| | |] eqn:Ht; cbn [bind]; try discriminate.
    destruct (s_g s !! term_vertex d e) as [gcur|]; [|intros H; inversion H; left; reflexivity].
    match goal with |- context [if ?b then _ else _] => destruct b end.
    2: { intros H; inversion H; left; reflexivity. }
    match goal with |- context [bind ?x _] => destruct x as [h| | |] end; cbn [bind]; try discriminate.
    intros H; inversion H; subst s'; cbn [s_tree]. right. exists e, ac, tc, st'. repeat split; reflexivity.
  Qed.

  Lemma relax_insertion_admitted d target cur last s eid s' :
    relax d target cur last s eid = Ok s' ->
    forall v b, s_tree s' !! v = Some b ->
      s_tree s !! v = Some b \/ (edge_of b = eid /\ frontier eid cur last = Ok true).
  Proof.
    intros H v b Hv. destruct (relax_cases _ _ _ _ _ _ _ H) as [Heq | (e & ac & tc & st' & _ & Hf & _ & Heq)];
      rewrite Heq in Hv; [left; exact Hv|].
    destruct (decide (v = key_vertex d e)) as [->|Hne].
    - rewrite lookup_insert in Hv. inversion Hv; subst b. right. split; [reflexivity | exact Hf].
    - rewrite lookup_insert_ne in Hv by congruence. left. exact Hv.
  Qed.

  (* ---------------------------------------------------------------- steps keep any property of accepted edges *)
  Section AcceptedEdges.
    Variable P : nat -> Prop.
    Hypothesis HP : forall e st prev, frontier e st prev = Ok true -> P e.

    Definition TreeAll (tr : gmap nat branch) : Prop := forall v b, tr !! v = Some b -> P (edge_of b).

    Lemma relax_all_tree d target cur last es : forall s s',
      relax_all d target cur last s es = Ok s' -> TreeAll (s_tree s) -> TreeAll (s_tree s').
    Proof.
      induction es as [|eid r IH]; intros s s' H HT; cbn [Search.relax_all] in H.
      - inversion H; subst; exact HT.
      - destruct (relax d target cur last s eid) as [s1| | |] eqn:E; cbn [bind] in H; try discriminate.
        apply (IH s1 s' H). intros v b Hv.
        destruct (relax_insertion_admitted _ _ _ _ _ _ _ E v b Hv) as [Hold | [<- Hf]]; [exact (HT v b Hold) | exact (HP _ _ _ Hf)].
    Qed.

    Lemma step_tree d source target init s r :
      step d source target init s = Ok r -> TreeAll (s_tree s) ->
      TreeAll (s_tree (match r with inl s' => s' | inr s' => s' end)).
    Proof.
      unfold Search.step. destruct (terminate _ _); [discriminate|].
      destruct (pq_pop clt (s_pq s)) as [[[v c] q']|].
      2: { destruct target; [discriminate|]. intros H HT; inversion H; subst; exact HT. }
      destruct (match target with Some t => v =? t | None => false end).
      { intros H HT; inversion H; subst; exact HT. }
      match goal with |- context [bind ?x _] => destruct x as [[last cur]| | |] end; cbn [bind]; try discriminate.
      destruct (relax_all d target cur last _ _) as [s2| | |] eqn:E; cbn [bind]; try discriminate.
      intros H HT; inversion H; subst; cbn [s_tree]. exact (relax_all_tree _ _ _ _ _ _ _ E HT).
    Qed.

    Lemma run_loop_tree fuel d source target init : forall s s',
      run_loop fuel d source target init s = Ok s' -> TreeAll (s_tree s) -> TreeAll (s_tree s').
    Proof.
      induction fuel as [|f IH]; intros s s' H HT; cbn [Search.run_loop] in H; [discriminate|].
      destruct (step d source target init s) as [[s1|s1]| | |] eqn:E; cbn [bind] in H; try discriminate.
      - exact (IH s1 s' H (step_tree _ _ _ _ _ _ E HT)).
      - inversion H; subst. exact (step_tree _ _ _ _ _ _ E HT).
    Qed.

    Lemma run_a_star_tree fuel d source target tr it :
      run_a_star fuel d source target = Ok (tr, it) -> TreeAll tr.
    Proof.
      unfold Search.run_a_star. destruct (negb (source <? nverts g)); [discriminate|].
      destruct (match target with Some t => t =? source | None => false end).
      { intros H; inversion H; subst. intros v b Hv. rewrite lookup_empty in Hv. discriminate. }
      destruct init_state as [init| | |]; cbn [bind]; try discriminate.
      match goal with |- context [bind ?x _] => destruct x as [h0| | |] end; cbn [bind]; try discriminate.
      destruct (run_loop fuel d source target init _) as [s| | |] eqn:E; cbn [bind]; try discriminate.
      intros H; inversion H; subst. apply (run_loop_tree _ _ _ _ _ _ _ E). cbn [s_tree].
      intros v b Hv. rewrite lookup_empty in Hv. discriminate.
    Qed.

    (* backtracking returns entries of the tree *)
    Lemma backtrack_in_tree (tr : gmap nat branch) source fuel : forall this visited (acc r : list etrav),
      backtrack_loop fuel source tr this visited acc = Ok r ->
      forall et, In et r -> In et acc \/ exists v b, tr !! v = Some b /\ et = b_et b.
    Proof.
      induction fuel as [|f IH]; intros this visited acc r H et Hin; cbn [backtrack_loop] in H.
      - destruct (this =? source); [inversion H; subst; left; exact Hin | discriminate].
      - destruct (this =? source); [inversion H; subst; left; exact Hin|].
        destruct (tr !! this) as [b|] eqn:Hb; [|discriminate].
        destruct (existsb _ visited); [discriminate|].
        destruct (IH _ _ _ _ H et Hin) as [[<- | Hacc] | Hex]; [right; exists this, b; split; [exact Hb | reflexivity] | left; exact Hacc | right; exact Hex].
    Qed.

    Definition RouteAll (rt : list etrav) : Prop := forall et, In et rt -> P (et_edge et).
    Definition ResultAll (r : sresult) : Prop :=
      (forall tr, In tr (r_trees r) -> TreeAll tr) /\ (forall rt, In rt (r_routes r) -> RouteAll rt).

    Lemma run_vertex_oriented_all fuel d source target r :
      run_vertex_oriented fuel d source target = Ok r -> ResultAll r.
    Proof.
      unfold Search.run_vertex_oriented. destruct (run_a_star fuel d source target) as [[tr it]| | |] eqn:E; cbn [bind]; try discriminate.
      pose proof (run_a_star_tree _ _ _ _ _ _ E) as HT.
      destruct target as [t|].
      - destruct (vertex_oriented_route source t tr) as [route| | |] eqn:Er; cbn [bind]; try discriminate.
        intros H; inversion H; subst; cbn [r_trees r_routes]. split.
        + intros tr' [<- | []]. exact HT.
        + intros rt [<- | []] et Hin. unfold vertex_oriented_route in Er.
          destruct (backtrack_in_tree _ _ _ _ _ _ _ Er et Hin) as [[] | (v & b & Hv & ->)]. exact (HT v b Hv).
      - intros H; inversion H; subst; cbn [r_trees r_routes]. split; [intros tr' [<- | []]; exact HT | intros rt []].
    Qed.

    (* the edge-oriented wrapper adds the query's own origin / destination edges, which it never shows to the
       frontier model: every other edge of every route and tree was accepted *)
    Definition PorQuery (source : nat) (target : option nat) (e : nat) : Prop := P e \/ e = source \/ target = Some e.

    Lemma run_edge_oriented_all d (alg : nat -> option nat -> res sresult) source target r :
      (forall s t r', alg s t = Ok r' -> ResultAll r') ->
      run_edge_oriented d alg source target = Ok r ->
      (forall tr, In tr (r_trees r) -> forall v b, tr !! v = Some b -> PorQuery source target (edge_of b)) /\
      (forall rt, In rt (r_routes r) -> forall et, In et rt -> PorQuery source target (et_edge et)).
    Proof.
      intros Halg. unfold Search.run_edge_oriented.
      destruct (get_edge g source) as [e1|]; [|discriminate].
      destruct init_state as [init| | |] eqn:Hinit; cbn [bind]; try discriminate.
      destruct target as [te|].
      - destruct (get_edge g te) as [e2|]; [|discriminate].
        destruct (source =? te). { intros H; inversion H; subst; cbn. split; intros ? []. }
        destruct (key_vertex d e1 =? term_vertex d e2).
        + destruct (traverse d source None init) as [[[ac1 tc1] s1]| | |]; cbn [bind]; try discriminate.
          destruct (traverse d te (Some source) s1) as [[[ac2 tc2] s2]| | |]; cbn [bind]; try discriminate.
          intros H; inversion H; subst; cbn [r_trees r_routes]. split.
          * intros tr [<- | []] v b Hv.
            destruct (negb (key_vertex d e2 =? term_vertex d e1) && negb (key_vertex d e2 =? key_vertex d e1)).
            -- destruct (decide (v = key_vertex d e2)) as [->|Hne].
               ++ rewrite lookup_insert in Hv. inversion Hv; subst. right; right; reflexivity.
               ++ rewrite lookup_insert_ne in Hv by congruence.
                  destruct (key_vertex d e1 =? term_vertex d e1); [rewrite lookup_empty in Hv; discriminate|].
                  apply lookup_singleton_Some in Hv. destruct Hv as [_ <-]. right; left; reflexivity.
            -- destruct (key_vertex d e1 =? term_vertex d e1); [rewrite lookup_empty in Hv; discriminate|].
               apply lookup_singleton_Some in Hv. destruct Hv as [_ <-]. right; left; reflexivity.
          * intros rt [<- | []] et [<- | [<- | []]]; [right; left; reflexivity | right; right; reflexivity].
        + destruct (alg (key_vertex d e1) (Some (term_vertex d e2))) as [r0| | |] eqn:Ea; cbn [bind]; try discriminate.
          destruct (Halg _ _ _ Ea) as [HT HR].
          destruct (length (r_trees r0) =? 0); [discriminate|].
          match goal with |- context [bind ?x _] => destruct x as [routes| | |] eqn:Eg end; cbn [bind]; try discriminate.
          intros H; inversion H; subst; clear H; cbn [r_trees r_routes]. split.
          * intros tr Htr v b Hv. left. exact (HT tr Htr v b Hv).
          * revert routes Eg HR. generalize (r_routes r0) as rs.
            induction rs as [|rt rest IH]; intros routes Eg HR.
            -- inversion Eg; subst. intros ? [].
            -- destruct (last rt) as [fin|]; [|discriminate].
               match type of Eg with context [bind ?x _] => destruct x as [rest'| | |] eqn:Er end; cbn [bind] in Eg; try discriminate.
               inversion Eg; subst. intros rt' [<- | Hin].
               ++ intros et [<- | Hin]; [right; left; reflexivity|]. apply in_app_or in Hin. destruct Hin as [Hin | [<- | []]].
                  ** left. exact (HR rt (or_introl eq_refl) et Hin).
                  ** right; right; reflexivity.
               ++ exact (IH rest' eq_refl (fun rt0 H0 => HR rt0 (or_intror H0)) rt' Hin).
      - destruct (alg (key_vertex d e1) None) as [r0| | |] eqn:Ea; cbn [bind]; try discriminate.
        destruct (Halg _ _ _ Ea) as [HT HR].
        intros H; inversion H; subst; cbn [r_trees r_routes]. split.
        + intros tr Htr v b Hv. apply in_map_iff in Htr. destruct Htr as (tr0 & <- & Htr0).
          destruct (term_vertex d e1 =? key_vertex d e1); [left; exact (HT tr0 Htr0 v b Hv)|].
          destruct (tr0 !! key_vertex d e1) eqn:E1; [left; exact (HT tr0 Htr0 v b Hv)|].
          destruct (tr0 !! term_vertex d e1) eqn:E2; [left; exact (HT tr0 Htr0 v b Hv)|].
          destruct (decide (v = key_vertex d e1)) as [->|Hne].
          * rewrite lookup_insert in Hv. inversion Hv; subst. right; left; reflexivity.
          * rewrite lookup_insert_ne in Hv by congruence. left; exact (HT tr0 Htr0 v b Hv).
        + intros rt Hrt et Hin. apply in_map_iff in Hrt. destruct Hrt as (rt0 & <- & Hrt0).
          destruct Hin as [<- | Hin]; [right; left; reflexivity | left; exact (HR rt0 Hrt0 et Hin)].
    Qed.
    Lemma PorQuery_outside_K source target e : PorQuery source target e -> K_query_edge source target e = false -> P e.
    Proof.
      unfold K_query_edge. intros [H | [-> | ->]] HK; [exact H | |].
      - rewrite Nat.eqb_refl in HK. discriminate.
      - rewrite Nat.eqb_refl, orb_true_r in HK. discriminate.
    Qed.
    Lemma run_edge_oriented_outside_K d (alg : nat -> option nat -> res sresult) source target r :
      (forall s t r', alg s t = Ok r' -> ResultAll r') ->
      run_edge_oriented d alg source target = Ok r ->
      (forall tr, In tr (r_trees r) -> forall v b, tr !! v = Some b -> K_query_edge source target (edge_of b) = false -> P (edge_of b)) /\
      (forall rt, In rt (r_routes r) -> forall et, In et rt -> K_query_edge source target (et_edge et) = false -> P (et_edge et)).
    Proof.
      intros Halg H. destruct (run_edge_oriented_all d alg source target r Halg H) as [HT HR]. split.
      - intros tr Htr v b Hv. exact (PorQuery_outside_K _ _ _ (HT tr Htr v b Hv)).
      - intros rt Hrt et Hin. exact (PorQuery_outside_K _ _ _ (HR rt Hrt et Hin)).
    Qed.
  End AcceptedEdges.

  (* ---------------------------------------------------------------- restricted turns under no_reopen *)
  Section Turns.
    Variable restricted : nat -> nat -> bool.
    (* the frontier model refuses restricted (previous edge, edge) pairs *)
    Hypothesis Hturn : forall e st p, frontier e st (Some p) = Ok true -> restricted p e = false.

    Notation ledge := (@ledge C St).
    Notation same_ledges := (@same_ledges C St).
    Notation relax_all_frozen := (relax_all_frozen clt cadd czero cfloor g frontier traverse estimate).
    Notation step_ctx := (step_ctx clt terminate).
    Notation no_reopen_loop := (no_reopen_loop clt cadd czero cfloor g frontier traverse estimate terminate).
    Notation no_reopen := (no_reopen clt cadd czero cfloor g frontier traverse estimate init_state terminate).

    Definition TurnOK (source : nat) (tr : gmap nat branch) : Prop :=
      forall v b b', tr !! v = Some b -> b_term b <> source -> tr !! (b_term b) = Some b' ->
        restricted (edge_of b') (edge_of b) = false.
    Definition ParentsIn (frozen : list nat) (tr : gmap nat branch) : Prop :=
      forall v b, tr !! v = Some b -> In (b_term b) frozen.
    Definition last_of (source : nat) (tr : gmap nat branch) (v : nat) : option nat :=
      if v =? source then None else ledge tr v.

    Lemma opt_nat_eqb_eq a b : opt_nat_eqb a b = true -> a = b.
    Proof. destruct a, b; cbn; try discriminate; [intro H; apply Nat.eqb_eq in H; congruence | reflexivity]. Qed.
    Lemma same_ledges_in frozen t t' u : same_ledges frozen t t' = true -> In u frozen -> ledge t u = ledge t' u.
    Proof. unfold FrontierReopen.same_ledges. rewrite forallb_forall. intros H Hin. apply opt_nat_eqb_eq, H, Hin. Qed.

    Lemma relax_turn d source target cur last s eid s' frozen v0 :
      relax d target cur last s eid = Ok s' ->
      In eid (incident d g v0) -> In v0 frozen ->
      last = last_of source (s_tree s) v0 ->
      (v0 = source \/ is_Some (s_tree s !! v0)) ->
      same_ledges frozen (s_tree s) (s_tree s') = true ->
      TurnOK source (s_tree s) -> ParentsIn frozen (s_tree s) ->
      TurnOK source (s_tree s') /\ ParentsIn frozen (s_tree s') /\
      last = last_of source (s_tree s') v0 /\ (v0 = source \/ is_Some (s_tree s' !! v0)).
    Proof.
      intros Hr Hinc Hv0 Hlast Hsome Hsame HT HP.
      assert (Hlast' : last = last_of source (s_tree s') v0).
      { rewrite Hlast. unfold last_of. destruct (v0 =? source); [reflexivity|]. exact (same_ledges_in _ _ _ _ Hsame Hv0). }
      destruct (relax_cases _ _ _ _ _ _ _ Hr) as [Heq | (e & ac & tc & st' & Hg & Hf & _ & Heq)].
      { rewrite Heq in *. repeat split; assumption. }
      pose proof (incident_term _ _ _ _ _ Hinc Hg) as Htv. rewrite Htv in Heq.
      set (kv := key_vertex d e) in *.
      split; [|split; [|split]].
      - intros v b b' Hv Hns Hb'. rewrite Heq in Hv, Hb'.
        destruct (decide (v = kv)) as [->|Hne].
        + rewrite lookup_insert in Hv. inversion Hv; subst b. cbn [b_term b_et et_edge] in *.
          (* the new branch: its parent is the vertex being expanded, whose entry is the [last] the frontier saw *)
          assert (Hl : last = Some (edge_of b')).
          { rewrite Hlast'. unfold last_of. destruct (v0 =? source) eqn:E0; [apply Nat.eqb_eq in E0; contradiction|].
            unfold FrontierReopen.ledge. rewrite Heq, Hb'. reflexivity. }
          rewrite Hl in Hf. exact (Hturn _ _ _ Hf).
        + rewrite lookup_insert_ne in Hv by congruence.
          destruct (decide (b_term b = kv)) as [Hk|Hnk].
          * (* the parent's entry was rewritten: it is frozen, so its edge is the same as before *)
            rewrite Hk, lookup_insert in Hb'. inversion Hb'; subst b'. cbn [b_et et_edge].
            assert (Hin : In kv frozen) by (rewrite <- Hk; exact (HP v b Hv)).
            pose proof (same_ledges_in _ _ _ kv Hsame Hin) as Hsl. unfold FrontierReopen.ledge in Hsl. rewrite Heq, lookup_insert in Hsl.
            destruct (s_tree s !! kv) as [bold|] eqn:Hold; [|discriminate]. inversion Hsl as [Hedge].
            rewrite <- Hk in Hold. exact (HT v b bold Hv Hns Hold).
          * rewrite lookup_insert_ne in Hb' by congruence. exact (HT v b b' Hv Hns Hb').
      - intros v b Hv. rewrite Heq in Hv. destruct (decide (v = kv)) as [->|Hne].
        + rewrite lookup_insert in Hv. inversion Hv; subst b. exact Hv0.
        + rewrite lookup_insert_ne in Hv by congruence. exact (HP v b Hv).
      - exact Hlast'.
      - destruct Hsome as [? | Hs]; [left; assumption | right]. rewrite Heq.
        destruct (decide (v0 = kv)) as [->|Hne]; [rewrite lookup_insert; eauto | rewrite lookup_insert_ne by congruence; exact Hs].
    Qed.

    Lemma relax_all_turn d source target cur last frozen v0 es : forall s s',
      relax_all d target cur last s es = Ok s' ->
      incl es (incident d g v0) -> In v0 frozen ->
      last = last_of source (s_tree s) v0 ->
      (v0 = source \/ is_Some (s_tree s !! v0)) ->
      relax_all_frozen frozen d target cur last s es = true ->
      TurnOK source (s_tree s) -> ParentsIn frozen (s_tree s) ->
      TurnOK source (s_tree s') /\ ParentsIn frozen (s_tree s').
    Proof.
      induction es as [|eid r IH]; intros s s' H Hinc Hv0 Hlast Hsome Hfz HT HP; cbn [Search.relax_all] in H.
      - inversion H; subst. split; assumption.
      - cbn [FrontierReopen.relax_all_frozen] in Hfz.
        destruct (relax d target cur last s eid) as [s1| | |] eqn:E; cbn [bind] in H; try discriminate.
        apply andb_true_iff in Hfz. destruct Hfz as [Hsame Hfz].
        destruct (relax_turn _ source _ _ _ _ _ _ frozen v0 E (Hinc eid (or_introl eq_refl)) Hv0 Hlast Hsome Hsame HT HP)
          as (HT1 & HP1 & Hl1 & Hs1).
        exact (IH s1 s' H (fun x Hx => Hinc x (or_intror Hx)) Hv0 Hl1 Hs1 Hfz HT1 HP1).
    Qed.

    (* [step] and [step_ctx] agree *)
    Lemma step_inl_ctx d source target init s s' :
      step d source target init s = Ok (inl s') ->
      exists v last cur s1 s2,
        step_ctx d source target init s = Some (v, last, cur, s1) /\ s_tree s1 = s_tree s /\
        relax_all d target cur last s1 (incident d g v) = Ok s2 /\ s_tree s' = s_tree s2 /\
        last = last_of source (s_tree s) v /\ (v = source \/ is_Some (s_tree s !! v)).
    Proof.
      unfold Search.step, FrontierReopen.step_ctx. destruct (terminate _ _); [discriminate|].
      destruct (pq_pop clt (s_pq s)) as [[[v c] q']|]; [|destruct target; discriminate].
      destruct (match target with Some t => v =? t | None => false end); [discriminate|].
      unfold last_of, FrontierReopen.ledge. destruct (v =? source) eqn:Ev; cbn [bind].
      - destruct (relax_all d target init None _ _) as [s2| | |] eqn:E; cbn [bind]; try discriminate.
        intros H; inversion H; subst; cbn [s_tree]. pose proof Ev as Ev'. apply Nat.eqb_eq in Ev'.
        eexists v, None, init, _, s2. split; [reflexivity|]. split; [reflexivity|]. split; [exact E|].
        split; [reflexivity|]. split; [rewrite Ev; reflexivity | left; exact Ev'].
      - destruct (s_tree s !! v) as [b|] eqn:Hb; cbn [bind]; try discriminate.
        destruct (relax_all d target _ _ _ _) as [s2| | |] eqn:E; cbn [bind]; try discriminate.
        intros H; inversion H; subst; cbn [s_tree].
        eexists v, _, _, _, s2. split; [reflexivity|]. split; [reflexivity|]. split; [exact E|].
        split; [reflexivity|]. split; [rewrite Ev, Hb; reflexivity | right; rewrite Hb; eauto].
    Qed.
    Lemma step_inr_tree d source target init s s' : step d source target init s = Ok (inr s') -> s_tree s' = s_tree s.
    Proof.
      unfold Search.step. destruct (terminate _ _); [discriminate|].
      destruct (pq_pop clt (s_pq s)) as [[[v c] q']|].
      2: { destruct target; [discriminate|]. intros H; inversion H; reflexivity. }
      destruct (match target with Some t => v =? t | None => false end). { intros H; inversion H; reflexivity. }
      match goal with |- context [bind ?x _] => destruct x as [[last cur]| | |] end; cbn [bind]; try discriminate.
      destruct (relax_all d target cur last _ _) as [s2| | |]; cbn [bind]; discriminate.
    Qed.

    Lemma ParentsIn_mono a frozen tr : ParentsIn frozen tr -> ParentsIn (a :: frozen) tr.
    Proof. intros H v b Hv. right. exact (H v b Hv). Qed.

    Lemma run_loop_turn fuel d source target init : forall expanded s s',
      run_loop fuel d source target init s = Ok s' ->
      no_reopen_loop fuel d source target init expanded s = true ->
      TurnOK source (s_tree s) -> ParentsIn expanded (s_tree s) ->
      TurnOK source (s_tree s').
    Proof.
      induction fuel as [|f IH]; intros expanded s s' H Hnr HT HP; cbn [Search.run_loop] in H; [discriminate|].
      cbn [FrontierReopen.no_reopen_loop] in Hnr.
      destruct (step d source target init s) as [[s1|s1]| | |] eqn:E; cbn [bind] in H; try discriminate.
      - destruct (step_inl_ctx _ _ _ _ _ _ E) as (v & last & cur & s0 & s2 & Hctx & Ht0 & Hra & Ht2 & Hlast & Hsome).
        rewrite Hctx in Hnr. apply andb_true_iff in Hnr. destruct Hnr as [Hfz Hnr].
        rewrite <- Ht0 in HT, HP, Hlast, Hsome.
        destruct (relax_all_turn d source target cur last (v :: expanded) v _ s0 s2 Hra (fun x Hx => Hx) (or_introl eq_refl)
                    Hlast Hsome Hfz HT (ParentsIn_mono _ _ _ HP)) as [HT2 HP2].
        rewrite <- Ht2 in HT2, HP2. exact (IH (v :: expanded) s1 s' H Hnr HT2 HP2).
      - inversion H; subst. rewrite (step_inr_tree _ _ _ _ _ _ E). exact HT.
    Qed.

    Lemma TurnOK_empty source : TurnOK source ∅.
    Proof. intros v b b' Hv. rewrite lookup_empty in Hv. discriminate. Qed.

    Lemma run_a_star_turn fuel d source target tr it :
      run_a_star fuel d source target = Ok (tr, it) -> no_reopen fuel d source target = true -> TurnOK source tr.
    Proof.
      unfold Search.run_a_star, FrontierReopen.no_reopen. destruct (negb (source <? nverts g)); [discriminate|].
      destruct (match target with Some t => t =? source | None => false end).
      { intros H _; inversion H; subst. apply TurnOK_empty. }
      destruct init_state as [init| | |]; cbn [bind]; try discriminate.
      match goal with |- context [bind ?x _] => destruct x as [h0| | |] end; cbn [bind]; try discriminate.
      destruct (run_loop fuel d source target init _) as [s| | |] eqn:E; cbn [bind]; try discriminate.
      intros H Hnr; inversion H; subst.
      apply (run_loop_turn _ _ _ _ _ [] _ _ E Hnr); cbn [s_tree]; [apply TurnOK_empty|].
      intros v b Hv. rewrite lookup_empty in Hv. discriminate.
    Qed.

    (* consecutive edges of a route, in the order the search traversed them *)
    Fixpoint pairs_ok (l : list nat) : Prop :=
      match l with
      | a :: ((b :: _) as r) => restricted a b = false /\ pairs_ok r
      | _ => True
      end.

    Lemma backtrack_pairs (tr : gmap nat branch) source fuel : TurnOK source tr ->
      forall this visited (acc r : list etrav),
      backtrack_loop fuel source tr this visited acc = Ok r ->
      pairs_ok (map (@et_edge C St) acc) ->
      (match acc with [] => True | et :: _ => exists v b, tr !! v = Some b /\ et = b_et b /\ b_term b = this end) ->
      pairs_ok (map (@et_edge C St) r).
    Proof.
      intros HT. induction fuel as [|f IH]; intros this visited acc r H Hacc Hhd; cbn [backtrack_loop] in H.
      - destruct (this =? source); [inversion H; subst; exact Hacc | discriminate].
      - destruct (this =? source) eqn:Es; [inversion H; subst; exact Hacc|].
        destruct (tr !! this) as [b|] eqn:Hb; [|discriminate].
        destruct (existsb _ visited); [discriminate|].
        apply (IH _ _ _ _ H).
        + destruct acc as [|et rest]; [exact I|]. cbn [map]. split; [|exact Hacc].
          destruct Hhd as (v & bv & Hv & -> & Hterm). cbn [pairs_ok map] in *.
          apply Nat.eqb_neq in Es. rewrite <- Hterm in Hb, Es. exact (HT v bv b Hv Es Hb).
        + exists this, b. repeat split. exact Hb.
    Qed.

    Theorem run_vertex_oriented_turn fuel d source target r :
      run_vertex_oriented fuel d source target = Ok r -> no_reopen fuel d source target = true ->
      forall rt, In rt (r_routes r) -> pairs_ok (map (@et_edge C St) rt).
    Proof.
      unfold Search.run_vertex_oriented. destruct (run_a_star fuel d source target) as [[tr it]| | |] eqn:E; cbn [bind]; try discriminate.
      intros H Hnr. pose proof (run_a_star_turn _ _ _ _ _ _ E Hnr) as HT.
      destruct target as [t|].
      - destruct (vertex_oriented_route source t tr) as [route| | |] eqn:Er; cbn [bind] in H; try discriminate.
        inversion H; subst; cbn [r_routes]. intros rt [<- | []].
        exact (backtrack_pairs _ _ _ HT _ _ _ _ Er I I).
      - inversion H; subst; cbn [r_routes]. intros rt [].
    Qed.
    (* the same in travel order, outside the classes K_reverse_turn and K_reopen *)
    Theorem run_vertex_oriented_turn_travel fuel d source target r :
      K_reverse_turn d = false ->
      K_reopen clt cadd czero cfloor g frontier traverse estimate init_state terminate fuel d source target = false ->
      run_vertex_oriented fuel d source target = Ok r ->
      forall rt, In rt (r_routes r) -> pairs_ok (travel d (map (@et_edge C St) rt)).
    Proof.
      intros Hd Hk H rt Hin. destruct d; [|discriminate]. cbn [travel]. unfold K_reopen in Hk. apply negb_false_iff in Hk.
      exact (run_vertex_oriented_turn _ _ _ _ _ H Hk rt Hin).
    Qed.
  End Turns.
End FS.

(* ------------------------------------------------------------------ the concrete instances *)
Lemma turn_leaks_witness :
  Witness.route_edges = Ok [[1; 2; 3; 4]]
  /\ Witness.restricted 2 3 = true
  /\ (forall e st p, Witness.frontier e st (Some p) = Ok true -> Witness.restricted p e = false)
  /\ Witness.reopens = true
  /\ Witness.run_dijkstra = Err "nopath"%string.
Proof.
  split; [vm_compute; reflexivity|]. split; [reflexivity|]. split.
  - intros e st p H. unfold Witness.frontier in H. inversion H as [H']. apply negb_true_iff in H'. exact H'.
  - split; vm_compute; reflexivity.
Qed.

Lemma query_edges_witness :
  WitnessQueryEdges.route_edges = Ok [[0; 1; 2; 3]]
  /\ WitnessQueryEdges.ok 0 = false
  /\ (forall e st prev, WitnessQueryEdges.frontier e st prev = Ok true -> WitnessQueryEdges.ok e = true)
  /\ K_query_edge 0 (Some 3) 0 = true.
Proof.
  split; [vm_compute; reflexivity|]. split; [reflexivity|]. split; [|reflexivity].
  intros e st prev H. unfold WitnessQueryEdges.frontier in H. congruence.
Qed.

Lemma reverse_turn_witness :
  WitnessReverseTurn.route_edges = Ok [[3; 2; 1; 0]]
  /\ rmap (map (travel Reverse)) WitnessReverseTurn.route_edges = Ok [[0; 1; 2; 3]]
  /\ WitnessReverseTurn.restricted 1 2 = true
  /\ (forall e st p, WitnessReverseTurn.frontier e st (Some p) = Ok true -> WitnessReverseTurn.restricted p e = false)
  /\ WitnessReverseTurn.reopens = false
  /\ K_reverse_turn Reverse = true.
Proof.
  split; [vm_compute; reflexivity|]. split; [vm_compute; reflexivity|]. split; [reflexivity|]. split.
  - intros e st p H. unfold WitnessReverseTurn.frontier in H. inversion H as [H']. apply negb_true_iff in H'. exact H'.
  - split; [vm_compute; reflexivity | reflexivity].
Qed.
