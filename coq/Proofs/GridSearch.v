(* Lemmas about Model/GridSearch.v.  Main steps:
   process_eq   : GridSearchPlugin::process (MultiSet iteration, index lookups, fuel) equals an
                  index-free, fuel-free characterisation [process_char] on EVERY JSON value;
   run_*        : the json_array_op / flatten glue around it;
   overlay_*    : what a generated query contains (last writer of a name wins);
   spec_sound   : the specification evaluated in the S stream is what the model computes. *)
From Coq Require Import List Arith Bool String Ascii Lia Permutation ZArith.
From RC Require Import Base.Res Model.MultiSet Model.GridSearch Proofs.MultiSet.
Import ListNotations.
Import MS GS.
Open Scope string_scope.

(* everything below holds for every carrier F of non-integer JSON numbers *)
Section AnyFloat.
Context {F : Type}.
Local Notation json := (value F).
Local Notation obj := (GS.obj F).
Implicit Types (m sec base inst o : obj) (v q section : json) (c : list (string * json)).

(* ---------- insertion-ordered objects ---------- *)

Lemma oget_oset_same m k v : oget (oset m k v) k = Some v.
Proof.
  induction m as [|[k' v'] m IH]; cbn.
  - rewrite String.eqb_refl. reflexivity.
  - destruct (String.eqb k' k) eqn:E; cbn; rewrite E; [reflexivity | exact IH].
Qed.

Lemma oget_oset_other m k v k' : k' <> k -> oget (oset m k v) k' = oget m k'.
Proof.
  intros Hne. induction m as [|[k0 v0] m IH]; cbn.
  - destruct (String.eqb k k') eqn:E; [apply String.eqb_eq in E; congruence | reflexivity].
  - destruct (String.eqb k0 k) eqn:E; cbn.
    + apply String.eqb_eq in E. subst k0.
      destruct (String.eqb k k') eqn:E2; [apply String.eqb_eq in E2; congruence | reflexivity].
    + destruct (String.eqb k0 k'); [reflexivity | exact IH].
Qed.

Lemma oget_none_iff m k : oget m k = None <-> ~ In k (map fst m).
Proof.
  induction m as [|[k' v'] m IH]; cbn; [tauto|].
  destruct (String.eqb k' k) eqn:E.
  - apply String.eqb_eq in E. split; [discriminate | intros H; exfalso; apply H; left; exact E].
  - apply String.eqb_neq in E. rewrite IH. tauto.
Qed.

Lemma oget_in m k v : oget m k = Some v -> In (k, v) m.
Proof.
  induction m as [|[k' v'] m IH]; cbn; [discriminate|].
  destruct (String.eqb k' k) eqn:E.
  - apply String.eqb_eq in E. intros H. injection H as ->. subst. left. reflexivity.
  - intros H. right. exact (IH H).
Qed.

Lemma oget_oremove_other m k k' : k' <> k -> oget (oremove m k) k' = oget m k'.
Proof.
  intros Hne. induction m as [|[k0 v0] m IH]; cbn; [reflexivity|].
  destruct (String.eqb k0 k) eqn:E.
  - apply String.eqb_eq in E. subst k0.
    destruct (String.eqb k k') eqn:E2; [apply String.eqb_eq in E2; congruence | reflexivity].
  - cbn. destruct (String.eqb k0 k'); [reflexivity | exact IH].
Qed.

Lemma without_notin m k : ~ In k (map fst m) -> without_key m k = m.
Proof.
  unfold without_key. induction m as [|[k1 v1] m IH]; cbn; [reflexivity|]. intros H.
  destruct (String.eqb k1 k) eqn:E1; [apply String.eqb_eq in E1; tauto|].
  cbn. f_equal. apply IH. tauto.
Qed.

Lemma oremove_without m k : NoDup (map fst m) -> oremove m k = without_key m k.
Proof.
  induction m as [|[k0 v0] m IH]; intros Hnd; [reflexivity|].
  inversion Hnd as [|? ? Hnin Hnd']; subst.
  unfold without_key. cbn [oremove filter fst]. destruct (String.eqb k0 k) eqn:E; cbn [negb].
  - apply String.eqb_eq in E. subst k0. symmetry. exact (without_notin m k Hnin).
  - f_equal. exact (IH Hnd').
Qed.

Lemma oget_without m k k' : oget (without_key m k) k' = if String.eqb k' k then None else oget m k'.
Proof.
  unfold without_key. induction m as [|[k0 v0] m IH]; cbn.
  - destruct (String.eqb k' k); reflexivity.
  - destruct (String.eqb k0 k) eqn:E; cbn.
    + apply String.eqb_eq in E. subst k0. rewrite IH.
      destruct (String.eqb k' k) eqn:E2; [reflexivity|].
      rewrite String.eqb_sym, E2. reflexivity.
    + destruct (String.eqb k0 k') eqn:E2; [|exact IH].
      apply String.eqb_eq in E2. subst k0. rewrite E. reflexivity.
Qed.

Lemma oget_oremove_same m k : NoDup (map fst m) -> oget (oremove m k) k = None.
Proof. intros H. rewrite (oremove_without m k H), oget_without, String.eqb_refl. reflexivity. Qed.

(* ---------- the recursion guard ---------- *)

Lemma prefix_refl s : String.prefix s s = true.
Proof.
  induction s as [|a s IH]; [reflexivity|]. cbn.
  destruct (ascii_dec a a); [exact IH | congruence].
Qed.

Lemma containsb_self s : containsb s s = true.
Proof. destruct s; cbn; [reflexivity|]. rewrite prefix_refl. destruct (ascii_dec a a); [reflexivity | congruence]. Qed.

Lemma existsb_false {A} (f : A -> bool) l : existsb f l = false -> forall x, In x l -> f x = false.
Proof.
  intros H x Hx. destruct (f x) eqn:E; [|reflexivity].
  rewrite <- H. symmetry. apply existsb_exists. exists x. split; assumption.
Qed.

Lemma existsb_map {A B} (f : B -> bool) (g : A -> B) l :
  existsb f (map g l) = existsb (fun x => f (g x)) l.
Proof. induction l as [|a l IH]; cbn; [reflexivity|]. rewrite IH. reflexivity. Qed.

Lemma existsb_ext {A} (f g : A -> bool) l : (forall x, f x = g x) -> existsb f l = existsb g l.
Proof. intros H. induction l as [|a l IH]; cbn; [reflexivity|]. rewrite H, IH. reflexivity. Qed.

Lemma mentions_obj m :
  mentions (VObj m) = existsb (fun kv => containsb (fst kv) grid_key || mentions (snd kv)) m.
Proof. reflexivity. Qed.
Lemma mentions_arr (l : list json) : mentions (VArr l) = existsb mentions l.
Proof. reflexivity. Qed.

(* a name that the guard let through is not the grid key *)
Lemma clean_not_key k : containsb k grid_key = false -> k <> grid_key.
Proof. intros H E. subst k. rewrite containsb_self in H. discriminate. Qed.

(* ---------- overlay ---------- *)

Definition oset_kv (acc : obj) (kv : string * json) : obj := oset acc (fst kv) (snd kv).

Lemma apply_choice_assign inst k v :
  apply_choice inst k v = fold_left oset_kv (match v with VObj o => o | _ => [(k, v)] end) inst.
Proof. destruct v; reflexivity. Qed.

Lemma overlay_assigns base c : overlay base c = fold_left oset_kv (assigns c) base.
Proof.
  unfold overlay, assigns. revert base. induction c as [|[k v] c IH]; intros base; [reflexivity|].
  cbn [fold_left flat_map fst snd]. rewrite fold_left_app, IH, apply_choice_assign. reflexivity.
Qed.

Lemma oget_fold_oset l base k :
  oget (fold_left oset_kv l base) k =
    match last_assign l k with Some v => Some v | None => oget base k end.
Proof.
  revert base. induction l as [|[k' v'] l IH]; intros base; [reflexivity|].
  cbn [fold_left last_assign]. rewrite IH. unfold oset_kv. cbn [fst snd].
  destruct (last_assign l k); [reflexivity|].
  destruct (String.eqb k' k) eqn:E.
  - apply String.eqb_eq in E. subst k'. apply oget_oset_same.
  - apply String.eqb_neq in E. apply oget_oset_other. congruence.
Qed.

(* the value of a name in a generated query: the last assignment of the combination to that
   name, else the value in the base query *)
Lemma overlay_lookup base c k :
  oget (overlay base c) k =
    match last_assign (assigns c) k with Some v => Some v | None => oget base k end.
Proof. rewrite overlay_assigns. apply oget_fold_oset. Qed.

Lemma last_assign_none (l : list (string * json)) k : ~ In k (map fst l) -> last_assign l k = None.
Proof.
  induction l as [|[k' v'] l IH]; cbn; [reflexivity|]. intros H.
  rewrite IH by tauto. destruct (String.eqb k' k) eqn:E; [|reflexivity].
  apply String.eqb_eq in E. tauto.
Qed.

Lemma last_assign_nodup (l : list (string * json)) k v : NoDup (map fst l) -> In (k, v) l -> last_assign l k = Some v.
Proof.
  induction l as [|[k' v'] l IH]; cbn; [tauto|]. intros Hnd Hin.
  inversion Hnd as [|? ? Hnin Hnd']; subst. destruct Hin as [E|Hin].
  - injection E as -> ->. rewrite last_assign_none by exact Hnin. rewrite String.eqb_refl. reflexivity.
  - rewrite (IH Hnd' Hin). reflexivity.
Qed.

Lemma last_assign_in (l : list (string * json)) k v : last_assign l k = Some v -> In (k, v) l.
Proof.
  induction l as [|[k' v'] l IH]; cbn; [discriminate|].
  destruct (last_assign l k) as [v0|].
  - intros H. injection H as ->. right. apply IH. reflexivity.
  - destruct (String.eqb k' k) eqn:E; [|discriminate].
    apply String.eqb_eq in E. intros H. injection H as ->. subst. left. reflexivity.
Qed.

(* ---------- combinations ---------- *)

Definition choice_sets (ax : list (string * list json)) : list (list (string * json)) :=
  map (fun a => map (pair (fst a)) (snd a)) ax.

Lemma combos_eq (ax : list (string * list json)) : combos ax = product (choice_sets ax).
Proof. reflexivity. Qed.

Lemma map_flat_map {A B C} (f : B -> C) (g : A -> list B) l :
  map f (flat_map g l) = flat_map (fun x => map f (g x)) l.
Proof. induction l as [|a l IH]; cbn; [reflexivity|]. rewrite map_app, IH. reflexivity. Qed.

Lemma flat_map_map {A B C} (g : B -> list C) (h : A -> B) l :
  flat_map g (map h l) = flat_map (fun x => g (h x)) l.
Proof. induction l as [|a l IH]; cbn; [reflexivity|]. rewrite IH. reflexivity. Qed.

(* zipping the field names onto the product of the option lists = the product of the
   (name, option) lists *)
Lemma combine_product (ax : list (string * list json)) :
  map (combine (map fst ax)) (product (map snd ax)) = combos ax.
Proof.
  rewrite combos_eq. unfold choice_sets. induction ax as [|[k s] ax IH]; [reflexivity|].
  cbn [map fst snd]. rewrite !product_cons. rewrite <- IH.
  rewrite map_flat_map, flat_map_map. apply flat_map_ext. intros tl.
  rewrite !map_map. reflexivity.
Qed.

Lemma in_axes sec k l : In (k, l) (axes sec) <-> In (k, VArr l) sec.
Proof.
  unfold axes. rewrite in_flat_map. split.
  - intros [[k' v'] [Hin H]]. cbn in H. destruct v'; cbn in H; try tauto.
    destruct H as [E|[]]. injection E as -> ->. exact Hin.
  - intros H. exists (k, VArr l). split; [exact H | left; reflexivity].
Qed.

(* every (name, option) of a combination comes from an array-valued field of the section *)
Lemma combo_member (ax : list (string * list json)) c kv :
  In c (combos ax) -> In kv c -> exists l, In (fst kv, l) ax /\ In (snd kv) l.
Proof.
  rewrite combos_eq, product_in. unfold choice_sets. revert c.
  induction ax as [|[k s] ax IH]; intros c H Hin; inversion H as [|? x ? tl Hx Htl]; subst; [destruct Hin|].
  destruct Hin as [<-|Hin].
  - cbn [fst snd] in Hx. apply in_map_iff in Hx. destruct Hx as [v [<- Hv]].
    exists s. split; [left; reflexivity | exact Hv].
  - destruct (IH tl Htl Hin) as [l [Hl Hv]]. exists l. split; [right; exact Hl | exact Hv].
Qed.

(* names written by a combination passed the recursion guard *)
Lemma assigns_clean sec c k v :
  mentions (VObj sec) = false -> In c (combos (axes sec)) -> In (k, v) (assigns c) ->
  containsb k grid_key = false.
Proof.
  intros Hm Hc Hin. unfold assigns in Hin. apply in_flat_map in Hin.
  destruct Hin as [[k0 v0] [Hkv Hin]].
  destruct (combo_member _ _ _ Hc Hkv) as [l [Hl Hv]]. cbn [fst snd] in *.
  apply in_axes in Hl. rewrite mentions_obj in Hm.
  pose proof (existsb_false _ _ Hm _ Hl) as Hf. cbn [fst snd] in Hf.
  apply orb_false_elim in Hf. destruct Hf as [Hk0 Hml]. rewrite mentions_arr in Hml.
  pose proof (existsb_false _ _ Hml _ Hv) as Hv0.
  destruct v0; try (destruct Hin as [E|[]]; injection E as <- <-; exact Hk0).
  rewrite mentions_obj in Hv0. pose proof (existsb_false _ _ Hv0 _ Hin) as Hf. cbn [fst snd] in Hf.
  apply orb_false_elim in Hf. exact (proj1 Hf).
Qed.

(* ---------- process ---------- *)

Lemma mapM_Forall2 {A B} (f : A -> res B) l l' :
  Forall2 (fun a b => f a = Ok b) l l' -> mapM f l = Ok l'.
Proof. intros H. induction H as [|a b l l' Hab H IH]; cbn; [reflexivity|]. rewrite Hab, IH. reflexivity. Qed.

Lemma mapM_id {A} (f : A -> res A) l : Forall (fun a => f a = Ok a) l -> mapM f l = Ok l.
Proof. intros H. induction H as [|a l Ha H IH]; cbn; [reflexivity|]. rewrite Ha, IH. reflexivity. Qed.

Lemma Forall2_map_r {A B C} (R : A -> C -> Prop) (g : B -> C) l l' :
  Forall2 (fun a b => R a (g b)) l l' -> Forall2 R l (map g l').
Proof. intros H. induction H; cbn; constructor; assumption. Qed.

Lemma apply_combo_sel ss p it :
  sel ss p it -> forall pre keys inst, List.length keys = List.length ss ->
  apply_combo (pre ++ ss) inst (List.length pre) (combine keys p) = Ok (overlay inst (combine keys it)).
Proof.
  intros H. induction H as [|s ss j p a it Hj H IH]; intros pre keys inst Hlen.
  - destruct keys; [reflexivity | discriminate].
  - destruct keys as [|k keys]; [discriminate|]. cbn [combine apply_combo].
    rewrite nth_error_app2 by lia. rewrite Nat.sub_diag. cbn [nth_error]. rewrite Hj.
    specialize (IH (pre ++ [s])%list keys (apply_choice inst k a) ltac:(cbn in Hlen; lia)).
    rewrite app_length, <- app_assoc in IH. cbn [List.length app] in IH.
    rewrite Nat.add_1_r in IH. rewrite IH. reflexivity.
Qed.

(* index-free, fuel-free characterisation of GridSearchPlugin::process *)
Definition expansion (m sec : obj) : list obj :=
  map (overlay (oremove m grid_key)) (combos (axes sec)).

Definition process_char (q : json) : res json :=
  match q with
  | VObj m =>
      match oget m grid_key with
      | None => Ok q
      | Some section =>
          if mentions section then Err "Recursion"
          else match section with
               | VObj sec => if is_nil (expansion m sec) then Err "EmptyAxis"
                             else Ok (VArr (map VObj (expansion m sec)))
               | _ => Err "UnexpectedQueryStructure"
               end
      end
  | _ => Ok q
  end.

Lemma process_eq q : process q = process_char q.
Proof.
  destruct q as [| | | | | |m]; try reflexivity.
  unfold process, process_char. cbn [jget].
  destruct (oget m grid_key) as [section|]; [|reflexivity].
  destruct (mentions section); [reflexivity|].
  destruct section as [| | | | | |sec]; try reflexivity.
  cbn [as_object].
  set (ax := axes sec). set (inputs := map snd ax). set (keys := map fst ax).
  replace (map (fun v : list json => seq 0 (List.length v)) inputs) with (index_sets (dims_of inputs))
    by (unfold index_sets, dims_of; rewrite map_map; reflexivity).
  rewrite to_vec_ok. cbn [bind].
  assert (Hmap : mapM (fun combination => apply_combo inputs (oremove m grid_key) 0 (combine keys combination))
                      (product (index_sets (dims_of inputs))) = Ok (expansion m sec)).
  { apply mapM_Forall2. unfold expansion. fold ax. rewrite <- combine_product. fold keys inputs.
    rewrite map_map. apply Forall2_map_r.
    eapply Forall2_imp; [|exact (product_index_rel inputs)].
    intros p it Hsel. cbn beta.
    exact (apply_combo_sel inputs p it Hsel [] keys _ ltac:(unfold keys, inputs; rewrite !map_length; reflexivity)). }
  rewrite Hmap. cbn [bind]. reflexivity.
Qed.

Lemma expansion_length m sec :
  List.length (expansion m sec) = fold_right (fun a acc => List.length (snd a) * acc) 1 (axes sec).
Proof.
  unfold expansion. rewrite map_length, combos_eq, product_length. unfold choice_sets.
  induction (axes sec) as [|a ax IH]; [reflexivity|].
  cbn [map fold_right]. change (total (?s :: ?r)) with (List.length s * total r).
  rewrite map_length, <- IH. reflexivity.
Qed.

Lemma expansion_nonempty m sec :
  existsb (fun a => GS.is_nil (snd a)) (axes sec) = false -> GS.is_nil (expansion m sec) = false.
Proof.
  intros H. unfold expansion. rewrite combos_eq.
  assert (Hne : product (choice_sets (axes sec)) <> []).
  { apply product_nonempty. unfold choice_sets. rewrite existsb_map.
    rewrite <- H. apply existsb_ext. intros a. destruct (snd a); reflexivity. }
  destruct (product (choice_sets (axes sec))); [congruence | reflexivity].
Qed.

Lemma expansion_empty m sec :
  existsb (fun a => GS.is_nil (snd a)) (axes sec) = true -> expansion m sec = [].
Proof.
  intros H. unfold expansion. rewrite combos_eq, product_empty; [reflexivity|].
  unfold choice_sets. rewrite existsb_map. rewrite <- H.
  apply existsb_ext. intros a. destruct (snd a); reflexivity.
Qed.

(* ---------- what the generated queries contain ---------- *)

Lemma expansion_in m sec o :
  In o (expansion m sec) <-> exists c, In c (combos (axes sec)) /\ o = overlay (oremove m grid_key) c.
Proof.
  unfold expansion. rewrite in_map_iff. split; intros [c [H1 H2]]; exists c; [split; [exact H2 | symmetry; exact H1] | split; [symmetry; exact H2 | exact H1]].
Qed.

Lemma overlay_no_key m sec c :
  NoDup (map fst m) -> mentions (VObj sec) = false -> In c (combos (axes sec)) ->
  oget (overlay (oremove m grid_key) c) grid_key = None.
Proof.
  intros Hnd Hm Hc. rewrite overlay_lookup.
  destruct (last_assign (assigns c) grid_key) as [v|] eqn:E.
  - apply last_assign_in in E. pose proof (assigns_clean sec c _ _ Hm Hc E) as Hcl.
    rewrite containsb_self in Hcl. discriminate.
  - exact (oget_oremove_same m grid_key Hnd).
Qed.

Lemma overlay_other_fields m c k :
  k <> grid_key -> ~ In k (map fst (assigns c)) ->
  oget (overlay (oremove m grid_key) c) k = oget m k.
Proof.
  intros Hk Hnin. rewrite overlay_lookup, (last_assign_none _ _ Hnin).
  exact (oget_oremove_other m grid_key k Hk).
Qed.

Lemma overlay_scalar base c k v :
  NoDup (map fst (assigns c)) -> In (k, v) c -> is_object v = false ->
  oget (overlay base c) k = Some v.
Proof.
  intros Hnd Hin Hv. rewrite overlay_lookup.
  rewrite (last_assign_nodup (assigns c) k v Hnd); [reflexivity|].
  unfold assigns. apply in_flat_map. exists (k, v). split; [exact Hin|].
  cbn [snd]. destruct v; try (left; reflexivity). discriminate.
Qed.

Lemma overlay_object base c k o k' v' :
  NoDup (map fst (assigns c)) -> In (k, VObj o) c -> In (k', v') o ->
  oget (overlay base c) k' = Some v'.
Proof.
  intros Hnd Hin Ho. rewrite overlay_lookup.
  rewrite (last_assign_nodup (assigns c) k' v' Hnd); [reflexivity|].
  unfold assigns. apply in_flat_map. exists (k, VObj o). split; [exact Hin | exact Ho].
Qed.

(* ---------- the glue: json_array_op, flatten, apply_input_plugins ---------- *)

(* queries on which the plugin does nothing: objects without a grid section *)
Definition settled (x : json) : Prop := exists o, x = VObj o /\ oget o grid_key = None.

Lemma process_settled x : settled x -> process x = Ok x.
Proof. intros [o [-> H]]. rewrite process_eq. cbn [process_char]. rewrite H. reflexivity. Qed.

Lemma settled_no_arrays l : Forall settled l -> forallb (fun v => negb (is_array v)) l = true.
Proof. intros H. induction H as [|x l [o [-> _]] H IH]; [reflexivity|]. cbn. exact IH. Qed.

Lemma settled_objects l : Forall settled l -> forallb is_object l = true.
Proof. intros H. induction H as [|x l [o [-> _]] H IH]; [reflexivity|]. cbn. exact IH. Qed.

Lemma array_op_settled l : Forall settled l -> array_op process (VArr l) = Ok (VArr l).
Proof.
  intros H. unfold array_op. rewrite mapM_id.
  - cbn [bind flatten_in_place]. rewrite (settled_no_arrays l H). reflexivity.
  - eapply Forall_impl; [|exact H]. exact process_settled.
Qed.

Definition chain (n : nat) (st : res json) : res json :=
  fold_left (fun acc p => do s <- acc; array_op p s) (repeat process n) st.

Lemma chain_S n (st : res json) : chain (S n) st = chain n (do s <- st; array_op process s).
Proof. reflexivity. Qed.

Lemma run_chain n q :
  run n q = if negb (is_object q) then Err "NotAnObject" else do st <- chain n (Ok (VArr [q])); array_flatten st.
Proof. reflexivity. Qed.

Lemma run_chain_obj n m : run n (VObj m) = do st <- chain n (Ok (VArr [VObj m])); array_flatten st.
Proof. reflexivity. Qed.

Lemma chain_settled n l : Forall settled l -> chain n (Ok (VArr l)) = Ok (VArr l).
Proof.
  intros H. induction n as [|n IH]; [reflexivity|].
  rewrite chain_S. cbn [bind]. rewrite (array_op_settled l H). exact IH.
Qed.

Lemma run_settled n q : settled q -> run n q = Ok [q].
Proof.
  intros H. pose proof H as [o [-> _]]. rewrite run_chain_obj, chain_settled by (constructor; [exact H | constructor]).
  cbn [bind array_flatten]. rewrite settled_objects by (constructor; [exact H | constructor]). reflexivity.
Qed.

Lemma run_expand n m l :
  process (VObj m) = Ok (VArr l) -> Forall settled l -> run (S n) (VObj m) = Ok l.
Proof.
  intros Hp Hl. rewrite run_chain_obj, chain_S. cbn [bind array_op mapM]. rewrite Hp. cbn [bind flatten_in_place forallb is_array negb andb flat_map].
  rewrite app_nil_r, (chain_settled n l Hl). cbn [bind array_flatten].
  rewrite (settled_objects l Hl). reflexivity.
Qed.

Lemma expansion_settled m sec :
  NoDup (map fst m) -> mentions (VObj sec) = false -> Forall settled (map VObj (expansion m sec)).
Proof.
  intros Hnd Hm. apply Forall_forall. intros x Hx. apply in_map_iff in Hx.
  destruct Hx as [o [<- Ho]]. exists o. split; [reflexivity|].
  apply expansion_in in Ho. destruct Ho as [c [Hc ->]]. exact (overlay_no_key m sec c Hnd Hm Hc).
Qed.

(* the plugin applied to a query object with an acceptable grid section *)
Lemma process_section m sec :
  oget m grid_key = Some (VObj sec) -> mentions (VObj sec) = false ->
  existsb (fun a => GS.is_nil (snd a)) (axes sec) = false ->
  process (VObj m) = Ok (VArr (map VObj (expansion m sec))).
Proof.
  intros Hg Hm Hne. rewrite process_eq. cbn [process_char]. rewrite Hg, Hm, (expansion_nonempty m sec Hne). reflexivity.
Qed.

Lemma run_section n m sec :
  NoDup (map fst m) -> oget m grid_key = Some (VObj sec) -> mentions (VObj sec) = false ->
  existsb (fun a => GS.is_nil (snd a)) (axes sec) = false ->
  run (S n) (VObj m) = Ok (map VObj (expansion m sec)).
Proof.
  intros Hnd Hg Hm Hne. apply run_expand; [exact (process_section m sec Hg Hm Hne)|].
  exact (expansion_settled m sec Hnd Hm).
Qed.

(* rejected sections *)
Lemma run_reject n m (cls : string) : process (VObj m) = Err cls -> run (S n) (VObj m) = Err cls.
Proof.
  intros Hp. rewrite run_chain_obj, chain_S. cbn [bind array_op mapM]. rewrite Hp. cbn [bind].
  induction n as [|n IH]; [reflexivity|]. rewrite chain_S. exact IH.
Qed.

(* the specification evaluated in the S stream is what the model computes *)
Lemma spec_sound q l n :
  (forall m, q = VObj m -> NoDup (map fst m)) -> spec q = Some l -> run (S n) q = Ok l.
Proof.
  intros Hwf Hs. destruct q as [| | | | | |m]; try discriminate.
  specialize (Hwf m eq_refl). cbn [spec] in Hs.
  destruct (oget m grid_key) as [section|] eqn:Hg.
  - destruct section as [| | | | | |sec]; try discriminate.
    destruct (mentions (VObj sec)) eqn:Hm; [discriminate|].
    destruct (existsb (fun a => GS.is_nil (snd a)) (axes sec)) eqn:Hne; [discriminate|].
    injection Hs as <-. rewrite (run_section n m sec Hwf Hg Hm Hne).
    unfold expansion. rewrite map_map, (oremove_without m grid_key Hwf). reflexivity.
  - injection Hs as <-. apply run_settled. exists m. split; [reflexivity | exact Hg].
Qed.

(* ---------- no panic, no hang, on any JSON value ---------- *)

Lemma process_no_crash q : crashes (process q) = false.
Proof.
  rewrite process_eq. destruct q as [| | | | | |m]; try reflexivity. cbn [process_char].
  destruct (oget m grid_key) as [section|]; [|reflexivity].
  destruct (mentions section); [reflexivity|].
  destruct section; try reflexivity.
  destruct (GS.is_nil _); reflexivity.
Qed.

Lemma mapM_no_crash {A B} (f : A -> res B) l :
  (forall x, crashes (f x) = false) -> crashes (mapM f l) = false.
Proof.
  intros H. induction l as [|a l IH]; [reflexivity|]. cbn [mapM].
  specialize (H a). destruct (f a); cbn in *; try discriminate; try reflexivity.
  destruct (mapM f l); cbn in *; try discriminate; reflexivity.
Qed.

Lemma array_op_no_crash (st : json) : crashes (array_op process st) = false.
Proof.
  destruct st as [| | | | |l|]; try reflexivity. unfold array_op.
  pose proof (mapM_no_crash process l process_no_crash) as H.
  destruct (mapM process l); cbn in *; try discriminate; try reflexivity.
  destruct (forallb _ _); reflexivity.
Qed.

Lemma chain_no_crash n (st : res json) : crashes st = false -> crashes (chain n st) = false.
Proof.
  revert st. induction n as [|n IH]; intros st H; [exact H|].
  rewrite chain_S. apply IH. destruct st; cbn in *; try discriminate; try reflexivity.
  apply array_op_no_crash.
Qed.

Lemma run_no_crash n q : crashes (run n q) = false.
Proof.
  rewrite run_chain. destruct (negb (is_object q)); [reflexivity|].
  pose proof (chain_no_crash n (Ok (VArr [q])) eq_refl) as H.
  destruct (chain n (Ok (VArr [q]))) as [st| | |]; cbn in *; try discriminate; try reflexivity.
  destruct st; try reflexivity. cbn. destruct (forallb _ _); reflexivity.
Qed.

(* ---------- index vectors: every combination exactly once ---------- *)

Lemma dims_choice_sets (ax : list (string * list json)) : dims_of (choice_sets ax) = map (fun a => List.length (snd a)) ax.
Proof.
  unfold dims_of, choice_sets. rewrite map_map. apply map_ext. intros a. apply map_length.
Qed.

Lemma expansion_by_index m sec :
  let dims := map (fun a => List.length (snd a)) (axes sec) in
  Forall2 (fun p o => exists c, sel (choice_sets (axes sec)) p c /\ o = overlay (oremove m grid_key) c)
          (product (index_sets dims)) (expansion m sec).
Proof.
  intros dims. unfold dims, expansion. rewrite <- dims_choice_sets, combos_eq.
  apply Forall2_map_r. eapply Forall2_imp; [|exact (product_index_rel (choice_sets (axes sec)))].
  intros p c H. exists c. split; [exact H | reflexivity].
Qed.

(* the selection is a function of the index vector, and different index vectors select
   different option positions *)
Lemma sel_fun {A} (ss : list (list A)) p (it1 it2 : list A) : sel ss p it1 -> sel ss p it2 -> it1 = it2.
Proof.
  intros H. revert it2. induction H as [|s ss j p a it Hj H IH]; intros it2 H2; inversion H2; subst; [reflexivity|].
  f_equal; [congruence | apply IH; assumption].
Qed.

(* ---------- pass-through and rejected sections ---------- *)

Lemma process_passthrough q : jget q grid_key = None -> process q = Ok q.
Proof.
  intros H. rewrite process_eq. destruct q as [| | | | | |m]; try reflexivity.
  cbn [jget] in H. cbn [process_char]. rewrite H. reflexivity.
Qed.

Lemma process_recursion m section :
  oget m grid_key = Some section -> mentions section = true -> process (VObj m) = Err "Recursion".
Proof. intros Hg Hm. rewrite process_eq. cbn [process_char]. rewrite Hg, Hm. reflexivity. Qed.

Lemma process_not_object m section :
  oget m grid_key = Some section -> mentions section = false -> is_object section = false ->
  process (VObj m) = Err "UnexpectedQueryStructure".
Proof.
  intros Hg Hm Ho. rewrite process_eq. cbn [process_char]. rewrite Hg, Hm.
  destruct section; try reflexivity. discriminate.
Qed.

Lemma process_empty_axis m sec :
  oget m grid_key = Some (VObj sec) -> mentions (VObj sec) = false ->
  existsb (fun a => GS.is_nil (snd a)) (axes sec) = true ->
  process (VObj m) = Err "EmptyAxis".
Proof.
  intros Hg Hm He. rewrite process_eq. cbn [process_char]. rewrite Hg, Hm, (expansion_empty m sec He). reflexivity.
Qed.

Lemma expansion_no_axes m sec : axes sec = [] -> expansion m sec = [oremove m grid_key].
Proof. intros H. unfold expansion. rewrite H. reflexivity. Qed.

(* a concrete query used by the non-vacuity examples: 3 fields (2, 1 and 3 options: a
   one-option field in the middle), object-valued options, two other fields *)
Definition ex_sec : obj :=
  [("model", VArr [VStr "camry"; VStr "bolt"]);
   ("note", VStr "not an array");
   ("only", VArr [VObj [("x", VInt 0%Z); ("y", VInt 0%Z)]]);
   ("w", VArr [VInt 1%Z; VObj [("name", VStr "t1"); ("weights", VObj [("time", VInt 1%Z)])]; VNull])].
Definition ex_m : obj := [("origin_x", VInt 5%Z); (grid_key, VObj ex_sec); ("destination_x", VInt 7%Z)].

(* ---------- plugin chains: multi-element query states ---------- *)

(* a well-formed query: an object with unique keys *)
Definition wfq (q : json) : Prop := exists m, q = VObj m /\ NoDup (map fst m).

Lemma oset_keys_in m k v x : In x (map fst (oset m k v)) -> x = k \/ In x (map fst m).
Proof.
  induction m as [|[k0 v0] m IH]; cbn.
  - intros [<-|[]]. left. reflexivity.
  - destruct (String.eqb k0 k); cbn; [tauto|]. intros [<-|H]; [tauto|]. destruct (IH H); tauto.
Qed.

Lemma oset_nodup m k v : NoDup (map fst m) -> NoDup (map fst (oset m k v)).
Proof.
  induction m as [|[k0 v0] m IH]; cbn; intros H.
  - constructor; [intros [] | constructor].
  - inversion H as [|? ? Hn Hnd]; subst. destruct (String.eqb k0 k) eqn:E; cbn; [constructor; assumption|].
    constructor; [|exact (IH Hnd)]. intros Hin. apply oset_keys_in in Hin.
    destruct Hin as [->|Hin]; [rewrite String.eqb_refl in E; discriminate | exact (Hn Hin)].
Qed.

Lemma without_nodup m k : NoDup (map fst m) -> NoDup (map fst (without_key m k)).
Proof.
  unfold without_key. induction m as [|[k0 v0] m IH]; cbn; intros H; [constructor|].
  inversion H as [|? ? Hn Hnd]; subst. destruct (negb (String.eqb k0 k)); cbn; [|exact (IH Hnd)].
  constructor; [|exact (IH Hnd)]. intros Hin. apply Hn.
  apply in_map_iff in Hin. destruct Hin as [kv [<- Hkv]]. apply filter_In in Hkv.
  apply in_map. exact (proj1 Hkv).
Qed.

Lemma fold_oset_nodup (l : list (string * json)) base :
  NoDup (map fst base) -> NoDup (map fst (fold_left oset_kv l base)).
Proof.
  revert base. induction l as [|kv l IH]; intros base H; [exact H|].
  cbn [fold_left]. apply IH. apply oset_nodup. exact H.
Qed.

Lemma overlay_nodup base c : NoDup (map fst base) -> NoDup (map fst (overlay base c)).
Proof. intros H. rewrite overlay_assigns. apply fold_oset_nodup. exact H. Qed.

Lemma add_section_wf p section q : wfq q -> wfq (add_section p section q).
Proof.
  intros [m [-> H]]. cbn [add_section]. destruct (pred_holds p m).
  - eexists. split; [reflexivity | apply oset_nodup; exact H].
  - exists m. split; [reflexivity | exact H].
Qed.

Lemma spec_wf q l : wfq q -> spec q = Some l -> Forall wfq l.
Proof.
  intros [m [-> Hnd]] Hs. cbn [spec] in Hs.
  destruct (oget m grid_key) as [section|] eqn:Hg.
  - destruct section as [| | | | | |sec]; try discriminate.
    destruct (mentions (VObj sec)); [discriminate|].
    destruct (existsb _ (axes sec)); [discriminate|]. injection Hs as <-.
    apply Forall_forall. intros x Hx. apply in_map_iff in Hx. destruct Hx as [c [<- _]].
    eexists. split; [reflexivity|]. apply overlay_nodup, without_nodup. exact Hnd.
  - injection Hs as <-. constructor; [|constructor]. exists m. split; [reflexivity | exact Hnd].
Qed.

Definition unnest (v : json) : list json := match v with VArr sub => sub | other => [other] end.

(* the plugin on one well-formed query inside the domain: the value left in place, unnested,
   is the specified expansion *)
Lemma process_spec q l : wfq q -> spec q = Some l -> exists r, process q = Ok r /\ unnest r = l.
Proof.
  intros [m [-> Hnd]] Hs. cbn [spec] in Hs.
  destruct (oget m grid_key) as [section|] eqn:Hg.
  - destruct section as [| | | | | |sec]; try discriminate.
    destruct (mentions (VObj sec)) eqn:Hm; [discriminate|].
    destruct (existsb (fun a => GS.is_nil (snd a)) (axes sec)) eqn:Hne; [discriminate|].
    injection Hs as <-. eexists. split; [exact (process_section m sec Hg Hm Hne)|].
    cbn [unnest]. unfold expansion. rewrite map_map, (oremove_without m grid_key Hnd). reflexivity.
  - injection Hs as <-. exists (VObj m). split; [|reflexivity].
    apply process_passthrough. exact Hg.
Qed.

Lemma flatten_unnest (rs : list json) : flatten_in_place (VArr rs) = Ok (VArr (flat_map unnest rs)).
Proof.
  cbn [flatten_in_place]. destruct (forallb (fun v => negb (is_array v)) rs) eqn:E; [|reflexivity].
  f_equal. f_equal. induction rs as [|r rs IH]; [reflexivity|].
  cbn [forallb] in E. apply andb_prop in E. destruct E as [Er E].
  cbn [flat_map]. rewrite <- (IH E). destruct r; try reflexivity. discriminate.
Qed.

Lemma flat_map_opt_wf (qs l : list json) :
  Forall wfq qs -> flat_map_opt spec qs = Some l -> Forall wfq l.
Proof.
  intros H. revert l. induction H as [|q qs Hq H IH]; intros l Hs; cbn [flat_map_opt] in Hs.
  - injection Hs as <-. constructor.
  - destruct (spec q) as [x|] eqn:Ex; [|discriminate].
    destruct (flat_map_opt spec qs) as [y|]; [|discriminate]. injection Hs as <-.
    apply Forall_app. split; [exact (spec_wf q x Hq Ex) | exact (IH y eq_refl)].
Qed.

(* a grid stage on a multi-element state: every query replaced by its expansion, in place,
   whichever elements expand *)
Lemma array_op_grid (qs l : list json) :
  Forall wfq qs -> flat_map_opt spec qs = Some l -> array_op process (VArr qs) = Ok (VArr l).
Proof.
  intros H Hs. assert (Hrs : exists rs, mapM process qs = Ok rs /\ flat_map unnest rs = l).
  { revert l Hs. induction H as [|q qs Hq H IH]; intros l Hs; cbn [flat_map_opt] in Hs.
    - injection Hs as <-. exists []. split; reflexivity.
    - destruct (spec q) as [x|] eqn:Ex; [|discriminate].
      destruct (flat_map_opt spec qs) as [y|]; [|discriminate]. injection Hs as <-.
      destruct (process_spec q x Hq Ex) as [r [Hr Hu]]. destruct (IH y eq_refl) as [rs [Hrs Hf]].
      exists (r :: rs). split; [cbn [mapM]; rewrite Hr, Hrs; reflexivity|].
      cbn [flat_map]. rewrite Hu, Hf. reflexivity. }
  destruct Hrs as [rs [Hm <-]]. unfold array_op. rewrite Hm. cbn [bind]. apply flatten_unnest.
Qed.

Lemma array_op_add p section (qs : list json) :
  Forall wfq qs ->
  array_op (fun q => Ok (add_section p section q)) (VArr qs) = Ok (VArr (map (add_section p section) qs)).
Proof.
  intros H. unfold array_op.
  assert (Hm : mapM (fun q => Ok (add_section p section q)) qs = Ok (map (add_section p section) qs)).
  { clear H. induction qs as [|q qs IH]; [reflexivity|]. cbn [mapM bind map]. rewrite IH. reflexivity. }
  rewrite Hm. cbn [bind]. rewrite flatten_unnest. f_equal. f_equal. clear Hm.
  induction H as [|q qs Hq H IH]; [reflexivity|]. cbn [map flat_map]. rewrite IH.
  destruct (add_section_wf p section q Hq) as [m [-> _]]. reflexivity.
Qed.

Definition chain_stages (stages : list stage) (st : res json) : res json :=
  fold_left (fun acc p => do s <- acc; array_op p s) (map stage_op stages) st.
Definition spec_fold (stages : list stage) (acc : option (list json)) : option (list json) :=
  fold_left (fun acc s => match acc with Some qs => spec_stage s qs | None => None end) stages acc.

Lemma spec_fold_none stages : spec_fold stages None = None.
Proof. induction stages as [|s stages IH]; [reflexivity | exact IH]. Qed.

Lemma chain_stages_spec stages : forall (qs l : list json),
  Forall wfq qs -> spec_fold stages (Some qs) = Some l ->
  chain_stages stages (Ok (VArr qs)) = Ok (VArr l) /\ Forall wfq l.
Proof.
  induction stages as [|s stages IH]; intros qs l H Hs.
  - injection Hs as <-. split; [reflexivity | exact H].
  - unfold spec_fold in Hs. cbn [fold_left] in Hs. fold (spec_fold stages (spec_stage s qs)) in Hs.
    destruct (spec_stage s qs) as [qs'|] eqn:Es; [|rewrite spec_fold_none in Hs; discriminate].
    unfold chain_stages. cbn [map fold_left bind].
    assert (Hstep : array_op (stage_op s) (VArr qs) = Ok (VArr qs') /\ Forall wfq qs').
    { destruct s as [|p section]; cbn [spec_stage stage_op] in *.
      - split; [exact (array_op_grid qs qs' H Es) | exact (flat_map_opt_wf qs qs' H Es)].
      - injection Es as <-. split; [exact (array_op_add p section qs H)|].
        apply Forall_forall. intros x Hx. apply in_map_iff in Hx. destruct Hx as [q [<- Hq]].
        apply add_section_wf. exact (proj1 (Forall_forall _ _) H q Hq). }
    destruct Hstep as [Hop Hwf]. rewrite Hop. exact (IH qs' l Hwf Hs).
Qed.

(* the chain specification evaluated in the S stream is what the model computes, for every
   chain of grid search plugins and stub plugins *)
Lemma spec_stages_sound stages q l :
  (forall m, q = VObj m -> NoDup (map fst m)) -> spec_stages stages q = Some l ->
  run_stages stages q = Ok l.
Proof.
  intros Hwf Hs. unfold spec_stages in Hs. fold (spec_fold stages (if is_object q then Some [q] else None)) in Hs.
  destruct q as [| | | | | |m]; try (cbn [is_object] in Hs; rewrite spec_fold_none in Hs; discriminate).
  cbn [is_object] in Hs.
  assert (Hq : Forall wfq [VObj m]) by (constructor; [exists m; split; [reflexivity | exact (Hwf m eq_refl)] | constructor]).
  destruct (chain_stages_spec stages [VObj m] l Hq Hs) as [Hc Hl].
  unfold run_stages, apply_input_plugins. cbn [is_object negb]. fold (chain_stages stages (Ok (VArr [VObj m]))).
  rewrite Hc. cbn [bind array_flatten].
  replace (forallb is_object l) with true; [reflexivity|].
  symmetry. clear Hc Hs. induction Hl as [|x l [mx [-> _]] Hl IH]; [reflexivity | exact IH].
Qed.

Definition spec_stages_result (stages : list stage) (q : json) : res (list json) :=
  match spec_stages stages q with Some l => Ok l | None => Err "unspecified" end.

Lemma run_is_run_stages n q : run n q = run_stages (repeat SGrid n) q.
Proof. unfold run, run_stages. f_equal. induction n as [|n IH]; [reflexivity|]. cbn. rewrite <- IH. reflexivity. Qed.

(* ---------- output side: whatever the input, a grid stage leaves no grid section ---------- *)

Definition nokey (x : json) : Prop := jget x grid_key = None.

Lemma oremove_nodup m k : NoDup (map fst m) -> NoDup (map fst (oremove m k)).
Proof. intros H. rewrite (oremove_without m k H). apply without_nodup. exact H. Qed.

Lemma process_output q r :
  wfq q -> process q = Ok r -> Forall wfq (unnest r) /\ Forall nokey (unnest r).
Proof.
  intros [m [-> Hnd]] Hp. rewrite process_eq in Hp. cbn [process_char] in Hp.
  destruct (oget m grid_key) as [section|] eqn:Hg.
  - destruct (mentions section) eqn:Hm; [discriminate|].
    destruct section as [| | | | | |sec]; try discriminate.
    destruct (GS.is_nil (expansion m sec)); [discriminate|]. injection Hp as <-. cbn [unnest].
    split; apply Forall_forall; intros x Hx; apply in_map_iff in Hx; destruct Hx as [o [<- Ho]];
      apply expansion_in in Ho; destruct Ho as [c [Hc ->]].
    + eexists. split; [reflexivity|]. apply overlay_nodup, oremove_nodup. exact Hnd.
    + exact (overlay_no_key m sec c Hnd Hm Hc).
  - injection Hp as <-. cbn [unnest]. split; (constructor; [|constructor]).
    + exists m. split; [reflexivity | exact Hnd].
    + exact Hg.
Qed.

Lemma mapM_process_output (qs rs : list json) :
  Forall wfq qs -> mapM process qs = Ok rs ->
  Forall wfq (flat_map unnest rs) /\ Forall nokey (flat_map unnest rs).
Proof.
  intros H. revert rs. induction H as [|q qs Hq H IH]; intros rs Hm; cbn [mapM] in Hm.
  - injection Hm as <-. split; constructor.
  - destruct (process q) as [r| | |] eqn:Er; try discriminate. cbn [bind] in Hm.
    destruct (mapM process qs) as [rs'| | |]; try discriminate. cbn [bind] in Hm. injection Hm as <-.
    destruct (process_output q r Hq Er) as [H1 H2]. destruct (IH rs' eq_refl) as [H3 H4].
    cbn [flat_map]. split; apply Forall_app; split; assumption.
Qed.

Lemma array_op_grid_output (qs : list json) st :
  Forall wfq qs -> array_op process (VArr qs) = Ok st ->
  exists l, st = VArr l /\ Forall wfq l /\ Forall nokey l.
Proof.
  intros H Ha. unfold array_op in Ha. destruct (mapM process qs) as [rs| | |] eqn:Em; try discriminate.
  cbn [bind] in Ha. rewrite flatten_unnest in Ha. injection Ha as <-.
  destruct (mapM_process_output qs rs H Em) as [H1 H2]. eexists. split; [reflexivity | split; assumption].
Qed.

Lemma array_op_stage_wf s (qs : list json) st :
  Forall wfq qs -> array_op (stage_op s) (VArr qs) = Ok st -> exists l, st = VArr l /\ Forall wfq l.
Proof.
  intros H Ha. destruct s as [|p section]; cbn [stage_op] in Ha.
  - destruct (array_op_grid_output qs st H Ha) as [l [-> [Hl _]]]. exists l. split; [reflexivity | exact Hl].
  - rewrite (array_op_add p section qs H) in Ha. injection Ha as <-. eexists. split; [reflexivity|].
    apply Forall_forall. intros x Hx. apply in_map_iff in Hx. destruct Hx as [q [<- Hq]].
    apply add_section_wf. exact (proj1 (Forall_forall _ _) H q Hq).
Qed.

Lemma chain_stages_not_ok stages (st : res json) : is_ok st = false -> chain_stages stages st = st.
Proof.
  revert st. induction stages as [|s stages IH]; intros st H; [reflexivity|].
  unfold chain_stages. cbn [map fold_left]. fold (chain_stages stages (do x <- st; array_op (stage_op s) x)).
  destruct st; try discriminate; cbn [bind]; apply IH; reflexivity.
Qed.

Lemma chain_stages_wf stages : forall (qs : list json) st,
  Forall wfq qs -> chain_stages stages (Ok (VArr qs)) = Ok st -> exists l, st = VArr l /\ Forall wfq l.
Proof.
  induction stages as [|s stages IH]; intros qs st H Hc.
  - injection Hc as <-. exists qs. split; [reflexivity | exact H].
  - unfold chain_stages in Hc. cbn [map fold_left bind] in Hc.
    fold (chain_stages stages (array_op (stage_op s) (VArr qs))) in Hc.
    destruct (array_op (stage_op s) (VArr qs)) as [st1| | |] eqn:Ea;
      try (rewrite chain_stages_not_ok in Hc by reflexivity; discriminate).
    destruct (array_op_stage_wf s qs st1 H Ea) as [l1 [-> Hl1]]. exact (IH l1 st Hl1 Hc).
Qed.

Lemma chain_stages_app s1 s2 (st : res json) :
  chain_stages (s1 ++ s2) st = chain_stages s2 (chain_stages s1 st).
Proof. unfold chain_stages. rewrite map_app, fold_left_app. reflexivity. Qed.

(* for EVERY query object with unique keys and every chain whose last plugin is the grid search
   (stub plugins adding arbitrary sections included): a successful result has no grid section *)
Lemma run_stages_output stages q l :
  (forall m, q = VObj m -> NoDup (map fst m)) ->
  run_stages (stages ++ [SGrid]) q = Ok l -> Forall nokey l.
Proof.
  intros Hwf Hr. unfold run_stages, apply_input_plugins in Hr.
  destruct q as [| | | | | |m]; try discriminate. cbn [is_object negb] in Hr.
  fold (chain_stages (stages ++ [SGrid]) (Ok (VArr [VObj m]))) in Hr.
  rewrite chain_stages_app in Hr.
  assert (Hq : Forall wfq [VObj m]) by (constructor; [exists m; split; [reflexivity | exact (Hwf m eq_refl)] | constructor]).
  destruct (chain_stages stages (Ok (VArr [VObj m]))) as [st1| | |] eqn:E1; try discriminate.
  destruct (chain_stages_wf stages [VObj m] st1 Hq E1) as [l1 [-> Hl1]].
  unfold chain_stages in Hr. cbn [map fold_left bind stage_op] in Hr.
  destruct (array_op process (VArr l1)) as [st2| | |] eqn:E2; try discriminate.
  destruct (array_op_grid_output l1 st2 Hl1 E2) as [l2 [-> [_ Hk]]].
  cbn [bind array_flatten] in Hr. destruct (forallb is_object l2); [|discriminate].
  injection Hr as <-. exact Hk.
Qed.
End AnyFloat.
