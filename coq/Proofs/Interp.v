(* C14 lemmas (QN instance). *)
From Coq Require Import ZArith QArith List Bool Arith Lia.
From RC Require Import Base.Num Base.Res Model.Interp.
Import ListNotations.
