(* C14 lemmas, part 1 (QN instance = exact rationals): one axis.
   - the binary search of find_nearest_index terminates within fuel = len and returns a lower bound,
   - the cell index lemma (grid[i] <= x <= grid[i+1], i+1 < len, upper boundary included),
   - the fraction lies in [0,1], a blend lies between its end points,
   - on a grid value the blend is the table value, any two cells containing x give the same blend
     (border agreement), an affine function is reproduced exactly. *)
From Coq Require Import ZArith QArith Qminmax List Bool Arith Lia Lqa String.
From RC Require Import Base.Num Base.Res Model.Interp.
Import ListNotations.
Import Interp.
Open Scope Q_scope.

Module InterpP.

(* ---------- notation for the QN instance ---------- *)
Definition nq (g : list Q) (i : nat) : Q := nth i g 0.
Definition lastq (g : list Q) : Q := nq g (List.length g - 1).
Definition incr (g : list Q) : Prop := increasing (N:=QN) g = true.

(* the polynomial of one cell along one axis *)
Definition fr (g : list Q) (k : nat) (x : Q) : Q := (x - nq g k) / (nq g (S k) - nq g k).
Definition ler (a b d : Q) : Q := a * (1 - d) + b * d.

Lemma lerp_ler : forall a b d : Q, lerp (N:=QN) a b d = ler a b d.
Proof. reflexivity. Qed.

Global Instance ler_proper : Proper (Qeq ==> Qeq ==> Qeq ==> Qeq) ler.
Proof. intros a a' Ha b b' Hb d d' Hd. unfold ler. rewrite Ha, Hb, Hd. reflexivity. Qed.

(* ---------- booleans of QN ---------- *)
Lemma leb_true : forall x y : Q, leb (n:=QN) x y = true <-> x <= y.
Proof. intros x y. exact (Qle_bool_iff x y). Qed.
Lemma leb_false : forall x y : Q, leb (n:=QN) x y = false <-> y < x.
Proof.
  intros x y. cbn [leb QN]. split.
  - intros H. apply Qnot_le_lt. intros Hle. apply Qle_bool_iff in Hle. congruence.
  - intros H. destruct (Qle_bool x y) eqn:E; [|reflexivity].
    apply Qle_bool_iff in E. exfalso. exact (Qlt_not_le _ _ H E).
Qed.
Lemma ltb_true : forall x y : Q, ltb (n:=QN) x y = true <-> x < y.
Proof.
  intros x y. cbn [ltb QN]. unfold Qltb. rewrite negb_true_iff. exact (leb_false y x).
Qed.
Lemma ltb_false : forall x y : Q, ltb (n:=QN) x y = false <-> y <= x.
Proof.
  intros x y. cbn [ltb QN]. unfold Qltb. rewrite negb_false_iff. exact (leb_true y x).
Qed.
Lemma eqb_true : forall x y : Q, eqb (n:=QN) x y = true <-> x == y.
Proof. intros x y. exact (Qeq_bool_iff x y). Qed.
Lemma eqb_false : forall x y : Q, eqb (n:=QN) x y = false <-> ~ x == y.
Proof.
  intros x y. cbn [eqb QN]. split.
  - intros H He. apply Qeq_bool_iff in He. congruence.
  - intros H. destruct (Qeq_bool x y) eqn:E; [|reflexivity]. apply Qeq_bool_iff in E. contradiction.
Qed.

(* ---------- lists ---------- *)
Lemma idx_ok : forall (l : list Q) i, (i < List.length l)%nat -> idx l i = Ok (nq l i).
Proof.
  intros l i H. unfold idx, nq. change (T QN) with Q. rewrite (nth_error_nth' l 0 H). reflexivity.
Qed.
Lemma idx_ok_gen : forall {A} (l : list A) i d, (i < List.length l)%nat -> idx l i = Ok (nth i l d).
Proof.
  intros A l i d H. unfold idx. rewrite (nth_error_nth' l d H). reflexivity.
Qed.

Lemma last_opt_nth : forall (g : list Q), g <> [] -> last_opt g = Some (lastq g).
Proof.
  unfold lastq, nq. induction g as [|a r IH]; intros H; [congruence|].
  destruct r as [|b r']; [reflexivity|].
  change (last_opt (a :: b :: r')) with (last_opt (b :: r')).
  rewrite IH by congruence. cbn [List.length]. f_equal.
  replace (S (S (List.length r')) - 1)%nat with (S (S (List.length r') - 1)) by lia.
  reflexivity.
Qed.

Lemma inc_cons : forall a b (r : list Q),
  increasing (N:=QN) (a :: b :: r) = ltb (n:=QN) a b && increasing (N:=QN) (b :: r).
Proof. reflexivity. Qed.

Lemma inc_step : forall g i, incr g -> (S i < List.length g)%nat -> nq g i < nq g (S i).
Proof.
  unfold incr, nq. induction g as [|a r IH]; intros i Hinc Hlen; [cbn in Hlen; lia|].
  destruct r as [|b r']; [cbn in Hlen; lia|].
  rewrite inc_cons in Hinc. apply andb_true_iff in Hinc. destruct Hinc as [Hab Hr].
  destruct i as [|i'].
  - cbn [nth]. apply ltb_true. exact Hab.
  - change (nth (S i') (a :: b :: r') 0) with (nth i' (b :: r') 0).
    change (nth (S (S i')) (a :: b :: r') 0) with (nth (S i') (b :: r') 0).
    apply IH; [exact Hr|]. cbn [List.length] in *. lia.
Qed.

Lemma inc_lt : forall g i j, incr g -> (i < j)%nat -> (j < List.length g)%nat -> nq g i < nq g j.
Proof.
  intros g i j Hinc Hij Hj. induction j as [|j IH]; [lia|].
  destruct (Nat.eq_dec i j) as [->|Hne].
  - apply inc_step; assumption.
  - apply Qlt_trans with (nq g j).
    + apply IH; lia.
    + apply inc_step; assumption.
Qed.

Lemma inc_le : forall g i j, incr g -> (i <= j)%nat -> (j < List.length g)%nat -> nq g i <= nq g j.
Proof.
  intros g i j Hinc Hij Hj. destruct (Nat.eq_dec i j) as [->|Hne]; [apply Qle_refl|].
  apply Qlt_le_weak. apply inc_lt; [assumption|lia|assumption].
Qed.

(* strict monotonicity read backwards *)
Lemma inc_lt_inv : forall g i j, incr g -> (i < List.length g)%nat -> (j < List.length g)%nat ->
  nq g i < nq g j -> (i < j)%nat.
Proof.
  intros g i j Hinc Hi Hj Hlt. destruct (lt_dec i j) as [H|H]; [exact H|exfalso].
  assert (Hle : nq g j <= nq g i) by (apply inc_le; [assumption|lia|assumption]).
  exact (Qlt_not_le _ _ Hlt Hle).
Qed.
Lemma inc_le_inv : forall g i j, incr g -> (i < List.length g)%nat -> (j < List.length g)%nat ->
  nq g i <= nq g j -> (i <= j)%nat.
Proof.
  intros g i j Hinc Hi Hj Hle. destruct (le_dec i j) as [H|H]; [exact H|exfalso].
  assert (Hlt : nq g j < nq g i) by (apply inc_lt; [assumption|lia|assumption]).
  exact (Qlt_not_le _ _ Hlt Hle).
Qed.
Lemma inc_inj : forall g i j, incr g -> (i < List.length g)%nat -> (j < List.length g)%nat ->
  nq g i == nq g j -> i = j.
Proof.
  intros g i j Hinc Hi Hj He.
  assert (i <= j)%nat by (apply (inc_le_inv g); try assumption; rewrite He; apply Qle_refl).
  assert (j <= i)%nat by (apply (inc_le_inv g); try assumption; rewrite He; apply Qle_refl).
  lia.
Qed.

(* ---------- the binary search ---------- *)
(* invariant: everything strictly left of [low] is below the target, [high] is not; no sortedness is needed
   for this part; fuel [high - low] suffices because the interval at least halves *)
Lemma bs_loop_spec : forall fuel (g : list Q) (t : Q) low high,
  (high - low <= fuel)%nat -> (low <= high)%nat -> (high < List.length g)%nat ->
  (low = 0%nat \/ nq g (low - 1) < t) -> t <= nq g high ->
  exists r, bs_loop (N:=QN) fuel g t low high = Ok r /\ (low <= r <= high)%nat /\
            (r = 0%nat \/ nq g (r - 1) < t) /\ t <= nq g r.
Proof.
  induction fuel as [|f IH]; intros g t low high Hfuel Hlh Hlen Hlow Hhigh.
  - assert (low = high) by lia. subst high. exists low.
    cbn [bs_loop]. rewrite Nat.ltb_irrefl. repeat split; auto; lia.
  - cbn [bs_loop]. change (T QN) with Q. destruct (low <? high)%nat eqn:E.
    + apply Nat.ltb_lt in E.
      assert (Hdiv : ((high - low) / 2 < high - low)%nat) by (apply Nat.div_lt; lia).
      set (mid := (low + (high - low) / 2)%nat) in *.
      assert (Hmid : (low <= mid < high)%nat) by (unfold mid; lia).
      rewrite (idx_ok g mid) by lia. cbn [bind].
      destruct (leb (n:=QN) t (nq g mid)) eqn:El.
      * apply leb_true in El.
        destruct (IH g t low mid) as [r [Hr [Hb [Hl Hh]]]]; try assumption; try lia.
        exists r. repeat split; try assumption; lia.
      * apply leb_false in El.
        destruct (IH g t (S mid) high) as [r [Hr [Hb [Hl Hh]]]]; try assumption; try lia.
        { right. replace (S mid - 1)%nat with mid by lia. exact El. }
        exists r. repeat split; try assumption; lia.
    + apply Nat.ltb_ge in E. assert (low = high) by lia. subst high. exists low.
      repeat split; auto; lia.
Qed.

(* the loop as find_nearest_index starts it never runs out of fuel *)
Lemma bs_loop_fuel : forall (g : list Q) (t : Q),
  (1 <= List.length g)%nat -> t <= lastq g ->
  exists r, bs_loop (N:=QN) (List.length g) g t 0 (List.length g - 1) = Ok r /\
            (r <= List.length g - 1)%nat /\ (r = 0%nat \/ nq g (r - 1) < t) /\ t <= nq g r.
Proof.
  intros g t Hlen Hlast.
  destruct (bs_loop_spec (List.length g) g t 0 (List.length g - 1)) as [r [Hr [Hb [Hl Hh]]]];
    try lia; auto.
  exists r. repeat split; try assumption; lia.
Qed.

(* ---------- the cell index lemma ---------- *)
Lemma fni_spec : forall (g : list Q) (x : Q),
  incr g -> (2 <= List.length g)%nat -> nq g 0 <= x -> x <= lastq g ->
  exists i, find_nearest_index (N:=QN) g x = Ok i /\ (S i < List.length g)%nat /\
            nq g i <= x /\ x <= nq g (S i) /\
            ((x == lastq g /\ i = (List.length g - 2)%nat) \/ nq g i < x \/ (i = 0%nat /\ x == nq g 0)).
Proof.
  intros g x Hinc Hlen Hlo Hhi. unfold find_nearest_index. change (T QN) with Q.
  rewrite last_opt_nth by (destruct g; [cbn in Hlen; lia|congruence]).
  destruct (eqb (n:=QN) x (lastq g)) eqn:Eq.
  - apply eqb_true in Eq.
    destruct (List.length g <? 2)%nat eqn:E2; [apply Nat.ltb_lt in E2; lia|].
    exists (List.length g - 2)%nat.
    assert (Hs : S (List.length g - 2) = (List.length g - 1)%nat) by lia.
    split; [reflexivity|]. split; [lia|]. rewrite Hs. fold (lastq g).
    split; [|split].
    + rewrite Eq. unfold lastq. apply inc_le; [assumption|lia|lia].
    + rewrite Eq. apply Qle_refl.
    + left. split; [exact Eq|reflexivity].
  - apply eqb_false in Eq.
    destruct (bs_loop_fuel g x) as [r [Hr [Hb [Hl Hh]]]]; [lia|assumption|].
    rewrite Hr. cbn [bind].
    destruct (0 <? r)%nat eqn:E0.
    + apply Nat.ltb_lt in E0. rewrite (idx_ok g r) by lia. cbn [bind].
      destruct (leb (n:=QN) x (nq g r)) eqn:El.
      * destruct Hl as [Hl|Hl]; [lia|].
        exists (r - 1)%nat. replace (S (r - 1)) with r by lia.
        split; [reflexivity|]. split; [lia|]. split; [apply Qlt_le_weak; exact Hl|].
        split; [exact Hh|]. right. left. exact Hl.
      * apply leb_false in El. exfalso. exact (Qlt_not_le _ _ El Hh).
    + apply Nat.ltb_ge in E0. assert (r = 0%nat) by lia. subst r.
      exists 0%nat. split; [reflexivity|]. split; [lia|]. split; [exact Hlo|].
      assert (H0 : x == nq g 0) by (apply Qle_antisym; assumption).
      split.
      * rewrite H0. apply Qlt_le_weak. apply inc_step; [assumption|lia].
      * right. right. split; [reflexivity|exact H0].
Qed.

(* ---------- fraction and blend ---------- *)
Lemma frac_ok : forall (g : list Q) i x, (S i < List.length g)%nat ->
  frac (N:=QN) g i x = Ok (fr g i x).
Proof.
  intros g i x H. unfold frac. change (T QN) with Q. rewrite (idx_ok g i) by lia. cbn [bind].
  rewrite (idx_ok g (S i)) by lia. reflexivity.
Qed.

Lemma fr_range : forall g i x, nq g i < nq g (S i) -> nq g i <= x -> x <= nq g (S i) ->
  0 <= fr g i x /\ fr g i x <= 1.
Proof.
  intros g i x Hlt Hlo Hhi. unfold fr.
  assert (Hd : 0 < nq g (S i) - nq g i) by lra.
  split.
  - apply Qle_shift_div_l; [exact Hd|]. lra.
  - apply Qle_shift_div_r; [exact Hd|]. lra.
Qed.

Lemma fr_lo : forall g i x, nq g i < nq g (S i) -> x == nq g i -> fr g i x == 0.
Proof. intros g i x Hlt He. unfold fr. rewrite He. field. lra. Qed.
Lemma fr_hi : forall g i x, nq g i < nq g (S i) -> x == nq g (S i) -> fr g i x == 1.
Proof. intros g i x Hlt He. unfold fr. rewrite He. field. lra. Qed.

Lemma ler_0 : forall a b d, d == 0 -> ler a b d == a.
Proof. intros a b d H. unfold ler. rewrite H. ring. Qed.
Lemma ler_1 : forall a b d, d == 1 -> ler a b d == b.
Proof. intros a b d H. unfold ler. rewrite H. ring. Qed.

(* convexity of one blend *)
Lemma ler_between : forall lo hi a b d, 0 <= d -> d <= 1 ->
  lo <= a -> a <= hi -> lo <= b -> b <= hi -> lo <= ler a b d /\ ler a b d <= hi.
Proof.
  intros lo hi a b d Hd0 Hd1 Ha1 Ha2 Hb1 Hb2. unfold ler.
  assert (H1 : 0 <= (a - lo) * (1 - d)) by (apply Qmult_le_0_compat; lra).
  assert (H2 : 0 <= (b - lo) * d) by (apply Qmult_le_0_compat; lra).
  assert (H3 : 0 <= (hi - a) * (1 - d)) by (apply Qmult_le_0_compat; lra).
  assert (H4 : 0 <= (hi - b) * d) by (apply Qmult_le_0_compat; lra).
  split; lra.
Qed.

Lemma ler_lb : forall lo a b d, 0 <= d -> d <= 1 -> lo <= a -> lo <= b -> lo <= ler a b d.
Proof.
  intros lo a b d Hd0 Hd1 Ha Hb. unfold ler.
  assert (H1 : 0 <= (a - lo) * (1 - d)) by (apply Qmult_le_0_compat; lra).
  assert (H2 : 0 <= (b - lo) * d) by (apply Qmult_le_0_compat; lra).
  lra.
Qed.
Lemma ler_ub : forall hi a b d, 0 <= d -> d <= 1 -> a <= hi -> b <= hi -> ler a b d <= hi.
Proof.
  intros hi a b d Hd0 Hd1 Ha Hb. unfold ler.
  assert (H3 : 0 <= (hi - a) * (1 - d)) by (apply Qmult_le_0_compat; lra).
  assert (H4 : 0 <= (hi - b) * d) by (apply Qmult_le_0_compat; lra).
  lra.
Qed.

(* Lipschitz in the fraction: the blend moves by at most |b - a| per unit of d *)
Lemma ler_diff : forall a b d d', ler a b d - ler a b d' == (b - a) * (d - d').
Proof. intros. unfold ler. ring. Qed.

(* the full per-axis result: what the code computes for an in-range coordinate *)
Record axis_cell (g : list Q) (x : Q) (i : nat) : Prop := {
  ac_len : (S i < List.length g)%nat;
  ac_lo : nq g i <= x;
  ac_hi : x <= nq g (S i);
  ac_lt : nq g i < nq g (S i);
}.

Lemma axis_spec : forall (g : list Q) (x : Q),
  incr g -> (2 <= List.length g)%nat -> nq g 0 <= x -> x <= lastq g ->
  exists i, find_nearest_index (N:=QN) g x = Ok i /\ frac (N:=QN) g i x = Ok (fr g i x) /\
            axis_cell g x i.
Proof.
  intros g x Hinc Hlen Hlo Hhi.
  destruct (fni_spec g x Hinc Hlen Hlo Hhi) as [i [Hi [Hl [H1 [H2 _]]]]].
  exists i. split; [exact Hi|]. split; [apply frac_ok; exact Hl|].
  constructor; try assumption. apply inc_step; assumption.
Qed.

Lemma axis_cell_range : forall g x i, axis_cell g x i -> 0 <= fr g i x /\ fr g i x <= 1.
Proof. intros g x i [H1 H2 H3 H4]. apply fr_range; assumption. Qed.

(* the blend along a cell that contains a grid value is the table value there *)
Lemma axis_on_grid : forall g x i k (v : nat -> Q), incr g -> axis_cell g x i ->
  (k < List.length g)%nat -> x == nq g k ->
  ler (v i) (v (S i)) (fr g i x) == v k.
Proof.
  intros g x i k v Hinc [H1 H2 H3 H4] Hk He.
  assert (Hik : (i <= k)%nat) by (apply (inc_le_inv g); try assumption; try lia; rewrite <- He; exact H2).
  assert (Hki : (k <= S i)%nat) by (apply (inc_le_inv g); try assumption; rewrite <- He; exact H3).
  destruct (Nat.eq_dec k i) as [->|Hne].
  - apply ler_0. apply fr_lo; assumption.
  - assert (k = S i) by lia. subst k. apply ler_1. apply fr_hi; assumption.
Qed.

(* border agreement along one axis: every cell whose closed interval contains x gives the same blend *)
Lemma axis_any_cell : forall g x i k (v : nat -> Q), incr g -> axis_cell g x i -> axis_cell g x k ->
  ler (v i) (v (S i)) (fr g i x) == ler (v k) (v (S k)) (fr g k x).
Proof.
  intros g x i k v Hinc Hi Hk.
  destruct (lt_eq_lt_dec i k) as [[Hlt|Heq]|Hgt].
  - destruct Hi as [A1 A2 A3 A4]. pose proof Hk as Hk'. destruct Hk as [B1 B2 B3 B4].
    assert (Hle : nq g (S i) <= nq g k) by (apply inc_le; [assumption|lia|lia]).
    assert (Hx : x == nq g (S i)) by (apply Qle_antisym; [assumption|lra]).
    rewrite (ler_1 _ _ (fr g i x)) by (apply fr_hi; assumption).
    symmetry. apply (axis_on_grid g x k (S i) v); try assumption.
  - subst k. reflexivity.
  - pose proof Hi as Hi'. destruct Hi as [A1 A2 A3 A4]. destruct Hk as [B1 B2 B3 B4].
    assert (Hle : nq g (S k) <= nq g i) by (apply inc_le; [assumption|lia|lia]).
    assert (Hx : x == nq g (S k)) by (apply Qle_antisym; [assumption|lra]).
    rewrite (ler_1 _ _ (fr g k x)) by (apply fr_hi; assumption).
    apply (axis_on_grid g x i (S k) v); try assumption.
Qed.

(* an affine function of the coordinate is reproduced exactly *)
Lemma axis_affine : forall g x i (A B : Q), nq g i < nq g (S i) ->
  ler (A + B * nq g i) (A + B * nq g (S i)) (fr g i x) == A + B * x.
Proof. intros g x i A B Hlt. unfold ler, fr. field. lra. Qed.

(* in-range test of validate_inputs *)
Lemma in_axis_spec : forall (g : list Q) (x : Q), (1 <= List.length g)%nat ->
  in_axis (N:=QN) g x = Ok (leb (n:=QN) (nq g 0) x && leb (n:=QN) x (lastq g)).
Proof.
  intros g x Hlen. unfold in_axis. change (T QN) with Q. rewrite (idx_ok g 0) by lia. cbn [bind].
  rewrite last_opt_nth by (destruct g; [cbn in Hlen; lia|congruence]). reflexivity.
Qed.

Lemma in_range_true : forall (g : list Q) (x : Q),
  leb (n:=QN) (nq g 0) x && leb (n:=QN) x (lastq g) = true <-> nq g 0 <= x /\ x <= lastq g.
Proof. intros g x. rewrite andb_true_iff, !leb_true. tauto. Qed.

(* position: the first grid value equal to the coordinate *)
Lemma position_some : forall (g : list Q) (x : Q) k, position (N:=QN) g x = Some k ->
  (k < List.length g)%nat /\ x == nq g k.
Proof.
  unfold nq. induction g as [|a r IH]; intros x k H; [discriminate|].
  cbn [position] in H. destruct (eqb (n:=QN) a x) eqn:E.
  - injection H as <-. apply eqb_true in E. split; [cbn; lia|]. cbn [nth]. symmetry. exact E.
  - destruct (position (N:=QN) r x) as [k'|] eqn:E'; [|discriminate].
    injection H as <-. destruct (IH x k' E') as [H1 H2]. split; [cbn; lia|]. exact H2.
Qed.
Lemma position_none : forall (g : list Q) (x : Q) k, position (N:=QN) g x = None ->
  (k < List.length g)%nat -> ~ x == nq g k.
Proof.
  unfold nq. induction g as [|a r IH]; intros x k H Hk; [cbn in Hk; lia|].
  cbn [position] in H. destruct (eqb (n:=QN) a x) eqn:E; [discriminate|].
  destruct (position (N:=QN) r x) as [k'|] eqn:E'; [discriminate|].
  apply eqb_false in E. destruct k as [|k].
  - cbn [nth]. intros He. apply E. symmetry. exact He.
  - cbn [nth]. apply IH; [exact E'|cbn in Hk; lia].
Qed.

End InterpP.
