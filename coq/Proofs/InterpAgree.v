(* C14 lemmas, part 5 (QN): InterpND on 1-, 2- and 3-dimensional data agrees with Interp1D / Interp2D / Interp3D. *)
From Coq Require Import ZArith QArith Qminmax List Bool Arith Lia Lqa String.
From RC Require Import Base.Num Base.Res Model.Interp Proofs.Interp Proofs.InterpGrid Proofs.InterpND.
Import ListNotations.
Import Interp InterpP InterpG InterpN.
Open Scope Q_scope.

Module InterpA.

Lemma valid1_wf : forall m, valid1 m -> wf 1 [x1 m] (f1 m).
Proof.
  intros m [Hi Hl Hf]. cbn [wf]. split; [exact Hi|]. split; [exact Hl|]. split; [exact Hf|].
  intros i _. reflexivity.
Qed.
Lemma valid2_wf : forall m, valid2 m -> wf 2 [x2 m; y2 m] (f2 m).
Proof.
  intros m [Hxi Hyi Hxl Hyl Hf Hr]. cbn [wf]. split; [exact Hxi|]. split; [exact Hxl|]. split; [exact Hf|].
  intros i Hi. split; [exact Hyi|]. split; [exact Hyl|]. split; [exact (Hr i Hi)|]. intros j _. reflexivity.
Qed.
Lemma valid3_wf : forall m, valid3 m -> wf 3 [x3 m; y3 m; z3 m] (f3 m).
Proof.
  intros m [Hxi Hyi Hzi Hxl Hyl Hzl Hf Hr Hc]. cbn [wf].
  split; [exact Hxi|]. split; [exact Hxl|]. split; [exact Hf|].
  intros i Hi. split; [exact Hyi|]. split; [exact Hyl|]. split; [exact (Hr i Hi)|].
  intros j Hj. split; [exact Hzi|]. split; [exact Hzl|]. split; [exact (Hc i j Hi Hj)|]. intros k _. reflexivity.
Qed.

Lemma ndP1_P1 : forall (m : @interp1 QN) c p, ndP 1 [x1 m] [c] [p] (f1 m) = P1 m c p.
Proof. reflexivity. Qed.
Lemma ndP2_P2 : forall (m : @interp2 QN) i j px py,
  ndP 2 [x2 m; y2 m] [i; j] [px; py] (f2 m) == P2 m i j px py.
Proof.
  intros m i j px py. unfold P2, bil.
  change (ndP 2 [x2 m; y2 m] [i; j] [px; py] (f2 m))
    with (ler (ler (t2 (f2 m) i j) (t2 (f2 m) i (S j)) (fr (y2 m) j py))
              (ler (t2 (f2 m) (S i) j) (t2 (f2 m) (S i) (S j)) (fr (y2 m) j py)) (fr (x2 m) i px)).
  unfold ler. ring.
Qed.
Lemma ndP3_P3 : forall (m : @interp3 QN) i j k px py pz,
  ndP 3 [x3 m; y3 m; z3 m] [i; j; k] [px; py; pz] (f3 m) == P3 m i j k px py pz.
Proof.
  intros m i j k px py pz. unfold P3, tri. cbv zeta.
  change (ndP 3 [x3 m; y3 m; z3 m] [i; j; k] [px; py; pz] (f3 m))
    with (ler (ler (ler (t3 (f3 m) i j k) (t3 (f3 m) i j (S k)) (fr (z3 m) k pz))
                   (ler (t3 (f3 m) i (S j) k) (t3 (f3 m) i (S j) (S k)) (fr (z3 m) k pz)) (fr (y3 m) j py))
              (ler (ler (t3 (f3 m) (S i) j k) (t3 (f3 m) (S i) j (S k)) (fr (z3 m) k pz))
                   (ler (t3 (f3 m) (S i) (S j) k) (t3 (f3 m) (S i) (S j) (S k)) (fr (z3 m) k pz)) (fr (y3 m) j py))
              (fr (x3 m) i px)).
  unfold ler. ring.
Qed.

Lemma nd_agrees_1d : forall m p, valid1 m -> inr (x1 m) p ->
  exists o1 on, interpolate1 (N:=QN) m [p] = Ok o1 /\
                interpolaten (N:=QN) (mk 1 [x1 m] (f1 m)) [p] = Ok on /\ o1 == on.
Proof.
  intros m p Hv Hin. destruct (interpolate1_formula m p Hv Hin) as [i [o1 [Hi [H1 E1]]]].
  destruct (interpolaten_formula 1 [x1 m] (f1 m) [p] (valid1_wf m Hv)) as [cs [on [Hc [Hn En]]]];
    [split; [exact Hin|exact I]|].
  destruct cs as [|c [|? ?]]; try (cbn in Hc; tauto). destruct Hc as [Hc _].
  exists o1, on. split; [exact H1|]. split; [exact Hn|].
  rewrite E1, En, ndP1_P1. apply P1_any_cell; [destruct Hv; assumption|assumption|assumption].
Qed.

Lemma nd_agrees_2d : forall m px py, valid2 m -> inr (x2 m) px -> inr (y2 m) py ->
  exists o2 on, interpolate2 (N:=QN) m [px; py] = Ok o2 /\
                interpolaten (N:=QN) (mk 2 [x2 m; y2 m] (f2 m)) [px; py] = Ok on /\ o2 == on.
Proof.
  intros m px py Hv Hx Hy. destruct (interpolate2_formula m px py Hv Hx Hy) as [i [j [Hi [Hj H2]]]].
  destruct (interpolaten_formula 2 [x2 m; y2 m] (f2 m) [px; py] (valid2_wf m Hv)) as [cs [on [Hc [Hn En]]]];
    [split; [exact Hx|split; [exact Hy|exact I]]|].
  destruct cs as [|c [|d [|? ?]]]; try (cbn in Hc; tauto). destruct Hc as [Hc [Hd _]].
  eexists; exists on. split; [exact H2|]. split; [exact Hn|].
  rewrite En, ndP2_P2. destruct Hv. apply P2_any_cell; assumption.
Qed.

Lemma nd_agrees_3d : forall m px py pz, valid3 m -> inr (x3 m) px -> inr (y3 m) py -> inr (z3 m) pz ->
  exists o3 on, interpolate3 (N:=QN) m [px; py; pz] = Ok o3 /\
                interpolaten (N:=QN) (mk 3 [x3 m; y3 m; z3 m] (f3 m)) [px; py; pz] = Ok on /\ o3 == on.
Proof.
  intros m px py pz Hv Hx Hy Hz.
  destruct (interpolate3_formula m px py pz Hv Hx Hy Hz) as [i [j [k [Hi [Hj [Hk H3]]]]]].
  destruct (interpolaten_formula 3 [x3 m; y3 m; z3 m] (f3 m) [px; py; pz] (valid3_wf m Hv))
    as [cs [on [Hc [Hn En]]]]; [split; [exact Hx|split; [exact Hy|split; [exact Hz|exact I]]]|].
  destruct cs as [|c [|d [|e [|? ?]]]]; try (cbn in Hc; tauto). destruct Hc as [Hc [Hd [He _]]].
  eexists; exists on. split; [exact H3|]. split; [exact Hn|].
  rewrite En, ndP3_P3. destruct Hv. apply P3_any_cell; assumption.
Qed.

End InterpA.
