(* C14 lemmas, part 9 (QN): continuity.  The interpolant is globally Lipschitz -- inside cells AND across cell
   borders -- with constants bounding the table's divided differences; such constants exist for every table;
   clamping is 1-Lipschitz; hence the speed/grade prediction is (uniformly) continuous in the converted inputs. *)
From Coq Require Import ZArith QArith Qminmax Qabs List Bool Arith Lia Lqa String.
From RC Require Import Base.Num Base.Res Model.Interp
                       Proofs.Interp Proofs.InterpGrid Proofs.InterpSG Proofs.InterpTop.
Import ListNotations.
Import Interp InterpP InterpG InterpS InterpT.
Open Scope Q_scope.

Module InterpL.

(* the interpolant along one axis for nodal values v *)
Definition A (g : list Q) (v : nat -> Q) (i : nat) (x : Q) : Q := ler (v i) (v (S i)) (fr g i x).

Lemma qmul_mono_l : forall t a b, 0 <= t -> a <= b -> t * a <= t * b.
Proof.
  intros t a b Ht Hab. apply Qle_minus_iff. setoid_replace (t * b + - (t * a)) with (t * (b - a)) by ring.
  apply Qmult_le_0_compat; lra.
Qed.

Lemma abs_sub_le : forall a b, a - b <= Qabs (a - b) /\ b - a <= Qabs (a - b).
Proof.
  intros a b. split; [apply Qle_Qabs|]. rewrite Qabs_Qminus. apply Qle_Qabs.
Qed.

Lemma axis_cell_proper : forall g x x' i, x == x' -> axis_cell g x i -> axis_cell g x' i.
Proof. intros g x x' i He [H1 H2 H3 H4]. constructor; try assumption; rewrite <- He; assumption. Qed.

Lemma A_same_cell : forall g v i x x' K, axis_cell g x i -> axis_cell g x' i -> 0 <= K ->
  Qabs (v (S i) - v i) <= K * (nq g (S i) - nq g i) ->
  Qabs (A g v i x' - A g v i x) <= K * Qabs (x' - x).
Proof.
  intros g v i x x' K [H1 H2 H3 H4] _ HK Hv.
  set (w := nq g (S i) - nq g i) in *. assert (Hw : 0 < w) by (unfold w; lra).
  set (r := (x' - x) / w).
  assert (E : A g v i x' - A g v i x == (v (S i) - v i) * r).
  { unfold A, ler, fr, r. fold w. field. lra. }
  assert (Er : Qabs r * w == Qabs (x' - x)).
  { rewrite <- (Qabs_pos w) at 1 by lra. rewrite <- Qabs_Qmult. apply Qabs_wd. unfold r. field. lra. }
  rewrite E, Qabs_Qmult.
  apply Qle_trans with (K * w * Qabs r).
  - apply Qmult_le_compat_r; [exact Hv|apply Qabs_nonneg].
  - rewrite <- Er. apply Qle_lteq. right. ring.
Qed.

Section Axis.
  Variables (g : list Q) (v : nat -> Q) (K : Q).
  Hypothesis Hinc : incr g.
  Hypothesis HK : 0 <= K.
  Hypothesis Hv : forall a, (S a < List.length g)%nat -> Qabs (v (S a) - v a) <= K * (nq g (S a) - nq g a).

  Lemma A_ordered : forall d i i' x x', i' = (i + d)%nat -> axis_cell g x i -> axis_cell g x' i' -> x <= x' ->
    Qabs (A g v i' x' - A g v i x) <= K * (x' - x).
  Proof.
    induction d as [|d IH]; intros i i' x x' Hi Hc Hc' Hle.
    - replace i' with i in * by lia.
      rewrite <- (Qabs_pos (x' - x)) by lra.
      apply A_same_cell; try assumption. apply Hv. destruct Hc; assumption.
    - pose proof Hc as [C1 C2 C3 C4]. pose proof Hc' as [D1 D2 D3 D4].
      assert (Hm1 : axis_cell g (nq g (S i)) i) by (constructor; try assumption; lra).
      assert (Hm2 : axis_cell g (nq g (S i)) (S i)).
      { constructor; [lia|lra| |]; try (apply Qlt_le_weak);  apply inc_step; try assumption; lia. }
      assert (Hmx : (nq g (S i)) <= x').
      { apply Qle_trans with (nq g i'); [|exact D2]. apply inc_le; [assumption|lia|lia]. }
      assert (E0 : A g v (S i) (nq g (S i)) == A g v i (nq g (S i))).
      { unfold A. symmetry. apply (axis_any_cell g (nq g (S i)) i (S i) v); assumption. }
      setoid_replace (A g v i' x' - A g v i x)
        with ((A g v i' x' - A g v (S i) (nq g (S i))) + (A g v i (nq g (S i)) - A g v i x)) by (rewrite E0; ring).
      eapply Qle_trans; [apply Qabs_triangle|].
      assert (B1 : Qabs (A g v i' x' - A g v (S i) (nq g (S i))) <= K * (x' - (nq g (S i))))
        by (apply (IH (S i) i' (nq g (S i)) x'); try assumption; lia).
      assert (B2 : Qabs (A g v i (nq g (S i)) - A g v i x) <= K * Qabs ((nq g (S i)) - x))
        by (apply A_same_cell; try assumption; apply Hv; assumption).
      assert (Em : Qabs ((nq g (S i)) - x) == (nq g (S i)) - x) by (apply Qabs_pos; lra).
      rewrite Em in B2.
      setoid_replace (K * (x' - x)) with (K * (x' - (nq g (S i))) + K * ((nq g (S i)) - x)) by ring.
      apply Qplus_le_compat; assumption.
  Qed.

  Lemma A_lipschitz_le : forall i i' x x', axis_cell g x i -> axis_cell g x' i' -> x <= x' ->
    Qabs (A g v i' x' - A g v i x) <= K * Qabs (x' - x).
  Proof.
    intros i i' x x' Hc Hc' Hle. destruct (le_lt_dec i i') as [Hii|Hii].
    - rewrite (Qabs_pos (x' - x)) by lra. apply (A_ordered (i' - i) i i'); try assumption. lia.
    - pose proof Hc as [C1 C2 C3 C4]. pose proof Hc' as [D1 D2 D3 D4].
      assert (Hx : x == x').
      { apply Qle_antisym; [exact Hle|]. apply Qle_trans with (nq g (S i')); [exact D3|].
        apply Qle_trans with (nq g i); [apply inc_le; [assumption|lia|lia]|exact C2]. }
      assert (Hc2 : axis_cell g x i') by (apply (axis_cell_proper g x'); [symmetry; exact Hx|exact Hc']).
      assert (E : A g v i x == A g v i' x) by (unfold A; apply (axis_any_cell g x i i' v); assumption).
      rewrite E. apply A_same_cell; try assumption. apply Hv. exact D1.
  Qed.

  Lemma A_lipschitz : forall i i' x x', axis_cell g x i -> axis_cell g x' i' ->
    Qabs (A g v i' x' - A g v i x) <= K * Qabs (x' - x).
  Proof.
    intros i i' x x' Hc Hc'. destruct (Qlt_le_dec x' x) as [Hlt|Hle].
    - rewrite (Qabs_Qminus (A g v i' x')), (Qabs_Qminus x'). apply A_lipschitz_le; try assumption. lra.
    - apply A_lipschitz_le; assumption.
  Qed.
End Axis.

Lemma ler_abs_bound : forall p q d M, 0 <= d -> d <= 1 -> Qabs p <= M -> Qabs q <= M -> Qabs (ler p q d) <= M.
Proof.
  intros p q d M D0 D1 Hp Hq. apply Qabs_Qle_condition in Hp. apply Qabs_Qle_condition in Hq.
  apply Qabs_Qle_condition. destruct Hp, Hq. apply ler_between; assumption.
Qed.

Lemma A_sub : forall g v w i x, A g v i x - A g w i x == A g (fun a => v a - w a) i x.
Proof. intros. unfold A, ler. ring. Qed.

(* ---------- 2-D ---------- *)
Lemma P2_as_y : forall (m : @interp2 QN) i j x y,
  P2 m i j x y = A (y2 m) (fun b => A (x2 m) (fun a => t2 (f2 m) a b) i x) j y.
Proof. reflexivity. Qed.
Lemma P2_as_x : forall (m : @interp2 QN) i j x y,
  P2 m i j x y == A (x2 m) (fun a => A (y2 m) (fun b => t2 (f2 m) a b) j y) i x.
Proof. intros. unfold P2, bil, A, ler. ring. Qed.

(* Kx, Ky bound the divided differences of the table along x and along y *)
Definition dd_bounds (m : @interp2 QN) (Kx Ky : Q) : Prop :=
  0 <= Kx /\ 0 <= Ky /\
  (forall a b, (S a < List.length (x2 m))%nat -> (b < List.length (y2 m))%nat ->
     Qabs (t2 (f2 m) (S a) b - t2 (f2 m) a b) <= Kx * (nq (x2 m) (S a) - nq (x2 m) a)) /\
  (forall a b, (a < List.length (x2 m))%nat -> (S b < List.length (y2 m))%nat ->
     Qabs (t2 (f2 m) a (S b) - t2 (f2 m) a b) <= Ky * (nq (y2 m) (S b) - nq (y2 m) b)).

Lemma P2_lipschitz : forall m Kx Ky i j i' j' x y x' y', valid2 m -> dd_bounds m Kx Ky ->
  axis_cell (x2 m) x i -> axis_cell (y2 m) y j -> axis_cell (x2 m) x' i' -> axis_cell (y2 m) y' j' ->
  Qabs (P2 m i' j' x' y' - P2 m i j x y) <= Kx * Qabs (x' - x) + Ky * Qabs (y' - y).
Proof.
  intros m Kx Ky i j i' j' x y x' y' Hv [HKx [HKy [Hdx Hdy]]] Hi Hj Hi' Hj'.
  pose proof (v2_xinc m Hv) as Hxi. pose proof (v2_yinc m Hv) as Hyi.
  setoid_replace (P2 m i' j' x' y' - P2 m i j x y)
    with ((P2 m i' j' x' y' - P2 m i' j x' y) + (P2 m i' j x' y - P2 m i j x y)) by ring.
  eapply Qle_trans; [apply Qabs_triangle|].
  rewrite (Qplus_comm (Kx * _)). apply Qplus_le_compat.
  - rewrite !P2_as_y. apply A_lipschitz; try assumption.
    intros b Hb. rewrite A_sub. unfold A.
    destruct (axis_cell_range _ _ _ Hi') as [D0 D1]. pose proof Hi' as [L1 _ _ _].
    apply ler_abs_bound; try assumption; apply Hdy; try assumption; qlia.
  - rewrite !P2_as_x. apply A_lipschitz; try assumption.
    intros a Ha. rewrite A_sub. unfold A.
    destruct (axis_cell_range _ _ _ Hj) as [D0 D1]. pose proof Hj as [L1 _ _ _].
    apply ler_abs_bound; try assumption; apply Hdx; try assumption; qlia.
Qed.

(* such bounds exist for every table (a finite maximum) *)
Lemma finite_bound1 : forall (phi : nat -> Q) n, exists K, 0 <= K /\ forall a, (a < n)%nat -> phi a <= K.
Proof.
  intros phi. induction n as [|n [K [HK H]]].
  - exists 0. split; [apply Qle_refl|intros a Ha; lia].
  - exists (Qmax K (phi n)). split; [eapply Qle_trans; [exact HK|apply Q.le_max_l]|].
    intros a Ha. destruct (Nat.eq_dec a n) as [->|Hne]; [apply Q.le_max_r|].
    eapply Qle_trans; [apply H; lia|apply Q.le_max_l].
Qed.
Lemma finite_bound2 : forall (phi : nat -> nat -> Q) n k,
  exists K, 0 <= K /\ forall a b, (a < n)%nat -> (b < k)%nat -> phi a b <= K.
Proof.
  intros phi n k. induction n as [|n [K [HK H]]].
  - exists 0. split; [apply Qle_refl|intros a b Ha; lia].
  - destruct (finite_bound1 (phi n) k) as [K2 [HK2 H2]].
    exists (Qmax K K2). split; [eapply Qle_trans; [exact HK|apply Q.le_max_l]|].
    intros a b Ha Hb. destruct (Nat.eq_dec a n) as [->|Hne].
    + eapply Qle_trans; [apply H2; exact Hb|apply Q.le_max_r].
    + eapply Qle_trans; [apply H; [lia|exact Hb]|apply Q.le_max_l].
Qed.

Lemma div_le_mul : forall a b c, 0 < b -> a / b <= c -> a <= c * b.
Proof.
  intros a b c Hb H. setoid_replace a with (a / b * b) by (field; lra).
  apply Qmult_le_compat_r; [exact H|lra].
Qed.

Lemma dd_bounds_exist : forall m, valid2 m -> exists Kx Ky, dd_bounds m Kx Ky.
Proof.
  intros m Hv. pose proof (v2_xinc m Hv) as Hxi. pose proof (v2_yinc m Hv) as Hyi.
  destruct (finite_bound2
              (fun a b => Qabs (t2 (f2 m) (S a) b - t2 (f2 m) a b) / (nq (x2 m) (S a) - nq (x2 m) a))
              (List.length (x2 m)) (List.length (y2 m))) as [Kx [HKx Hx]].
  destruct (finite_bound2
              (fun a b => Qabs (t2 (f2 m) a (S b) - t2 (f2 m) a b) / (nq (y2 m) (S b) - nq (y2 m) b))
              (List.length (x2 m)) (List.length (y2 m))) as [Ky [HKy Hy]].
  exists Kx, Ky. split; [exact HKx|]. split; [exact HKy|]. split.
  - intros a b Ha Hb. assert (Hw : 0 < nq (x2 m) (S a) - nq (x2 m) a).
    { pose proof (inc_step (x2 m) a Hxi Ha). lra. }
    specialize (Hx a b ltac:(lia) Hb). cbv beta in Hx.
    apply div_le_mul; [exact Hw|exact Hx].
  - intros a b Ha Hb. assert (Hw : 0 < nq (y2 m) (S b) - nq (y2 m) b).
    { pose proof (inc_step (y2 m) b Hyi Hb). lra. }
    specialize (Hy a b Ha ltac:(lia)). cbv beta in Hy.
    apply div_le_mul; [exact Hw|exact Hy].
Qed.

(* ---------- clamp is 1-Lipschitz ---------- *)
Lemma clamp_lipschitz : forall lo hi a b : Q, lo <= hi ->
  Qabs (clamp (N:=QN) lo hi a - clamp (N:=QN) lo hi b) <= Qabs (a - b).
Proof.
  intros lo hi a b Hle. destruct (abs_sub_le a b) as [H1 H2].
  apply Qabs_Qle_condition.
  destruct (clamp_cases lo hi a Hle) as [[A1 ->]|[[A1 ->]|[A1 [A2 ->]]]];
  destruct (clamp_cases lo hi b Hle) as [[B1 ->]|[[B1 ->]|[B1 [B2 ->]]]]; split; lra.
Qed.

(* ---------- the speed/grade model ---------- *)
Section SG.
  Variable underlying : Q -> Q -> res Q.
  Variables (s_lo s_hi : Q) (s_bins : nat) (g_lo g_hi : Q) (g_bins : nat) (m : @interp2 QN).
  Hypothesis Hnew : sg_new (N:=QN) underlying s_lo s_hi s_bins g_lo g_hi g_bins = Ok m.
  Hypothesis Hsb : (2 <= s_bins)%nat.
  Hypothesis Hgb : (2 <= g_bins)%nat.

  (* global Lipschitz bound on already converted inputs, anywhere in the plane *)
  Lemma sg_lipschitz : forall Kx Ky sv gv sv' gv', dd_bounds m Kx Ky ->
    exists v v', sg_predict_conv (N:=QN) m sv gv = Ok v /\ sg_predict_conv (N:=QN) m sv' gv' = Ok v' /\
                 Qabs (v' - v) <= Kx * Qabs (sv' - sv) + Ky * Qabs (gv' - gv).
  Proof.
    intros Kx Ky sv gv sv' gv' Hdd.
    pose proof (sg_valid underlying s_lo s_hi s_bins g_lo g_hi g_bins m Hnew Hsb Hgb) as Hv.
    pose proof Hv as [Hxi Hyi Hxl Hyl _ _].
    destruct (sg_predict_conv_formula m sv gv Hv) as [i [j [Hi [Hj Hr]]]].
    destruct (sg_predict_conv_formula m sv' gv' Hv) as [i' [j' [Hi' [Hj' Hr']]]].
    eexists; eexists. split; [exact Hr|]. split; [exact Hr'|].
    eapply Qle_trans; [apply (P2_lipschitz m Kx Ky); eassumption|].
    pose proof Hdd as [HKx [HKy _]].
    apply Qplus_le_compat.
    - apply qmul_mono_l; [exact HKx|]. unfold cl_s. apply clamp_lipschitz. apply first_le_last; assumption.
    - apply qmul_mono_l; [exact HKy|]. unfold cl_g. apply clamp_lipschitz. apply first_le_last; assumption.
  Qed.

  (* continuity (uniform): for every eps there is a delta that works at every point *)
  Lemma sg_continuous : forall eps, 0 < eps ->
    exists delta, 0 < delta /\
      forall sv gv sv' gv', Qabs (sv' - sv) < delta -> Qabs (gv' - gv) < delta ->
        exists v v', sg_predict_conv (N:=QN) m sv gv = Ok v /\ sg_predict_conv (N:=QN) m sv' gv' = Ok v' /\
                     Qabs (v' - v) < eps.
  Proof.
    intros eps Heps.
    pose proof (sg_valid underlying s_lo s_hi s_bins g_lo g_hi g_bins m Hnew Hsb Hgb) as Hv.
    destruct (dd_bounds_exist m Hv) as [Kx [Ky Hdd]]. pose proof Hdd as [HKx [HKy _]].
    assert (Hden : 0 < Kx + Ky + 1) by lra.
    exists (eps / (Kx + Ky + 1)). split; [apply Qlt_shift_div_l; [exact Hden|lra]|].
    intros sv gv sv' gv' Hs Hg.
    destruct (sg_lipschitz Kx Ky sv gv sv' gv' Hdd) as [v [v' [Hr [Hr' Hb]]]].
    exists v, v'. split; [exact Hr|]. split; [exact Hr'|].
    set (delta := eps / (Kx + Ky + 1)) in *.
    assert (Hd : 0 < delta) by (apply Qlt_shift_div_l; [exact Hden|lra]).
    assert (E : eps == (Kx + Ky + 1) * delta) by (unfold delta; field; lra).
    assert (B1 : Kx * Qabs (sv' - sv) <= Kx * delta) by (apply qmul_mono_l; [exact HKx|apply Qlt_le_weak; exact Hs]).
    assert (B2 : Ky * Qabs (gv' - gv) <= Ky * delta) by (apply qmul_mono_l; [exact HKy|apply Qlt_le_weak; exact Hg]).
    rewrite E. lra.
  Qed.
End SG.

End InterpL.
