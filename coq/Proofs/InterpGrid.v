(* C14 lemmas, part 2 (QN): Interp1D / Interp2D / Interp3D and the speed/grade model.
   Each interpolator is reduced to ONE formula lemma: for an in-range point the code returns the polynomial of a cell
   that contains the point (P1 / P2 / P3 below).  Convexity, exactness on grid points, border agreement and exact
   reproduction of multilinear functions are then properties of these polynomials. *)
From Coq Require Import ZArith QArith Qminmax List Bool Arith Lia Lqa String.
From RC Require Import Base.Num Base.Res Model.Interp Proofs.Interp.
Import ListNotations.
Import Interp InterpP.
Open Scope Q_scope.

Module InterpG.

Ltac qn := change (T QN) with Q in *.
Ltac qlia := qn; lia.

Definition inr (g : list Q) (x : Q) : Prop := nq g 0 <= x /\ x <= lastq g.

Lemma in_axis_true : forall g x, (1 <= List.length g)%nat -> inr g x -> in_axis (N:=QN) g x = Ok true.
Proof.
  intros g x Hl Hin. rewrite in_axis_spec by exact Hl. f_equal. apply in_range_true. exact Hin.
Qed.
Lemma in_axis_false : forall g x, (1 <= List.length g)%nat -> ~ inr g x -> in_axis (N:=QN) g x = Ok false.
Proof.
  intros g x Hl Hin. rewrite in_axis_spec by exact Hl. f_equal.
  destruct (leb (n:=QN) (nq g 0) x && leb (n:=QN) x (lastq g)) eqn:E; [|reflexivity].
  apply in_range_true in E. contradiction.
Qed.
Lemma inr_dec : forall g x, {inr g x} + {~ inr g x}.
Proof.
  intros g x. unfold inr. destruct (Qlt_le_dec x (nq g 0)) as [H|H].
  - right. intros [H1 _]. exact (Qlt_not_le _ _ H H1).
  - destruct (Qlt_le_dec (lastq g) x) as [H'|H'].
    + right. intros [_ H2]. exact (Qlt_not_le _ _ H' H2).
    + left. split; assumption.
Qed.

(* a grid value is in range *)
Lemma grid_value_inr : forall g k, incr g -> (k < List.length g)%nat -> inr g (nq g k).
Proof.
  intros g k Hinc Hk. split; [apply inc_le; [assumption|qlia|assumption]|].
  unfold lastq. apply inc_le; [assumption|qlia|qlia].
Qed.
Lemma inr_proper : forall g x x', x == x' -> inr g x -> inr g x'.
Proof. intros g x x' He [H1 H2]. split; rewrite <- He; assumption. Qed.

(* =================================================================== 1-D *)
Record valid1 (m : @interp1 QN) : Prop := {
  v1_inc : incr (x1 m);
  v1_len : (2 <= List.length (x1 m))%nat;
  v1_flen : List.length (f1 m) = List.length (x1 m);
}.

Lemma new1_valid : forall x f m, interp1_new (N:=QN) x f = Ok m -> (2 <= List.length x)%nat ->
  valid1 m /\ x1 m = x /\ f1 m = f.
Proof.
  intros x f m H Hl. unfold interp1_new in H. qn.
  destruct (List.length x =? 0)%nat eqn:E0; [discriminate|].
  destruct (increasing (N:=QN) x) eqn:Ei; cbn [negb] in H; [|discriminate].
  destruct (List.length x =? List.length f)%nat eqn:El; cbn [negb] in H; [|discriminate].
  injection H as <-. apply Nat.eqb_eq in El. cbn [x1 f1].
  split; [|split; reflexivity]. constructor; cbn [x1 f1]; qn; [exact Ei|exact Hl|qlia].
Qed.

Definition P1 (m : @interp1 QN) (i : nat) (p : Q) : Q :=
  ler (nq (f1 m) i) (nq (f1 m) (S i)) (fr (x1 m) i p).

Lemma interp1_linear_formula : forall m p, valid1 m -> inr (x1 m) p ->
  exists i v, axis_cell (x1 m) p i /\ interp1_linear (N:=QN) m p = Ok v /\ v == P1 m i p.
Proof.
  intros m p [Hinc Hlen Hfl] [Hlo Hhi].
  destruct (axis_spec (x1 m) p Hinc Hlen Hlo Hhi) as [i [Hi [Hf Hc]]].
  exists i. unfold interp1_linear. qn.
  destruct (position (N:=QN) (x1 m) p) as [k|] eqn:Ep.
  - destruct (position_some _ _ _ Ep) as [Hk He].
    exists (nq (f1 m) k). split; [exact Hc|]. split; [apply idx_ok; qlia|].
    unfold P1. symmetry. apply (axis_on_grid (x1 m) p i k (nq (f1 m))); assumption.
  - exists (P1 m i p). split; [exact Hc|]. split; [|reflexivity].
    rewrite Hi. cbn [bind]. rewrite Hf. cbn [bind].
    destruct Hc as [Hc1 _ _ _].
    rewrite (idx_ok (f1 m) i) by qlia. cbn [bind].
    rewrite (idx_ok (f1 m) (S i)) by qlia. cbn [bind]. reflexivity.
Qed.

Lemma interpolate1_formula : forall m p, valid1 m -> inr (x1 m) p ->
  exists i v, axis_cell (x1 m) p i /\ interpolate1 (N:=QN) m [p] = Ok v /\ v == P1 m i p.
Proof.
  intros m p Hv Hin. destruct (interp1_linear_formula m p Hv Hin) as [i [v [Hc [Hr He]]]].
  exists i, v. split; [exact Hc|]. split; [|exact He].
  unfold interpolate1. rewrite in_axis_true; [|destruct Hv; qlia|exact Hin]. cbn [bind]. exact Hr.
Qed.

Lemma interpolate1_outside : forall m p, valid1 m -> ~ inr (x1 m) p ->
  interpolate1 (N:=QN) m [p] = Err "out-of-grid".
Proof.
  intros m p Hv Hout. unfold interpolate1. rewrite in_axis_false; [reflexivity|destruct Hv; qlia|exact Hout].
Qed.
Lemma interpolate1_wrong_len : forall (m : @interp1 QN) pt, List.length pt <> 1%nat -> interpolate1 (N:=QN) m pt = Err "point-len".
Proof. intros m [|a [|b r]] H; cbn in *; try reflexivity; qlia. Qed.

(* properties of the 1-D cell polynomial *)
Lemma P1_between : forall (m : @interp1 QN) i p lo hi, axis_cell (x1 m) p i ->
  lo <= nq (f1 m) i -> nq (f1 m) i <= hi -> lo <= nq (f1 m) (S i) -> nq (f1 m) (S i) <= hi ->
  lo <= P1 m i p /\ P1 m i p <= hi.
Proof.
  intros m i p lo hi Hc A1 A2 B1 B2. destruct (axis_cell_range _ _ _ Hc) as [D0 D1].
  unfold P1. apply ler_between; assumption.
Qed.
Lemma P1_on_grid : forall (m : @interp1 QN) i p k, incr (x1 m) -> axis_cell (x1 m) p i -> (k < List.length (x1 m))%nat ->
  p == nq (x1 m) k -> P1 m i p == nq (f1 m) k.
Proof. intros m i p k Hinc Hc Hk He. unfold P1. apply (axis_on_grid (x1 m) p i k (nq (f1 m))); assumption. Qed.
Lemma P1_any_cell : forall (m : @interp1 QN) i k p, incr (x1 m) -> axis_cell (x1 m) p i -> axis_cell (x1 m) p k ->
  P1 m i p == P1 m k p.
Proof. intros m i k p Hinc Hi Hk. unfold P1. apply (axis_any_cell (x1 m) p i k (nq (f1 m))); assumption. Qed.
Lemma P1_affine : forall (m : @interp1 QN) i p A B, axis_cell (x1 m) p i ->
  (forall k, (k < List.length (x1 m))%nat -> nq (f1 m) k == A + B * nq (x1 m) k) ->
  P1 m i p == A + B * p.
Proof.
  intros m i p A B [H1 H2 H3 H4] Hf. unfold P1. rewrite (Hf i), (Hf (S i)) by qlia.
  apply axis_affine. exact H4.
Qed.

(* =================================================================== 2-D *)
Definition t2 (f : list (list Q)) (i j : nat) : Q := nth j (nth i f []) 0.

Record valid2 (m : @interp2 QN) : Prop := {
  v2_xinc : incr (x2 m);
  v2_yinc : incr (y2 m);
  v2_xlen : (2 <= List.length (x2 m))%nat;
  v2_ylen : (2 <= List.length (y2 m))%nat;
  v2_flen : List.length (f2 m) = List.length (x2 m);
  v2_rows : forall i, (i < List.length (x2 m))%nat -> List.length (nth i (f2 m) []) = List.length (y2 m);
}.

Lemma forallb_nth : forall {A} (P : A -> bool) (l : list A) d i,
  forallb P l = true -> (i < List.length l)%nat -> P (nth i l d) = true.
Proof. intros A P l d i H Hi. rewrite forallb_forall in H. apply H. apply nth_In. exact Hi. Qed.

Lemma new2_valid : forall x y f m, interp2_new (N:=QN) x y f = Ok m ->
  (2 <= List.length x)%nat -> (2 <= List.length y)%nat ->
  valid2 m /\ x2 m = x /\ y2 m = y /\ f2 m = f.
Proof.
  intros x y f m H Hlx Hly. unfold interp2_new in H. qn.
  destruct ((List.length x =? 0)%nat || (List.length y =? 0)%nat) eqn:E0; [discriminate|].
  destruct (increasing (N:=QN) x && increasing (N:=QN) y) eqn:Ei; cbn [negb] in H; [|discriminate].
  destruct ((List.length x =? List.length f)%nat &&
            forallb (fun r : list Q => (List.length r =? List.length y)%nat) f) eqn:El;
    cbn [negb] in H; [|discriminate].
  injection H as <-. cbn [x2 y2 f2].
  apply andb_true_iff in Ei. destruct Ei as [Eix Eiy].
  apply andb_true_iff in El. destruct El as [Elx Elr]. apply Nat.eqb_eq in Elx.
  split; [|repeat split; reflexivity].
  constructor; cbn [x2 y2 f2]; qn; try assumption; [qlia|].
  intros i Hi. apply Nat.eqb_eq.
  apply (forallb_nth (fun r : list Q => (List.length r =? List.length y)%nat) f [] i Elr). qlia.
Qed.

Lemma idx2_ok : forall (f : list (list Q)) i j, (i < List.length f)%nat ->
  (j < List.length (nth i f []))%nat -> idx2 (N:=QN) f i j = Ok (t2 f i j).
Proof.
  intros f i j Hi Hj. unfold idx2. qn. rewrite (idx_ok_gen f i [] Hi). cbn [bind].
  rewrite (idx_ok _ j Hj). reflexivity.
Qed.

(* the bilinear polynomial of cell (i, j), in the order of the code: x first, then y *)
Definition bil (f : list (list Q)) (i j : nat) (xd yd : Q) : Q :=
  ler (ler (t2 f i j) (t2 f (S i) j) xd) (ler (t2 f i (S j)) (t2 f (S i) (S j)) xd) yd.
Definition P2 (m : @interp2 QN) (i j : nat) (px py : Q) : Q :=
  bil (f2 m) i j (fr (x2 m) i px) (fr (y2 m) j py).

Lemma interp2_linear_formula : forall m px py, valid2 m -> inr (x2 m) px -> inr (y2 m) py ->
  exists i j, axis_cell (x2 m) px i /\ axis_cell (y2 m) py j /\
              interp2_linear (N:=QN) m px py = Ok (P2 m i j px py).
Proof.
  intros m px py [Hxi Hyi Hxl Hyl Hfl Hrows] [Hx1 Hx2] [Hy1 Hy2].
  destruct (axis_spec (x2 m) px Hxi Hxl Hx1 Hx2) as [i [Hi [Hfi Hci]]].
  destruct (axis_spec (y2 m) py Hyi Hyl Hy1 Hy2) as [j [Hj [Hfj Hcj]]].
  exists i, j. split; [exact Hci|]. split; [exact Hcj|].
  destruct Hci as [Li _ _ _]. destruct Hcj as [Lj _ _ _].
  unfold interp2_linear. qn.
  rewrite Hi. cbn [bind]. rewrite Hfi. cbn [bind]. rewrite Hj. cbn [bind]. rewrite Hfj. cbn [bind].
  rewrite (idx2_ok (f2 m) i j) by (rewrite ?Hrows; qlia). cbn [bind].
  rewrite (idx2_ok (f2 m) (S i) j) by (rewrite ?Hrows; qlia). cbn [bind].
  rewrite (idx2_ok (f2 m) i (S j)) by (rewrite ?Hrows; qlia). cbn [bind].
  rewrite (idx2_ok (f2 m) (S i) (S j)) by (rewrite ?Hrows; qlia). cbn [bind].
  reflexivity.
Qed.

Lemma interpolate2_formula : forall m px py, valid2 m -> inr (x2 m) px -> inr (y2 m) py ->
  exists i j, axis_cell (x2 m) px i /\ axis_cell (y2 m) py j /\
              interpolate2 (N:=QN) m [px; py] = Ok (P2 m i j px py).
Proof.
  intros m px py Hv Hx Hy. destruct (interp2_linear_formula m px py Hv Hx Hy) as [i [j [Hi [Hj Hr]]]].
  exists i, j. split; [exact Hi|]. split; [exact Hj|].
  unfold interpolate2. destruct Hv as [_ _ Hxl Hyl _ _].
  rewrite in_axis_true; [|qlia|exact Hx]. cbn [bind].
  rewrite in_axis_true; [|qlia|exact Hy]. cbn [bind andb]. exact Hr.
Qed.

Lemma interpolate2_outside : forall m px py, valid2 m -> ~ (inr (x2 m) px /\ inr (y2 m) py) ->
  interpolate2 (N:=QN) m [px; py] = Err "out-of-grid".
Proof.
  intros m px py [_ _ Hxl Hyl _ _] Hout. unfold interpolate2.
  destruct (inr_dec (x2 m) px) as [Hx|Hx].
  - rewrite in_axis_true; [|qlia|exact Hx]. cbn [bind].
    destruct (inr_dec (y2 m) py) as [Hy|Hy]; [tauto|].
    rewrite in_axis_false; [|qlia|exact Hy]. reflexivity.
  - rewrite in_axis_false; [|qlia|exact Hx]. reflexivity.
Qed.
Lemma interpolate2_wrong_len : forall (m : @interp2 QN) pt, List.length pt <> 2%nat -> interpolate2 (N:=QN) m pt = Err "point-len".
Proof. intros m [|a [|b [|c r]]] H; cbn in *; try reflexivity; qlia. Qed.

(* properties of the bilinear cell polynomial *)
Lemma P2_between : forall (m : @interp2 QN) i j px py lo hi, axis_cell (x2 m) px i -> axis_cell (y2 m) py j ->
  (forall a b, (a = i \/ a = S i) -> (b = j \/ b = S j) -> lo <= t2 (f2 m) a b /\ t2 (f2 m) a b <= hi) ->
  lo <= P2 m i j px py /\ P2 m i j px py <= hi.
Proof.
  intros m i j px py lo hi Hi Hj Hc.
  destruct (axis_cell_range _ _ _ Hi) as [X0 X1]. destruct (axis_cell_range _ _ _ Hj) as [Y0 Y1].
  unfold P2, bil.
  destruct (Hc i j) as [A1 A2]; auto. destruct (Hc (S i) j) as [B1 B2]; auto.
  destruct (Hc i (S j)) as [C1 C2]; auto. destruct (Hc (S i) (S j)) as [D1 D2]; auto.
  split; [repeat (apply ler_lb; try assumption)|repeat (apply ler_ub; try assumption)].
Qed.

Lemma P2_on_grid : forall (m : @interp2 QN) i j px py k l, incr (x2 m) -> incr (y2 m) ->
  axis_cell (x2 m) px i -> axis_cell (y2 m) py j ->
  (k < List.length (x2 m))%nat -> (l < List.length (y2 m))%nat ->
  px == nq (x2 m) k -> py == nq (y2 m) l -> P2 m i j px py == t2 (f2 m) k l.
Proof.
  intros m i j px py k l Hxi Hyi Hi Hj Hk Hl Ex Ey. unfold P2, bil.
  rewrite (axis_on_grid (x2 m) px i k (fun a => t2 (f2 m) a j) Hxi Hi Hk Ex).
  rewrite (axis_on_grid (x2 m) px i k (fun a => t2 (f2 m) a (S j)) Hxi Hi Hk Ex).
  apply (axis_on_grid (y2 m) py j l (fun b => t2 (f2 m) k b) Hyi Hj Hl Ey).
Qed.

(* on a grid line in x (any y) the value is the 1-D blend along that line *)
Lemma P2_on_xline : forall (m : @interp2 QN) i j px py k, incr (x2 m) ->
  axis_cell (x2 m) px i -> (k < List.length (x2 m))%nat -> px == nq (x2 m) k ->
  P2 m i j px py == ler (t2 (f2 m) k j) (t2 (f2 m) k (S j)) (fr (y2 m) j py).
Proof.
  intros m i j px py k Hxi Hi Hk Ex. unfold P2, bil.
  rewrite (axis_on_grid (x2 m) px i k (fun a => t2 (f2 m) a j) Hxi Hi Hk Ex).
  rewrite (axis_on_grid (x2 m) px i k (fun a => t2 (f2 m) a (S j)) Hxi Hi Hk Ex).
  reflexivity.
Qed.

Lemma P2_any_cell : forall (m : @interp2 QN) i j i' j' px py, incr (x2 m) -> incr (y2 m) ->
  axis_cell (x2 m) px i -> axis_cell (y2 m) py j -> axis_cell (x2 m) px i' -> axis_cell (y2 m) py j' ->
  P2 m i j px py == P2 m i' j' px py.
Proof.
  intros m i j i' j' px py Hxi Hyi Hi Hj Hi' Hj'. unfold P2, bil.
  rewrite (axis_any_cell (y2 m) py j j'
             (fun b => ler (t2 (f2 m) i b) (t2 (f2 m) (S i) b) (fr (x2 m) i px)) Hyi Hj Hj').
  cbv beta.
  rewrite (axis_any_cell (x2 m) px i i' (fun a => t2 (f2 m) a j') Hxi Hi Hi').
  rewrite (axis_any_cell (x2 m) px i i' (fun a => t2 (f2 m) a (S j')) Hxi Hi Hi').
  reflexivity.
Qed.

(* f(x, y) = c0 + c1 x + c2 y + c3 x y sampled on the grid is reproduced exactly *)
Definition mlin2 (c0 c1 c2 c3 x y : Q) : Q := c0 + c1 * x + c2 * y + c3 * x * y.
Lemma P2_multilinear : forall (m : @interp2 QN) i j px py c0 c1 c2 c3,
  axis_cell (x2 m) px i -> axis_cell (y2 m) py j ->
  (forall a b, (a < List.length (x2 m))%nat -> (b < List.length (y2 m))%nat ->
               t2 (f2 m) a b == mlin2 c0 c1 c2 c3 (nq (x2 m) a) (nq (y2 m) b)) ->
  P2 m i j px py == mlin2 c0 c1 c2 c3 px py.
Proof.
  intros m i j px py c0 c1 c2 c3 [X1 X2 X3 X4] [Y1 Y2 Y3 Y4] Hf. unfold P2, bil.
  rewrite (Hf i j), (Hf (S i) j), (Hf i (S j)), (Hf (S i) (S j)) by qlia.
  unfold mlin2, ler, fr. field. split; lra.
Qed.

(* Lipschitz inside a cell (with border agreement this is the algebra behind continuity):
   moving the point inside one cell changes the value by at most the corner spread times the moved fractions *)
Lemma bil_diff_x : forall f i j xd xd' yd,
  bil f i j xd yd - bil f i j xd' yd ==
  (xd - xd') * (ler (t2 f (S i) j - t2 f i j) (t2 f (S i) (S j) - t2 f i (S j)) yd).
Proof. intros. unfold bil, ler. ring. Qed.
Lemma bil_diff_y : forall f i j xd yd yd',
  bil f i j xd yd - bil f i j xd yd' ==
  (yd - yd') * (ler (t2 f i (S j) - t2 f i j) (t2 f (S i) (S j) - t2 f (S i) j) xd).
Proof. intros. unfold bil, ler. ring. Qed.

(* =================================================================== 3-D *)
Definition t3 (f : list (list (list Q))) (i j k : nat) : Q := nth k (nth j (nth i f []) []) 0.

Record valid3 (m : @interp3 QN) : Prop := {
  v3_xinc : incr (x3 m); v3_yinc : incr (y3 m); v3_zinc : incr (z3 m);
  v3_xlen : (2 <= List.length (x3 m))%nat;
  v3_ylen : (2 <= List.length (y3 m))%nat;
  v3_zlen : (2 <= List.length (z3 m))%nat;
  v3_flen : List.length (f3 m) = List.length (x3 m);
  v3_rows : forall i, (i < List.length (x3 m))%nat -> List.length (nth i (f3 m) []) = List.length (y3 m);
  v3_cols : forall i j, (i < List.length (x3 m))%nat -> (j < List.length (y3 m))%nat ->
                        List.length (nth j (nth i (f3 m) []) []) = List.length (z3 m);
}.

Lemma new3_valid : forall x y z f m, interp3_new (N:=QN) x y z f = Ok m ->
  (2 <= List.length x)%nat -> (2 <= List.length y)%nat -> (2 <= List.length z)%nat ->
  valid3 m /\ x3 m = x /\ y3 m = y /\ z3 m = z /\ f3 m = f.
Proof.
  intros x y z f m H Hlx Hly Hlz. unfold interp3_new in H. qn.
  destruct ((List.length x =? 0)%nat || (List.length y =? 0)%nat || (List.length z =? 0)%nat) eqn:E0;
    [discriminate|].
  destruct (increasing (N:=QN) x && increasing (N:=QN) y && increasing (N:=QN) z) eqn:Ei;
    cbn [negb] in H; [|discriminate].
  match type of H with (if negb ?c then _ else _) = _ => destruct c eqn:El end; cbn [negb] in H; [|discriminate].
  injection H as <-. cbn [x3 y3 z3 f3].
  apply andb_true_iff in Ei. destruct Ei as [Ei Eiz]. apply andb_true_iff in Ei. destruct Ei as [Eix Eiy].
  apply andb_true_iff in El. destruct El as [El Elc]. apply andb_true_iff in El. destruct El as [Elx Elr].
  apply Nat.eqb_eq in Elx.
  split; [|repeat split; reflexivity].
  assert (Hrows : forall i, (i < List.length x)%nat -> List.length (nth i f []) = List.length y).
  { intros i Hi. apply Nat.eqb_eq.
    apply (forallb_nth (fun r : list (list Q) => (List.length r =? List.length y)%nat) f [] i Elr). qlia. }
  constructor; cbn [x3 y3 z3 f3]; qn; try assumption; [qlia|].
  intros i j Hi Hj. apply Nat.eqb_eq.
  pose proof (forallb_nth _ f [] i Elc ltac:(lia)) as Hr. cbv beta in Hr.
  apply (forallb_nth (fun c : list Q => (List.length c =? List.length z)%nat) (nth i f []) [] j Hr).
  rewrite Hrows by exact Hi. exact Hj.
Qed.

Lemma idx3_ok : forall (f : list (list (list Q))) i j k, (i < List.length f)%nat ->
  (j < List.length (nth i f []))%nat -> (k < List.length (nth j (nth i f []) []))%nat ->
  idx3 (N:=QN) f i j k = Ok (t3 f i j k).
Proof.
  intros f i j k Hi Hj Hk. unfold idx3. qn. rewrite (idx_ok_gen f i [] Hi). cbn [bind].
  rewrite (idx_ok_gen _ j [] Hj). cbn [bind]. rewrite (idx_ok _ k Hk). reflexivity.
Qed.

(* the trilinear polynomial of a cell, in the order of the code: x, then y, then z *)
Definition tri (f : list (list (list Q))) (i j k : nat) (xd yd zd : Q) : Q :=
  let c00 := ler (t3 f i j k) (t3 f (S i) j k) xd in
  let c01 := ler (t3 f i j (S k)) (t3 f (S i) j (S k)) xd in
  let c10 := ler (t3 f i (S j) k) (t3 f (S i) (S j) k) xd in
  let c11 := ler (t3 f i (S j) (S k)) (t3 f (S i) (S j) (S k)) xd in
  ler (ler c00 c10 yd) (ler c01 c11 yd) zd.
Definition P3 (m : @interp3 QN) (i j k : nat) (px py pz : Q) : Q :=
  tri (f3 m) i j k (fr (x3 m) i px) (fr (y3 m) j py) (fr (z3 m) k pz).

Lemma interp3_linear_formula : forall m px py pz, valid3 m ->
  inr (x3 m) px -> inr (y3 m) py -> inr (z3 m) pz ->
  exists i j k, axis_cell (x3 m) px i /\ axis_cell (y3 m) py j /\ axis_cell (z3 m) pz k /\
                interp3_linear (N:=QN) m px py pz = Ok (P3 m i j k px py pz).
Proof.
  intros m px py pz [Hxi Hyi Hzi Hxl Hyl Hzl Hfl Hrows Hcols] [Hx1 Hx2] [Hy1 Hy2] [Hz1 Hz2].
  destruct (axis_spec (x3 m) px Hxi Hxl Hx1 Hx2) as [i [Hi [Hfi Hci]]].
  destruct (axis_spec (y3 m) py Hyi Hyl Hy1 Hy2) as [j [Hj [Hfj Hcj]]].
  destruct (axis_spec (z3 m) pz Hzi Hzl Hz1 Hz2) as [k [Hk [Hfk Hck]]].
  exists i, j, k. split; [exact Hci|]. split; [exact Hcj|]. split; [exact Hck|].
  destruct Hci as [Li _ _ _]. destruct Hcj as [Lj _ _ _]. destruct Hck as [Lk _ _ _].
  unfold interp3_linear. qn.
  rewrite Hi. cbn [bind]. rewrite Hfi. cbn [bind]. rewrite Hj. cbn [bind]. rewrite Hfj. cbn [bind].
  rewrite Hk. cbn [bind]. rewrite Hfk. cbn [bind].
  assert (I3 : forall a b c, (a < List.length (x3 m))%nat -> (b < List.length (y3 m))%nat ->
                 (c < List.length (z3 m))%nat -> idx3 (N:=QN) (f3 m) a b c = Ok (t3 (f3 m) a b c)).
  { intros a b c Ha Hb Hc. apply idx3_ok; [qlia|rewrite Hrows; assumption|rewrite Hcols; assumption]. }
  rewrite !I3 by qlia. cbn [bind]. reflexivity.
Qed.

Lemma interpolate3_formula : forall m px py pz, valid3 m ->
  inr (x3 m) px -> inr (y3 m) py -> inr (z3 m) pz ->
  exists i j k, axis_cell (x3 m) px i /\ axis_cell (y3 m) py j /\ axis_cell (z3 m) pz k /\
                interpolate3 (N:=QN) m [px; py; pz] = Ok (P3 m i j k px py pz).
Proof.
  intros m px py pz Hv Hx Hy Hz.
  destruct (interp3_linear_formula m px py pz Hv Hx Hy Hz) as [i [j [k [Hi [Hj [Hk Hr]]]]]].
  exists i, j, k. repeat (split; [assumption|]).
  unfold interpolate3. destruct Hv as [_ _ _ Hxl Hyl Hzl _ _ _].
  rewrite in_axis_true; [|qlia|exact Hx]. cbn [bind].
  rewrite in_axis_true; [|qlia|exact Hy]. cbn [bind andb].
  rewrite in_axis_true; [|qlia|exact Hz]. cbn [bind andb]. exact Hr.
Qed.

Lemma interpolate3_outside : forall m px py pz, valid3 m ->
  ~ (inr (x3 m) px /\ inr (y3 m) py /\ inr (z3 m) pz) ->
  interpolate3 (N:=QN) m [px; py; pz] = Err "out-of-grid".
Proof.
  intros m px py pz [_ _ _ Hxl Hyl Hzl _ _ _] Hout. unfold interpolate3.
  destruct (inr_dec (x3 m) px) as [Hx|Hx].
  - rewrite in_axis_true; [|qlia|exact Hx]. cbn [bind].
    destruct (inr_dec (y3 m) py) as [Hy|Hy].
    + rewrite in_axis_true; [|qlia|exact Hy]. cbn [bind andb].
      destruct (inr_dec (z3 m) pz) as [Hz|Hz]; [tauto|].
      rewrite in_axis_false; [|qlia|exact Hz]. reflexivity.
    + rewrite in_axis_false; [|qlia|exact Hy]. reflexivity.
  - rewrite in_axis_false; [|qlia|exact Hx]. reflexivity.
Qed.
Lemma interpolate3_wrong_len : forall (m : @interp3 QN) pt, List.length pt <> 3%nat -> interpolate3 (N:=QN) m pt = Err "point-len".
Proof. intros m [|a [|b [|c [|d r]]]] H; cbn in *; try reflexivity; qlia. Qed.

Lemma P3_between : forall (m : @interp3 QN) i j k px py pz lo hi,
  axis_cell (x3 m) px i -> axis_cell (y3 m) py j -> axis_cell (z3 m) pz k ->
  (forall a b c, (a = i \/ a = S i) -> (b = j \/ b = S j) -> (c = k \/ c = S k) ->
                 lo <= t3 (f3 m) a b c /\ t3 (f3 m) a b c <= hi) ->
  lo <= P3 m i j k px py pz /\ P3 m i j k px py pz <= hi.
Proof.
  intros m i j k px py pz lo hi Hi Hj Hk Hc.
  destruct (axis_cell_range _ _ _ Hi) as [X0 X1]. destruct (axis_cell_range _ _ _ Hj) as [Y0 Y1].
  destruct (axis_cell_range _ _ _ Hk) as [Z0 Z1].
  unfold P3, tri. cbv zeta.
  assert (C : forall a b c, (a = i \/ a = S i) -> (b = j \/ b = S j) -> (c = k \/ c = S k) ->
                lo <= t3 (f3 m) a b c) by (intros; apply Hc; assumption).
  assert (D : forall a b c, (a = i \/ a = S i) -> (b = j \/ b = S j) -> (c = k \/ c = S k) ->
                t3 (f3 m) a b c <= hi) by (intros; apply Hc; assumption).
  split; [repeat (apply ler_lb; try assumption); apply C; auto
         |repeat (apply ler_ub; try assumption); apply D; auto].
Qed.

Lemma P3_on_grid : forall (m : @interp3 QN) i j k px py pz a b c, incr (x3 m) -> incr (y3 m) -> incr (z3 m) ->
  axis_cell (x3 m) px i -> axis_cell (y3 m) py j -> axis_cell (z3 m) pz k ->
  (a < List.length (x3 m))%nat -> (b < List.length (y3 m))%nat -> (c < List.length (z3 m))%nat ->
  px == nq (x3 m) a -> py == nq (y3 m) b -> pz == nq (z3 m) c ->
  P3 m i j k px py pz == t3 (f3 m) a b c.
Proof.
  intros m i j k px py pz a b c Hxi Hyi Hzi Hi Hj Hk Ha Hb Hc Ex Ey Ez. unfold P3, tri. cbv zeta.
  rewrite (axis_on_grid (x3 m) px i a (fun u => t3 (f3 m) u j k) Hxi Hi Ha Ex).
  rewrite (axis_on_grid (x3 m) px i a (fun u => t3 (f3 m) u j (S k)) Hxi Hi Ha Ex).
  rewrite (axis_on_grid (x3 m) px i a (fun u => t3 (f3 m) u (S j) k) Hxi Hi Ha Ex).
  rewrite (axis_on_grid (x3 m) px i a (fun u => t3 (f3 m) u (S j) (S k)) Hxi Hi Ha Ex).
  rewrite (axis_on_grid (y3 m) py j b (fun u => t3 (f3 m) a u k) Hyi Hj Hb Ey).
  rewrite (axis_on_grid (y3 m) py j b (fun u => t3 (f3 m) a u (S k)) Hyi Hj Hb Ey).
  apply (axis_on_grid (z3 m) pz k c (fun u => t3 (f3 m) a b u) Hzi Hk Hc Ez).
Qed.

Lemma P3_any_cell : forall (m : @interp3 QN) i j k i' j' k' px py pz, incr (x3 m) -> incr (y3 m) -> incr (z3 m) ->
  axis_cell (x3 m) px i -> axis_cell (y3 m) py j -> axis_cell (z3 m) pz k ->
  axis_cell (x3 m) px i' -> axis_cell (y3 m) py j' -> axis_cell (z3 m) pz k' ->
  P3 m i j k px py pz == P3 m i' j' k' px py pz.
Proof.
  intros m i j k i' j' k' px py pz Hxi Hyi Hzi Hi Hj Hk Hi' Hj' Hk'. unfold P3, tri. cbv zeta.
  rewrite (axis_any_cell (z3 m) pz k k'
     (fun c => ler (ler (t3 (f3 m) i j c) (t3 (f3 m) (S i) j c) (fr (x3 m) i px))
                   (ler (t3 (f3 m) i (S j) c) (t3 (f3 m) (S i) (S j) c) (fr (x3 m) i px))
                   (fr (y3 m) j py)) Hzi Hk Hk').
  cbv beta.
  rewrite (axis_any_cell (y3 m) py j j'
     (fun b => ler (t3 (f3 m) i b k') (t3 (f3 m) (S i) b k') (fr (x3 m) i px)) Hyi Hj Hj').
  rewrite (axis_any_cell (y3 m) py j j'
     (fun b => ler (t3 (f3 m) i b (S k')) (t3 (f3 m) (S i) b (S k')) (fr (x3 m) i px)) Hyi Hj Hj').
  cbv beta.
  rewrite (axis_any_cell (x3 m) px i i' (fun a => t3 (f3 m) a j' k') Hxi Hi Hi').
  rewrite (axis_any_cell (x3 m) px i i' (fun a => t3 (f3 m) a j' (S k')) Hxi Hi Hi').
  rewrite (axis_any_cell (x3 m) px i i' (fun a => t3 (f3 m) a (S j') k') Hxi Hi Hi').
  rewrite (axis_any_cell (x3 m) px i i' (fun a => t3 (f3 m) a (S j') (S k')) Hxi Hi Hi').
  reflexivity.
Qed.

(* a function affine in each of x, y, z separately (8 coefficients) is reproduced exactly *)
Definition mlin3 (c : list Q) (x y z : Q) : Q :=
  nq c 0 + nq c 1 * x + nq c 2 * y + nq c 3 * z + nq c 4 * x * y + nq c 5 * x * z + nq c 6 * y * z
  + nq c 7 * x * y * z.
Lemma P3_multilinear : forall (m : @interp3 QN) i j k px py pz c,
  axis_cell (x3 m) px i -> axis_cell (y3 m) py j -> axis_cell (z3 m) pz k ->
  (forall a b d, (a < List.length (x3 m))%nat -> (b < List.length (y3 m))%nat -> (d < List.length (z3 m))%nat ->
                 t3 (f3 m) a b d == mlin3 c (nq (x3 m) a) (nq (y3 m) b) (nq (z3 m) d)) ->
  P3 m i j k px py pz == mlin3 c px py pz.
Proof.
  intros m i j k px py pz c [X1 X2 X3 X4] [Y1 Y2 Y3 Y4] [Z1 Z2 Z3 Z4] Hf. unfold P3, tri. cbv zeta.
  rewrite !Hf by qlia.
  unfold mlin3. generalize (nq c 0) (nq c 1) (nq c 2) (nq c 3) (nq c 4) (nq c 5) (nq c 6) (nq c 7).
  intros c0 c1 c2 c3 c4 c5 c6 c7.
  unfold ler, fr. field. repeat split; lra.
Qed.

End InterpG.
