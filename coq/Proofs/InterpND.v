(* C14 lemmas, part 4 (QN): InterpND, every dimension.
   [ndP] is the multilinear polynomial of a cell (one blend per axis, outermost axis first).  The code (pin the axes
   that hit a grid value, gather the 2^k surrounding values, blend them away axis by axis) returns [ndP] of a cell
   containing the point: [nd_linear_formula].  Convexity, any-cell agreement, exact reproduction of multi-affine
   functions and the agreement with Interp1D/2D/3D are properties of [ndP]. *)
From Coq Require Import ZArith QArith Qminmax List Bool Arith Lia Lqa String.
From RC Require Import Base.Num Base.Res Model.Interp Proofs.Interp Proofs.InterpGrid.
Import ListNotations.
Import Interp InterpP InterpG.
Open Scope Q_scope.

Module InterpN.

Notation arrq := (@arr QN).

Definition dflt (n : nat) : arrq n :=
  match n return arrq n with
  | 0%nat => 0
  | S k => @nil (arrq k)
  end.

Definition nth_a (k : nat) (i : nat) (v : arrq (S k)) : arrq k := nth i (v : list (arrq k)) (dflt k).
Definition len_a (k : nat) (v : arrq (S k)) : nat := List.length (v : list (arrq k)).

(* the data the constructor accepts, with at least two points per axis: one strictly increasing axis per level,
   rectangular table of matching shape *)
Fixpoint wf (n : nat) : list (list Q) -> arrq n -> Prop :=
  match n return list (list Q) -> arrq n -> Prop with
  | 0%nat => fun gs _ => gs = []
  | S k => fun gs v =>
      match gs with
      | [] => False
      | g :: gr => incr g /\ (2 <= List.length g)%nat /\ len_a k v = List.length g /\
                   (forall i, (i < List.length g)%nat -> wf k gr (nth_a k i v))
      end
  end.

Fixpoint inrs (gs : list (list Q)) (pt : list Q) : Prop :=
  match gs, pt with
  | [], [] => True
  | g :: gr, p :: pr => inr g p /\ inrs gr pr
  | _, _ => False
  end.
Fixpoint cells (gs : list (list Q)) (pt : list Q) (cs : list nat) : Prop :=
  match gs, pt, cs with
  | [], [], [] => True
  | g :: gr, p :: pr, c :: cr => axis_cell g p c /\ cells gr pr cr
  | _, _, _ => False
  end.

(* the multilinear polynomial of the cell [cs] *)
Fixpoint ndP (n : nat) : list (list Q) -> list nat -> list Q -> arrq n -> Q :=
  match n return list (list Q) -> list nat -> list Q -> arrq n -> Q with
  | 0%nat => fun _ _ _ v => v
  | S k => fun gs cs pt v =>
      match gs, cs, pt with
      | g :: gr, c :: cr, p :: pr =>
          ler (ndP k gr cr pr (nth_a k c v)) (ndP k gr cr pr (nth_a k (S c) v)) (fr g c p)
      | _, _, _ => 0
      end
  end.

Lemma wf_length : forall n gs v, wf n gs v -> List.length gs = n.
Proof.
  induction n as [|k IH]; intros gs v H.
  - cbn in H. subst gs. reflexivity.
  - destruct gs as [|g gr]; [contradiction|]. destruct H as [_ [Hl [_ Hw]]].
    cbn [List.length]. f_equal. apply (IH gr (nth_a k 0 v)). apply Hw. qlia.
Qed.

(* ------------------------------------------------------------------ properties of ndP *)
Lemma ndP_any_cell : forall n gs cs cs' pt v, wf n gs v -> cells gs pt cs -> cells gs pt cs' ->
  ndP n gs cs pt v == ndP n gs cs' pt v.
Proof.
  induction n as [|k IH]; intros gs cs cs' pt v Hw Hc Hc'; [reflexivity|].
  destruct gs as [|g gr]; [contradiction|].
  destruct pt as [|p pr]; [destruct cs; contradiction|].
  destruct cs as [|c cr]; [contradiction|]. destruct cs' as [|c' cr']; [contradiction|].
  destruct Hw as [Hinc [Hl [Hlen Hw]]]. destruct Hc as [Hc Hcr]. destruct Hc' as [Hc' Hcr'].
  cbn [ndP].
  rewrite (axis_any_cell g p c c' (fun a => ndP k gr cr pr (nth_a k a v)) Hinc Hc Hc').
  cbv beta.
  rewrite (IH gr cr cr' pr (nth_a k c' v)); [|apply Hw; destruct Hc'; qlia|assumption|assumption].
  rewrite (IH gr cr cr' pr (nth_a k (S c') v)); [|apply Hw; destruct Hc'; qlia|assumption|assumption].
  reflexivity.
Qed.

(* all 2^n corner values of the cell *)
Fixpoint corners (n : nat) : list nat -> arrq n -> list Q :=
  match n return list nat -> arrq n -> list Q with
  | 0%nat => fun _ v => [v]
  | S k => fun cs v =>
      match cs with
      | c :: cr => (corners k cr (nth_a k c v) ++ corners k cr (nth_a k (S c) v))%list
      | [] => []
      end
  end.

Lemma ndP_between : forall n gs cs pt v lo hi, cells gs pt cs ->
  List.length gs = n ->
  (forall q, In q (corners n cs v) -> lo <= q /\ q <= hi) ->
  lo <= ndP n gs cs pt v /\ ndP n gs cs pt v <= hi.
Proof.
  induction n as [|k IH]; intros gs cs pt v lo hi Hc Hlen Hq.
  - cbn [ndP]. apply Hq. cbn [corners]. left. reflexivity.
  - destruct gs as [|g gr]; [cbn in Hlen; qlia|].
    destruct pt as [|p pr]; [destruct cs; contradiction|]. destruct cs as [|c cr]; [contradiction|].
    destruct Hc as [Hc Hcr]. cbn [ndP]. cbn [corners] in Hq.
    destruct (axis_cell_range _ _ _ Hc) as [D0 D1].
    assert (Hlen' : List.length gr = k) by (cbn [List.length] in Hlen; qlia).
    destruct (IH gr cr pr (nth_a k c v) lo hi Hcr Hlen') as [A1 A2].
    { intros q Hin. apply Hq. apply in_or_app. left. exact Hin. }
    destruct (IH gr cr pr (nth_a k (S c) v) lo hi Hcr Hlen') as [B1 B2].
    { intros q Hin. apply Hq. apply in_or_app. right. exact Hin. }
    apply ler_between; assumption.
Qed.

(* value on a grid point: the table entry *)
Fixpoint entry (n : nat) : list nat -> arrq n -> Q :=
  match n return list nat -> arrq n -> Q with
  | 0%nat => fun _ v => v
  | S k => fun ix v => match ix with i :: ir => entry k ir (nth_a k i v) | [] => 0 end
  end.
Fixpoint on_grid (gs : list (list Q)) (pt : list Q) (ix : list nat) : Prop :=
  match gs, pt, ix with
  | [], [], [] => True
  | g :: gr, p :: pr, i :: ir => (i < List.length g)%nat /\ p == nq g i /\ on_grid gr pr ir
  | _, _, _ => False
  end.

Lemma ndP_on_grid : forall n gs cs pt ix v, wf n gs v -> cells gs pt cs -> on_grid gs pt ix ->
  ndP n gs cs pt v == entry n ix v.
Proof.
  induction n as [|k IH]; intros gs cs pt ix v Hw Hc Hg; [reflexivity|].
  destruct gs as [|g gr]; [contradiction|].
  destruct pt as [|p pr]; [destruct cs; contradiction|].
  destruct cs as [|c cr]; [contradiction|]. destruct ix as [|i ir]; [contradiction|].
  destruct Hw as [Hinc [Hl [Hlen Hw]]]. destruct Hc as [Hc Hcr]. destruct Hg as [Hi [He Hg]].
  cbn [ndP entry].
  rewrite (axis_on_grid g p c i (fun a => ndP k gr cr pr (nth_a k a v)) Hinc Hc Hi He).
  apply IH; [apply Hw; exact Hi|assumption|assumption].
Qed.

(* multi-affine functions of n variables: A + x * B with A, B multi-affine in the remaining variables *)
Fixpoint mpoly (n : nat) : Type :=
  match n with
  | 0%nat => Q
  | S k => (mpoly k * mpoly k)%type
  end.
Fixpoint meval (n : nat) : mpoly n -> list Q -> Q :=
  match n return mpoly n -> list Q -> Q with
  | 0%nat => fun c _ => c
  | S k => fun ab pt => match pt with
                        | x :: r => meval k (fst ab) r + x * meval k (snd ab) r
                        | [] => 0
                        end
  end.
(* A + x * B as a polynomial in the remaining variables *)
Fixpoint pcomb (n : nat) (x : Q) : mpoly n -> mpoly n -> mpoly n :=
  match n return mpoly n -> mpoly n -> mpoly n with
  | 0%nat => fun a b => a + x * b
  | S k => fun a b => (pcomb k x (fst a) (fst b), pcomb k x (snd a) (snd b))
  end.
Lemma meval_pcomb : forall n x A B r, meval n (pcomb n x A B) r == meval n A r + x * meval n B r.
Proof.
  induction n as [|k IH]; intros x A B r; [reflexivity|].
  destruct r as [|y r]; cbn [meval pcomb fst snd]; [ring|]. rewrite !IH. ring.
Qed.

Fixpoint inrange (gs : list (list Q)) (ix : list nat) : Prop :=
  match gs, ix with
  | [], [] => True
  | g :: gr, i :: ir => (i < List.length g)%nat /\ inrange gr ir
  | _, _ => False
  end.
Fixpoint coords (gs : list (list Q)) (ix : list nat) : list Q :=
  match gs, ix with
  | g :: gr, i :: ir => nq g i :: coords gr ir
  | _, _ => []
  end.

(* a table that holds a multi-affine function's values at the grid points is interpolated exactly *)
Lemma ndP_multilinear : forall n gs cs pt v (P : mpoly n), List.length gs = n -> cells gs pt cs ->
  (forall ix, inrange gs ix -> entry n ix v == meval n P (coords gs ix)) ->
  ndP n gs cs pt v == meval n P pt.
Proof.
  induction n as [|k IH]; intros gs cs pt v P Hlen Hc Hs.
  - destruct gs; [|cbn in Hlen; qlia]. cbn [ndP meval]. exact (Hs [] I).
  - destruct gs as [|g gr]; [cbn in Hlen; qlia|].
    destruct pt as [|p pr]; [destruct cs; contradiction|]. destruct cs as [|c cr]; [contradiction|].
    destruct Hc as [Hc Hcr]. destruct P as [A B]. cbn [ndP meval fst snd].
    pose proof Hc as [C1 C2 C3 C4].
    assert (Hlen' : List.length gr = k) by (cbn [List.length] in Hlen; qlia).
    assert (HR : forall a, (a < List.length g)%nat ->
                 ndP k gr cr pr (nth_a k a v) == meval k A pr + nq g a * meval k B pr).
    { intros a Ha. rewrite <- meval_pcomb. apply IH; [exact Hlen'|exact Hcr|].
      intros ir Hir. rewrite meval_pcomb.
      specialize (Hs (a :: ir)). cbn [inrange entry coords meval fst snd] in Hs. apply Hs. split; assumption. }
    rewrite (HR c) by qlia. rewrite (HR (S c)) by qlia.
    unfold ler, fr. field. lra.
Qed.

(* ------------------------------------------------------------------ the code *)
Fixpoint axes_ok (gs : list (list Q)) : Prop :=
  match gs with
  | [] => True
  | g :: gr => incr g /\ (2 <= List.length g)%nat /\ axes_ok gr
  end.
Lemma wf_axes : forall n gs v, wf n gs v -> axes_ok gs.
Proof.
  induction n as [|k IH]; intros gs v H.
  - cbn in H. subst gs. exact I.
  - destruct gs as [|g gr]; [contradiction|]. destruct H as [Hi [Hl [_ Hw]]].
    split; [exact Hi|]. split; [exact Hl|]. apply (IH gr (nth_a k 0 v)). apply Hw. qlia.
Qed.
Lemma inrs_length : forall gs pt, inrs gs pt -> List.length pt = List.length gs.
Proof.
  induction gs as [|g gr IH]; intros [|p pr] H; try contradiction; [reflexivity|].
  destruct H as [_ H]. cbn [List.length]. f_equal. apply IH. exact H.
Qed.

Fixpoint hitsOf (gs : list (list Q)) (pt : list Q) : list (option nat) :=
  match gs, pt with
  | g :: gr, p :: pr => position (N:=QN) g p :: hitsOf gr pr
  | _, _ => []
  end.
Lemma hitsOf_length : forall gs pt, List.length pt = List.length gs -> List.length (hitsOf gs pt) = List.length gs.
Proof.
  induction gs as [|g gr IH]; intros [|p pr] H; cbn in *; try qlia. f_equal. apply IH. qlia.
Qed.

Lemma nd_hits_spec : forall gs pt, axes_ok gs -> List.length pt = List.length gs ->
  nd_hits (N:=QN) gs pt = Ok (hitsOf gs pt).
Proof.
  induction gs as [|g gr IH]; intros pt Hax Hlen.
  - destruct pt; [reflexivity|cbn in Hlen; qlia].
  - destruct pt as [|p pr]; [cbn in Hlen; qlia|]. destruct Hax as [_ [Hl Hax]].
    cbn [nd_hits tl]. rewrite IH; [|exact Hax|cbn in Hlen; qlia]. cbn [bind].
    destruct g as [|a g']; [cbn in Hl; qlia|]. reflexivity.
Qed.

(* with at least two points on every axis the "all pinned" shortcut changes nothing *)
Definition fixh (h : option nat) : option nat := match h with Some p => Some p | None => Some 0%nat end.
Lemma rem_total_pos : forall hits sh, Forall (fun s => (1 <= s)%nat) sh -> (1 <= rem_total hits sh)%nat.
Proof.
  induction hits as [|h hr IH]; intros sh Hs; [cbn; qlia|].
  destruct sh as [|s sr]; [destruct h; cbn; qlia|]. inversion Hs as [|? ? H1 H2]; subst.
  destruct h; cbn [rem_total]; [apply IH; assumption|]. specialize (IH sr H2). nia.
Qed.
Lemma rem_total_one : forall hits sh, List.length hits = List.length sh -> Forall (fun s => (2 <= s)%nat) sh ->
  rem_total hits sh = 1%nat -> map fixh hits = hits.
Proof.
  induction hits as [|h hr IH]; intros sh Hl Hs H1; [reflexivity|].
  destruct sh as [|s sr]; [cbn in Hl; qlia|]. inversion Hs as [|? ? H2 H3]; subst.
  destruct h as [p|]; cbn [rem_total] in H1.
  - cbn [map fixh]. f_equal. apply (IH sr); [cbn in Hl; qlia|assumption|assumption].
  - exfalso. assert (1 <= rem_total hr sr)%nat.
    { apply rem_total_pos. eapply Forall_impl; [|exact H3]. cbv beta. intros; qlia. }
    nia.
Qed.

Lemma wf_shape : forall n gs v, wf n gs v -> shape (N:=QN) n v = map (@List.length Q) gs.
Proof.
  induction n as [|k IH]; intros gs v H.
  - cbn in H. subst gs. reflexivity.
  - destruct gs as [|g gr]; [contradiction|]. destruct H as [_ [Hl [Hlen Hw]]].
    unfold len_a in Hlen.
    pose proof (Hw 0%nat ltac:(qlia)) as H0. unfold nth_a in H0.
    destruct v as [|a v']; [cbn in Hlen; qlia|]. cbn [nth] in H0.
    cbn [shape map]. f_equal; [exact Hlen|exact (IH gr a H0)].
Qed.

(* per-axis result of the two loops of `linear` *)
Definition sel_ok (g : list Q) (p : Q) (s : @sel QN) (c : nat) : Prop :=
  axis_cell g p c /\
  match s with
  | Hit pos => (pos < List.length g)%nat /\ p == nq g pos
  | Cell l d => l = c /\ d = fr g c p
  end.
Fixpoint sels_ok (gs : list (list Q)) (pt : list Q) (sels : list (@sel QN)) (cs : list nat) : Prop :=
  match gs, pt, sels, cs with
  | [], [], [], [] => True
  | g :: gr, p :: pr, s :: sr, c :: cr => sel_ok g p s c /\ sels_ok gr pr sr cr
  | _, _, _, _ => False
  end.
Lemma sels_ok_cells : forall gs pt sels cs, sels_ok gs pt sels cs -> cells gs pt cs.
Proof.
  induction gs as [|g gr IH]; intros [|p pr] [|s sr] [|c cr] H; try contradiction; [exact I|].
  destruct H as [[Hc _] H]. split; [exact Hc|]. apply (IH pr sr cr H).
Qed.

Lemma nd_sels_spec : forall gs pt, axes_ok gs -> inrs gs pt ->
  exists sels cs, nd_sels (N:=QN) gs pt (hitsOf gs pt) = Ok sels /\ sels_ok gs pt sels cs.
Proof.
  induction gs as [|g gr IH]; intros pt Hax Hin.
  - destruct pt; [|contradiction]. exists [], []. split; [reflexivity|exact I].
  - destruct pt as [|p pr]; [contradiction|]. destruct Hax as [Hinc [Hl Hax]]. destruct Hin as [[H1 H2] Hin].
    destruct (IH pr Hax Hin) as [sr [cr [Hr Hok]]].
    destruct (axis_spec g p Hinc Hl H1 H2) as [c [Hc [Hf Hcell]]].
    cbn [hitsOf nd_sels tl]. destruct (position (N:=QN) g p) as [pos|] eqn:Ep.
    + destruct (position_some _ _ _ Ep) as [Hpos He].
      exists (Hit (N:=QN) pos :: sr), (c :: cr). rewrite Hr. cbn [bind]. split; [reflexivity|].
      split; [|exact Hok]. split; [exact Hcell|]. split; assumption.
    + exists (Cell (N:=QN) c (fr g c p) :: sr), (c :: cr). unfold cell. rewrite Hc. cbn [bind]. rewrite Hf. cbn [bind].
      rewrite Hr. cbn [bind fst snd]. split; [reflexivity|].
      split; [|exact Hok]. split; [exact Hcell|]. split; reflexivity.
Qed.

(* blocks produced by gather: one entry for a pinned axis, two for an interpolated one *)
Fixpoint shaped (n : nat) : list (@sel QN) -> arrq n -> Prop :=
  match n return list (@sel QN) -> arrq n -> Prop with
  | 0%nat => fun _ _ => True
  | S k => fun sels v =>
      match sels, (v : list (arrq k)) with
      | Hit _ :: r, [a] => shaped k r a
      | Cell _ _ :: r, [a; b] => shaped k r a /\ shaped k r b
      | _, _ => False
      end
  end.

Lemma ok_inj : forall {A} (a b : A), Ok a = Ok b -> a = b.
Proof. intros A a b H. injection H as H. exact H. Qed.

(* the reduction is linear in the block: blending two blocks and reducing = reducing both and blending *)
Lemma reduce_blend : forall n sels (A B : arrq n) (d : Q), shaped n sels A -> shaped n sels B ->
  exists oa ob o, reduce (N:=QN) n sels A = Ok oa /\ reduce (N:=QN) n sels B = Ok ob /\
                  reduce (N:=QN) n sels (blend (N:=QN) n d A B) = Ok o /\ o == ler oa ob d /\
                  shaped n sels (blend (N:=QN) n d A B).
Proof.
  induction n as [|k IH]; intros sels A B d HA HB.
  - exists A, B, (ler A B d). cbn [reduce blend]. repeat split; reflexivity.
  - cbn [shaped] in HA, HB.
    destruct sels as [|[pos|l e] r]; try contradiction.
    + destruct A as [|a [|? ?]]; try contradiction. destruct B as [|b [|? ?]]; try contradiction.
      destruct (IH r a b d HA HB) as [oa [ob [o [Ha [Hb [Ho [He Hs]]]]]]].
      exists oa, ob, o. cbn [blend combine map fst snd reduce shaped]. repeat split; assumption.
    + destruct A as [|a1 [|a2 [|? ?]]]; try contradiction. destruct B as [|b1 [|b2 [|? ?]]]; try contradiction.
      destruct HA as [HA1 HA2]. destruct HB as [HB1 HB2].
      destruct (IH r a1 b1 d HA1 HB1) as [oa1 [ob1 [oX [Ra1 [Rb1 [RX [EX SX]]]]]]].
      destruct (IH r a2 b2 d HA2 HB2) as [oa2 [ob2 [oY [Ra2 [Rb2 [RY [EY SY]]]]]]].
      destruct (IH r a1 a2 e HA1 HA2) as [oa1' [oa2' [oA [Ra1' [Ra2' [RA [EA _]]]]]]].
      destruct (IH r b1 b2 e HB1 HB2) as [ob1' [ob2' [oB [Rb1' [Rb2' [RB [EB _]]]]]]].
      destruct (IH r _ _ e SX SY) as [oX' [oY' [o [RX' [RY' [Ro [Eo So]]]]]]].
      rewrite Ra1 in Ra1'. apply ok_inj in Ra1'. subst oa1'.
      rewrite Ra2 in Ra2'. apply ok_inj in Ra2'. subst oa2'.
      rewrite Rb1 in Rb1'. apply ok_inj in Rb1'. subst ob1'.
      rewrite Rb2 in Rb2'. apply ok_inj in Rb2'. subst ob2'.
      rewrite RX in RX'. apply ok_inj in RX'. subst oX'.
      rewrite RY in RY'. apply ok_inj in RY'. subst oY'.
      exists oA, oB, o. cbn [blend combine map fst snd reduce shaped].
      split; [exact RA|]. split; [exact RB|]. split; [exact Ro|]. split; [|split; assumption].
      rewrite Eo, EX, EY, EA, EB. unfold ler. ring.
Qed.

Lemma gather_hit : forall k pos r (v : arrq (S k)),
  gather (N:=QN) (S k) (Hit pos :: r) v =
  bind (idx (v : list (arrq k)) pos) (fun a => bind (gather (N:=QN) k r a) (fun a' => Ok ([a'] : arrq (S k)))).
Proof. reflexivity. Qed.
Lemma gather_cell : forall k l d r (v : arrq (S k)),
  gather (N:=QN) (S k) (Cell l d :: r) v =
  bind (idx (v : list (arrq k)) l) (fun a => bind (idx (v : list (arrq k)) (S l)) (fun b =>
  bind (gather (N:=QN) k r a) (fun a' => bind (gather (N:=QN) k r b) (fun b' => Ok ([a'; b'] : arrq (S k)))))).
Proof. reflexivity. Qed.

Lemma gather_reduce : forall n gs pt sels cs (v : arrq n), wf n gs v -> sels_ok gs pt sels cs ->
  exists block out, gather (N:=QN) n sels v = Ok block /\ shaped n sels block /\
                    reduce (N:=QN) n sels block = Ok out /\ out == ndP n gs cs pt v.
Proof.
  induction n as [|k IH]; intros gs pt sels cs v Hw Hs.
  - exists v, v. cbn [gather shaped reduce ndP]. repeat split; reflexivity.
  - destruct gs as [|g gr]; [contradiction|].
    destruct pt as [|p pr]; [destruct sels; destruct cs; contradiction|].
    destruct sels as [|s sr]; [destruct cs; contradiction|]. destruct cs as [|c cr]; [contradiction|].
    destruct Hw as [Hinc [Hl [Hlen Hw]]]. destruct Hs as [[Hcell Hs] Hsr].
    unfold len_a in Hlen. cbn [ndP].
    assert (Hidx : forall i, (i < List.length g)%nat -> idx (v : list (arrq k)) i = Ok (nth_a k i v)).
    { intros i Hi. unfold nth_a. apply idx_ok_gen. rewrite Hlen. exact Hi. }
    destruct s as [pos|l d].
    + destruct Hs as [Hpos He].
      destruct (IH gr pr sr cr (nth_a k pos v) (Hw pos Hpos) Hsr) as [b' [o' [Hg [Hsh [Hr Ho]]]]].
      exists ([b'] : arrq (S k)), o'. rewrite gather_hit, (Hidx pos Hpos). cbn [bind]. rewrite Hg. cbn [bind].
      split; [reflexivity|]. split; [exact Hsh|]. split; [exact Hr|].
      rewrite Ho. symmetry.
      apply (axis_on_grid g p c pos (fun a => ndP k gr cr pr (nth_a k a v)) Hinc Hcell Hpos He).
    + destruct Hs as [-> ->]. pose proof Hcell as [C1 _ _ _].
      destruct (IH gr pr sr cr (nth_a k c v) (Hw c ltac:(qlia)) Hsr) as [a' [oa [Hga [Hsa [Hra Hoa]]]]].
      destruct (IH gr pr sr cr (nth_a k (S c) v) (Hw (S c) C1) Hsr) as [b' [ob [Hgb [Hsb [Hrb Hob]]]]].
      destruct (reduce_blend k sr a' b' (fr g c p) Hsa Hsb) as [oa' [ob' [o [Ra [Rb [Ro [Eo So]]]]]]].
      rewrite Hra in Ra. apply ok_inj in Ra. subst oa'.
      rewrite Hrb in Rb. apply ok_inj in Rb. subst ob'.
      exists ([a'; b'] : arrq (S k)), o. rewrite gather_cell, (Hidx c ltac:(qlia)). cbn [bind].
      rewrite (Hidx (S c) C1). cbn [bind]. rewrite Hga. cbn [bind]. rewrite Hgb. cbn [bind].
      split; [reflexivity|]. split; [split; assumption|]. split; [exact Ro|].
      rewrite Eo, Hoa, Hob. reflexivity.
Qed.

Lemma any_nan_false : forall n (b : arrq n), any_nan (N:=QN) n b = false.
Proof.
  induction n as [|k IH]; intros b.
  - cbn [any_nan]. unfold is_nan. rewrite (proj2 (eqb_true b b) (Qeq_refl b)). reflexivity.
  - cbn [any_nan]. induction b as [|a r IHr]; [reflexivity|]. cbn [existsb]. rewrite IH. exact IHr.
Qed.

Definition mk (n : nat) (gs : list (list Q)) (v : arrq n) : @interpn QN :=
  @Build_interpn QN n gs v.

(* InterpND::linear on an in-range point: the multilinear polynomial of a cell containing the point *)
Lemma nd_linear_formula : forall n gs (v : arrq n) pt, wf n gs v -> inrs gs pt ->
  exists cs out, cells gs pt cs /\ nd_linear (N:=QN) (mk n gs v) pt = Ok out /\ out == ndP n gs cs pt v.
Proof.
  intros n gs v pt Hw Hin.
  pose proof (wf_length n gs v Hw) as Hlen. pose proof (wf_axes n gs v Hw) as Hax.
  pose proof (inrs_length gs pt Hin) as Hpl.
  destruct (nd_sels_spec gs pt Hax Hin) as [sels [cs [Hsel Hok]]].
  destruct (gather_reduce n gs pt sels cs v Hw Hok) as [block [out [Hg [_ [Hr Ho]]]]].
  exists cs, out. split; [exact (sels_ok_cells _ _ _ _ Hok)|]. split; [|exact Ho].
  unfold nd_linear, mk. cbn [dimn gridn valn]. change (T QN) with Q.
  rewrite Hlen. rewrite Nat.ltb_irrefl. cbn [bind].
  assert (Hf : firstn n gs = gs) by (rewrite <- Hlen; apply firstn_all). rewrite Hf.
  rewrite (nd_hits_spec gs pt Hax Hpl). cbn [bind].
  assert (Hfix : (if (rem_total (hitsOf gs pt) (shape (N:=QN) n v) =? 1)%nat
                  then map (fun h : option nat => match h with Some p => Some p | None => Some 0%nat end)
                           (hitsOf gs pt)
                  else hitsOf gs pt) = hitsOf gs pt).
  { destruct (rem_total (hitsOf gs pt) (shape (N:=QN) n v) =? 1)%nat eqn:E; [|reflexivity].
    apply Nat.eqb_eq in E. apply (rem_total_one _ (shape (N:=QN) n v)); [| |exact E].
    - rewrite (wf_shape n gs v Hw), map_length. apply hitsOf_length. exact Hpl.
    - rewrite (wf_shape n gs v Hw). clear -Hax. induction gs as [|g gr IH]; [constructor|].
      destruct Hax as [_ [Hl Hax]]. constructor; [exact Hl|apply IH; exact Hax]. }
  rewrite Hfix. rewrite Hsel. cbn [bind]. rewrite Hg. cbn [bind].
  rewrite any_nan_false, andb_false_r. exact Hr.
Qed.

(* Interpolator::InterpND(..).interpolate *)
Lemma in_axes_true : forall gs pt, axes_ok gs -> inrs gs pt ->
  in_axes (N:=QN) gs pt (List.length gs) = Ok true.
Proof.
  induction gs as [|g gr IH]; intros pt Hax Hin; [reflexivity|].
  destruct pt as [|p pr]; [contradiction|]. destruct Hax as [_ [Hl Hax]]. destruct Hin as [Hp Hin].
  cbn [List.length in_axes]. rewrite in_axis_true; [|qlia|exact Hp]. cbn [bind]. apply IH; assumption.
Qed.
Lemma in_axes_false : forall gs pt, axes_ok gs -> List.length pt = List.length gs -> ~ inrs gs pt ->
  in_axes (N:=QN) gs pt (List.length gs) = Ok false.
Proof.
  induction gs as [|g gr IH]; intros pt Hax Hlen Hout.
  - destruct pt; [exfalso; apply Hout; exact I|cbn in Hlen; qlia].
  - destruct pt as [|p pr]; [cbn in Hlen; qlia|]. destruct Hax as [_ [Hl Hax]].
    cbn [List.length in_axes]. destruct (inr_dec g p) as [Hp|Hp].
    + rewrite in_axis_true; [|qlia|exact Hp]. cbn [bind]. apply IH; [exact Hax|cbn in Hlen; qlia|].
      intros H. apply Hout. split; assumption.
    + rewrite in_axis_false; [|qlia|exact Hp]. reflexivity.
Qed.

Lemma total_ge2 : forall sh, sh <> [] -> Forall (fun s => (2 <= s)%nat) sh -> (2 <= total sh)%nat.
Proof.
  induction sh as [|s sr IH]; intros Hne Hs; [congruence|]. inversion Hs as [|? ? H1 H2]; subst.
  unfold total in *. cbn [fold_right]. destruct sr as [|s' sr'].
  - cbn [fold_right]. qlia.
  - assert (2 <= fold_right Nat.mul 1 (s' :: sr'))%nat by (apply IH; [congruence|assumption]). nia.
Qed.

Lemma nd_ndim_wf : forall n gs (v : arrq n), wf n gs v -> nd_ndim (N:=QN) n v = n.
Proof.
  intros n gs v Hw. unfold nd_ndim. destruct n as [|k]; [destruct (_ =? _)%nat; reflexivity|].
  rewrite (wf_shape _ gs v Hw).
  pose proof (wf_axes _ gs v Hw) as Hax. pose proof (wf_length _ gs v Hw) as Hlen.
  assert (2 <= total (map (@List.length Q) gs))%nat.
  { apply total_ge2.
    - destruct gs; [cbn in Hlen; qlia|cbn; congruence].
    - clear -Hax. induction gs as [|g gr IH]; [constructor|].
      destruct Hax as [_ [Hl Hax]]. constructor; [exact Hl|apply IH; exact Hax]. }
  destruct (total (map (@List.length Q) gs) =? 1)%nat eqn:E; [apply Nat.eqb_eq in E; qlia|reflexivity].
Qed.

Lemma interpolaten_formula : forall n gs (v : arrq n) pt, wf n gs v -> inrs gs pt ->
  exists cs out, cells gs pt cs /\ interpolaten (N:=QN) (mk n gs v) pt = Ok out /\ out == ndP n gs cs pt v.
Proof.
  intros n gs v pt Hw Hin. destruct (nd_linear_formula n gs v pt Hw Hin) as [cs [out [Hc [Hr Ho]]]].
  exists cs, out. split; [exact Hc|]. split; [|exact Ho].
  unfold interpolaten. cbn [mk dimn gridn valn]. rewrite (nd_ndim_wf n gs v Hw).
  pose proof (wf_length n gs v Hw) as Hlen. pose proof (inrs_length gs pt Hin) as Hpl.
  change (T QN) with Q. rewrite Hpl, Hlen, Nat.eqb_refl. cbn [negb].
  rewrite <- Hlen at 1. rewrite (in_axes_true gs pt (wf_axes n gs v Hw) Hin). cbn [bind]. exact Hr.
Qed.

Lemma interpolaten_outside : forall n gs (v : arrq n) pt, wf n gs v -> List.length pt = n -> ~ inrs gs pt ->
  interpolaten (N:=QN) (mk n gs v) pt = Err "out-of-grid".
Proof.
  intros n gs v pt Hw Hpl Hout. unfold interpolaten. cbn [mk dimn gridn valn]. rewrite (nd_ndim_wf n gs v Hw).
  pose proof (wf_length n gs v Hw) as Hlen.
  change (T QN) with Q. rewrite Hpl, Nat.eqb_refl. cbn [negb].
  rewrite <- Hlen at 1. rewrite (in_axes_false gs pt (wf_axes n gs v Hw)); [reflexivity|qlia|exact Hout].
Qed.
Lemma interpolaten_wrong_len : forall n gs (v : arrq n) (pt : list Q), wf n gs v -> List.length pt <> n ->
  interpolaten (N:=QN) (mk n gs v) pt = Err "point-len".
Proof.
  intros n gs v pt Hw Hpl. unfold interpolaten. cbn [mk dimn gridn valn]. rewrite (nd_ndim_wf n gs v Hw).
  change (T QN) with Q. destruct (List.length pt =? n)%nat eqn:E; [apply Nat.eqb_eq in E; qlia|reflexivity].
Qed.

End InterpN.
