(* C14 lemmas, part 6 (QN): what InterpND::new validates is exactly the well-formedness [wf] used by the ND theorems
   (given at least two points on every axis). *)
From Coq Require Import ZArith QArith Qminmax List Bool Arith Lia Lqa String.
From RC Require Import Base.Num Base.Res Model.Interp Proofs.Interp Proofs.InterpGrid Proofs.InterpND.
Import ListNotations.
Import Interp InterpP InterpG InterpN.
Open Scope Q_scope.

Module InterpW.

Lemma for_axes_ok : forall chk n i, for_axes chk i n = Ok tt ->
  forall j, (i <= j < i + n)%nat -> chk j = Ok tt.
Proof.
  induction n as [|n IH]; intros i H j Hj; [lia|]. cbn [for_axes] in H.
  destruct (chk i) as [[]| | |] eqn:E; try discriminate. cbn [bind] in H.
  destruct (Nat.eq_dec j i) as [->|Hne]; [exact E|]. apply (IH (S i)); [exact H|lia].
Qed.

Lemma shape_length : forall n (v : arrq n), List.length (shape (N:=QN) n v) = n.
Proof.
  induction n as [|k IH]; intros v; [reflexivity|].
  destruct v as [|a r]; cbn [shape List.length]; [rewrite repeat_length; reflexivity|rewrite IH; reflexivity].
Qed.

Lemma rect_wf : forall n sh gs (v : arrq n), rect (N:=QN) n sh v = true ->
  map (@List.length Q) gs = sh -> axes_ok gs -> wf n gs v.
Proof.
  induction n as [|k IH]; intros sh gs v Hr Hm Hax.
  - cbn [rect] in Hr. destruct sh; [|discriminate]. destruct gs; [reflexivity|discriminate].
  - destruct sh as [|h t]; [discriminate|]. destruct gs as [|g gr]; [discriminate|].
    cbn [map] in Hm. injection Hm as Hh Ht. destruct Hax as [Hi [Hl Hax]].
    change (rect (N:=QN) (S k) (h :: t) v)
      with ((List.length (v : list (arrq k)) =? h)%nat && forallb (rect (N:=QN) k t) (v : list (arrq k))) in Hr.
    apply andb_true_iff in Hr. destruct Hr as [Hlen Hall]. apply Nat.eqb_eq in Hlen.
    cbn [wf]. split; [exact Hi|]. split; [exact Hl|]. split; [unfold len_a; lia|].
    intros i Hi'. apply (IH t gr); [|exact Ht|exact Hax].
    unfold nth_a. apply (forallb_nth (rect (N:=QN) k t) (v : list (arrq k)) (dflt k) i Hall). lia.
Qed.

Lemma axes_ok_nth : forall gs,
  (forall j, (j < List.length gs)%nat -> incr (nth j gs []) /\ (2 <= List.length (nth j gs []))%nat) -> axes_ok gs.
Proof.
  induction gs as [|g gr IH]; intros H; [exact I|].
  destruct (H 0%nat ltac:(cbn; lia)) as [H1 H2]. cbn [nth] in H1, H2.
  split; [exact H1|]. split; [exact H2|]. apply IH. intros j Hj.
  apply (H (S j)). cbn [List.length]. lia.
Qed.

Lemma nd_new_wf : forall n gs (v : arrq n) m, nd_new (N:=QN) n gs v = Ok m ->
  Forall (fun g : list Q => (2 <= List.length g)%nat) gs -> m = mk n gs v /\ wf n gs v.
Proof.
  intros n gs v m H Hall. unfold nd_new in H.
  destruct (rect (N:=QN) n (shape (N:=QN) n v) v) eqn:Er; cbn [negb] in H; [|discriminate].
  destruct (nd_validate (N:=QN) n gs v) as [[]| | |] eqn:Ev; try discriminate. cbn [bind] in H.
  injection H as <-. split; [reflexivity|].
  unfold nd_validate in Ev. change (T QN) with Q in *.
  set (nn := nd_ndim (N:=QN) n v) in *. set (sh := shape (N:=QN) n v) in *.
  match type of Ev with bind ?a _ = _ => destruct a as [[]| | |] eqn:E1 end; try discriminate. cbn [bind] in Ev.
  match type of Ev with bind ?a _ = _ => destruct a as [[]| | |] eqn:E2 end; try discriminate. cbn [bind] in Ev.
  match type of Ev with bind ?a _ = _ => destruct a as [[]| | |] eqn:E3 end; try discriminate. cbn [bind] in Ev.
  destruct gs as [|g0 gr]; [discriminate|]. cbn [idx nth_error bind] in Ev.
  inversion Hall as [|? ? Hg0 Hrest]; subst.
  destruct (List.length g0 =? 0)%nat eqn:E0; [apply Nat.eqb_eq in E0; lia|].
  destruct (List.length (g0 :: gr) =? nn)%nat eqn:En; [|discriminate]. apply Nat.eqb_eq in En.
  assert (Hnn : nn = n).
  { unfold nn, nd_ndim in *. fold sh in En |- *. destruct (total sh =? 1)%nat; [cbn in En; lia|reflexivity]. }
  rewrite Hnn in *. clear Hnn.
  assert (Hshl : List.length sh = n) by apply shape_length.
  assert (Hj : forall j, (j < n)%nat -> incr (nth j (g0 :: gr) []) /\
                                        List.length (nth j (g0 :: gr) []) = nth j sh 0%nat).
  { intros j Hj. pose proof (for_axes_ok _ _ _ E2 j ltac:(lia)) as A2.
    pose proof (for_axes_ok _ _ _ E3 j ltac:(lia)) as A3. cbv beta in A2, A3.
    rewrite (idx_ok_gen (g0 :: gr) j [] ltac:(lia)) in A2, A3. cbn [bind] in A2, A3.
    rewrite (idx_ok_gen sh j 0%nat ltac:(lia)) in A3. cbn [bind] in A3.
    split.
    - unfold incr. destruct (increasing (N:=QN) (nth j (g0 :: gr) [])); [reflexivity|discriminate].
    - destruct (List.length (nth j (g0 :: gr) []) =? nth j sh 0)%nat eqn:E; [apply Nat.eqb_eq in E; exact E|discriminate]. }
  apply (rect_wf n sh); [exact Er| |].
  - apply (nth_ext _ _ 0%nat 0%nat); [rewrite map_length; lia|].
    intros j Hjl. rewrite map_length in Hjl.
    rewrite (nth_indep _ 0%nat (List.length (@nil Q))) by (rewrite map_length; exact Hjl).
    rewrite map_nth. apply Hj. lia.
  - apply axes_ok_nth. intros j Hjl. split; [apply Hj; lia|].
    rewrite Forall_forall in Hall. apply Hall. apply nth_In. exact Hjl.
Qed.

End InterpW.
