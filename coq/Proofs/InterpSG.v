(* C14 lemmas, part 3 (QN): InterpolationSpeedGradeModel::{new, predict}.
   The underlying predictor and the two unit conversions are Section variables. *)
From Coq Require Import ZArith QArith Qminmax List Bool Arith Lia Lqa String.
From RC Require Import Base.Num Base.Res Model.Interp Proofs.Interp Proofs.InterpGrid.
Import ListNotations.
Import Interp InterpP InterpG.
Open Scope Q_scope.

Module InterpS.

(* ---------- clamp = f64::max then f64::min ---------- *)
Lemma eqb_refl : forall a : Q, eqb (n:=QN) a a = true.
Proof. intros a. apply eqb_true. reflexivity. Qed.

Lemma clamp_cases : forall lo hi v : Q, lo <= hi ->
  (v < lo /\ clamp (N:=QN) lo hi v = lo) \/
  (hi < v /\ clamp (N:=QN) lo hi v = hi) \/
  (lo <= v /\ v <= hi /\ clamp (N:=QN) lo hi v = v).
Proof.
  intros lo hi v Hle. unfold clamp, rmin, rmax. rewrite eqb_refl.
  destruct (ltb (n:=QN) v lo) eqn:E1.
  - apply ltb_true in E1. left. split; [exact E1|]. rewrite eqb_refl.
    destruct (ltb (n:=QN) hi lo) eqn:E2; [|reflexivity].
    apply ltb_true in E2. exfalso. exact (Qlt_not_le _ _ E2 Hle).
  - apply ltb_false in E1. right. rewrite eqb_refl.
    destruct (ltb (n:=QN) hi v) eqn:E2.
    + apply ltb_true in E2. left. split; [exact E2|reflexivity].
    + apply ltb_false in E2. right. repeat split; assumption.
Qed.

Lemma clamp_inr : forall lo hi v : Q, lo <= hi -> lo <= clamp (N:=QN) lo hi v /\ clamp (N:=QN) lo hi v <= hi.
Proof.
  intros lo hi v Hle. destruct (clamp_cases lo hi v Hle) as [[H ->]|[[H ->]|[H1 [H2 ->]]]];
    split; try assumption; apply Qle_refl.
Qed.
Lemma clamp_id : forall lo hi v : Q, lo <= v -> v <= hi -> clamp (N:=QN) lo hi v = v.
Proof.
  intros lo hi v H1 H2. assert (Hle : lo <= hi) by (apply Qle_trans with v; assumption).
  destruct (clamp_cases lo hi v Hle) as [[H _]|[[H _]|[_ [_ He]]]]; [| |exact He].
  - exfalso. exact (Qlt_not_le _ _ H H1).
  - exfalso. exact (Qlt_not_le _ _ H H2).
Qed.
Lemma clamp_idem : forall lo hi v : Q, lo <= hi ->
  clamp (N:=QN) lo hi (clamp (N:=QN) lo hi v) = clamp (N:=QN) lo hi v.
Proof. intros lo hi v Hle. destruct (clamp_inr lo hi v Hle) as [H1 H2]. apply clamp_id; assumption. Qed.

(* ---------- linspace ---------- *)
Lemma linspace_from_length : forall k (x dx : Q), List.length (linspace_from (N:=QN) x dx k) = k.
Proof. induction k as [|k IH]; intros x dx; [reflexivity|]. cbn [linspace_from List.length]. rewrite IH. reflexivity. Qed.

Lemma linspace_from_inc : forall k (x dx : Q), 0 < dx -> incr (linspace_from (N:=QN) x dx k).
Proof.
  unfold incr. induction k as [|k IH]; intros x dx Hdx; [reflexivity|].
  destruct k as [|k']; [reflexivity|].
  change (linspace_from (N:=QN) x dx (S (S k')))
    with (x :: add (n:=QN) x dx :: linspace_from (N:=QN) (add (n:=QN) (add (n:=QN) x dx) dx) dx k').
  rewrite inc_cons. apply andb_true_iff. split.
  - apply ltb_true. cbn [add QN]. lra.
  - exact (IH (add (n:=QN) x dx) dx Hdx).
Qed.

Lemma linspace_from_nth : forall k i (x dx : Q), (i < k)%nat ->
  nq (linspace_from (N:=QN) x dx k) i == x + inject_Z (Z.of_nat i) * dx.
Proof.
  unfold nq. induction k as [|k IH]; intros i x dx Hi; [lia|].
  cbn [linspace_from]. destruct i as [|i].
  - cbn [nth Z.of_nat]. change (inject_Z 0) with 0. ring.
  - cbn [nth]. rewrite IH by lia. rewrite Nat2Z.inj_succ. unfold Z.succ. rewrite inject_Z_plus.
    cbn [add QN]. change (inject_Z 1) with 1. ring.
Qed.

Lemma inject_nat_pos : forall n, (1 <= n)%nat -> 0 < inject_Z (Z.of_nat n).
Proof. intros n H. change 0 with (inject_Z 0). rewrite <- Zlt_Qlt. lia. Qed.

Lemma linspace_spec : forall (x0 xend : Q) n l, linspace (N:=QN) x0 xend n = Ok l -> (2 <= n)%nat ->
  List.length l = n /\ nq l 0 = x0 /\ lastq l == xend /\
  (forall i, (i < n)%nat ->
     nq l i == x0 + inject_Z (Z.of_nat i) * ((xend - x0) / inject_Z (Z.of_nat (n - 1)))) /\
  (x0 < xend -> incr l) /\ (incr l -> x0 < xend).
Proof.
  intros x0 xend n l H Hn. destruct n as [|m]; [lia|].
  replace (S m - 1)%nat with m by lia.
  set (dx := (xend - x0) / inject_Z (Z.of_nat m)).
  assert (Hl : l = linspace_from (N:=QN) x0 dx (S m))
    by (unfold linspace in H; injection H as <-; reflexivity).
  subst l. clear H.
  assert (Hm : 0 < inject_Z (Z.of_nat m)) by (apply inject_nat_pos; lia).
  split; [apply linspace_from_length|]. split; [reflexivity|]. split; [|split; [|split]].
  - unfold lastq. rewrite linspace_from_length. replace (S m - 1)%nat with m by lia.
    rewrite linspace_from_nth by lia. unfold dx. field. lra.
  - intros i Hi. apply linspace_from_nth. exact Hi.
  - intros Hlt. apply linspace_from_inc. unfold dx. apply Qlt_shift_div_l; [exact Hm|]. lra.
  - intros Hinc.
    assert (H01 : nq (linspace_from (N:=QN) x0 dx (S m)) 0 < nq (linspace_from (N:=QN) x0 dx (S m)) 1).
    { apply inc_step; [exact Hinc|]. rewrite linspace_from_length. lia. }
    rewrite !linspace_from_nth in H01 by lia.
    change (Z.of_nat 0) with 0%Z in H01. change (Z.of_nat 1) with 1%Z in H01.
    change (inject_Z 0) with 0 in H01. change (inject_Z 1) with 1 in H01.
    assert (Hdx : 0 < dx) by lra.
    unfold dx in Hdx.
    assert (H2 : 0 * inject_Z (Z.of_nat m) < (xend - x0) / inject_Z (Z.of_nat m) * inject_Z (Z.of_nat m)).
    { apply Qmult_lt_compat_r; assumption. }
    rewrite Qmult_0_l in H2. unfold Qdiv in H2. rewrite <- Qmult_assoc in H2.
    rewrite (Qmult_comm (/ _)) in H2. rewrite Qmult_inv_r in H2 by lra. lra.
Qed.

(* ---------- mapM ---------- *)
Lemma mapM_ok : forall {A B} (f : A -> res B) l r, mapM f l = Ok r ->
  List.length r = List.length l /\
  forall i da db, (i < List.length l)%nat -> f (nth i l da) = Ok (nth i r db).
Proof.
  intros A B f. induction l as [|a l IH]; intros r H.
  - cbn [mapM] in H. injection H as <-. split; [reflexivity|]. intros i da db Hi. cbn in Hi. lia.
  - cbn [mapM] in H. destruct (f a) as [b| | |] eqn:Ea; try discriminate. cbn [bind] in H.
    destruct (mapM f l) as [br| | |] eqn:El; try discriminate. cbn [bind] in H. injection H as <-.
    destruct (IH br eq_refl) as [Hlen Hnth]. split; [cbn [List.length]; lia|].
    intros i da db Hi. destruct i as [|i]; [exact Ea|]. cbn [nth]. apply Hnth. cbn [List.length] in Hi. lia.
Qed.
Lemma mapM_total : forall {A B} (f : A -> res B) l, (forall a, In a l -> exists b, f a = Ok b) ->
  exists r, mapM f l = Ok r.
Proof.
  intros A B f. induction l as [|a l IH]; intros H; [exists []; reflexivity|].
  destruct (H a (or_introl eq_refl)) as [b Hb]. destruct IH as [r Hr]; [intros a' Ha'; apply H; right; exact Ha'|].
  exists (b :: r). cbn [mapM]. rewrite Hb. cbn [bind]. rewrite Hr. reflexivity.
Qed.

Lemma hd_error_nq : forall (g : list Q), (1 <= List.length g)%nat -> hd_error g = Some (nq g 0).
Proof. intros [|a r] H; [cbn in H; lia|reflexivity]. Qed.

Section SG.
  Variable underlying : Q -> Q -> res Q.
  Variable conv_speed conv_grade : Q -> Q.

  Lemma sg_table_ok : forall (xs ys : list Q) tab, sg_table (N:=QN) underlying xs ys = Ok tab ->
    List.length tab = List.length xs /\
    (forall i, (i < List.length xs)%nat -> List.length (nth i tab []) = List.length ys) /\
    (forall i j, (i < List.length xs)%nat -> (j < List.length ys)%nat ->
                 underlying (nq xs i) (nq ys j) = Ok (t2 tab i j)).
  Proof.
    intros xs ys tab H. unfold sg_table in H. destruct (mapM_ok _ _ _ H) as [Hlen Hrow].
    split; [exact Hlen|]. split.
    - intros i Hi. specialize (Hrow i 0 [] Hi). cbv beta in Hrow.
      destruct (mapM_ok _ _ _ Hrow) as [Hl _]. exact Hl.
    - intros i j Hi Hj. specialize (Hrow i 0 [] Hi). cbv beta in Hrow.
      destruct (mapM_ok _ _ _ Hrow) as [_ Hn]. exact (Hn j 0 0 Hj).
  Qed.

  (* grid_is_underlying: the model `new` builds has the linspace axes and the predictor's values on them *)
  Lemma sg_new_spec : forall s_lo s_hi s_bins g_lo g_hi g_bins m,
    sg_new (N:=QN) underlying s_lo s_hi s_bins g_lo g_hi g_bins = Ok m ->
    (2 <= s_bins)%nat -> (2 <= g_bins)%nat ->
    valid2 m /\
    linspace (N:=QN) s_lo s_hi s_bins = Ok (x2 m) /\ linspace (N:=QN) g_lo g_hi g_bins = Ok (y2 m) /\
    List.length (x2 m) = s_bins /\ List.length (y2 m) = g_bins /\
    nq (x2 m) 0 = s_lo /\ lastq (x2 m) == s_hi /\ nq (y2 m) 0 = g_lo /\ lastq (y2 m) == g_hi /\
    s_lo < s_hi /\ g_lo < g_hi /\
    (forall i j, (i < s_bins)%nat -> (j < g_bins)%nat ->
                 underlying (nq (x2 m) i) (nq (y2 m) j) = Ok (t2 (f2 m) i j)).
  Proof.
    intros s_lo s_hi s_bins g_lo g_hi g_bins m H Hs Hg. unfold sg_new in H.
    destruct (linspace (N:=QN) s_lo s_hi s_bins) as [xs| | |] eqn:Ex; try discriminate. cbn [bind] in H.
    destruct (linspace (N:=QN) g_lo g_hi g_bins) as [ys| | |] eqn:Ey; try discriminate. cbn [bind] in H.
    destruct (sg_table (N:=QN) underlying xs ys) as [tab| | |] eqn:Et; try discriminate. cbn [bind] in H.
    destruct (linspace_spec _ _ _ _ Ex Hs) as [Lx [X0 [Xl [_ [_ Xinc]]]]].
    destruct (linspace_spec _ _ _ _ Ey Hg) as [Ly [Y0 [Yl [_ [_ Yinc]]]]].
    destruct (new2_valid xs ys tab m H) as [Hv [E1 [E2 E3]]]; [lia|lia|].
    subst xs ys tab. destruct (sg_table_ok _ _ _ Et) as [_ [_ Hu]].
    pose proof (v2_xinc m Hv) as Ix. pose proof (v2_yinc m Hv) as Iy.
    repeat (split; [first [assumption|reflexivity|auto]|]).
    intros i j Hi Hj. apply Hu; qlia.
  Qed.

  Lemma sg_new_total : forall s_lo s_hi s_bins g_lo g_hi g_bins,
    s_lo < s_hi -> g_lo < g_hi -> (2 <= s_bins)%nat -> (2 <= g_bins)%nat ->
    (forall s g, exists v, underlying s g = Ok v) ->
    exists m, sg_new (N:=QN) underlying s_lo s_hi s_bins g_lo g_hi g_bins = Ok m.
  Proof.
    intros s_lo s_hi s_bins g_lo g_hi g_bins Hs Hg Bs Bg Htot. unfold sg_new.
    destruct (linspace (N:=QN) s_lo s_hi s_bins) as [xs| | |] eqn:Ex;
      try (destruct s_bins; [lia|discriminate]). cbn [bind].
    destruct (linspace (N:=QN) g_lo g_hi g_bins) as [ys| | |] eqn:Ey;
      try (destruct g_bins; [lia|discriminate]). cbn [bind].
    destruct (linspace_spec _ _ _ _ Ex Bs) as [Lx [_ [_ [_ [Xinc _]]]]].
    destruct (linspace_spec _ _ _ _ Ey Bg) as [Ly [_ [_ [_ [Yinc _]]]]].
    destruct (mapM_total (fun s : Q => mapM (fun g : Q => underlying s g) ys) xs) as [tab Ht].
    { intros s _. apply mapM_total. intros g _. apply Htot. }
    unfold sg_table. change (T QN) with Q. rewrite Ht. cbn [bind].
    destruct (mapM_ok _ _ _ Ht) as [Hlen Hrow].
    unfold interp2_new. qn.
    replace (List.length xs =? 0)%nat with false by (symmetry; apply Nat.eqb_neq; lia).
    replace (List.length ys =? 0)%nat with false by (symmetry; apply Nat.eqb_neq; lia).
    cbn [orb]. rewrite (Xinc Hs), (Yinc Hg). cbn [andb negb].
    replace (List.length xs =? List.length tab)%nat with true by (symmetry; apply Nat.eqb_eq; lia).
    cbn [andb].
    assert (Hall : forallb (fun r : list Q => (List.length r =? List.length ys)%nat) tab = true).
    { apply forallb_forall. intros r Hr. apply Nat.eqb_eq.
      destruct (In_nth tab r [] Hr) as [i [Hi <-]].
      assert (Hi' : (i < List.length xs)%nat) by lia.
      specialize (Hrow i 0 [] Hi'). cbv beta in Hrow.
      destruct (mapM_ok _ _ _ Hrow) as [Hl _]. exact Hl. }
    rewrite Hall. cbn [negb]. eexists. reflexivity.
  Qed.

  (* ---------- predict ---------- *)
  Definition cl_s (m : @interp2 QN) (sv : Q) : Q := clamp (N:=QN) (nq (x2 m) 0) (lastq (x2 m)) sv.
  Definition cl_g (m : @interp2 QN) (gv : Q) : Q := clamp (N:=QN) (nq (y2 m) 0) (lastq (y2 m)) gv.

  Lemma first_le_last : forall g, incr g -> (2 <= List.length g)%nat -> nq g 0 <= lastq g.
  Proof. intros g Hinc Hl. unfold lastq. apply inc_le; [assumption|lia|lia]. Qed.

  Lemma sg_predict_conv_eq : forall m sv gv, valid2 m ->
    inr (x2 m) (cl_s m sv) /\ inr (y2 m) (cl_g m gv) /\
    sg_predict_conv (N:=QN) m sv gv = interpolate2 (N:=QN) m [cl_s m sv; cl_g m gv].
  Proof.
    intros m sv gv Hv. pose proof Hv as [Hxi Hyi Hxl Hyl _ _].
    split; [apply clamp_inr; apply first_le_last; assumption|].
    split; [apply clamp_inr; apply first_le_last; assumption|].
    unfold sg_predict_conv, sg_clamp. qn.
    rewrite (hd_error_nq (x2 m)) by qlia. rewrite (hd_error_nq (y2 m)) by qlia.
    rewrite (last_opt_nth (x2 m)) by (destruct (x2 m); [cbn in Hxl; lia|congruence]).
    rewrite (last_opt_nth (y2 m)) by (destruct (y2 m); [cbn in Hyl; lia|congruence]).
    reflexivity.
  Qed.

  (* the prediction is the bilinear polynomial of a cell containing the clamped point: never an error *)
  Lemma sg_predict_conv_formula : forall m sv gv, valid2 m ->
    exists i j, axis_cell (x2 m) (cl_s m sv) i /\ axis_cell (y2 m) (cl_g m gv) j /\
                sg_predict_conv (N:=QN) m sv gv = Ok (P2 m i j (cl_s m sv) (cl_g m gv)).
  Proof.
    intros m sv gv Hv. destruct (sg_predict_conv_eq m sv gv Hv) as [Hx [Hy He]].
    destruct (interpolate2_formula m _ _ Hv Hx Hy) as [i [j [Hi [Hj Hr]]]].
    exists i, j. split; [exact Hi|]. split; [exact Hj|]. rewrite He. exact Hr.
  Qed.

  (* clamp_outside: predicting at x is predicting at clamp x *)
  Lemma sg_clamp_outside : forall m sv gv, valid2 m ->
    sg_predict_conv (N:=QN) m sv gv = sg_predict_conv (N:=QN) m (cl_s m sv) (cl_g m gv).
  Proof.
    intros m sv gv Hv. pose proof Hv as [Hxi Hyi Hxl Hyl _ _].
    destruct (sg_predict_conv_eq m sv gv Hv) as [_ [_ ->]].
    destruct (sg_predict_conv_eq m (cl_s m sv) (cl_g m gv) Hv) as [_ [_ ->]].
    unfold cl_s, cl_g. rewrite !clamp_idem by (apply first_le_last; assumption). reflexivity.
  Qed.
End SG.

End InterpS.
