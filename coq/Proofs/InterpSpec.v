(* C14 lemmas, part 7 (QN): soundness of the boolean checkers that the S lines of the correspondence streams evaluate
   on the implementation's output (Model/InterpRun.v, module Spec).  A checker that answers [true] implies the
   property as stated in Props/C14.v, up to the stated tolerance (exactly, with tolerance 0 / on grid points). *)
From Coq Require Import ZArith QArith Qminmax Qabs List Bool Arith Lia Lqa String.
From RC Require Import Base.Num Base.Res Model.Interp Model.InterpRun
                       Proofs.Interp Proofs.InterpGrid Proofs.InterpSG Proofs.InterpND Proofs.InterpAgree.
Import ListNotations.
Import Interp InterpP InterpG InterpS InterpN InterpA InterpRun.
Open Scope Q_scope.

Module InterpC.

(* ---------- min / max of a list ---------- *)
Lemma fold_min_le : forall r a, fold_left Qmin r a <= a /\ forall q, In q r -> fold_left Qmin r a <= q.
Proof.
  induction r as [|b r IH]; intros a; cbn [fold_left].
  - split; [apply Qle_refl|intros q []].
  - destruct (IH (Qmin a b)) as [H1 H2]. split.
    + eapply Qle_trans; [exact H1|apply Q.le_min_l].
    + intros q [<-|Hin]; [eapply Qle_trans; [exact H1|apply Q.le_min_r]|apply H2; exact Hin].
Qed.
Lemma fold_min_glb : forall r a lo, lo <= a -> (forall q, In q r -> lo <= q) -> lo <= fold_left Qmin r a.
Proof.
  induction r as [|b r IH]; intros a lo Ha Hr; cbn [fold_left]; [exact Ha|].
  apply IH; [apply Q.min_glb; [exact Ha|apply Hr; left; reflexivity]|intros q Hq; apply Hr; right; exact Hq].
Qed.
Lemma fold_max_ge : forall r a, a <= fold_left Qmax r a /\ forall q, In q r -> q <= fold_left Qmax r a.
Proof.
  induction r as [|b r IH]; intros a; cbn [fold_left].
  - split; [apply Qle_refl|intros q []].
  - destruct (IH (Qmax a b)) as [H1 H2]. split.
    + eapply Qle_trans; [apply Q.le_max_l|exact H1].
    + intros q [<-|Hin]; [eapply Qle_trans; [apply Q.le_max_r|exact H1]|apply H2; exact Hin].
Qed.
Lemma fold_max_lub : forall r a hi, a <= hi -> (forall q, In q r -> q <= hi) -> fold_left Qmax r a <= hi.
Proof.
  induction r as [|b r IH]; intros a hi Ha Hr; cbn [fold_left]; [exact Ha|].
  apply IH; [apply Q.max_lub; [exact Ha|apply Hr; left; reflexivity]|intros q Hq; apply Hr; right; exact Hq].
Qed.

Lemma lmin_le : forall l q, In q l -> Spec.lmin l <= q.
Proof.
  intros [|a r] q Hin; [contradiction|]. cbn [Spec.lmin]. destruct (fold_min_le r a) as [H1 H2].
  destruct Hin as [<-|Hin]; [exact H1|apply H2; exact Hin].
Qed.
Lemma lmax_ge : forall l q, In q l -> q <= Spec.lmax l.
Proof.
  intros [|a r] q Hin; [contradiction|]. cbn [Spec.lmax]. destruct (fold_max_ge r a) as [H1 H2].
  destruct Hin as [<-|Hin]; [exact H1|apply H2; exact Hin].
Qed.
Lemma lmin_glb : forall l lo, l <> [] -> (forall q, In q l -> lo <= q) -> lo <= Spec.lmin l.
Proof.
  intros [|a r] lo Hne H; [congruence|]. cbn [Spec.lmin].
  apply fold_min_glb; [apply H; left; reflexivity|intros q Hq; apply H; right; exact Hq].
Qed.
Lemma lmax_lub : forall l hi, l <> [] -> (forall q, In q l -> q <= hi) -> Spec.lmax l <= hi.
Proof.
  intros [|a r] hi Hne H; [congruence|]. cbn [Spec.lmax].
  apply fold_max_lub; [apply H; left; reflexivity|intros q Hq; apply H; right; exact Hq].
Qed.

Lemma qmul_mono : forall t a b, 0 <= t -> a <= b -> t * a <= t * b.
Proof.
  intros t a b Ht Hab. apply Qle_minus_iff. setoid_replace (t * b + - (t * a)) with (t * (b - a)) by ring.
  apply Qmult_le_0_compat; lra.
Qed.

Lemma abs_between : forall lo hi x, lo <= x -> x <= hi -> Qabs x <= Qmax (Qabs lo) (Qabs hi).
Proof.
  intros lo hi x H1 H2. apply Qabs_Qle_condition. split.
  - apply Qle_trans with lo; [|exact H1]. apply Qle_trans with (- Qabs lo).
    + apply Qopp_le_compat. apply Q.le_max_l.
    + rewrite <- (Qopp_involutive lo) at 2. apply Qopp_le_compat. rewrite <- Qabs_opp. apply Qle_Qabs.
  - apply Qle_trans with hi; [exact H2|]. apply Qle_trans with (Qabs hi); [apply Qle_Qabs|apply Q.le_max_r].
Qed.

(* ---------- the block the checker looks at is made of corner values of a cell containing the point ---------- *)
Lemma axis_hit_index : forall g p c pos, incr g -> axis_cell g p c -> (pos < List.length g)%nat ->
  p == nq g pos -> pos = c \/ pos = S c.
Proof.
  intros g p c pos Hinc [H1 H2 H3 H4] Hp He.
  assert (c <= pos)%nat by (apply (inc_le_inv g); try assumption; try lia; rewrite <- He; exact H2).
  assert (pos <= S c)%nat by (apply (inc_le_inv g); try assumption; rewrite <- He; exact H3).
  destruct (Nat.eq_dec pos c); [left; assumption|right; lia].
Qed.

Lemma gather_flat : forall n gs pt sels cs (v b : arrq n), wf n gs v -> sels_ok gs pt sels cs ->
  gather (N:=QN) n sels v = Ok b ->
  Spec.flat n b <> [] /\ forall q, In q (Spec.flat n b) -> In q (corners n cs v).
Proof.
  induction n as [|k IH]; intros gs pt sels cs v b Hw Hs Hg.
  - cbn [gather] in Hg. injection Hg as <-. cbn [Spec.flat corners]. split; [congruence|auto].
  - destruct gs as [|g gr]; [contradiction|].
    destruct pt as [|p pr]; [destruct sels; destruct cs; contradiction|].
    destruct sels as [|s sr]; [destruct cs; contradiction|]. destruct cs as [|c cr]; [contradiction|].
    destruct Hw as [Hinc [Hl [Hlen Hw]]]. destruct Hs as [[Hcell Hs] Hsr].
    unfold len_a in Hlen.
    assert (Hidx : forall i, (i < List.length g)%nat -> idx (v : list (arrq k)) i = Ok (nth_a k i v)).
    { intros i Hi. unfold nth_a. apply idx_ok_gen. rewrite Hlen. exact Hi. }
    change (corners (S k) (c :: cr) v)
      with ((corners k cr (nth_a k c v) ++ corners k cr (nth_a k (S c) v))%list).
    destruct s as [pos|l d].
    + destruct Hs as [Hpos He]. rewrite gather_hit, (Hidx pos Hpos) in Hg. cbn [bind] in Hg.
      destruct (gather (N:=QN) k sr (nth_a k pos v)) as [a'| | |] eqn:Ea; try discriminate.
      cbn [bind] in Hg. injection Hg as <-.
      destruct (IH gr pr sr cr _ a' (Hw pos Hpos) Hsr Ea) as [Hne Hin].
      change (Spec.flat (S k) ([a'] : arrq (S k))) with ((Spec.flat k a' ++ [])%list).
      rewrite app_nil_r. split; [exact Hne|].
      intros q Hq. apply in_or_app.
      destruct (axis_hit_index g p c pos Hinc Hcell Hpos He) as [->| ->]; [left|right]; apply Hin; exact Hq.
    + destruct Hs as [-> ->]. pose proof Hcell as [C1 _ _ _].
      rewrite gather_cell, (Hidx c ltac:(lia)) in Hg. cbn [bind] in Hg.
      rewrite (Hidx (S c) C1) in Hg. cbn [bind] in Hg.
      destruct (gather (N:=QN) k sr (nth_a k c v)) as [a'| | |] eqn:Ea; try discriminate. cbn [bind] in Hg.
      destruct (gather (N:=QN) k sr (nth_a k (S c) v)) as [b'| | |] eqn:Eb; try discriminate. cbn [bind] in Hg.
      injection Hg as <-.
      destruct (IH gr pr sr cr _ a' (Hw c ltac:(lia)) Hsr Ea) as [Hnea Hina].
      destruct (IH gr pr sr cr _ b' (Hw (S c) C1) Hsr Eb) as [Hneb Hinb].
      change (Spec.flat (S k) ([a'; b'] : arrq (S k))) with ((Spec.flat k a' ++ Spec.flat k b' ++ [])%list).
      rewrite app_nil_r. split.
      * destruct (Spec.flat k a'); [congruence|discriminate].
      * intros q Hq. apply in_app_or in Hq. apply in_or_app.
        destruct Hq as [Hq|Hq]; [left; apply Hina|right; apply Hinb]; exact Hq.
Qed.

Lemma block_spec : forall n gs (v : arrq n) p, wf n gs v -> inrs gs p ->
  exists sels cs b, sels_ok gs p sels cs /\ gather (N:=QN) n sels v = Ok b /\
                    Spec.block n gs v p = Ok (Spec.flat n b, all_hit (N:=QN) sels).
Proof.
  intros n gs v p Hw Hin.
  pose proof (wf_length n gs v Hw) as Hlen. pose proof (wf_axes n gs v Hw) as Hax.
  pose proof (inrs_length gs p Hin) as Hpl.
  destruct (nd_sels_spec gs p Hax Hin) as [sels [cs [Hsel Hok]]].
  destruct (gather_reduce n gs p sels cs v Hw Hok) as [b [out [Hg _]]].
  exists sels, cs, b. split; [exact Hok|]. split; [exact Hg|].
  unfold Spec.block. assert (Hf : firstn n gs = gs) by (rewrite <- Hlen; apply firstn_all). rewrite Hf.
  rewrite (nd_hits_spec gs p Hax Hpl). cbn [bind]. rewrite Hsel. cbn [bind]. rewrite Hg. reflexivity.
Qed.

(* convexity checker: accepted values lie in the hull of the cell's corner values, widened by the tolerance *)
Lemma convexnb_sound : forall tol n gs (v : arrq n) p out, 0 <= tol -> wf n gs v -> inrs gs p ->
  Spec.convexnb tol n gs v p out = true ->
  exists cs, cells gs p cs /\
    forall lo hi, (forall q, In q (corners n cs v) -> lo <= q /\ q <= hi) ->
      lo - tol * (1 + 2 * Qmax (Qabs lo) (Qabs hi)) <= out /\
      out <= hi + tol * (1 + 2 * Qmax (Qabs lo) (Qabs hi)).
Proof.
  intros tol n gs v p out Htol Hw Hin Hc.
  destruct (block_spec n gs v p Hw Hin) as [sels [cs [b [Hok [Hg Hb]]]]].
  destruct (gather_flat n gs p sels cs v b Hw Hok Hg) as [Hne Hsub].
  exists cs. split; [exact (sels_ok_cells _ _ _ _ Hok)|]. intros lo hi Hbd.
  unfold Spec.convexnb in Hc. rewrite Hb in Hc.
  set (vals := Spec.flat n b) in *.
  assert (L1 : lo <= Spec.lmin vals) by (apply lmin_glb; [exact Hne|intros q Hq; apply Hbd, Hsub, Hq]).
  assert (L2 : Spec.lmax vals <= hi) by (apply lmax_lub; [exact Hne|intros q Hq; apply Hbd, Hsub, Hq]).
  assert (L3 : Spec.lmin vals <= Spec.lmax vals).
  { destruct vals as [|a r]; [congruence|]. apply Qle_trans with a; [apply lmin_le|apply lmax_ge]; left; reflexivity. }
  set (M := Qmax (Qabs lo) (Qabs hi)).
  assert (A1 : Qabs (Spec.lmin vals) <= M) by (apply abs_between; lra).
  assert (A2 : Qabs (Spec.lmax vals) <= M) by (apply abs_between; lra).
  assert (A0 : 0 <= Qabs (Spec.lmin vals)) by apply Qabs_nonneg.
  assert (A0' : 0 <= Qabs (Spec.lmax vals)) by apply Qabs_nonneg.
  apply andb_true_iff in Hc. destruct Hc as [C1 C2]. apply Qle_bool_iff in C1. apply Qle_bool_iff in C2.
  assert (T : (if all_hit (N:=QN) sels then 0 else tol * (1 + Qabs (Spec.lmin vals) + Qabs (Spec.lmax vals)))
              <= tol * (1 + 2 * M)).
  { destruct (all_hit (N:=QN) sels).
    - apply Qmult_le_0_compat; [exact Htol|lra].
    - apply qmul_mono; [exact Htol|lra]. }
  split; lra.
Qed.

(* tolerance 0: exactly the convexity statement *)
Lemma convexnb_sound0 : forall n gs (v : arrq n) p out, wf n gs v -> inrs gs p ->
  Spec.convexnb 0 n gs v p out = true ->
  exists cs, cells gs p cs /\
    forall lo hi, (forall q, In q (corners n cs v) -> lo <= q /\ q <= hi) -> lo <= out /\ out <= hi.
Proof.
  intros n gs v p out Hw Hin Hc.
  destruct (convexnb_sound 0 n gs v p out (Qle_refl 0) Hw Hin Hc) as [cs [Hcs H]].
  exists cs. split; [exact Hcs|]. intros lo hi Hbd. destruct (H lo hi Hbd) as [H1 H2]. split; lra.
Qed.

(* on a grid point the checker demands the table value exactly, whatever the tolerance *)
Lemma position_on_grid : forall g p i, incr g -> (i < List.length g)%nat -> p == nq g i ->
  position (N:=QN) g p = Some i.
Proof.
  intros g p i Hinc Hi He. destruct (position (N:=QN) g p) as [k|] eqn:Ep.
  - destruct (position_some _ _ _ Ep) as [Hk Hek]. f_equal.
    apply (inc_inj g); try assumption. rewrite <- Hek, <- He. reflexivity.
  - exfalso. exact (position_none _ _ _ Ep Hi He).
Qed.

Lemma on_grid_block : forall n gs (v : arrq n) p ix, wf n gs v -> on_grid gs p ix ->
  nd_sels (N:=QN) gs p (hitsOf gs p) = Ok (map (Hit (N:=QN)) ix) /\
  exists b, gather (N:=QN) n (map (Hit (N:=QN)) ix) v = Ok b /\ Spec.flat n b = [entry n ix v].
Proof.
  induction n as [|k IH]; intros gs v p ix Hw Hg.
  - cbn in Hw. subst gs. destruct p; [|contradiction]. destruct ix; [|contradiction].
    split; [reflexivity|]. exists v. split; reflexivity.
  - destruct gs as [|g gr]; [contradiction|].
    destruct p as [|x pr]; [destruct ix; contradiction|]. destruct ix as [|i ir]; [contradiction|].
    destruct Hw as [Hinc [Hl [Hlen Hw]]]. destruct Hg as [Hi [He Hg]].
    destruct (IH gr (nth_a k i v) pr ir (Hw i Hi) Hg) as [Hs [b [Hgb Hfb]]].
    split.
    + cbn [hitsOf nd_sels tl map]. rewrite (position_on_grid g x i Hinc Hi He). rewrite Hs. reflexivity.
    + exists ([b] : arrq (S k)). cbn [map]. rewrite gather_hit.
      unfold len_a in Hlen.
      assert (Hidx : idx (v : list (arrq k)) i = Ok (nth_a k i v))
        by (unfold nth_a; apply idx_ok_gen; rewrite Hlen; exact Hi).
      rewrite Hidx. cbn [bind]. rewrite Hgb. cbn [bind]. split; [reflexivity|].
      change (Spec.flat (S k) ([b] : arrq (S k))) with ((Spec.flat k b ++ [])%list).
      rewrite app_nil_r, Hfb. reflexivity.
Qed.

Lemma all_hit_map : forall ix, all_hit (N:=QN) (map (Hit (N:=QN)) ix) = true.
Proof. induction ix as [|i r IH]; [reflexivity|exact IH]. Qed.

Lemma on_grid_inrs : forall gs p ix, axes_ok gs -> on_grid gs p ix -> inrs gs p.
Proof.
  induction gs as [|g gr IH]; intros [|x pr] [|i ir] Hax Hg; try contradiction; [exact I|].
  destruct Hax as [Hinc [_ Hax]]. destruct Hg as [Hi [He Hg]]. split; [|apply (IH pr ir Hax Hg)].
  apply (inr_proper g (nq g i)); [symmetry; exact He|apply grid_value_inr; assumption].
Qed.

Lemma convexnb_on_grid : forall tol n gs (v : arrq n) p ix out, wf n gs v -> on_grid gs p ix ->
  Spec.convexnb tol n gs v p out = true -> out == entry n ix v.
Proof.
  intros tol n gs v p ix out Hw Hg Hc.
  pose proof (wf_length n gs v Hw) as Hlen. pose proof (wf_axes n gs v Hw) as Hax.
  pose proof (on_grid_inrs gs p ix Hax Hg) as Hin. pose proof (inrs_length gs p Hin) as Hpl.
  destruct (on_grid_block n gs v p ix Hw Hg) as [Hs [b [Hgb Hfb]]].
  unfold Spec.convexnb, Spec.block in Hc.
  assert (Hf : firstn n gs = gs) by (rewrite <- Hlen; apply firstn_all). rewrite Hf in Hc.
  rewrite (nd_hits_spec gs p Hax Hpl) in Hc. cbn [bind] in Hc. rewrite Hs in Hc. cbn [bind] in Hc.
  rewrite Hgb in Hc. cbn [bind] in Hc. rewrite Hfb, all_hit_map in Hc.
  cbn [Spec.lmin Spec.lmax fold_left] in Hc.
  apply andb_true_iff in Hc. destruct Hc as [C1 C2]. apply Qle_bool_iff in C1. apply Qle_bool_iff in C2.
  apply Qle_antisym; lra.
Qed.

(* ---------- in-range test of the checker ---------- *)
Lemma inrs_dec : forall gs p, {inrs gs p} + {~ inrs gs p}.
Proof.
  induction gs as [|g gr IH]; intros [|x pr]; cbn [inrs]; try (right; tauto); [left; exact I|].
  destruct (inr_dec g x) as [H|H]; [|right; tauto]. destruct (IH pr) as [H'|H']; [left; tauto|right; tauto].
Qed.
Lemma insideb_spec : forall n gs (v : arrq n) p, wf n gs v -> List.length p = n ->
  (Spec.insideb n gs p = true <-> inrs gs p).
Proof.
  intros n gs v p Hw Hpl. pose proof (wf_length n gs v Hw) as Hlen. pose proof (wf_axes n gs v Hw) as Hax.
  unfold Spec.insideb. rewrite <- Hlen. split.
  - intros H. destruct (inrs_dec gs p) as [Hin|Hout]; [exact Hin|].
    rewrite (in_axes_false gs p Hax) in H; [discriminate|lia|exact Hout].
  - intros Hin. rewrite (in_axes_true gs p Hax Hin). reflexivity.
Qed.

(* verdict on Interpolator::interpolate *)
Lemma check_interpolate_sound : forall tol n gs (v : arrq n) (p : list Q) (r : res Q), wf n gs v ->
  Spec.check_interpolate tol n gs v p r = true ->
  (List.length p <> n -> exists e, r = Err e) /\
  (List.length p = n -> ~ inrs gs p -> exists e, r = Err e) /\
  (inrs gs p -> exists out, r = Ok out /\ Spec.convexnb tol n gs v p out = true).
Proof.
  intros tol n gs v p r Hw Hc. unfold Spec.check_interpolate in Hc.
  pose proof (wf_length n gs v Hw) as Hlen.
  destruct (List.length p =? n)%nat eqn:El; cbn [negb] in Hc.
  - apply Nat.eqb_eq in El. split; [intros H; contradiction|].
    destruct (Spec.insideb n gs p) eqn:Ei.
    + apply (insideb_spec n gs v p Hw El) in Ei. split; [intros _ H; contradiction|].
      intros _. destruct r as [out| | |]; try discriminate. exists out. split; [reflexivity|exact Hc].
    + assert (Hout : ~ inrs gs p).
      { intros H. apply (insideb_spec n gs v p Hw El) in H. congruence. }
      split; [|intros H; contradiction].
      intros _ _. destruct r as [|e| |]; try discriminate. exists e. reflexivity.
  - apply Nat.eqb_neq in El. split; [|split].
    + intros _. destruct r as [|e| |]; try discriminate. exists e. reflexivity.
    + intros H; contradiction.
    + intros Hin. pose proof (inrs_length gs p Hin). lia.
Qed.

(* exact-value checker: accepted values are within the tolerance of the multilinear polynomial of EVERY cell that
   contains the point (so of the value Props/C14.v proves convex, exact on grid points, continuous across borders,
   exact on multi-affine tables and common to Interp1D/2D/3D/ND) *)
Lemma exactnb_sound : forall tol n gs (v : arrq n) p out, 0 <= tol -> wf n gs v -> inrs gs p ->
  Spec.exactnb tol n gs v p out = true ->
  exists cs1, cells gs p cs1 /\
    forall lo hi, (forall q, In q (corners n cs1 v) -> lo <= q /\ q <= hi) ->
      forall cs, cells gs p cs ->
        Qabs (out - ndP n gs cs p v) <= tol * (1 + 2 * Qmax (Qabs lo) (Qabs hi)).
Proof.
  intros tol n gs v p out Htol Hw Hin Hc. unfold Spec.exactnb in Hc.
  destruct (interpolaten_formula n gs v p Hw Hin) as [cs0 [q [Hc0 [Hq Eq]]]].
  unfold mk in Hq. rewrite Hq in Hc.
  destruct (block_spec n gs v p Hw Hin) as [sels [cs1 [b [Hok [Hg Hb]]]]].
  destruct (gather_flat n gs p sels cs1 v b Hw Hok Hg) as [Hne Hsub].
  rewrite Hb in Hc. apply Qle_bool_iff in Hc. set (vals := Spec.flat n b) in *.
  exists cs1. split; [exact (sels_ok_cells _ _ _ _ Hok)|]. intros lo hi Hbd cs Hcs.
  assert (Hq' : q == ndP n gs cs p v) by (rewrite Eq; apply ndP_any_cell; assumption).
  rewrite Hq' in Hc.
  assert (L1 : lo <= Spec.lmin vals) by (apply lmin_glb; [exact Hne|intros x Hx; apply Hbd, Hsub, Hx]).
  assert (L2 : Spec.lmax vals <= hi) by (apply lmax_lub; [exact Hne|intros x Hx; apply Hbd, Hsub, Hx]).
  assert (L3 : Spec.lmin vals <= Spec.lmax vals).
  { destruct vals as [|a r]; [congruence|]. apply Qle_trans with a; [apply lmin_le|apply lmax_ge]; left; reflexivity. }
  set (M := Qmax (Qabs lo) (Qabs hi)).
  assert (A1 : Qabs (Spec.lmin vals) <= M) by (apply abs_between; lra).
  assert (A2 : Qabs (Spec.lmax vals) <= M) by (apply abs_between; lra).
  eapply Qle_trans; [exact Hc|]. apply qmul_mono; [exact Htol|lra].
Qed.

Lemma check_exact_sound : forall tol n gs (v : arrq n) (p : list Q) (r : res Q), wf n gs v -> inrs gs p ->
  Spec.check_exact tol n gs v p r = true -> exists out, r = Ok out /\ Spec.exactnb tol n gs v p out = true.
Proof.
  intros tol n gs v p r Hw Hin Hc. unfold Spec.check_exact in Hc.
  pose proof (wf_length n gs v Hw) as Hlen. pose proof (inrs_length gs p Hin) as Hpl.
  assert (El : (List.length p =? n)%nat = true) by (apply Nat.eqb_eq; lia). rewrite El in Hc. cbn [negb] in Hc.
  assert (Ei : Spec.insideb n gs p = true) by (apply (insideb_spec n gs v p Hw); [lia|exact Hin]).
  rewrite Ei in Hc. cbn [negb] in Hc. destruct r as [out| | |]; try discriminate. exists out. split; [reflexivity|exact Hc].
Qed.

(* ---------- the speed/grade checker ---------- *)
Lemma qclamp_inr : forall lo hi v, lo <= hi -> lo <= Spec.qclamp lo hi v /\ Spec.qclamp lo hi v <= hi.
Proof.
  intros lo hi v H. unfold Spec.qclamp. split.
  - apply Q.min_glb; [apply Q.le_max_r|exact H].
  - apply Q.le_min_r.
Qed.
Lemma qclamp_clamp : forall lo hi v, lo <= hi -> Spec.qclamp lo hi v == clamp (N:=QN) lo hi v.
Proof.
  intros lo hi v H. unfold Spec.qclamp.
  destruct (clamp_cases lo hi v H) as [[H1 ->]|[[H1 ->]|[H1 [H2 ->]]]].
  - rewrite (Q.max_r v lo) by lra. apply Q.min_l. exact H.
  - rewrite (Q.max_l v lo) by lra. apply Q.min_r. lra.
  - rewrite (Q.max_l v lo) by exact H1. apply Q.min_l. exact H2.
Qed.

Lemma check_sg_sound : forall tol (m : @interp2 QN) sv gv (r : res Q), valid2 m ->
  Spec.check_sg tol (x2 m) (y2 m) (f2 m) sv gv r = true ->
  let cs := Spec.qclamp (nq (x2 m) 0) (lastq (x2 m)) sv in
  let cg := Spec.qclamp (nq (y2 m) 0) (lastq (y2 m)) gv in
  inr (x2 m) cs /\ inr (y2 m) cg /\
  exists out, r = Ok out /\ Spec.convexnb tol 2 [x2 m; y2 m] (f2 m) [cs; cg] out = true.
Proof.
  intros tol m sv gv r Hv Hc. pose proof Hv as [Hxi Hyi Hxl Hyl _ _]. cbv zeta.
  split; [apply qclamp_inr; apply first_le_last; assumption|].
  split; [apply qclamp_inr; apply first_le_last; assumption|].
  unfold Spec.check_sg in Hc. change (T QN) with Q in *.
  destruct (x2 m) as [|x0 xr] eqn:Ex; [cbn in Hxl; lia|].
  destruct (y2 m) as [|y0 yr] eqn:Ey; [cbn in Hyl; lia|].
  cbv beta iota in Hc. change (T QN) with Q in *.
  rewrite (last_opt_nth (x0 :: xr)) in Hc by congruence.
  rewrite (last_opt_nth (y0 :: yr)) in Hc by congruence.
  destruct r as [out| | |]; try discriminate. exists out. split; [reflexivity|]. exact Hc.
Qed.

(* the axis checker: the grid `new` built has the configured number of points, starts at the lower bound, is strictly
   increasing and ends at the upper bound (up to the tolerance) -- the shape c14_sg_grid_is_underlying proves exactly *)
Lemma check_axis_sound : forall tol lo hi bins (xs : list Q), Spec.check_axis tol lo hi bins xs = true ->
  List.length xs = bins /\ incr xs /\ (1 <= List.length xs)%nat /\ nq xs 0 == lo /\
  Qabs (lastq xs - hi) <= tol * (1 + Qabs lo + Qabs hi).
Proof.
  intros tol lo hi bins xs H. unfold Spec.check_axis in H.
  apply andb_true_iff in H. destruct H as [H H3]. apply andb_true_iff in H. destruct H as [H1 H2].
  apply Nat.eqb_eq in H1. destruct xs as [|x0 xr]; [discriminate|].
  change (T QN) with Q in *. rewrite (last_opt_nth (x0 :: xr)) in H3 by congruence.
  apply andb_true_iff in H3. destruct H3 as [H3 H4]. apply Qeq_bool_iff in H3. apply Qle_bool_iff in H4.
  split; [exact H1|]. split; [exact H2|]. split; [cbn; lia|]. split; [exact H3|exact H4].
Qed.

Lemma check_sg_exact_sound : forall tol (m : @interp2 QN) sv gv (r : res Q), valid2 m ->
  Spec.check_sg_exact tol (x2 m) (y2 m) (f2 m) sv gv r = true ->
  exists out, r = Ok out /\
    Spec.exactnb tol 2 [x2 m; y2 m] (f2 m)
      [Spec.qclamp (nq (x2 m) 0) (lastq (x2 m)) sv; Spec.qclamp (nq (y2 m) 0) (lastq (y2 m)) gv] out = true.
Proof.
  intros tol m sv gv r Hv Hc. pose proof Hv as [Hxi Hyi Hxl Hyl _ _].
  unfold Spec.check_sg_exact in Hc. change (T QN) with Q in *.
  destruct (x2 m) as [|x0 xr] eqn:Ex; [cbn in Hxl; lia|].
  destruct (y2 m) as [|y0 yr] eqn:Ey; [cbn in Hyl; lia|].
  cbv beta iota in Hc. change (T QN) with Q in *.
  rewrite (last_opt_nth (x0 :: xr)) in Hc by congruence.
  rewrite (last_opt_nth (y0 :: yr)) in Hc by congruence.
  destruct r as [out| | |]; try discriminate. exists out. split; [reflexivity|]. exact Hc.
Qed.

(* the four corner values of a 2-D cell *)
Lemma corners2 : forall (f : list (list Q)) i j,
  corners 2 [i; j] f = [t2 f i j; t2 f i (S j); t2 f (S i) j; t2 f (S i) (S j)].
Proof. reflexivity. Qed.

(* ---------- the multi-affine test function ---------- *)
Fixpoint pscale (n : nat) (s : Q) : mpoly n -> mpoly n :=
  match n return mpoly n -> mpoly n with
  | 0%nat => fun c => s * c
  | S k => fun ab => (pscale k s (fst ab), pscale k s (snd ab))
  end.
Lemma meval_pscale : forall n s P r, meval n (pscale n s P) r == s * meval n P r.
Proof.
  induction n as [|k IH]; intros s P r; [reflexivity|].
  destruct r as [|x r]; cbn [meval pscale fst snd]; [ring|]. rewrite !IH. ring.
Qed.
Fixpoint pprod (ab : list (Q * Q)) : mpoly (List.length ab) :=
  match ab return mpoly (List.length ab) with
  | [] => 1
  | (a, b) :: r => (pscale (List.length r) b (pprod r), pscale (List.length r) a (pprod r))
  end.
Lemma meval_pprod : forall ab p, List.length p = List.length ab ->
  meval (List.length ab) (pprod ab) p == Spec.prodlin ab p.
Proof.
  induction ab as [|[a b] r IH]; intros p Hl.
  - destruct p; [reflexivity|discriminate].
  - destruct p as [|x pr]; [discriminate|]. cbn [List.length] in Hl. injection Hl as Hl.
    cbn [List.length pprod meval fst snd Spec.prodlin]. rewrite !meval_pscale, (IH pr Hl). ring.
Qed.
Fixpoint paddc (n : nat) (c : Q) : mpoly n -> mpoly n :=
  match n return mpoly n -> mpoly n with
  | 0%nat => fun x => c + x
  | S k => fun ab => (paddc k c (fst ab), snd ab)
  end.
Lemma meval_paddc : forall n c P r, List.length r = n -> meval n (paddc n c P) r == c + meval n P r.
Proof.
  induction n as [|k IH]; intros c P r Hl; [reflexivity|].
  destruct r as [|x r]; [discriminate|]. cbn [meval paddc fst snd]. rewrite IH by (cbn in Hl; lia). ring.
Qed.

(* mlinF is multi-affine, hence reproduced exactly by the multilinear cell polynomial *)
Lemma mlin_exact : forall c ab gs cs pt (v : arrq (List.length ab)),
  List.length gs = List.length ab -> cells gs pt cs ->
  (forall ix, inrange gs ix -> entry (List.length ab) ix v == Spec.mlinF c ab (coords gs ix)) ->
  ndP (List.length ab) gs cs pt v == Spec.mlinF c ab pt.
Proof.
  intros c ab gs cs pt v Hlen Hc Hs.
  assert (Hcl : forall gs' pt' cs', cells gs' pt' cs' -> List.length pt' = List.length gs').
  { induction gs' as [|g gr IH]; intros [|x pr] [|k kr] H; try contradiction; [reflexivity|].
    destruct H as [_ H]. cbn [List.length]. f_equal. exact (IH pr kr H). }
  assert (Hco : forall gs' ix, inrange gs' ix -> List.length (coords gs' ix) = List.length gs').
  { induction gs' as [|g gr IH]; intros [|k kr] H; try contradiction; [reflexivity|].
    destruct H as [_ H]. cbn [coords List.length]. f_equal. exact (IH kr H). }
  rewrite (ndP_multilinear (List.length ab) gs cs pt v (paddc _ c (pprod ab)) Hlen Hc).
  - unfold Spec.mlinF. rewrite meval_paddc by (rewrite (Hcl _ _ _ Hc); exact Hlen).
    rewrite meval_pprod by (rewrite (Hcl _ _ _ Hc); exact Hlen). reflexivity.
  - intros ix Hix. rewrite (Hs ix Hix). unfold Spec.mlinF.
    rewrite meval_paddc by (rewrite (Hco _ _ Hix); exact Hlen).
    rewrite meval_pprod by (rewrite (Hco _ _ Hix); exact Hlen). reflexivity.
Qed.

Lemma check_mlin_sound : forall tol n gs (v : arrq n) c ab (p : list Q) (r : res Q), 0 <= tol -> wf n gs v -> inrs gs p ->
  Spec.check_mlin tol n gs v c ab p r = true ->
  exists out cs, r = Ok out /\ cells gs p cs /\
    forall lo hi, (forall q, In q (corners n cs v) -> lo <= q /\ q <= hi) ->
      Qabs (out - Spec.mlinF c ab p) <= tol * (1 + 2 * Qmax (Qabs lo) (Qabs hi)).
Proof.
  intros tol n gs v c ab p r Htol Hw Hin Hc. unfold Spec.check_mlin in Hc.
  pose proof (wf_length n gs v Hw) as Hlen. pose proof (inrs_length gs p Hin) as Hpl.
  assert (El : (List.length p =? n)%nat = true) by (apply Nat.eqb_eq; lia). rewrite El in Hc. cbn [negb] in Hc.
  assert (Ei : Spec.insideb n gs p = true) by (apply (insideb_spec n gs v p Hw); [lia|exact Hin]).
  rewrite Ei in Hc. cbn [negb] in Hc.
  destruct (block_spec n gs v p Hw Hin) as [sels [cs [b [Hok [Hg Hb]]]]].
  destruct (gather_flat n gs p sels cs v b Hw Hok Hg) as [Hne Hsub].
  rewrite Hb in Hc. destruct r as [out| | |]; try discriminate.
  exists out, cs. split; [reflexivity|]. split; [exact (sels_ok_cells _ _ _ _ Hok)|]. intros lo hi Hbd.
  apply Qle_bool_iff in Hc. set (vals := Spec.flat n b) in *.
  assert (L1 : lo <= Spec.lmin vals) by (apply lmin_glb; [exact Hne|intros q Hq; apply Hbd, Hsub, Hq]).
  assert (L2 : Spec.lmax vals <= hi) by (apply lmax_lub; [exact Hne|intros q Hq; apply Hbd, Hsub, Hq]).
  assert (L3 : Spec.lmin vals <= Spec.lmax vals).
  { destruct vals as [|a r]; [congruence|]. apply Qle_trans with a; [apply lmin_le|apply lmax_ge]; left; reflexivity. }
  set (M := Qmax (Qabs lo) (Qabs hi)).
  assert (A1 : Qabs (Spec.lmin vals) <= M) by (apply abs_between; lra).
  assert (A2 : Qabs (Spec.lmax vals) <= M) by (apply abs_between; lra).
  eapply Qle_trans; [exact Hc|]. apply qmul_mono; [exact Htol|lra].
Qed.

End InterpC.
