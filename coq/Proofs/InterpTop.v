(* C14 lemmas, part 8 (QN): the statements of Props/C14.v, assembled from parts 1-7. *)
From Coq Require Import ZArith QArith Qminmax Qabs List Bool Arith Lia Lqa String.
From RC Require Import Base.Num Base.Res Model.Interp
                       Proofs.Interp Proofs.InterpGrid Proofs.InterpSG Proofs.InterpND Proofs.InterpAgree.
Import ListNotations.
Import Interp InterpP InterpG InterpS InterpN InterpA.
Open Scope Q_scope.

Module InterpT.

Definition min4 (a b c d : Q) : Q := Qmin (Qmin a b) (Qmin c d).
Definition max4 (a b c d : Q) : Q := Qmax (Qmax a b) (Qmax c d).
Lemma min4_le : forall a b c d, min4 a b c d <= a /\ min4 a b c d <= b /\ min4 a b c d <= c /\ min4 a b c d <= d.
Proof.
  intros a b c d. unfold min4. repeat split.
  - eapply Qle_trans; [apply Q.le_min_l|apply Q.le_min_l].
  - eapply Qle_trans; [apply Q.le_min_l|apply Q.le_min_r].
  - eapply Qle_trans; [apply Q.le_min_r|apply Q.le_min_l].
  - eapply Qle_trans; [apply Q.le_min_r|apply Q.le_min_r].
Qed.
Lemma max4_ge : forall a b c d, a <= max4 a b c d /\ b <= max4 a b c d /\ c <= max4 a b c d /\ d <= max4 a b c d.
Proof.
  intros a b c d. unfold max4. repeat split.
  - eapply Qle_trans; [apply Q.le_max_l|apply Q.le_max_l].
  - eapply Qle_trans; [apply Q.le_max_r|apply Q.le_max_l].
  - eapply Qle_trans; [apply Q.le_max_l|apply Q.le_max_r].
  - eapply Qle_trans; [apply Q.le_max_r|apply Q.le_max_r].
Qed.

Lemma on_grid_inr : forall g k p, incr g -> (k < List.length g)%nat -> p == nq g k -> inr g p.
Proof. intros g k p Hi Hk He. apply (inr_proper g (nq g k)); [symmetry; exact He|apply grid_value_inr; assumption]. Qed.

Lemma grid_cells : forall g k, incr g -> (S (S k) < List.length g)%nat ->
  axis_cell g (nq g (S k)) k /\ axis_cell g (nq g (S k)) (S k).
Proof.
  intros g k Hi Hk. split; constructor; try lia; try apply Qle_refl;
    try (apply Qlt_le_weak); apply inc_step; try assumption; lia.
Qed.

(* =================================================================== 1-D *)
Lemma t1_convex : forall m p, valid1 m -> inr (x1 m) p ->
  exists i v, interpolate1 (N:=QN) m [p] = Ok v /\ axis_cell (x1 m) p i /\
    Qmin (nq (f1 m) i) (nq (f1 m) (S i)) <= v /\ v <= Qmax (nq (f1 m) i) (nq (f1 m) (S i)).
Proof.
  intros m p Hv Hin. destruct (interpolate1_formula m p Hv Hin) as [i [v [Hc [Hr He]]]].
  exists i, v. split; [exact Hr|]. split; [exact Hc|]. rewrite He.
  apply P1_between; try assumption; try apply Q.le_min_l; try apply Q.le_min_r;
    try apply Q.le_max_l; apply Q.le_max_r.
Qed.
Lemma t1_on_grid : forall m p k, valid1 m -> (k < List.length (x1 m))%nat -> p == nq (x1 m) k ->
  exists v, interpolate1 (N:=QN) m [p] = Ok v /\ v == nq (f1 m) k.
Proof.
  intros m p k Hv Hk He. pose proof (v1_inc m Hv) as Hi.
  destruct (interpolate1_formula m p Hv (on_grid_inr _ k p Hi Hk He)) as [i [v [Hc [Hr Hev]]]].
  exists v. split; [exact Hr|]. rewrite Hev. apply P1_on_grid; assumption.
Qed.
Lemma t1_any_cell : forall m p, valid1 m -> inr (x1 m) p ->
  exists v, interpolate1 (N:=QN) m [p] = Ok v /\ forall i, axis_cell (x1 m) p i -> v == P1 m i p.
Proof.
  intros m p Hv Hin. destruct (interpolate1_formula m p Hv Hin) as [i [v [Hc [Hr He]]]].
  exists v. split; [exact Hr|]. intros i' Hc'. rewrite He. apply P1_any_cell; [exact (v1_inc m Hv)|assumption|assumption].
Qed.
Lemma t1_border : forall m k, valid1 m -> (S (S k) < List.length (x1 m))%nat ->
  P1 m k (nq (x1 m) (S k)) == P1 m (S k) (nq (x1 m) (S k)).
Proof.
  intros m k Hv Hk. destruct (grid_cells (x1 m) k (v1_inc m Hv) Hk) as [H1 H2].
  apply P1_any_cell; [exact (v1_inc m Hv)|assumption|assumption].
Qed.
Lemma t1_affine : forall m p A B, valid1 m -> inr (x1 m) p ->
  (forall k, (k < List.length (x1 m))%nat -> nq (f1 m) k == A + B * nq (x1 m) k) ->
  exists v, interpolate1 (N:=QN) m [p] = Ok v /\ v == A + B * p.
Proof.
  intros m p A B Hv Hin Hf. destruct (interpolate1_formula m p Hv Hin) as [i [v [Hc [Hr He]]]].
  exists v. split; [exact Hr|]. rewrite He. apply P1_affine; assumption.
Qed.

(* =================================================================== 2-D *)
Lemma t2_convex : forall m px py, valid2 m -> inr (x2 m) px -> inr (y2 m) py ->
  exists i j v, interpolate2 (N:=QN) m [px; py] = Ok v /\ axis_cell (x2 m) px i /\ axis_cell (y2 m) py j /\
    min4 (t2 (f2 m) i j) (t2 (f2 m) (S i) j) (t2 (f2 m) i (S j)) (t2 (f2 m) (S i) (S j)) <= v /\
    v <= max4 (t2 (f2 m) i j) (t2 (f2 m) (S i) j) (t2 (f2 m) i (S j)) (t2 (f2 m) (S i) (S j)).
Proof.
  intros m px py Hv Hx Hy. destruct (interpolate2_formula m px py Hv Hx Hy) as [i [j [Hi [Hj Hr]]]].
  exists i, j, (P2 m i j px py). split; [exact Hr|]. split; [exact Hi|]. split; [exact Hj|].
  apply P2_between; try assumption.
  destruct (min4_le (t2 (f2 m) i j) (t2 (f2 m) (S i) j) (t2 (f2 m) i (S j)) (t2 (f2 m) (S i) (S j)))
    as [A1 [A2 [A3 A4]]].
  destruct (max4_ge (t2 (f2 m) i j) (t2 (f2 m) (S i) j) (t2 (f2 m) i (S j)) (t2 (f2 m) (S i) (S j)))
    as [B1 [B2 [B3 B4]]].
  intros a b [->| ->] [->| ->]; split; assumption.
Qed.
Lemma t2_on_grid : forall m px py k l, valid2 m -> (k < List.length (x2 m))%nat -> (l < List.length (y2 m))%nat ->
  px == nq (x2 m) k -> py == nq (y2 m) l ->
  exists v, interpolate2 (N:=QN) m [px; py] = Ok v /\ v == t2 (f2 m) k l.
Proof.
  intros m px py k l Hv Hk Hl Ex Ey. pose proof (v2_xinc m Hv) as Hxi. pose proof (v2_yinc m Hv) as Hyi.
  destruct (interpolate2_formula m px py Hv (on_grid_inr _ k px Hxi Hk Ex) (on_grid_inr _ l py Hyi Hl Ey))
    as [i [j [Hi [Hj Hr]]]].
  exists (P2 m i j px py). split; [exact Hr|]. apply P2_on_grid; assumption.
Qed.
Lemma t2_any_cell : forall m px py, valid2 m -> inr (x2 m) px -> inr (y2 m) py ->
  exists v, interpolate2 (N:=QN) m [px; py] = Ok v /\
            forall i j, axis_cell (x2 m) px i -> axis_cell (y2 m) py j -> v == P2 m i j px py.
Proof.
  intros m px py Hv Hx Hy. destruct (interpolate2_formula m px py Hv Hx Hy) as [i [j [Hi [Hj Hr]]]].
  exists (P2 m i j px py). split; [exact Hr|]. intros i' j' Hi' Hj'.
  apply P2_any_cell; try assumption; [exact (v2_xinc m Hv)|exact (v2_yinc m Hv)].
Qed.
Lemma t2_border_x : forall m k j py, valid2 m -> (S (S k) < List.length (x2 m))%nat -> axis_cell (y2 m) py j ->
  P2 m k j (nq (x2 m) (S k)) py == P2 m (S k) j (nq (x2 m) (S k)) py.
Proof.
  intros m k j py Hv Hk Hj. destruct (grid_cells (x2 m) k (v2_xinc m Hv) Hk) as [H1 H2].
  apply P2_any_cell; try assumption; [exact (v2_xinc m Hv)|exact (v2_yinc m Hv)].
Qed.
Lemma t2_border_y : forall m i l px, valid2 m -> (S (S l) < List.length (y2 m))%nat -> axis_cell (x2 m) px i ->
  P2 m i l px (nq (y2 m) (S l)) == P2 m i (S l) px (nq (y2 m) (S l)).
Proof.
  intros m i l px Hv Hl Hi. destruct (grid_cells (y2 m) l (v2_yinc m Hv) Hl) as [H1 H2].
  apply P2_any_cell; try assumption; [exact (v2_xinc m Hv)|exact (v2_yinc m Hv)].
Qed.
Lemma t2_multilinear : forall m px py c0 c1 c2 c3, valid2 m -> inr (x2 m) px -> inr (y2 m) py ->
  (forall a b, (a < List.length (x2 m))%nat -> (b < List.length (y2 m))%nat ->
               t2 (f2 m) a b == mlin2 c0 c1 c2 c3 (nq (x2 m) a) (nq (y2 m) b)) ->
  exists v, interpolate2 (N:=QN) m [px; py] = Ok v /\ v == mlin2 c0 c1 c2 c3 px py.
Proof.
  intros m px py c0 c1 c2 c3 Hv Hx Hy Hf.
  destruct (interpolate2_formula m px py Hv Hx Hy) as [i [j [Hi [Hj Hr]]]].
  exists (P2 m i j px py). split; [exact Hr|]. apply P2_multilinear; assumption.
Qed.
(* inside one cell the value is Lipschitz in the fractions, with the corner differences as constants *)
Lemma t2_lipschitz : forall (m : @interp2 QN) i j px px' py py',
  P2 m i j px py - P2 m i j px' py' ==
  (fr (x2 m) i px - fr (x2 m) i px') *
    ler (t2 (f2 m) (S i) j - t2 (f2 m) i j) (t2 (f2 m) (S i) (S j) - t2 (f2 m) i (S j)) (fr (y2 m) j py)
  + (fr (y2 m) j py - fr (y2 m) j py') *
    ler (t2 (f2 m) i (S j) - t2 (f2 m) i j) (t2 (f2 m) (S i) (S j) - t2 (f2 m) (S i) j) (fr (x2 m) i px').
Proof. intros. unfold P2, bil, ler. ring. Qed.

(* =================================================================== 3-D *)
Lemma t3_convex : forall m px py pz lo hi, valid3 m -> inr (x3 m) px -> inr (y3 m) py -> inr (z3 m) pz ->
  exists i j k v, interpolate3 (N:=QN) m [px; py; pz] = Ok v /\
    axis_cell (x3 m) px i /\ axis_cell (y3 m) py j /\ axis_cell (z3 m) pz k /\
    ((forall a b c, (a = i \/ a = S i) -> (b = j \/ b = S j) -> (c = k \/ c = S k) ->
                    lo <= t3 (f3 m) a b c /\ t3 (f3 m) a b c <= hi) -> lo <= v /\ v <= hi).
Proof.
  intros m px py pz lo hi Hv Hx Hy Hz.
  destruct (interpolate3_formula m px py pz Hv Hx Hy Hz) as [i [j [k [Hi [Hj [Hk Hr]]]]]].
  exists i, j, k, (P3 m i j k px py pz). repeat (split; [assumption|]).
  intros Hc. apply P3_between; assumption.
Qed.
Lemma t3_on_grid : forall m px py pz a b c, valid3 m ->
  (a < List.length (x3 m))%nat -> (b < List.length (y3 m))%nat -> (c < List.length (z3 m))%nat ->
  px == nq (x3 m) a -> py == nq (y3 m) b -> pz == nq (z3 m) c ->
  exists v, interpolate3 (N:=QN) m [px; py; pz] = Ok v /\ v == t3 (f3 m) a b c.
Proof.
  intros m px py pz a b c Hv Ha Hb Hc Ex Ey Ez.
  pose proof (v3_xinc m Hv) as Hxi. pose proof (v3_yinc m Hv) as Hyi. pose proof (v3_zinc m Hv) as Hzi.
  destruct (interpolate3_formula m px py pz Hv (on_grid_inr _ a px Hxi Ha Ex) (on_grid_inr _ b py Hyi Hb Ey)
              (on_grid_inr _ c pz Hzi Hc Ez)) as [i [j [k [Hi [Hj [Hk Hr]]]]]].
  exists (P3 m i j k px py pz). split; [exact Hr|]. apply P3_on_grid; assumption.
Qed.
Lemma t3_any_cell : forall m px py pz, valid3 m -> inr (x3 m) px -> inr (y3 m) py -> inr (z3 m) pz ->
  exists v, interpolate3 (N:=QN) m [px; py; pz] = Ok v /\
    forall i j k, axis_cell (x3 m) px i -> axis_cell (y3 m) py j -> axis_cell (z3 m) pz k ->
                  v == P3 m i j k px py pz.
Proof.
  intros m px py pz Hv Hx Hy Hz.
  destruct (interpolate3_formula m px py pz Hv Hx Hy Hz) as [i [j [k [Hi [Hj [Hk Hr]]]]]].
  exists (P3 m i j k px py pz). split; [exact Hr|]. intros i' j' k' Hi' Hj' Hk'.
  apply P3_any_cell; try assumption; [exact (v3_xinc m Hv)|exact (v3_yinc m Hv)|exact (v3_zinc m Hv)].
Qed.
Lemma t3_multilinear : forall m px py pz c, valid3 m -> inr (x3 m) px -> inr (y3 m) py -> inr (z3 m) pz ->
  (forall a b d, (a < List.length (x3 m))%nat -> (b < List.length (y3 m))%nat -> (d < List.length (z3 m))%nat ->
                 t3 (f3 m) a b d == mlin3 c (nq (x3 m) a) (nq (y3 m) b) (nq (z3 m) d)) ->
  exists v, interpolate3 (N:=QN) m [px; py; pz] = Ok v /\ v == mlin3 c px py pz.
Proof.
  intros m px py pz c Hv Hx Hy Hz Hf.
  destruct (interpolate3_formula m px py pz Hv Hx Hy Hz) as [i [j [k [Hi [Hj [Hk Hr]]]]]].
  exists (P3 m i j k px py pz). split; [exact Hr|]. apply P3_multilinear; assumption.
Qed.

(* =================================================================== N-D *)
Lemma tn_convex : forall n gs (v : arrq n) pt, wf n gs v -> inrs gs pt ->
  exists cs out, interpolaten (N:=QN) (mk n gs v) pt = Ok out /\ cells gs pt cs /\
    forall lo hi, (forall q, In q (corners n cs v) -> lo <= q /\ q <= hi) -> lo <= out /\ out <= hi.
Proof.
  intros n gs v pt Hw Hin. destruct (interpolaten_formula n gs v pt Hw Hin) as [cs [out [Hc [Hr He]]]].
  exists cs, out. split; [exact Hr|]. split; [exact Hc|]. intros lo hi Hq. rewrite He.
  apply ndP_between; [exact Hc|exact (wf_length n gs v Hw)|exact Hq].
Qed.
Lemma tn_on_grid : forall n gs (v : arrq n) pt ix, wf n gs v -> on_grid gs pt ix -> inrs gs pt ->
  exists out, interpolaten (N:=QN) (mk n gs v) pt = Ok out /\ out == entry n ix v.
Proof.
  intros n gs v pt ix Hw Hg Hin. destruct (interpolaten_formula n gs v pt Hw Hin) as [cs [out [Hc [Hr He]]]].
  exists out. split; [exact Hr|]. rewrite He. apply ndP_on_grid; assumption.
Qed.
Lemma tn_any_cell : forall n gs (v : arrq n) pt, wf n gs v -> inrs gs pt ->
  exists out, interpolaten (N:=QN) (mk n gs v) pt = Ok out /\
              forall cs, cells gs pt cs -> out == ndP n gs cs pt v.
Proof.
  intros n gs v pt Hw Hin. destruct (interpolaten_formula n gs v pt Hw Hin) as [cs [out [Hc [Hr He]]]].
  exists out. split; [exact Hr|]. intros cs' Hc'. rewrite He. apply ndP_any_cell; assumption.
Qed.
Lemma tn_multilinear : forall n gs (v : arrq n) pt (P : mpoly n), wf n gs v -> inrs gs pt ->
  (forall ix, inrange gs ix -> entry n ix v == meval n P (coords gs ix)) ->
  exists out, interpolaten (N:=QN) (mk n gs v) pt = Ok out /\ out == meval n P pt.
Proof.
  intros n gs v pt P Hw Hin Hs. destruct (interpolaten_formula n gs v pt Hw Hin) as [cs [out [Hc [Hr He]]]].
  exists out. split; [exact Hr|]. rewrite He. apply ndP_multilinear; [exact (wf_length n gs v Hw)|exact Hc|exact Hs].
Qed.

(* =================================================================== speed / grade model *)
Section SG.
  Variable underlying : Q -> Q -> res Q.
  Variable conv_speed conv_grade : Q -> Q.
  Variables (s_lo s_hi : Q) (s_bins : nat) (g_lo g_hi : Q) (g_bins : nat) (m : @interp2 QN).
  Hypothesis Hnew : sg_new (N:=QN) underlying s_lo s_hi s_bins g_lo g_hi g_bins = Ok m.
  Hypothesis Hsb : (2 <= s_bins)%nat.
  Hypothesis Hgb : (2 <= g_bins)%nat.

  Let spec := sg_new_spec underlying s_lo s_hi s_bins g_lo g_hi g_bins m Hnew Hsb Hgb.

  Lemma sg_valid : valid2 m.
  Proof. exact (proj1 spec). Qed.

  (* the clamped, converted query *)
  Definition qs (speed : Q) : Q := cl_s m (conv_speed speed).
  Definition qg (grade : Q) : Q := cl_g m (conv_grade grade).

  Lemma tsg_grid_is_underlying :
    linspace (N:=QN) s_lo s_hi s_bins = Ok (x2 m) /\ linspace (N:=QN) g_lo g_hi g_bins = Ok (y2 m) /\
    List.length (x2 m) = s_bins /\ List.length (y2 m) = g_bins /\
    nq (x2 m) 0 = s_lo /\ lastq (x2 m) == s_hi /\ nq (y2 m) 0 = g_lo /\ lastq (y2 m) == g_hi /\
    s_lo < s_hi /\ g_lo < g_hi /\
    (forall i, (i < s_bins)%nat ->
       nq (x2 m) i == s_lo + inject_Z (Z.of_nat i) * ((s_hi - s_lo) / inject_Z (Z.of_nat (s_bins - 1)))) /\
    (forall j, (j < g_bins)%nat ->
       nq (y2 m) j == g_lo + inject_Z (Z.of_nat j) * ((g_hi - g_lo) / inject_Z (Z.of_nat (g_bins - 1)))) /\
    (forall i j, (i < s_bins)%nat -> (j < g_bins)%nat ->
       underlying (nq (x2 m) i) (nq (y2 m) j) = Ok (t2 (f2 m) i j)).
  Proof.
    destruct spec as [_ [Lx [Ly [H1 [H2 [H3 [H4 [H5 [H6 [H7 [H8 H9]]]]]]]]]]].
    destruct (linspace_spec _ _ _ _ Lx Hsb) as [_ [_ [_ [Nx _]]]].
    destruct (linspace_spec _ _ _ _ Ly Hgb) as [_ [_ [_ [Ny _]]]].
    repeat (split; [assumption|]). exact H9.
  Qed.

  Lemma tsg_convex : forall speed grade,
    exists i j v u00 u10 u01 u11,
      sg_predict (N:=QN) conv_speed conv_grade m speed grade = Ok v /\
      axis_cell (x2 m) (qs speed) i /\ axis_cell (y2 m) (qg grade) j /\
      underlying (nq (x2 m) i) (nq (y2 m) j) = Ok u00 /\
      underlying (nq (x2 m) (S i)) (nq (y2 m) j) = Ok u10 /\
      underlying (nq (x2 m) i) (nq (y2 m) (S j)) = Ok u01 /\
      underlying (nq (x2 m) (S i)) (nq (y2 m) (S j)) = Ok u11 /\
      min4 u00 u10 u01 u11 <= v /\ v <= max4 u00 u10 u01 u11.
  Proof.
    intros speed grade. pose proof sg_valid as Hv.
    destruct (sg_predict_conv_eq m (conv_speed speed) (conv_grade grade) Hv) as [Hx [Hy He]].
    destruct (t2_convex m _ _ Hv Hx Hy) as [i [j [v [Hr [Hi [Hj [H1 H2]]]]]]].
    destruct spec as [_ [_ [_ [Lx [Ly [_ [_ [_ [_ [_ [_ Hu]]]]]]]]]]].
    pose proof Hi as [Li _ _ _]. pose proof Hj as [Lj _ _ _].
    exists i, j, v, (t2 (f2 m) i j), (t2 (f2 m) (S i) j), (t2 (f2 m) i (S j)), (t2 (f2 m) (S i) (S j)).
    split; [unfold sg_predict; rewrite He; exact Hr|]. split; [exact Hi|]. split; [exact Hj|].
    repeat (split; [apply Hu; qlia|]). split; assumption.
  Qed.

  Lemma tsg_on_grid : forall speed grade k l, (k < s_bins)%nat -> (l < g_bins)%nat ->
    conv_speed speed == nq (x2 m) k -> conv_grade grade == nq (y2 m) l ->
    exists v u, sg_predict (N:=QN) conv_speed conv_grade m speed grade = Ok v /\
                underlying (nq (x2 m) k) (nq (y2 m) l) = Ok u /\ v == u.
  Proof.
    intros speed grade k l Hk Hl Es Eg. pose proof sg_valid as Hv.
    destruct spec as [_ [_ [_ [Lx [Ly [_ [_ [_ [_ [_ [_ Hu]]]]]]]]]]].
    pose proof (v2_xinc m Hv) as Hxi. pose proof (v2_yinc m Hv) as Hyi.
    assert (Hxr : inr (x2 m) (conv_speed speed)) by (apply (on_grid_inr _ k); [assumption|qlia|assumption]).
    assert (Hyr : inr (y2 m) (conv_grade grade)) by (apply (on_grid_inr _ l); [assumption|qlia|assumption]).
    destruct (sg_predict_conv_eq m (conv_speed speed) (conv_grade grade) Hv) as [_ [_ He]].
    unfold cl_s, cl_g in He. destruct Hxr as [X1 X2]. destruct Hyr as [Y1 Y2].
    rewrite (clamp_id _ _ _ X1 X2), (clamp_id _ _ _ Y1 Y2) in He.
    destruct (t2_on_grid m _ _ k l Hv ltac:(qlia) ltac:(qlia) Es Eg) as [v [Hr Hev]].
    exists v, (t2 (f2 m) k l). split; [unfold sg_predict; rewrite He; exact Hr|]. split; [apply Hu; assumption|exact Hev].
  Qed.

  Lemma tsg_any_cell : forall speed grade,
    exists v, sg_predict (N:=QN) conv_speed conv_grade m speed grade = Ok v /\
      forall i j, axis_cell (x2 m) (qs speed) i -> axis_cell (y2 m) (qg grade) j ->
                  v == P2 m i j (qs speed) (qg grade).
  Proof.
    intros speed grade. pose proof sg_valid as Hv.
    destruct (sg_predict_conv_eq m (conv_speed speed) (conv_grade grade) Hv) as [Hx [Hy He]].
    destruct (t2_any_cell m _ _ Hv Hx Hy) as [v [Hr Ha]].
    exists v. split; [unfold sg_predict; rewrite He; exact Hr|exact Ha].
  Qed.

  Lemma tsg_clamp_outside : forall speed grade,
    (exists v, sg_predict (N:=QN) conv_speed conv_grade m speed grade = Ok v) /\
    sg_predict (N:=QN) conv_speed conv_grade m speed grade
      = interpolate2 (N:=QN) m [qs speed; qg grade] /\
    sg_predict_conv (N:=QN) m (conv_speed speed) (conv_grade grade)
      = sg_predict_conv (N:=QN) m (qs speed) (qg grade) /\
    inr (x2 m) (qs speed) /\ inr (y2 m) (qg grade) /\
    (conv_speed speed < s_lo -> qs speed = s_lo) /\
    (lastq (x2 m) < conv_speed speed -> qs speed = lastq (x2 m)) /\
    (inr (x2 m) (conv_speed speed) -> qs speed = conv_speed speed) /\
    (conv_grade grade < g_lo -> qg grade = g_lo) /\
    (lastq (y2 m) < conv_grade grade -> qg grade = lastq (y2 m)) /\
    (inr (y2 m) (conv_grade grade) -> qg grade = conv_grade grade).
  Proof.
    intros speed grade. pose proof sg_valid as Hv. pose proof Hv as [Hxi Hyi Hxl Hyl _ _].
    destruct (sg_predict_conv_eq m (conv_speed speed) (conv_grade grade) Hv) as [Hx [Hy He]].
    destruct (tsg_any_cell speed grade) as [v [Hr _]].
    destruct spec as [_ [_ [_ [_ [_ [X0 [_ [Y0 _]]]]]]]].
    pose proof (first_le_last _ Hxi Hxl) as Lx. pose proof (first_le_last _ Hyi Hyl) as Ly.
    split; [exists v; exact Hr|]. split; [exact He|]. split; [apply sg_clamp_outside; exact Hv|].
    split; [exact Hx|]. split; [exact Hy|].
    unfold qs, qg, cl_s, cl_g. rewrite <- X0, <- Y0.
    destruct (clamp_cases (nq (x2 m) 0) (lastq (x2 m)) (conv_speed speed) Lx) as [[A ->]|[[A ->]|[A1 [A2 ->]]]];
    destruct (clamp_cases (nq (y2 m) 0) (lastq (y2 m)) (conv_grade grade) Ly) as [[B ->]|[[B ->]|[B1 [B2 ->]]]];
    repeat split; try reflexivity; intros; try reflexivity;
      try (exfalso; unfold inr in *; lra).
  Qed.
End SG.

End InterpT.
