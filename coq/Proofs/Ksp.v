(* C13: the single-via driver (Ksp.sv_run) -- invariants of the accept loop, for every graph, every pair of search
   trees satisfying the C01 tree invariant, every k, termination criterion, similarity function and every [pick]
   that removes one entry of the intersection queue.

   Section hypotheses:
     pick_perm / pick_none   the priority queue's pop removes exactly one entry; None only on the empty queue
                             (minimality of the popped priority is not needed by any theorem here)
     Hsearch                 what the underlying run_vertex_oriented returns: one tree satisfying the C01 tree
                             invariant (rooted at the search's source) and the route backtracked from it;
                             discharged for Search.run_vertex_oriented in Proofs/KspConcrete.v *)
From Coq Require Import List Arith Bool Lia Permutation.
From stdpp Require Import gmap.
From RC Require Import Base.Res Model.Search Model.SearchSpec Model.Ksp Model.KspSpec
  Proofs.SearchTree Proofs.SearchInv Proofs.SearchBacktrack Proofs.KspBase.
Import ListNotations.
Import Search SearchSpec Ksp KspSpec.

Section SingleVia.
  Context {C St : Type}.
  Variable clt : C -> C -> bool.
  Variable cadd : C -> C -> C.
  Variable czero : C.
  Variable cfloor : C -> C.
  Variable g : graph.
  Variable traverse_fwd : nat -> option nat -> St -> res (C * C * St).
  Variable init_state : res St.
  Variable search : dir -> nat -> nat -> res (sresult C St).
  Variable sim : list nat -> list nat -> res bool.
  Variable pick : list (nat * C) -> option (nat * C * list (nat * C)).

  Hypothesis pick_perm : forall q v c q', pick q = Some (v, c, q') -> Permutation q ((v, c) :: q').
  Hypothesis pick_none : forall q, pick q = None -> q = [].

  Notation etrav := (etrav C St).
  Notation branch := (branch C St).
  Notation route := (list etrav).
  Notation ids := (@ids C St).
  Notation reorient := (reorient_reverse_route traverse_fwd init_state).
  Notation retraverse := (retraverse traverse_fwd).
  Notation candidate := (candidate traverse_fwd init_state).
  Notation rejected_by := (rejected_by sim).
  Notation loopb := (route_contains_loop g).
  Notation sv_loop := (sv_loop g traverse_fwd init_state sim pick).
  Notation sv_run := (sv_run cadd cfloor g traverse_fwd init_state search sim pick).

  (* ---------------------------------------------------------------- the pieces of a candidate *)
  Lemma retraverse_ids es : forall prev acc r, retraverse es prev acc = Ok r -> ids r = es.
  Proof.
    induction es as [|e es IH]; simpl; intros prev acc r H.
    - inversion H. reflexivity.
    - destruct (traverse_fwd e prev acc) as [[[ac tc] st']| | |]; simpl in H; try discriminate.
      destruct (retraverse es (Some e) st') as [rest| | |] eqn:E; simpl in H; try discriminate.
      inversion H; subst. simpl. f_equal. eapply IH. exact E.
  Qed.

  Lemma reorient_ids fr rb rr : reorient fr rb = Ok rr -> ids rr = rev (ids rb).
  Proof.
    unfold reorient_reverse_route. intros H.
    destruct (match last fr with
              | Some le => Ok (Some (et_edge le), et_state le)
              | None => do i <- init_state; Ok (None, i)
              end) as [[fe acc]| | |]; simpl in H; try discriminate.
    eapply retraverse_ids. exact H.
  Qed.

  (* every hop of the re-oriented half is the forward traversal of its edge from the previous hop's state *)
  Inductive chained : option nat -> St -> route -> Prop :=
  | chained_nil prev st : chained prev st []
  | chained_cons prev st e ac tc st' rest :
      traverse_fwd e prev st = Ok (ac, tc, st') -> chained (Some e) st' rest ->
      chained prev st (mkEt e ac tc st' :: rest).

  Lemma retraverse_chained es : forall prev acc r, retraverse es prev acc = Ok r -> chained prev acc r.
  Proof.
    induction es as [|e es IH]; simpl; intros prev acc r H.
    - inversion H. constructor.
    - destruct (traverse_fwd e prev acc) as [[[ac tc] st']| | |] eqn:Et; simpl in H; try discriminate.
      destruct (retraverse es (Some e) st') as [rest| | |] eqn:E; simpl in H; try discriminate.
      inversion H; subst. econstructor; [exact Et | eapply IH; exact E].
  Qed.

  (* the reverse half continues from the forward half's last edge and final state *)
  Lemma reorient_chained fr le rb rr :
    last fr = Some le -> reorient fr rb = Ok rr -> chained (Some (et_edge le)) (et_state le) rr.
  Proof.
    unfold reorient_reverse_route. intros Hl H. rewrite Hl in H. simpl in H.
    eapply retraverse_chained. exact H.
  Qed.

  (* ---------------------------------------------------------------- the loop test, as the code defines it *)
  Lemma src_vertices_spec r l : src_vertices g r = Ok l -> l = srcs g r /\ forall e, In e r -> is_Some (get_edge g e).
  Proof.
    revert l. induction r as [|e r IH]; simpl; intros l H.
    - inversion H. split; [reflexivity | intros e []].
    - destruct (get_edge g e) as [ed|] eqn:Hg; [|discriminate].
      destruct (src_vertices g r) as [l'| | |]; simpl in H; try discriminate.
      inversion H; subst. destruct (IH l' eq_refl) as [-> Hk]. split; [reflexivity|].
      intros e' [<- | Hin]; [rewrite Hg; eauto | apply Hk, Hin].
  Qed.

  (* route_contains_loop = false  <->  the tails of the route's edges are pairwise different vertices *)
  Lemma loop_false_NoDup r : loopb r = Ok false -> List.NoDup (srcs g r).
  Proof.
    unfold route_contains_loop. destruct (src_vertices g r) as [l| | |] eqn:E; simpl; try discriminate.
    intros H. inversion H as [H1]. apply Nat.ltb_ge in H1.
    destruct (src_vertices_spec _ _ E) as [-> _].
    apply dedup_length_NoDup. pose proof (dedup_length_le (srcs g r)). lia.
  Qed.
  Lemma NoDup_loop_false r : (forall e, In e r -> is_Some (get_edge g e)) -> List.NoDup (srcs g r) -> loopb r = Ok false.
  Proof.
    intros Hk Hnd. unfold route_contains_loop.
    assert (Hs : src_vertices g r = Ok (srcs g r)).
    { clear Hnd. induction r as [|e r IH]; simpl; [reflexivity|].
      destruct (Hk e (or_introl eq_refl)) as [ed Hed]. rewrite Hed. rewrite IH; [reflexivity|].
      intros e' He'. apply Hk. right; exact He'. }
    rewrite Hs. simpl. rewrite (NoDup_dedup_id _ Hnd). rewrite Nat.ltb_irrefl. reflexivity.
  Qed.
  Lemma loopb_total r : (forall e, In e r -> is_Some (get_edge g e)) -> exists b, loopb r = Ok b.
  Proof.
    intros Hk. unfold route_contains_loop.
    assert (Hs : src_vertices g r = Ok (srcs g r)).
    { induction r as [|e r IH]; simpl; [reflexivity|].
      destruct (Hk e (or_introl eq_refl)) as [ed Hed]. rewrite Hed. rewrite IH; [reflexivity|].
      intros e' He'. apply Hk. right; exact He'. }
    rewrite Hs. simpl. eauto.
  Qed.

  (* ---------------------------------------------------------------- the rejection loop *)
  Definition dis (this a : route) : Prop :=
    test_id_similarity this a = false /\ sim (ids this) (ids a) = Ok false.

  Lemma rejected_false this sol : rejected_by this sol = Ok false -> Forall (dis this) sol.
  Proof.
    induction sol as [|a sol IH]; simpl; intros H; [constructor|].
    destruct (sim (ids this) (ids a)) as [too| | |] eqn:E; simpl in H; try discriminate.
    destruct (test_id_similarity this a || too) eqn:Eo; [discriminate|].
    apply orb_false_iff in Eo. destruct Eo as [E1 ->]. constructor; [split; auto | apply IH, H].
  Qed.

  (* under a similarity function that never says "similar", only an exact duplicate rejects *)
  Lemma rejected_true_dup this sol :
    (forall a b, sim a b = Ok false) -> rejected_by this sol = Ok true -> exists a, In a sol /\ ids a = ids this.
  Proof.
    intros Hs. induction sol as [|a sol IH]; simpl; intros H; [discriminate|].
    rewrite Hs in H. simpl in H. rewrite orb_false_r in H.
    destruct (test_id_similarity this a) eqn:E.
    - exists a. split; [left; reflexivity|]. apply same_ids_eq in E. symmetry. exact E.
    - destruct (IH H) as (b & Hb & Hid). exists b. split; [right; exact Hb | exact Hid].
  Qed.

  Lemma loopb_not_fuel r : loopb r <> OutOfFuel.
  Proof.
    unfold route_contains_loop.
    assert (H : src_vertices g r <> OutOfFuel).
    { induction r as [|e r IH]; simpl; [discriminate|]. destruct (get_edge g e); [|discriminate].
      destruct (src_vertices g r); simpl; try discriminate. contradiction. }
    destruct (src_vertices g r); simpl; try discriminate. contradiction.
  Qed.
  Lemma rejected_not_fuel : (forall a b, sim a b <> OutOfFuel) -> forall (this : route) (sol : list route), rejected_by this sol <> OutOfFuel.
  Proof.
    intros Hsf this sol. induction sol as [|a sol IH]; simpl; [discriminate|].
    pose proof (Hsf (ids this) (ids a)) as H.
    destruct (sim (ids this) (ids a)) as [too| | |]; simpl; try discriminate; [|contradiction].
    destruct (test_id_similarity this a || too); [discriminate | exact IH].
  Qed.

  (* pairwise: every route was tested, when it was accepted, against all earlier ones *)
  Inductive PW : list route -> Prop :=
  | PW_nil : PW []
  | PW_snoc sol r : PW sol -> Forall (dis r) sol -> PW (sol ++ [r]).

  Lemma PW_single r : PW [r].
  Proof. apply (PW_snoc [] r); constructor. Qed.

  Lemma PW_nth sol : PW sol -> forall i j a b, i < j -> nth_error sol i = Some a -> nth_error sol j = Some b -> dis b a.
  Proof.
    induction 1 as [|sol r Hpw IH Hf]; intros i j a b Hij Hi Hj.
    - destruct i; discriminate.
    - assert (Hjl : j < length (sol ++ [r])) by (apply nth_error_Some; congruence).
      rewrite app_length in Hjl. simpl in Hjl.
      destruct (Nat.eq_dec j (length sol)) as [-> | Hne].
      + rewrite nth_error_app2 in Hj by lia. rewrite Nat.sub_diag in Hj. simpl in Hj. inversion Hj; subst b.
        rewrite nth_error_app1 in Hi by lia.
        rewrite List.Forall_forall in Hf. apply Hf. eapply nth_error_In; eauto.
      + rewrite nth_error_app1 in Hj by lia. rewrite nth_error_app1 in Hi by lia. exact (IH i j a b Hij Hi Hj).
  Qed.

  (* ---------------------------------------------------------------- the accept loop *)
  Section Loop.
    Variables (k : nat) (term : kterm) (s t : nat) (tf tr : gmap nat branch).

    (* what the loop may add: the candidate of a queued via vertex that passed the loop test *)
    Definition from_queue (q : list (nat * C)) (r : route) : Prop :=
      exists v c, In (v, c) q /\ candidate s t tf tr v = Ok r /\ loopb (ids r) = Ok false.

    Lemma from_queue_mono q q' r : (forall x, In x q -> In x q') -> from_queue q r -> from_queue q' r.
    Proof. intros Hi (v & c & Hin & H). exists v, c. split; [apply Hi, Hin | exact H]. Qed.

    Lemma sv_loop_spec fuel : forall q sol it sol' it',
      sv_loop fuel k term s t tf tr q sol it = Ok (sol', it') ->
      exists ext, sol' = sol ++ ext /\ Forall (from_queue q) ext /\ (PW sol -> PW sol').
    Proof.
      induction fuel as [|f IH]; intros q sol it sol' it' H; simpl in H; [discriminate|].
      destruct (terminate_search term k (length sol)).
      { inversion H; subst. exists []. rewrite app_nil_r. repeat split; auto. }
      destruct (pick q) as [[[v c] q']|] eqn:Ep.
      2:{ inversion H; subst. exists []. rewrite app_nil_r. repeat split; auto. }
      destruct (candidate s t tf tr v) as [this| | |] eqn:Ec; simpl in H; try discriminate.
      destruct (loopb (ids this)) as [lp| | |] eqn:El; simpl in H; try discriminate.
      destruct (rejected_by this sol) as [rej| | |] eqn:Er; simpl in H; try discriminate.
      pose proof (pick_perm _ _ _ _ Ep) as Hperm.
      assert (Hsub : forall x, In x q' -> In x q).
      { intros x Hx. eapply Permutation_in; [symmetry; exact Hperm|]. right; exact Hx. }
      apply IH in H. destruct H as (ext & -> & Hext & Hpw).
      destruct lp, rej; simpl in *.
      1-3: exists ext; split; [reflexivity|]; split; [|exact Hpw];
           eapply Forall_impl; [exact Hext | intros r Hr; eapply from_queue_mono; eauto].
      exists (this :: ext). rewrite <- app_assoc. split; [reflexivity|]. split.
      - constructor.
        + exists v, c. split; [|split; auto]. eapply Permutation_in; [symmetry; exact Hperm|]. left; reflexivity.
        + eapply Forall_impl; [exact Hext | intros r Hr; eapply from_queue_mono; eauto].
      - intros Hs. rewrite <- app_assoc in Hpw. apply Hpw. apply PW_snoc; [exact Hs|]. apply rejected_false. exact Er.
    Qed.

    (* sv_terminates: one iteration per queue entry at most; the loop itself never runs out of fuel, only a
       component it calls could *)
    Lemma sv_loop_fuel fuel :
      (forall v, candidate s t tf tr v <> OutOfFuel) -> (forall a b, sim a b <> OutOfFuel) ->
      forall q sol it, length q < fuel -> sv_loop fuel k term s t tf tr q sol it <> OutOfFuel.
    Proof.
      intros Hcf Hsf. induction fuel as [|f IH]; intros q sol it Hlt; [lia|]. simpl.
      destruct (terminate_search term k (length sol)); [discriminate|].
      destruct (pick q) as [[[v c] q']|] eqn:Ep; [|discriminate].
      pose proof (Hcf v) as Hcv.
      destruct (candidate s t tf tr v) as [this| | |]; simpl; try discriminate; [|contradiction].
      pose proof (loopb_not_fuel (ids this)) as Hlf.
      destruct (loopb (ids this)) as [lp| | |]; simpl; try discriminate; [|contradiction].
      pose proof (rejected_not_fuel Hsf this sol) as Hrf.
      destruct (rejected_by this sol) as [rej| | |]; simpl; try discriminate; [|contradiction].
      apply IH. apply pick_perm in Ep. apply Permutation_length in Ep. simpl in Ep. lia.
    Qed.

    (* coverage: when no alternative is rejected for similarity the loop either stops because the termination
       criterion fired, or every loop-free candidate of the queue ends up in the solution (up to its edge ids) *)
    Lemma sv_loop_cover fuel : (forall a b, sim a b = Ok false) -> forall q sol it sol' it',
      sv_loop fuel k term s t tf tr q sol it = Ok (sol', it') ->
      (forall r, In r sol -> In r sol') /\
      (terminate_search term k (length sol') = true \/
       forall r, from_queue q r -> exists r', In r' sol' /\ ids r' = ids r).
    Proof.
      intros Hs. induction fuel as [|f IH]; intros q sol it sol' it' H; simpl in H; [discriminate|].
      destruct (terminate_search term k (length sol)) eqn:Et.
      { inversion H; subst. split; auto. }
      destruct (pick q) as [[[v c] q']|] eqn:Ep.
      2:{ inversion H; subst. split; [auto|]. right. intros r (v & c & Hin & _).
          rewrite (pick_none _ Ep) in Hin. destruct Hin. }
      destruct (candidate s t tf tr v) as [this| | |] eqn:Ec; simpl in H; try discriminate.
      destruct (loopb (ids this)) as [lp| | |] eqn:El; simpl in H; try discriminate.
      destruct (rejected_by this sol) as [rej| | |] eqn:Er; simpl in H; try discriminate.
      pose proof (pick_perm _ _ _ _ Ep) as Hperm.
      apply IH in H. destruct H as [Hincl Hcov].
      set (sol1 := if negb lp && negb rej then sol ++ [this] else sol) in *.
      assert (Hs1 : forall r, In r sol -> In r sol1).
      { intros r Hr. unfold sol1. destruct (negb lp && negb rej); [apply in_or_app; left|]; exact Hr. }
      split; [intros r Hr; apply Hincl, Hs1, Hr|].
      destruct Hcov as [Hstop | Hcov]; [left; exact Hstop|]. right.
      intros r (v0 & c0 & Hin & Hc0 & Hl0).
      apply (Permutation_in _ Hperm) in Hin. destruct Hin as [Heq | Hin].
      - inversion Heq; subst v0 c0. rewrite Ec in Hc0. inversion Hc0; subst r.
        rewrite El in Hl0. inversion Hl0; subst lp.
        destruct rej.
        + destruct (rejected_true_dup _ _ Hs Er) as (a & Ha & Hid). exists a. split; [apply Hincl, Hs1, Ha | exact Hid].
        + exists this. split; [|reflexivity]. apply Hincl. unfold sol1. simpl. apply in_or_app. right. left. reflexivity.
      - apply Hcov. exists v0, c0. auto.
    Qed.
  End Loop.

  (* every termination criterion fires only when the solution holds exactly k routes *)
  Lemma terminate_size term k n : terminate_search term k n = true -> n = k.
  Proof.
    destruct term; simpl; intros H.
    - apply Nat.eqb_eq in H. exact H.
    - apply andb_true_iff in H. destruct H as [H _]. apply Nat.eqb_eq in H. exact H.
    - apply andb_true_iff in H. destruct H as [H _]. apply Nat.eqb_eq in H. exact H.
  Qed.

  (* ---------------------------------------------------------------- the whole run *)
  Hypothesis Hsearch : forall d a b r, search d a b = Ok r ->
    exists tree route, r_trees r = [tree] /\ r_routes r = [route] /\ TreeInv g d a tree
                       /\ vertex_oriented_route a b tree = Ok route.

  (* unfolding of a successful run *)
  Lemma sv_run_inv k term s t r : sv_run k term s t = Ok r ->
    exists rf rr tf tr tsp sol it,
      search Forward s t = Ok rf /\ search Reverse t s = Ok rr /\
      r_trees rf = [tf] /\ r_trees rr = [tr] /\ r_routes rf = [tsp] /\
      TreeInv g Forward s tf /\ TreeInv g Reverse t tr /\
      vertex_oriented_route s t tf = Ok tsp /\
      sv_loop (S (length (intersections cadd cfloor tf tr))) k term s t tf tr (intersections cadd cfloor tf tr) [tsp] 0 = Ok (sol, it) /\
      r = mkR [tf; tr] (firstn k sol) (r_iters rf + r_iters rr + it).
  Proof.
    unfold Ksp.sv_run. intros H.
    destruct (search Forward s t) as [rf| | |] eqn:Ef; cbn [bind] in H; try discriminate.
    destruct (search Reverse t s) as [rr| | |] eqn:Er; cbn [bind] in H; try discriminate.
    destruct (Hsearch _ _ _ _ Ef) as (tf & rtf & Htf & Hrf & Hif & Hbf).
    destruct (Hsearch _ _ _ _ Er) as (tr & rtr & Htr & Hrr & Hir & Hbr).
    rewrite Htf, Htr, Hbf in H. cbn [bind] in H.
    destruct (Ksp.sv_loop g traverse_fwd init_state sim pick (S (length (intersections cadd cfloor tf tr))) k term s t tf tr
                (intersections cadd cfloor tf tr) [rtf] 0) as [[sol it]| | |] eqn:El; cbn [bind] in H; try discriminate.
    inversion H.
    exists rf, rr, tf, tr, rtf, sol, it. repeat match goal with |- _ /\ _ => split end; auto.
  Qed.

  (* backtracking on an invariant tree needs no more than its |tree|+1 fuel *)
  Lemma vor_not_fuel d a b (tree : gmap nat branch) : TreeInv g d a tree -> vertex_oriented_route a b tree <> OutOfFuel.
  Proof.
    intros HT. destruct (Nat.eq_dec b a) as [-> | Hne].
    - unfold vertex_oriented_route. rewrite backtrack_at_source. discriminate.
    - destruct (tree !! b) as [x|] eqn:E.
      + destruct (backtrack_ok g d a tree HT b (ex_intro _ x E)) as (r & -> & _). discriminate.
      + unfold vertex_oriented_route. simpl. apply Nat.eqb_neq in Hne. rewrite Hne, E. discriminate.
  Qed.

  Section Terminates.
    (* the traversal model, the state model and the similarity function are straight-line code *)
    Hypothesis trav_returns : forall e prev st, traverse_fwd e prev st <> OutOfFuel.
    Hypothesis init_returns : init_state <> OutOfFuel.
    Hypothesis sim_returns : forall a b, sim a b <> OutOfFuel.

    Lemma retraverse_not_fuel es : forall prev acc, retraverse es prev acc <> OutOfFuel.
    Proof.
      induction es as [|e es IH]; simpl; intros prev acc; [discriminate|].
      pose proof (trav_returns e prev acc) as H.
      destruct (traverse_fwd e prev acc) as [[[ac tc] st']| | |]; simpl; try discriminate; [|contradiction].
      pose proof (IH (Some e) st') as H2.
      destruct (retraverse es (Some e) st'); simpl; try discriminate. contradiction.
    Qed.

    Lemma candidate_not_fuel s t tf tr v :
      TreeInv g Forward s tf -> TreeInv g Reverse t tr -> candidate s t tf tr v <> OutOfFuel.
    Proof.
      intros Hf Hr. unfold Ksp.candidate.
      pose proof (vor_not_fuel _ s v tf Hf) as H1.
      destruct (vertex_oriented_route s v tf) as [fr| | |]; simpl; try discriminate; [|contradiction].
      pose proof (vor_not_fuel _ t v tr Hr) as H2.
      destruct (vertex_oriented_route t v tr) as [rb| | |]; simpl; try discriminate; [|contradiction].
      assert (H3 : reorient fr rb <> OutOfFuel).
      { unfold reorient_reverse_route. destruct (last fr); simpl; [apply retraverse_not_fuel|].
        destruct init_state; simpl; try discriminate; [apply retraverse_not_fuel | contradiction]. }
      destruct (reorient fr rb); simpl; try discriminate. contradiction.
    Qed.

    (* ---- sv_terminates: whenever the two underlying searches return, so does the single-via driver: its loop
            runs at most once per queue entry (fuel |queue|+1 is what sv_run gives it) ---- *)
    Theorem sv_terminates k term s t :
      search Forward s t <> OutOfFuel -> search Reverse t s <> OutOfFuel -> sv_run k term s t <> OutOfFuel.
    Proof.
      intros Hsf Hsr. unfold Ksp.sv_run.
      destruct (search Forward s t) as [rf| | |] eqn:Ef; cbn [bind]; try discriminate; [|contradiction].
      destruct (search Reverse t s) as [rr| | |] eqn:Er; cbn [bind]; try discriminate; [|contradiction].
      destruct (Hsearch _ _ _ _ Ef) as (tf & rtf & Htf & _ & Hif & Hbf).
      destruct (Hsearch _ _ _ _ Er) as (tr & rtr & Htr & _ & Hir & _).
      rewrite Htf, Htr, Hbf. cbn [bind].
      pose proof (sv_loop_fuel k term s t tf tr (S (length (intersections cadd cfloor tf tr)))
                    (fun v => candidate_not_fuel s t tf tr v Hif Hir) sim_returns
                    (intersections cadd cfloor tf tr) [rtf] 0 (Nat.lt_succ_diag_r _)) as Hf.
      destruct (Ksp.sv_loop g traverse_fwd init_state sim pick (S (length (intersections cadd cfloor tf tr))) k term s t tf tr
                  (intersections cadd cfloor tf tr) [rtf] 0) as [[sol it]| | |]; cbn [bind]; try discriminate.
      contradiction.
    Qed.
  End Terminates.

  (* ---- sv_count: between one and k routes ---- *)
  Theorem sv_count k term s t r : 1 <= k -> sv_run k term s t = Ok r -> 1 <= length (r_routes r) <= k.
  Proof.
    intros Hk H. destruct (sv_run_inv _ _ _ _ _ H) as (rf & rr & tf & tr & tsp & sol & it & _ & _ & _ & _ & _ & _ & _ & _ & Hl & ->).
    destruct (sv_loop_spec _ _ _ _ _ _ _ _ _ _ _ _ Hl) as (ext & -> & _). simpl r_routes.
    rewrite firstn_length. simpl. lia.
  Qed.

  (* ---- sv_first_is_best: route 0 is the underlying forward search's own route ---- *)
  Theorem sv_first_is_best k term s t r : 1 <= k -> sv_run k term s t = Ok r ->
    exists rf route, search Forward s t = Ok rf /\ r_routes rf = [route] /\ nth_error (r_routes r) 0 = Some route.
  Proof.
    intros Hk H. destruct (sv_run_inv _ _ _ _ _ H) as (rf & rr & tf & tr & tsp & sol & it & Hf & _ & _ & _ & Hr & _ & _ & _ & Hl & ->).
    destruct (sv_loop_spec _ _ _ _ _ _ _ _ _ _ _ _ Hl) as (ext & -> & _).
    exists rf, tsp. repeat split; auto. simpl r_routes. destruct k; [lia|]. reflexivity.
  Qed.

  (* ---------------------------------------------------------------- validity of the routes *)
  (* a successful backtrack on an invariant tree is the tree path: a walk in the search direction whose far
     ends are pairwise different, none of them the root, and whose edges never leave the end vertex *)
  Lemma backtrack_path d a b (tree : gmap nat branch) (r : route) :
    TreeInv g d a tree -> vertex_oriented_route a b tree = Ok r ->
    walk g d a (map et_edge r) b
    /\ (b <> a -> r <> [])
    /\ exists c, List.NoDup c /\ ~ In a c
         /\ map et_edge r = rev (map (edge_of tree) c)
         /\ (forall u, In u c -> exists bu ed, tree !! u = Some bu /\ get_edge g (edge_of tree u) = Some ed
                                   /\ term_vertex d ed = b_term bu /\ key_vertex d ed = u /\ b_term bu <> b).
  Proof.
    intros HT Hb. destruct (Nat.eq_dec b a) as [-> | Hne].
    - unfold vertex_oriented_route in Hb. rewrite backtrack_at_source in Hb. inversion Hb; subst r. simpl.
      split; [apply walk_nil|]. split; [congruence|]. exists []. repeat split; try constructor; auto. intros u [].
    - pose proof (backtrack_Ok_in_tree _ _ _ _ Hne Hb) as Hin.
      destruct (ti_rooted _ _ _ _ HT) as [Hroot_s Hroot].
      destruct (Hroot b (proj2 (pmap_is_Some _ _) Hin)) as [c Hc].
      destruct (backtrack_chain g d a tree HT c b Hc (S (size tree)) [] []) as (ets & Hrun & Hmap).
      { pose proof (chain_length_le a tree c b Hc). lia. }
      { intros u _ []. }
      rewrite app_nil_r in Hrun. unfold vertex_oriented_route in Hb. rewrite Hrun in Hb. inversion Hb; subst r.
      split; [rewrite Hmap; eapply chain_walk; eauto|]. split.
      { intros _ Habs. subst ets. simpl in Hmap. destruct (chain_head _ _ _ _ Hc) as [c' ->]. simpl in Hmap.
        symmetry in Hmap. apply app_eq_nil in Hmap. destruct Hmap; discriminate. }
      exists c. split; [apply NoDup_ListNoDup; eapply chain_NoDup; eauto|]. split.
      { intros Ha. destruct (chain_tree_dom a tree b c a Hc Ha) as [x Hx].
        rewrite (source_not_in_tree g d a tree HT) in Hx. discriminate. }
      split; [exact Hmap|].
      intros u Hu. destruct (chain_tree_dom a tree b c u Hc Hu) as [bu Hbu].
      destruct (edge_of_joins g d a tree HT u bu Hbu) as (ed & Hg & Ht & Hk).
      exists bu, ed. repeat split; auto.
      intros Hbt. apply (chain_no_back g d a tree HT c b u Hc Hu). rewrite pmap_lookup, Hbu. simpl. congruence.
  Qed.

  Lemma candidate_inv s t tf tr v r : candidate s t tf tr v = Ok r ->
    exists fr rb rr, vertex_oriented_route s v tf = Ok fr /\ vertex_oriented_route t v tr = Ok rb
                     /\ reorient fr rb = Ok rr /\ r = fr ++ rr.
  Proof.
    unfold Ksp.candidate. intros H.
    destruct (vertex_oriented_route s v tf) as [fr| | |]; simpl in H; try discriminate.
    destruct (vertex_oriented_route t v tr) as [rb| | |]; simpl in H; try discriminate.
    destruct (reorient fr rb) as [rr| | |] eqn:E; simpl in H; try discriminate.
    inversion H. eauto 10.
  Qed.

  Lemma ids_app (a b : route) : ids (a ++ b) = ids a ++ ids b.
  Proof. unfold Ksp.ids. apply map_app. Qed.

  (* a candidate is the forward tree path to the via vertex followed by the reverse tree path read forwards *)
  Lemma candidate_walk s t tf tr v r :
    TreeInv g Forward s tf -> TreeInv g Reverse t tr -> candidate s t tf tr v = Ok r ->
    exists fr rr, r = fr ++ rr /\ walk g Forward s (ids fr) v /\ walk g Forward v (ids rr) t
                  /\ (forall le, last fr = Some le -> chained (Some (et_edge le)) (et_state le) rr).
  Proof.
    intros Hf Hr H. destruct (candidate_inv _ _ _ _ _ _ H) as (fr & rb & rr & Hfr & Hrb & Hrr & ->).
    exists fr, rr. split; [reflexivity|].
    destruct (backtrack_path _ _ _ _ _ Hf Hfr) as [Hw1 _].
    destruct (backtrack_path _ _ _ _ _ Hr Hrb) as [Hw2 _].
    split; [exact Hw1|]. split.
    - rewrite (reorient_ids _ _ _ Hrr). apply walk_reverse. exact Hw2.
    - intros le Hl. eapply reorient_chained; eauto.
  Qed.

  (* ---- sv_routes_valid: every returned route is a chained walk from the origin to the destination ---- *)
  Theorem sv_routes_valid k term s t r : s <> t -> sv_run k term s t = Ok r ->
    forall x, In x (r_routes r) -> ids x <> [] /\ walk g Forward s (ids x) t.
  Proof.
    intros Hst H x Hx.
    destruct (sv_run_inv _ _ _ _ _ H) as (rf & rr & tf & tr & tsp & sol & it & _ & _ & _ & _ & _ & Hf & Hr & Hb & Hl & ->).
    destruct (sv_loop_spec _ _ _ _ _ _ _ _ _ _ _ _ Hl) as (ext & -> & Hext & _). simpl in Hx.
    apply firstn_In' in Hx. destruct Hx as [<- | Hx].
    - destruct (backtrack_path _ _ _ _ _ Hf Hb) as (Hw & Hne & _). split; [|exact Hw].
      intros Habs. apply (Hne (not_eq_sym Hst)). destruct tsp; [reflexivity | discriminate].
    - rewrite List.Forall_forall in Hext. destruct (Hext _ Hx) as (v & c & _ & Hc & _).
      destruct (candidate_walk _ _ _ _ _ _ Hf Hr Hc) as (fr & rr' & -> & Hw1 & Hw2 & _).
      rewrite ids_app. split; [|eapply walk_app; eauto].
      intros Habs. apply app_eq_nil in Habs. destruct Habs as [H1 H2].
      rewrite H1 in Hw1. rewrite H2 in Hw2. inversion Hw1; inversion Hw2; subst. contradiction.
  Qed.

  (* ---- correctly accumulated state: the reverse half of an alternative is re-traversed, edge by edge, from the
          final state (and last edge) of its forward half, which is a path of the forward tree ---- *)
  Theorem sv_routes_state k term s t r : sv_run k term s t = Ok r ->
    forall i x, nth_error (r_routes r) (S i) = Some x ->
    exists v fr rr rf tf, x = fr ++ rr /\ search Forward s t = Ok rf /\ r_trees rf = [tf]
                    /\ vertex_oriented_route s v tf = Ok fr
                    /\ (forall le, last fr = Some le -> chained (Some (et_edge le)) (et_state le) rr).
  Proof.
    intros H i x Hx.
    destruct (sv_run_inv _ _ _ _ _ H) as (rf & rr & tf & tr & tsp & sol & it & Hsf & _ & Htf & _ & _ & Hf & Hr & Hb & Hl & ->).
    destruct (sv_loop_spec _ _ _ _ _ _ _ _ _ _ _ _ Hl) as (ext & -> & Hext & _). cbn [r_routes] in Hx.
    apply nth_error_firstn in Hx. simpl in Hx. apply nth_error_In in Hx.
    rewrite List.Forall_forall in Hext. destruct (Hext _ Hx) as (v & c & _ & Hc & _).
    destruct (candidate_inv _ _ _ _ _ _ Hc) as (fr & rb & rr' & Hfr & Hrb & Hrr & ->).
    exists v, fr, rr', rf, tf. repeat split; auto. intros le Hle. eapply reorient_chained; eauto.
  Qed.

  (* ---- sv_loop_free ---- *)
  (* the shortest route is a tree path: no vertex twice, the destination included *)
  Lemma tree_route_simple d a b (tree : gmap nat branch) (r : route) :
    TreeInv g d a tree -> vertex_oriented_route a b tree = Ok r ->
    List.NoDup (a :: map (fun e => match get_edge g e with Some ed => key_vertex d ed | None => 0 end) (map et_edge r)).
  Proof.
    intros HT Hb. destruct (backtrack_path _ _ _ _ _ HT Hb) as (_ & _ & c & Hnd & Hna & Hmap & Hc).
    rewrite Hmap. rewrite map_rev, map_map.
    assert (Heq : map (fun x => match get_edge g (edge_of tree x) with Some ed => key_vertex d ed | None => 0 end) c = c).
    { clear Hnd Hna Hmap. induction c as [|u c IH]; simpl; [reflexivity|].
      destruct (Hc u (or_introl eq_refl)) as (bu & ed & _ & Hg & _ & Hk & _). rewrite Hg, Hk. f_equal.
      apply IH. intros u' Hu'. apply Hc. right; exact Hu'. }
    rewrite Heq. constructor; [rewrite <- in_rev; exact Hna | apply List.NoDup_rev; exact Hnd].
  Qed.

  (* accepted alternatives passed the loop test: as the code defines it, the tails of the edges are pairwise
     different vertices; the first route is a path of the forward tree *)
  Theorem sv_loop_free k term s t r : sv_run k term s t = Ok r ->
    forall x, In x (r_routes r) -> List.NoDup (srcs g (ids x)).
  Proof.
    intros H x Hx.
    destruct (sv_run_inv _ _ _ _ _ H) as (rf & rr & tf & tr & tsp & sol & it & _ & _ & _ & _ & _ & Hf & Hr & Hb & Hl & ->).
    destruct (sv_loop_spec _ _ _ _ _ _ _ _ _ _ _ _ Hl) as (ext & -> & Hext & _). simpl in Hx.
    apply firstn_In' in Hx. destruct Hx as [<- | Hx].
    - pose proof (tree_route_simple _ _ _ _ _ Hf Hb) as Hnd. simpl in Hnd.
      destruct (backtrack_path _ _ _ _ _ Hf Hb) as (Hw & _).
      pose proof (walk_srcs_dsts _ _ _ _ Hw) as Hsd. unfold Ksp.ids in *. unfold dsts in Hsd.
      rewrite <- Hsd in Hnd. apply ListNoDup_app_l in Hnd. exact Hnd.
    - rewrite List.Forall_forall in Hext. destruct (Hext _ Hx) as (v & c & _ & _ & Hlp).
      apply loop_false_NoDup. exact Hlp.
  Qed.

  (* no vertex is visited twice, the destination included, provided the forward search never expanded the
     destination (no forward-tree entry has it as its parent) -- true of run_a_star, see Proofs/KspTarget.v *)
  Theorem sv_loop_free_full k term s t r : s <> t -> sv_run k term s t = Ok r ->
    (forall rf tf v b, search Forward s t = Ok rf -> r_trees rf = [tf] -> tf !! v = Some b -> b_term b <> t) ->
    forall x, In x (r_routes r) -> List.NoDup (s :: dsts g (ids x)).
  Proof.
    intros Hst H Hleaf x Hx.
    pose proof (sv_loop_free _ _ _ _ _ H x Hx) as Hsrc.
    destruct (sv_routes_valid _ _ _ _ _ Hst H x Hx) as [_ Hw].
    rewrite <- (walk_srcs_dsts _ _ _ _ Hw).
    apply NoDup_ListNoDup. apply NoDup_app. split; [apply NoDup_ListNoDup; exact Hsrc|]. split; [|apply NoDup_singleton].
    intros u Hu Hut. apply elem_of_list_singleton in Hut. subst u. apply elem_of_list_In in Hu.
    (* t is the tail of no edge of the route *)
    destruct (sv_run_inv _ _ _ _ _ H) as (rf & rr & tf & tr & tsp & sol & it & Hsf & _ & Htf & _ & _ & Hf & Hr & Hb & Hl & ->).
    destruct (sv_loop_spec _ _ _ _ _ _ _ _ _ _ _ _ Hl) as (ext & -> & Hext & _). simpl in Hx.
    assert (Htail_f : forall a fr, vertex_oriented_route s a tf = Ok fr -> ~ In t (srcs g (ids fr))).
    { intros a fr Hfr Hin. destruct (backtrack_path _ _ _ _ _ Hf Hfr) as (_ & _ & c & _ & _ & Hmap & Hc).
      unfold srcs, Ksp.ids in Hin. rewrite Hmap in Hin. apply in_map_iff in Hin. destruct Hin as (e & He & Hin).
      apply in_rev in Hin. apply in_map_iff in Hin. destruct Hin as (u & <- & Hu').
      destruct (Hc u Hu') as (bu & ed & Hbu & Hg & Hterm & _ & _). rewrite Hg in He. simpl in Hterm.
      apply (Hleaf rf tf u bu Hsf Htf Hbu). congruence. }
    apply firstn_In' in Hx. destruct Hx as [<- | Hx]; [exact (Htail_f _ _ Hb Hu)|].
    rewrite List.Forall_forall in Hext. destruct (Hext _ Hx) as (v & c & _ & Hc & _).
    destruct (candidate_inv _ _ _ _ _ _ Hc) as (fr & rb & rr' & Hfr & Hrb & Hrr & ->).
    rewrite ids_app in Hu. unfold srcs in Hu. rewrite map_app in Hu. apply in_app_or in Hu. destruct Hu as [Hu | Hu].
    - exact (Htail_f _ _ Hfr Hu).
    - (* edges of the reverse tree path never point away from ... their tails are reverse-tree vertices, never its root t *)
      destruct (backtrack_path _ _ _ _ _ Hr Hrb) as (_ & _ & c' & _ & Hnt & Hmap & Hc').
      rewrite (reorient_ids _ _ _ Hrr) in Hu. unfold Ksp.ids in Hu. rewrite Hmap, rev_involutive in Hu.
      apply in_map_iff in Hu. destruct Hu as (e & He & Hin). apply in_map_iff in Hin. destruct Hin as (u & <- & Hu').
      destruct (Hc' u Hu') as (bu & ed & _ & Hg & _ & Hkey & _). rewrite Hg in He. simpl in Hkey.
      apply Hnt. congruence.
  Qed.

  (* ---- sv_pairwise_distinct / sv_pairwise_dissimilar ---- *)
  Lemma sv_PW k term s t r : sv_run k term s t = Ok r ->
    forall i j a b, i < j -> nth_error (r_routes r) i = Some a -> nth_error (r_routes r) j = Some b -> dis b a.
  Proof.
    intros H i j a b Hij Ha Hb.
    destruct (sv_run_inv _ _ _ _ _ H) as (rf & rr & tf & tr & tsp & sol & it & _ & _ & _ & _ & _ & _ & _ & _ & Hl & ->).
    destruct (sv_loop_spec _ _ _ _ _ _ _ _ _ _ _ _ Hl) as (ext & Hsol & _ & Hpw).
    simpl in Ha, Hb. apply nth_error_firstn in Ha, Hb.
    eapply PW_nth; [apply Hpw, PW_single | exact Hij | exact Ha | exact Hb].
  Qed.

  Theorem sv_pairwise_distinct k term s t r : sv_run k term s t = Ok r ->
    forall i j a b, i <> j -> nth_error (r_routes r) i = Some a -> nth_error (r_routes r) j = Some b -> ids a <> ids b.
  Proof.
    intros H i j a b Hij Ha Hb.
    destruct (Nat.lt_total i j) as [Hlt | [Heq | Hlt]]; [|contradiction|].
    - destruct (sv_PW _ _ _ _ _ H _ _ _ _ Hlt Ha Hb) as [Hd _]. apply same_ids_false in Hd. congruence.
    - destruct (sv_PW _ _ _ _ _ H _ _ _ _ Hlt Hb Ha) as [Hd _]. apply same_ids_false in Hd. exact Hd.
  Qed.

  (* the later route of every pair was tested against the earlier one and found not similar *)
  Theorem sv_pairwise_dissimilar k term s t r : sv_run k term s t = Ok r ->
    forall i j a b, i < j -> nth_error (r_routes r) i = Some a -> nth_error (r_routes r) j = Some b ->
    sim (ids b) (ids a) = Ok false.
  Proof. intros H i j a b Hij Ha Hb. exact (proj2 (sv_PW _ _ _ _ _ H _ _ _ _ Hij Ha Hb)). Qed.

  (* ---- sv_no_spurious_error: on invariant trees that contain the destination, with a traversal and a similarity
          function that do not fail, the loop introduces no error ---- *)
  Lemma intersections_keys (tf tr : gmap nat branch) v c : In (v, c) (intersections cadd cfloor tf tr) -> is_Some (tf !! v) /\ is_Some (tr !! v).
  Proof.
    unfold intersections. intros H. apply elem_of_list_In in H. apply elem_of_list_omap in H.
    destruct H as ([v' fb] & Hin & Hsome). apply elem_of_map_to_list in Hin.
    destruct (tr !! b_term fb); [|discriminate]. destruct (tr !! v') eqn:E; [|discriminate].
    inversion Hsome; subst. split; eauto.
  Qed.

  Section NoError.
    Hypothesis trav_total : forall e prev st, is_Some (get_edge g e) -> exists x, traverse_fwd e prev st = Ok x.
    (* the similarity function may fail on an edge id that is not in the graph, never on graph edges *)
    Definition known (r : list nat) : Prop := forall e, In e r -> is_Some (get_edge g e).
    Hypothesis sim_total : forall a b, known a -> known b -> exists x, sim a b = Ok x.

    Lemma retraverse_total es : known es -> forall prev acc, exists r, retraverse es prev acc = Ok r.
    Proof.
      induction es as [|e es IH]; intros Hk prev acc; simpl; [eauto|].
      destruct (trav_total e prev acc (Hk e (or_introl eq_refl))) as [[[ac tc] st'] ->]. simpl.
      destruct (IH (fun e' He' => Hk e' (or_intror He')) (Some e) st') as [rest ->]. simpl. eauto.
    Qed.

    Lemma rejected_total (this : route) (sol : list route) :
      known (ids this) -> Forall (fun r => known (ids r)) sol -> exists b, rejected_by this sol = Ok b.
    Proof.
      intros Hk. induction 1 as [|a sol Ha Hsol IH]; simpl; [eauto|].
      destruct (sim_total (ids this) (ids a) Hk Ha) as [too ->]. simpl.
      destruct (test_id_similarity this a || too); eauto.
    Qed.

    Lemma candidate_total s t (tf tr : gmap nat branch) v :
      TreeInv g Forward s tf -> TreeInv g Reverse t tr -> is_Some (tf !! v) -> is_Some (tr !! v) ->
      exists r, candidate s t tf tr v = Ok r /\ known (ids r).
    Proof.
      intros Hf Hr Hvf Hvr. unfold Ksp.candidate.
      destruct (backtrack_ok g Forward s tf Hf v Hvf) as (fr & Hfr & (Hne & Hwf & _) & _).
      destruct (backtrack_ok g Reverse t tr Hr v Hvr) as (rb & Hrb & (_ & Hwr & _) & _).
      rewrite Hfr, Hrb. simpl.
      assert (Hk : known (rev (ids rb))).
      { intros e He. apply in_rev in He. destruct (walk_edges_known _ _ _ _ _ Hwr e He) as [ed ->]. eauto. }
      unfold reorient_reverse_route.
      destruct (last fr) as [le|] eqn:El.
      2:{ exfalso. apply Hne. apply last_None in El. subst fr. reflexivity. }
      simpl. destruct (retraverse_total _ Hk (Some (et_edge le)) (et_state le)) as [rr Hrr]. rewrite Hrr. simpl.
      exists (fr ++ rr). split; [reflexivity|]. intros e He. rewrite ids_app in He. apply in_app_or in He.
      destruct He as [He | He].
      - destruct (walk_edges_known _ _ _ _ _ Hwf e He) as [ed ->]. eauto.
      - rewrite (retraverse_ids _ _ _ _ Hrr) in He. apply Hk, He.
    Qed.

    Lemma sv_loop_ok k term s t (tf tr : gmap nat branch) :
      TreeInv g Forward s tf -> TreeInv g Reverse t tr -> forall fuel q sol it,
      length q < fuel -> (forall v c, In (v, c) q -> is_Some (tf !! v) /\ is_Some (tr !! v)) ->
      Forall (fun r => known (ids r)) sol ->
      exists x, sv_loop fuel k term s t tf tr q sol it = Ok x.
    Proof.
      intros Hf Hr. induction fuel as [|f IH]; intros q sol it Hlt Hq Hsol; [lia|]. simpl.
      destruct (terminate_search term k (length sol)); [eauto|].
      destruct (pick q) as [[[v c] q']|] eqn:Ep; [|eauto].
      pose proof (pick_perm _ _ _ _ Ep) as Hperm.
      destruct (Hq v c) as [Hvf Hvr]. { eapply Permutation_in; [symmetry; exact Hperm | left; reflexivity]. }
      destruct (candidate_total s t tf tr v Hf Hr Hvf Hvr) as (this & -> & Hk). simpl.
      destruct (loopb_total _ Hk) as [lp ->]. simpl.
      destruct (rejected_total this sol Hk Hsol) as [rej ->]. simpl.
      apply IH.
      - apply Permutation_length in Hperm. simpl in Hperm. lia.
      - intros v' c' Hin. apply (Hq v' c'). eapply Permutation_in; [symmetry; exact Hperm | right; exact Hin].
      - destruct (negb lp && negb rej); [|exact Hsol]. apply Forall_app. split; [exact Hsol|]. constructor; [exact Hk | constructor].
    Qed.

    Theorem sv_no_spurious_error k term s t rf rr :
      s <> t -> search Forward s t = Ok rf -> search Reverse t s = Ok rr ->
      exists r, sv_run k term s t = Ok r.
    Proof.
      intros Hst Ef Er. unfold Ksp.sv_run. rewrite Ef, Er. cbn [bind].
      destruct (Hsearch _ _ _ _ Ef) as (tf & rtf & Htf & _ & Hif & Hbf).
      destruct (Hsearch _ _ _ _ Er) as (tr & rtr & Htr & _ & Hir & _).
      rewrite Htf, Htr, Hbf. cbn [bind].
      destruct (sv_loop_ok k term s t tf tr Hif Hir (S (length (intersections cadd cfloor tf tr))) (intersections cadd cfloor tf tr) [rtf] 0)
        as [[sol it] Hl]; [lia | apply intersections_keys | |].
      { constructor; [|constructor]. destruct (backtrack_path _ _ _ _ _ Hif Hbf) as (Hw & _).
        intros e He. destruct (walk_edges_known _ _ _ _ _ Hw e He) as [ed ->]. eauto. }
      rewrite Hl. cbn [bind]. eauto.
    Qed.
  End NoError.
End SingleVia.
