(* C13, list-level facts used by the KSP proofs: the edge-sequence test, the key-set function [dedup] and the loop
   test, walks. *)
From Coq Require Import List Arith Bool Lia Permutation.
From stdpp Require Import gmap.
From RC Require Import Base.Res Model.Search Model.SearchSpec Model.Ksp Model.KspSpec.
Import ListNotations.
Import Search SearchSpec Ksp KspSpec.

(* ---------------------------------------------------------------- same_ids *)
Lemma same_ids_eq a b : same_ids a b = true <-> a = b.
Proof.
  revert b. induction a as [|x a IH]; intros [|y b]; simpl; split; intros H; try congruence; try reflexivity.
  - apply andb_true_iff in H. destruct H as [H1 H2]. apply Nat.eqb_eq in H1. apply IH in H2. congruence.
  - inversion H; subst. rewrite Nat.eqb_refl. simpl. apply IH. reflexivity.
Qed.
Lemma same_ids_false a b : same_ids a b = false <-> a <> b.
Proof.
  split.
  - intros H Heq. apply same_ids_eq in Heq. congruence.
  - intros H. destruct (same_ids a b) eqn:E; [|reflexivity]. apply same_ids_eq in E. contradiction.
Qed.

(* ---------------------------------------------------------------- dedup *)
Lemma memn_In x l : memn x l = true <-> In x l.
Proof.
  unfold memn. rewrite existsb_exists. split.
  - intros (y & Hy & Heq). apply Nat.eqb_eq in Heq. subst. exact Hy.
  - intros H. exists x. split; [exact H | apply Nat.eqb_refl].
Qed.

Lemma In_dedup x l : In x (dedup l) <-> In x l.
Proof.
  induction l as [|y l IH]; simpl; [tauto|]. rewrite filter_In, IH. split.
  - intros [H | [H _]]; auto.
  - intros [H | H]; [left; exact H|]. destruct (Nat.eq_dec x y) as [-> | Hne]; [left; reflexivity|].
    right. split; [exact H|]. apply negb_true_iff. apply Nat.eqb_neq. exact Hne.
Qed.

Lemma NoDup_filter {A} (f : A -> bool) l : List.NoDup l -> List.NoDup (List.filter f l).
Proof.
  induction 1 as [|x l Hx Hnd IH]; simpl; [constructor|].
  destruct (f x); [|exact IH]. constructor; [|exact IH]. rewrite filter_In. tauto.
Qed.

Lemma NoDup_dedup l : List.NoDup (dedup l).
Proof.
  induction l as [|x l IH]; simpl; [constructor|]. constructor.
  - rewrite filter_In. intros [_ H]. rewrite Nat.eqb_refl in H. discriminate.
  - apply NoDup_filter. exact IH.
Qed.

Lemma filter_length_le {A} (f : A -> bool) l : length (List.filter f l) <= length l.
Proof. induction l as [|x l IH]; simpl; [lia|]. destruct (f x); simpl; lia. Qed.

Lemma filter_length_eq {A} (f : A -> bool) l : length (List.filter f l) = length l -> forall x, In x l -> f x = true.
Proof.
  induction l as [|y l IH]; simpl; intros H x Hin; [contradiction|].
  destruct (f y) eqn:E; simpl in H.
  - destruct Hin as [<- | Hin]; [exact E|]. apply IH; [lia | exact Hin].
  - pose proof (filter_length_le f l). lia.
Qed.

Lemma dedup_length_le l : length (dedup l) <= length l.
Proof.
  induction l as [|x l IH]; simpl; [lia|].
  pose proof (filter_length_le (fun y => negb (Nat.eqb y x)) (dedup l)). lia.
Qed.

Lemma dedup_length_NoDup l : length (dedup l) = length l -> List.NoDup l.
Proof.
  induction l as [|x l IH]; simpl; intros H; [constructor|].
  pose proof (filter_length_le (fun y => negb (Nat.eqb y x)) (dedup l)) as H1.
  pose proof (dedup_length_le l) as H2.
  constructor.
  - intros Hin. apply In_dedup in Hin.
    assert (Hf : length (List.filter (fun y => negb (Nat.eqb y x)) (dedup l)) = length (dedup l)) by lia.
    pose proof (filter_length_eq _ _ Hf x Hin) as Hx. simpl in Hx. rewrite Nat.eqb_refl in Hx. discriminate.
  - apply IH. lia.
Qed.

Lemma NoDup_dedup_id l : List.NoDup l -> dedup l = l.
Proof.
  induction 1 as [|x l Hx Hnd IH]; simpl; [reflexivity|]. rewrite IH. f_equal.
  clear IH Hnd. induction l as [|y l IH]; simpl; [reflexivity|].
  destruct (Nat.eqb y x) eqn:E.
  - apply Nat.eqb_eq in E. subst. exfalso. apply Hx. left; reflexivity.
  - simpl. f_equal. apply IH. intros H. apply Hx. right; exact H.
Qed.

(* ---------------------------------------------------------------- walks *)
Lemma walk_app g d a r1 b r2 c : walk g d a r1 b -> walk g d b r2 c -> walk g d a (r1 ++ r2) c.
Proof.
  induction 1 as [a | a e b' r c' He Hw IH]; intros H2; simpl; [exact H2|].
  eapply walk_cons; [exact He | apply IH, H2].
Qed.

Lemma walk_snoc' g d a r b e c : walk g d a r b -> edge_joins g d e b c -> walk g d a (r ++ [e]) c.
Proof.
  intros H1 H2. eapply walk_app; [exact H1|]. eapply walk_cons; [exact H2 | apply walk_nil].
Qed.

Lemma joins_flip g e a b : edge_joins g Reverse e a b <-> edge_joins g Forward e b a.
Proof.
  unfold edge_joins. split; intros (ed & H1 & H2 & H3); exists ed; simpl in *; auto.
Qed.

(* a walk of the reversed network from a to b, read backwards, is an ordinary walk from b to a *)
Lemma walk_reverse g a r b : walk g Reverse a r b -> walk g Forward b (rev r) a.
Proof.
  induction 1 as [a | a e b' r c He Hw IH]; simpl; [apply walk_nil|].
  eapply walk_snoc'; [exact IH|]. apply joins_flip. exact He.
Qed.

Lemma walk_edges_known g d a r b : walk g d a r b -> forall e, In e r -> exists ed, get_edge g e = Some ed.
Proof.
  induction 1 as [a | a e' b' r c (ed & Hg & _) Hw IH]; intros e Hin; [destruct Hin|].
  destruct Hin as [<- | Hin]; eauto.
Qed.

(* vertices of a walk: tails followed by the end = start followed by heads *)
Lemma walk_srcs_dsts g a r b : walk g Forward a r b -> srcs g r ++ [b] = a :: dsts g r.
Proof.
  induction 1 as [a | a e b' r c (ed & Hg & Ht & Hk) Hw IH]; simpl; [reflexivity|].
  rewrite Hg. simpl in Ht, Hk. rewrite IH, Ht, Hk. reflexivity.
Qed.

Lemma walk_b_sound g d a r b : walk_b g d a r b = true -> walk g d a r b.
Proof.
  revert a. induction r as [|e r IH]; simpl; intros a H.
  - apply Nat.eqb_eq in H. subst. apply walk_nil.
  - destruct (get_edge g e) as [ed|] eqn:Hg; [|discriminate].
    apply andb_true_iff in H. destruct H as [H1 H2]. apply Nat.eqb_eq in H1.
    eapply walk_cons; [|apply IH, H2]. exists ed. auto.
Qed.

Lemma nodupb_sound l : nodupb l = true -> List.NoDup l.
Proof.
  induction l as [|x l IH]; simpl; intros H; [constructor|].
  apply andb_true_iff in H. destruct H as [H1 H2]. constructor; [|apply IH, H2].
  intros Hin. apply negb_true_iff in H1.
  assert (existsb (Nat.eqb x) l = true); [|congruence].
  apply existsb_exists. exists x. split; [exact Hin | apply Nat.eqb_refl].
Qed.

(* ---------------------------------------------------------------- firstn / nth_error *)
Lemma nth_error_firstn {A} (l : list A) k i a : nth_error (firstn k l) i = Some a -> nth_error l i = Some a.
Proof.
  revert k i. induction l as [|x l IH]; intros [|k] [|i]; simpl; try discriminate; auto.
  apply IH.
Qed.
Lemma firstn_In' {A} (l : list A) k x : In x (firstn k l) -> In x l.
Proof.
  revert k. induction l as [|y l IH]; intros [|k]; simpl; try tauto.
  intros [H | H]; [left; exact H | right; eapply IH; exact H].
Qed.
Lemma ListNoDup_app_l {A} (a b : list A) : List.NoDup (a ++ b) -> List.NoDup a.
Proof.
  induction a as [|x a IH]; simpl; intros H; [constructor|].
  inversion H as [|x' l Hx Hnd]; subst. constructor; [|apply IH, Hnd].
  intros Hin. apply Hx. apply in_or_app. left; exact Hin.
Qed.
