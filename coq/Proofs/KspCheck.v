(* C13: soundness of the boolean checkers of Model/KspSpec.v that the correspondence stream evaluates on the
   implementation's routes: whenever a checker accepts, the Prop-level reading of the property holds. *)
From Coq Require Import List Arith Bool Lia QArith Lqa.
From RC Require Import Base.Res Base.Num Model.Search Model.SearchSpec Model.Ksp Model.KspSpec Proofs.KspBase.
Import ListNotations.
Import Search SearchSpec Ksp KspSpec.

(* ---------------------------------------------------------------- routes *)
Lemma list_eqb_eq a b : list_eqb a b = true <-> a = b.
Proof.
  revert b. induction a as [|x a IH]; intros [|y b]; simpl; split; intros H; try congruence; try reflexivity.
  - apply andb_true_iff in H. destruct H as [H1 H2]. apply Nat.eqb_eq in H1. apply IH in H2. congruence.
  - inversion H; subst. rewrite Nat.eqb_refl. simpl. apply IH. reflexivity.
Qed.

Lemma distinctb_sound rs : distinctb rs = true -> NoDup rs.
Proof.
  induction rs as [|r rs IH]; simpl; intros H; [constructor|].
  apply andb_true_iff in H. destruct H as [H1 H2]. constructor; [|apply IH, H2].
  intros Hin. apply negb_true_iff in H1.
  assert (existsb (list_eqb r) rs = true); [|congruence].
  apply existsb_exists. exists r. split; [exact Hin | apply list_eqb_eq; reflexivity].
Qed.

Lemma check_route_valid_sound g s t r : check_route_valid g s t r = true -> valid_route g s t r.
Proof.
  unfold check_route_valid. intros H. apply andb_true_iff in H. destruct H as [H H3].
  apply andb_true_iff in H. destruct H as [H1 H2]. split; [|split].
  - intros ->. discriminate.
  - apply walk_b_sound. exact H2.
  - apply nodupb_sound. exact H3.
Qed.

Theorem check_routes_sound g s t k rs : check_routes g s t k rs = None -> routes_ok g s t k rs.
Proof.
  unfold check_routes. intros H.
  destruct (Nat.leb 1 (length rs)) eqn:E1; simpl in H; [|discriminate].
  destruct (Nat.leb (length rs) k) eqn:E2; simpl in H; [|discriminate].
  destruct (forallb (check_route_valid g s t) rs) eqn:E3; simpl in H; [|discriminate].
  destruct (distinctb rs) eqn:E4; simpl in H; [|discriminate].
  apply Nat.leb_le in E1, E2. split; [lia|]. split.
  - intros r Hr. rewrite forallb_forall in E3. apply check_route_valid_sound, E3, Hr.
  - apply distinctb_sound, E4.
Qed.

(* ---------------------------------------------------------------- similarity *)
Theorem check_dissimilar_sound f dist rs : check_dissimilar f dist rs = true -> pairwise_dissimilar f dist rs.
Proof.
  induction rs as [|r rs IH]; simpl; intros H i j a b Hij Ha Hb.
  - destruct i; discriminate.
  - apply andb_true_iff in H. destruct H as [H1 H2]. destruct j as [|j]; [lia|]. simpl in Hb.
    destruct i as [|i]; simpl in Ha.
    + inversion Ha; subst a. rewrite forallb_forall in H1. apply nth_error_In in Hb.
      specialize (H1 b Hb). apply andb_true_iff in H1. destruct H1 as [Hx Hy].
      apply negb_true_iff in Hx, Hy. auto.
    + apply (IH H2 i j a b); [lia | exact Ha | exact Hb].
Qed.

(* ---------------------------------------------------------------- least cost: dual feasibility *)
Local Open Scope Q_scope.

Lemma pot_edges edges : forall cost pi, check_edges_pot edges cost pi = true ->
  forall i u v, nth_error edges i = Some (u, v) ->
  exists c, nth_error cost i = Some c
            /\ forall a, nth u pi None = Some a -> exists b, nth v pi None = Some b /\ b <= a + c.
Proof.
  induction edges as [|[u0 v0] er IH]; intros cost pi H i u v Hi; [destruct i; discriminate|].
  destruct cost as [|c cr]; simpl in H; [discriminate|].
  apply andb_true_iff in H. destruct H as [H1 H2].
  destruct i as [|i]; simpl in Hi.
  - inversion Hi; subst u0 v0. exists c. split; [reflexivity|]. intros a Ha. rewrite Ha in H1.
    destruct (nth v pi None) as [b|]; [|discriminate]. exists b. split; [reflexivity|]. apply Qle_bool_iff. exact H1.
  - simpl. apply (IH cr pi H2 i u v Hi).
Qed.

Section Potential.
  Variables (g : graph) (edges : list (nat * nat)) (cost : list Q) (s : nat) (pi : list (option Q)).
  Hypothesis Hg : gedges g = map (fun p => mkEdge (fst p) (snd p)) edges.
  Hypothesis Hchk : check_potential edges cost s pi = true.

  Lemma pot_walk a r t : walk g Forward a r t -> forall pa, nth a pi None = Some pa ->
    exists pt, nth t pi None = Some pt /\ pt <= pa + route_sum cost r.
  Proof.
    unfold check_potential in Hchk. destruct (nth s pi None) as [ps|]; [|discriminate].
    apply andb_true_iff in Hchk. destruct Hchk as [_ He].
    induction 1 as [a | a e b r c (ed & Hge & Ht & Hk) Hw IH]; intros pa Hpa.
    - exists pa. split; [exact Hpa|]. simpl. lra.
    - unfold get_edge in Hge. rewrite Hg in Hge. rewrite nth_error_map in Hge.
      destruct (nth_error edges e) as [[u v]|] eqn:Ee; simpl in Hge; [|discriminate].
      inversion Hge; subst ed. simpl in Ht, Hk. subst u v.
      destruct (pot_edges _ _ _ He e a b Ee) as (ce & Hce & Hstep).
      destruct (Hstep pa Hpa) as (pb & Hpb & Hle).
      destruct (IH pb Hpb) as (pt & Hpt & Hle2). exists pt. split; [exact Hpt|].
      simpl. rewrite (nth_error_nth _ _ 0 Hce). lra.
  Qed.

  (* every walk from the source costs at least the potential of its end vertex *)
  Theorem check_potential_sound r t : walk g Forward s r t ->
    exists pt, nth t pi None = Some pt /\ pt <= route_sum cost r.
  Proof.
    intros Hw. pose proof Hchk as Hc. unfold check_potential in Hc.
    destruct (nth s pi None) as [ps|] eqn:Es; [|discriminate].
    apply andb_true_iff in Hc. destruct Hc as [H0 _]. apply Qeq_bool_iff in H0.
    destruct (pot_walk s r t Hw ps Es) as (pt & Hpt & Hle). exists pt. split; [exact Hpt|]. lra.
  Qed.

  (* so a route whose cost equals the potential of the destination is a least-cost route *)
  Corollary certified_least_cost r0 t pt : nth t pi None = Some pt -> route_sum cost r0 == pt ->
    forall r, walk g Forward s r t -> route_sum cost r0 <= route_sum cost r.
  Proof.
    intros Hpt Heq r Hw. destruct (check_potential_sound r t Hw) as (pt' & Hpt' & Hle).
    rewrite Hpt in Hpt'. inversion Hpt'; subst pt'. lra.
  Qed.
End Potential.

(* ---------------------------------------------------------------- least total cost with turn costs *)
Section EdgePotential.
  Variables (g : graph) (edges : list (nat * nat)) (cost : list Q) (turn : nat -> nat -> Q) (s : nat) (pi : list (option Q)).
  Hypothesis Hg : gedges g = map (fun p => mkEdge (fst p) (snd p)) edges.
  Hypothesis Hchk : check_edge_potential edges cost turn s pi = true.

  Lemma joins_edges e a b : edge_joins g Forward e a b -> nth_error edges e = Some (a, b).
  Proof.
    intros (ed & Hge & Ht & Hk). unfold get_edge in Hge. rewrite Hg, nth_error_map in Hge.
    destruct (nth_error edges e) as [[u v]|]; simpl in Hge; [|discriminate].
    inversion Hge; subst ed. simpl in Ht, Hk. subst. reflexivity.
  Qed.

  Lemma idx_in i x : nth_error edges i = Some x -> In i (seq 0 (length edges)).
  Proof. intros H. apply in_seq. split; [lia|]. simpl. apply nth_error_Some. congruence. Qed.

  Lemma pot_first e b : nth_error edges e = Some (s, b) -> exists pe, nth e pi None = Some pe /\ pe <= nth e cost 0.
  Proof.
    intros He. unfold check_edge_potential in Hchk. rewrite forallb_forall in Hchk.
    specialize (Hchk e (idx_in _ _ He)). rewrite He in Hchk. apply andb_true_iff in Hchk. destruct Hchk as [H1 _].
    rewrite Nat.eqb_refl in H1. destruct (nth e pi None) as [pe|]; [|discriminate].
    exists pe. split; [reflexivity|]. apply Qle_bool_iff. exact H1.
  Qed.

  Lemma pot_step e u a f b pe : nth_error edges e = Some (u, a) -> nth_error edges f = Some (a, b) ->
    nth e pi None = Some pe -> exists pf, nth f pi None = Some pf /\ pf <= pe + turn e f + nth f cost 0.
  Proof.
    intros He Hf Hpe. unfold check_edge_potential in Hchk. rewrite forallb_forall in Hchk.
    specialize (Hchk e (idx_in _ _ He)). rewrite He in Hchk. apply andb_true_iff in Hchk. destruct Hchk as [_ H2].
    rewrite Hpe in H2. rewrite forallb_forall in H2. specialize (H2 f (idx_in _ _ Hf)). rewrite Hf in H2.
    rewrite Nat.eqb_refl in H2. destruct (nth f pi None) as [pf|]; [|discriminate].
    exists pf. split; [reflexivity|]. apply Qle_bool_iff. exact H2.
  Qed.

  (* a walk continuing after edge p (which arrives at a with potential pa) costs at least the potential of its
     last edge, and that last edge arrives at the walk's end *)
  Lemma pot_walk_edges a r t : walk g Forward a r t -> forall p u pa,
    nth_error edges p = Some (u, a) -> nth p pi None = Some pa ->
    exists b u', nth (List.last r p) pi None = Some b /\ nth_error edges (List.last r p) = Some (u', t)
                 /\ b <= pa + route_total cost turn (Some p) r.
  Proof.
    induction 1 as [a | a f b' r c Hj Hw IH]; intros p u pa Hp Hpa.
    - exists pa, u. simpl. repeat split; auto. lra.
    - apply joins_edges in Hj. destruct (pot_step p u a f b' pa Hp Hj Hpa) as (pf & Hpf & Hle).
      destruct (IH f a pf Hj Hpf) as (b & u' & Hb & Hl & Hle2).
      assert (Hlast : forall (l : list nat) x d, List.last (x :: l) d = List.last l x).
      { clear. induction l as [|y l IHl]; intros x d; [reflexivity|].
        change (List.last (x :: y :: l) d) with (List.last (y :: l) d). rewrite (IHl y d), (IHl y x). reflexivity. }
      specialize (Hlast r f p).
      rewrite Hlast. exists b, u'. repeat split; auto. simpl. lra.
  Qed.

  (* if c0 is at most the potential of every edge arriving at t, no non-empty walk from s to t costs less than c0 *)
  Theorem certified_least_total c0 t :
    at_most_all c0 (potentials_into edges pi t) = true ->
    forall r, r <> [] -> walk g Forward s r t -> c0 <= route_total cost turn None r.
  Proof.
    intros Hall r Hne Hw. destruct r as [|e r]; [congruence|].
    inversion Hw as [|a e' b r' c Hj Hw']; subst. apply joins_edges in Hj.
    destruct (pot_first e b Hj) as (pe & Hpe & Hle).
    destruct (pot_walk_edges b r t Hw' e s pe Hj Hpe) as (pb & u' & Hpb & Hl & Hle2).
    assert (Hin : In pb (potentials_into edges pi t)).
    { unfold potentials_into. apply in_flat_map. exists (List.last r e). split; [eapply idx_in; eauto|].
      rewrite Hl, Nat.eqb_refl, Hpb. left; reflexivity. }
    unfold at_most_all in Hall. rewrite forallb_forall in Hall. specialize (Hall pb Hin). apply Qle_bool_iff in Hall.
    simpl. lra.
  Qed.
End EdgePotential.
