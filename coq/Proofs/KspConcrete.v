(* C13: discharging the Section hypotheses of Proofs/Ksp.v for the concrete pieces of the model:
     - Ksp.pop_min removes exactly one queue entry, one that no other entry is strictly cheaper than;
     - the underlying search Search.run_vertex_oriented (Dijkstra / A-star) returns one tree satisfying the C01 tree
       invariant and the route backtracked from it (C01: Proofs/SearchInv.v, under its cost-order hypotheses);
     - the forward search never expands its destination, so no tree entry has the destination as its parent
       (this is what makes "loop-free" include the destination vertex). *)
From Coq Require Import List Arith Bool String Lia Permutation.
From stdpp Require Import gmap.
From RC Require Import Base.Res Model.Search Model.SearchSpec Model.Ksp
  Proofs.SearchTree Proofs.SearchInv Proofs.SearchBacktrack.
Import ListNotations.
Import Search SearchSpec Ksp.

(* ---------------------------------------------------------------- pop_min *)
Section Pop.
  Context {C : Type}.
  Variable clt : C -> C -> bool.

  Lemma pop_min_none (q : list (nat * C)) : pop_min clt q = None -> q = [].
  Proof.
    destruct q as [|[v0 c0] r]; simpl; [reflexivity|].
    destruct (pop_min clt r) as [[[v' c'] r']|]; [destruct (clt c' c0)|]; discriminate.
  Qed.

  Lemma pop_min_perm (q : list (nat * C)) v c q' : pop_min clt q = Some (v, c, q') -> Permutation q ((v, c) :: q').
  Proof.
    revert v c q'. induction q as [|[v0 c0] r IH]; simpl; intros v c q' H; [discriminate|].
    destruct (pop_min clt r) as [[[v' c'] r']|] eqn:E.
    - destruct (clt c' c0).
      + inversion H; subst. rewrite (IH _ _ _ eq_refl). apply perm_swap.
      + inversion H; subst. reflexivity.
    - inversion H; subst. apply pop_min_none in E. subst r. reflexivity.
  Qed.

  (* minimality, for a strict order whose negation is transitive (f64's `<` on NaN-free values, `<` on Q) *)
  Hypothesis clt_asym : forall a b, clt a b = true -> clt b a = false.
  Hypothesis cle_trans : forall a b d, clt b a = false -> clt d b = false -> clt d a = false.

  Lemma pop_min_minimal (q : list (nat * C)) v c q' :
    pop_min clt q = Some (v, c, q') -> forall x cx, In (x, cx) q -> clt cx c = false.
  Proof.
    revert v c q'. induction q as [|[v0 c0] r IH]; simpl; intros v c q' H x cx Hin; [destruct Hin|].
    assert (Hirr : forall a, clt a a = false).
    { intros a. destruct (clt a a) eqn:E; [|reflexivity]. rewrite (clt_asym _ _ E) in E. discriminate. }
    destruct (pop_min clt r) as [[[v' c'] r']|] eqn:E.
    - destruct (clt c' c0) eqn:Ec; inversion H; subst.
      + destruct Hin as [Heq | Hin]; [inversion Heq; subst; apply clt_asym, Ec | exact (IH _ _ _ eq_refl x cx Hin)].
      + destruct Hin as [Heq | Hin]; [inversion Heq; subst; apply Hirr|].
        pose proof (IH _ _ _ eq_refl x cx Hin) as Hx. exact (cle_trans c c' cx Ec Hx).
    - inversion H; subst. apply pop_min_none in E. subst r.
      destruct Hin as [Heq | []]. inversion Heq; subst. apply Hirr.
  Qed.
End Pop.

(* ---------------------------------------------------------------- the underlying search *)
Section Underlying.
  Context {C St : Type}.
  Variable clt : C -> C -> bool.
  Variable cadd : C -> C -> C.
  Variable czero : C.
  Variable cfloor : C -> C.
  Variable g : graph.
  Variable frontier : nat -> St -> option nat -> res bool.
  Variable traverse : dir -> nat -> option nat -> St -> res (C * C * St).
  Variable estimate : nat -> nat -> St -> res C.
  Variable init_state : res St.
  Variable terminate : nat -> nat -> option string.

  Notation branch := (branch C St).
  Notation sstate := (sstate C St).
  Notation relax := (relax clt cadd czero cfloor g frontier traverse estimate).
  Notation relax_all := (relax_all clt cadd czero cfloor g frontier traverse estimate).
  Notation step := (step clt cadd czero cfloor g frontier traverse estimate terminate).
  Notation run_loop := (run_loop clt cadd czero cfloor g frontier traverse estimate terminate).
  Notation run_a_star := (run_a_star clt cadd czero cfloor g frontier traverse estimate init_state terminate).
  Notation rvo := (Search.run_vertex_oriented clt cadd czero cfloor g frontier traverse estimate init_state terminate).

  (* ---- the destination is never expanded ---- *)
  Definition leaf (t : nat) (tr : gmap nat branch) : Prop := forall x b, tr !! x = Some b -> b_term b <> t.

  Lemma edges_where_spec f l : forall k i, In i (edges_where f l k) ->
    exists e, nth_error l (i - k) = Some e /\ f e = true /\ k <= i.
  Proof.
    induction l as [|e l IH]; simpl; intros k i Hin; [destruct Hin|].
    destruct (f e) eqn:E.
    - destruct Hin as [<- | Hin].
      + exists e. rewrite Nat.sub_diag. auto.
      + destruct (IH (S k) i Hin) as (e' & Hn & Hf & Hle). exists e'. split; [|split; [exact Hf | lia]].
        replace (i - k) with (S (i - S k)) by lia. exact Hn.
    - destruct (IH (S k) i Hin) as (e' & Hn & Hf & Hle). exists e'. split; [|split; [exact Hf | lia]].
      replace (i - k) with (S (i - S k)) by lia. exact Hn.
  Qed.

  (* the edges scanned when v is expanded all start (in the search direction) at v *)
  Lemma incident_term d v eid e : In eid (incident d g v) -> get_edge g eid = Some e -> term_vertex d e = v.
  Proof.
    intros Hin Hg. unfold get_edge in Hg. destruct d; simpl in *.
    - destruct (edges_where_spec _ _ _ _ Hin) as (e' & Hn & Hf & _). rewrite Nat.sub_0_r in Hn.
      rewrite Hg in Hn. inversion Hn; subst e'. apply Nat.eqb_eq in Hf. exact Hf.
    - destruct (edges_where_spec _ _ _ _ Hin) as (e' & Hn & Hf & _). rewrite Nat.sub_0_r in Hn.
      rewrite Hg in Hn. inversion Hn; subst e'. apply Nat.eqb_eq in Hf. exact Hf.
  Qed.

  Lemma relax_leaf d target cur last (s s' : sstate) eid t v :
    v <> t -> In eid (incident d g v) -> relax d target cur last s eid = Ok s' ->
    leaf t (s_tree s) -> leaf t (s_tree s').
  Proof.
    intros Hvt Hin H HL. unfold Search.relax in H.
    destruct (get_edge g eid) as [e|] eqn:Hg; [|discriminate].
    pose proof (incident_term d v eid e Hin Hg) as Htv.
    destruct (frontier eid cur last) as [ok| | |]; cbn [bind] in H; try discriminate.
    destruct (negb ok); [inversion H; subst; exact HL|].
    destruct (traverse d eid last cur) as [[[ac tc] st']| | |]; cbn [bind] in H; try discriminate.
    destruct (s_g s !! term_vertex d e) as [gcur|]; [|inversion H; subst; exact HL].
    match type of H with (if ?b then _ else _) = _ => destruct b end; [|inversion H; subst; exact HL].
    match type of H with (bind ?x _) = _ => destruct x as [h| | |] end; cbn [bind] in H; try discriminate.
    inversion H; subst s'. cbn [s_tree]. intros x b Hx.
    destruct (Nat.eq_dec x (key_vertex d e)) as [-> | Hne].
    - rewrite lookup_insert in Hx. inversion Hx; subst b. cbn [b_term]. congruence.
    - rewrite lookup_insert_ne in Hx by congruence. exact (HL x b Hx).
  Qed.

  Lemma relax_all_leaf d target cur last t v es : forall (s s' : sstate),
    v <> t -> (forall eid, In eid es -> In eid (incident d g v)) -> relax_all d target cur last s es = Ok s' ->
    leaf t (s_tree s) -> leaf t (s_tree s').
  Proof.
    induction es as [|eid es IH]; simpl; intros s s' Hvt Hes H HL.
    - inversion H; subst. exact HL.
    - destruct (relax d target cur last s eid) as [s1| | |] eqn:E; cbn [bind] in H; try discriminate.
      apply (IH s1 s' Hvt); [intros e He; apply Hes; right; exact He | exact H|].
      eapply relax_leaf; [exact Hvt | apply Hes; left; reflexivity | exact E | exact HL].
  Qed.

  Lemma step_leaf d source t init (s : sstate) r :
    step d source (Some t) init s = Ok r -> leaf t (s_tree s) ->
    leaf t (s_tree (match r with inl s' => s' | inr s' => s' end)).
  Proof.
    unfold Search.step. intros H HL.
    destruct (terminate (size (s_tree s)) (s_iters s)); [discriminate|].
    destruct (pq_pop clt (s_pq s)) as [[[v c] q']|]; [|discriminate].
    destruct (Nat.eqb v t) eqn:Evt; [inversion H; subst; exact HL|].
    apply Nat.eqb_neq in Evt.
    match type of H with (bind ?x _) = _ => destruct x as [[le cs]| | |] end; cbn [bind] in H; try discriminate.
    match type of H with (bind ?x _) = _ => destruct x as [s2| | |] eqn:E2 end; cbn [bind] in H; try discriminate.
    inversion H; subst r. cbn [s_tree].
    eapply (relax_all_leaf d (Some t) cs le t v); [exact Evt | intros eid He; exact He | exact E2 | exact HL].
  Qed.

  Lemma run_loop_leaf fuel d source t init : forall (s s' : sstate),
    run_loop fuel d source (Some t) init s = Ok s' -> leaf t (s_tree s) -> leaf t (s_tree s').
  Proof.
    induction fuel as [|f IH]; simpl; intros s s' H HL; [discriminate|].
    destruct (step d source (Some t) init s) as [r| | |] eqn:E; cbn [bind] in H; try discriminate.
    pose proof (step_leaf _ _ _ _ _ _ E HL) as HL'.
    destruct r as [s1 | s1]; [exact (IH s1 s' H HL') | inversion H; subst; exact HL'].
  Qed.

  Theorem run_a_star_leaf fuel d source t tr it : run_a_star fuel d source (Some t) = Ok (tr, it) -> leaf t tr.
  Proof.
    unfold Search.run_a_star. intros H.
    destruct (negb (Nat.ltb source (nverts g))); [discriminate|].
    destruct (Nat.eqb t source). { inversion H; subst. intros x b Hx. rewrite lookup_empty in Hx. discriminate. }
    destruct init_state as [init| | |]; cbn [bind] in H; try discriminate.
    destruct (estimate source t init) as [h0| | |]; cbn [bind] in H; try discriminate.
    match type of H with (bind ?x _) = _ => destruct x as [s| | |] eqn:E end; cbn [bind] in H; try discriminate.
    inversion H; subst. eapply run_loop_leaf; [exact E|].
    cbn [s_tree]. intros x b Hx. rewrite lookup_empty in Hx. discriminate.
  Qed.

  (* ---- shape of a successful run_vertex_oriented with a destination ---- *)
  Variable cle : C -> C -> Prop.
  Context `{!PreOrder cle}.
  Hypothesis clt_le : forall a b, clt a b = true -> cle a b.
  Hypothesis clt_irr : forall a b, clt a b = true -> cle b a -> False.
  Hypothesis cadd_infl : forall d e last st ac tc st' gc,
      traverse d e last st = Ok (ac, tc, st') -> cle gc (cadd gc (cfloor (cadd ac tc))).

  Theorem rvo_shape fuel d a b r : rvo fuel d a (Some b) = Ok r ->
    exists tree route, r_trees r = [tree] /\ r_routes r = [route] /\ TreeInv g d a tree
                       /\ vertex_oriented_route a b tree = Ok route /\ leaf b tree.
  Proof.
    unfold Search.run_vertex_oriented. intros H.
    destruct (run_a_star fuel d a (Some b)) as [[tr it]| | |] eqn:E; cbn [bind] in H; try discriminate.
    pose proof (run_a_star_tree clt cadd czero cfloor g frontier traverse estimate init_state terminate cle
                  clt_le clt_irr cadd_infl _ _ _ _ _ _ E) as HT.
    destruct (vertex_oriented_route a b tr) as [route| | |] eqn:Eb; cbn [bind] in H; try discriminate.
    inversion H; subst r. exists tr, route. cbn [r_trees r_routes].
    repeat match goal with |- _ /\ _ => split end; auto. eapply run_a_star_leaf; eauto.
  Qed.
End Underlying.
