(* C13: the default AcceptAll similarity returns at least as many routes as any similarity function does for the
   same query.  The two runs may even pop entries of equal priority in different orders: [pick1] and [pick2] are
   two arbitrary pops of the same intersection queue. *)
From Coq Require Import List Arith Bool Lia Permutation.
From stdpp Require Import gmap.
From RC Require Import Base.Res Model.Search Model.SearchSpec Model.Ksp Model.KspSpec
  Proofs.SearchTree Proofs.SearchInv Proofs.SearchBacktrack Proofs.KspBase Proofs.Ksp.
Import ListNotations.
Import Search SearchSpec Ksp KspSpec.

Section Dominates.
  Context {C St : Type}.
  Variable cadd : C -> C -> C.
  Variable cfloor : C -> C.
  Variable g : graph.
  Variable traverse_fwd : nat -> option nat -> St -> res (C * C * St).
  Variable init_state : res St.
  Variable search : dir -> nat -> nat -> res (sresult C St).
  Variable sim : list nat -> list nat -> res bool.                       (* any similarity function *)
  Variables pick1 pick2 : list (nat * C) -> option (nat * C * list (nat * C)).
  Hypothesis pick1_perm : forall q v c q', pick1 q = Some (v, c, q') -> Permutation q ((v, c) :: q').
  Hypothesis pick1_none : forall q, pick1 q = None -> q = [].
  Hypothesis pick2_perm : forall q v c q', pick2 q = Some (v, c, q') -> Permutation q ((v, c) :: q').
  Hypothesis pick2_none : forall q, pick2 q = None -> q = [].
  Hypothesis Hsearch : forall d a b r, search d a b = Ok r ->
    exists tree route, r_trees r = [tree] /\ r_routes r = [route] /\ TreeInv g d a tree
                       /\ vertex_oriented_route a b tree = Ok route.

  Definition accept_all (a b : list nat) : res bool := Ok false.     (* test_similarity of AcceptAll *)

  Notation run_aa := (sv_run cadd cfloor g traverse_fwd init_state search accept_all pick1).
  Notation run_f := (sv_run cadd cfloor g traverse_fwd init_state search sim pick2).

  Lemma NoDup_incl_len (a b : list (list nat)) : List.NoDup a -> (forall x, In x a -> In x b) -> length a <= length b.
  Proof. intros Hnd Hincl. apply NoDup_incl_length; [exact Hnd | exact Hincl]. Qed.

  Theorem accept_all_dominates k term s t ra rf :
    run_aa k term s t = Ok ra -> run_f k term s t = Ok rf -> length (r_routes rf) <= length (r_routes ra).
  Proof.
    intros Ha Hf.
    destruct (sv_run_inv cadd cfloor g traverse_fwd init_state search accept_all pick1 Hsearch _ _ _ _ _ Ha)
      as (rf1 & rr1 & tf1 & tr1 & tsp1 & solA & itA & Hs1 & Hs2 & Ht1 & Ht2 & _ & _ & _ & Hb1 & HlA & ->).
    destruct (sv_run_inv cadd cfloor g traverse_fwd init_state search sim pick2 Hsearch _ _ _ _ _ Hf)
      as (rf2 & rr2 & tf2 & tr2 & tsp2 & solF & itF & Hs1' & Hs2' & Ht1' & Ht2' & _ & _ & _ & Hb2 & HlF & ->).
    (* both runs see the same trees, the same queue, the same first route *)
    rewrite Hs1 in Hs1'. inversion Hs1'; subst rf2. rewrite Hs2 in Hs2'. inversion Hs2'; subst rr2.
    rewrite Ht1 in Ht1'. inversion Ht1'; subst tf2. rewrite Ht2 in Ht2'. inversion Ht2'; subst tr2.
    rewrite Hb1 in Hb2. inversion Hb2; subst tsp2.
    cbn [r_routes]. rewrite !firstn_length.
    destruct (sv_loop_cover g traverse_fwd init_state accept_all pick1 pick1_perm pick1_none k term s t tf1 tr1 _
                (fun _ _ => eq_refl) _ _ _ _ _ HlA) as [HinclA HcovA].
    destruct HcovA as [Hstop | Hcov].
    - apply terminate_size in Hstop. lia.
    - destruct (sv_loop_spec g traverse_fwd init_state sim pick2 pick2_perm k term s t tf1 tr1 _ _ _ _ _ _ HlF)
        as (ext & HsolF & Hext & Hpw).
      assert (Hlen : length solF <= length solA); [|lia].
      rewrite <- (map_length (@ids C St) solF), <- (map_length (@ids C St) solA).
      apply NoDup_incl_len.
      + (* the routes of any run have pairwise different edge sequences *)
        pose proof (PW_nth sim _ (Hpw (PW_single sim tsp1))) as Hnth.
        apply NoDup_nth_error. intros i j Hi Heq.
        destruct (Nat.eq_dec i j) as [-> | Hne]; [reflexivity | exfalso].
        rewrite map_length in Hi.
        destruct (nth_error solF i) as [a|] eqn:Ea; [|apply nth_error_None in Ea; lia].
        rewrite (map_nth_error _ _ _ Ea) in Heq. symmetry in Heq.
        destruct (nth_error solF j) as [b|] eqn:Eb.
        2:{ assert (Hn : nth_error (map (@ids C St) solF) j = None)
              by (apply nth_error_None; rewrite map_length; apply nth_error_None; exact Eb).
            congruence. }
        rewrite (map_nth_error _ _ _ Eb) in Heq. inversion Heq as [Hid].
        destruct (Nat.lt_total i j) as [Hlt | [Hij | Hlt]]; [|contradiction|].
        * destruct (Hnth _ _ _ _ Hlt Ea Eb) as [Hd _]. apply same_ids_false in Hd. congruence.
        * destruct (Hnth _ _ _ _ Hlt Eb Ea) as [Hd _]. apply same_ids_false in Hd. congruence.
      + intros x Hx. apply in_map_iff in Hx. destruct Hx as (r & <- & Hr). subst solF.
        apply in_app_or in Hr. destruct Hr as [[<- | []] | Hr].
        * apply in_map. apply HinclA. left; reflexivity.
        * rewrite List.Forall_forall in Hext. destruct (Hcov r (Hext r Hr)) as (r' & Hr' & Hid).
          rewrite <- Hid. apply in_map. exact Hr'.
  Qed.
End Dominates.
