(* C13: all Section hypotheses discharged for the executable model of the correspondence stream over exact
   rationals (KR.run QN: table-driven world, underlying Dijkstra / A-star of Model/Search.v, Ksp.pop_min, the cosine
   similarity cos_ge_Q).  The conclusion is stated with the SAME Prop-level predicates (KspSpec.routes_ok,
   KspSpec.pairwise_dissimilar) that the verified checker establishes for the implementation's routes. *)
From Coq Require Import List Arith Bool String Lia QArith.
From stdpp Require Import gmap.
From RC Require Import Base.Res Base.Num Model.Search Model.SearchSpec Model.SearchRun Model.Ksp Model.KspSpec Model.KspRun
  Proofs.SearchTree Proofs.SearchInv Proofs.SearchBacktrack Proofs.SearchQ
  Proofs.KspBase Proofs.Ksp Proofs.KspDominates Proofs.KspSim Proofs.KspConcrete.
Import ListNotations.
Import Search SearchSpec Ksp KspSpec SR KR.

Section Model.
  Variable fuel : nat.
  Variable w : world QN.
  Variable q : kq QN.
  Let g := graph_of QN w.
  Let msearch := KR.search QN fuel w q.
  Let msim (f : simfn Q) := sim_of QN cos_ge_Q w f.
  Let costf (e : nat) : Q := nth e (w_cost QN w) 1%Q.
  Notation mrun f pick := (sv_run (C:=Q) (St:=Q) Qplus (pos QN) g (traverse QN w Forward) (Ok (w_init QN w)) msearch (msim f) pick).

  (* the underlying search of the model returns an invariant tree, the backtracked route, and never expands
     its destination *)
  Lemma msearch_shape d a b (r : sresult Q Q) : msearch d a b = Ok r ->
    exists tree route, r_trees r = [tree] /\ r_routes r = [route] /\ TreeInv g d a tree
                       /\ vertex_oriented_route a b tree = Ok route /\ leaf b tree.
  Proof.
    intros H.
    exact (rvo_shape (C:=Q) (St:=Q) _ _ _ _ g _ _ _ _ _ Qle Qltb_le Qltb_irr (traverse_inflationary w) fuel d a b r H).
  Qed.
  Lemma msearch_hyp d a b (r : sresult Q Q) : msearch d a b = Ok r ->
    exists tree route, r_trees r = [tree] /\ r_routes r = [route] /\ TreeInv g d a tree
                       /\ vertex_oriented_route a b tree = Ok route.
  Proof. intros H. destruct (msearch_shape _ _ _ _ H) as (tr & rt & H1 & H2 & H3 & H4 & _). eauto 10. Qed.

  (* the single-via arm of the model's run_vertex_oriented *)
  Lemma run_is_sv k t (f : simfn Q) :
    kq_alg QN q = KSingleVia -> kq_target QN q = Some t -> ksp_query_k (kq_k QN q) (kq_qk QN q) = Ok k ->
    run_with QN cos_ge_Q fuel w q f = mrun f (pop_min Qltb) k (kq_term QN q) (kq_source QN q) t.
  Proof.
    intros Ha Ht Hk. unfold run_with, run_with_at, Ksp.run_vertex_oriented. rewrite Ht, Hk. cbn [bind]. rewrite Ha. reflexivity.
  Qed.

  Lemma known_edge_dist e ed : get_edge g e = Some ed -> edge_dist QN w e = Ok (costf e).
  Proof.
    unfold get_edge, g, graph_of. cbn [gedges]. intros H.
    assert (Hlt : e < length (w_edges QN w)).
    { rewrite <- (map_length (fun p => mkEdge (fst p) (snd p))). apply nth_error_Some. congruence. }
    unfold edge_dist. apply Nat.ltb_lt in Hlt. rewrite Hlt. reflexivity.
  Qed.

  Theorem sv_model_ok k s t (r : sresult Q Q) :
    kq_alg QN q = KSingleVia -> kq_source QN q = s -> kq_target QN q = Some t ->
    ksp_query_k (kq_k QN q) (kq_qk QN q) = Ok k -> 1 <= k -> s <> t -> thr_nonneg (kq_sim QN q) ->
    KR.run QN cos_ge_Q fuel w q = Ok r ->
    routes_ok g s t k (map (@ids Q Q) (r_routes r))
    /\ pairwise_dissimilar (kq_sim QN q) costf (map (@ids Q Q) (r_routes r))
    /\ exists rf route, msearch Forward s t = Ok rf /\ r_routes rf = [route] /\ nth_error (r_routes r) 0 = Some route.
  Proof.
    intros Ha Hs Ht Hk Hk1 Hst Hthr H. unfold KR.run in H. rewrite (run_is_sv k t _ Ha Ht Hk), Hs in H.
    set (pick := pop_min Qltb) in *.
    assert (Hpp : forall q0 v c q', pick q0 = Some (v, c, q') -> Permutation q0 ((v, c) :: q')) by (apply pop_min_perm).
    assert (Hpn : forall q0, pick q0 = None -> q0 = []) by (apply pop_min_none).
    pose proof (sv_count Qplus (pos QN) g _ _ msearch _ pick Hpp msearch_hyp k _ s t r Hk1 H) as Hcount.
    pose proof (sv_routes_valid Qplus (pos QN) g _ _ msearch _ pick Hpp msearch_hyp k _ s t r Hst H) as Hvalid.
    assert (Hfull : forall x, In x (r_routes r) -> List.NoDup (s :: dsts g (ids x))).
    { apply (sv_loop_free_full Qplus (pos QN) g _ _ msearch _ pick Hpp msearch_hyp k _ s t r Hst H).
      intros rf tf v b Hrf Htf Hb. destruct (msearch_shape _ _ _ _ Hrf) as (tr' & rt & Htr' & _ & _ & _ & Hleaf).
      pose proof (eq_trans (eq_sym Htr') Htf) as Heq. inversion Heq; subst tr'. exact (Hleaf v b Hb). }
    split; [|split].
    - split; [rewrite map_length; exact Hcount|]. split.
      + intros x Hx. apply in_map_iff in Hx. destruct Hx as (y & <- & Hy).
        destruct (Hvalid y Hy) as [Hne Hw]. split; [exact Hne|]. split; [exact Hw | exact (Hfull y Hy)].
      + apply NoDup_nth_error. intros i j Hi Heq. destruct (Nat.eq_dec i j) as [-> | Hne]; [reflexivity | exfalso].
        rewrite map_length in Hi.
        destruct (nth_error (r_routes r) i) as [a|] eqn:Ea;
          [|apply nth_error_None in Ea; exact (Nat.lt_irrefl _ (Nat.lt_le_trans _ _ _ Hi Ea))].
        rewrite !nth_error_map, Ea in Heq. simpl in Heq.
        destruct (nth_error (r_routes r) j) as [b|] eqn:Eb; simpl in Heq; [|discriminate].
        inversion Heq as [Hid].
        exact (sv_pairwise_distinct Qplus (pos QN) g _ _ msearch _ pick Hpp msearch_hyp k _ s t r H i j a b Hne Ea Eb Hid).
    - intros i j a b Hij Hia Hjb. rewrite nth_error_map in Hia, Hjb.
      destruct (nth_error (r_routes r) i) as [x|] eqn:Ex; simpl in Hia; [|discriminate].
      destruct (nth_error (r_routes r) j) as [y|] eqn:Ey; simpl in Hjb; [|discriminate].
      inversion Hia; inversion Hjb; subst a b.
      pose proof (sv_pairwise_dissimilar Qplus (pos QN) g _ _ msearch _ pick Hpp msearch_hyp k _ s t r H i j x y Hij Ex Ey) as Hd.
      (* the routes consist of graph edges, on which the edge distance is the cost table *)
      assert (Hknown : forall z, In z (r_routes r) -> forall e, In e (ids z) -> edge_dist QN w e = Ok (costf e)).
      { intros z Hz e He. destruct (Hvalid z Hz) as [_ Hw]. destruct (walk_edges_known _ _ _ _ _ Hw e He) as [ed Hed].
        eapply known_edge_dist; eauto. }
      assert (Hext : forall e, In e (ids y) \/ In e (ids x) -> edge_dist QN w e = (fun e => Ok (costf e)) e).
      { intros e [He | He]; [eapply (Hknown y) | eapply (Hknown x)]; eauto using nth_error_In. }
      unfold msim, sim_of in Hd. rewrite (test_similarity_ext _ _ _ _ _ _ Hext) in Hd.
      split.
      + apply model_dissimilar_spec; [exact Hthr|]. rewrite test_similarity_sym. exact Hd.
      + apply model_dissimilar_spec; [exact Hthr | exact Hd].
    - exact (sv_first_is_best Qplus (pos QN) g _ _ msearch _ pick Hpp msearch_hyp k _ s t r Hk1 H).
  Qed.

  (* the default AcceptAll returns at least as many routes as the configured similarity function *)
  Theorem sv_model_dominates k t (r ra : sresult Q Q) :
    kq_alg QN q = KSingleVia -> kq_target QN q = Some t -> ksp_query_k (kq_k QN q) (kq_qk QN q) = Ok k ->
    KR.run QN cos_ge_Q fuel w q = Ok r -> run_with QN cos_ge_Q fuel w q (@SAcceptAll Q) = Ok ra ->
    length (r_routes r) <= length (r_routes ra).
  Proof.
    intros Ha Ht Hk H HA. unfold KR.run in H. rewrite (run_is_sv k t (kq_sim QN q) Ha Ht Hk) in H.
    rewrite (run_is_sv k t (@SAcceptAll Q) Ha Ht Hk) in HA.
    refine (accept_all_dominates Qplus (pos QN) g _ _ msearch (msim (kq_sim QN q)) (pop_min Qltb) (pop_min Qltb)
              (pop_min_perm Qltb) (pop_min_none Qltb) (pop_min_perm Qltb) msearch_hyp k _ _ t ra r _ H).
    exact HA.
  Qed.

  (* the model never reports a hang or an error of its own: when both underlying searches succeed so does the driver *)
  Theorem sv_model_no_spurious_error k s t (rf rr : sresult Q Q) :
    kq_alg QN q = KSingleVia -> kq_source QN q = s -> kq_target QN q = Some t ->
    ksp_query_k (kq_k QN q) (kq_qk QN q) = Ok k -> s <> t ->
    w_terr QN w = [] ->
    msearch Forward s t = Ok rf -> msearch Reverse t s = Ok rr ->
    exists r, KR.run QN cos_ge_Q fuel w q = Ok r.
  Proof.
    intros Ha Hs Ht Hk Hst Hterr Hf Hr. unfold KR.run. rewrite (run_is_sv k t _ Ha Ht Hk), Hs.
    eapply (sv_no_spurious_error Qplus (pos QN) g _ _ msearch _ (pop_min Qltb) (pop_min_perm Qltb) msearch_hyp).
    - intros e prev st [ed Hed]. unfold traverse. rewrite Hterr. simpl.
      destruct prev as [l|]; [destruct (turn_lookup QN (w_turn QN w) l e)|]; eauto.
    - (* the cosine similarity fails only on an edge id that is not in the graph *)
      intros a b Hka Hkb. unfold msim, sim_of.
      rewrite (test_similarity_ext _ _ _ (fun e => Ok (costf e))).
      + apply test_similarity_total.
      + intros e [He | He]; [destruct (Hka e He) as [ed Hed] | destruct (Hkb e He) as [ed Hed]]; eapply known_edge_dist; eauto.
    - exact Hst.
    - exact Hf.
    - exact Hr.
  Qed.
End Model.
