(* C13: the cosine similarity over exact rationals is symmetric in its two routes, so "the later route was tested
   against the earlier one" (Proofs/Ksp.v, sv_pairwise_dissimilar) covers both orders; the checker's "more similar
   than the threshold" implies the model's "similar". *)
From Coq Require Import List Arith Bool Lia Permutation QArith Lqa.
From RC Require Import Base.Res Base.Num Model.Search Model.Ksp Model.KspSpec Proofs.KspBase.
Import ListNotations.
Import Ksp KspSpec.
Local Open Scope Q_scope.

(* ---------------------------------------------------------------- sums *)
Definition qsum (f : nat -> Q) (l : list nat) : Q := wsum QN f l.

Lemma fold_acc (f : nat -> Q) l : forall a, fold_left (fun acc e => acc + f e) l a == a + fold_left (fun acc e => acc + f e) l 0.
Proof.
  induction l as [|x l IH]; simpl; intros a; [ring|].
  rewrite (IH (a + f x)), (IH (0 + f x)). ring.
Qed.
Lemma qsum_nil f : qsum f [] == 0.
Proof. reflexivity. Qed.
Lemma qsum_cons f x l : qsum f (x :: l) == f x + qsum f l.
Proof. unfold qsum, wsum. cbn [add zero QN]. simpl. rewrite fold_acc. ring. Qed.
Lemma qsum_app f l1 l2 : qsum f (l1 ++ l2) == qsum f l1 + qsum f l2.
Proof.
  induction l1 as [|x l1 IH]; simpl.
  - rewrite qsum_nil. ring.
  - rewrite !qsum_cons, IH. ring.
Qed.
Lemma qsum_ext f h l : (forall e, In e l -> f e == h e) -> qsum f l == qsum h l.
Proof.
  induction l as [|x l IH]; intros H; [reflexivity|].
  rewrite !qsum_cons, IH, (H x) by (try (left; reflexivity); intros e He; apply H; right; exact He). reflexivity.
Qed.
Lemma qsum_zero f l : (forall e, In e l -> f e == 0) -> qsum f l == 0.
Proof.
  induction l as [|x l IH]; intros H; [reflexivity|].
  rewrite qsum_cons, IH, (H x) by (try (left; reflexivity); intros e He; apply H; right; exact He). ring.
Qed.
Lemma qsum_perm f l l' : Permutation l l' -> qsum f l == qsum f l'.
Proof.
  induction 1 as [|x l l' Hp IH|x y l|l l' l'' H1 IH1 H2 IH2].
  - reflexivity.
  - rewrite !qsum_cons, IH. reflexivity.
  - rewrite !qsum_cons. ring.
  - rewrite IH1, IH2. reflexivity.
Qed.
(* dropping the keys on which the summand vanishes *)
Lemma qsum_filter f (p : nat -> bool) l : (forall e, In e l -> p e = false -> f e == 0) -> qsum f l == qsum f (filter p l).
Proof.
  induction l as [|x l IH]; intros H; [reflexivity|]. simpl.
  rewrite qsum_cons, IH by (intros e He; apply H; right; exact He).
  destruct (p x) eqn:E.
  - rewrite qsum_cons. reflexivity.
  - rewrite (H x (or_introl eq_refl) E). ring.
Qed.

(* ---------------------------------------------------------------- weights of a total distance function *)
Section Weights.
  Variable w : nat -> Q.
  Let dist (e : nat) : res Q := Ok (w e).

  Lemma weights_total r : weights QN dist r = Ok (map (fun e => (e, w e)) r).
  Proof. induction r as [|e r IH]; simpl; [reflexivity|]. rewrite IH. reflexivity. Qed.

  Lemma wget_map r e : wget QN (map (fun e => (e, w e)) r) e = if memn e r then w e else 0.
  Proof.
    unfold wget. induction r as [|x r IH]; simpl; [reflexivity|].
    rewrite (Nat.eqb_sym e x). destruct (Nat.eqb x e) eqn:E; simpl.
    - apply Nat.eqb_eq in E. subst. reflexivity.
    - exact IH.
  Qed.

  Definition common (a b : list nat) : list nat := filter (fun e => memn e b) (dedup a).

  Lemma common_perm a b : Permutation (common a b) (common b a).
  Proof.
    apply NoDup_Permutation.
    - apply NoDup_filter, NoDup_dedup.
    - apply NoDup_filter, NoDup_dedup.
    - intros x. unfold common. rewrite !filter_In, !In_dedup, !memn_In. tauto.
  Qed.

  (* numer = sum of w^2 over the edges the two routes share *)
  Lemma numer_common a b n da db : cos_parts QN dist a b = Ok (n, da, db) ->
    n == qsum (fun e => w e * w e) (common a b)
    /\ da = qsum (fun e => wget QN (map (fun e => (e, w e)) a) e * wget QN (map (fun e => (e, w e)) a) e) (dedup a)
    /\ db = qsum (fun e => wget QN (map (fun e => (e, w e)) b) e * wget QN (map (fun e => (e, w e)) b) e) (dedup b).
  Proof.
    unfold cos_parts. rewrite !weights_total. cbn [bind]. intros H. inversion H; subst; clear H.
    split; [|split; reflexivity].
    fold (qsum (fun e => mul (wget QN (map (fun e0 => (e0, w e0)) a) e) (wget QN (map (fun e0 => (e0, w e0)) b) e))
               (dedup a ++ filter (fun e => negb (memn e (dedup a))) (dedup b))).
    cbn [mul QN]. rewrite qsum_app.
    rewrite (qsum_zero _ (filter _ (dedup b))).
    2:{ intros e He. apply filter_In in He. destruct He as [_ He]. apply negb_true_iff in He.
        rewrite wget_map. destruct (memn e a) eqn:Ea; [|ring].
        apply (proj1 (memn_In e a)) in Ea. apply (proj2 (In_dedup e a)) in Ea.
        apply (proj2 (memn_In e (dedup a))) in Ea. congruence. }
    rewrite (qsum_filter _ (fun e => memn e b)).
    2:{ intros e _ Hb. rewrite (wget_map b), Hb. ring. }
    unfold common. rewrite Qplus_0_r. apply qsum_ext. intros e He. apply filter_In in He. destruct He as [Ha Hb].
    rewrite !wget_map, Hb. apply (proj1 (In_dedup e a)) in Ha. apply (proj2 (memn_In e a)) in Ha. rewrite Ha. reflexivity.
  Qed.

  Lemma cos_parts_total a b : exists n da db, cos_parts QN dist a b = Ok (n, da, db).
  Proof. unfold cos_parts. rewrite !weights_total. cbn [bind]. eauto. Qed.

  Lemma cos_parts_sym a b n da db n' da' db' :
    cos_parts QN dist a b = Ok (n, da, db) -> cos_parts QN dist b a = Ok (n', da', db') ->
    n == n' /\ da = db' /\ db = da'.
  Proof.
    intros H1 H2. destruct (numer_common _ _ _ _ _ H1) as (Hn & -> & ->).
    destruct (numer_common _ _ _ _ _ H2) as (Hn' & -> & ->).
    split; [|split; reflexivity]. rewrite Hn, Hn'. apply qsum_perm, common_perm.
  Qed.
End Weights.

(* ---------------------------------------------------------------- the comparison respects == *)
Lemma Qle_bool_compat a a' b b' : a == a' -> b == b' -> Qle_bool a b = Qle_bool a' b'.
Proof.
  intros Ha Hb. destruct (Qle_bool a b) eqn:E1, (Qle_bool a' b') eqn:E2; try reflexivity.
  - apply Qle_bool_iff in E1. rewrite Ha, Hb in E1. apply Qle_bool_iff in E1. congruence.
  - apply Qle_bool_iff in E2. rewrite <- Ha, <- Hb in E2. apply Qle_bool_iff in E2. congruence.
Qed.
Lemma Qeq_bool_compat a a' b b' : a == a' -> b == b' -> Qeq_bool a b = Qeq_bool a' b'.
Proof.
  intros Ha Hb. destruct (Qeq_bool a b) eqn:E1, (Qeq_bool a' b') eqn:E2; try reflexivity.
  - apply Qeq_bool_iff in E1. rewrite Ha, Hb in E1. apply Qeq_bool_iff in E1. congruence.
  - apply Qeq_bool_iff in E2. rewrite <- Ha, <- Hb in E2. apply Qeq_bool_iff in E2. congruence.
Qed.

Lemma cos_ge_Q_sym n n' da db thr : n == n' -> cos_ge_Q n da db thr = cos_ge_Q n' db da thr.
Proof.
  intros Hn. unfold cos_ge_Q.
  assert (Hp : da * db == db * da) by ring.
  rewrite (Qeq_bool_compat (da * db) (db * da) 0 0 Hp (Qeq_refl 0)).
  destruct (Qeq_bool (db * da) 0); [reflexivity|].
  rewrite (Qle_bool_compat 0 0 n n' (Qeq_refl 0) Hn).
  rewrite (Qle_bool_compat (n * n) (n' * n') (thr * thr * (da * db)) (thr * thr * (db * da))) by (rewrite ?Hn; ring).
  rewrite (Qle_bool_compat (thr * thr * (da * db)) (thr * thr * (db * da)) (n * n) (n' * n')) by (rewrite ?Hn; ring).
  reflexivity.
Qed.

(* ---- the similarity test over exact rationals is symmetric, for every function and threshold ---- *)
Theorem test_similarity_sym (f : simfn Q) (w : nat -> Q) a b :
  test_similarity QN cos_ge_Q f (fun e => Ok (w e)) a b = test_similarity QN cos_ge_Q f (fun e => Ok (w e)) b a.
Proof.
  destruct f as [|thr|thr]; simpl; [reflexivity| |].
  - destruct (cos_parts_total (fun _ => 1) a b) as (n & da & db & H1).
    destruct (cos_parts_total (fun _ => 1) b a) as (n' & da' & db' & H2).
    destruct (cos_parts_sym _ _ _ _ _ _ _ _ _ H1 H2) as (Hn & -> & ->).
    cbn [one QN] in *. rewrite H1, H2. cbn [bind]. f_equal. apply cos_ge_Q_sym. exact Hn.
  - destruct (cos_parts_total w a b) as (n & da & db & H1).
    destruct (cos_parts_total w b a) as (n' & da' & db' & H2).
    destruct (cos_parts_sym _ _ _ _ _ _ _ _ _ H1 H2) as (Hn & -> & ->).
    rewrite H1, H2. cbn [bind]. f_equal. apply cos_ge_Q_sym. exact Hn.
Qed.

(* never fails on a total distance function *)
Lemma test_similarity_total (f : simfn Q) (w : nat -> Q) a b :
  exists x, test_similarity QN cos_ge_Q f (fun e => Ok (w e)) a b = Ok x.
Proof.
  destruct f as [|thr|thr]; simpl; [eauto| |].
  - destruct (cos_parts_total (fun _ => 1) a b) as (n & da & db & H1). cbn [one QN]. rewrite H1. cbn [bind]. eauto.
  - destruct (cos_parts_total w a b) as (n & da & db & H1). rewrite H1. cbn [bind]. eauto.
Qed.

(* the checker's strict "more similar than the threshold" implies the code's "similar" (thresholds >= 0) *)
Lemma cos_gt_ge n da db thr : 0 <= thr -> 0 <= da * db -> cos_gt_Q n da db thr = true -> cos_ge_Q n da db thr = true.
Proof.
  intros Ht Hp. unfold cos_gt_Q, cos_ge_Q. destruct (Qeq_bool (da * db) 0); [discriminate|].
  intros H. apply andb_true_iff in H. destruct H as [H1 H2].
  apply negb_true_iff in H1, H2.
  assert (Hn : 0 < n). { apply Qnot_le_lt. intros Hle. apply Qle_bool_iff in Hle. congruence. }
  assert (Hsq : thr * thr * (da * db) * tol < n * n). { apply Qnot_le_lt. intros Hle. apply Qle_bool_iff in Hle. congruence. }
  assert (Htol : 1 <= tol) by (unfold tol; apply Qle_bool_iff; vm_compute; reflexivity).
  assert (Hq : 0 <= thr * thr * (da * db)).
  { apply Qmult_le_0_compat; [|exact Hp]. apply Qmult_le_0_compat; exact Ht. }
  assert (Hle : thr * thr * (da * db) <= n * n).
  { remember (thr * thr * (da * db)) as x. remember (n * n) as y. clear - Hsq Htol Hq. nra. }
  destruct (Qle_bool thr 0).
  - apply orb_true_iff. left. apply Qle_bool_iff. apply Qlt_le_weak, Hn.
  - apply andb_true_iff. split; apply Qle_bool_iff; [apply Qlt_le_weak, Hn | exact Hle].
Qed.

(* ---------------------------------------------------------------- only the distances of the routes' own edges matter *)
Lemma weights_ext (dist dist' : nat -> res Q) r : (forall e, In e r -> dist e = dist' e) -> weights QN dist r = weights QN dist' r.
Proof.
  induction r as [|e r IH]; simpl; intros H; [reflexivity|].
  rewrite (H e (or_introl eq_refl)), IH; [reflexivity|]. intros e' He'. apply H. right; exact He'.
Qed.
Lemma cos_parts_ext (dist dist' : nat -> res Q) a b :
  (forall e, In e a \/ In e b -> dist e = dist' e) -> cos_parts QN dist a b = cos_parts QN dist' a b.
Proof.
  intros H. unfold cos_parts.
  rewrite (weights_ext dist dist' a) by (intros e He; apply H; left; exact He).
  rewrite (weights_ext dist dist' b) by (intros e He; apply H; right; exact He). reflexivity.
Qed.
Lemma test_similarity_ext cge (f : simfn Q) (dist dist' : nat -> res Q) a b :
  (forall e, In e a \/ In e b -> dist e = dist' e) ->
  test_similarity QN cge f dist a b = test_similarity QN cge f dist' a b.
Proof. intros H. destruct f; simpl; [reflexivity | reflexivity|]. rewrite (cos_parts_ext dist dist' a b H). reflexivity. Qed.

Lemma qsum_nonneg f l : (forall e, 0 <= f e) -> 0 <= qsum f l.
Proof.
  intros H. induction l as [|x l IH]; [unfold qsum, wsum; simpl; lra|].
  rewrite qsum_cons. pose proof (H x). lra.
Qed.

Definition thr_nonneg (f : simfn Q) : Prop :=
  match f with SAcceptAll => True | SEdgeIdCosine t => 0 <= t | SDistanceCosine t => 0 <= t end.

Lemma parts_nonneg (w : nat -> Q) a b n da db : cos_parts QN (fun e => Ok (w e)) a b = Ok (n, da, db) -> 0 <= da * db.
Proof.
  intros H. destruct (numer_common w _ _ _ _ _ H) as (_ & -> & ->).
  apply Qmult_le_0_compat; apply qsum_nonneg; intros e; cbn [mul QN];
    match goal with |- 0 <= ?x * ?x => generalize x; intros y; nra end.
Qed.

(* a pair the model accepts is not "more similar than the threshold" for the checker *)
Theorem model_dissimilar_spec (f : simfn Q) (w : nat -> Q) a b : thr_nonneg f ->
  test_similarity QN cos_ge_Q f (fun e => Ok (w e)) a b = Ok false -> more_similar f w a b = false.
Proof.
  destruct f as [|thr|thr]; simpl; intros Ht H; [reflexivity| |].
  - destruct (cos_parts_total (fun _ => 1) a b) as (n & da & db & H1). cbn [one QN] in H.
    rewrite H1 in *. cbn [bind] in H. injection H as Hge.
    destruct (cos_gt_Q n da db thr) eqn:E; [|reflexivity].
    rewrite (cos_gt_ge n da db thr Ht (parts_nonneg _ _ _ _ _ _ H1) E) in Hge. discriminate.
  - destruct (cos_parts_total w a b) as (n & da & db & H1).
    rewrite H1 in *. cbn [bind] in H. injection H as Hge.
    destruct (cos_gt_Q n da db thr) eqn:E; [|reflexivity].
    rewrite (cos_gt_ge n da db thr Ht (parts_nonneg _ _ _ _ _ _ H1) E) in Hge. discriminate.
Qed.
