(* C13, Yen's algorithm (Ksp.yens_run, a faithful transcription of yens_algorithm.rs).
   Outside the known-finding class K = (k >= 2) the driver returns exactly the underlying search's route.
   Inside K the faithful model exhibits, on concrete networks (exact rationals, vm_compute):
     - the panic on `prev_accepted_path.len() - 2` for a one-edge shortest path,
     - a query on which the `while` loop never ends, for EVERY amount of fuel (each pass leaves `accepted` unchanged),
     - a result with the same route twice and more routes than k. *)
From Coq Require Import List Arith Bool Lia QArith String.
From stdpp Require Import gmap.
From RC Require Import Base.Res Base.Num Model.Search Model.SearchSpec Model.SearchRun Model.Ksp Model.KspSpec Model.KspRun.
Import ListNotations.
Import Search SearchSpec Ksp.

Section Yen.
  Context {C St : Type}.
  Variable clt : C -> C -> bool.
  Variable cadd : C -> C -> C.
  Variable czero : C.
  Variable cfloor : C -> C.
  Variable g : graph.
  Variable search : dir -> nat -> nat -> res (sresult C St).
  Variable spur_search : list nat -> nat -> nat -> res (sresult C St).
  Variable sim : list nat -> list nat -> res bool.

  Notation yens_run := (yens_run clt cadd czero cfloor g search spur_search sim).
  Notation yen_loop := (yen_loop clt cadd czero cfloor g spur_search sim).
  Notation yen_spurs := (yen_spurs clt cadd czero cfloor g spur_search sim).

  (* ---- outside K: k < 2 ---- *)
  Theorem yens_outside_K fuel k term s t : ~ (2 <= k) ->
    yens_run (S fuel) k term s t =
    (do sh <- search Forward s t;
     match r_routes sh with
     | [] => Ok (mkR [] [] 0)
     | sp :: _ => Ok (mkR (r_trees sh) [sp] 1)
     end).
  Proof.
    intros Hk. unfold Ksp.yens_run. destruct (search Forward s t) as [sh| | |]; cbn [bind]; try reflexivity.
    destruct (r_routes sh) as [|sp rest]; [reflexivity|]. simpl.
    assert (E : Nat.ltb 1 k = false) by (apply Nat.ltb_ge; lia). rewrite E. reflexivity.
  Qed.

  (* with k = 1 the answer is the underlying search's answer: one route, the least-cost one it found *)
  Corollary yens_k1 fuel term s t sh tree route :
    search Forward s t = Ok sh -> r_trees sh = [tree] -> r_routes sh = [route] ->
    yens_run (S fuel) 1 term s t = Ok (mkR [tree] [route] 1).
  Proof.
    intros Hs Ht Hr. rewrite yens_outside_K by lia. rewrite Hs. cbn [bind]. rewrite Hr, Ht. reflexivity.
  Qed.

  (* ---- inside K: the loop is stuck as soon as one pass over the spur indices leaves `accepted` unchanged ---- *)
  Definition shift (it : nat) (r : res (list (list (etrav C St)) * option (list (etrav C St) * C) * nat)) :=
    match r with
    | Ok (a, b, i) => Ok (a, b, i + it)
    | Err c => Err c
    | Panic w => Panic w
    | OutOfFuel => OutOfFuel
    end.

  (* the iteration counter does not influence anything else *)
  Lemma yen_spurs_shift idxs : forall t prev acc best it,
    yen_spurs idxs t prev acc best it = shift it (yen_spurs idxs t prev acc best 0).
  Proof.
    induction idxs as [|i rest IH]; intros t prev acc best it; simpl; [reflexivity|].
    destruct (last (firstn (S i) prev)) as [se|]; [|reflexivity].
    destruct (get_edge g (et_edge se)) as [ed|]; [|reflexivity].
    destruct (spur_search _ (edst ed) t) as [sr| | |]; cbn [bind]; try reflexivity.
    destruct (r_routes sr) as [|sp rs]; [reflexivity|].
    destruct (yen_update clt cadd czero cfloor sim _ acc best) as [best'| | |]; cbn [bind]; try reflexivity.
    rewrite (IH t prev _ best' (S it)), (IH t prev _ best' 1).
    destruct (Ksp.yen_spurs clt cadd czero cfloor g spur_search sim rest t prev _ best' 0) as [[[a b] n]| | |]; simpl; try reflexivity.
    f_equal. f_equal. lia.
  Qed.

  Lemma yen_loop_stuck k term t acc prev b n :
    length acc < k -> terminate_search term k (length acc) = false ->
    last acc = Some prev -> 2 <= length prev ->
    yen_spurs (seq 0 (length prev - 2)) t prev acc None 0 = Ok (acc, b, n) ->
    forall fuel it, yen_loop fuel k term t acc it = OutOfFuel.
  Proof.
    intros Hlen Hterm Hlast Hprev Hpass. induction fuel as [|f IH]; intros it; [reflexivity|]. simpl.
    assert (E1 : Nat.ltb (length acc) k = true) by (apply Nat.ltb_lt; exact Hlen). rewrite E1, Hterm, Hlast. simpl.
    assert (E2 : Nat.ltb (length prev) 2 = false) by (apply Nat.ltb_ge; exact Hprev). rewrite E2.
    rewrite yen_spurs_shift, Hpass. simpl. apply IH.
  Qed.

  (* one pass of the `while` body that does not end the loop *)
  Lemma yen_loop_step k term t acc prev acc' b n f it :
    length acc < k -> terminate_search term k (length acc) = false ->
    last acc = Some prev -> 2 <= length prev ->
    yen_spurs (seq 0 (length prev - 2)) t prev acc None 0 = Ok (acc', b, n) ->
    yen_loop (S f) k term t acc it = yen_loop f k term t acc' (n + it).
  Proof.
    intros Hlen Hterm Hlast Hprev Hpass. simpl.
    assert (E1 : Nat.ltb (length acc) k = true) by (apply Nat.ltb_lt; exact Hlen). rewrite E1, Hterm, Hlast. simpl.
    assert (E2 : Nat.ltb (length prev) 2 = false) by (apply Nat.ltb_ge; exact Hprev). rewrite E2.
    rewrite yen_spurs_shift, Hpass. reflexivity.
  Qed.

  Lemma yens_unfold fuel k term s t sh sp rest :
    search Forward s t = Ok sh -> r_routes sh = sp :: rest ->
    yens_run fuel k term s t =
    (do r <- yen_loop fuel k term t [sp] 1; let '(accepted, iters) := r in Ok (mkR (r_trees sh) accepted iters)).
  Proof. intros Hs Hr. unfold Ksp.yens_run. rewrite Hs. cbn [bind]. rewrite Hr. reflexivity. Qed.
End Yen.

(* ---------------------------------------------------------------- witnesses (exact rationals) *)
Import SR KR.
Local Open Scope Q_scope.

Definition yq (k s t : nat) : kq QN :=
  mkKQ QN KYens (ADijkstra QN) None k QKAbsent KExact SAcceptAll s (Some t).

(* Yen's driver on a world, underlying Dijkstra, default similarity and termination, explicit fuel for its `while` *)
Definition yens_on (w : world QN) (k s t : nat) (fuel : nat) : res (sresult Q Q) :=
  Ksp.yens_run (C:=Q) (St:=Q) Qltb Qplus 0 (pos QN) (graph_of QN w)
    (search QN 1000 w (yq k s t)) (spur_search QN 1000 w (yq k s t))
    (sim_of QN cos_ge_Q w SAcceptAll) fuel k KExact s t.

Definition mkworld (n : nat) (edges : list (nat * nat)) (cost : list Q) : world QN :=
  mkW QN n edges cost [] [] [] [] [] [] TUnlimited 0.

(* the D-ACCEPTALL diamond: 0>1>3 (1+1), 0>2>3 (2+2), 0>3 (10) *)
Definition w_diamond := mkworld 4 [(0,1);(1,3);(0,2);(2,3);(0,3)]%nat [1;1;2;2;10].
(* 0>1>2>3 (1 each), 0>2 (5), 1>3 (5), 0>3 (20) *)
Definition w_three := mkworld 4 [(0,1);(1,2);(2,3);(0,2);(1,3);(0,3)]%nat [1;1;1;5;5;20].
(* 0>1>2>3>4, a cheap exit 1>4 and an expensive exit 2>4 *)
Definition w_exits := mkworld 5 [(0,1);(1,2);(2,3);(3,4);(1,4);(2,4)]%nat [1; 5#4; 3#2; 7#4; 5; 10].

Definition is_panic {A} (r : res A) : bool := match r with Panic _ => true | _ => false end.
Definition route_ids (r : res (sresult Q Q)) : option (list (list nat)) :=
  match r with Ok x => Some (map (map (@et_edge Q Q)) (r_routes x)) | _ => None end.

(* one-edge shortest path, k = 2: usize underflow, for every amount of fuel *)
Theorem yens_K_witness_panic : forall fuel, is_panic (yens_on w_diamond 2 0 1 (S fuel)) = true.
Proof. intros fuel. vm_compute. reflexivity. Qed.

(* two-edge shortest path, k = 2: there is no spur index at all, `accepted` never grows, the loop never ends *)
Theorem yens_K_witness_hang : forall fuel, yens_on w_diamond 2 0 3 fuel = OutOfFuel.
Proof.
  intros fuel. unfold yens_on.
  erewrite (yens_unfold Qltb Qplus 0 (pos QN) (graph_of QN w_diamond) (search QN 1000 w_diamond (yq 2 0 3)));
    [|vm_compute; reflexivity|vm_compute; reflexivity].
  erewrite yen_loop_stuck; [reflexivity | simpl; lia | reflexivity | reflexivity | simpl; lia | vm_compute; reflexivity].
Qed.

(* three-edge shortest path, k = 3: the first pass accepts 0>1>3, a two-edge route; from then on as above *)
Theorem yens_K_witness_hang3 : forall fuel, yens_on w_three 3 0 3 fuel = OutOfFuel.
Proof.
  intros fuel. unfold yens_on.
  erewrite (yens_unfold Qltb Qplus 0 (pos QN) (graph_of QN w_three) (search QN 1000 w_three (yq 3 0 3)));
    [|vm_compute; reflexivity|vm_compute; reflexivity].
  destruct fuel as [|f]; [reflexivity|].
  erewrite yen_loop_step; [|simpl; lia | reflexivity | reflexivity | simpl; lia | vm_compute; reflexivity].
  erewrite yen_loop_stuck; [reflexivity | simpl; lia | reflexivity | reflexivity | simpl; lia | vm_compute; reflexivity].
Qed.

(* the best candidate is pushed once per spur index: the same route twice, and 3 routes for k = 2 *)
Theorem yens_K_witness_duplicate :
  route_ids (yens_on w_exits 3 0 4 10) = Some [[0;1;2;3]; [0;4]; [0;4]]%nat
  /\ route_ids (yens_on w_exits 2 0 4 10) = Some [[0;1;2;3]; [0;4]; [0;4]]%nat.
Proof. split; vm_compute; reflexivity. Qed.
