(* LINK 2: concrete instances (non-vacuity) for Props/Links2.v.

   Reopen : Model/FrontierReopen.v's D-REOPEN network (the one of Props/Termination.v's example): turn-restriction
            frontier model, inconsistent estimate; the run re-opens a vertex.
   Dia    : the D-ACCEPTALL diamond 0>1>3 (1+1), 0>2>3 (2+2), 0>3 (10, closed by the frontier model) over nat costs, with a
            query-dependent weight factor, the cosine similarity function over exact rationals, Ksp.pop_min as the pop order;
            used for single-via, Yen and for whole batches through PL.run. *)
From Coq Require Import ZArith QArith String List Bool Arith Lia Permutation.
From stdpp Require Import gmap.
From RC Require Import Base.Res Base.Num Base.Json Model.Search Model.Reach Model.FrontierReopen Model.Ksp Model.Pipeline
  Proofs.ReachSet Proofs.ReachInv Proofs.ReachCost Proofs.TermReopen Proofs.KspConcrete Proofs.KspYen
  Proofs.Pipeline Proofs.PipelineAnswers Proofs.Link2Search Proofs.Link2Ksp Proofs.Link2Pipeline.
Import ListNotations.

Module Link2ExampleP.
Import Search ReachInvP TermReopenP Link2SearchP Link2KspP Link2PipelineP.
Local Open Scope nat_scope.
Local Open Scope list_scope.

Lemma ltb_asym a b : Nat.ltb a b = true -> Nat.ltb b a = false.
Proof. rewrite Nat.ltb_lt, Nat.ltb_ge. lia. Qed.
Lemma ltb_letrans a b c : Nat.ltb b a = false -> Nat.ltb c b = false -> Nat.ltb c a = false.
Proof. rewrite !Nat.ltb_ge. lia. Qed.

Lemma pop_min_shortens {C} (clt : C -> C -> bool) q v c q' :
  Ksp.pop_min clt q = Some (v, c, q') -> List.length q' < List.length q.
Proof. intros H. apply pop_min_perm in H. apply Permutation_length in H. simpl in H. lia. Qed.

(* ================================================================== the re-opening network *)
Module Reopen.
  Import FrontierReopen.
  Definition g5 := Witness.graph5.
  Definition vertex := @run_vertex_oriented nat nat Nat.ltb Nat.add 0 (fun c => c) g5 Witness.frontier Witness.traverse
                         Witness.estimate Witness.init_state Witness.terminate.
  Definition frontier1 (e : nat) (st : nat) (prev : option nat) : res bool := Ok true.
  Definition vertex1 := @run_vertex_oriented nat nat Nat.ltb Nat.add 0 (fun c => c) g5 frontier1 Witness.traverse
                          Witness.estimate Witness.init_state Witness.terminate.
  Definition edge (fuel : nat) (d : dir) := run_edge_oriented 0 g5 Witness.traverse Witness.init_state d (vertex1 fuel d).

  Lemma wf_g5 : wf_graph g5.
  Proof. intros e Hin. simpl in Hin. repeat (destruct Hin as [<-|Hin]; [simpl; lia|]). destruct Hin. Qed.
  Lemma loc5 : forall dd e prev st ac tc st', Witness.traverse dd e prev st = Ok (ac, tc, st') -> (fun c : nat => c) (ac + tc) = Witness.cost e.
  Proof. intros dd e prev st ac tc st' [= <- <- _]. reflexivity. Qed.
  Lemma infl5 : forall dd e prev st ac tc st' a, Witness.traverse dd e prev st = Ok (ac, tc, st') -> Nat.ltb (a + (fun c : nat => c) (ac + tc)) a = false.
  Proof. intros. apply Nat.ltb_ge. lia. Qed.

  (* every hypothesis of run_vertex_oriented_never_crashes holds: the theorem applies for every direction, source,
     destination option (in the graph or not) and fuel >= 1297 *)
  Lemma vertex_instance : forall fuel d source target, fuel_bound g5 <= fuel -> crashes (vertex fuel d source target) = false.
  Proof.
    intros fuel d source target Hf.
    apply (run_vertex_oriented_never_crashes Nat.ltb Nat.add 0 (fun c => c) g5 Witness.frontier Witness.traverse Witness.estimate
             Witness.init_state Witness.terminate d Witness.cost wf_g5 ltb_asym ltb_letrans (loc5 d) (infl5 d)); auto.
    intros e st [p|]; reflexivity.
  Qed.
  Lemma vertex1_instance : forall fuel d source target, fuel_bound g5 <= fuel -> crashes (vertex1 fuel d source target) = false.
  Proof.
    intros fuel d source target Hf.
    apply (run_vertex_oriented_never_crashes Nat.ltb Nat.add 0 (fun c => c) g5 frontier1 Witness.traverse Witness.estimate
             Witness.init_state Witness.terminate d Witness.cost wf_g5 ltb_asym ltb_letrans (loc5 d) (infl5 d)); auto.
  Qed.
  Lemma edge_instance : forall fuel d source target, fuel_bound g5 <= fuel -> crashes (edge fuel d source target) = false.
  Proof.
    intros fuel d source target Hf. apply run_edge_oriented_never_crashes; auto.
    intros s t. apply vertex1_instance, Hf.
  Qed.

  (* what the runs are: a route found with a re-opened vertex, a destination outside the graph, a source outside the
     graph, the turn restriction closing the only way; and the fuel premise is needed (a smaller fuel is cut off) *)
  Lemma vertex_runs :
    fuel_bound g5 = 1297
    /\ rmap (fun r => map (map (@et_edge nat nat)) (r_routes r)) (vertex1 1297 Forward 0 (Some 4)) = Ok [[1; 2; 3; 4]]
    /\ vertex 1297 Forward 0 (Some 9) = Err "nopath"%string
    /\ vertex 1297 Forward 7 None = Err "graph: unknown vertex"%string
    /\ vertex 1297 Reverse 0 (Some 4) = Err "nopath"%string
    /\ crashes (vertex1 5 Forward 0 (Some 4)) = true.
  Proof. repeat (split; [vm_compute; reflexivity|]). vm_compute. reflexivity. Qed.
  Lemma edge_runs :
    rmap (fun r => map (map (@et_edge nat nat)) (r_routes r)) (edge 1297 Forward 1 (Some 4)) = Ok [[1; 2; 3; 4]]
    /\ rmap (fun r => map (map (@et_edge nat nat)) (r_routes r)) (edge 1297 Forward 3 (Some 4)) = Ok [[3; 4]]
    /\ edge 1297 Forward 9 None = Err "graph: unknown edge"%string.
  Proof. repeat (split; [vm_compute; reflexivity|]). vm_compute. reflexivity. Qed.
End Reopen.

(* ================================================================== the diamond *)
Module Dia.
  Import PL.
  Definition dg : graph := mkGraph 4 [mkEdge 0 1; mkEdge 1 3; mkEdge 0 2; mkEdge 2 3; mkEdge 0 3].
  Definition dcost (e : nat) : nat := nth e [1; 1; 2; 2; 10] 0.
  Definition dfrontier (e : nat) (st : nat) (prev : option nat) : res bool := Ok (negb (Nat.eqb e 4)).
  Definition dtraverse (d : dir) (e : nat) (prev : option nat) (st : nat) : res (nat * nat * nat) :=
    Ok (0, dcost e, st + dcost e).
  (* the weight factor: dijkstra 0, otherwise 1, overridden by an integer "weight_factor" of the query *)
  Definition dwfactor (alg : algorithm) (q : json) : res nat :=
    match jget q "weight_factor"%string with
    | None => Ok (match alg with Dijkstra => 0 | _ => 1 end)
    | Some (JInt z) => Ok (Z.to_nat z)
    | Some _ => Err "build: weight_factor must be a number"%string
    end.
  (* an estimate that fails on an unknown destination and is not consistent (vertex 2 is over-estimated) *)
  Definition destimate (w : nat) (a b : nat) (st : nat) : res nat :=
    if Nat.ltb b 4 then Ok (w * nth a [0; 0; 3; 0] 0) else Err "graph: unknown vertex"%string.
  Definition dinit : res nat := Ok 0.
  Definition dterminate (size iters : nat) : option string := None.
  (* EdgeCutFrontierModel around the frontier model, underlying Dijkstra *)
  Definition dspur (q : json) (cut : list nat) (s t : nat) : res (sresult nat nat) :=
    run_vertex_oriented Nat.ltb Nat.add 0 (fun c => c) dg
      (fun e st prev => if Ksp.memn e cut then Ok false else dfrontier e st prev) dtraverse (destimate 0) dinit dterminate
      (fuel_bound dg) Forward s (Some t).
  (* RouteSimilarityFunction::EdgeIdCosineSimilarity { threshold: 0.9 } over exact rationals *)
  Definition dsim : list nat -> list nat -> res bool :=
    Ksp.test_similarity QN Ksp.cos_ge_Q (Ksp.SEdgeIdCosine (9 # 10)%Q) (fun e => Ok 1%Q).
  Definition dpick := Ksp.pop_min (C := nat) Nat.ltb.

  Definition search (edge_oriented : bool) (yfuel : nat) :=
    model_search (C := nat) (St := nat) (W := nat) Nat.ltb Nat.add 0 (fun c => c) dg dfrontier dtraverse dwfactor destimate
      dinit dterminate dspur dsim dpick Ksp.KExact Forward edge_oriented (fuel_bound dg) yfuel.
  Definition shortest (edge_oriented : bool) (yfuel : nat) :=
    model_shortest (C := nat) (St := nat) (W := nat) Nat.ltb Nat.add 0 (fun c => c) dg dfrontier dtraverse dwfactor destimate
      dinit dterminate dspur dsim dpick Ksp.KExact Forward edge_oriented (fuel_bound dg) yfuel.

  Lemma wf_dg : wf_graph dg.
  Proof. intros e Hin. simpl in Hin. repeat (destruct Hin as [<-|Hin]; [simpl; lia|]). destruct Hin. Qed.
  Lemma dloc : forall dd e prev st ac tc st', dtraverse dd e prev st = Ok (ac, tc, st') -> (fun c : nat => c) (ac + tc) = dcost e.
  Proof. intros dd e prev st ac tc st' [= <- <- _]. reflexivity. Qed.
  Lemma dinfl : forall dd e prev st ac tc st' a, dtraverse dd e prev st = Ok (ac, tc, st') -> Nat.ltb (a + (fun c : nat => c) (ac + tc)) a = false.
  Proof. intros. apply Nat.ltb_ge. lia. Qed.
  Lemma dwfactor_ok alg q : crashes (dwfactor alg q) = false.
  Proof. unfold dwfactor. destruct (jget q "weight_factor"%string) as [[]|]; reflexivity. Qed.
  Lemma destimate_ok w a b st : crashes (destimate w a b st) = false.
  Proof. unfold destimate. destruct (Nat.ltb b 4); reflexivity. Qed.
  Lemma dsim_ok a b : crashes (dsim a b) = false.
  Proof. apply test_similarity_never_crashes. intros e. reflexivity. Qed.

  (* the search component never crashes outside K, for every query JSON, orientation and Yen fuel >= 1 *)
  Lemma search_instance eo yfuel alg q : 1 <= yfuel -> K_yens_k_ge_2 alg q = false -> crashes (search eo yfuel alg q) = false.
  Proof.
    intros Hy HK.
    apply (model_search_never_crashes Nat.ltb Nat.add 0 (fun c => c) dg dfrontier dtraverse dwfactor destimate dinit dterminate
             dspur dsim dpick Ksp.KExact Forward eo (fuel_bound dg) yfuel (fun _ => dcost) wf_dg ltb_asym ltb_letrans dloc dinfl);
      auto using dwfactor_ok, destimate_ok, dsim_ok.
    apply pop_min_shortens.
  Qed.

  Definition ids (r : res (sresult nat nat)) : res (list (list nat)) := rmap (fun x => map (map (@et_edge nat nat)) (r_routes x)) r.
  Definition vq (s t : Z) (extra : list (string * json)) : json :=
    JObj ([("origin_vertex"%string, JInt s); ("destination_vertex"%string, JInt t); ("w"%string, JInt 1)] ++ extra).

  (* single-via k = 3 finds both lanes; the query's k = 1 keeps one; a* with the inconsistent estimate and dijkstra agree
     here; Yen with k = 1; errors are Err, never crashes *)
  Lemma search_runs :
    ids (search false 5 (SingleVia 3) (vq 0 3 [])) = Ok [[0; 1]; [2; 3]]
    /\ ids (search false 5 (SingleVia 3) (vq 0 3 [("k"%string, JInt 1)])) = Ok [[0; 1]]
    /\ ids (search false 5 AStar (vq 0 3 [])) = Ok [[0; 1]]
    /\ ids (search false 5 Dijkstra (vq 0 3 [("weight_factor"%string, JInt 7)])) = Ok [[0; 1]]
    /\ ids (search false 5 (Yens 1) (vq 0 3 [])) = Ok [[0; 1]]
    /\ ids (search false 5 (Yens 7) (vq 0 3 [("k"%string, JInt 0)])) = Ok [[0; 1]]
    /\ search false 5 AStar (vq 0 9 []) = Err "graph: unknown vertex"%string
    /\ search false 5 (SingleVia 3) (JObj [("origin_vertex"%string, JInt 0)]) = Err "build: attempting to run KSP algorithm without destination"%string
    /\ search false 5 Dijkstra (JObj [("destination_vertex"%string, JInt 0)]) = Err "MissingExpectedQueryField"%string
    /\ search false 5 AStar (vq 0 3 [("weight_factor"%string, JStr "fast")]) = Err "build: weight_factor must be a number"%string
    /\ ids (search true 5 (SingleVia 2) (JObj [("origin_edge"%string, JInt 0); ("destination_edge"%string, JInt 1)])) = Ok [[0; 1]].
  Proof. repeat (split; [vm_compute; reflexivity|]). vm_compute. reflexivity. Qed.

  (* inside K the same dispatch does crash: a one-edge shortest route panics for every fuel, a two-edge one never returns *)
  Lemma search_K_panics : forall yfuel, exists w, search false (S yfuel) (Yens 2) (vq 0 1 []) = Panic w.
  Proof. intros yfuel. eexists. vm_compute. reflexivity. Qed.
  Lemma search_K_panics_k_from_query : forall yfuel, exists w,
    K_yens_k_ge_2 (Yens 1) (vq 0 1 [("k"%string, JInt 2)]) = true
    /\ search false (S yfuel) (Yens 1) (vq 0 1 [("k"%string, JInt 2)]) = Panic w.
  Proof. intros yfuel. eexists. split; vm_compute; reflexivity. Qed.

  (* ---- whole batches through CompassApp::run ---- *)
  Definition batch : list json :=
    [ vq 0 3 [];
      vq 0 9 [];                                                          (* unknown destination: error response *)
      JInt 5;                                                             (* not an object: error response *)
      vq 0 3 [("grid_search"%string, JObj [("k"%string, JArr [JInt 1; JInt 2; JInt 3])])];   (* expands to three queries *)
      JObj [("origin_vertex"%string, JInt 0); ("destination_vertex"%string, JInt 3)] ].      (* no weight: error response *)
  Definition batch_yens : list json :=
    [ vq 0 3 []; vq 0 1 []; vq 0 9 []; JInt 5;
      vq 0 3 [("grid_search"%string, JObj [("k"%string, JArr [JInt 0; JInt 1])])] ].
  Definition run_on (persist : bool) (par_app par_run : nat) alg (b : list json) :=
    run zw (sresult nat nat) ex_plugins (search false 5 alg) [] (fun j => Ok j) par_app par_run persist b.

  Lemma batch_runs : rmap (@List.length json) (run_on true 2 3 (SingleVia 2) batch) = Ok 7.
  Proof. vm_compute. reflexivity. Qed.

  (* the premise of the Yens statement: every query of batch_yens that reaches the search has effective k < 2 *)
  Lemma batch_yens_outside_K : forall q', reaches ex_plugins batch_yens q' -> K_yens_k_ge_2 (Yens 1) q' = false.
  Proof.
    intros q' (q & qs & Hq & Hap & Hin). simpl in Hq.
    repeat (destruct Hq as [<-|Hq];
            [vm_compute in Hap; try discriminate; inversion Hap; subst qs; simpl in Hin;
             repeat (destruct Hin as [<-|Hin]; [vm_compute; reflexivity|]); destruct Hin|]).
    destruct Hq.
  Qed.
  Lemma batch_yens_runs : rmap (@List.length json) (run_on true 2 3 (Yens 1) batch_yens) = Ok 6.
  Proof. vm_compute. reflexivity. Qed.
  (* ... and one query inside K makes the whole call panic: the premise cannot be dropped *)
  Lemma batch_K_panics : exists w, run_on true 2 3 (Yens 1) [vq 0 1 [("k"%string, JInt 2)]] = Panic w.
  Proof. eexists. vm_compute. reflexivity. Qed.
End Dia.

End Link2ExampleP.
