(* LINK 2, part 2 (C12 <- C13, Termination): the k-shortest-paths drivers of Model/Ksp.v never crash
   (outside the known-finding class K_yens_k_ge_2).

     sv_run_never_crashes         Ksp.sv_run over ANY underlying search whose two calls (forward s->t, reverse t->s)
                                  return Ok or Err: every k, termination criterion, similarity function that returns,
                                  every pop of the intersection queue that shortens the queue.  No tree invariant is
                                  needed: backtracking never runs out of fuel on any tree (Link2Search).
     test_similarity_never_crashes  the concrete RouteSimilarityFunction for every simfn, numeric instance, comparison
     single_via_never_crashes     ... with the underlying search = Search.run_vertex_oriented (Dijkstra / A-star)
     yens_outside_K_never_crashes Ksp.yens_run with k < 2 and loop fuel >= 1
     yens_crashes_only_in_K       the complement: a crash of Yen's driver (benign underlying search) implies k >= 2
     ksp_vertex_never_crashes     SearchAlgorithm::{KspSingleVia, Yens}::run_vertex_oriented, destination optional *)
From Coq Require Import List Arith Bool String Lia.
From stdpp Require Import gmap.
From RC Require Import Base.Res Base.Num Model.Search Model.Reach Model.Ksp
  Proofs.ReachSet Proofs.ReachInv Proofs.ReachCost Proofs.TermReopen Proofs.KspYen Proofs.Link2Search.
Import ListNotations.

Module Link2KspP.
Import Search Reach ReachSetP ReachInvP TermReopenP Ksp Link2SearchP.

(* ---------------------------------------------------------------- the similarity function *)
Section Sim.
  Variable N : Num.
  Variable cos_ge : N -> N -> N -> N -> bool.
  Variable dist : nat -> res N.
  Hypothesis Hdist : forall e, crashes (dist e) = false.

  Lemma weights_never_crashes (dd : nat -> res N) (Hdd : forall e, crashes (dd e) = false) r :
    crashes (weights N dd r) = false.
  Proof.
    induction r as [|e r IH]; simpl; [reflexivity|].
    apply cr_bind; [apply Hdd|]. intros x _. apply cr_bind; [exact IH|]. intros m _. reflexivity.
  Qed.
  Lemma cos_parts_never_crashes (dd : nat -> res N) (Hdd : forall e, crashes (dd e) = false) a b :
    crashes (cos_parts N dd a b) = false.
  Proof.
    unfold cos_parts. apply cr_bind; [apply weights_never_crashes, Hdd|]. intros ma _.
    apply cr_bind; [apply weights_never_crashes, Hdd|]. intros mb _. reflexivity.
  Qed.
  Theorem test_similarity_never_crashes (f : simfn N) a b : crashes (test_similarity N cos_ge f dist a b) = false.
  Proof.
    destruct f as [|thr|thr]; simpl; [reflexivity| |].
    - apply cr_bind; [apply cos_parts_never_crashes; intros; reflexivity|]. intros [[n da] db] _. reflexivity.
    - apply cr_bind; [apply cos_parts_never_crashes, Hdist|]. intros [[n da] db] _. reflexivity.
  Qed.
End Sim.

(* ---------------------------------------------------------------- single-via over any underlying search *)
Section SingleVia.
  Context {C St : Type}.
  Variable cadd : C -> C -> C.
  Variable cfloor : C -> C.
  Variable g : graph.
  Variable traverse_fwd : nat -> option nat -> St -> res (C * C * St).
  Variable init_state : res St.
  Variable search : dir -> nat -> nat -> res (sresult C St).
  Variable sim : list nat -> list nat -> res bool.
  Variable pick : list (nat * C) -> option (nat * C * list (nat * C)).

  Hypothesis Htf : forall e prev st, crashes (traverse_fwd e prev st) = false.
  Hypothesis Hinit : crashes init_state = false.
  Hypothesis Hsim : forall a b, crashes (sim a b) = false.
  (* ANY pop order: the only requirement is that a pop shortens the queue *)
  Hypothesis Hpick : forall q v c q', pick q = Some (v, c, q') -> List.length q' < List.length q.

  Notation route := (list (etrav C St)).
  Notation retraverse := (retraverse traverse_fwd).
  Notation reorient_reverse_route := (reorient_reverse_route traverse_fwd init_state).
  Notation candidate := (candidate traverse_fwd init_state).
  Notation rejected_by := (rejected_by sim).
  Notation sv_loop := (sv_loop g traverse_fwd init_state sim pick).
  Notation sv_run := (sv_run cadd cfloor g traverse_fwd init_state search sim pick).

  Lemma retraverse_never_crashes es : forall prev acc, crashes (retraverse es prev acc) = false.
  Proof.
    induction es as [|e r IH]; intros prev acc; simpl; [reflexivity|].
    apply cr_bind; [apply Htf|]. intros [[ac tc] st'] _.
    apply cr_bind; [apply IH|]. intros rest _. reflexivity.
  Qed.
  Lemma reorient_never_crashes (fwd rv : route) : crashes (reorient_reverse_route fwd rv) = false.
  Proof.
    unfold Ksp.reorient_reverse_route. apply cr_bind.
    - destruct (last fwd); [reflexivity|]. apply cr_bind; [exact Hinit|]. intros i _. reflexivity.
    - intros [fe acc] _. apply retraverse_never_crashes.
  Qed.
  Lemma candidate_never_crashes s t tf tr v : crashes (candidate s t tf tr v) = false.
  Proof.
    unfold Ksp.candidate. apply cr_bind; [apply backtrack_never_crashes|]. intros fr _.
    apply cr_bind; [apply backtrack_never_crashes|]. intros rb _.
    apply cr_bind; [apply reorient_never_crashes|]. intros rr _. reflexivity.
  Qed.
  Lemma src_vertices_never_crashes r : crashes (src_vertices g r) = false.
  Proof.
    induction r as [|e r IH]; simpl; [reflexivity|]. destruct (get_edge g e); [|reflexivity].
    apply cr_bind; [exact IH|]. intros l _. reflexivity.
  Qed.
  Lemma route_contains_loop_never_crashes r : crashes (route_contains_loop g r) = false.
  Proof. unfold route_contains_loop. apply cr_bind; [apply src_vertices_never_crashes|]. intros l _. reflexivity. Qed.
  Lemma rejected_by_never_crashes (this : route) sol : crashes (rejected_by this sol) = false.
  Proof.
    induction sol as [|sr rest IH]; simpl; [reflexivity|].
    apply cr_bind; [apply Hsim|]. intros too _. destruct (_ || too); [reflexivity|exact IH].
  Qed.

  Lemma sv_loop_never_crashes k term s t tf tr : forall fuel q sol it, List.length q < fuel ->
    crashes (sv_loop fuel k term s t tf tr q sol it) = false.
  Proof.
    induction fuel as [|f IH]; intros q sol it Hf; [lia|]. simpl.
    destruct (terminate_search term k (List.length sol)); [reflexivity|].
    destruct (pick q) as [[[v c] q']|] eqn:Hp; [|reflexivity].
    apply cr_bind; [apply candidate_never_crashes|]. intros this _.
    apply cr_bind; [apply route_contains_loop_never_crashes|]. intros lp _.
    apply cr_bind; [apply rejected_by_never_crashes|]. intros rej _.
    apply IH. pose proof (Hpick _ _ _ _ Hp). lia.
  Qed.

  (* the driver returns whenever its two underlying searches do *)
  Theorem sv_run_never_crashes k term s t :
    crashes (search Forward s t) = false -> crashes (search Reverse t s) = false ->
    crashes (sv_run k term s t) = false.
  Proof.
    intros Hf Hr. unfold Ksp.sv_run.
    apply cr_bind; [exact Hf|]. intros rf _. apply cr_bind; [exact Hr|]. intros rr _.
    destruct (r_trees rf) as [|tf [|? ?]]; try reflexivity.
    destruct (r_trees rr) as [|tr [|? ?]]; try reflexivity.
    apply cr_bind; [apply backtrack_never_crashes|]. intros tsp _.
    apply cr_bind; [apply sv_loop_never_crashes; lia|]. intros [sol it] _. reflexivity.
  Qed.
End SingleVia.

(* ---------------------------------------------------------------- Yen's driver: crash <-> class K *)
Section Yens.
  Context {C St : Type}.
  Variable clt : C -> C -> bool.
  Variable cadd : C -> C -> C.
  Variable czero : C.
  Variable cfloor : C -> C.
  Variable g : graph.
  Variable search : dir -> nat -> nat -> res (sresult C St).
  Variable spur_search : list nat -> nat -> nat -> res (sresult C St).
  Variable sim : list nat -> list nat -> res bool.
  Notation yens_run := (yens_run clt cadd czero cfloor g search spur_search sim).

  (* outside K (k < 2) no spur search is ever started: nothing is assumed about spur_search or sim *)
  Theorem yens_outside_K_never_crashes fuel k term s t : 1 <= fuel -> ~ (2 <= k) ->
    crashes (search Forward s t) = false -> crashes (yens_run fuel k term s t) = false.
  Proof.
    intros Hf Hk Hs. destruct fuel as [|f]; [lia|].
    rewrite (yens_outside_K clt cadd czero cfloor g search spur_search sim f k term s t Hk).
    apply cr_bind; [exact Hs|]. intros sh _. destruct (r_routes sh); reflexivity.
  Qed.

  (* the complement: with a benign underlying search and at least one unit of loop fuel, a crash puts the query in K *)
  Theorem yens_crashes_only_in_K fuel k term s t : 1 <= fuel -> crashes (search Forward s t) = false ->
    crashes (yens_run fuel k term s t) = true -> 2 <= k.
  Proof.
    intros Hf Hs Hc. destruct (le_lt_dec 2 k) as [H|H]; [exact H|].
    rewrite yens_outside_K_never_crashes in Hc; [discriminate|exact Hf|lia|exact Hs].
  Qed.
End Yens.

(* ---------------------------------------------------------------- SearchAlgorithm::{KspSingleVia, Yens}::run_vertex_oriented *)
(* destination optional, k from the query or the configuration.  The effective k is [ksp_query_k k_cfg qk];
   class K = Yens with effective k >= 2. *)
Definition in_K (alg : kalg) (k_cfg : nat) (qk : query_k) : Prop :=
  alg = KYens /\ exists k, ksp_query_k k_cfg qk = Ok k /\ 2 <= k.

Section KspAny.
  Context {C St : Type}.
  Variable clt : C -> C -> bool.
  Variable cadd : C -> C -> C.
  Variable czero : C.
  Variable cfloor : C -> C.
  Variable g : graph.
  Variable traverse_fwd : nat -> option nat -> St -> res (C * C * St).
  Variable init_state : res St.
  Variable search : dir -> nat -> nat -> res (sresult C St).
  Variable spur_search : list nat -> nat -> nat -> res (sresult C St).
  Variable sim : list nat -> list nat -> res bool.
  Variable pick : list (nat * C) -> option (nat * C * list (nat * C)).
  Hypothesis Htf : forall e prev st, crashes (traverse_fwd e prev st) = false.
  Hypothesis Hinit : crashes init_state = false.
  Hypothesis Hsim : forall a b, crashes (sim a b) = false.
  Hypothesis Hpick : forall q v c q', pick q = Some (v, c, q') -> List.length q' < List.length q.
  Hypothesis Hsearch : forall dd a b, crashes (search dd a b) = false.

  Notation ksp := (Ksp.run_vertex_oriented clt cadd czero cfloor g traverse_fwd init_state search spur_search sim pick).

  Theorem ksp_any_never_crashes alg yfuel k_cfg qk term s target : 1 <= yfuel -> ~ in_K alg k_cfg qk ->
    crashes (ksp alg yfuel k_cfg qk term s target) = false.
  Proof.
    intros Hy HK. unfold Ksp.run_vertex_oriented. destruct target as [t|]; [|reflexivity].
    destruct (ksp_query_k k_cfg qk) as [k| | |] eqn:Ek; simpl; try reflexivity.
    - destruct alg.
      + apply sv_run_never_crashes; auto.
      + apply yens_outside_K_never_crashes; auto. intros H2. apply HK. split; [reflexivity|]. eauto.
    - destruct qk; discriminate.
    - destruct qk; discriminate.
  Qed.

  Theorem ksp_any_crashes_only_in_K alg yfuel k_cfg qk term s target : 1 <= yfuel ->
    crashes (ksp alg yfuel k_cfg qk term s target) = true -> in_K alg k_cfg qk.
  Proof.
    intros Hy Hc. unfold Ksp.run_vertex_oriented in Hc. destruct target as [t|]; [|discriminate].
    destruct (ksp_query_k k_cfg qk) as [k| | |] eqn:Ek; simpl in Hc; try discriminate;
      try (destruct qk; discriminate).
    destruct alg.
    - rewrite sv_run_never_crashes in Hc; auto. discriminate.
    - split; [reflexivity|]. exists k. split; [exact Ek|]. eapply yens_crashes_only_in_K; eauto.
  Qed.
End KspAny.

(* ---------------------------------------------------------------- over the modelled Dijkstra / A-star *)
Section Modelled.
  Context {C St : Type}.
  Variable clt : C -> C -> bool.
  Variable cadd : C -> C -> C.
  Variable czero : C.
  Variable cfloor : C -> C.
  Variable g : graph.
  Variable frontier : nat -> St -> option nat -> res bool.
  Variable traverse : dir -> nat -> option nat -> St -> res (C * C * St).
  Variable estimate : nat -> nat -> St -> res C.
  Variable init_state : res St.
  Variable terminate : nat -> nat -> option string.
  Variable ecost : dir -> nat -> C.         (* the edge-local cost may depend on the search direction *)
  Notation le := (ReachCostP.le clt).

  Hypothesis Hwf : wf_graph g.
  Hypothesis Hasym : forall a b, clt a b = true -> clt b a = false.
  Hypothesis Hletrans : forall a b c, le a b -> le b c -> le a c.
  Hypothesis Hloc : forall dd e prev st ac tc st', traverse dd e prev st = Ok (ac, tc, st') -> cfloor (cadd ac tc) = ecost dd e.
  Hypothesis Hinfl : forall dd e prev st ac tc st' a, traverse dd e prev st = Ok (ac, tc, st') -> le a (cadd a (cfloor (cadd ac tc))).
  Hypothesis Hfr : forall e st prev, crashes (frontier e st prev) = false.
  Hypothesis Htr : forall dd e prev st, crashes (traverse dd e prev st) = false.
  Hypothesis Hest : forall a b st, crashes (estimate a b st) = false.
  Hypothesis Hinit : crashes init_state = false.

  Variable fuel : nat.
  Hypothesis Hfuel : fuel_bound g <= fuel.

  Notation vertex := (Search.run_vertex_oriented clt cadd czero cfloor g frontier traverse estimate init_state terminate).
  (* underlying.run_vertex_oriented(s, Some(t), direction) *)
  Definition under (dd : dir) (a b : nat) : res (sresult C St) := vertex fuel dd a (Some b).

  Lemma vertex_never_crashes dd source target : crashes (vertex fuel dd source target) = false.
  Proof.
    apply (run_vertex_oriented_never_crashes clt cadd czero cfloor g frontier traverse estimate init_state terminate dd
             (ecost dd) Hwf Hasym Hletrans (Hloc dd) (Hinfl dd) Hfr (Htr dd) Hest Hinit fuel source target Hfuel).
  Qed.
  Lemma under_never_crashes dd a b : crashes (under dd a b) = false.
  Proof. apply vertex_never_crashes. Qed.

  Variable sim : list nat -> list nat -> res bool.
  Variable pick : list (nat * C) -> option (nat * C * list (nat * C)).
  Hypothesis Hsim : forall a b, crashes (sim a b) = false.
  Hypothesis Hpick : forall q v c q', pick q = Some (v, c, q') -> List.length q' < List.length q.

  Theorem single_via_never_crashes k term s t :
    crashes (sv_run cadd cfloor g (traverse Forward) init_state under sim pick k term s t) = false.
  Proof.
    apply sv_run_never_crashes; auto using under_never_crashes.
  Qed.

  Variable spur_search : list nat -> nat -> nat -> res (sresult C St).

  Theorem yens_modelled_outside_K_never_crashes yfuel k term s t : 1 <= yfuel -> ~ (2 <= k) ->
    crashes (yens_run clt cadd czero cfloor g under spur_search sim yfuel k term s t) = false.
  Proof. intros Hy Hk. apply yens_outside_K_never_crashes; auto using under_never_crashes. Qed.

  Theorem yens_modelled_crashes_only_in_K yfuel k term s t : 1 <= yfuel ->
    crashes (yens_run clt cadd czero cfloor g under spur_search sim yfuel k term s t) = true -> 2 <= k.
  Proof. intros Hy. apply yens_crashes_only_in_K; auto using under_never_crashes. Qed.

  Notation ksp := (Ksp.run_vertex_oriented clt cadd czero cfloor g (traverse Forward) init_state under spur_search sim pick).

  Theorem ksp_vertex_never_crashes alg yfuel k_cfg qk term s target : 1 <= yfuel -> ~ in_K alg k_cfg qk ->
    crashes (ksp alg yfuel k_cfg qk term s target) = false.
  Proof. apply ksp_any_never_crashes; auto using under_never_crashes. Qed.

  Theorem ksp_vertex_crashes_only_in_K alg yfuel k_cfg qk term s target : 1 <= yfuel ->
    crashes (ksp alg yfuel k_cfg qk term s target) = true -> in_K alg k_cfg qk.
  Proof. apply ksp_any_crashes_only_in_K; auto using under_never_crashes. Qed.
End Modelled.

End Link2KspP.
