(* LINK 2, part 3 (C12 <- Link2Search, Link2Ksp): C12's pipeline_total with its search proviso DISCHARGED for the
   modelled search algorithms.

   C12 (Props/C12.v) proves: CompassApp::run never Panics and never runs OutOfFuel PROVIDED every component returns
   Ok or Err.  The per-query search was such a component (an arbitrary [json -> res R]).  Here the component is the
   model itself:

     model_search alg q   SearchApp::run on one processed query: read origin / destination (vertex or edge ids,
                          "k", the weight factor) from the query JSON and dispatch on the configured algorithm
                            a* | dijkstra  -> Search.run_vertex_oriented        (Model/Search.v)
                            single-via     -> Ksp.run_vertex_oriented KSingleVia (Model/Ksp.v) over that search
                            yens           -> Ksp.run_vertex_oriented KYens      (faithful, D-YEN included)
                          vertex- or edge-oriented (Search.run_edge_oriented around the same dispatch).
     R = sresult C St     the search result type; output plugins are arbitrary benign functions of it.

   The class of the known finding is C12's own predicate PL.K_yens_k_ge_2 alg q ("yens and effective k >= 2", the
   query's "k" overrides the configured one), so it is a property of the QUERY THAT REACHES THE SEARCH (input plugins
   may rewrite queries).  The theorem is therefore stated per batch:

     run_total_modelled_search   for every batch all of whose processed queries are outside K: never Panic / OutOfFuel
     (a*, dijkstra, single-via: no query is in K, so: for every batch.)

   [run_ext]: CompassApp::run consults the search only on processed queries (apply_input_plugins q = SOk qs, q' in qs);
   two search components that agree on those give the same run.  This turns C12's "for all q" proviso into "for the
   queries of this batch".

   A second form instantiates C12's own [PL.search_entry] (Pipeline.v's abstract rendering of Yen's outer loops):
   its [shortest] component is the model's dispatch, [spur] stays arbitrary (it is never called outside K). *)
From Coq Require Import ZArith String List Bool Arith Lia Permutation.
From stdpp Require Import gmap.
From RC Require Import Base.Res Base.Json Model.Search Model.Ksp Model.Pipeline
  Proofs.ReachSet Proofs.ReachInv Proofs.ReachCost Proofs.TermReopen Proofs.Pipeline Proofs.PipelineAnswers
  Proofs.Link2Search Proofs.Link2Ksp.
Import ListNotations.

Module Link2PipelineP.
Import Search ReachInvP TermReopenP PL Link2SearchP Link2KspP.
Local Open Scope list_scope.

(* ---------------------------------------------------------------- reading the query *)
(* an optional u64 field: absent / present and a u64 / present and something else *)
Definition q_opt (q : json) (field : string) : res (option nat) :=
  match jget q field with
  | None => Ok None
  | Some v => match as_u64 v with
              | Some z => Ok (Some (Z.to_nat z))
              | None => Err "QueryFieldHasInvalidType"%string
              end
  end.
Definition q_req (q : json) (field : string) : res nat :=
  do o <- q_opt q field;
  match o with Some v => Ok v | None => Err "MissingExpectedQueryField"%string end.
(* KspQuery::new reads "k" (Model/Ksp.v's query_k) *)
Definition q_k (q : json) : Ksp.query_k :=
  match jget q "k"%string with
  | None => Ksp.QKAbsent
  | Some v => match as_u64 v with Some z => Ksp.QKNat (Z.to_nat z) | None => Ksp.QKBad end
  end.

Lemma q_opt_never_crashes q f : crashes (q_opt q f) = false.
Proof. unfold q_opt. destruct (jget q f) as [v|]; [destruct (as_u64 v)|]; reflexivity. Qed.
Lemma q_req_never_crashes q f : crashes (q_req q f) = false.
Proof. unfold q_req. apply cr_bind; [apply q_opt_never_crashes|]. intros [v|] _; reflexivity. Qed.

(* Model/Ksp.v's class "Yens and effective k >= 2" IS Model/Pipeline.v's K_yens_k_ge_2 *)
Lemma in_K_iff k0 q : in_K Ksp.KYens k0 (q_k q) <-> K_yens_k_ge_2 (Yens k0) q = true.
Proof.
  unfold in_K, K_yens_k_ge_2, effective_k, q_k.
  destruct (jget q "k"%string) as [v|]; [destruct (as_u64 v) as [z|] eqn:Ez|]; simpl.
  - assert (Hz : (0 <= z)%Z).
    { destruct v; try discriminate. simpl in Ez. destruct (0 <=? z0)%Z eqn:E; [|discriminate].
      inversion Ez; subst. apply Z.leb_le. exact E. }
    split.
    + intros [_ (k & Hk & H2)]. inversion Hk; subst. apply Z.leb_le. lia.
    + intros H. apply Z.leb_le in H. split; [reflexivity|]. exists (Z.to_nat z). split; [reflexivity|lia].
  - split; [intros [_ (k & Hk & _)]; discriminate|discriminate].
  - split.
    + intros [_ (k & Hk & H2)]. inversion Hk; subst. apply Z.leb_le. lia.
    + intros H. apply Z.leb_le in H. split; [reflexivity|]. exists k0. split; [reflexivity|lia].
Qed.
Lemma K_false_not_in_K k0 q : K_yens_k_ge_2 (Yens k0) q = false -> ~ in_K Ksp.KYens k0 (q_k q).
Proof. intros H HK. apply in_K_iff in HK. congruence. Qed.

(* ---------------------------------------------------------------- the dispatch *)
Section Dispatch.
  Context {C St W : Type}.
  Variable clt : C -> C -> bool.
  Variable cadd : C -> C -> C.
  Variable czero : C.
  Variable cfloor : C -> C.
  Variable g : graph.
  Variable frontier : nat -> St -> option nat -> res bool.
  Variable traverse : dir -> nat -> option nat -> St -> res (C * C * St).
  (* the weight factor in force: the algorithm's, overridden by the query's "weight_factor" (a BuildError when that
     field is not a number); Dijkstra = A-star with factor 0 *)
  Variable wfactor : algorithm -> json -> res W.
  Variable estimate : W -> nat -> nat -> St -> res C.     (* estimate_traversal_cost times the weight factor *)
  Variable init_state : res St.
  Variable terminate : nat -> nat -> option string.
  Variable spur_search : json -> list nat -> nat -> nat -> res (sresult C St).   (* Yen's spur searches: ARBITRARY *)
  Variable sim : list nat -> list nat -> res bool.                                (* configured similarity function *)
  Variable pick : list (nat * C) -> option (nat * C * list (nat * C)).            (* intersection queue pop order *)
  Variable kterm : Ksp.kterm.
  Variable d : dir.                      (* the application's search direction *)
  Variable edge_oriented : bool.         (* SearchOrientation::Edge ? *)
  Variable fuel : nat.                   (* fuel of the search loop *)
  Variable yfuel : nat.                  (* fuel of Yen's `while` *)

  Notation sres := (sresult C St).

  (* a* / dijkstra on (s, t) in direction dd *)
  Definition plain (alg : algorithm) (q : json) (dd : dir) (s : nat) (t : option nat) : res sres :=
    do w <- wfactor alg q;
    Search.run_vertex_oriented clt cadd czero cfloor g frontier traverse (estimate w) init_state terminate fuel dd s t.
  (* underlying.run_vertex_oriented(a, Some(b), query, direction, si) of the k-shortest-paths drivers *)
  Definition underlying (alg : algorithm) (q : json) (dd : dir) (a b : nat) : res sres := plain alg q dd a (Some b).

  (* SearchAlgorithm::run_vertex_oriented *)
  Definition vertex_alg (alg : algorithm) (q : json) (s : nat) (t : option nat) : res sres :=
    match alg with
    | AStar | Dijkstra => plain alg q d s t
    | SingleVia k0 =>
        Ksp.run_vertex_oriented clt cadd czero cfloor g (traverse Forward) init_state (underlying alg q) (spur_search q)
          sim pick Ksp.KSingleVia yfuel k0 (q_k q) kterm s t
    | Yens k0 =>
        Ksp.run_vertex_oriented clt cadd czero cfloor g (traverse Forward) init_state (underlying alg q) (spur_search q)
          sim pick Ksp.KYens yfuel k0 (q_k q) kterm s t
    end.

  (* SearchApp::run_vertex_oriented / run_edge_oriented around a vertex-oriented algorithm *)
  Definition dispatch (valg : nat -> option nat -> res sres) (q : json) : res sres :=
    if edge_oriented then
      do s <- q_req q "origin_edge"%string;
      do t <- q_opt q "destination_edge"%string;
      Search.run_edge_oriented czero g traverse init_state d valg s t
    else
      do s <- q_req q "origin_vertex"%string;
      do t <- q_opt q "destination_vertex"%string;
      valg s t.

  (* THE SEARCH COMPONENT of the pipeline *)
  Definition model_search (alg : algorithm) (q : json) : res sres := dispatch (vertex_alg alg q) q.

  (* the [shortest] component of PL.search_entry: for Yens the underlying search's routes (PL.yens_run continues
     from them), otherwise the algorithm's own routes; routes as lists of edge ids *)
  Definition shortest_alg (alg : algorithm) (q : json) (s : nat) (t : option nat) : res sres :=
    match alg with
    | Yens _ => match t with
                | Some t' => underlying alg q Forward s t'
                | None => Err "build: attempting to run KSP algorithm without destination"%string
                end
    | _ => vertex_alg alg q s t
    end.
  Definition route_ids (r : sres) : list PL.route := map (map (@et_edge C St)) (r_routes r).
  Definition model_shortest (alg : algorithm) (q : json) : res (list PL.route) :=
    rmap route_ids (dispatch (shortest_alg alg q) q).

  (* ---- hypotheses: the graph with edge-local costs, benign parameters, enough fuel ---- *)
  Variable ecost : dir -> nat -> C.
  Notation le := (ReachCostP.le clt).
  Hypothesis Hwf : wf_graph g.
  Hypothesis Hasym : forall a b, clt a b = true -> clt b a = false.
  Hypothesis Hletrans : forall a b c, le a b -> le b c -> le a c.
  Hypothesis Hloc : forall dd e prev st ac tc st', traverse dd e prev st = Ok (ac, tc, st') -> cfloor (cadd ac tc) = ecost dd e.
  Hypothesis Hinfl : forall dd e prev st ac tc st' a, traverse dd e prev st = Ok (ac, tc, st') -> le a (cadd a (cfloor (cadd ac tc))).
  Hypothesis Hfr : forall e st prev, crashes (frontier e st prev) = false.
  Hypothesis Htr : forall dd e prev st, crashes (traverse dd e prev st) = false.
  Hypothesis Hwfac : forall alg q, crashes (wfactor alg q) = false.
  Hypothesis Hest : forall w a b st, crashes (estimate w a b st) = false.
  Hypothesis Hinit : crashes init_state = false.
  Hypothesis Hsim : forall a b, crashes (sim a b) = false.
  Hypothesis Hpick : forall q v c q', pick q = Some (v, c, q') -> List.length q' < List.length q.
  Hypothesis Hfuel : fuel_bound g <= fuel.
  Hypothesis Hyfuel : 1 <= yfuel.

  Lemma plain_never_crashes alg q dd s t : crashes (plain alg q dd s t) = false.
  Proof.
    unfold plain. apply cr_bind; [apply Hwfac|]. intros w _.
    apply (run_vertex_oriented_never_crashes clt cadd czero cfloor g frontier traverse (estimate w) init_state terminate dd
             (ecost dd) Hwf Hasym Hletrans (Hloc dd) (Hinfl dd) Hfr (Htr dd) (Hest w) Hinit fuel s t Hfuel).
  Qed.
  Lemma underlying_never_crashes alg q dd a b : crashes (underlying alg q dd a b) = false.
  Proof. apply plain_never_crashes. Qed.

  Lemma vertex_alg_never_crashes alg q s t : K_yens_k_ge_2 alg q = false -> crashes (vertex_alg alg q s t) = false.
  Proof.
    intros HK. destruct alg as [| |k0|k0]; simpl.
    - apply plain_never_crashes.
    - apply plain_never_crashes.
    - apply ksp_any_never_crashes; auto using underlying_never_crashes. intros [H _]. discriminate.
    - apply ksp_any_never_crashes; auto using underlying_never_crashes. apply K_false_not_in_K, HK.
  Qed.
  (* the precise complement, at the level of the dispatch *)
  Lemma vertex_alg_crashes_only_in_K alg q s t : crashes (vertex_alg alg q s t) = true -> K_yens_k_ge_2 alg q = true.
  Proof.
    intros Hc. destruct (K_yens_k_ge_2 alg q) eqn:HK; [reflexivity|].
    rewrite (vertex_alg_never_crashes alg q s t HK) in Hc. discriminate.
  Qed.

  Lemma dispatch_never_crashes valg q : (forall s t, crashes (valg s t) = false) -> crashes (dispatch valg q) = false.
  Proof.
    intros Hv. unfold dispatch. destruct edge_oriented.
    - apply cr_bind; [apply q_req_never_crashes|]. intros s _.
      apply cr_bind; [apply q_opt_never_crashes|]. intros t _.
      apply run_edge_oriented_never_crashes; auto.
    - apply cr_bind; [apply q_req_never_crashes|]. intros s _.
      apply cr_bind; [apply q_opt_never_crashes|]. intros t _. apply Hv.
  Qed.

  Theorem model_search_never_crashes alg q : K_yens_k_ge_2 alg q = false -> crashes (model_search alg q) = false.
  Proof. intros HK. apply dispatch_never_crashes. intros s t. apply vertex_alg_never_crashes, HK. Qed.
  Theorem model_search_crashes_only_in_K alg q : crashes (model_search alg q) = true -> K_yens_k_ge_2 alg q = true.
  Proof.
    intros Hc. destruct (K_yens_k_ge_2 alg q) eqn:HK; [reflexivity|].
    rewrite (model_search_never_crashes alg q HK) in Hc. discriminate.
  Qed.

  Lemma shortest_alg_never_crashes alg q s t : crashes (shortest_alg alg q s t) = false.
  Proof.
    destruct alg as [| |k0|k0];
      [exact (vertex_alg_never_crashes AStar q s t eq_refl) | exact (vertex_alg_never_crashes Dijkstra q s t eq_refl)
      | exact (vertex_alg_never_crashes (SingleVia k0) q s t eq_refl) | ].
    simpl. destruct t; [apply underlying_never_crashes|reflexivity].
  Qed.
  Theorem model_shortest_never_crashes alg q : crashes (model_shortest alg q) = false.
  Proof.
    unfold model_shortest, rmap. apply cr_bind; [|intros r _; reflexivity].
    apply dispatch_never_crashes. intros s t. apply shortest_alg_never_crashes.
  Qed.
End Dispatch.

(* ---------------------------------------------------------------- the run consults the search on processed queries only *)
Definition reaches (plugins : list plugin) (batch : list json) (q' : json) : Prop :=
  exists q qs, In q batch /\ apply_input_plugins plugins q = SOk qs /\ In q' qs.

Lemma all_ok_inv {B} (rs : list (res B)) : forall l, all_ok rs = Ok l -> rs = map Ok l.
Proof.
  induction rs as [|r rs IH]; intros l H; simpl in H.
  - inversion H. reflexivity.
  - destruct r as [y| | |]; try discriminate. destruct (all_ok rs) as [ys| | |] eqn:E; try discriminate.
    inversion H; subst. simpl. f_equal. apply IH. reflexivity.
Qed.
Lemma par_join_inv {B} (rs : list (res B)) l : par_join rs = Ok l -> rs = map Ok l.
Proof.
  unfold par_join. destruct (existsb is_hang rs); [discriminate|]. destruct (first_panic rs); [discriminate|].
  apply all_ok_inv.
Qed.
Lemma seq_map_in {A B} (f : A -> res B) (l : list A) : forall ys, seq_map f l = Ok ys ->
  forall y, In y ys -> exists x, In x l /\ f x = Ok y.
Proof.
  induction l as [|a l IH]; intros ys H y Hy; simpl in H.
  - inversion H; subst. destruct Hy.
  - destruct (f a) as [b| | |] eqn:E; try discriminate.
    destruct (seq_map f l) as [bs| | |] eqn:E2; try discriminate. inversion H; subst.
    destruct Hy as [<-|Hy]; [exists a; split; [left; reflexivity|exact E]|].
    destruct (IH bs eq_refl y Hy) as (x&Hx&Hfx). exists x. split; [right; exact Hx|exact Hfx].
Qed.
Lemma seq_map_ext_in {A B} (f f' : A -> res B) (l : list A) : (forall x, In x l -> f x = f' x) -> seq_map f l = seq_map f' l.
Proof.
  induction l as [|a l IH]; intros H; simpl; [reflexivity|].
  rewrite (H a (or_introl eq_refl)), IH; [reflexivity|]. intros x Hx. apply H. right. exact Hx.
Qed.
Lemma lefts_in {A B} (l : list (A + B)) a : In a (lefts l) -> In (inl a) l.
Proof.
  unfold lefts. intros H. apply in_flat_map in H as (x&Hx&Hin). destruct x as [a'|b]; simpl in Hin.
  - destruct Hin as [<-|[]]. exact Hx.
  - destruct Hin.
Qed.

Section LBIn.
  Variable wo : wops.
  Lemma upd_in (x : json) bins : forall i q, In q (concat (upd i (fun b => b ++ [x]) bins)) -> In q (concat bins) \/ q = x.
  Proof.
    induction bins as [|b r IH]; intros i q H; [destruct i; simpl in H; destruct H|].
    destruct i as [|i]; simpl in H; rewrite in_app_iff in H; simpl; rewrite in_app_iff.
    - destruct H as [H|H]; [|auto]. apply in_app_iff in H as [H|[<-|[]]]; auto.
    - destruct H as [H|H]; [auto|]. destruct (IH i q H); auto.
  Qed.
  Lemma balance_in qs : forall totals bins bins', balance wo qs totals bins = Ok bins' ->
    forall q, In q (concat bins') -> In q (concat bins) \/ In q qs.
  Proof.
    induction qs as [|x r IH]; intros totals bins bins' H q Hq; simpl in H.
    - inversion H; subst. auto.
    - destruct (weight_estimate wo x) as [w| | |]; try discriminate.
      destruct (min_bin wo totals) as [i|]; [|discriminate].
      destruct (IH _ _ _ H q Hq) as [H1|H1]; [|right; right; exact H1].
      destruct (upd_in x bins i q H1) as [H2| ->]; [left; exact H2|right; left; reflexivity].
  Qed.
  Lemma load_balance_in qs par bins : load_balance wo qs par = Ok bins -> forall q, In q (concat bins) -> In q qs.
  Proof.
    destruct qs as [|x r]; cbn [load_balance]; intros H q Hq.
    - inversion H; subst. destruct Hq.
    - destruct (balance_in _ _ _ _ H q Hq) as [H1|H1]; [|exact H1].
      exfalso. clear -H1. induction par; simpl in H1; auto.
  Qed.
End LBIn.

Section RunExt.
  Variable wo : wops.
  Variable R : Type.
  Variable plugins : list plugin.
  Variables s1 s2 : json -> res R.
  Variable oplugins : list (R -> json -> res json).
  Variable sink : json -> res json.
  Variables (par_app par_run : nat) (persist : bool).

  Lemma staged_reaches chunks staged :
    par_join (map (seq_map (input_stage plugins)) chunks) = Ok staged ->
    forall q', In q' (concat (lefts (concat staged))) -> reaches plugins (concat chunks) q'.
  Proof.
    intros Hj q' Hq'. apply par_join_inv in Hj.
    apply in_concat in Hq' as (sl&Hsl&Hin). apply lefts_in in Hsl.
    apply in_concat in Hsl as (st&Hst&Hinl).
    assert (Hok : In (Ok st) (map (seq_map (input_stage plugins)) chunks)) by (rewrite Hj; apply in_map, Hst).
    apply in_map_iff in Hok as (chunk&Hrun&Hchunk).
    destruct (seq_map_in _ _ _ Hrun _ Hinl) as (q&Hq&Hstage).
    exists q, sl. split; [apply in_concat; eauto|]. split; [|exact Hin].
    unfold input_stage in Hstage. destruct (apply_input_plugins plugins q) as [qs|e|[w|]]; try discriminate.
    inversion Hstage; subst. reflexivity.
  Qed.

  Lemma run_single_query_ext q : s1 q = s2 q -> run_single_query R s1 oplugins q = run_single_query R s2 oplugins q.
  Proof. intros H. unfold run_single_query. rewrite H. reflexivity. Qed.
  Lemma run_bin_ext b : (forall q, In q b -> s1 q = s2 q) -> run_bin R s1 oplugins sink b = run_bin R s2 oplugins sink b.
  Proof. intros H. unfold run_bin. apply seq_map_ext_in. intros q Hq. rewrite (run_single_query_ext q (H q Hq)). reflexivity. Qed.
  Lemma run_bin_discard_ext b : (forall q, In q b -> s1 q = s2 q) ->
    run_bin_discard R s1 oplugins sink b = run_bin_discard R s2 oplugins sink b.
  Proof.
    induction b as [|q r IH]; intros H; simpl; [reflexivity|].
    rewrite (run_single_query_ext q (H q (or_introl eq_refl))), IH; [reflexivity|].
    intros x Hx. apply H. right. exact Hx.
  Qed.

  Theorem run_ext batch : (forall q', reaches plugins batch q' -> s1 q' = s2 q') ->
    run wo R plugins s1 oplugins sink par_app par_run persist batch
    = run wo R plugins s2 oplugins sink par_app par_run persist batch.
  Proof.
    intros Hagree. unfold PL.run.
    destruct (par_chunks_ok par_app batch) as [chunks [Hc Hcat]]. rewrite Hc. cbn [bind].
    destruct (par_join (map (seq_map (input_stage plugins)) chunks)) as [staged| | |] eqn:Hj; cbn [bind]; try reflexivity.
    destruct (load_balance wo (List.filter (weight_ok wo) (concat (lefts (concat staged)))) par_run) as [bins| | |] eqn:Hb;
      cbn [bind]; try reflexivity.
    destruct (seq_map sink _) as [errors| | |]; cbn [bind]; try reflexivity.
    destruct bins as [|b bs]; [reflexivity|].
    assert (Hbins : forall b', In b' (b :: bs) -> forall q, In q b' -> s1 q = s2 q).
    { intros b' Hb' q Hq. apply Hagree. rewrite <- Hcat. apply (staged_reaches chunks staged Hj).
      assert (Hg : In q (List.filter (weight_ok wo) (concat (lefts (concat staged))))).
      { apply (load_balance_in wo _ _ _ Hb). apply in_concat. eauto. }
      apply filter_In in Hg. apply Hg. }
    rewrite (map_ext_in _ (if persist then run_bin R s2 oplugins sink else run_bin_discard R s2 oplugins sink) (b :: bs));
      [reflexivity|].
    intros b' Hb'. destruct persist; [apply run_bin_ext|apply run_bin_discard_ext]; apply Hbins, Hb'.
  Qed.
End RunExt.

(* C12's totality theorem with the proviso on the search restricted to the queries of the batch *)
Theorem run_total_on_batch wo R plugins (search : json -> res R) oplugins sink par_app par_run persist :
  (forall p, In p plugins -> forall q, pbenign (p q) = true) ->
  (forall op, In op oplugins -> forall r out, crashes (op r out) = false) ->
  (forall j, crashes (sink j) = false) ->
  forall batch, (forall q', reaches plugins batch q' -> crashes (search q') = false) ->
    crashes (run wo R plugins search oplugins sink par_app par_run persist batch) = false.
Proof.
  intros Hp Ho Hs batch Hb.
  set (guarded := fun q => if crashes (search q) then Err "crash"%string else search q).
  rewrite (run_ext wo R plugins search guarded oplugins sink par_app par_run persist batch).
  - apply run_total; auto. intros q. unfold guarded. destruct (crashes (search q)) eqn:E; [reflexivity|exact E].
  - intros q' Hq'. unfold guarded. rewrite (Hb q' Hq'). reflexivity.
Qed.

(* ---------------------------------------------------------------- T4 *)
Section Total.
  Context {C St W : Type}.
  Variable clt : C -> C -> bool.
  Variable cadd : C -> C -> C.
  Variable czero : C.
  Variable cfloor : C -> C.
  Variable g : graph.
  Variable frontier : nat -> St -> option nat -> res bool.
  Variable traverse : dir -> nat -> option nat -> St -> res (C * C * St).
  Variable wfactor : algorithm -> json -> res W.
  Variable estimate : W -> nat -> nat -> St -> res C.
  Variable init_state : res St.
  Variable terminate : nat -> nat -> option string.
  Variable spur_search : json -> list nat -> nat -> nat -> res (sresult C St).
  Variable sim : list nat -> list nat -> res bool.
  Variable pick : list (nat * C) -> option (nat * C * list (nat * C)).
  Variable kterm : Ksp.kterm.
  Variable d : dir.
  Variable edge_oriented : bool.
  Variable fuel : nat.
  Variable yfuel : nat.
  Variable ecost : dir -> nat -> C.
  Notation le := (ReachCostP.le clt).
  Hypothesis Hwf : wf_graph g.
  Hypothesis Hasym : forall a b, clt a b = true -> clt b a = false.
  Hypothesis Hletrans : forall a b c, le a b -> le b c -> le a c.
  Hypothesis Hloc : forall dd e prev st ac tc st', traverse dd e prev st = Ok (ac, tc, st') -> cfloor (cadd ac tc) = ecost dd e.
  Hypothesis Hinfl : forall dd e prev st ac tc st' a, traverse dd e prev st = Ok (ac, tc, st') -> le a (cadd a (cfloor (cadd ac tc))).
  Hypothesis Hfr : forall e st prev, crashes (frontier e st prev) = false.
  Hypothesis Htr : forall dd e prev st, crashes (traverse dd e prev st) = false.
  Hypothesis Hwfac : forall alg q, crashes (wfactor alg q) = false.
  Hypothesis Hest : forall w a b st, crashes (estimate w a b st) = false.
  Hypothesis Hinit : crashes init_state = false.
  Hypothesis Hsim : forall a b, crashes (sim a b) = false.
  Hypothesis Hpick : forall q v c q', pick q = Some (v, c, q') -> List.length q' < List.length q.
  Hypothesis Hfuel : fuel_bound g <= fuel.
  Hypothesis Hyfuel : 1 <= yfuel.

  Notation model_search := (model_search clt cadd czero cfloor g frontier traverse wfactor estimate init_state terminate
                              spur_search sim pick kterm d edge_oriented fuel yfuel).
  Notation model_shortest := (model_shortest clt cadd czero cfloor g frontier traverse wfactor estimate init_state terminate
                                spur_search sim pick kterm d edge_oriented fuel yfuel).

  Variable wo : wops.
  Variable plugins : list plugin.
  Variable oplugins : list (sresult C St -> json -> res json).
  Variable sink : json -> res json.
  Variables (par_app par_run : nat) (persist : bool).
  Hypothesis plugins_benign : forall p, In p plugins -> forall q, pbenign (p q) = true.
  Hypothesis oplugins_benign : forall op, In op oplugins -> forall r out, crashes (op r out) = false.
  Hypothesis sink_benign : forall j, crashes (sink j) = false.

  Theorem run_total_modelled_search alg batch :
    (forall q', reaches plugins batch q' -> K_yens_k_ge_2 alg q' = false) ->
    crashes (run wo (sresult C St) plugins (model_search alg) oplugins sink par_app par_run persist batch) = false.
  Proof.
    intros HK. apply run_total_on_batch; auto. intros q' Hq'.
    apply (model_search_never_crashes clt cadd czero cfloor g frontier traverse wfactor estimate init_state terminate
             spur_search sim pick kterm d edge_oriented fuel yfuel ecost Hwf Hasym Hletrans Hloc Hinfl Hfr Htr Hwfac Hest Hinit
             Hsim Hpick Hfuel Hyfuel alg q' (HK q' Hq')).
  Qed.

  (* a*, dijkstra, single-via: every batch *)
  Theorem run_total_modelled_search_not_yens alg batch : (forall k0, alg <> Yens k0) ->
    crashes (run wo (sresult C St) plugins (model_search alg) oplugins sink par_app par_run persist batch) = false.
  Proof.
    intros Hny. apply run_total_modelled_search. intros q' _. destruct alg; try reflexivity. destruct (Hny k eq_refl).
  Qed.

  (* the same through C12's own search entry (Pipeline.v's rendering of Yen's outer loops over an ARBITRARY spur
     component): its [shortest] component is the model's dispatch *)
  Variable spur : json -> list PL.route -> option PL.route -> PL.route -> nat -> res (option PL.route).
  Variable oplugins' : list (list PL.route -> json -> res json).
  Hypothesis oplugins'_benign : forall op, In op oplugins' -> forall r out, crashes (op r out) = false.

  Theorem run_total_search_entry_modelled alg batch :
    (forall q', reaches plugins batch q' -> K_yens_k_ge_2 alg q' = false) ->
    crashes (run wo (list PL.route) plugins (search_entry alg (model_shortest alg) spur yfuel) oplugins' sink
               par_app par_run persist batch) = false.
  Proof.
    intros HK. apply run_total_on_batch; auto. intros q' Hq'.
    apply search_entry_total; [|exact Hyfuel|exact (HK q' Hq')].
    intros q. apply (model_shortest_never_crashes clt cadd czero cfloor g frontier traverse wfactor estimate init_state terminate
             spur_search sim pick kterm d edge_oriented fuel yfuel ecost Hwf Hasym Hletrans Hloc Hinfl Hfr Htr Hwfac Hest Hinit
             Hsim Hpick Hfuel Hyfuel alg q).
  Qed.
End Total.

End Link2PipelineP.
