(* LINK 2, part 1 (C12 <- C05/Termination, C01): the per-query search of Model/Search.v NEVER CRASHES.

   C12's pipeline_total assumes that the per-query search returns Ok or Err ([crashes r = false], Base/Res.v).
   Here that proviso is proved for the modelled search algorithms:

     run_vertex_oriented_never_crashes   Search.run_vertex_oriented (Dijkstra / A-star, re-opening included), any
                                         direction, source, destination option (in the graph or not), termination model
     run_edge_oriented_never_crashes     Search.run_edge_oriented over ANY vertex-oriented algorithm that never crashes
     backtrack_never_out_of_fuel         backtrack::vertex_oriented_route on ANY tree (no tree invariant needed)

   Hypotheses: the graph is well formed, costs are edge-local and never decrease a label (Hloc / Hinfl of
   Props/Termination.v), [le] is a total preorder (Hasym / Hletrans), the parameters frontier / traverse / estimate /
   init_state return Ok or Err, fuel >= fuel_bound g = 1 + (|E|+1)^(|V|-1).

   Two ingredients:
   - "never Panic": the model has no Panic of its own; Panic can only come from a parameter (structural inductions);
   - "never OutOfFuel": Proofs/TermReopen.v's ghost invariant GI.  Its lemmas are stated for a destination that is a
     vertex of the graph (they need it only to know that the estimate is not a cut-off loop).  Here the estimate is
     benign for EVERY argument, so the destination is unconstrained: [relax] reads the destination only through
     [estimate kv t st], hence relax with (estimate, Some t) IS relax with the proxy (fun a _ st => estimate a t st,
     Some source); relax_all_GI is used at the proxy and the (short) induction over the loop is redone for [step]. *)
From Coq Require Import List Arith Bool String Lia.
From stdpp Require Import gmap.
From RC Require Import Base.Res Model.Search Model.Reach Proofs.ReachSet Proofs.ReachInv Proofs.ReachCost Proofs.TermReopen.
Import ListNotations.

Module Link2SearchP.
Import Search Reach ReachSetP ReachInvP TermReopenP.

(* ---------------------------------------------------------------- outcomes *)
Definition panics {A} (r : res A) : bool := match r with Panic _ => true | _ => false end.

Lemma crashes_iff {A} (r : res A) : crashes r = false <-> panics r = false /\ r <> OutOfFuel.
Proof.
  destruct r; simpl; split; intros H; try discriminate; try reflexivity.
  - split; [reflexivity|discriminate].
  - split; [reflexivity|discriminate].
  - destruct H as [H _]. discriminate.
  - destruct H as [_ H]. congruence.
Qed.
Lemma cr_np {A} (r : res A) : crashes r = false -> panics r = false.
Proof. intros H. apply crashes_iff in H. apply H. Qed.
Lemma cr_nf {A} (r : res A) : crashes r = false -> r <> OutOfFuel.
Proof. intros H. apply crashes_iff in H. apply H. Qed.
Lemma cr_intro {A} (r : res A) : panics r = false -> r <> OutOfFuel -> crashes r = false.
Proof. intros H1 H2. apply crashes_iff. auto. Qed.

Lemma np_bind {A B} (r : res A) (f : A -> res B) :
  panics r = false -> (forall a, r = Ok a -> panics (f a) = false) -> panics (bind r f) = false.
Proof. intros Hr Hf. destruct r; simpl in *; auto. Qed.
Lemma cr_bind {A B} (r : res A) (f : A -> res B) :
  crashes r = false -> (forall a, r = Ok a -> crashes (f a) = false) -> crashes (bind r f) = false.
Proof. intros Hr Hf. destruct r; simpl in *; auto. Qed.
Lemma cr_ok_or_err {A} (r : res A) : crashes r = false -> (exists a, r = Ok a) \/ (exists c, r = Err c).
Proof. destruct r; simpl; intros H; try discriminate; eauto. Qed.

(* ---------------------------------------------------------------- backtracking on ANY tree *)
Section Backtrack.
  Context {C St : Type}.
  Notation branch := (branch C St).
  Notation etrav := (etrav C St).
  Variable source : nat.
  Variable tree : gmap nat branch.

  Lemma backtrack_np : forall fuel this visited (acc : list etrav),
    panics (backtrack_loop fuel source tree this visited acc) = false.
  Proof.
    induction fuel as [|f IH]; intros this visited acc; simpl.
    - destruct (Nat.eqb this source); reflexivity.
    - destruct (Nat.eqb this source); [reflexivity|].
      destruct (tree !! this) as [b|]; [|reflexivity].
      destruct (existsb _ visited); [reflexivity|apply IH].
  Qed.

  (* ghost: [rest] = the tree entries not yet walked through; an entry that left [rest] has its edge in [visited],
     so meeting it again is the Err "loop in search result", not a further step *)
  Lemma backtrack_nf : forall fuel this visited (acc : list etrav) (rest : gmap nat branch),
    (forall k b, tree !! k = Some b -> rest !! k = None -> existsb (Nat.eqb (et_edge (b_et b))) visited = true) ->
    size rest < fuel ->
    backtrack_loop fuel source tree this visited acc <> OutOfFuel.
  Proof.
    induction fuel as [|f IH]; intros this visited acc rest Hinv Hsz; [lia|].
    simpl. destruct (Nat.eqb this source); [discriminate|].
    destruct (tree !! this) as [b|] eqn:Hb; [|discriminate].
    destruct (existsb (Nat.eqb (et_edge (b_et b))) visited) eqn:Hv; [discriminate|].
    destruct (rest !! this) as [b'|] eqn:Hr.
    2:{ rewrite (Hinv this b Hb Hr) in Hv. discriminate. }
    apply (IH _ _ _ (delete this rest)).
    - intros k b0 Hk Hd. simpl. destruct (Nat.eq_dec k this) as [->|Hne].
      + assert (b0 = b) by congruence. subst b0. rewrite Nat.eqb_refl. reflexivity.
      + rewrite lookup_delete_ne in Hd by congruence. rewrite (Hinv k b0 Hk Hd). apply orb_true_r.
    - rewrite map_size_delete, Hr.
      assert (size rest <> 0).
      { intros E. apply map_size_empty_iff in E. rewrite E, lookup_empty in Hr. discriminate. }
      simpl. lia.
  Qed.

  Theorem backtrack_never_out_of_fuel target : vertex_oriented_route source target tree <> OutOfFuel.
  Proof.
    unfold vertex_oriented_route. apply (backtrack_nf _ _ _ _ tree); [|lia].
    intros k b Hk Hn. congruence.
  Qed.
  Theorem backtrack_never_crashes target : crashes (vertex_oriented_route source target tree) = false.
  Proof. apply cr_intro; [apply backtrack_np|apply backtrack_never_out_of_fuel]. Qed.
End Backtrack.

(* ---------------------------------------------------------------- the search loop *)
Section NoCrash.
  Context {C St : Type}.
  Variable clt : C -> C -> bool.
  Variable cadd : C -> C -> C.
  Variable czero : C.
  Variable cfloor : C -> C.
  Variable g : graph.
  Variable frontier : nat -> St -> option nat -> res bool.
  Variable traverse : dir -> nat -> option nat -> St -> res (C * C * St).
  Variable estimate : nat -> nat -> St -> res C.
  Variable init_state : res St.
  Variable terminate : nat -> nat -> option string.
  Variable d : dir.
  Variable ecost : nat -> C.
  Notation le := (ReachCostP.le clt).

  (* the components return Ok or Err *)
  Hypothesis Hfr : forall e st prev, crashes (frontier e st prev) = false.
  Hypothesis Htr : forall e prev st, crashes (traverse d e prev st) = false.
  Hypothesis Hest : forall a b st, crashes (estimate a b st) = false.
  Hypothesis Hinit : crashes init_state = false.

  Notation sstate := (sstate C St).
  Notation relax := (relax clt cadd czero cfloor g frontier traverse estimate).
  Notation relax_all := (relax_all clt cadd czero cfloor g frontier traverse estimate).
  Notation step := (step clt cadd czero cfloor g frontier traverse estimate terminate).
  Notation run_loop := (run_loop clt cadd czero cfloor g frontier traverse estimate terminate).
  Notation run_a_star := (run_a_star clt cadd czero cfloor g frontier traverse estimate init_state terminate).
  Notation run_vertex_oriented := (run_vertex_oriented clt cadd czero cfloor g frontier traverse estimate init_state terminate).

  (* ---- never Panic: for every fuel, state, source and destination ---- *)
  Lemma relax_np target cur last (s : sstate) e : panics (relax d target cur last s e) = false.
  Proof.
    unfold Search.relax. destruct (get_edge g e) as [ed|]; [|reflexivity].
    apply np_bind; [apply cr_np, Hfr|]. intros ok _. destruct (negb ok); [reflexivity|].
    apply np_bind; [apply cr_np, Htr|]. intros [[ac tc] st'] _. cbv zeta.
    destruct (s_g s !! term_vertex d ed) as [gcur|]; [|reflexivity].
    match goal with |- context [if ?b then _ else _] => destruct b end; [|reflexivity].
    apply np_bind; [destruct target; [apply cr_np, Hest|reflexivity]|]. intros h _. reflexivity.
  Qed.
  Lemma relax_all_np target cur last es : forall s : sstate, panics (relax_all d target cur last s es) = false.
  Proof.
    induction es as [|e es IH]; intros s; simpl; [reflexivity|].
    apply np_bind; [apply relax_np|]. intros s' _. apply IH.
  Qed.
  Lemma step_np source target init (s : sstate) : panics (step d source target init s) = false.
  Proof.
    unfold Search.step. destruct (terminate _ _); [reflexivity|].
    destruct (pq_pop clt (s_pq s)) as [[[v c] q']|]; [|destruct target; reflexivity].
    match goal with |- context [if ?b then _ else _] => destruct b end; [reflexivity|].
    apply np_bind.
    { destruct (Nat.eqb v source); [reflexivity|]. destruct (s_tree s !! v); reflexivity. }
    intros [last cur] _. apply np_bind; [apply relax_all_np|]. intros s2 _. reflexivity.
  Qed.
  Lemma run_loop_np source target init : forall fuel (s : sstate), panics (run_loop fuel d source target init s) = false.
  Proof.
    induction fuel as [|f IH]; intros s; simpl; [reflexivity|].
    apply np_bind; [apply step_np|]. intros [s'|s'] _; [apply IH|reflexivity].
  Qed.

  (* ---- never OutOfFuel: Proofs/TermReopen.v's ghost invariant, destination unconstrained ---- *)
  Variable source : nat.
  Hypothesis Hwf : wf_graph g.
  Hypothesis Hsrc : source < nverts g.
  Hypothesis Hasym : forall a b, clt a b = true -> clt b a = false.
  Hypothesis Hletrans : forall a b c, le a b -> le b c -> le a c.
  Hypothesis Hloc : forall e prev st ac tc st', traverse d e prev st = Ok (ac, tc, st') -> cfloor (cadd ac tc) = ecost e.
  Hypothesis Hinfl : forall e prev st ac tc st' a, traverse d e prev st = Ok (ac, tc, st') -> le a (cadd a (cfloor (cadd ac tc))).

  Notation GI := (GI clt cadd czero g d source ecost).

  Section Target.
    Variable target : option nat.
    (* the proxy: same relaxations, destination = the source vertex (a vertex of the graph) *)
    Definition ptarget : option nat := match target with Some _ => Some source | None => None end.
    Definition pestimate : nat -> nat -> St -> res C :=
      fun a b st => match target with Some t => estimate a t st | None => estimate a b st end.
    Notation prelax := (Search.relax clt cadd czero cfloor g frontier traverse pestimate).
    Notation prelax_all := (Search.relax_all clt cadd czero cfloor g frontier traverse pestimate).

    Lemma relax_proxy cur last (s : sstate) e : prelax d ptarget cur last s e = relax d target cur last s e.
    Proof. unfold ptarget, pestimate. destruct target; reflexivity. Qed.
    Lemma relax_all_proxy cur last es : forall s : sstate, prelax_all d ptarget cur last s es = relax_all d target cur last s es.
    Proof.
      induction es as [|e es IH]; intros s; simpl; [reflexivity|].
      rewrite relax_proxy. destruct (relax d target cur last s e); simpl; auto.
    Qed.

    Lemma relax_all_GI_any cur last es (s : sstate) hist : GI (s_g s) hist ->
      relax_all d target cur last s es <> OutOfFuel
      /\ forall s', relax_all d target cur last s es = Ok s' ->
           exists hist', GI (s_g s') hist'
                         /\ List.length (s_pq s') + List.length hist <= List.length (s_pq s) + List.length hist'.
    Proof.
      rewrite <- relax_all_proxy.
      apply (relax_all_GI clt cadd czero cfloor g frontier traverse pestimate d source ptarget ecost Hwf Hsrc).
      - unfold ptarget. intros t Ht. destruct target; [|discriminate]. inversion Ht; subst. exact Hsrc.
      - exact Hasym.
      - exact Hletrans.
      - exact Hloc.
      - exact Hinfl.
      - intros e st prev. apply cr_nf, Hfr.
      - intros e prev st. apply cr_nf, Htr.
      - intros a b st _ _. unfold pestimate. destruct target; apply cr_nf, Hest.
    Qed.

    Lemma step_GI_any init (s : sstate) hist : GI (s_g s) hist ->
      step d source target init s <> OutOfFuel
      /\ (forall s', step d source target init s = Ok (inl s') ->
            exists hist', GI (s_g s') hist'
                          /\ S (List.length (s_pq s') + List.length hist) <= List.length (s_pq s) + List.length hist').
    Proof.
      intros HG. unfold Search.step.
      destruct (terminate (size (s_tree s)) (s_iters s)); [split; discriminate|].
      destruct (pq_pop clt (s_pq s)) as [[[v c] q']|] eqn:Hp.
      2:{ destruct target; split; discriminate. }
      pose proof (pq_pop_len clt _ _ _ _ Hp) as Hlen.
      destruct (match target with Some t => Nat.eqb v t | None => false end); [split; discriminate|].
      destruct (if Nat.eqb v source then Ok (None, init)
                else match s_tree s !! v with
                     | Some b => Ok (Some (et_edge (b_et b)), et_state (b_et b))
                     | None => Err "internal: vertex missing from solution"%string
                     end) as [[last cur]| | |] eqn:Hle; simpl; try (split; discriminate).
      2:{ exfalso. destruct (Nat.eqb v source); [discriminate|]. destruct (s_tree s !! v); discriminate. }
      destruct (relax_all_GI_any cur last (incident d g v) (mkS q' (s_g s) (s_tree s) (s_iters s)) hist HG) as (Hnf&Hok).
      destruct (relax_all d target cur last (mkS q' (s_g s) (s_tree s) (s_iters s)) (incident d g v)) as [s2| | |] eqn:Hr; simpl;
        try (split; discriminate).
      2:{ contradiction. }
      split; [discriminate|].
      intros s' [= <-]. destruct (Hok s2 eq_refl) as (h2&HG2&Hl2). exists h2. simpl in *. split; [exact HG2|lia].
    Qed.

    Lemma run_loop_nf_any init : forall fuel (s : sstate) hist, GI (s_g s) hist ->
      List.length (s_pq s) + path_bound g < fuel + List.length hist ->
      run_loop fuel d source target init s <> OutOfFuel.
    Proof.
      induction fuel as [|f IH]; intros s hist HG Hf.
      - pose proof (hist_bound clt cadd czero g d source ecost Hwf Hsrc _ _ HG). lia.
      - simpl. destruct (step_GI_any init s hist HG) as (Hnf&Hinl).
        destruct (step d source target init s) as [[s'|s']| | |] eqn:Hs; simpl; try discriminate.
        2:{ contradiction. }
        destruct (Hinl s' eq_refl) as (h'&HG'&Hl'). apply (IH s' h' HG'). lia.
    Qed.

    Lemma run_loop_init_nf init h0 fuel : fuel_bound g <= fuel ->
      run_loop fuel d source target init (mkS [(source, h0)] {[source := czero]} ∅ 0) <> OutOfFuel.
    Proof.
      intros Hf. apply (run_loop_nf_any init fuel _ [[]]).
      - apply (GI_init clt cadd czero g d source ecost Hasym).
      - unfold fuel_bound in Hf. simpl. lia.
    Qed.
  End Target.
End NoCrash.

(* ---------------------------------------------------------------- run_a_star, run_vertex_oriented *)
Section Vertex.
  Context {C St : Type}.
  Variable clt : C -> C -> bool.
  Variable cadd : C -> C -> C.
  Variable czero : C.
  Variable cfloor : C -> C.
  Variable g : graph.
  Variable frontier : nat -> St -> option nat -> res bool.
  Variable traverse : dir -> nat -> option nat -> St -> res (C * C * St).
  Variable estimate : nat -> nat -> St -> res C.
  Variable init_state : res St.
  Variable terminate : nat -> nat -> option string.
  Variable d : dir.
  Variable ecost : nat -> C.
  Notation le := (ReachCostP.le clt).

  Hypothesis Hwf : wf_graph g.
  Hypothesis Hasym : forall a b, clt a b = true -> clt b a = false.
  Hypothesis Hletrans : forall a b c, le a b -> le b c -> le a c.
  Hypothesis Hloc : forall e prev st ac tc st', traverse d e prev st = Ok (ac, tc, st') -> cfloor (cadd ac tc) = ecost e.
  Hypothesis Hinfl : forall e prev st ac tc st' a, traverse d e prev st = Ok (ac, tc, st') -> le a (cadd a (cfloor (cadd ac tc))).
  Hypothesis Hfr : forall e st prev, crashes (frontier e st prev) = false.
  Hypothesis Htr : forall e prev st, crashes (traverse d e prev st) = false.
  Hypothesis Hest : forall a b st, crashes (estimate a b st) = false.
  Hypothesis Hinit : crashes init_state = false.

  Notation run_loop := (run_loop clt cadd czero cfloor g frontier traverse estimate terminate).
  Notation run_a_star := (run_a_star clt cadd czero cfloor g frontier traverse estimate init_state terminate).
  Notation run_a_star_state := (run_a_star_state clt cadd czero cfloor g frontier traverse estimate init_state terminate).
  Notation run_vertex_oriented := (run_vertex_oriented clt cadd czero cfloor g frontier traverse estimate init_state terminate).

  Lemma run_loop_never_crashes fuel source target init h0 : source < nverts g -> fuel_bound g <= fuel ->
    crashes (run_loop fuel d source target init (mkS [(source, h0)] {[source := czero]} ∅ 0)) = false.
  Proof.
    intros Hsrc Hf. apply cr_intro.
    - apply (run_loop_np clt cadd czero cfloor g frontier traverse estimate terminate d Hfr Htr Hest).
    - apply (run_loop_init_nf clt cadd czero cfloor g frontier traverse estimate terminate d ecost Hfr Htr Hest
               source Hwf Hsrc Hasym Hletrans Hloc Hinfl target init h0 fuel Hf).
  Qed.

  Theorem run_a_star_never_crashes fuel source target : fuel_bound g <= fuel ->
    crashes (run_a_star fuel d source target) = false.
  Proof.
    intros Hf. unfold Search.run_a_star.
    destruct (Nat.ltb source (nverts g)) eqn:Hs; simpl; [|reflexivity].
    apply Nat.ltb_lt in Hs.
    destruct (match target with Some t => Nat.eqb t source | None => false end); [reflexivity|].
    apply cr_bind; [exact Hinit|]. intros init _.
    apply cr_bind; [destruct target; [apply Hest|reflexivity]|]. intros h0 _.
    apply cr_bind; [apply run_loop_never_crashes; assumption|]. intros s _. reflexivity.
  Qed.

  Theorem run_a_star_state_never_crashes fuel source target : fuel_bound g <= fuel ->
    crashes (run_a_star_state fuel d source target) = false.
  Proof.
    intros Hf. unfold Search.run_a_star_state.
    destruct (Nat.ltb source (nverts g)) eqn:Hs; simpl; [|reflexivity].
    apply Nat.ltb_lt in Hs.
    apply cr_bind; [exact Hinit|]. intros init _.
    apply cr_bind; [destruct target; [apply Hest|reflexivity]|]. intros h0 _.
    apply run_loop_never_crashes; assumption.
  Qed.

  Theorem run_vertex_oriented_never_crashes fuel source target : fuel_bound g <= fuel ->
    crashes (run_vertex_oriented fuel d source target) = false.
  Proof.
    intros Hf. unfold Search.run_vertex_oriented.
    apply cr_bind; [apply run_a_star_never_crashes, Hf|]. intros [tree it] _.
    destruct target as [t|]; [|reflexivity].
    apply cr_bind; [apply backtrack_never_crashes|]. intros route _. reflexivity.
  Qed.
End Vertex.

(* ---------------------------------------------------------------- run_edge_oriented over any algorithm *)
Section Edge.
  Context {C St : Type}.
  Variable czero : C.
  Variable g : graph.
  Variable traverse : dir -> nat -> option nat -> St -> res (C * C * St).
  Variable init_state : res St.
  Variable d : dir.
  Variable alg : nat -> option nat -> res (sresult C St).
  Hypothesis Htr : forall e prev st, crashes (traverse d e prev st) = false.
  Hypothesis Hinit : crashes init_state = false.

  Notation run_edge_oriented := (run_edge_oriented czero g traverse init_state d alg).

  (* the wrapper calls the vertex-oriented algorithm at most once, and only at one of these two argument pairs *)
  Theorem run_edge_oriented_never_crashes_at source target :
    (forall e1, get_edge g source = Some e1 -> target = None -> crashes (alg (key_vertex d e1) None) = false) ->
    (forall e1 te e2, get_edge g source = Some e1 -> target = Some te -> get_edge g te = Some e2 ->
       crashes (alg (key_vertex d e1) (Some (term_vertex d e2))) = false) ->
    crashes (run_edge_oriented source target) = false.
  Proof.
    intros Hnone Hsome. unfold Search.run_edge_oriented.
    destruct (get_edge g source) as [e1|] eqn:He1; [|reflexivity].
    apply cr_bind; [exact Hinit|]. intros init _. cbv zeta.
    destruct target as [te|].
    - destruct (get_edge g te) as [e2|] eqn:He2; [|reflexivity].
      destruct (Nat.eqb source te); [reflexivity|].
      destruct (Nat.eqb (key_vertex d e1) (term_vertex d e2)).
      + apply cr_bind; [exact Hinit|]. intros init2 _.
        apply cr_bind; [apply Htr|]. intros [[ac1 tc1] s1] _.
        apply cr_bind; [apply Htr|]. intros [[ac2 tc2] s2] _. reflexivity.
      + apply cr_bind; [apply (Hsome e1 te e2); auto|]. intros r _.
        destruct (Nat.eqb (List.length (r_trees r)) 0); [reflexivity|].
        apply cr_bind; [|intros routes _; reflexivity].
        generalize (r_routes r). intros rs. induction rs as [|rt rest IH]; [reflexivity|].
        destruct (last rt) as [fin|]; [|reflexivity].
        apply cr_bind; [exact IH|]. intros rest' _. reflexivity.
    - apply cr_bind; [apply (Hnone e1); auto|]. intros r _. reflexivity.
  Qed.

  Theorem run_edge_oriented_never_crashes source target :
    (forall s t, crashes (alg s t) = false) -> crashes (run_edge_oriented source target) = false.
  Proof. intros Halg. apply run_edge_oriented_never_crashes_at; intros; apply Halg. Qed.
End Edge.

End Link2SearchP.
