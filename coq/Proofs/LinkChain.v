(* LINK L1 (C03 <- C02/C04/C01), generic part.

   C03 characterises the states along a route under the premise [chain]: every element of the route is the
   traversal result of its edge taken from the state (and with the previous edge) its predecessor left.  For a
   route that a search backtracks out of its tree this holds when no label is replaced after its children were
   created.  C02 proves that (no_reopen / Inv.inv_tree: the parent of every tree entry is CLOSED, and a closed
   vertex is never relabelled) for every priority F v x = x + hv v with (edge) and (reflect) - Dijkstra over an
   abstract cost algebra and A-star over Q with a consistent estimate.

   This file proves the link itself, once, next to C02's invariant and for the same abstract queue:

     TreeChain init tree   every tree entry (v, b) records exactly what [traverse] returned for b's edge from the
                           (previous edge, state) pair that the tree NOW holds for b's parent
                           (the pair of the source is (None, init))
     run_loop_chain        TreeChain holds in the state a run returns (and in every state on the way)
     backtrack_fold        on a TreeChain tree, backtracking from ANY vertex returns a route that is the left fold
                           of traverse along its own edge ids from (None, init): [route_fold]
     dijkstra_* / astar_*  the two instances about Search.run_a_star / Search.run_vertex_oriented themselves

   No axioms.  Everything imported is read-only. *)
From Coq Require Import List Arith Bool String Lia QArith Lqa.
From stdpp Require Import gmap.
From RC Require Import Base.Res Base.Num Model.Search Model.SearchSpec Proofs.Optimal Proofs.OptimalCore Proofs.OptimalInst.
Import ListNotations.

Module LinkChain.
Import Search SearchSpec Optimal OptimalCore OptimalInst.

(* ------------------------------------------------------------------ the fold of a traversal function *)
Section Fold.
  Context {C St : Type}.
  Variable trav : nat -> option nat -> St -> res (C * C * St).     (* traverse d: edge, previous edge, state *)
  Notation etrav := (etrav C St).

  (* the route along [es] from state [st] reached over [prev]: each hop reports what [trav] returned for it *)
  Fixpoint route_fold (prev : option nat) (st : St) (es : list nat) : res (list etrav) :=
    match es with
    | [] => Ok []
    | e :: r =>
        do x <- trav e prev st;
        let '(ac, tc, st') := x in
        do rest <- route_fold (Some e) st' r;
        Ok (mkEt e ac tc st' :: rest)
    end.

  (* (last edge, last state) of a route; (prev, st) for the empty route *)
  Definition route_end (prev : option nat) (st : St) (r : list etrav) : option nat * St :=
    fold_left (fun _ et => (Some (et_edge et), et_state et)) r (prev, st).

  Lemma route_end_app prev st r1 r2 :
    route_end prev st (r1 ++ r2) = route_end (fst (route_end prev st r1)) (snd (route_end prev st r1)) r2.
  Proof. unfold route_end. rewrite fold_left_app. destruct (fold_left _ r1 (prev, st)); reflexivity. Qed.

  Lemma route_fold_cons_inv prev st e es r : route_fold prev st (e :: es) = Ok r ->
    exists ac tc st' rest, trav e prev st = Ok (ac, tc, st') /\ route_fold (Some e) st' es = Ok rest
                           /\ r = mkEt e ac tc st' :: rest.
  Proof.
    cbn [route_fold]. destruct (trav e prev st) as [[[ac tc] st']| | |] eqn:Et; cbn [bind]; try discriminate.
    destruct (route_fold (Some e) st' es) as [rest| | |] eqn:Er; cbn [bind]; try discriminate.
    intros H; inversion H; subst. exists ac, tc, st', rest. auto.
  Qed.

  Lemma route_fold_ids es : forall prev st r, route_fold prev st es = Ok r -> map et_edge r = es.
  Proof.
    induction es as [|e es IH]; intros prev st r H.
    - inversion H; reflexivity.
    - apply route_fold_cons_inv in H as (ac & tc & st' & rest & _ & Hr & ->). cbn. f_equal. eauto.
  Qed.

  Lemma route_fold_length es prev st r : route_fold prev st es = Ok r -> List.length r = List.length es.
  Proof. intros H. rewrite <- (route_fold_ids _ _ _ _ H). symmetry. apply map_length. Qed.

  Lemma route_fold_app es1 : forall es2 prev st r1 r2,
    route_fold prev st es1 = Ok r1 ->
    route_fold (fst (route_end prev st r1)) (snd (route_end prev st r1)) es2 = Ok r2 ->
    route_fold prev st (es1 ++ es2) = Ok (r1 ++ r2).
  Proof.
    induction es1 as [|e es1 IH]; intros es2 prev st r1 r2 H1 H2.
    - inversion H1; subst. exact H2.
    - apply route_fold_cons_inv in H1 as (ac & tc & st' & rest & Ht & Hr & ->).
      cbn [app route_fold]. rewrite Ht. cbn [bind].
      rewrite (IH es2 (Some e) st' rest r2 Hr H2). reflexivity.
  Qed.

  Lemma route_fold_app_inv es1 : forall es2 prev st r,
    route_fold prev st (es1 ++ es2) = Ok r ->
    exists r1 r2, r = r1 ++ r2 /\ route_fold prev st es1 = Ok r1
                  /\ route_fold (fst (route_end prev st r1)) (snd (route_end prev st r1)) es2 = Ok r2.
  Proof.
    induction es1 as [|e es1 IH]; intros es2 prev st r H.
    - exists [], r. auto.
    - cbn [app] in H. apply route_fold_cons_inv in H as (ac & tc & st' & rest & Ht & Hr & ->).
      destruct (IH _ _ _ _ Hr) as (r1 & r2 & -> & H1 & H2).
      exists (mkEt e ac tc st' :: r1), r2. split; [reflexivity|]. split; [|exact H2].
      cbn [route_fold]. rewrite Ht. cbn [bind]. rewrite H1. reflexivity.
  Qed.

  (* the first k hops are the fold along the first k edges *)
  Lemma route_fold_prefix es : forall prev st r k,
    route_fold prev st es = Ok r -> route_fold prev st (firstn k es) = Ok (firstn k r).
  Proof.
    induction es as [|e es IH]; intros prev st r k H.
    - inversion H; subst. destruct k; reflexivity.
    - apply route_fold_cons_inv in H as (ac & tc & st' & rest & Ht & Hr & ->).
      destruct k as [|k]; [reflexivity|]. cbn [firstn route_fold]. rewrite Ht. cbn [bind].
      rewrite (IH _ _ _ k Hr). reflexivity.
  Qed.

  (* the k-th hop: its edge is the k-th edge, and its (access cost, traversal cost, state) are what [trav] returned
     for that edge from where the fold along the first k edges ended *)
  Lemma route_fold_nth es prev st r k et :
    route_fold prev st es = Ok r -> nth_error r k = Some et ->
    nth_error es k = Some (et_edge et)
    /\ route_fold prev st (firstn k es) = Ok (firstn k r)
    /\ trav (et_edge et) (fst (route_end prev st (firstn k r))) (snd (route_end prev st (firstn k r)))
       = Ok (et_access et, et_trav et, et_state et)
    /\ route_end prev st (firstn (S k) r) = (Some (et_edge et), et_state et).
  Proof.
    intros H Hk.
    assert (Hid : nth_error es k = Some (et_edge et)).
    { rewrite <- (route_fold_ids _ _ _ _ H). rewrite nth_error_map, Hk. reflexivity. }
    split; [exact Hid|]. split; [eapply route_fold_prefix; eauto|].
    pose proof (nth_error_split r k Hk) as (l1 & l2 & Er & Hl1).
    assert (Ef : firstn k r = l1).
    { rewrite Er, <- Hl1. rewrite firstn_app, Nat.sub_diag, firstn_all. cbn. apply app_nil_r. }
    assert (Ees : es = map et_edge l1 ++ et_edge et :: map et_edge l2).
    { rewrite <- (route_fold_ids _ _ _ _ H), Er, map_app. reflexivity. }
    rewrite Ees in H. apply route_fold_app_inv in H as (r1 & r2 & E & H1 & H2).
    assert (r1 = l1 /\ r2 = et :: l2) as [-> ->].
    { apply app_inj_1; [|congruence]. rewrite (route_fold_length _ _ _ _ H1), map_length. reflexivity. }
    apply route_fold_cons_inv in H2 as (ac & tc & st' & rest & Ht & _ & E2). rewrite Ef.
    destruct et as [ee ea etv es']. cbn [et_edge et_access et_trav et_state] in *.
    inversion E2; subst ea etv es' l2. split; [exact Ht|].
    rewrite Er, <- Hl1.
    replace (firstn (S (List.length l1)) (l1 ++ mkEt ee ac tc st' :: rest)) with (l1 ++ [mkEt ee ac tc st']).
    - rewrite route_end_app. reflexivity.
    - rewrite firstn_app, firstn_all2 by lia. replace (S (List.length l1) - List.length l1) with 1 by lia. reflexivity.
  Qed.
End Fold.

(* ------------------------------------------------------------------ the invariant, next to C02's *)
Section Generic.
  Context {C St : Type}.
  Variable clt : C -> C -> bool.
  Variable cadd : C -> C -> C.
  Variable czero : C.
  Variable cfloor : C -> C.
  Hypothesis alg : cost_algebra clt cadd czero.
  Notation cle := (cle clt).
  Notation ceq := (ceq clt).
  Notation keys q := (map fst q).

  Variable g : graph.
  Variable frontier : nat -> St -> option nat -> res bool.
  Variable traverse : dir -> nat -> option nat -> St -> res (C * C * St).
  Variable estimate : nat -> nat -> St -> res C.
  Variable init_state : res St.
  Variable terminate : nat -> nat -> option string.
  Variable d : dir.
  Variable source : nat.
  Variable target : option nat.
  Variable c : nat -> C.
  Variable ok : nat -> bool.
  Variable hv : nat -> C.

  Hypothesis Hfront : forall e st prev b, frontier e st prev = Ok b -> b = ok e.
  Hypothesis Htrav : forall e prev st ac tc st', traverse d e prev st = Ok (ac, tc, st') -> ceq (cfloor (cadd ac tc)) (c e).
  Hypothesis Hinfl : forall a e, ok e = true -> cle a (cadd a (c e)).
  Hypothesis Hest : forall v st h, hof czero estimate target v st = Ok h -> ceq h (hv v).
  Hypothesis Hedge : forall e ed x, get_edge g e = Some ed -> ok e = true ->
      cle (F cadd hv (term_vertex d ed) x) (F cadd hv (key_vertex d ed) (cadd x (c e))).
  Hypothesis Hreflect : forall v x y, cle (F cadd hv v x) (F cadd hv v y) -> cle x y.

  Variable pop : list (nat * C) -> option (nat * C * list (nat * C)).
  Hypothesis pop_none : forall q, pop q = None -> q = [].
  Hypothesis pop_some : forall q v p q', List.NoDup (keys q) -> pop q = Some (v, p, q') ->
      In (v, p) q /\ (forall v' p', In (v', p') q -> cle p p') /\ List.NoDup (keys q') /\
      (forall x, In x q' <-> In x q /\ fst x <> v).

  Notation sstate := (sstate C St).
  Notation branch := (branch C St).
  Notation Inv := (Inv clt cadd czero cfloor g d source c ok hv).
  Notation closed := (closed (C:=C) (St:=St)).
  Notation relax := (relax clt cadd czero cfloor g frontier traverse estimate).
  Notation relax_all := (relax_all clt cadd czero cfloor g frontier traverse estimate).
  Notation step_with := (step_with clt cadd czero cfloor g frontier traverse estimate terminate d source target pop).
  Notation run_loop_with := (run_loop_with clt cadd czero cfloor g frontier traverse estimate terminate d source target pop).
  Notation run_state_with := (run_state_with clt cadd czero cfloor g frontier traverse estimate init_state terminate d source target pop).
  Notation run_a_star_with := (run_a_star_with clt cadd czero cfloor g frontier traverse estimate init_state terminate d source target pop).
  Notation run_vertex_oriented_with := (run_vertex_oriented_with clt cadd czero cfloor g frontier traverse estimate init_state terminate d source target pop).
  Notation start := (start czero source).
  Notation RelaxInv := (relax_inv clt cadd czero cfloor alg g frontier traverse estimate d source target c ok hv
                          Hfront Htrav Hinfl Hest Hedge Hreflect).
  Notation PopInv := (pop_inv clt cadd czero cfloor alg g d source c ok hv Hedge Hreflect pop pop_some).
  Notation StepInv := (step_inv clt cadd czero cfloor alg g frontier traverse estimate terminate d source target c ok hv
                         Hfront Htrav Hinfl Hest Hedge Hreflect pop pop_none pop_some).
  Notation route_fold := (route_fold (traverse d)).
  Notation route_end := (@route_end C St).

  (* what the loop reads for a popped vertex: (last edge, state); the source has (None, init) *)
  Definition le_st_of (init : St) (tree : gmap nat branch) (u : nat) : option (option nat * St) :=
    if Nat.eqb u source then Some (None, init)
    else match tree !! u with
         | Some b => Some (Some (et_edge (b_et b)), et_state (b_et b))
         | None => None
         end.

  Definition TreeChain (init : St) (tree : gmap nat branch) : Prop :=
    forall v b, tree !! v = Some b ->
      exists last cur, le_st_of init tree (b_term b) = Some (last, cur)
        /\ traverse d (et_edge (b_et b)) last cur = Ok (et_access (b_et b), et_trav (b_et b), et_state (b_et b)).

  Lemma le_st_insert_ne init tree kv b u : u <> kv -> le_st_of init (<[kv := b]> tree) u = le_st_of init tree u.
  Proof. intros Hne. unfold le_st_of. rewrite lookup_insert_ne by auto. reflexivity. Qed.

  (* inserting an entry under a key that is neither the new entry's parent nor the parent of an old entry *)
  Lemma chain_insert init tree kv u e ac tc st2 last cur :
    TreeChain init tree ->
    (forall v b, v <> kv -> tree !! v = Some b -> b_term b <> kv) -> u <> kv ->
    le_st_of init tree u = Some (last, cur) -> traverse d e last cur = Ok (ac, tc, st2) ->
    TreeChain init (<[kv := mkBranch u (mkEt e ac tc st2)]> tree).
  Proof.
    intros HT Hpar Hu Hle Htr v b Hb. destruct (Nat.eq_dec v kv) as [->|Hne].
    - rewrite lookup_insert in Hb. inversion Hb; subst b. cbn [b_term b_et et_edge et_access et_trav et_state].
      exists last, cur. rewrite le_st_insert_ne by exact Hu. auto.
    - rewrite lookup_insert_ne in Hb by auto. destruct (HT v b Hb) as (l0 & c0 & H1 & H2).
      exists l0, c0. rewrite le_st_insert_ne by (eapply Hpar; eauto). auto.
  Qed.

  (* in a state with a pending expansion of u: u and every parent recorded in the tree are closed *)
  Lemma pending_closed u l s : Inv (Some (u, l)) s -> exists gu, closed s u gu.
  Proof. intros HI. destruct (inv_bound _ _ _ _ _ _ _ _ _ _ _ _ HI) as (m & _ & _ & Hc). destruct (Hc u l eq_refl) as (gu & Hu & _). eauto. Qed.
  Lemma parent_closed pend s v b : Inv pend s -> s_tree s !! v = Some b -> exists gu, closed s (b_term b) gu.
  Proof.
    intros HI Hb. destruct (inv_tree _ _ _ _ _ _ _ _ _ _ _ _ HI v b Hb) as (ed & gu & gv & _ & _ & _ & _ & A5 & _). eauto.
  Qed.

  (* one iteration of the `for edge_id in incident edges` loop *)
  Lemma relax_chain init u e l s s' ed cur last :
    Inv (Some (u, e :: l)) s -> get_edge g e = Some ed -> term_vertex d ed = u ->
    TreeChain init (s_tree s) -> le_st_of init (s_tree s) u = Some (last, cur) ->
    relax d target cur last s e = Ok s' ->
    TreeChain init (s_tree s') /\ le_st_of init (s_tree s') u = Some (last, cur).
  Proof.
    intros HI He Ht HT Hle Hr. pose proof (RelaxInv u e l s s' ed cur last HI He Ht Hr) as HI'.
    revert Hr. unfold Search.relax. rewrite He.
    destruct (frontier e cur last) as [b| | |]; cbn [bind]; try discriminate.
    destruct (negb b); [intros E; inversion E; subst; auto|].
    destruct (traverse d e last cur) as [[[ac tc] st2]| | |] eqn:Etr; cbn [bind]; try discriminate.
    destruct (s_g s !! term_vertex d ed) as [gcur|]; [|intros E; inversion E; subst; auto].
    set (kv := key_vertex d ed).
    destruct (match s_g s !! kv with Some ex => clt _ ex | None => true end); [|intros E; inversion E; subst; auto].
    destruct (match target with Some t => estimate kv t cur | None => Ok czero end) as [h| | |]; cbn [bind]; try discriminate.
    intros E; inversion E; subst s'; clear E. cbn [s_tree] in *.
    (* kv is queued in the new state, hence not closed there; u and all recorded parents are closed there *)
    assert (Hk : forall x gx, closed (mkS (pq_push_increase clt (s_pq s) kv (cadd (cadd gcur (et_total cadd cfloor (mkEt e ac tc st2))) h))
                                       (<[kv := cadd gcur (et_total cadd cfloor (mkEt e ac tc st2))]> (s_g s))
                                       (<[kv := mkBranch (term_vertex d ed) (mkEt e ac tc st2)]> (s_tree s)) (s_iters s)) x gx -> x <> kv).
    { intros x gx [_ Hnk] ->. apply Hnk. cbn [s_pq]. apply push_keys. auto. }
    assert (Hu : u <> kv).
    { destruct (pending_closed _ _ _ HI') as (gu & Hcu). eapply Hk; eauto. }
    rewrite Ht in *. split.
    - apply chain_insert with (last := last) (cur := cur); auto.
      intros v bb Hv Hb.
      destruct (parent_closed _ _ v bb HI') as (gu & Hcu); [cbn [s_tree]; rewrite lookup_insert_ne by auto; exact Hb|].
      eapply Hk; eauto.
    - rewrite le_st_insert_ne by exact Hu. exact Hle.
  Qed.

  Lemma relax_all_chain init u cur last l : forall s s',
    Inv (Some (u, l)) s -> (forall e, In e l -> exists ed, get_edge g e = Some ed /\ term_vertex d ed = u) ->
    TreeChain init (s_tree s) -> le_st_of init (s_tree s) u = Some (last, cur) ->
    relax_all d target cur last s l = Ok s' -> TreeChain init (s_tree s').
  Proof.
    induction l as [|e l IH]; intros s s' HI Hl HT Hle; cbn [Search.relax_all].
    - intros E; inversion E; subst; auto.
    - destruct (relax d target cur last s e) as [s1| | |] eqn:E1; cbn [bind]; try discriminate.
      destruct (Hl e (or_introl eq_refl)) as (ed & He & Ht). intros H.
      destruct (relax_chain init u e l s s1 ed cur last HI He Ht HT Hle E1) as [HT1 Hle1].
      eapply IH; [exact (RelaxInv u e l s s1 ed cur last HI He Ht E1) | intros; apply Hl; right; auto
                 | exact HT1 | exact Hle1 | exact H].
  Qed.

  (* one iteration of `loop { ... }` *)
  Lemma step_chain init s r : Inv None s -> TreeChain init (s_tree s) -> step_with init s = Ok r ->
    match r with inl s' => TreeChain init (s_tree s') | inr s' => TreeChain init (s_tree s') end.
  Proof.
    intros HI HT. unfold OptimalCore.step_with. destruct (terminate _ _); [discriminate|].
    destruct (pop (s_pq s)) as [[[v p] q']|] eqn:Ep.
    - destruct (PopInv s v p q' HI Ep) as [HI1 _].
      destruct (match target with Some t => Nat.eqb v t | None => false end).
      + intros E; inversion E; subst r. exact HT.
      + assert (Hle : forall x, (if Nat.eqb v source then Ok (None, init)
                                 else match s_tree s !! v with
                                      | Some b => Ok (Some (et_edge (b_et b)), et_state (b_et b))
                                      | None => Err "internal: vertex missing from solution"%string
                                      end) = Ok x -> le_st_of init (s_tree s) v = Some x).
        { unfold le_st_of. destruct (Nat.eqb v source); [intros x E; inversion E; reflexivity|].
          destruct (s_tree s !! v); intros x E; inversion E; reflexivity. }
        destruct (if Nat.eqb v source then _ else _) as [[last cur]| | |] eqn:El; cbn [bind]; try discriminate.
        destruct (relax_all d target cur last _ (incident d g v)) as [s2| | |] eqn:E2; cbn [bind]; try discriminate.
        intros E; inversion E; subst r. cbn [s_tree].
        eapply (relax_all_chain init v cur last (incident d g v)); [exact HI1 | | exact HT | apply Hle; reflexivity | exact E2].
        intros e He. apply incident_spec. exact He.
    - destruct target; [discriminate|]. intros E; inversion E; subst r. exact HT.
  Qed.

  Lemma run_loop_chain fuel init : forall s s', Inv None s -> TreeChain init (s_tree s) ->
    run_loop_with fuel init s = Ok s' -> TreeChain init (s_tree s').
  Proof.
    induction fuel as [|f IH]; intros s s' HI HT; cbn [OptimalCore.run_loop_with]; [discriminate|].
    destruct (step_with init s) as [[s1|s1]| | |] eqn:E; cbn [bind]; try discriminate.
    - pose proof (StepInv init s (inl s1) HI E) as HI1. pose proof (step_chain init s (inl s1) HI HT E) as HT1.
      cbn in HI1, HT1. intros H. exact (IH s1 s' HI1 HT1 H).
    - pose proof (step_chain init s (inr s1) HI HT E) as HT1. cbn in HT1. intros H; inversion H; subst. exact HT1.
  Qed.

  Lemma chain_empty init : TreeChain init ∅.
  Proof. intros v b H. rewrite lookup_empty in H. discriminate. Qed.

  (* the final search state / the returned tree *)
  Theorem run_state_chain fuel s init : run_state_with fuel = Ok s -> init_state = Ok init -> TreeChain init (s_tree s).
  Proof.
    unfold OptimalCore.run_state_with. destruct (negb (Nat.ltb source (nverts g))); [discriminate|].
    intros H Hi. rewrite Hi in H. cbn [bind] in H.
    destruct (hof czero estimate target source init) as [h0| | |] eqn:Eh; cbn [bind] in H; try discriminate.
    eapply run_loop_chain; [| |exact H].
    - apply (start_inv clt cadd czero cfloor alg g terminate d source c ok hv). eapply Hest; eauto.
    - apply chain_empty.
  Qed.

  Theorem run_a_star_chain fuel tree it init : run_a_star_with fuel = Ok (tree, it) -> init_state = Ok init ->
    TreeChain init tree.
  Proof.
    unfold OptimalCore.run_a_star_with. destruct (negb (Nat.ltb source (nverts g))); [discriminate|].
    destruct (match target with Some t => Nat.eqb t source | None => false end).
    - intros H _. inversion H; subst. apply chain_empty.
    - intros H Hi. rewrite Hi in H. cbn [bind] in H.
      destruct (hof czero estimate target source init) as [h0| | |] eqn:Eh; cbn [bind] in H; try discriminate.
      destruct (run_loop_with fuel init (start h0)) as [s| | |] eqn:El; cbn [bind] in H; try discriminate.
      inversion H; subst. eapply run_loop_chain; [| |exact El].
      + apply (start_inv clt cadd czero cfloor alg g terminate d source c ok hv). eapply Hest; eauto.
      + apply chain_empty.
  Qed.

  (* backtracking on a TreeChain tree: the route IS the fold of traverse along its own edges from (None, init) *)
  Lemma backtrack_fold init tree : TreeChain init tree -> forall fuel this vis acc r,
    backtrack_loop fuel source tree this vis acc = Ok r ->
    exists pre, r = pre ++ acc /\ route_fold None init (map et_edge pre) = Ok pre
                /\ le_st_of init tree this = Some (route_end None init pre).
  Proof.
    intros HT. induction fuel as [|f IH]; intros this vis acc r; cbn [backtrack_loop].
    - destruct (Nat.eqb this source) eqn:E; [|discriminate]. intros H; inversion H; subst r.
      exists []. unfold le_st_of. rewrite E. auto.
    - destruct (Nat.eqb this source) eqn:E.
      + intros H; inversion H; subst r. exists []. unfold le_st_of. rewrite E. auto.
      + destruct (tree !! this) as [b|] eqn:Eb; [|discriminate].
        destruct (existsb _ vis); [discriminate|]. intros H.
        destruct (IH _ _ _ _ H) as (pre & -> & Hf & Hle).
        destruct (HT this b Eb) as (last & cur & Hle' & Htr).
        rewrite Hle in Hle'. inversion Hle' as [Hend].
        exists (pre ++ [b_et b]). rewrite <- app_assoc. split; [reflexivity|]. split.
        * rewrite map_app. eapply route_fold_app; [exact Hf|]. rewrite Hend. cbn [fst snd map route_fold].
          rewrite Htr. cbn [bind]. destruct (b_et b); reflexivity.
        * unfold le_st_of. rewrite E, Eb. rewrite route_end_app. reflexivity.
  Qed.

  Theorem tree_route_fold fuel tree it init v r :
    run_a_star_with fuel = Ok (tree, it) -> init_state = Ok init ->
    vertex_oriented_route source v tree = Ok r -> route_fold None init (map et_edge r) = Ok r.
  Proof.
    intros H Hi Hr. pose proof (run_a_star_chain fuel tree it init H Hi) as HT.
    destruct (backtrack_fold init tree HT _ _ _ _ _ Hr) as (pre & -> & Hf & _). rewrite app_nil_r. exact Hf.
  Qed.

  Theorem state_route_fold fuel s init v r :
    run_state_with fuel = Ok s -> init_state = Ok init ->
    vertex_oriented_route source v (s_tree s) = Ok r -> route_fold None init (map et_edge r) = Ok r.
  Proof.
    intros H Hi Hr. pose proof (run_state_chain fuel s init H Hi) as HT.
    destruct (backtrack_fold init (s_tree s) HT _ _ _ _ _ Hr) as (pre & -> & Hf & _). rewrite app_nil_r. exact Hf.
  Qed.

  Theorem route_is_fold fuel t res : target = Some t -> run_vertex_oriented_with fuel = Ok res ->
    exists tree r, r_trees res = [tree] /\ r_routes res = [r]
      /\ (forall init, init_state = Ok init ->
            route_fold None init (map et_edge r) = Ok r
            /\ forall v rv, vertex_oriented_route source v tree = Ok rv -> route_fold None init (map et_edge rv) = Ok rv)
      /\ (t <> source -> exists init, init_state = Ok init).
  Proof.
    intros Ht. unfold OptimalCore.run_vertex_oriented_with.
    destruct (run_a_star_with fuel) as [[tree it]| | |] eqn:Ea; cbn [bind]; try discriminate. rewrite Ht.
    destruct (vertex_oriented_route source t tree) as [route| | |] eqn:Er; cbn [bind]; try discriminate.
    intros E; inversion E; subst res. cbn [r_trees r_routes]. exists tree, route. split; [reflexivity|]. split; [reflexivity|].
    split.
    - intros init Hi. split; [exact (tree_route_fold fuel tree it init t route Ea Hi Er)|].
      intros v rv Hv. exact (tree_route_fold fuel tree it init v rv Ea Hi Hv).
    - intros Hne. revert Ea. unfold OptimalCore.run_a_star_with.
      destruct (negb (Nat.ltb source (nverts g))); [discriminate|]. rewrite Ht.
      apply Nat.eqb_neq in Hne. rewrite Hne. destruct init_state as [init| | |]; cbn [bind]; try discriminate. eauto.
  Qed.

  (* ---- LINK L3 (C05 <- C02): the cost accumulated along the tree path to v is v's label, and it is least ---- *)
  Notation pwalk := (pwalk g d ok).
  Notation rcost := (rcost cadd cfloor).
  Notation pcost := (pcost cadd c).

  Lemma final_inv (s : sstate) : Final clt cadd czero cfloor g d source target c ok hv s -> exists pend, Inv pend s.
  Proof. unfold Final. destruct target; [intros (pend & gt & HI & _); eauto | intros [HI _]; eauto]. Qed.

  Theorem tree_path_label fuel s v r : run_state_with fuel = Ok s ->
    vertex_oriented_route source v (s_tree s) = Ok r ->
    exists gv, s_g s !! v = Some gv /\ pwalk source (map et_edge r) v
               /\ ceq (rcost czero r) gv /\ ceq (rcost czero r) (pcost czero (map et_edge r)).
  Proof.
    intros H Hr.
    pose proof (run_state_final clt cadd czero cfloor alg g frontier traverse estimate init_state terminate d source target
                  c ok hv Hfront Htrav Hinfl Hest Hedge Hreflect pop pop_none pop_some fuel s H) as HF.
    destruct (final_inv s HF) as (pend & HI).
    assert (Hg : exists gv, s_g s !! v = Some gv).
    { unfold vertex_oriented_route in Hr. cbn [backtrack_loop] in Hr. destruct (Nat.eqb v source) eqn:E.
      - apply Nat.eqb_eq in E. subst v. exists czero. exact (inv_src _ _ _ _ _ _ _ _ _ _ _ _ HI).
      - destruct (s_tree s !! v) as [b|] eqn:Eb; [|discriminate].
        destruct (inv_tree _ _ _ _ _ _ _ _ _ _ _ _ HI v b Eb) as (ed & gu & gv & _ & _ & _ & _ & _ & A6 & _). eauto. }
    destruct Hg as (gv & Hgv). exists gv. split; [exact Hgv|].
    destruct (backtrack_ok clt cadd czero cfloor alg g d source c ok hv pend s HI _ _ _ _ _ _ Hr Hgv) as (pre & -> & Hw & Hc1 & Hc2).
    rewrite app_nil_r. auto.
  Qed.

  Theorem tree_path_least fuel s v r : target = None -> run_state_with fuel = Ok s ->
    vertex_oriented_route source v (s_tree s) = Ok r ->
    forall P, pwalk source P v -> cle (rcost czero r) (pcost czero P).
  Proof.
    intros Ht H Hr P HP. destruct (tree_path_label fuel s v r H Hr) as (gv & Hgv & _ & Hc & _).
    destruct (generic_tree_labels clt cadd czero cfloor alg g frontier traverse estimate init_state terminate d source target
                c ok hv Hfront Htrav Hinfl Hest Hedge Hreflect pop pop_none pop_some fuel s Ht H P v HP) as (gx & Hgx & Hle).
    assert (gx = gv) by congruence. subst gx.
    apply (cle_trans _ _ _ alg) with (b := gv); [apply Hc | exact Hle].
  Qed.
End Generic.

(* ------------------------------------------------------------------ Search.run_a_star is the instance pop := pq_pop *)
Section Link.
  Context {C St : Type}.
  Variable clt : C -> C -> bool.
  Variable cadd : C -> C -> C.
  Variable czero : C.
  Variable cfloor : C -> C.
  Variable g : graph.
  Variable frontier : nat -> St -> option nat -> res bool.
  Variable traverse : dir -> nat -> option nat -> St -> res (C * C * St).
  Variable estimate : nat -> nat -> St -> res C.
  Variable init_state : res St.
  Variable terminate : nat -> nat -> option string.
  Variable d : dir.
  Variable source : nat.
  Variable target : option nat.

  Lemma run_a_star_link fuel :
    run_a_star_with clt cadd czero cfloor g frontier traverse estimate init_state terminate d source target (pq_pop clt) fuel
    = run_a_star clt cadd czero cfloor g frontier traverse estimate init_state terminate fuel d source target.
  Proof.
    unfold run_a_star_with, run_a_star, hof, start.
    destruct (negb (Nat.ltb source (nverts g))); auto.
    destruct (match target with Some t => Nat.eqb t source | None => false end); auto.
    destruct init_state as [init| | |]; cbn [bind]; auto.
    destruct (match target with None => Ok czero | Some t => estimate source t init end); cbn [bind]; auto.
    rewrite run_loop_link. reflexivity.
  Qed.
End Link.

(* ------------------------------------------------------------------ Dijkstra: abstract costs, estimate ~ zero *)
Section Dijkstra.
  Context {C St : Type}.
  Variable clt : C -> C -> bool.
  Variable cadd : C -> C -> C.
  Variable czero : C.
  Variable cfloor : C -> C.
  Hypothesis alg : cost_algebra clt cadd czero.
  Hypothesis cadd_zero_r : forall x, ceq clt (cadd x czero) x.
  Notation cle := (cle clt).
  Notation ceq := (ceq clt).

  Variable g : graph.
  Variable frontier : nat -> St -> option nat -> res bool.
  Variable traverse : dir -> nat -> option nat -> St -> res (C * C * St).
  Variable estimate : nat -> nat -> St -> res C.
  Variable init_state : res St.
  Variable terminate : nat -> nat -> option string.
  Variable d : dir.
  Variable source : nat.
  Variable target : option nat.
  Variable c : nat -> C.
  Variable ok : nat -> bool.

  Hypothesis Hfront : forall e st prev b, frontier e st prev = Ok b -> b = ok e.
  Hypothesis Htrav : forall e prev st ac tc st', traverse d e prev st = Ok (ac, tc, st') -> ceq (cfloor (cadd ac tc)) (c e).
  Hypothesis Hinfl : forall a e, ok e = true -> cle a (cadd a (c e)).
  Hypothesis Hest0 : forall v t st h, target = Some t -> estimate v t st = Ok h -> ceq h czero.

  Let hv (v : nat) : C := czero.

  Lemma dj_est v st h : hof czero estimate target v st = Ok h -> ceq h (hv v).
  Proof.
    unfold hof, hv. destruct target as [t|] eqn:Et.
    - intros H. eapply Hest0; eauto.
    - intros H; injection H as <-. apply (ceq_refl clt cadd czero alg).
  Qed.
  Lemma dj_edge e ed x : get_edge g e = Some ed -> ok e = true ->
      cle (F cadd hv (term_vertex d ed) x) (F cadd hv (key_vertex d ed) (cadd x (c e))).
  Proof.
    intros He Hok. unfold F, hv. apply (cle_trans _ _ _ alg) with (b := x); [apply cadd_zero_r|].
    apply (cle_trans _ _ _ alg) with (b := cadd x (c e)); [apply Hinfl; auto|apply cadd_zero_r].
  Qed.
  Lemma dj_reflect v x y : cle (F cadd hv v x) (F cadd hv v y) -> cle x y.
  Proof.
    unfold F, hv. intros H. apply (cle_trans _ _ _ alg) with (b := cadd x czero); [apply cadd_zero_r|].
    apply (cle_trans _ _ _ alg) with (b := cadd y czero); [exact H|apply cadd_zero_r].
  Qed.

  Notation RVO := (run_vertex_oriented clt cadd czero cfloor g frontier traverse estimate init_state terminate).
  Notation RAS := (run_a_star clt cadd czero cfloor g frontier traverse estimate init_state terminate).
  Notation RST := (run_a_star_state clt cadd czero cfloor g frontier traverse estimate init_state terminate).
  Notation route_fold := (route_fold (traverse d)).
  Notation GEN lemma := (lemma C St clt cadd czero cfloor alg g frontier traverse estimate init_state terminate d source target
                           c ok hv Hfront Htrav Hinfl dj_est dj_edge dj_reflect (pq_pop clt) (pq_pop_none clt)
                           (pq_pop_some clt cadd czero alg)).

  Theorem dijkstra_tree_route_fold fuel tree it init v r :
    RAS fuel d source target = Ok (tree, it) -> init_state = Ok init ->
    vertex_oriented_route source v tree = Ok r -> route_fold None init (map et_edge r) = Ok r.
  Proof. intros H. rewrite <- run_a_star_link in H. exact (GEN (@tree_route_fold) fuel tree it init v r H). Qed.

  Theorem dijkstra_state_route_fold fuel s init v r :
    RST fuel d source target = Ok s -> init_state = Ok init ->
    vertex_oriented_route source v (s_tree s) = Ok r -> route_fold None init (map et_edge r) = Ok r.
  Proof. intros H. rewrite <- run_state_link in H. exact (GEN (@state_route_fold) fuel s init v r H). Qed.

  Theorem dijkstra_route_is_fold fuel t res : target = Some t -> RVO fuel d source target = Ok res ->
    exists tree r, r_trees res = [tree] /\ r_routes res = [r]
      /\ (forall init, init_state = Ok init ->
            route_fold None init (map et_edge r) = Ok r
            /\ forall v rv, vertex_oriented_route source v tree = Ok rv -> route_fold None init (map et_edge rv) = Ok rv)
      /\ (t <> source -> exists init, init_state = Ok init).
  Proof. intros Ht H. rewrite <- run_vertex_link in H. exact (GEN (@route_is_fold) fuel t res Ht H). Qed.

  (* L3: the tree path's accumulated cost is the label, and (destination-less run) least among all permitted walks *)
  Theorem dijkstra_tree_path_label fuel s v r : RST fuel d source target = Ok s ->
    vertex_oriented_route source v (s_tree s) = Ok r ->
    exists gv, s_g s !! v = Some gv /\ permitted_walk g d ok source (map et_edge r) v
               /\ ceq (route_cost cadd czero cfloor r) gv
               /\ ceq (route_cost cadd czero cfloor r) (path_cost cadd czero c (map et_edge r)).
  Proof.
    intros H Hr. rewrite <- run_state_link in H.
    destruct (GEN (@tree_path_label) fuel s v r H Hr) as (gv & H1 & H2 & H3 & H4).
    exists gv. split; [exact H1|]. split; [apply pwalk_permitted; exact H2|]. split; [exact H3 | exact H4].
  Qed.

  Theorem dijkstra_tree_path_least fuel s v r : target = None -> RST fuel d source target = Ok s ->
    vertex_oriented_route source v (s_tree s) = Ok r ->
    forall P, permitted_walk g d ok source P v -> cle (route_cost cadd czero cfloor r) (path_cost cadd czero c P).
  Proof.
    intros Ht H Hr P HP. rewrite <- run_state_link in H.
    apply (GEN (@tree_path_least) fuel s v r Ht H Hr P). apply pwalk_permitted. exact HP.
  Qed.
End Dijkstra.

(* ------------------------------------------------------------------ A-star over Q, consistent estimate *)
Section AStarQ.
  Context {St : Type}.
  Variable cfloor : Q -> Q.
  Variable g : graph.
  Variable frontier : nat -> St -> option nat -> res bool.
  Variable traverse : dir -> nat -> option nat -> St -> res (Q * Q * St).
  Variable estimate : nat -> nat -> St -> res Q.
  Variable init_state : res St.
  Variable terminate : nat -> nat -> option string.
  Variable d : dir.
  Variable source : nat.
  Variable t : nat.
  Variable c : nat -> Q.
  Variable ok : nat -> bool.
  Variable hv : nat -> Q.      (* the value of the estimate at v for this target, weight factor included *)

  Hypothesis Hfront : forall e st prev b, frontier e st prev = Ok b -> b = ok e.
  Hypothesis Htrav : forall e prev st ac tc st', traverse d e prev st = Ok (ac, tc, st') -> (cfloor (ac + tc) == c e)%Q.
  Hypothesis Hpos : forall e, ok e = true -> (0 <= c e)%Q.
  Hypothesis Hest : forall v st x, estimate v t st = Ok x -> (x == hv v)%Q.
  Hypothesis Hcons : forall e ed, get_edge g e = Some ed -> ok e = true ->
      (hv (term_vertex d ed) <= c e + hv (key_vertex d ed))%Q.

  Lemma aq_trav : forall e prev st ac tc st', traverse d e prev st = Ok (ac, tc, st') -> ceq Qltb (cfloor (ac + tc)%Q) (c e).
  Proof. intros. apply ceqQ. eauto. Qed.
  Lemma aq_infl : forall a e, ok e = true -> cle Qltb a (a + c e)%Q.
  Proof. intros a e Hok. apply cleQ. specialize (Hpos e Hok). lra. Qed.
  Lemma aq_est : forall v st h, hof 0%Q estimate (Some t) v st = Ok h -> ceq Qltb h (hv v).
  Proof. intros v st h Hh. apply ceqQ. eauto. Qed.
  Lemma aq_edge : forall e ed x, get_edge g e = Some ed -> ok e = true ->
      cle Qltb (F Qplus hv (term_vertex d ed) x) (F Qplus hv (key_vertex d ed) (x + c e)%Q).
  Proof. intros e ed x He Hok. apply cleQ. unfold F. specialize (Hcons e ed He Hok). lra. Qed.
  Lemma aq_reflect : forall v x y, cle Qltb (F Qplus hv v x) (F Qplus hv v y) -> cle Qltb x y.
  Proof. intros v x y Hle. apply cleQ in Hle. apply cleQ. unfold F in Hle. lra. Qed.

  Notation RVO := (run_vertex_oriented Qltb Qplus 0%Q cfloor g frontier traverse estimate init_state terminate).
  Notation RAS := (run_a_star Qltb Qplus 0%Q cfloor g frontier traverse estimate init_state terminate).
  Notation route_fold := (route_fold (traverse d)).
  Notation GEN lemma := (lemma Q St Qltb Qplus 0%Q cfloor Q_algebra g frontier traverse estimate init_state terminate d source (Some t)
                           c ok hv Hfront aq_trav aq_infl aq_est aq_edge aq_reflect (pq_pop Qltb) (pq_pop_none Qltb)
                           (pq_pop_some Qltb Qplus 0%Q Q_algebra)).

  Theorem astar_tree_route_fold fuel tree it init v r :
    RAS fuel d source (Some t) = Ok (tree, it) -> init_state = Ok init ->
    vertex_oriented_route source v tree = Ok r -> route_fold None init (map et_edge r) = Ok r.
  Proof. intros H. rewrite <- run_a_star_link in H. exact (GEN (@tree_route_fold) fuel tree it init v r H). Qed.

  Theorem astar_route_is_fold fuel res : RVO fuel d source (Some t) = Ok res ->
    exists tree r, r_trees res = [tree] /\ r_routes res = [r]
      /\ (forall init, init_state = Ok init ->
            route_fold None init (map et_edge r) = Ok r
            /\ forall v rv, vertex_oriented_route source v tree = Ok rv -> route_fold None init (map et_edge rv) = Ok rv)
      /\ (t <> source -> exists init, init_state = Ok init).
  Proof. intros H. rewrite <- run_vertex_link in H. exact (GEN (@route_is_fold) fuel t res eq_refl H). Qed.
End AStarQ.

(* the form with an explicit heuristic h and weight factor 0 <= w <= 1 (the hypotheses of C02's astar_optimal) *)
Section AStarQW.
  Context {St : Type}.
  Variable cfloor : Q -> Q.
  Variable g : graph.
  Variable frontier : nat -> St -> option nat -> res bool.
  Variable traverse : dir -> nat -> option nat -> St -> res (Q * Q * St).
  Variable estimate : nat -> nat -> St -> res Q.
  Variable init_state : res St.
  Variable terminate : nat -> nat -> option string.
  Variable d : dir.
  Variable source : nat.
  Variable t : nat.
  Variable c : nat -> Q.
  Variable ok : nat -> bool.
  Variable h : nat -> Q.
  Variable w : Q.

  Hypothesis Hfront : forall e st prev b, frontier e st prev = Ok b -> b = ok e.
  Hypothesis Htrav : forall e prev st ac tc st', traverse d e prev st = Ok (ac, tc, st') -> (cfloor (ac + tc) == c e)%Q.
  Hypothesis Hpos : forall e, ok e = true -> (0 <= c e)%Q.
  Hypothesis Hw : (0 <= w /\ w <= 1)%Q.
  Hypothesis Hest : forall v st x, estimate v t st = Ok x -> (x == w * h v)%Q.
  Hypothesis Hcons : forall e ed, get_edge g e = Some ed -> ok e = true ->
      (h (term_vertex d ed) <= c e + h (key_vertex d ed))%Q.

  Lemma wh_consistent : forall e ed, get_edge g e = Some ed -> ok e = true ->
      (w * h (term_vertex d ed) <= c e + w * h (key_vertex d ed))%Q.
  Proof.
    intros e ed He Hok. specialize (Hcons e ed He Hok). specialize (Hpos e Hok). destruct Hw as [Hw0 Hw1].
    set (a := h (term_vertex d ed)) in *. set (b := h (key_vertex d ed)) in *. set (ce := c e) in *.
    assert (w * a <= w * (ce + b))%Q by (rewrite !(Qmult_comm w); apply Qmult_le_compat_r; auto).
    assert (w * ce <= 1 * ce)%Q by (apply Qmult_le_compat_r; auto).
    lra.
  Qed.

  Theorem astar_w_route_is_fold fuel res :
    run_vertex_oriented Qltb Qplus 0%Q cfloor g frontier traverse estimate init_state terminate fuel d source (Some t) = Ok res ->
    exists tree r, r_trees res = [tree] /\ r_routes res = [r]
      /\ (forall init, init_state = Ok init ->
            route_fold (traverse d) None init (map et_edge r) = Ok r
            /\ forall v rv, vertex_oriented_route source v tree = Ok rv ->
                 route_fold (traverse d) None init (map et_edge rv) = Ok rv)
      /\ (t <> source -> exists init, init_state = Ok init).
  Proof.
    exact (astar_route_is_fold cfloor g frontier traverse estimate init_state terminate d source t c ok (fun v => w * h v)%Q
             Hfront Htrav Hpos Hest wh_consistent fuel res).
  Qed.
End AStarQW.

End LinkChain.
