(* Non-vacuity witnesses for Props/Links.v: concrete instances that meet every hypothesis of the link theorems, on which
   the searches return and the conclusions can be read off by vm_compute.

   ExN  natural-number costs, state = (accumulated cost, number of hops that had a previous edge).  The diamond of
        Props/C02.v with a decrease-key: 0->1 (1), 0->2 (4), 1->2 (1), 2->3 (1), 3->0 (1).  Dijkstra 0 -> 3 returns
        [e0; e2; e3]; the destination-less run labels 1, 2, 3 with 1, 2, 3; single-via k = 2 returns the shortest route
        and the alternative over e1; an iteration limit of 9 does not fire.
   ExT  Model/Traversal.v: two lanes 0 -> 1 -> 3 and 0 -> 2 -> 3 with lengths, a speed table, headings, turn delays, the
        state model of Proofs/TraversalExample.v (distance in miles, time in seconds) and a per-edge fee as the objective;
        Dijkstra on the traversal model returns the cheaper lane [e2; e3]. *)
From Coq Require Import ZArith QArith List Arith String Bool Lia Lqa Permutation.
From stdpp Require Import gmap.
From RC Require Import Base.Num Base.Res Model.Units Model.StateOps Model.Traversal Model.TraversalSpec Model.Search
  Model.SearchSpec Model.SearchRun Model.Ksp Model.KspSpec Model.KspRun Model.Termination
  Proofs.Units Proofs.StateOps Proofs.TraversalWalk Proofs.Traversal Proofs.Optimal Proofs.OptimalCore Proofs.OptimalInst
  Proofs.KspConcrete Proofs.LinkChain Proofs.LinkTraversal Proofs.LinkKsp Proofs.LinkKspModel Proofs.LinkReach.
Import ListNotations.

Module ExN.
Import Search Optimal OptimalCore OptimalInst LinkChain.

Definition g : graph := mkGraph 4 [mkEdge 0 1; mkEdge 0 2; mkEdge 1 2; mkEdge 2 3; mkEdge 3 0].
Definition cost (e : nat) : nat := nth e [1; 4; 1; 1; 1] 0.
Definition St := (nat * nat)%type.
Definition trav (d : dir) (e : nat) (prev : option nat) (st : St) : res (nat * nat * St) :=
  Ok (0, cost e, (fst st + cost e, snd st + match prev with Some _ => 1 | None => 0 end)).
Definition front (e : nat) (st : St) (prev : option nat) : res bool := Ok true.
Definition est (a b : nat) (st : St) : res nat := Ok 0.
Definition okx (e : nat) : bool := true.
Definition idf (x : nat) : nat := x.
Definition unl (a b : nat) : option string := None.

Lemma nat_algebra : cost_algebra Nat.ltb Nat.add 0 /\ (forall x, ceq Nat.ltb (x + 0) x).
Proof.
  assert (L : forall a b, cle Nat.ltb a b <-> a <= b).
  { intros a b. unfold cle. rewrite Nat.ltb_ge. reflexivity. }
  split; [constructor|].
  - intros a b H. apply Nat.ltb_lt in H. apply Nat.ltb_ge. lia.
  - intros a b c0. rewrite !L. lia.
  - intros a b x. rewrite !L. lia.
  - intros a x y. rewrite !L. lia.
  - intros x. split; apply L; lia.
  - intros x. split; apply L; lia.
Qed.

Lemma hyp_front : forall e st prev b, front e st prev = Ok b -> b = okx e.
Proof. intros e st prev b H. inversion H. reflexivity. Qed.
Lemma hyp_trav : forall d e prev st ac tc st', trav d e prev st = Ok (ac, tc, st') -> ceq Nat.ltb (idf (ac + tc)) (cost e).
Proof. intros d e prev st ac tc st' H. inversion H; subst. unfold idf. cbn. split; unfold cle; apply Nat.ltb_ge; lia. Qed.
Lemma hyp_infl : forall a e, cle Nat.ltb a (a + cost e).
Proof. intros a e. unfold cle. apply Nat.ltb_ge. lia. Qed.
Lemma hyp_est : forall v t st h, est v t st = Ok h -> ceq Nat.ltb h 0.
Proof. intros v t st h H. inversion H. split; reflexivity. Qed.
Lemma hyp_c01 : forall d e last st ac tc st' gc, trav d e last st = Ok (ac, tc, st') -> gc <= gc + idf (ac + tc).
Proof. intros. unfold idf. lia. Qed.

Definition run (T : nat -> nat -> option string) (d : dir) (s : nat) (t : option nat) :=
  run_vertex_oriented Nat.ltb Nat.add 0 idf g front trav est (Ok (0, 0)) T 50 d s t.
Definition run_state (s : nat) :=
  run_a_star_state Nat.ltb Nat.add 0 idf g front trav est (Ok (0, 0)) unl 50 Forward s None.

(* L1: the search returns [e0; e2; e3] with states (1,0) (2,1) (3,2), and that route is the fold *)
Lemma l1_run : exists res r, run unl Forward 0 (Some 3) = Ok res /\ r_routes res = [r]
    /\ map et_edge r = [0; 2; 3] /\ map et_state r = [(1, 0); (2, 1); (3, 2)]
    /\ route_fold (trav Forward) None (0, 0) (map et_edge r) = Ok r.
Proof. eexists; eexists. split; [vm_compute; reflexivity|]. split; [reflexivity|]. repeat split. Qed.

(* L3: the destination-less run labels 3 with 3 and the tree path to 3 is [e0; e2; e3] *)
Lemma l3_run : exists s r, run_state 0 = Ok s /\ is_Some (s_tree s !! 3) /\ s_g s !! 3 = Some 3
    /\ vertex_oriented_route 0 3 (s_tree s) = Ok r /\ map et_edge r = [0; 2; 3]
    /\ route_cost Nat.add 0 idf r = 3.
Proof.
  eexists; eexists. split; [vm_compute; reflexivity|]. split; [vm_compute; eauto|]. split; [vm_compute; reflexivity|].
  split; [vm_compute; reflexivity|]. split; reflexivity.
Qed.

(* L2: single-via, k = 2, AcceptAll, on two lanes 0 -> 1 -> 3 (1 + 4) and 0 -> 2 -> 3 (2 + 1): the shortest route over
   lane 2 and the alternative over lane 1 *)
Definition g2 : graph := mkGraph 4 [mkEdge 0 1; mkEdge 1 3; mkEdge 0 2; mkEdge 2 3].
Definition cost2 (e : nat) : nat := nth e [1; 4; 2; 1] 0.
Definition trav2 (d : dir) (e : nat) (prev : option nat) (st : St) : res (nat * nat * St) :=
  Ok (0, cost2 e, (fst st + cost2 e, snd st + match prev with Some _ => 1 | None => 0 end)).
Lemma hyp_trav2 : forall d e prev st ac tc st', trav2 d e prev st = Ok (ac, tc, st') -> ceq Nat.ltb (idf (ac + tc)) (cost2 e).
Proof. intros d e prev st ac tc st' H. inversion H; subst. unfold idf. cbn. split; unfold cle; apply Nat.ltb_ge; lia. Qed.
Lemma hyp_infl2 : forall a e, cle Nat.ltb a (a + cost2 e).
Proof. intros a e. unfold cle. apply Nat.ltb_ge. lia. Qed.
Definition sim_all (a b : list nat) : res bool := Ok false.
Definition sv := Ksp.sv_run Nat.add idf g2 (trav2 Forward) (Ok (0, 0))
                   (LinkKsp.usearch Nat.ltb Nat.add 0 idf g2 front trav2 est (Ok (0, 0)) unl 50) sim_all (Ksp.pop_min Nat.ltb).
Lemma l2_run : exists r, sv 2 Ksp.KExact 0 3 = Ok r
    /\ map (map et_edge) (r_routes r) = [[2; 3]; [0; 1]]
    /\ map (map et_state) (r_routes r) = [[(2, 0); (3, 1)]; [(1, 0); (5, 1)]].
Proof. eexists. split; [vm_compute; reflexivity|]. split; reflexivity. Qed.

(* L4: an iteration limit of 9 (never reached) and the unlimited run *)
Definition ck0 : TM.clock := fun _ => 0%N.
Lemma l4_run : TM.wf (TM.Iter 9) = true
    /\ exists res, run (TM.to_search (TM.Iter 9) ck0) Forward 0 (Some 3) = Ok res
                   /\ map (map et_edge) (r_routes res) = [[0; 2; 3]].
Proof. split; [reflexivity|]. eexists. split; [vm_compute; reflexivity|]. reflexivity. Qed.
End ExN.

Module ExT.
Import Units StateOps Traversal TSpec LinkTraversal.
Local Open Scope Q_scope.
Local Open Scope string_scope.

Definition sm : smodel Q :=
  [("energy", FEnergy KilowattHours 7); ("time", FTime Seconds 0); ("distance", FDistance Miles 0)].
Definition table : list (turn * Q) :=
  [(NoTurn, 0); (SlightRight, 1); (SlightLeft, 2); (Right, 3); (Left, 4); (SharpRight, 5); (SharpLeft, 6); (UTurn, 7)].
(* what an edge costs: a fee per edge id (an edge-local objective), nothing for the access *)
Definition fee (e : nat) : Q := nth e [3; 1; 1; 1] 1.
Definition fees : cost_fns Q := Build_cost_fns (fun _ _ _ _ => Ok 0) (fun _ e _ _ => Ok (fee e)) (fun x => x).
(* lanes 0 -> 1 -> 3 (edges 0, 1) and 0 -> 2 -> 3 (edges 2, 3) *)
Definition inst : instance Q :=
  Build_instance
    (Build_graph 4 [Build_edge 0 1 1000; Build_edge 1 3 500; Build_edge 0 2 2500; Build_edge 2 3 100])
    sm
    (TMSpeed (Build_engine [50; 30; 80; 20] KilometersPerHour Minutes Kilometers 80))
    (AMTurnDelay (Build_turn_delay [Build_heading 0%Z None; Build_heading 90%Z None; Build_heading 350%Z (Some 10%Z);
                                    Build_heading 100%Z None] table Seconds "time"))
    fees.
Definition front (e : nat) (st : list Q) (prev : option nat) : res bool := Ok true.
Definition est (a b : nat) (st : list Q) : res Q := Ok 0.
Definition okx (e : nat) : bool := true.
Definition unl (a b : nat) : option string := None.

Lemma configured_inst : configured inst 2 1 Miles Seconds 0 0.
Proof. repeat split. Qed.
Lemma hyp_front : forall e st prev b, front e st prev = Ok b -> b = okx e.
Proof. intros e st prev b H. inversion H. reflexivity. Qed.
Lemma hyp_local : forall d e prev st et, step inst (tdir d) e prev st = Ok et -> (fun x : Q => x) (et_access et + et_trav et) == fee e.
Proof.
  intros d e prev st et H. destruct (step_costs inst _ _ _ _ _ H) as (total & Ht & Hs & _).
  cbn in Ht. inversion Ht; subst total. exact Hs.
Qed.
Lemma hyp_pos : forall e, okx e = true -> 0 <= fee e.
Proof.
  intros e _. unfold fee. destruct e as [|[|[|[|e]]]]; cbn; try (unfold Qle; cbn; lia). destruct e; unfold Qle; cbn; lia.
Qed.
Lemma hyp_est : forall v st x, est v 3%nat st = Ok x -> x == 0.
Proof. intros v st x H. inversion H. reflexivity. Qed.

Definition run := Search.run_vertex_oriented Qltb Qplus 0 (fun x : Q => x) (sgraph inst) front (trav_of inst) est
                    (Ok (initial_state (i_sm inst))) unl 50 Search.Forward 0%nat (Some 3%nat).

Definition run_check : bool :=
  match run with
  | Ok res => match Search.r_routes res with
              | [r] => match map Search.et_edge r with
                       | [2%nat; 3%nat] => match nth_error r 1 with
                                 | Some et => Qltb 0 (slot (Search.et_state et) 2) && Qltb 0 (slot (Search.et_state et) 1)
                                 | None => false
                                 end
                       | _ => false
                       end
              | _ => false
              end
  | _ => false
  end.
Lemma run_checked : run_check = true.
Proof. vm_compute. reflexivity. Qed.

Lemma l1_run : exists res r et, run = Ok res /\ Search.r_routes res = [r] /\ map Search.et_edge r = [2%nat; 3%nat]
    /\ nth_error r 1 = Some et /\ 0 < slot (Search.et_state et) 2 /\ 0 < slot (Search.et_state et) 1.
Proof.
  pose proof run_checked as H. unfold run_check in H. destruct run as [res| | |]; try discriminate H.
  destruct (Search.r_routes res) as [|r [|]] eqn:Er; try discriminate H.
  destruct (map Search.et_edge r) as [|[|[|[|]]] [|[|[|[|[|]]]] [|]]] eqn:Ee; try discriminate H.
  destruct (nth_error r 1) as [et|] eqn:En; [|discriminate H]. apply andb_true_iff in H as [H2 H1].
  exists res, r, et. split; [reflexivity|]. split; [exact Er|]. split; [exact Ee|]. split; [exact En|].
  split; apply Qltb_spec; assumption.
Qed.
End ExT.

(* the two-lane world of Props/C13.v (shortest 0>1>2>3, lanes 0>4>5>3 and 0>6>3), k = 3, EdgeIdCosine 0.9, Dijkstra: no
   turn tables, so it is in the class of LinkKspModel; the run returns three routes *)
Module ExK.
Import Search SR KR Ksp.
Definition w : world QN :=
  mkW QN 7 [(0,1);(1,2);(2,3);(0,4);(4,5);(5,3);(0,6);(6,3)] [1; 3#2; 5#4; 2; 5#2; 9#4; 8; 19#2]%Q [] [] [] [] [] [] TUnlimited 0%Q.
Definition q : kq QN := mkKQ QN KSingleVia (ADijkstra QN) None 3 QKAbsent KExact (SEdgeIdCosine (9#10)%Q) 0 (Some 3).
Lemma in_class : w_turn QN w = [] /\ w_fturn QN w = [] /\ kq_alg QN q = KSingleVia /\ kq_under QN q = ADijkstra QN
    /\ kq_wf QN q = None /\ ksp_query_k (kq_k QN q) (kq_qk QN q) = Ok 3.
Proof. repeat split. Qed.
Lemma l2_run : exists r, KR.run QN cos_ge_Q 300 w q = Ok r
    /\ map (map (et_edge (C:=Q) (St:=Q))) (r_routes r) = [[0;1;2]; [3;4;5]; [6;7]].
Proof. eexists. split; vm_compute; reflexivity. Qed.
End ExK.
