(* LINK L2 (C13 <- C01/C02/C03): the executable single-via driver of Model/Ksp.v whose underlying search IS
   Search.run_vertex_oriented (Dijkstra: zero estimate) and whose forward traversal IS the search's own [traverse Forward].

   Props/C13.v states "route 0 is the underlying search's route" (relative to C02's optimality) and "an alternative is a
   forward-tree path followed by re-traversed edges" (relative to C03's premise for the forward half).  Here both are
   closed:
     sv_first_least     route 0 is a permitted walk s -> t whose accumulated cost is least among all permitted walks
     sv_routes_fold     EVERY returned route is the left fold of [traverse Forward] along its own edge ids from
                        (None, initial state): the forward half because the forward tree is a TreeChain tree
                        (LinkChain, from C02's no_reopen), the reverse half by reorient_reverse_route

   Hypotheses = C02's Dijkstra hypotheses for both directions, with "adding an edge cost never decreases a label"
   for every edge (C01's tree invariant, which the driver's structure lemmas need, asks it of every traversed edge). *)
From Coq Require Import List Arith Bool String Lia Permutation.
From stdpp Require Import gmap.
From RC Require Import Base.Res Base.Num Model.Search Model.SearchSpec Model.Ksp
  Proofs.SearchInv Proofs.Ksp Proofs.KspConcrete Proofs.Optimal Proofs.OptimalCore Proofs.OptimalInst Proofs.LinkChain.
Import ListNotations.

Module LinkKsp.
Import Search SearchSpec Ksp Optimal OptimalCore OptimalInst LinkChain.

Section Pieces.
  Context {C St : Type}.
  Variable g : graph.
  Variable traverse_fwd : nat -> option nat -> St -> res (C * C * St).
  Variable init_state : res St.
  Variable sim : list nat -> list nat -> res bool.
  Variable pick : list (nat * C) -> option (nat * C * list (nat * C)).
  Notation route := (list (etrav C St)).

  (* Ksp.retraverse is LinkChain.route_fold (argument order apart) *)
  Lemma retraverse_is_fold es : forall prev acc, retraverse traverse_fwd es prev acc = route_fold traverse_fwd prev acc es.
  Proof.
    induction es as [|e es IH]; intros prev acc; [reflexivity|]. cbn [retraverse route_fold].
    destruct (traverse_fwd e prev acc) as [[[ac tc] st']| | |]; cbn [bind]; try reflexivity. rewrite IH. reflexivity.
  Qed.

  Lemma route_end_last prev st (r : route) :
    route_end prev st r = match last r with Some le => (Some (et_edge le), et_state le) | None => (prev, st) end.
  Proof.
    destruct r as [|x r] using rev_ind; [reflexivity|]. rewrite route_end_app, last_snoc. reflexivity.
  Qed.

  (* the forward half (a fold from the initial state) followed by the re-oriented reverse half is one fold *)
  Lemma reorient_fold init (fr rb rr : route) :
    init_state = Ok init -> route_fold traverse_fwd None init (ids fr) = Ok fr ->
    reorient_reverse_route traverse_fwd init_state fr rb = Ok rr ->
    route_fold traverse_fwd None init (ids (fr ++ rr)) = Ok (fr ++ rr).
  Proof.
    intros Hi Hf Hr. pose proof (reorient_ids _ _ _ _ _ Hr) as Hids.
    unfold ids in *. rewrite map_app, Hids. apply (route_fold_app _ _ _ _ _ _ _ Hf).
    rewrite route_end_last. unfold reorient_reverse_route in Hr. rewrite Hi in Hr.
    destruct (last fr) as [le|]; cbn [bind fst snd] in *; rewrite retraverse_is_fold in Hr; exact Hr.
  Qed.

  (* every route the accept loop holds at the end was there at the start or is a candidate *)
  Lemma sv_loop_members k term s t tf tr fuel : forall q sol it sol' it',
    sv_loop g traverse_fwd init_state sim pick fuel k term s t tf tr q sol it = Ok (sol', it') ->
    forall x, In x sol' -> In x sol \/ exists v, candidate traverse_fwd init_state s t tf tr v = Ok x.
  Proof.
    induction fuel as [|f IH]; intros q sol it sol' it' H; cbn [sv_loop] in H; [discriminate|].
    destruct (terminate_search term k (List.length sol)); [inversion H; subst; auto|].
    destruct (pick q) as [[[v c0] q']|]; [|inversion H; subst; auto].
    destruct (candidate traverse_fwd init_state s t tf tr v) as [this| | |] eqn:Ec; cbn [bind] in H; try discriminate.
    destruct (route_contains_loop g (ids this)) as [lp| | |]; cbn [bind] in H; try discriminate.
    destruct (rejected_by sim this sol) as [rej| | |]; cbn [bind] in H; try discriminate.
    intros x Hx. destruct (IH _ _ _ _ _ H x Hx) as [Hin|Hc]; [|right; exact Hc].
    destruct (negb lp && negb rej); [|left; exact Hin].
    apply in_app_or in Hin as [Hin|[<-|[]]]; [left; exact Hin | right; eauto].
  Qed.

  Lemma in_firstn {A} k (l : list A) x : In x (firstn k l) -> In x l.
  Proof. intros H. rewrite <- (firstn_skipn k l). apply in_or_app. left; exact H. Qed.
End Pieces.

Section SingleViaDijkstra.
  Context {C St : Type}.
  Variable clt : C -> C -> bool.
  Variable cadd : C -> C -> C.
  Variable czero : C.
  Variable cfloor : C -> C.
  Hypothesis alg : cost_algebra clt cadd czero.
  Hypothesis cadd_zero_r : forall x, ceq clt (cadd x czero) x.
  Notation cle := (cle clt).
  Notation ceq := (ceq clt).

  Variable g : graph.
  Variable frontier : nat -> St -> option nat -> res bool.
  Variable traverse : dir -> nat -> option nat -> St -> res (C * C * St).
  Variable estimate : nat -> nat -> St -> res C.
  Variable init_state : res St.
  Variable terminate : nat -> nat -> option string.
  Variable c : nat -> C.
  Variable ok : nat -> bool.
  Variable fuel : nat.
  Variable sim : list nat -> list nat -> res bool.
  Variable pick : list (nat * C) -> option (nat * C * list (nat * C)).

  Hypothesis pick_perm : forall q v c0 q', pick q = Some (v, c0, q') -> Permutation q ((v, c0) :: q').
  Hypothesis Hfront : forall e st prev b, frontier e st prev = Ok b -> b = ok e.
  Hypothesis Htrav : forall d e prev st ac tc st', traverse d e prev st = Ok (ac, tc, st') -> ceq (cfloor (cadd ac tc)) (c e).
  Hypothesis Hinfl : forall a e, cle a (cadd a (c e)).
  Hypothesis Hest0 : forall v t st h, estimate v t st = Ok h -> ceq h czero.

  (* underlying.run_vertex_oriented(a, Some(b), d) *)
  Definition usearch (d : dir) (a b : nat) : res (sresult C St) :=
    Search.run_vertex_oriented clt cadd czero cfloor g frontier traverse estimate init_state terminate fuel d a (Some b).
  Notation sv := (sv_run cadd cfloor g (traverse Forward) init_state usearch sim pick).
  Notation route_fold := (route_fold (traverse Forward)).

  Lemma cle_preorder : PreOrder cle.
  Proof. split; [intros x; apply (cle_refl clt cadd czero alg) | intros x y z; apply (cle_trans _ _ _ alg)]. Qed.

  Lemma usearch_shape d a b r : usearch d a b = Ok r ->
    exists tree route, r_trees r = [tree] /\ r_routes r = [route] /\ TreeInv g d a tree
                       /\ vertex_oriented_route a b tree = Ok route.
  Proof.
    intros H.
    destruct (rvo_shape clt cadd czero cfloor g frontier traverse estimate init_state terminate cle (PreOrder0 := cle_preorder)
                (clt_cle clt cadd czero alg) (clt_not_cle clt)
                (fun d0 e last st ac tc st' gc Ht =>
                   cle_trans _ _ _ alg _ _ _ (Hinfl gc e) (cadd_mono_r _ _ _ alg gc _ _ (proj2 (Htrav d0 e last st ac tc st' Ht))))
                fuel d a b r H) as (tree & route & H1 & H2 & H3 & H4 & _).
    eauto 10.
  Qed.

  (* route 0 has least accumulated cost among all permitted walks from s to t (C02's dijkstra_optimal applies) *)
  Theorem sv_first_least k term s t r : 1 <= k -> sv k term s t = Ok r ->
    exists r0, nth_error (r_routes r) 0 = Some r0
      /\ permitted_walk g Forward ok s (map et_edge r0) t
      /\ ceq (route_cost cadd czero cfloor r0) (path_cost cadd czero c (map et_edge r0))
      /\ forall P, permitted_walk g Forward ok s P t -> cle (route_cost cadd czero cfloor r0) (path_cost cadd czero c P).
  Proof.
    intros Hk H.
    destruct (sv_first_is_best cadd cfloor g (traverse Forward) init_state usearch sim pick pick_perm usearch_shape k term s t r Hk H)
      as (rf & r0 & Hf & Hr0 & Hn).
    destruct (dijkstra_optimal_gen clt cadd czero cfloor alg cadd_zero_r g frontier traverse estimate init_state terminate
                Forward s (Some t) c ok Hfront (Htrav Forward) (fun a e _ => Hinfl a e)
                (fun v t0 st h _ Hh => Hest0 v t0 st h Hh) fuel t rf eq_refl Hf) as (r0' & Hr0' & Hw & Hc & Hopt).
    assert (r0' = r0) by congruence. subst r0'. exists r0. auto.
  Qed.

  (* every returned route reports, hop by hop, what the forward traversal returns along its own edges from the
     initial state *)
  Theorem sv_routes_fold k term s t r : sv k term s t = Ok r ->
    (s <> t -> exists init, init_state = Ok init)
    /\ forall init, init_state = Ok init -> forall x, In x (r_routes r) -> route_fold None init (map et_edge x) = Ok x.
  Proof.
    intros H.
    destruct (sv_run_inv cadd cfloor g (traverse Forward) init_state usearch sim pick usearch_shape k term s t r H)
      as (rf & rr & tf & tr & tsp & sol & it & Hf & _ & Htf & _ & Hrf & _ & _ & Hb & Hl & ->).
    destruct (dijkstra_route_is_fold clt cadd czero cfloor alg cadd_zero_r g frontier traverse estimate init_state terminate
                Forward s (Some t) c ok Hfront (Htrav Forward) (fun a e _ => Hinfl a e)
                (fun v t0 st h _ Hh => Hest0 v t0 st h Hh) fuel t rf eq_refl Hf) as (tf' & r0 & Htf' & _ & Hfold & Hinit).
    assert (tf' = tf) by congruence. subst tf'.
    split; [intros Hne; apply Hinit; congruence|].
    intros init Hi x Hx. cbn [r_routes] in Hx. apply in_firstn in Hx.
    destruct (Hfold init Hi) as [_ Htree].
    destruct (sv_loop_members g (traverse Forward) init_state sim pick k term s t tf tr _ _ _ _ _ _ Hl x Hx) as [[<-|[]]|[v Hc]].
    - exact (Htree t tsp Hb).
    - destruct (candidate_inv _ _ _ _ _ _ _ _ Hc) as (fr & rb & rr' & Hfr & _ & Hre & ->).
      exact (reorient_fold (traverse Forward) init_state init fr rb rr' Hi (Htree v fr Hfr) Hre).
  Qed.
End SingleViaDijkstra.

End LinkKsp.
