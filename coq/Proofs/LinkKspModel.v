(* LINK L2, discharged for the executable model of the C13 correspondence stream over exact rationals (KR.run QN: the
   table-driven world of Model/SearchRun.v, underlying search = Dijkstra of Model/Search.v, Ksp.pop_min, cos_ge_Q).

   Class of worlds: no turn costs and no turn restrictions (w_turn = [], w_fturn = []) - then what an edge costs and
   whether it is admitted depend on the edge alone: c e = pos (cost table e), ok e = e not in the forbid table - and the
   underlying algorithm is Dijkstra without a query weight factor (the estimate is multiplied by 0).  Failing frontier /
   traversal tables (w_ferr, w_terr) and any termination model are allowed: they can only turn the run into an error.

     sv_model_first_least   route 0 of KR.run is least among ALL permitted walks of the world
     sv_model_routes_fold   every returned route is the fold of SR.traverse w Forward along its own edges from w_init *)
From Coq Require Import List Arith Bool String Lia QArith Lqa Permutation.
From stdpp Require Import gmap.
From RC Require Import Base.Res Base.Num Model.Search Model.SearchSpec Model.SearchRun Model.Ksp Model.KspSpec Model.KspRun
  Proofs.SearchQ Proofs.KspConcrete Proofs.KspModel Proofs.Optimal Proofs.OptimalCore Proofs.OptimalInst
  Proofs.LinkChain Proofs.LinkKsp.
Import ListNotations.

Module LinkKspModel.
Import Search SearchSpec Ksp SR KR Optimal OptimalCore OptimalInst LinkChain LinkKsp.

Lemma pos_proper (x y : Q) : (x == y)%Q -> (pos QN x == pos QN y)%Q.
Proof.
  intros H. unfold pos. cbn [leb zero QN].
  assert (E : Qle_bool x 0 = Qle_bool y 0).
  { destruct (Qle_bool x 0) eqn:Ex, (Qle_bool y 0) eqn:Ey; try reflexivity.
    - apply Qle_bool_iff in Ex. rewrite H in Ex. apply Qle_bool_iff in Ex. congruence.
    - apply Qle_bool_iff in Ey. rewrite <- H in Ey. apply Qle_bool_iff in Ey. congruence. }
  rewrite E. destruct (Qle_bool y 0); [reflexivity | exact H].
Qed.
Lemma pos_idem (x : Q) : pos QN (pos QN x) = pos QN x.
Proof.
  pose proof (pos_positive x) as Hp. unfold pos at 1. cbn [leb zero QN].
  destruct (Qle_bool (pos QN x) 0) eqn:E; [|reflexivity].
  apply Qle_bool_iff in E. exfalso. apply (Qlt_not_le _ _ Hp E).
Qed.

Lemma pos_share (A X : Q) : (pos QN (A + (pos QN X - A)) == pos QN X)%Q.
Proof.
  transitivity (pos QN (pos QN X)); [|rewrite pos_idem; reflexivity].
  apply pos_proper. set (p := pos QN X). change (T QN) with Q in p. ring.
Qed.

Section Model.
  Variable fuel : nat.
  Variable w : world QN.
  Hypothesis Hturn : w_turn QN w = [].
  Hypothesis Hfturn : w_fturn QN w = [].
  Let g := graph_of QN w.
  Definition cw (e : nat) : Q := pos QN (nth e (w_cost QN w) 0%Q).
  Definition okw (e : nat) : bool := negb (SR.memn e (w_forbid QN w)).

  Lemma m_front : forall e (st : Q) prev b, frontier QN w e st prev = Ok b -> b = okw e.
  Proof.
    intros e st prev b. unfold frontier, okw. rewrite Hfturn. destruct (SR.memn e (w_ferr QN w)); [discriminate|].
    intros H; inversion H. destruct prev; cbn [memp existsb]; rewrite andb_true_r; reflexivity.
  Qed.

  Lemma m_trav : forall d e prev (st ac tc st' : Q), traverse QN w d e prev st = Ok (ac, tc, st') ->
    ceq Qltb (pos QN (ac + tc)%Q) (cw e).
  Proof.
    intros d e prev st ac tc st' H. apply ceqQ. unfold traverse in H. rewrite Hturn in H.
    assert (Hl : forall a b, turn_lookup QN (@nil (nat * nat * Q)) a b = None) by reflexivity.
    destruct prev as [l|].
    - destruct d; rewrite Hl in H; destruct (SR.memn e (w_terr QN w)); try discriminate; inversion H; subst; clear H;
        unfold cw; cbn [add sub zero QN]; rewrite pos_share; apply pos_proper; change (T QN) with Q; ring.
    - destruct (SR.memn e (w_terr QN w)); try discriminate; inversion H; subst; clear H.
      unfold cw; cbn [add sub zero QN]. rewrite pos_share. apply pos_proper. change (T QN) with Q. ring.
  Qed.

  Lemma m_infl : forall (a : Q) e, cle Qltb a (a + cw e)%Q.
  Proof. intros a e. apply cleQ. pose proof (pos_positive (nth e (w_cost QN w) 0%Q)) as Hp. unfold cw. lra. Qed.

  Lemma m_est : forall v t (st h : Q), estimate QN w 0%Q v t st = Ok h -> ceq Qltb h 0%Q.
  Proof.
    intros v t st h H. apply ceqQ. unfold estimate in H.
    destruct (negb (Nat.ltb v (w_n QN w)) || negb (Nat.ltb t (w_n QN w))); [discriminate|].
    inversion H. cbn [mul QN]. ring.
  Qed.

  Lemma Q_zero_r : forall x : Q, ceq Qltb (x + 0)%Q x.
  Proof. intros x. apply ceqQ. ring. Qed.

  Variable q : kq QN.
  Hypothesis Halg : kq_alg QN q = KSingleVia.
  Hypothesis Hunder : kq_under QN q = ADijkstra QN.
  Hypothesis Hwf : kq_wf QN q = None.

  (* the model's underlying search is LinkKsp.usearch with the zero-weighted estimate *)
  Lemma msearch_is_usearch : forall d a b,
    KR.search QN fuel w q d a b
    = usearch Qltb Qplus 0%Q (pos QN) g (frontier QN w) (traverse QN w) (estimate QN w 0%Q) (Ok (w_init QN w)) (terminate QN w) fuel d a b.
  Proof.
    intros d a b. unfold KR.search, run_vertex, usearch, uq, eff_wf. cbn [q_wf q_alg q_dir]. rewrite Hwf, Hunder. reflexivity.
  Qed.

  Lemma sv_run_ext {C St} cadd cfloor g0 tf ini (s1 s2 : dir -> nat -> nat -> res (sresult C St)) sim pick k term s t :
    (forall d a b, s1 d a b = s2 d a b) ->
    sv_run cadd cfloor g0 tf ini s1 sim pick k term s t = sv_run cadd cfloor g0 tf ini s2 sim pick k term s t.
  Proof. intros H. unfold sv_run. rewrite !H. reflexivity. Qed.

  Notation urun f := (sv_run (C:=Q) (St:=Q) Qplus (pos QN) g (traverse QN w Forward) (Ok (w_init QN w))
                        (usearch Qltb Qplus 0%Q (pos QN) g (frontier QN w) (traverse QN w) (estimate QN w 0%Q) (Ok (w_init QN w))
                           (terminate QN w) fuel)
                        (sim_of QN cos_ge_Q w f) (pop_min Qltb)).

  Lemma run_is_urun k t (f : simfn Q) :
    kq_target QN q = Some t -> ksp_query_k (kq_k QN q) (kq_qk QN q) = Ok k ->
    run_with QN cos_ge_Q fuel w q f = urun f k (kq_term QN q) (kq_source QN q) t.
  Proof.
    intros Ht Hk. rewrite (run_is_sv fuel w q k t f Halg Ht Hk). apply sv_run_ext. exact msearch_is_usearch.
  Qed.

  Theorem sv_model_first_least k s t (r : sresult Q Q) :
    kq_source QN q = s -> kq_target QN q = Some t -> ksp_query_k (kq_k QN q) (kq_qk QN q) = Ok k -> 1 <= k ->
    KR.run QN cos_ge_Q fuel w q = Ok r ->
    exists r0, nth_error (r_routes r) 0 = Some r0
      /\ permitted_walk g Forward okw s (map et_edge r0) t
      /\ (route_cost Qplus 0 (pos QN) r0 == path_cost Qplus 0 cw (map et_edge r0))%Q
      /\ forall P, permitted_walk g Forward okw s P t -> (route_cost Qplus 0 (pos QN) r0 <= path_cost Qplus 0 cw P)%Q.
  Proof.
    intros Hs Ht Hk Hk1 H. unfold KR.run in H. rewrite (run_is_urun k t _ Ht Hk), Hs in H.
    destruct (sv_first_least Qltb Qplus 0%Q (pos QN) Q_algebra Q_zero_r g (frontier QN w) (traverse QN w) (estimate QN w 0%Q)
                (Ok (w_init QN w)) (terminate QN w) cw okw fuel _ (pop_min Qltb) (pop_min_perm Qltb)
                m_front m_trav m_infl m_est k _ s t r Hk1 H) as (r0 & H0 & Hw & Hc & Hopt).
    exists r0. split; [exact H0|]. split; [exact Hw|]. split; [apply ceqQ; exact Hc|].
    intros P HP. apply cleQ. exact (Hopt P HP).
  Qed.

  Theorem sv_model_routes_fold k s t (r : sresult Q Q) :
    kq_source QN q = s -> kq_target QN q = Some t -> ksp_query_k (kq_k QN q) (kq_qk QN q) = Ok k ->
    KR.run QN cos_ge_Q fuel w q = Ok r ->
    forall x, In x (r_routes r) -> route_fold (traverse QN w Forward) None (w_init QN w) (map et_edge x) = Ok x.
  Proof.
    intros Hs Ht Hk H. unfold KR.run in H. rewrite (run_is_urun k t _ Ht Hk), Hs in H.
    destruct (sv_routes_fold Qltb Qplus 0%Q (pos QN) Q_algebra Q_zero_r g (frontier QN w) (traverse QN w) (estimate QN w 0%Q)
                (Ok (w_init QN w)) (terminate QN w) cw okw fuel _ (pop_min Qltb)
                m_front m_trav m_infl m_est k _ s t r H) as [_ Hall].
    exact (Hall (w_init QN w) eq_refl).
  Qed.
End Model.

End LinkKspModel.
