(* LINK L3 (C05 <- C02/C01) and LINK L4 (C10 with C01/C05).

   L3.  C05's c05_tree_labels_least is about the cost-so-far map s_g: every label of an exhausted destination-less search
        is the cost of SOME permitted walk and no permitted walk is cheaper.  It does not say that the walk recorded in the
        returned TREE (the parent chain of v, i.e. what vertex_oriented_route backtracks) is such a walk.  Under C02's
        Dijkstra hypotheses (LinkChain.dijkstra_tree_path_label / _least, from C02's invariant) it is: the fold of the branch
        costs along the parent chain of v equals v's label and is least among all permitted walks - stated here in C05's
        own vocabulary (Reach.pwalk, ReachCostP.wcostC) - and, with C01's tree invariant, every tree vertex has such a path.
        A destination-less run never asks for an estimate (h = 0), so there is no hypothesis about the estimate.

   L4.  A limited search that returns Ok returns exactly what the unlimited search returns (C10), and that is one rooted
        tree containing the destination and one route that is a non-empty chained walk from the origin to the destination
        without a repeated edge (C01). *)
From Coq Require Import List Arith Bool String Lia.
From stdpp Require Import gmap.
From RC Require Import Base.Res Model.Search Model.SearchSpec Model.Reach Model.Termination
  Proofs.SearchTree Proofs.SearchInv Proofs.SearchBacktrack Proofs.SearchRoute Proofs.ReachCost
  Proofs.ReachSet Proofs.ReachInv Proofs.ReachMain Proofs.TerminationC10 Proofs.Optimal Proofs.OptimalCore Proofs.OptimalInst Proofs.LinkChain.
Import ListNotations.

Module LinkReach.
Import Search SearchSpec Optimal OptimalCore OptimalInst LinkChain.

(* C05's walks are C02's walks *)
Lemma reach_pwalk_permitted ok d g a es b : Reach.pwalk ok d g a es b <-> permitted_walk g d ok a es b.
Proof.
  split.
  - induction 1 as [a|a e b r c0 (ed & He & Hok & Ht & Hk) _ [IH1 IH2]]; split; try constructor; auto.
    econstructor; [|exact IH1]. exists ed. auto.
  - intros [Hw Hf]. induction Hw as [a|a e b r c0 (ed & He & Ht & Hk) _ IH]; [constructor|].
    inversion Hf; subst. econstructor; [exists ed; auto | apply IH; assumption].
Qed.

Lemma wcostC_path_cost {C} (cadd : C -> C -> C) (czero : C) (c : nat -> C) es :
  ReachCostP.wcostC cadd c es czero = path_cost cadd czero c es.
Proof. reflexivity. Qed.

Section L3.
  Context {C St : Type}.
  Variable clt : C -> C -> bool.
  Variable cadd : C -> C -> C.
  Variable czero : C.
  Variable cfloor : C -> C.
  Hypothesis alg : cost_algebra clt cadd czero.
  Hypothesis cadd_zero_r : forall x, ceq clt (cadd x czero) x.
  Notation cle := (cle clt).
  Notation ceq := (ceq clt).

  Variable g : graph.
  Variable frontier : nat -> St -> option nat -> res bool.
  Variable traverse : dir -> nat -> option nat -> St -> res (C * C * St).
  Variable estimate : nat -> nat -> St -> res C.
  Variable init_state : res St.
  Variable terminate : nat -> nat -> option string.
  Variable d : dir.
  Variable source : nat.
  Variable c : nat -> C.
  Variable ok : nat -> bool.

  Hypothesis Hfront : forall e st prev b, frontier e st prev = Ok b -> b = ok e.
  Hypothesis Htrav : forall e prev st ac tc st', traverse d e prev st = Ok (ac, tc, st') -> ceq (cfloor (cadd ac tc)) (c e).
  Hypothesis Hinfl : forall a e, ok e = true -> cle a (cadd a (c e)).

  Notation RST := (run_a_star_state clt cadd czero cfloor g frontier traverse estimate init_state terminate).
  Notation RAS := (run_a_star clt cadd czero cfloor g frontier traverse estimate init_state terminate).
  Notation wcost := (ReachCostP.wcostC cadd c).

  Lemma no_estimate : forall v t st h, @None nat = Some t -> estimate v t st = Ok h -> ceq h czero.
  Proof. intros v t st h E. discriminate E. Qed.

  (* the cost of the tree path to v = the label of v = the least cost of a permitted walk to v *)
  Theorem tree_path_cost_is_least_label fuel s : RST fuel d source None = Ok s ->
    forall v r, vertex_oriented_route source v (s_tree s) = Ok r ->
      exists l, s_g s !! v = Some l
        /\ Reach.pwalk ok d g source (map et_edge r) v
        /\ ceq (route_cost cadd czero cfloor r) l
        /\ ceq (wcost (map et_edge r) czero) l
        /\ forall es, Reach.pwalk ok d g source es v -> cle l (wcost es czero).
  Proof.
    intros H v r Hr.
    destruct (dijkstra_tree_path_label clt cadd czero cfloor alg cadd_zero_r g frontier traverse estimate init_state terminate
                d source None c ok Hfront Htrav Hinfl no_estimate fuel s v r H Hr) as (l & Hl & Hw & Hc1 & Hc2).
    exists l. split; [exact Hl|]. split; [apply reach_pwalk_permitted; exact Hw|]. split; [exact Hc1|]. split.
    - rewrite wcostC_path_cost. apply (ceq_trans clt cadd czero alg) with (b := route_cost cadd czero cfloor r); [|exact Hc1].
      apply (ceq_sym clt). exact Hc2.
    - intros es Hes. rewrite wcostC_path_cost. apply (cle_trans _ _ _ alg) with (b := route_cost cadd czero cfloor r); [apply Hc1|].
      apply (dijkstra_tree_path_least clt cadd czero cfloor alg cadd_zero_r g frontier traverse estimate init_state terminate
               d source None c ok Hfront Htrav Hinfl no_estimate fuel s v r eq_refl H Hr es).
      apply reach_pwalk_permitted. exact Hes.
  Qed.

  (* the final state of run_a_star_state carries the tree run_a_star returns *)
  Lemma state_tree fuel s : RST fuel d source None = Ok s -> RAS fuel d source None = Ok (s_tree s, s_iters s).
  Proof.
    unfold run_a_star_state, run_a_star. destruct (negb (Nat.ltb source (nverts g))); [discriminate|].
    destruct init_state as [init| | |]; cbn [bind]; try discriminate.
    intros H. rewrite H. reflexivity.
  Qed.

  (* ... and every vertex of the returned tree HAS a tree path (C01: the tree is rooted), under the hypothesis C01 and
     C05 carry: adding the cost of ANY traversed edge never decreases a label (C02 asks it of permitted edges only) *)
  Hypothesis Hinfl_c01 : forall dd e last st ac tc st' gc,
      traverse dd e last st = Ok (ac, tc, st') -> cle gc (cadd gc (cfloor (cadd ac tc))).

  Lemma cle_preorder : PreOrder cle.
  Proof. split; [intros x; apply (cle_refl clt cadd czero alg) | intros x y z; apply (cle_trans _ _ _ alg)]. Qed.

  Theorem tree_paths_exist_and_are_least fuel s : RST fuel d source None = Ok s ->
    forall v, is_Some (s_tree s !! v) ->
      exists r l, vertex_oriented_route source v (s_tree s) = Ok r
        /\ route_ok g d source v (map et_edge r)
        /\ s_g s !! v = Some l
        /\ Reach.pwalk ok d g source (map et_edge r) v
        /\ ceq (route_cost cadd czero cfloor r) l
        /\ ceq (wcost (map et_edge r) czero) l
        /\ forall es, Reach.pwalk ok d g source es v -> cle l (wcost es czero).
  Proof.
    intros H v Hv.
    pose proof (run_a_star_tree clt cadd czero cfloor g frontier traverse estimate init_state terminate cle
                  (PreOrder0 := cle_preorder) (clt_cle clt cadd czero alg) (clt_not_cle clt) Hinfl_c01
                  fuel d source None (s_tree s) (s_iters s) (state_tree fuel s H)) as HT.
    destruct (SearchBacktrack.backtrack_ok g d source (s_tree s) HT v Hv) as (r & Hr & Hok & _).
    destruct (tree_path_cost_is_least_label fuel s H v r Hr) as (l & H1 & H2 & H3 & H4 & H5).
    exists r, l. auto 10.
  Qed.
End L3.

(* ------------------------------------------------------------------ L4 *)
Section L4.
  Context {C St : Type}.
  Variable clt : C -> C -> bool.
  Variable cadd : C -> C -> C.
  Variable czero : C.
  Variable cfloor : C -> C.
  Variable g : graph.
  Variable frontier : nat -> St -> option nat -> res bool.
  Variable traverse : dir -> nat -> option nat -> St -> res (C * C * St).
  Variable estimate : nat -> nat -> St -> res C.
  Variable init_state : res St.

  Notation search T := (run_vertex_oriented clt cadd czero cfloor g frontier traverse estimate init_state T).

  (* C01's hypotheses on the cost order *)
  Variable cle : C -> C -> Prop.
  Context `{!PreOrder cle}.
  Hypothesis clt_le : forall a b, clt a b = true -> cle a b.
  Hypothesis clt_irr : forall a b, clt a b = true -> cle b a -> False.
  Hypothesis cadd_infl : forall d e last st ac tc st' gc,
      traverse d e last st = Ok (ac, tc, st') -> cle gc (cadd gc (cfloor (cadd ac tc))).

  Theorem limited_ok_is_unlimited_walk : forall t ck fuel d s tg r,
    TM.wf t = true -> tg <> s ->
    search (TM.to_search t ck) fuel d s (Some tg) = Ok r ->
    search TM.unlimited fuel d s (Some tg) = Ok r
    /\ exists tr route, r_trees r = [tr] /\ r_routes r = [route]
         /\ tree_ok g d s (triples_of tr) /\ is_Some (tr !! tg)
         /\ route_ok g d s tg (map et_edge route)
         /\ (forall e ed, In e (map et_edge route) -> get_edge g e = Some ed ->
               key_vertex d ed <> s /\ term_vertex d ed <> tg).
  Proof.
    intros t ck fuel d s tg r Hwf Hne H.
    pose proof (proj1 (proj2 (limited_prefix_of_unlimited clt cadd czero cfloor g frontier traverse estimate init_state
                                t ck fuel d s (Some tg) Hwf)) r H) as Hu.
    split; [exact Hu|].
    destruct (vertex_route_walk clt cadd czero cfloor g frontier traverse estimate init_state TM.unlimited cle
                clt_le clt_irr cadd_infl fuel d s tg r Hu Hne) as (tr & route & H1 & H2 & H3 & H4 & H5 & H6).
    exists tr, route. split; [exact H1|]. split; [exact H2|]. split; [apply tree_inv_ok; exact H3|]. auto.
  Qed.

  (* with C05's hypotheses: the destination is reachable through permitted edges and the route is a permitted walk *)
  Variable ok : nat -> bool.
  Hypothesis Hwfg : ReachInvP.wf_graph g.
  Hypothesis Hfr : forall e st prev, frontier e st prev = Ok (ok e).
  Hypothesis Htr : forall d e prev st, exists r, traverse d e prev st = Ok r.
  Hypothesis Hest : forall a b st, a < nverts g -> b < nverts g -> exists c0, estimate a b st = Ok c0.
  Hypothesis Hinit : exists i0, init_state = Ok i0.

  Theorem limited_ok_reaches_destination : forall t ck fuel d s tg r,
    TM.wf t = true -> tg <> s -> s < nverts g -> tg < nverts g ->
    search (TM.to_search t ck) fuel d s (Some tg) = Ok r ->
    search TM.unlimited fuel d s (Some tg) = Ok r
    /\ Reach.reachable ok d g s tg
    /\ exists route, r_routes r = [route] /\ route <> []
         /\ Reach.pwalk ok d g s (map et_edge route) tg
         /\ route_ok g d s tg (map et_edge route).
  Proof.
    intros t ck fuel d s tg r Hwf Hne Hs Ht H.
    destruct (limited_ok_is_unlimited_walk t ck fuel d s tg r Hwf Hne H) as (Hu & tr & route & _ & Hr & _ & _ & Hok & _).
    split; [exact Hu|].
    destruct (ReachMainP.vertex_ok_route clt cadd czero cfloor g frontier traverse estimate init_state TM.unlimited ok
                Hwfg Hfr Htr Hest Hinit d s Hs fuel tg r Hne Ht Hu) as (Hreach & tree & route' & _ & Hr' & Hnn & Hpw).
    split; [exact Hreach|]. assert (route' = route) by congruence. subst route'.
    exists route. auto.
  Qed.
End L4.

End LinkReach.
