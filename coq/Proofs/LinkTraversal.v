(* LINK L1 (C03 <- C02), concrete part: the search of Model/Search.v run ON the traversal model of Model/Traversal.v.

   [trav_of inst] plugs EdgeTraversal::forward_traversal / reverse_traversal of an [instance Q] (graph with lengths,
   state model, speed / distance traversal model, turn-delay access model, any cost functions) into the search as its
   [traverse] parameter, [sgraph inst] is the instance's graph as the search sees it.  Then

     fold_is_walk        LinkChain.route_fold (trav_of inst d)  =  Traversal.walk (step inst d)    (C03's run_forward)
     fold_route_sums     so a route that is such a fold from the declared initial state reports
                         distance = d0 + (sum of lengths) * Kd,  time = t0 + (sum len/speed) * Kt + (sum turn delays) * Kdelay
     dijkstra_route_sums / astar_route_sums   the routes RETURNED BY the search are such folds (LinkChain), under C02's
                         Dijkstra / consistent A-star hypotheses: one closed statement about the two models together. *)
From Coq Require Import ZArith QArith Qabs List String Bool Lia Lqa.
From stdpp Require Import gmap.
From RC Require Import Base.Num Base.Res Model.Units Model.StateOps Model.Traversal Model.TraversalSpec Model.Search
  Proofs.StateOps Proofs.TraversalWalk Proofs.Traversal Proofs.Optimal Proofs.OptimalCore Proofs.OptimalInst Proofs.LinkChain.
Import ListNotations.
Import Units StateOps Traversal TSpec.
Local Open Scope Q_scope.

Module LinkTraversal.
Import Optimal OptimalCore OptimalInst LinkChain.

Definition tdir (d : Search.dir) : direction :=
  match d with Search.Forward => Forward | Search.Reverse => Reverse end.

(* the instance's graph as the search sees it: edge id = position, end points only *)
Definition sgraph (inst : instance Q) : Search.graph :=
  Search.mkGraph (g_nv (i_graph inst)) (map (fun e => Search.mkEdge (e_src e) (e_dst e)) (g_edges (i_graph inst))).

(* Direction::perform_edge_traversal: (access cost, traversal cost, result state) of the EdgeTraversal *)
Definition trav_of (inst : instance Q) (d : Search.dir) (e : nat) (prev : option nat) (st : list Q)
  : res (Q * Q * list Q) :=
  do et <- step inst (tdir d) e prev st; Ok (et_access et, et_trav et, et_state et).

(* a hop of the search's route, read as an EdgeTraversal of Model/Traversal.v *)
Definition conv (x : Search.etrav Q (list Q)) : etrav Q :=
  Build_etrav (Search.et_edge x) (Search.et_access x) (Search.et_trav x) (Search.et_state x).

Lemma conv_state (r : list (Search.etrav Q (list Q))) k et :
  nth_error r k = Some et -> nth_error (map conv r) k = Some (conv et).
Proof. intros H. rewrite nth_error_map, H. reflexivity. Qed.

Lemma fold_is_walk inst d es : forall prev st r,
  route_fold (trav_of inst d) prev st es = Ok r -> walk QN (step inst (tdir d)) prev st es = Ok (map conv r).
Proof.
  induction es as [|e es IH]; intros prev st r H.
  - inversion H; reflexivity.
  - apply route_fold_cons_inv in H as (ac & tc & st' & rest & Ht & Hr & ->).
    unfold trav_of in Ht. destruct (step inst (tdir d) e prev st) as [et| | |] eqn:Es; cbn [bind] in Ht; try discriminate.
    inversion Ht; subst ac tc st'. rewrite walk_cons, Es. pose proof (IH _ _ _ Hr) as IH1. change (T QN) with Q in *. rewrite IH1. cbn [map]. f_equal. f_equal.
    unfold conv. cbn [Search.et_edge Search.et_access Search.et_trav Search.et_state].
    rewrite <- (step_edge inst (tdir d) e prev st et Es). destruct et; reflexivity.
Qed.

(* ... hence meets C03's premise [chain] literally *)
Lemma fold_is_chain inst d es prev st r :
  route_fold (trav_of inst d) prev st es = Ok r -> chain QN (step inst (tdir d)) prev st (map conv r).
Proof.
  intros H. exact (walk_chain QN (step inst (tdir d)) (step_edge inst (tdir d)) es prev st _ (fold_is_walk inst d es prev st r H)).
Qed.

Section Sums.
  Variable inst : instance Q.
  Variables (i_d i_t : nat) (fu_d : dist_unit) (fu_t : time_unit) (d0 t0 : Q).
  Hypothesis Hcfg : configured inst i_d i_t fu_d fu_t d0 t0.
  Variable d : Search.dir.
  Notation init := (initial_state (i_sm inst)).
  Notation ids := (map (Search.et_edge (C:=Q) (St:=list Q))).

  (* what C03 says about a route, as one predicate on the route the SEARCH reports *)
  Definition reports_true_sums (r : list (Search.etrav Q (list Q))) : Prop :=
    walk QN (step inst (tdir d)) None init (ids r) = Ok (map conv r)
    /\ forall k et, nth_error r k = Some et ->
         slot (Search.et_state et) i_d == d0 + sum_len inst (firstn (S k) (ids r)) * Kd inst fu_d
         /\ slot (Search.et_state et) i_t == t0 + sum_len_over_speed inst (firstn (S k) (ids r)) * Kt inst fu_t
                                             + sum_delay inst (tdir d) None (firstn (S k) (ids r)) * Kdelay inst fu_t
         /\ (forall j, j <> i_d -> j <> i_t -> slot (Search.et_state et) j = slot init j)
         /\ (k = 0%nat -> Search.et_access et = 0).

  Lemma fold_route_sums r : route_fold (trav_of inst d) None init (ids r) = Ok r -> reports_true_sums r.
  Proof.
    intros H. pose proof (fold_is_walk inst d _ _ _ _ H) as Hw. split; [exact Hw|].
    intros k et Hk. pose proof (conv_state r k et Hk) as Hk'.
    destruct (route_sums inst i_d i_t fu_d fu_t d0 t0 Hcfg (tdir d) _ _ k (conv et) Hw Hk') as (H1 & H2 & H3).
    split; [exact H1|]. split; [exact H2|]. split; [exact H3|].
    intros ->. destruct r as [|x r']; [discriminate|]. cbn in Hk. inversion Hk; subst x.
    cbn [map] in H. apply route_fold_cons_inv in H as (ac & tc & st' & rest & Ht & _ & E).
    unfold trav_of in Ht.
    destruct (step inst (tdir d) (Search.et_edge et) None init) as [et'| | |] eqn:Es; cbn [bind] in Ht; try discriminate.
    destruct (step_costs inst _ _ _ _ _ Es) as (total & _ & _ & Hz). inversion Ht; subst. inversion E; subst.
    cbn [Search.et_access]. exact (Hz eq_refl).
  Qed.

  Section Searches.
    Variable cfloor : Q -> Q.
    Variable frontier : nat -> list Q -> option nat -> res bool.
    Variable estimate : nat -> nat -> list Q -> res Q.
    Variable terminate : nat -> nat -> option string.
    Variable source t : nat.
    Variable c : nat -> Q.
    Variable ok : nat -> bool.
    Hypothesis Hfront : forall e st prev b, frontier e st prev = Ok b -> b = ok e.
    (* the objective is edge-local: whatever the traversal reports for edge e costs c e *)
    Hypothesis Hlocal : forall e prev st et, step inst (tdir d) e prev st = Ok et -> cfloor (et_access et + et_trav et) == c e.
    Hypothesis Hpos : forall e, ok e = true -> 0 <= c e.

    Notation RVO := (Search.run_vertex_oriented Qltb Qplus 0 cfloor (sgraph inst) frontier (trav_of inst) estimate (Ok init) terminate).

    Lemma local_trav : forall e prev st ac tc st', trav_of inst d e prev st = Ok (ac, tc, st') -> cfloor (ac + tc) == c e.
    Proof.
      intros e prev st ac tc st' H. unfold trav_of in H.
      destruct (step inst (tdir d) e prev st) as [et| | |] eqn:Es; cbn [bind] in H; try discriminate.
      inversion H; subst. exact (Hlocal _ _ _ _ Es).
    Qed.

    (* Dijkstra: the estimate is (equivalent to) zero *)
    Theorem dijkstra_route_sums :
      (forall v st x, estimate v t st = Ok x -> x == 0) ->
      forall fuel res, RVO fuel d source (Some t) = Ok res ->
      exists r, Search.r_routes res = [r] /\ reports_true_sums r.
    Proof.
      intros Hest fuel res H.
      assert (A0 : forall x : Q, ceq Qltb (x + 0) x) by (intros x; apply ceqQ; apply Qplus_0_r).
      assert (A1 : forall e prev st ac tc st', trav_of inst d e prev st = Ok (ac, tc, st') -> ceq Qltb (cfloor (ac + tc)) (c e)).
      { intros. apply ceqQ. eapply local_trav; eauto. }
      assert (A2 : forall a e, ok e = true -> cle Qltb a (a + c e)).
      { intros a e Hok. apply cleQ. specialize (Hpos e Hok). lra. }
      assert (A3 : forall v t' st h, Some t = Some t' -> estimate v t' st = Ok h -> ceq Qltb h 0).
      { intros v t' st h Et Hh. inversion Et; subst t'. apply ceqQ. eauto. }
      destruct (dijkstra_route_is_fold Qltb Qplus 0 cfloor Q_algebra A0
                  (sgraph inst) frontier (trav_of inst) estimate (Ok init) terminate d source (Some t) c ok Hfront A1 A2 A3
                  fuel t res eq_refl H) as (tree & r & _ & Hr & Hf & _).
      exists r. split; [exact Hr|]. apply fold_route_sums. exact (proj1 (Hf _ eq_refl)).
    Qed.

    (* A-star: estimate = w * h, h consistent on permitted edges in the search direction, 0 <= w <= 1 *)
    Theorem astar_route_sums : forall (h : nat -> Q) (w : Q),
      0 <= w /\ w <= 1 ->
      (forall v st x, estimate v t st = Ok x -> x == w * h v) ->
      (forall e ed, Search.get_edge (sgraph inst) e = Some ed -> ok e = true ->
         h (Search.term_vertex d ed) <= c e + h (Search.key_vertex d ed)) ->
      forall fuel res, RVO fuel d source (Some t) = Ok res ->
      exists r, Search.r_routes res = [r] /\ reports_true_sums r.
    Proof.
      intros h w Hw Hest Hcons fuel res H.
      destruct (astar_w_route_is_fold cfloor (sgraph inst) frontier (trav_of inst) estimate (Ok init) terminate d source t c ok h w
                  Hfront local_trav Hpos Hw Hest Hcons fuel res H) as (tree & r & _ & Hr & Hf & _).
      exists r. split; [exact Hr|]. apply fold_route_sums. exact (proj1 (Hf _ eq_refl)).
    Qed.
  End Searches.
End Sums.

End LinkTraversal.
