(* C15: the graph built by the loader model is the network described by the rows.
   Part 1  list plumbing (upd, buckets of a list by a key, mapM)
   Part 2  the loader invariant: after any prefix of the rows, adj[v] / rev[v] REFINE (C11's Abs) the
           association list obtained by inserting, in file order, the rows leaving / entering v.
           No hypothesis on the rows is needed for this (duplicate ids, out-of-range end points included).
   Part 3  consequences for rows whose ids are their row indices: every accessor of Graph equals the
           specification read off the rows. *)
From Coq Require Import List Arith Bool Lia Permutation String.
From RC Require Import Base.Res Model.CompactMap Model.Loader Proofs.CompactMap.
Import ListNotations.

(* ------------------------------------------------------------------------------------ *)
(* Part 1                                                                               *)
(* ------------------------------------------------------------------------------------ *)
Section Lists.
  Context {A : Type}.

  Lemma upd_length (l : list A) i f : List.length (LD.upd l i f) = List.length l.
  Proof.
    revert i. induction l as [|x r IH]; intros [|j]; cbn [LD.upd List.length]; try reflexivity.
    rewrite IH. reflexivity.
  Qed.

  Lemma upd_nth_same (l : list A) i f x :
    nth_error l i = Some x -> nth_error (LD.upd l i f) i = Some (f x).
  Proof.
    revert i. induction l as [|y r IH]; intros [|j] H; cbn [LD.upd nth_error] in *; try discriminate.
    - injection H as ->. reflexivity.
    - apply IH. exact H.
  Qed.

  Lemma upd_nth_other (l : list A) i j f : i <> j -> nth_error (LD.upd l i f) j = nth_error l j.
  Proof.
    revert i j. induction l as [|y r IH]; intros [|i] [|j] H; cbn [LD.upd nth_error]; try reflexivity.
    - contradiction.
    - apply IH. congruence.
  Qed.

  Lemma nth_error_repeat (x y : A) n i : nth_error (repeat x n) i = Some y -> y = x.
  Proof.
    revert i. induction n as [|n IH]; intros [|i] H; cbn [repeat nth_error] in H; try discriminate.
    - injection H as <-. reflexivity.
    - exact (IH i H).
  Qed.

  (* ---- buckets: splitting a list by a key < n loses and duplicates nothing ---- *)
  Lemma flat_map_nil {B} (l : list B) : flat_map (fun _ : B => @nil A) l = [].
  Proof. induction l as [|b r IH]; cbn [flat_map app]; [reflexivity | exact IH]. Qed.

  Lemma flat_map_ext_in {B} (f g : B -> list A) (l : list B) :
    (forall b, In b l -> f b = g b) -> flat_map f l = flat_map g l.
  Proof.
    induction l as [|b r IH]; intros H; cbn [flat_map]; [reflexivity|].
    rewrite (H b (or_introl eq_refl)), IH; [reflexivity|].
    intros b' Hb'. apply H. right. exact Hb'.
  Qed.

  Lemma flat_map_insert_one (G : nat -> list A) (x : A) (a : nat) (l : list nat) :
    NoDup l -> In a l ->
    Permutation (flat_map (fun v => if Nat.eqb a v then x :: G v else G v) l) (x :: flat_map G l).
  Proof.
    induction l as [|b r IH]; intros Hnd Hin; [destruct Hin|].
    inversion Hnd as [|b' r' Hnotin Hnd']; subst. cbn [flat_map].
    destruct (Nat.eqb_spec a b) as [Heq|Hne].
    - subst b. cbn [app]. apply perm_skip. apply Permutation_app_head.
      rewrite (flat_map_ext_in (fun v => if Nat.eqb a v then x :: G v else G v) G r); [reflexivity|].
      intros v Hv. destruct (Nat.eqb_spec a v) as [->|_]; [contradiction | reflexivity].
    - destruct Hin as [Hin|Hin]; [congruence|].
      eapply Permutation_trans; [apply Permutation_app_head, (IH Hnd' Hin)|].
      apply Permutation_sym, Permutation_middle.
  Qed.

  Lemma buckets_perm (key : A -> nat) (n : nat) (rows : list A) :
    Forall (fun e => key e < n) rows ->
    Permutation (flat_map (fun v => filter (fun e => Nat.eqb (key e) v) rows) (seq 0 n)) rows.
  Proof.
    induction rows as [|e r IH]; intros Hall.
    - cbn [filter]. rewrite flat_map_nil. constructor.
    - inversion Hall as [|e' r' He Hr]; subst. cbn [filter].
      eapply Permutation_trans.
      + apply (flat_map_insert_one (fun v => filter (fun e0 => Nat.eqb (key e0) v) r) e (key e));
          [apply seq_NoDup | apply in_seq; lia].
      + apply perm_skip. exact (IH Hr).
  Qed.

  Lemma filter_none (p : A -> bool) (l : list A) : (forall x, In x l -> p x = false) -> filter p l = [].
  Proof.
    induction l as [|x r IH]; intros H; cbn [filter]; [reflexivity|].
    rewrite (H x (or_introl eq_refl)). apply IH. intros y Hy. apply H. right. exact Hy.
  Qed.

  Lemma nodup_map_filter {B} (f : A -> B) (p : A -> bool) (l : list A) :
    NoDup (map f l) -> NoDup (map f (filter p l)).
  Proof.
    induction l as [|x r IH]; intros H; cbn [filter map] in *; [constructor|].
    inversion H as [|y s Hnotin Hnd]; subst. destruct (p x); cbn [map].
    - constructor; [|exact (IH Hnd)]. intros Hin. apply Hnotin.
      apply in_map_iff in Hin. destruct Hin as (z & Hz & Hzin). apply in_map_iff. exists z.
      split; [exact Hz|]. apply filter_In in Hzin. tauto.
    - exact (IH Hnd).
  Qed.
End Lists.

Lemma map_flat_map {A B C} (f : B -> C) (g : A -> list B) (l : list A) :
  map f (flat_map g l) = flat_map (fun a => map f (g a)) l.
Proof.
  induction l as [|a r IH]; cbn [flat_map map]; [reflexivity|]. rewrite map_app, IH. reflexivity.
Qed.

(* mapM over the ids of rows that all resolve *)
Lemma mapM_all_ok {A B R} (f : A -> res B) (pick : R -> A) (g : R -> B) (l : list R) :
  (forall r, In r l -> f (pick r) = Ok (g r)) -> LD.mapM f (map pick l) = Ok (map g l).
Proof.
  induction l as [|r l IH]; intros H; cbn [map LD.mapM]; [reflexivity|].
  rewrite (H r (or_introl eq_refl)). cbn [bind]. rewrite IH; [reflexivity|].
  intros r' Hr'. apply H. right. exact Hr'.
Qed.

Lemma mapM_ext_in {A B} (f g : A -> res B) (l : list A) :
  (forall a, In a l -> f a = g a) -> LD.mapM f l = LD.mapM g l.
Proof.
  induction l as [|a l IH]; intros H; cbn [LD.mapM]; [reflexivity|].
  rewrite (H a (or_introl eq_refl)), IH; [reflexivity|]. intros a' Ha'. apply H. right. exact Ha'.
Qed.

(* ------------------------------------------------------------------------------------ *)
(* Part 2: the loader invariant                                                         *)
(* ------------------------------------------------------------------------------------ *)
Notation ins_all := (fold_left (fun s kv => CM.s_ins Nat.eqb s (fst kv) (snd kv))).
Notation AbsN := (@Abs nat nat).

Lemma ins_all_snoc (l : list (nat * nat)) k v acc :
  ins_all (l ++ [(k, v)]) acc = CM.s_ins Nat.eqb (ins_all l acc) k v.
Proof. rewrite fold_left_app. reflexivity. Qed.

(* with distinct keys the inserts only append: the association list is the input itself *)
Lemma ins_all_nodup (l acc : list (nat * nat)) :
  NoDup (map fst (acc ++ l)) -> ins_all l acc = acc ++ l.
Proof.
  revert acc. induction l as [|[k v] r IH]; intros acc Hnd; cbn [fold_left fst snd].
  - rewrite app_nil_r. reflexivity.
  - assert (Hfresh : CM.s_get Nat.eqb acc k = None).
    { apply (s_get_none Nat.eqb Nat.eqb_spec). intros Hin.
      rewrite map_app in Hnd. cbn [map fst] in Hnd. apply NoDup_remove_2 in Hnd. apply Hnd.
      apply in_or_app. left. exact Hin. }
    rewrite (s_ins_app Nat.eqb acc k v Hfresh).
    rewrite IH; rewrite <- app_assoc; cbn [app]; [reflexivity | exact Hnd].
Qed.

Section Invariant.
  Context {D C : Type}.
  Notation edge := (LD.edge D).
  Notation vertex := (LD.vertex C).
  Implicit Types (e : edge) (rows done : list edge) (st : LD.lstate) (v n : nat).

  Definition pairs_out rows v : list (nat * nat) := LD.s_adj_view rows v.
  Definition pairs_in rows v : list (nat * nat) := LD.s_rev_view rows v.

  Lemma pairs_out_snoc done e v :
    pairs_out (done ++ [e]) v
    = pairs_out done v ++ (if Nat.eqb (LD.e_src e) v then [(LD.e_id e, LD.e_dst e)] else []).
  Proof.
    unfold pairs_out, LD.s_adj_view, LD.leaving. rewrite filter_app, map_app. cbn [filter].
    destruct (Nat.eqb (LD.e_src e) v); reflexivity.
  Qed.
  Lemma pairs_in_snoc done e v :
    pairs_in (done ++ [e]) v
    = pairs_in done v ++ (if Nat.eqb (LD.e_dst e) v then [(LD.e_id e, LD.e_src e)] else []).
  Proof.
    unfold pairs_in, LD.s_rev_view, LD.entering. rewrite filter_app, map_app. cbn [filter].
    destruct (Nat.eqb (LD.e_dst e) v); reflexivity.
  Qed.

  Definition Inv n done st : Prop :=
    List.length (LD.l_adj st) = n /\ List.length (LD.l_rev st) = n
    /\ (forall v m, nth_error (LD.l_adj st) v = Some m -> AbsN m (ins_all (pairs_out done v) []))
    /\ (forall v m, nth_error (LD.l_rev st) v = Some m -> AbsN m (ins_all (pairs_in done v) [])).

  Lemma inv_init n : Inv n [] (LD.init_state n).
  Proof.
    unfold Inv, LD.init_state. cbn [LD.l_adj LD.l_rev]. rewrite repeat_length.
    repeat split; intros v m H; apply nth_error_repeat in H; subst m; exact abs_empty.
  Qed.

  (* one side of the callback: a list of maps, a key vertex a, the pair (k, x) to insert *)
  Lemma side_step (l : list LD.amap) (spec : nat -> list (nat * nat)) (a k x : nat) :
    (forall v m, nth_error l v = Some m -> AbsN m (ins_all (spec v) [])) ->
    forall v m,
      nth_error (match nth_error l a with None => l | Some _ => LD.upd l a (LD.ins k x) end) v = Some m ->
      AbsN m (ins_all (spec v ++ (if Nat.eqb a v then [(k, x)] else [])) []).
  Proof.
    intros H v m Hm. destruct (nth_error l a) as [ma|] eqn:Ea.
    - destruct (Nat.eqb_spec a v) as [Hav|Hav].
      + subst v. rewrite (upd_nth_same l a _ ma Ea) in Hm. injection Hm as <-.
        rewrite ins_all_snoc. unfold LD.ins.
        exact (proj1 (abs_insert Nat.eqb Nat.eqb_spec ma _ k x (H a ma Ea))).
      + rewrite (upd_nth_other l a v _ Hav) in Hm. rewrite app_nil_r. exact (H v m Hm).
    - destruct (Nat.eqb_spec a v) as [Hav|Hav].
      + subst v. rewrite Ea in Hm. discriminate.
      + rewrite app_nil_r. exact (H v m Hm).
  Qed.

  Lemma inv_step n done st e : Inv n done st -> Inv n (done ++ [e]) (LD.edge_cb st e).
  Proof.
    intros (Hla & Hlr & Ha & Hr). unfold LD.edge_cb.
    (* normal form: the callback acts on adj and rev independently *)
    assert (Eadj : LD.l_adj (LD.edge_cb st e)
                   = match nth_error (LD.l_adj st) (LD.e_src e) with
                     | None => LD.l_adj st
                     | Some _ => LD.upd (LD.l_adj st) (LD.e_src e) (LD.ins (LD.e_id e) (LD.e_dst e)) end).
    { unfold LD.edge_cb. destruct (nth_error (LD.l_adj st) (LD.e_src e)); cbn [LD.l_adj LD.l_rev];
        destruct (nth_error (LD.l_rev st) (LD.e_dst e)); reflexivity. }
    assert (Erev : LD.l_rev (LD.edge_cb st e)
                   = match nth_error (LD.l_rev st) (LD.e_dst e) with
                     | None => LD.l_rev st
                     | Some _ => LD.upd (LD.l_rev st) (LD.e_dst e) (LD.ins (LD.e_id e) (LD.e_src e)) end).
    { unfold LD.edge_cb. destruct (nth_error (LD.l_adj st) (LD.e_src e)); cbn [LD.l_adj LD.l_rev];
        destruct (nth_error (LD.l_rev st) (LD.e_dst e)); reflexivity. }
    fold (LD.edge_cb st e). unfold Inv. rewrite Eadj, Erev. repeat split.
    - destruct (nth_error (LD.l_adj st) (LD.e_src e)); [rewrite upd_length|]; exact Hla.
    - destruct (nth_error (LD.l_rev st) (LD.e_dst e)); [rewrite upd_length|]; exact Hlr.
    - intros v m Hm. rewrite pairs_out_snoc. exact (side_step _ _ _ _ _ Ha v m Hm).
    - intros v m Hm. rewrite pairs_in_snoc. exact (side_step _ _ _ _ _ Hr v m Hm).
  Qed.

  Lemma inv_fold n rows : forall done st,
    Inv n done st -> Inv n (done ++ rows) (fold_left LD.edge_cb rows st).
  Proof.
    induction rows as [|e r IH]; intros done st H; cbn [fold_left].
    - rewrite app_nil_r. exact H.
    - replace (done ++ e :: r) with ((done ++ [e]) ++ r) by (rewrite <- app_assoc; reflexivity).
      apply IH. apply inv_step. exact H.
  Qed.

  Theorem load_inv n rows : Inv n rows (LD.load_edges n rows).
  Proof. exact (inv_fold n rows [] _ (inv_init n)). Qed.

  (* ---- missing_vertices: empty at the end iff every end point of every row is below n ---- *)
  Lemma set_add_not_nil (l : list nat) x : LD.set_add l x <> [].
  Proof.
    unfold LD.set_add. destruct l as [|y r]; cbn [existsb]; [discriminate|].
    destruct (Nat.eqb x y || existsb (Nat.eqb x) r); [discriminate|]. cbn [app]. discriminate.
  Qed.

  Lemma missing_step n st e :
    List.length (LD.l_adj st) = n -> List.length (LD.l_rev st) = n ->
    (LD.l_missing (LD.edge_cb st e) = [] <-> LD.l_missing st = [] /\ LD.e_src e < n /\ LD.e_dst e < n).
  Proof.
    intros Hla Hlr. unfold LD.edge_cb.
    destruct (nth_error (LD.l_adj st) (LD.e_src e)) as [ma|] eqn:Ea; cbn [LD.l_adj LD.l_rev LD.l_missing].
    - assert (Hs : LD.e_src e < n) by (rewrite <- Hla; apply nth_error_Some; congruence).
      destruct (nth_error (LD.l_rev st) (LD.e_dst e)) as [mr|] eqn:Er; cbn [LD.l_missing].
      + assert (Hd : LD.e_dst e < n) by (rewrite <- Hlr; apply nth_error_Some; congruence). tauto.
      + apply nth_error_None in Er. split; [intros H; exfalso; exact (set_add_not_nil _ _ H)|].
        intros (_ & _ & Hd). lia.
    - apply nth_error_None in Ea.
      destruct (nth_error (LD.l_rev st) (LD.e_dst e)) as [mr|] eqn:Er; cbn [LD.l_missing];
        (split; [intros H; exfalso; exact (set_add_not_nil _ _ H) | intros (_ & Hs & _); lia]).
  Qed.

  Lemma missing_fold n rows : forall done st, Inv n done st ->
    (LD.l_missing (fold_left LD.edge_cb rows st) = [] <-> LD.l_missing st = [] /\ LD.ends_below n rows).
  Proof.
    unfold LD.ends_below. induction rows as [|e r IH]; intros done st H; cbn [fold_left].
    - split; [intros Hm; split; [exact Hm | constructor] | tauto].
    - rewrite (IH (done ++ [e]) _ (inv_step n done st e H)).
      destruct H as (Hla & Hlr & _). rewrite (missing_step n st e Hla Hlr). split.
      + intros ((Hm & Hs & Hd) & Hr). split; [exact Hm|]. constructor; [split; assumption | exact Hr].
      + intros (Hm & Hall). inversion Hall as [|e' r' [Hs Hd] Hr]; subst. tauto.
  Qed.

  Theorem missing_nil_iff n rows : LD.l_missing (LD.load_edges n rows) = [] <-> LD.ends_below n rows.
  Proof.
    unfold LD.load_edges. rewrite (missing_fold n rows [] _ (inv_init n)). cbn [LD.init_state LD.l_missing]. tauto.
  Qed.

  (* the load succeeds exactly when every end point is below n, and then yields [build] *)
  Theorem load_ok_iff n rows (vrows : list (LD.vertex C)) g :
    LD.load n rows vrows = Ok g <-> g = LD.build n rows vrows /\ LD.ends_below n rows.
  Proof.
    unfold LD.load. rewrite <- missing_nil_iff.
    destruct (LD.l_missing (LD.load_edges n rows)) as [|x l]; split.
    - intros H. injection H as <-. split; reflexivity.
    - intros [-> _]. reflexivity.
    - discriminate.
    - intros [_ H]. discriminate.
  Qed.
  Theorem load_fails n rows (vrows : list (LD.vertex C)) :
    ~ LD.ends_below n rows -> LD.load n rows vrows = Err "DatasetError"%string.
  Proof.
    intros H. unfold LD.load. destruct (LD.l_missing (LD.load_edges n rows)) as [|x l] eqn:E; [|reflexivity].
    exfalso. apply H. apply missing_nil_iff. exact E.
  Qed.

  (* ---------------------------------------------------------------------------------- *)
  (* Part 3                                                                             *)
  (* ---------------------------------------------------------------------------------- *)
  Notation build := (@LD.build D C).
  Implicit Types (vrows : list vertex).

  Lemma build_lengths n rows vrows :
    List.length (LD.adj (build n rows vrows)) = n /\ List.length (LD.rev (build n rows vrows)) = n
    /\ LD.n_edges (build n rows vrows) = List.length rows
    /\ LD.n_vertices (build n rows vrows) = List.length vrows.
  Proof.
    destruct (load_inv n rows) as (Ha & Hr & _). unfold LD.build. cbn [LD.adj LD.rev].
    repeat split; assumption.
  Qed.

  Lemma nth_some_lt {A} (l : list A) i : i < List.length l -> exists x, nth_error l i = Some x.
  Proof.
    intros H. destruct (nth_error l i) as [x|] eqn:E; [exists x; reflexivity|].
    apply nth_error_None in E. lia.
  Qed.

  (* faithful, NO hypothesis on the rows: the adjacency views are the replace-or-append insertion of
     the rows leaving / entering v, for v below the adjacency size, and empty above it *)
  Theorem adj_view_general n rows vrows v :
    LD.adj_view (build n rows vrows) v
    = if Nat.ltb v n then ins_all (LD.s_adj_view rows v) [] else [].
  Proof.
    destruct (load_inv n rows) as (Hla & _ & Ha & _). unfold LD.adj_view, LD.build. cbn [LD.adj].
    destruct (Nat.ltb_spec v n) as [Hlt|Hge].
    - rewrite <- Hla in Hlt. destruct (nth_some_lt _ _ Hlt) as [m Hm]. rewrite Hm.
      exact (abs_iter m _ (Ha v m Hm)).
    - rewrite <- Hla in Hge. apply nth_error_None in Hge. rewrite Hge. reflexivity.
  Qed.
  Theorem rev_view_general n rows vrows v :
    LD.rev_view (build n rows vrows) v
    = if Nat.ltb v n then ins_all (LD.s_rev_view rows v) [] else [].
  Proof.
    destruct (load_inv n rows) as (_ & Hlr & _ & Hr). unfold LD.rev_view, LD.build. cbn [LD.rev].
    destruct (Nat.ltb_spec v n) as [Hlt|Hge].
    - rewrite <- Hlr in Hlt. destruct (nth_some_lt _ _ Hlt) as [m Hm]. rewrite Hm.
      exact (abs_iter m _ (Hr v m Hm)).
    - rewrite <- Hlr in Hge. apply nth_error_None in Hge. rewrite Hge. reflexivity.
  Qed.
  Theorem out_edges_general n rows vrows v :
    LD.out_edges (build n rows vrows) v
    = if Nat.ltb v n then map fst (ins_all (LD.s_adj_view rows v) []) else [].
  Proof.
    destruct (load_inv n rows) as (Hla & _ & Ha & _). unfold LD.out_edges, LD.build. cbn [LD.adj].
    destruct (Nat.ltb_spec v n) as [Hlt|Hge].
    - rewrite <- Hla in Hlt. destruct (nth_some_lt _ _ Hlt) as [m Hm]. rewrite Hm.
      exact (abs_keys m _ (Ha v m Hm)).
    - rewrite <- Hla in Hge. apply nth_error_None in Hge. rewrite Hge. reflexivity.
  Qed.
  Theorem in_edges_general n rows vrows v :
    LD.in_edges (build n rows vrows) v
    = if Nat.ltb v n then map fst (ins_all (LD.s_rev_view rows v) []) else [].
  Proof.
    destruct (load_inv n rows) as (_ & Hlr & _ & Hr). unfold LD.in_edges, LD.build. cbn [LD.rev].
    destruct (Nat.ltb_spec v n) as [Hlt|Hge].
    - rewrite <- Hlr in Hlt. destruct (nth_some_lt _ _ Hlt) as [m Hm]. rewrite Hm.
      exact (abs_keys m _ (Hr v m Hm)).
    - rewrite <- Hlr in Hge. apply nth_error_None in Hge. rewrite Hge. reflexivity.
  Qed.

  (* the same fields read through keys() + get() and len(): they say what iter() says *)
  Lemma abs_get_view (m : LD.amap) (sp : list (nat * nat)) :
    AbsN m sp ->
    map (fun k => (k, CM.get Nat.eqb m k)) (CM.keys m) = map (fun p => (fst p, Some (snd p))) sp
    /\ CM.len m = List.length sp.
  Proof.
    intros Habs. split; [|exact (abs_len m sp Habs)].
    rewrite (abs_keys m sp Habs), map_map. apply map_ext_in. intros [k x] Hin. cbn [fst snd].
    rewrite (abs_get Nat.eqb Nat.eqb_spec m sp k Habs).
    rewrite (proj2 (s_get_in Nat.eqb Nat.eqb_spec sp k x (abs_nodup m sp Habs)) Hin). reflexivity.
  Qed.

  Theorem get_len_views_general n rows vrows v :
    let some := map (fun p : nat * nat => (fst p, Some (snd p))) in
    LD.get_view (LD.adj (build n rows vrows)) v = some (LD.adj_view (build n rows vrows) v)
    /\ LD.get_view (LD.rev (build n rows vrows)) v = some (LD.rev_view (build n rows vrows) v)
    /\ LD.len_view (LD.adj (build n rows vrows)) v = List.length (LD.adj_view (build n rows vrows) v)
    /\ LD.len_view (LD.rev (build n rows vrows)) v = List.length (LD.rev_view (build n rows vrows) v).
  Proof.
    destruct (load_inv n rows) as (_ & _ & Ha & Hr). cbv zeta.
    unfold LD.get_view, LD.len_view, LD.adj_view, LD.rev_view, LD.build. cbn [LD.adj LD.rev].
    destruct (nth_error (LD.l_adj (LD.load_edges n rows)) v) as [ma|] eqn:Ea;
      destruct (nth_error (LD.l_rev (LD.load_edges n rows)) v) as [mr|] eqn:Er; cbn [map List.length];
      repeat split;
      try (rewrite (abs_iter ma _ (Ha v ma Ea)); apply (abs_get_view ma _ (Ha v ma Ea)));
      try (rewrite (abs_iter mr _ (Hr v mr Er)); apply (abs_get_view mr _ (Hr v mr Er))).
  Qed.

  (* ---- distinct edge ids: nothing is overwritten ---- *)
  Lemma ids_nodup rows : LD.ids_are_rows rows -> NoDup (map LD.e_id rows).
  Proof. unfold LD.ids_are_rows. intros ->. apply seq_NoDup. Qed.

  Lemma ins_all_adj rows v : NoDup (map LD.e_id rows) -> ins_all (LD.s_adj_view rows v) [] = LD.s_adj_view rows v.
  Proof.
    intros Hnd. rewrite (ins_all_nodup _ []); [reflexivity|]. cbn [app].
    unfold LD.s_adj_view, LD.leaving. rewrite map_map. cbn [fst].
    apply nodup_map_filter. exact Hnd.
  Qed.
  Lemma ins_all_rev rows v : NoDup (map LD.e_id rows) -> ins_all (LD.s_rev_view rows v) [] = LD.s_rev_view rows v.
  Proof.
    intros Hnd. rewrite (ins_all_nodup _ []); [reflexivity|]. cbn [app].
    unfold LD.s_rev_view, LD.entering. rewrite map_map. cbn [fst].
    apply nodup_map_filter. exact Hnd.
  Qed.

  (* out-of-range end points, stated faithfully: with distinct ids, a row is in the forward adjacency iff
     its SOURCE is below n, and in the reverse adjacency iff its DESTINATION is below n *)
  Theorem adj_view_distinct n rows vrows v : NoDup (map LD.e_id rows) ->
    LD.adj_view (build n rows vrows) v = if Nat.ltb v n then LD.s_adj_view rows v else [].
  Proof. intros Hnd. rewrite adj_view_general, (ins_all_adj rows v Hnd). reflexivity. Qed.
  Theorem rev_view_distinct n rows vrows v : NoDup (map LD.e_id rows) ->
    LD.rev_view (build n rows vrows) v = if Nat.ltb v n then LD.s_rev_view rows v else [].
  Proof. intros Hnd. rewrite rev_view_general, (ins_all_rev rows v Hnd). reflexivity. Qed.
  Theorem out_edges_distinct n rows vrows v : NoDup (map LD.e_id rows) ->
    LD.out_edges (build n rows vrows) v = if Nat.ltb v n then LD.s_out rows v else [].
  Proof.
    intros Hnd. rewrite out_edges_general, (ins_all_adj rows v Hnd).
    unfold LD.s_adj_view, LD.s_out. rewrite map_map. reflexivity.
  Qed.
  Theorem in_edges_distinct n rows vrows v : NoDup (map LD.e_id rows) ->
    LD.in_edges (build n rows vrows) v = if Nat.ltb v n then LD.s_in rows v else [].
  Proof.
    intros Hnd. rewrite in_edges_general, (ins_all_rev rows v Hnd).
    unfold LD.s_rev_view, LD.s_in. rewrite map_map. reflexivity.
  Qed.

  (* ---- end points below n: the "if" disappears ---- *)
  Lemma leaving_above n rows v : LD.ends_below n rows -> n <= v -> LD.leaving rows v = [].
  Proof.
    intros Hall Hge. apply filter_none. intros e He.
    pose proof (proj1 (Forall_forall _ _) Hall e He) as [Hs _].
    apply Nat.eqb_neq. lia.
  Qed.
  Lemma entering_above n rows v : LD.ends_below n rows -> n <= v -> LD.entering rows v = [].
  Proof.
    intros Hall Hge. apply filter_none. intros e He.
    pose proof (proj1 (Forall_forall _ _) Hall e He) as [_ Hd].
    apply Nat.eqb_neq. lia.
  Qed.

  Section WellFormed.
    Variables (n : nat) (rows : list edge) (vrows : list vertex).
    Hypothesis Hids : LD.ids_are_rows rows.
    Hypothesis Hends : LD.ends_below n rows.
    Let g := build n rows vrows.

    Theorem adj_view_spec v : LD.adj_view g v = LD.s_adj_view rows v.
    Proof.
      unfold g. rewrite (adj_view_distinct n rows vrows v (ids_nodup rows Hids)).
      destruct (Nat.ltb_spec v n) as [_|Hge]; [reflexivity|].
      unfold LD.s_adj_view. rewrite (leaving_above n rows v Hends Hge). reflexivity.
    Qed.
    Theorem rev_view_spec v : LD.rev_view g v = LD.s_rev_view rows v.
    Proof.
      unfold g. rewrite (rev_view_distinct n rows vrows v (ids_nodup rows Hids)).
      destruct (Nat.ltb_spec v n) as [_|Hge]; [reflexivity|].
      unfold LD.s_rev_view. rewrite (entering_above n rows v Hends Hge). reflexivity.
    Qed.
    Theorem out_edges_spec v : LD.out_edges g v = LD.s_out rows v.
    Proof.
      unfold g. rewrite (out_edges_distinct n rows vrows v (ids_nodup rows Hids)).
      destruct (Nat.ltb_spec v n) as [_|Hge]; [reflexivity|].
      unfold LD.s_out. rewrite (leaving_above n rows v Hends Hge). reflexivity.
    Qed.
    Theorem in_edges_spec v : LD.in_edges g v = LD.s_in rows v.
    Proof.
      unfold g. rewrite (in_edges_distinct n rows vrows v (ids_nodup rows Hids)).
      destruct (Nat.ltb_spec v n) as [_|Hge]; [reflexivity|].
      unfold LD.s_in. rewrite (entering_above n rows v Hends Hge). reflexivity.
    Qed.

    (* forward and reverse adjacency describe the same edge set: the rows' (id, src, dst), each once *)
    Theorem triples_adj_perm : Permutation (LD.triples_adj g) (LD.s_triples rows).
    Proof.
      unfold LD.triples_adj, g. destruct (build_lengths n rows vrows) as (-> & _).
      fold g. rewrite (flat_map_ext_in _ (fun v => map (fun e => (LD.e_id e, LD.e_src e, LD.e_dst e))
                                                       (filter (fun e => Nat.eqb (LD.e_src e) v) rows))).
      - rewrite <- map_flat_map. unfold LD.s_triples. apply Permutation_map.
        apply (buckets_perm (@LD.e_src D) n rows).
        eapply Forall_impl; [|exact Hends]. intros e [Hs _]. exact Hs.
      - intros v _. rewrite adj_view_spec. unfold LD.s_adj_view, LD.leaving. rewrite map_map.
        apply map_ext_in. intros e He. apply filter_In in He. destruct He as [_ He].
        apply Nat.eqb_eq in He. cbn [fst snd]. rewrite He. reflexivity.
    Qed.
    Theorem triples_rev_perm : Permutation (LD.triples_rev g) (LD.s_triples rows).
    Proof.
      unfold LD.triples_rev, g. destruct (build_lengths n rows vrows) as (_ & -> & _).
      fold g. rewrite (flat_map_ext_in _ (fun v => map (fun e => (LD.e_id e, LD.e_src e, LD.e_dst e))
                                                       (filter (fun e => Nat.eqb (LD.e_dst e) v) rows))).
      - rewrite <- map_flat_map. unfold LD.s_triples. apply Permutation_map.
        apply (buckets_perm (@LD.e_dst D) n rows).
        eapply Forall_impl; [|exact Hends]. intros e [_ Hd]. exact Hd.
      - intros v _. rewrite rev_view_spec. unfold LD.s_rev_view, LD.entering. rewrite map_map.
        apply map_ext_in. intros e He. apply filter_In in He. destruct He as [_ He].
        apply Nat.eqb_eq in He. cbn [fst snd]. rewrite He. reflexivity.
    Qed.
    Theorem adj_rev_same_edge_set :
      Permutation (LD.triples_adj g) (LD.triples_rev g)
      /\ (forall t, In t (LD.triples_adj g) <-> In t (LD.s_triples rows))
      /\ (forall t, In t (LD.triples_rev g) <-> In t (LD.s_triples rows)).
    Proof.
      split; [|split].
      - eapply Permutation_trans; [exact triples_adj_perm | apply Permutation_sym, triples_rev_perm].
      - intros t. split; apply Permutation_in; [|apply Permutation_sym]; exact triples_adj_perm.
      - intros t. split; apply Permutation_in; [|apply Permutation_sym]; exact triples_rev_perm.
    Qed.
  End WellFormed.

  (* ---- retrieval by id = retrieval by row, when ids are row indices ---- *)
  Lemma find_by_index {A} (key : A -> nat) (l : list A) : forall k i,
    map key l = seq k (List.length l) ->
    find (fun x => Nat.eqb (key x) (k + i)) l = nth_error l i.
  Proof.
    induction l as [|x r IH]; intros k i H; cbn [find nth_error].
    - destruct i; reflexivity.
    - cbn [map List.length seq] in H. injection H as Hx Hr. destruct i as [|j].
      + rewrite Nat.add_0_r, Hx, Nat.eqb_refl. reflexivity.
      + replace (Nat.eqb (key x) (k + S j)) with false by (symmetry; apply Nat.eqb_neq; lia).
        cbn [nth_error]. replace (k + S j) with (S k + j) by lia. exact (IH (S k) j Hr).
  Qed.

  Lemma nth_key_index {A} (key : A -> nat) (l : list A) i x :
    map key l = seq 0 (List.length l) -> nth_error l i = Some x -> key x = i.
  Proof.
    intros H Hx. pose proof (map_nth_error key i l Hx) as Hk. rewrite H in Hk.
    assert (Hlt : i < List.length l) by (apply nth_error_Some; congruence).
    rewrite (nth_error_nth' _ 0) in Hk by (rewrite seq_length; exact Hlt).
    rewrite seq_nth in Hk by exact Hlt. injection Hk as Hk. cbn in Hk. congruence.
  Qed.

  Theorem get_edge_row n rows vrows i : LD.ids_are_rows rows ->
    LD.get_edge (build n rows vrows) i = LD.s_edge rows i
    /\ (forall e, LD.get_edge (build n rows vrows) i = Ok e ->
          nth_error rows i = Some e /\ LD.e_id e = i).
  Proof.
    intros Hids. unfold LD.get_edge, LD.s_edge, LD.build. cbn [LD.edges].
    pose proof (find_by_index (@LD.e_id D) rows 0 i Hids) as Hf. cbn [Nat.add] in Hf. rewrite Hf.
    split; [reflexivity|]. intros e He. destruct (nth_error rows i) as [e'|] eqn:E; [|discriminate].
    injection He as ->. split; [reflexivity|]. exact (nth_key_index _ rows i e Hids E).
  Qed.

  Theorem get_edge_general n rows vrows i :
    LD.get_edge (build n rows vrows) i
    = match nth_error rows i with Some e => Ok e | None => Err "EdgeNotFound"%string end.
  Proof. reflexivity. Qed.
  Theorem get_vertex_general n rows vrows i :
    LD.get_vertex (build n rows vrows) i
    = match nth_error vrows i with Some x => Ok x | None => Err "VertexNotFound"%string end.
  Proof. reflexivity. Qed.

  Theorem vertex_coords n rows vrows i : LD.vids_are_rows vrows ->
    LD.get_vertex (build n rows vrows) i = LD.s_vertex vrows i
    /\ (forall x, LD.get_vertex (build n rows vrows) i = Ok x ->
          nth_error vrows i = Some x /\ LD.v_id x = i).
  Proof.
    intros Hids. unfold LD.get_vertex, LD.s_vertex, LD.build. cbn [LD.vertices].
    pose proof (find_by_index (@LD.v_id C) vrows 0 i Hids) as Hf. cbn [Nat.add] in Hf. rewrite Hf.
    split; [reflexivity|]. intros x Hx. destruct (nth_error vrows i) as [x'|] eqn:E; [|discriminate].
    injection Hx as ->. split; [reflexivity|]. exact (nth_key_index _ vrows i x Hids E).
  Qed.

  Theorem src_dst_spec n rows vrows i : LD.ids_are_rows rows ->
    LD.src_vertex_id (build n rows vrows) i = rmap LD.e_src (LD.s_edge rows i)
    /\ LD.dst_vertex_id (build n rows vrows) i = rmap LD.e_dst (LD.s_edge rows i).
  Proof.
    intros Hids. unfold LD.src_vertex_id, LD.dst_vertex_id.
    rewrite (proj1 (get_edge_row n rows vrows i Hids)). split; reflexivity.
  Qed.

  Theorem edge_triplet_spec n rows vrows i : LD.ids_are_rows rows -> LD.vids_are_rows vrows ->
    LD.edge_triplet (build n rows vrows) i = LD.s_triplet rows vrows i.
  Proof.
    intros He Hv. unfold LD.edge_triplet, LD.s_triplet.
    rewrite (proj1 (get_edge_row n rows vrows i He)).
    destruct (LD.s_edge rows i) as [e| | |]; cbn [bind]; try reflexivity.
    rewrite (proj1 (vertex_coords n rows vrows (LD.e_src e) Hv)).
    destruct (LD.s_vertex vrows (LD.e_src e)) as [s| | |]; cbn [bind]; try reflexivity.
    rewrite (proj1 (vertex_coords n rows vrows (LD.e_dst e) Hv)). reflexivity.
  Qed.

  (* rows found by filter are rows: their own id finds them *)
  Lemma s_edge_of_row rows e : LD.ids_are_rows rows -> In e rows -> LD.s_edge rows (LD.e_id e) = Ok e.
  Proof.
    intros Hids Hin. apply In_nth_error in Hin. destruct Hin as [i Hi].
    pose proof (nth_key_index _ rows i e Hids Hi) as Hk. unfold LD.s_edge.
    pose proof (find_by_index (@LD.e_id D) rows 0 (LD.e_id e) Hids) as Hf. cbn [Nat.add] in Hf.
    rewrite Hf, Hk, Hi. reflexivity.
  Qed.

  Theorem incident_spec n rows vrows v d : LD.ids_are_rows rows -> LD.ends_below n rows ->
    LD.incident_edges (build n rows vrows) v d = map LD.e_id (LD.s_incident rows v d)
    /\ LD.incident_triplet_ids (build n rows vrows) v d = Ok (LD.s_triplet_ids rows v d).
  Proof.
    intros Hids Hends.
    assert (Hinc : LD.incident_edges (build n rows vrows) v d = map LD.e_id (LD.s_incident rows v d)).
    { destruct d; cbn [LD.incident_edges LD.s_incident].
      - exact (out_edges_spec n rows vrows Hids Hends v).
      - exact (in_edges_spec n rows vrows Hids Hends v). }
    split; [exact Hinc|]. unfold LD.incident_triplet_ids, LD.s_triplet_ids. rewrite Hinc.
    apply mapM_all_ok. intros e He.
    assert (Hin : In e rows).
    { destruct d; cbn [LD.s_incident] in He; apply filter_In in He; tauto. }
    unfold LD.incident_vertex, LD.dst_vertex_id, LD.src_vertex_id.
    rewrite (proj1 (get_edge_row n rows vrows (LD.e_id e) Hids)), (s_edge_of_row rows e Hids Hin).
    destruct d; reflexivity.
  Qed.

  Theorem incident_attributes_spec n rows vrows v d :
    LD.ids_are_rows rows -> LD.vids_are_rows vrows -> LD.ends_below n rows ->
    LD.incident_triplet_attributes (build n rows vrows) v d = LD.s_triplet_attributes rows vrows v d.
  Proof.
    intros Hids Hvids Hends. unfold LD.incident_triplet_attributes.
    rewrite (proj2 (incident_spec n rows vrows v d Hids Hends)). cbn [bind].
    unfold LD.s_triplet_ids, LD.s_triplet_attributes.
    assert (Hgen : forall l, (forall e, In e l -> In e rows) ->
      LD.mapM (fun t : nat * nat * nat => let '(a, e, b) := t in
                 do va <- LD.get_vertex (build n rows vrows) a;
                 do ed <- LD.get_edge (build n rows vrows) e;
                 do vb <- LD.get_vertex (build n rows vrows) b; Ok (va, ed, vb))
              (map (fun e => (v, LD.e_id e, LD.s_terminal e d)) l)
      = LD.mapM (fun e => do a <- LD.s_vertex vrows v; do b <- LD.s_vertex vrows (LD.s_terminal e d);
                          Ok (a, e, b)) l).
    { induction l as [|e l IH]; intros Hl; cbn [map LD.mapM]; [reflexivity|].
      rewrite (proj1 (vertex_coords n rows vrows v Hvids)).
      rewrite (proj1 (get_edge_row n rows vrows (LD.e_id e) Hids)),
        (s_edge_of_row rows e Hids (Hl e (or_introl eq_refl))).
      rewrite (proj1 (vertex_coords n rows vrows (LD.s_terminal e d) Hvids)).
      rewrite IH by (intros e' He'; apply Hl; right; exact He').
      destruct (LD.s_vertex vrows v) as [a| | |]; cbn [bind]; try reflexivity. }
    apply Hgen. intros e He. destruct d; cbn [LD.s_incident] in He; apply filter_In in He; tauto.
  Qed.

  (* ---- graph_from_files ---- *)
  Lemma nat_list_eqb_eq (a b : list nat) : LD.nat_list_eqb a b = true <-> a = b.
  Proof.
    revert b. induction a as [|x r IH]; intros [|y s]; cbn [LD.nat_list_eqb]; split; intros H;
      try reflexivity; try discriminate.
    - apply andb_true_iff in H. destruct H as [Hx Hr]. apply Nat.eqb_eq in Hx. apply IH in Hr. congruence.
    - injection H as -> ->. rewrite Nat.eqb_refl. apply IH. reflexivity.
  Qed.

  Lemma endsb_ends n rows : LD.endsb n rows = true <-> LD.ends_below n rows.
  Proof.
    unfold LD.endsb, LD.ends_below. rewrite forallb_forall, Forall_forall. split; intros H e He.
    - apply H in He. apply andb_true_iff in He. split; apply Nat.ltb_lt; tauto.
    - apply H in He. apply andb_true_iff. split; apply Nat.ltb_lt; tauto.
  Qed.

  Lemma formatb_format (f : LD.files D C) nv : LD.formatb f nv = true <-> LD.wf_format f nv.
  Proof.
    unfold LD.formatb, LD.wf_format, LD.ids_are_rows, LD.vids_are_rows.
    rewrite !andb_true_iff, !nat_list_eqb_eq, !Nat.eqb_eq. split.
    - intros ((((H1 & H2) & H4) & H5) & H6). repeat split; try assumption.
      destruct nv as [k|]; [right; apply Nat.eqb_eq in H6; congruence | left; reflexivity].
    - intros (H1 & H2 & H4 & H5 & H6). repeat split; try assumption.
      destruct H6 as [->| ->]; [reflexivity | apply Nat.eqb_refl].
  Qed.

  Theorem wfb_wf (f : LD.files D C) nv : LD.wfb f nv = true <-> LD.wf f nv.
  Proof. unfold LD.wfb, LD.wf. rewrite andb_true_iff, formatb_format, endsb_ends. tauto. Qed.

  (* the adjacency size graph_from_files uses *)
  Lemma from_files_size (f : LD.files D C) ne nv : LD.wf_format f nv ->
    LD.graph_from_files f ne nv
    = LD.load (List.length (LD.f_vertex_rows f)) (LD.f_edge_rows f) (LD.f_vertex_rows f).
  Proof.
    intros (_ & _ & Hel & Hvl & Hnv). unfold LD.graph_from_files, LD.get_n.
    rewrite Hel, Hvl. cbn [Nat.ltb Nat.leb Nat.sub].
    destruct ne as [k|]; cbn [bind]; destruct Hnv as [->| ->]; cbn [bind]; rewrite ?Nat.sub_0_r; reflexivity.
  Qed.

  Theorem from_files_ok (f : LD.files D C) ne nv : LD.wf f nv ->
    LD.graph_from_files f ne nv
    = Ok (build (List.length (LD.f_vertex_rows f)) (LD.f_edge_rows f) (LD.f_vertex_rows f)).
  Proof.
    intros [Hf He]. rewrite (from_files_size f ne nv Hf). apply load_ok_iff. split; [reflexivity | exact He].
  Qed.

  (* an edge list that references a vertex that is not listed does not load *)
  Theorem from_files_fails (f : LD.files D C) ne nv : LD.wf_format f nv ->
    ~ LD.ends_below (List.length (LD.f_vertex_rows f)) (LD.f_edge_rows f) ->
    LD.graph_from_files f ne nv = Err "DatasetError"%string.
  Proof. intros Hf He. rewrite (from_files_size f ne nv Hf). apply load_fails. exact He. Qed.

  (* whatever the files and counts: a successful load is [build n] for the adjacency size n the code chose,
     and every end point of every row is below n *)
  Theorem from_files_inv (f : LD.files D C) ne nv g : LD.graph_from_files f ne nv = Ok g ->
    exists n, g = build n (LD.f_edge_rows f) (LD.f_vertex_rows f)
              /\ LD.ends_below n (LD.f_edge_rows f)
              /\ (nv = Some n \/ (nv = None /\ LD.f_vertex_lines f = S n)).
  Proof.
    unfold LD.graph_from_files. intros H.
    destruct (match ne with Some n => Ok n | None => LD.get_n (LD.f_edge_lines f) end) as [k| | |];
      cbn [bind] in H; try discriminate.
    destruct nv as [n|]; cbn [bind] in H.
    - exists n. apply load_ok_iff in H. destruct H as [-> He]. repeat split; [exact He | left; reflexivity].
    - unfold LD.get_n in H. destruct (Nat.ltb_spec (LD.f_vertex_lines f) 1) as [Hlt|Hge]; cbn [bind] in H;
        [discriminate|].
      exists (LD.f_vertex_lines f - 1). apply load_ok_iff in H. destruct H as [-> He].
      repeat split; [exact He | right; split; [reflexivity | lia]].
  Qed.

  (* ---- every successful load (any files, any counts): the accessors of the loaded graph ---- *)
  Section Loaded.
    Variables (f : LD.files D C) (ne nv : option nat) (g : LD.graph D C).
    Hypothesis Hload : LD.graph_from_files f ne nv = Ok g.
    Let rows := LD.f_edge_rows f.
    Let vrows := LD.f_vertex_rows f.

    Ltac loaded n He :=
      destruct (from_files_inv f ne nv g Hload) as (n & -> & He & _); fold rows vrows in He |- *.

    Theorem loaded_sizes :
      LD.n_edges g = List.length rows /\ LD.n_vertices g = List.length vrows
      /\ List.length (LD.rev g) = List.length (LD.adj g)
      /\ (forall n, nv = Some n -> List.length (LD.adj g) = n)
      /\ (nv = None -> LD.f_vertex_lines f = S (List.length (LD.adj g))).
    Proof.
      destruct (from_files_inv f ne nv g Hload) as (n & -> & He & Hn). fold rows vrows.
      destruct (build_lengths n rows vrows) as (Ha & Hr & Hne & Hnv). rewrite Ha, Hr.
      repeat split; try assumption.
      - intros k Hk. destruct Hn as [Hn|[Hn _]]; congruence.
      - intros Hk. destruct Hn as [Hn|[_ Hn]]; [congruence | exact Hn].
    Qed.
    (* what the loader checks: no row of a loaded graph has an end point outside the adjacency *)
    Theorem loaded_end_points : LD.ends_below (List.length (LD.adj g)) rows.
    Proof. loaded n He. destruct (build_lengths n rows vrows) as (-> & _). exact He. Qed.

    Theorem loaded_get_len v :
      let some := map (fun p : nat * nat => (fst p, Some (snd p))) in
      LD.get_view (LD.adj g) v = some (LD.adj_view g v) /\ LD.get_view (LD.rev g) v = some (LD.rev_view g v)
      /\ LD.len_view (LD.adj g) v = List.length (LD.adj_view g v)
      /\ LD.len_view (LD.rev g) v = List.length (LD.rev_view g v).
    Proof. loaded n He. exact (get_len_views_general n rows vrows v). Qed.

    Theorem loaded_get_vertex i : LD.vids_are_rows vrows ->
      LD.get_vertex g i = LD.s_vertex vrows i
      /\ (forall x, LD.get_vertex g i = Ok x -> nth_error vrows i = Some x /\ LD.v_id x = i).
    Proof. intros Hv. loaded n He. exact (vertex_coords n rows vrows i Hv). Qed.

    Hypothesis Hids : LD.ids_are_rows rows.

    Theorem loaded_get_edge i :
      LD.get_edge g i = LD.s_edge rows i
      /\ (forall e, LD.get_edge g i = Ok e -> nth_error rows i = Some e /\ LD.e_id e = i).
    Proof. loaded n He. exact (get_edge_row n rows vrows i Hids). Qed.
    Theorem loaded_src_dst i :
      LD.src_vertex_id g i = rmap LD.e_src (LD.s_edge rows i)
      /\ LD.dst_vertex_id g i = rmap LD.e_dst (LD.s_edge rows i).
    Proof. loaded n He. exact (src_dst_spec n rows vrows i Hids). Qed.
    Theorem loaded_out_edges v : LD.out_edges g v = LD.s_out rows v.
    Proof. loaded n He. exact (out_edges_spec n rows vrows Hids He v). Qed.
    Theorem loaded_in_edges v : LD.in_edges g v = LD.s_in rows v.
    Proof. loaded n He. exact (in_edges_spec n rows vrows Hids He v). Qed.
    Theorem loaded_views v :
      LD.adj_view g v = LD.s_adj_view rows v /\ LD.rev_view g v = LD.s_rev_view rows v.
    Proof.
      loaded n He. split; [exact (adj_view_spec n rows vrows Hids He v) | exact (rev_view_spec n rows vrows Hids He v)].
    Qed.
    Theorem loaded_same_edge_set :
      Permutation (LD.triples_adj g) (LD.triples_rev g)
      /\ (forall t, In t (LD.triples_adj g) <-> In t (LD.s_triples rows))
      /\ (forall t, In t (LD.triples_rev g) <-> In t (LD.s_triples rows)).
    Proof. loaded n He. exact (adj_rev_same_edge_set n rows vrows Hids He). Qed.
    Theorem loaded_each_once :
      Permutation (LD.triples_adj g) (LD.s_triples rows) /\ Permutation (LD.triples_rev g) (LD.s_triples rows).
    Proof.
      loaded n He. split; [exact (triples_adj_perm n rows vrows Hids He) | exact (triples_rev_perm n rows vrows Hids He)].
    Qed.
    Theorem loaded_incident v d :
      LD.incident_edges g v d = map LD.e_id (LD.s_incident rows v d)
      /\ LD.incident_triplet_ids g v d = Ok (LD.s_triplet_ids rows v d).
    Proof. loaded n He. exact (incident_spec n rows vrows v d Hids He). Qed.

    Hypothesis Hvids : LD.vids_are_rows vrows.
    Theorem loaded_triplet i : LD.edge_triplet g i = LD.s_triplet rows vrows i.
    Proof. loaded n He. exact (edge_triplet_spec n rows vrows i Hids Hvids). Qed.
    Theorem loaded_incident_attributes v d :
      LD.incident_triplet_attributes g v d = LD.s_triplet_attributes rows vrows v d.
    Proof. loaded n He. exact (incident_attributes_spec n rows vrows v d Hids Hvids He). Qed.
  End Loaded.

  (* the explicit edge count is never used for anything *)
  Theorem n_edges_irrelevant (f : LD.files D C) k k' nv :
    LD.graph_from_files f (Some k) nv = LD.graph_from_files f (Some k') nv
    /\ (1 <= LD.f_edge_lines f -> LD.graph_from_files f None nv = LD.graph_from_files f (Some k) nv).
  Proof.
    unfold LD.graph_from_files, LD.get_n. split; [reflexivity|]. intros H.
    destruct (Nat.ltb_spec (LD.f_edge_lines f) 1); [lia | reflexivity].
  Qed.
End Invariant.

(* ------------------------------------------------------------------------------------ *)
(* per-edge tables                                                                      *)
(* ------------------------------------------------------------------------------------ *)
Section Tables.
  Context {L T : Type} (decode : nat -> L -> option T).

  Lemma read_from_nth (lines : list L) : forall k t,
    LD.read_from decode k lines = Ok t ->
    List.length t = List.length lines
    /\ forall i, nth_error t i = match nth_error lines i with
                                 | Some l => decode (k + i) l | None => None end.
  Proof.
    induction lines as [|x r IH]; intros k t H; cbn [LD.read_from] in H.
    - injection H as <-. split; [reflexivity|]. intros [|i]; reflexivity.
    - destruct (decode k x) as [y|] eqn:Ey; [|discriminate].
      destruct (LD.read_from decode (S k) r) as [ts| | |] eqn:Er; cbn [bind] in H; try discriminate.
      injection H as <-. destruct (IH (S k) ts Er) as [Hlen Hnth]. split.
      + cbn [List.length]. rewrite Hlen. reflexivity.
      + intros [|i]; cbn [nth_error].
        * rewrite Nat.add_0_r. destruct (nth_error r 0); symmetry; exact Ey.
        * rewrite Hnth. replace (S k + i) with (k + S i) by lia. reflexivity.
  Qed.

  (* row i of the table is the decoded i-th line: table[edge_id] is the value written on the row of
     that edge; a table with a header is shifted by exactly that one line *)
  Theorem tables_aligned (lines : list L) (t : list T) :
    LD.read_raw_file decode lines = Ok t ->
    List.length t = List.length lines
    /\ forall edge_id, LD.lookup t edge_id
         = match nth_error lines edge_id with Some l => decode edge_id l | None => None end.
  Proof. intros H. exact (read_from_nth lines 0 t H). Qed.

  Theorem tables_aligned_header (lines : list L) (t : list T) :
    LD.read_csv_with_header decode lines = Ok t ->
    forall edge_id, LD.lookup t edge_id
         = match nth_error lines (S edge_id) with Some l => decode edge_id l | None => None end.
  Proof.
    intros H edge_id. destruct (read_from_nth (tl lines) 0 t H) as [_ Hn]. unfold LD.lookup.
    rewrite Hn. destruct lines as [|h r]; cbn [tl nth_error]; [destruct edge_id|]; reflexivity.
  Qed.

  Lemma read_from_ok_iff (lines : list L) : forall k,
    (exists t, LD.read_from decode k lines = Ok t)
    <-> (forall i l, nth_error lines i = Some l -> decode (k + i) l <> None).
  Proof.
    induction lines as [|x r IH]; intros k; cbn [LD.read_from].
    - split; [intros _ [|i] l H; discriminate | intros _; eexists; reflexivity].
    - split.
      + intros [t Ht]. destruct (decode k x) as [y|] eqn:Ey; [|discriminate].
        destruct (LD.read_from decode (S k) r) as [ts| | |] eqn:Er; cbn [bind] in Ht; try discriminate.
        intros [|i] l Hl; cbn [nth_error] in Hl.
        * injection Hl as <-. rewrite Nat.add_0_r. congruence.
        * replace (k + S i) with (S k + i) by lia. apply (proj1 (IH (S k))); [eexists; exact Er | exact Hl].
      + intros H. destruct (decode k x) as [y|] eqn:Ey.
        * destruct (proj2 (IH (S k))) as [ts Hts].
          { intros i l Hl. replace (S k + i) with (k + S i) by lia. apply H. exact Hl. }
          rewrite Hts. cbn [bind]. eexists; reflexivity.
        * exfalso. apply (H 0 x eq_refl). rewrite Nat.add_0_r. exact Ey.
  Qed.

  (* one undecodable line fails the whole table (no shifted or partial table is ever produced) *)
  Theorem table_all_or_nothing (lines : list L) :
    (exists t, LD.read_raw_file decode lines = Ok t)
    <-> (forall i l, nth_error lines i = Some l -> decode i l <> None).
  Proof. exact (read_from_ok_iff lines 0). Qed.
End Tables.
