(* C15, read-back API: on every successful load whose edge ids are the row indices, the SearchAppGraphOps
   accessors answer what the rows say; the length of edge i in unit u is DistanceUnit::convert(Meters -> u)
   of the listed length (C09 proves that conversion is within 0.1 % of the physical factor). *)
From Coq Require Import List Arith Bool String.
From RC Require Import Base.Num Base.Res Model.CompactMap Model.Loader Model.Units Model.LoaderOps
  Proofs.CompactMap Proofs.Loader.
Import ListNotations.

Section Ops.
  Context {N : Num} {C : Type}.
  Variables (f : LD.files N C) (ne nv : option nat) (g : LD.graph N C).
  Hypothesis Hload : LD.graph_from_files f ne nv = Ok g.
  Hypothesis Hids : LD.ids_are_rows (LD.f_edge_rows f).
  Notation rows := (LD.f_edge_rows f).

  Theorem graph_ops_spec :
    (forall i, LO.get_edge_origin g i = rmap LD.e_src (LD.s_edge rows i))
    /\ (forall i, LO.get_edge_destination g i = rmap LD.e_dst (LD.s_edge rows i))
    /\ (forall i u, LO.get_edge_distance g i u = rmap (fun e => LO.in_unit u (LD.e_dist e)) (LD.s_edge rows i))
    /\ (forall v d, LO.get_incident_edge_ids g v d = map LD.e_id (LD.s_incident rows v d)).
  Proof.
    repeat split; intros.
    - exact (proj1 (loaded_src_dst f ne nv g Hload Hids i)).
    - exact (proj2 (loaded_src_dst f ne nv g Hload Hids i)).
    - unfold LO.get_edge_distance. rewrite (proj1 (loaded_get_edge f ne nv g Hload Hids i)). reflexivity.
    - exact (proj1 (loaded_incident f ne nv g Hload Hids v d)).
  Qed.

  (* an id that is not a row is an error for every edge query; no unit and meters return the listed length *)
  Theorem graph_ops_errors_and_identity i :
    (LD.s_edge rows i = Err "EdgeNotFound"%string ->
       LO.get_edge_origin g i = Err "EdgeNotFound"%string /\ LO.get_edge_destination g i = Err "EdgeNotFound"%string
       /\ forall u, LO.get_edge_distance g i u = Err "EdgeNotFound"%string)
    /\ (forall e, LD.s_edge rows i = Ok e ->
          LO.get_edge_distance g i None = Ok (LD.e_dist e)
          /\ LO.get_edge_distance g i (Some Units.Meters) = Ok (LD.e_dist e)).
  Proof.
    destruct graph_ops_spec as (Ho & Hd & Hl & _). split.
    - intros He. rewrite Ho, Hd, He. repeat split. intros u. rewrite Hl, He. reflexivity.
    - intros e He. rewrite !Hl, He. split; reflexivity.
  Qed.
End Ops.
