(* Lemmas about Model/MapMatch.v: the nearest-neighbour layer (vertex matcher, nearest-first scan of the
   edge matcher) and the tolerance test.  The JSON layer (process, other fields) is in MapMatchJson.v. *)
From Coq Require Import ZArith QArith Qabs List String Bool Lia Lqa Sorting.Sorted Sorting.Permutation.
From RC Require Import Base.Show Base.Res Base.Num Base.Json Model.Units Model.MapMatch.
Import ListNotations.
Import Units MM.
Local Open Scope Q_scope.

(* ------------------------------------------------------------------ small facts on Q *)
Lemma qle_bool_false : forall a b : Q, Qle_bool a b = false -> b < a.
Proof.
  intros a b H. destruct (Qlt_le_dec b a) as [Hlt | Hle]; [exact Hlt|].
  apply Qle_bool_iff in Hle. congruence.
Qed.
Lemma qle_bool_false_iff : forall a b : Q, Qle_bool a b = false <-> b < a.
Proof.
  intros a b. split; [apply qle_bool_false|].
  intros H. destruct (Qle_bool a b) eqn:E; [|reflexivity].
  apply Qle_bool_iff in E. exfalso. apply (Qlt_not_le _ _ H E).
Qed.

Lemma qmult_le_l : forall t a b : Q, 0 <= t -> a <= b -> t * a <= t * b.
Proof.
  intros t a b Ht Hab. rewrite (Qmult_comm t a), (Qmult_comm t b). apply Qmult_le_compat_r; assumption.
Qed.

(* ------------------------------------------------------------------ the executable rstar instances *)
Lemma scan_nearest_spec : nn_spec scan_nearest.
Proof.
  intros q l. induction l as [|c r IH]; cbn [scan_nearest]; [reflexivity|].
  destruct (scan_nearest q r) as [b|].
  - destruct IH as [Hin Hmin].
    destruct (Qle_bool (d2 (cpt c) q) (d2 (cpt b) q)) eqn:E.
    + apply Qle_bool_iff in E. split; [left; reflexivity|].
      intros c' [<- | Hc']; [apply Qle_refl|].
      eapply Qle_trans; [exact E | exact (Hmin c' Hc')].
    + apply qle_bool_false in E. split; [right; exact Hin|].
      intros c' [<- | Hc']; [apply Qlt_le_weak; exact E | exact (Hmin c' Hc')].
  - subst r. split; [left; reflexivity|]. intros c' [<- | []]. apply Qle_refl.
Qed.

Lemma insert_by_perm : forall q c l, Permutation (insert_by q c l) (c :: l).
Proof.
  intros q c l. induction l as [|x r IH]; cbn [insert_by]; [apply Permutation_refl|].
  destruct (Qle_bool (d2 (cpt c) q) (d2 (cpt x) q)); [apply Permutation_refl|].
  eapply Permutation_trans; [apply perm_skip; exact IH | apply perm_swap].
Qed.
Lemma insert_by_sorted : forall q c l,
  StronglySorted (nearer q) l -> StronglySorted (nearer q) (insert_by q c l).
Proof.
  intros q c l Hs. induction Hs as [|x r Hr IH Hx]; cbn [insert_by].
  - constructor; constructor.
  - destruct (Qle_bool (d2 (cpt c) q) (d2 (cpt x) q)) eqn:E.
    + apply Qle_bool_iff in E. constructor; [constructor; assumption|].
      constructor; [exact E|].
      rewrite Forall_forall in *. intros y Hy. unfold nearer in *.
      eapply Qle_trans; [exact E | exact (Hx y Hy)].
    + apply qle_bool_false in E. constructor; [exact IH|].
      rewrite Forall_forall in *. intros y Hy.
      apply (Permutation_in _ (insert_by_perm q c r)) in Hy. destruct Hy as [<- | Hy].
      * unfold nearer. apply Qlt_le_weak. exact E.
      * exact (Hx y Hy).
Qed.
Lemma sort_nearest_spec : iter_spec sort_nearest.
Proof.
  intros q l. unfold sort_nearest. induction l as [|c r [IHp IHs]]; cbn [fold_right].
  - split; [apply Permutation_refl | constructor].
  - split.
    + eapply Permutation_trans; [apply insert_by_perm | apply perm_skip; exact IHp].
    + apply insert_by_sorted. exact IHs.
Qed.

(* ------------------------------------------------------------------ the exhaustive scan *)
Lemma qmin_le_l : forall a b, qmin a b <= a.
Proof.
  intros a b. unfold qmin. destruct (Qle_bool a b) eqn:E; [apply Qle_refl|].
  apply Qlt_le_weak, qle_bool_false, E.
Qed.
Lemma qmin_le_r : forall a b, qmin a b <= b.
Proof.
  intros a b. unfold qmin. destruct (Qle_bool a b) eqn:E; [apply Qle_bool_iff; exact E | apply Qle_refl].
Qed.
Lemma qmin_cases : forall a b, qmin a b = a \/ qmin a b = b.
Proof. intros a b. unfold qmin. destruct (Qle_bool a b); auto. Qed.

(* min_d2 is a lower bound of every candidate and is attained *)
Lemma min_d2_none : forall q l, min_d2 q l = None <-> l = [].
Proof.
  intros q l. destruct l as [|c r]; cbn [min_d2]; [tauto|].
  destruct (min_d2 q r); split; intros H; discriminate.
Qed.
Lemma min_d2_lower : forall q l m, min_d2 q l = Some m -> forall c, In c l -> m <= d2 (cpt c) q.
Proof.
  intros q l. induction l as [|c r IH]; intros m Hm c' Hc'; [destruct Hc'|].
  cbn [min_d2] in Hm. destruct (min_d2 q r) as [m'|] eqn:E.
  - injection Hm as <-. destruct Hc' as [<- | Hc'].
    + apply qmin_le_l.
    + eapply Qle_trans; [apply qmin_le_r | exact (IH m' eq_refl c' Hc')].
  - injection Hm as <-. apply min_d2_none in E. subst r.
    destruct Hc' as [<- | []]. apply Qle_refl.
Qed.
Lemma min_d2_attained : forall q l m, min_d2 q l = Some m -> exists c, In c l /\ d2 (cpt c) q = m.
Proof.
  intros q l. induction l as [|c r IH]; intros m Hm; [discriminate|].
  cbn [min_d2] in Hm. destruct (min_d2 q r) as [m'|] eqn:E.
  - injection Hm as <-. destruct (qmin_cases (d2 (cpt c) q) m') as [-> | ->].
    + exists c. split; [left|]; reflexivity.
    + destruct (IH m' eq_refl) as [c' [Hin Hd]]. exists c'. split; [right; exact Hin | exact Hd].
  - injection Hm as <-. exists c. split; [left|]; reflexivity.
Qed.
(* a candidate is minimal iff its distance is the exhaustive-scan minimum *)
Lemma minimal_iff_min_d2 : forall q l c,
  minimal_in q l c <-> In c l /\ exists m, min_d2 q l = Some m /\ d2 (cpt c) q == m.
Proof.
  intros q l c. split.
  - intros [Hin Hmin]. split; [exact Hin|].
    destruct (min_d2 q l) as [m|] eqn:E.
    + exists m. split; [reflexivity|]. apply Qle_antisym.
      * destruct (min_d2_attained q l m E) as [c' [Hc' <-]]. exact (Hmin c' Hc').
      * exact (min_d2_lower q l m E c Hin).
    + apply min_d2_none in E. subst l. destruct Hin.
  - intros [Hin [m [Hm Hd]]]. split; [exact Hin|].
    intros c' Hc'. rewrite Hd. exact (min_d2_lower q l m Hm c' Hc').
Qed.
Lemma minimisers_spec : forall q l c, In c (minimisers q l) <-> minimal_in q l c.
Proof.
  intros q l c. rewrite minimal_iff_min_d2. unfold minimisers.
  destruct (min_d2 q l) as [m|] eqn:E.
  - rewrite filter_In. split.
    + intros [Hin Hq]. split; [exact Hin|]. exists m. split; [reflexivity|].
      apply Qeq_bool_iff. exact Hq.
    + intros [Hin [m' [Hm' Hd]]]. injection Hm' as <-. split; [exact Hin|].
      apply Qeq_bool_iff. exact Hd.
  - split; [intros [] | intros [_ [m [Hm _]]]; discriminate].
Qed.
Lemma minimal_exists : forall q l, l <> [] -> exists c, minimal_in q l c.
Proof.
  intros q l Hne. pose proof (scan_nearest_spec q l) as H.
  destruct (scan_nearest q l) as [c|]; [exists c; exact H | contradiction].
Qed.

(* ------------------------------------------------------------------ unit handling *)
Lemma apply_conv_factor' : forall c (x : Q), apply_conv QN c x == x * conv_factor c.
Proof.
  intros c x. destruct c; cbn [apply_conv conv_factor mul div lit QN T].
  - ring.
  - reflexivity.
  - reflexivity.
Qed.
Lemma convert_distance_factor' : forall u v (x : Q), convert_distance QN u v x == x * k_dist u v.
Proof. intros u v x. unfold convert_distance, k_dist. apply apply_conv_factor'. Qed.

(* the code's decimal constants against the exact SI factors: all within the relative band *)
Definition unit_ok (u : dist_unit) : bool :=
  Qltb 0 (k_dist Meters u) && Qltb 0 (k_dist u Meters) && Qltb 0 (si_m u)
  && Qle_bool 1 (k_dist Meters u * (si_m u * (1 + unit_band)))
  && Qle_bool (k_dist Meters u * (si_m u * (1 - unit_band))) 1
  && Qle_bool (k_dist u Meters) (si_m u * (1 + unit_band))
  && Qle_bool (si_m u * (1 - unit_band)) (k_dist u Meters).
Lemma unit_table_ok : forallb unit_ok all_dist = true.
Proof. vm_compute. reflexivity. Qed.
Lemma all_dist_complete' : forall u : dist_unit, In u all_dist.
Proof. intros u. destruct u; cbn; tauto. Qed.
Lemma unit_facts : forall u,
  0 < k_dist Meters u /\ 0 < k_dist u Meters /\ 0 < si_m u
  /\ 1 <= k_dist Meters u * (si_m u * (1 + unit_band))
  /\ k_dist Meters u * (si_m u * (1 - unit_band)) <= 1
  /\ k_dist u Meters <= si_m u * (1 + unit_band)
  /\ si_m u * (1 - unit_band) <= k_dist u Meters.
Proof.
  intros u. pose proof (proj1 (forallb_forall _ _) unit_table_ok u (all_dist_complete' u)) as H.
  unfold unit_ok in H. repeat (apply andb_prop in H; destruct H as [H ?]).
  repeat split; try (apply Qle_bool_iff; assumption);
    match goal with Hx : Qltb _ _ = true |- _ < _ =>
      unfold Qltb in Hx; apply negb_true_iff, qle_bool_false in Hx; exact Hx end.
Qed.
Lemma base_unit_is_meters : base_distance_unit = Meters.
Proof. vm_compute. reflexivity. Qed.

(* vertex matcher: what `distance >= tolerance` means against the SI reading of the tolerance *)
Lemma vertex_cmp_beyond : forall t u d, 0 <= d -> beyond t u d ->
  Qltb t (convert_distance QN Meters u d) = true.
Proof.
  intros t u d Hd Hb. unfold Qltb. apply negb_true_iff, qle_bool_false_iff. rewrite convert_distance_factor'.
  destruct (unit_facts u) as [Hk [_ [Hsi [H1 _]]]]. unfold beyond, tol_m in Hb.
  destruct (Qlt_le_dec t 0) as [Hneg | Hpos].
  - eapply Qlt_le_trans; [exact Hneg|]. apply Qmult_le_0_compat; [exact Hd | apply Qlt_le_weak, Hk].
  - (* t <= t * (k * si * (1+band)) < d * k *)
    apply Qle_lt_trans with (t * (k_dist Meters u * (si_m u * (1 + unit_band)))).
    + rewrite <- (Qmult_1_r t) at 1. apply qmult_le_l; assumption.
    + setoid_replace (t * (k_dist Meters u * (si_m u * (1 + unit_band))))
        with (t * si_m u * (1 + unit_band) * k_dist Meters u) by ring.
      apply Qmult_lt_compat_r; assumption.
Qed.
Lemma vertex_cmp_within : forall t u d, 0 <= d -> within t u d ->
  Qltb t (convert_distance QN Meters u d) = false.
Proof.
  intros t u d Hd Hw. unfold Qltb. apply negb_false_iff, Qle_bool_iff. apply Qlt_le_weak.
  rewrite convert_distance_factor'.
  destruct (unit_facts u) as [Hk [_ [Hsi [_ [H2 _]]]]]. unfold within, tol_m in Hw.
  assert (Hb : 0 < 1 - unit_band) by (vm_compute; reflexivity).
  assert (Ht : 0 < t).
  { destruct (Qlt_le_dec 0 t) as [Hp | Hn]; [exact Hp|]. exfalso.
    apply (Qlt_not_le _ _ Hw). eapply Qle_trans; [|exact Hd].
    setoid_replace (t * si_m u * (1 - unit_band)) with (t * (si_m u * (1 - unit_band))) by ring.
    rewrite <- (Qmult_0_l (si_m u * (1 - unit_band))). apply Qmult_le_compat_r; [exact Hn|].
    apply Qlt_le_weak. apply Qmult_lt_0_compat; assumption. }
  apply Qlt_le_trans with (t * si_m u * (1 - unit_band) * k_dist Meters u).
  - apply Qmult_lt_compat_r; assumption.
  - setoid_replace (t * si_m u * (1 - unit_band) * k_dist Meters u)
      with (t * (k_dist Meters u * (si_m u * (1 - unit_band)))) by ring.
    rewrite <- (Qmult_1_r t) at 2. apply qmult_le_l; [apply Qlt_le_weak|]; assumption.
Qed.
(* edge matcher: `distance_meters <= tolerance_meters` *)
Lemma edge_cmp_beyond : forall t u d, 0 <= d -> beyond t u d ->
  Qle_bool d (convert_distance QN u Meters t) = false.
Proof.
  intros t u d Hd Hb. apply qle_bool_false_iff. rewrite convert_distance_factor'.
  destruct (unit_facts u) as [_ [Hk [Hsi [_ [_ [H3 _]]]]]]. unfold beyond, tol_m in Hb.
  destruct (Qlt_le_dec t 0) as [Hneg | Hpos].
  - eapply Qlt_le_trans; [|exact Hd].
    rewrite <- (Qmult_0_l (k_dist u Meters)). apply Qmult_lt_compat_r; assumption.
  - eapply Qle_lt_trans; [|exact Hb].
    setoid_replace (t * si_m u * (1 + unit_band)) with (t * (si_m u * (1 + unit_band))) by ring.
    apply qmult_le_l; assumption.
Qed.
Lemma edge_cmp_within : forall t u d, 0 <= d -> within t u d ->
  Qle_bool d (convert_distance QN u Meters t) = true.
Proof.
  intros t u d Hd Hw. apply Qle_bool_iff. rewrite convert_distance_factor'.
  destruct (unit_facts u) as [_ [Hk [Hsi [_ [_ [_ H4]]]]]]. unfold within, tol_m in Hw.
  assert (Hb : 0 < 1 - unit_band) by (vm_compute; reflexivity).
  assert (Ht : 0 <= t).
  { destruct (Qlt_le_dec t 0) as [Hn | Hp]; [|exact Hp]. exfalso.
    apply (Qlt_not_le _ _ Hw). eapply Qle_trans; [|exact Hd].
    setoid_replace (t * si_m u * (1 - unit_band)) with (t * (si_m u * (1 - unit_band))) by ring.
    rewrite <- (Qmult_0_l (si_m u * (1 - unit_band))). apply Qmult_le_compat_r; [apply Qlt_le_weak, Hn|].
    apply Qlt_le_weak. apply Qmult_lt_0_compat; assumption. }
  apply Qlt_le_weak. eapply Qlt_le_trans; [exact Hw|].
  setoid_replace (t * si_m u * (1 - unit_band)) with (t * (si_m u * (1 - unit_band))) by ring.
  apply qmult_le_l; assumption.
Qed.

(* ------------------------------------------------------------------ vertex matcher *)
Section VertexProofs.
  Variable N : Num.
  Variable gc : point -> point -> N.
  Variable nn : point -> list cand -> option cand.
  Hypothesis nn_ok : nn_spec nn.
  Variable vs : list cand.
  Variable tol : option (N * dist_unit).
  Notation match_vertex := (match_vertex N gc nn vs tol).

  Lemma match_vertex_minimal : forall p v, match_vertex p = Ok v -> minimal_in p vs v.
  Proof.
    intros p v H. unfold MM.match_vertex in H. pose proof (nn_ok p vs) as Hs.
    destruct (nn p vs) as [b|]; [|discriminate].
    destruct (validate_tolerance N gc p (cpt b) tol); cbn [bind] in H; try discriminate.
    injection H as <-. exact Hs.
  Qed.
  Lemma match_vertex_no_candidates : forall p, vs = [] -> match_vertex p = Err e_failed.
  Proof.
    intros p Hvs. unfold MM.match_vertex. pose proof (nn_ok p vs) as Hs.
    destruct (nn p vs) as [b|]; [|reflexivity]. subst vs. destruct Hs as [[] _].
  Qed.
  (* every failure of the matcher is a Result::Err, class InputPluginFailed *)
  Lemma match_vertex_err_class : forall p, (exists v, match_vertex p = Ok v) \/ match_vertex p = Err e_failed.
  Proof.
    intros p. unfold MM.match_vertex. destruct (nn p vs) as [b|]; [|right; reflexivity].
    unfold validate_tolerance. destruct tol as [[t u]|]; [|left; exists b; reflexivity].
    unfold hav. destruct (_ && _ && _ && _); cbn [bind]; [|right; reflexivity].
    destruct (ltb t _); cbn [bind]; [right; reflexivity | left; exists b; reflexivity].
  Qed.
End VertexProofs.

Section VertexNoTolerance.
  Variable N : Num.
  Variable gc : point -> point -> N.
  Variable nn : point -> list cand -> option cand.
  Hypothesis nn_ok : nn_spec nn.
  Lemma match_vertex_no_tolerance : forall vs p, vs <> [] ->
    exists v, match_vertex N gc nn vs None p = Ok v /\ minimal_in p vs v.
  Proof.
    intros vs p Hne. unfold match_vertex. pose proof (nn_ok p vs) as Hs.
    destruct (nn p vs) as [b|]; [|contradiction]. exists b. split; [reflexivity | exact Hs].
  Qed.
End VertexNoTolerance.

Section VertexTolerance.
  Variable gc : point -> point -> Q.
  Hypothesis gc_nonneg : forall a b, 0 <= gc a b.
  Variable nn : point -> list cand -> option cand.
  Hypothesis nn_ok : nn_spec nn.
  Variable vs : list cand.
  Variable t : Q.
  Variable u : dist_unit.
  Notation match_vertex := (match_vertex QN gc nn vs (Some (t, u))).

  (* never a match beyond the tolerance *)
  Lemma match_vertex_not_beyond : forall p v, match_vertex p = Ok v -> ~ beyond t u (gc p (cpt v)).
  Proof.
    intros p v H Hb. unfold MM.match_vertex in H. destruct (nn p vs) as [b|]; [|discriminate].
    unfold validate_tolerance, hav in H.
    destruct (_ && _ && _ && _); cbn [bind] in H; [|discriminate].
    cbn [ltb QN] in H.
    destruct (Qltb t (convert_distance QN Meters u (gc p (cpt b)))) eqn:E; cbn [bind] in H; [discriminate|].
    injection H as <-. rewrite (vertex_cmp_beyond t u _ (gc_nonneg _ _) Hb) in E. discriminate.
  Qed.
  (* nearest candidate(s) beyond the tolerance: an error *)
  Lemma match_vertex_beyond : forall p,
    (forall c, minimal_in p vs c -> beyond t u (gc p (cpt c))) -> match_vertex p = Err e_failed.
  Proof.
    intros p Hall. destruct (match_vertex_err_class QN gc nn vs (Some (t, u)) p) as [[v Hv] | He]; [|exact He].
    exfalso. apply (match_vertex_not_beyond p v Hv). apply Hall.
    exact (match_vertex_minimal QN gc nn nn_ok vs _ p v Hv).
  Qed.
  (* nearest candidate(s) strictly within the tolerance: a match, and it is a nearest candidate *)
  Lemma match_vertex_within : forall p, vs <> [] -> in_range p = true ->
    (forall c, In c vs -> in_range (cpt c) = true) ->
    (forall c, minimal_in p vs c -> within t u (gc p (cpt c))) ->
    exists v, match_vertex p = Ok v /\ minimal_in p vs v.
  Proof.
    intros p Hne Hp Hvs Hall. unfold MM.match_vertex. pose proof (nn_ok p vs) as Hs.
    destruct (nn p vs) as [b|]; [|contradiction].
    exists b. split; [|exact Hs]. unfold validate_tolerance, hav.
    pose proof (Hvs b (proj1 Hs)) as Hb. unfold in_range in Hp, Hb.
    apply andb_prop in Hp. destruct Hp as [Hp1 Hp2]. apply andb_prop in Hb. destruct Hb as [Hb1 Hb2].
    rewrite Hp1, Hp2, Hb1, Hb2. cbn [andb bind ltb QN].
    rewrite (vertex_cmp_within t u _ (gc_nonneg _ _) (Hall b Hs)). reflexivity.
  Qed.
End VertexTolerance.

(* ------------------------------------------------------------------ edge matcher *)
Section EdgeProofs.
  Variable N : Num.
  Variable gc : point -> point -> N.
  Variable nn_iter : point -> list cand -> list cand.
  Hypothesis iter_ok : iter_spec nn_iter.
  Variable es : list cand.
  Variable tol : option (N * dist_unit).
  Variable lookup : option (list Z).
  Variable truck_ok : cand -> bool.
  Variable rcq : option (list Z).
  (* the road class file covers every edge (EdgeRtreeInputPlugin::new rejects files of different length) *)
  Variable vc : cand -> bool.
  Hypothesis vc_ok : forall c, In c es -> valid_class rcq lookup c = Ok (vc c).

  Definition adm (c : cand) : bool := vc c && truck_ok c.
  (* admissible and no admissible edge strictly nearer *)
  Definition adm_minimal (p : point) (e : cand) : Prop :=
    In e es /\ adm e = true /\ forall c, In c es -> adm c = true -> d2 (cpt e) p <= d2 (cpt c) p.

  Notation scan := (scan N gc tol lookup truck_ok rcq).
  Notation search := (search N gc nn_iter es tol lookup truck_ok rcq).
  Notation match_edge := (match_edge N gc nn_iter es tol lookup truck_ok rcq).

  Lemma scan_find : forall p l, (forall c, In c l -> In c es) ->
    scan p l = match find adm l with
               | None => Ok None
               | Some c => decide N gc tol p c
               end.
  Proof.
    intros p l. induction l as [|c r IH]; intros Hsub; [reflexivity|].
    cbn [MM.scan find]. rewrite (vc_ok c (Hsub c (or_introl eq_refl))). cbn [bind]. unfold adm at 1.
    destruct (vc c && truck_ok c); [reflexivity|].
    apply IH. intros c' Hc'. apply Hsub. right. exact Hc'.
  Qed.

  Lemma find_sorted_minimal : forall p l e, StronglySorted (nearer p) l -> find adm l = Some e ->
    In e l /\ adm e = true /\ forall c, In c l -> adm c = true -> d2 (cpt e) p <= d2 (cpt c) p.
  Proof.
    intros p l e Hs. induction Hs as [|x r Hr IH Hx]; intros Hf; [discriminate|].
    cbn [find] in Hf. destruct (adm x) eqn:Ex.
    - injection Hf as <-. split; [left; reflexivity|]. split; [exact Ex|].
      intros c [<- | Hc] _; [apply Qle_refl|]. rewrite Forall_forall in Hx. exact (Hx c Hc).
    - destruct (IH Hf) as [Hin [Ha Hmin]]. split; [right; exact Hin|]. split; [exact Ha|].
      intros c [<- | Hc] Hac; [congruence|]. exact (Hmin c Hc Hac).
  Qed.
  Lemma find_iter : forall p e, find adm (nn_iter p es) = Some e -> adm_minimal p e.
  Proof.
    intros p e Hf. destruct (iter_ok p es) as [Hperm Hsorted].
    destruct (find_sorted_minimal p _ e Hsorted Hf) as [Hin [Ha Hmin]].
    split; [exact (Permutation_in _ Hperm Hin)|]. split; [exact Ha|].
    intros c Hc Hac. apply Hmin; [|exact Hac]. exact (Permutation_in _ (Permutation_sym Hperm) Hc).
  Qed.
  Lemma find_iter_none : forall p, find adm (nn_iter p es) = None -> forall c, In c es -> adm c = false.
  Proof.
    intros p Hf c Hc. destruct (iter_ok p es) as [Hperm _].
    exact (find_none _ _ Hf c (Permutation_in _ (Permutation_sym Hperm) Hc)).
  Qed.
  Lemma find_iter_some : forall p c, In c es -> adm c = true -> exists e, find adm (nn_iter p es) = Some e.
  Proof.
    intros p c Hc Hac. destruct (find adm (nn_iter p es)) as [e|] eqn:E; [exists e; reflexivity|].
    rewrite (find_iter_none p E c Hc) in Hac. discriminate.
  Qed.

  Lemma search_eq : forall p,
    search p = match find adm (nn_iter p es) with
               | None => Ok None
               | Some c => decide N gc tol p c
               end.
  Proof.
    intros p. unfold MM.search. apply scan_find.
    intros c Hc. destruct (iter_ok p es) as [Hperm _]. exact (Permutation_in _ Hperm Hc).
  Qed.

  (* the chosen edge is admissible and no admissible edge is strictly nearer *)
  Lemma match_edge_first_admissible : forall p e, match_edge p = Ok e -> adm_minimal p e.
  Proof.
    intros p e H. unfold MM.match_edge in H. rewrite search_eq in H.
    destruct (find adm (nn_iter p es)) as [c|] eqn:Ef; [|discriminate].
    assert (Hc : c = e).
    { unfold decide in H. destruct tol as [tu|]; cbn [bind] in H; [|congruence].
      destruct (hav N gc p (cpt c)) as [dm| | |]; cbn [bind] in H; try discriminate.
      destruct (within_tolerance N (Some tu) dm); [congruence | discriminate]. }
    subst e. exact (find_iter p c Ef).
  Qed.
  Lemma match_edge_no_admissible : forall p, (forall c, In c es -> adm c = false) ->
    match_edge p = Err e_failed.
  Proof.
    intros p Hall. unfold MM.match_edge. rewrite search_eq.
    destruct (find adm (nn_iter p es)) as [c|] eqn:Ef; [|reflexivity].
    destruct (find_iter p c Ef) as [Hin [Ha _]]. rewrite (Hall c Hin) in Ha. discriminate.
  Qed.
  Lemma match_edge_err_class : forall p, (exists e, match_edge p = Ok e) \/ match_edge p = Err e_failed.
  Proof.
    intros p. unfold MM.match_edge. rewrite search_eq.
    destruct (find adm (nn_iter p es)) as [c|]; [|right; reflexivity].
    unfold decide. destruct tol as [tu|]; cbn [bind]; [|left; exists c; reflexivity].
    unfold hav. destruct (_ && _ && _ && _); cbn [bind]; [|right; reflexivity].
    destruct (within_tolerance N (Some tu) _); [left; exists c|right]; reflexivity.
  Qed.
  (* identical to an exhaustive scan over the admissible edges *)
  Lemma adm_minimal_iff : forall p e, adm_minimal p e <-> minimal_in p (filter adm es) e.
  Proof.
    intros p e. unfold adm_minimal, minimal_in. rewrite filter_In. split.
    - intros [Hin [Ha Hmin]]. split; [tauto|]. intros c Hc. apply filter_In in Hc. apply Hmin; tauto.
    - intros [[Hin Ha] Hmin]. repeat split; try assumption. intros c Hc Hac. apply Hmin.
      apply filter_In. tauto.
  Qed.
End EdgeProofs.

Section EdgeNoTolerance.
  Variable N : Num.
  Variable gc : point -> point -> N.
  Variable nn_iter : point -> list cand -> list cand.
  Hypothesis iter_ok : iter_spec nn_iter.
  Variable es : list cand.
  Variable lookup : option (list Z).
  Variable truck_ok : cand -> bool.
  Variable rcq : option (list Z).
  Variable vc : cand -> bool.
  Hypothesis vc_ok : forall c, In c es -> valid_class rcq lookup c = Ok (vc c).
  (* no tolerance configured: the nearest admissible edge is matched, whatever the coordinate *)
  Lemma match_edge_no_tolerance : forall p c, In c es -> adm truck_ok vc c = true ->
    exists e, match_edge N gc nn_iter es None lookup truck_ok rcq p = Ok e
              /\ adm_minimal es truck_ok vc p e.
  Proof.
    intros p c Hc Hac. unfold match_edge.
    rewrite (search_eq N gc nn_iter iter_ok es None lookup truck_ok rcq vc vc_ok).
    destruct (find_iter_some nn_iter iter_ok es truck_ok vc p c Hc Hac) as [e He]. rewrite He.
    pose proof (find_iter nn_iter iter_ok es truck_ok vc p e He) as Hmin.
    exists e. split; [reflexivity | exact Hmin].
  Qed.
End EdgeNoTolerance.

Section EdgeTolerance.
  Variable gc : point -> point -> Q.
  Hypothesis gc_nonneg : forall a b, 0 <= gc a b.
  Variable nn_iter : point -> list cand -> list cand.
  Hypothesis iter_ok : iter_spec nn_iter.
  Variable es : list cand.
  Variable t : Q.
  Variable u : dist_unit.
  Variable lookup : option (list Z).
  Variable truck_ok : cand -> bool.
  Variable rcq : option (list Z).
  Variable vc : cand -> bool.
  Hypothesis vc_ok : forall c, In c es -> valid_class rcq lookup c = Ok (vc c).
  Notation match_edge := (match_edge QN gc nn_iter es (Some (t, u)) lookup truck_ok rcq).
  Notation adm_minimal := (adm_minimal es truck_ok vc).

  Lemma match_edge_not_beyond : forall p e, match_edge p = Ok e -> ~ beyond t u (gc p (cpt e)).
  Proof.
    intros p e H Hb. unfold MM.match_edge in H.
    rewrite (search_eq QN gc nn_iter iter_ok es _ lookup truck_ok rcq vc vc_ok) in H.
    destruct (find _ (nn_iter p es)) as [c|]; [|discriminate].
    unfold decide, hav in H. destruct (_ && _ && _ && _); cbn [bind] in H; [|discriminate].
    cbn [within_tolerance leb QN] in H.
    destruct (Qle_bool (gc p (cpt c)) (convert_distance QN u Meters t)) eqn:E; [|discriminate].
    injection H as <-. rewrite (edge_cmp_beyond t u _ (gc_nonneg _ _) Hb) in E. discriminate.
  Qed.
  Lemma match_edge_beyond : forall p,
    (forall c, adm_minimal p c -> beyond t u (gc p (cpt c))) -> match_edge p = Err e_failed.
  Proof.
    intros p Hall.
    destruct (match_edge_err_class QN gc nn_iter iter_ok es (Some (t, u)) lookup truck_ok rcq vc vc_ok p)
      as [[e He] | He]; [|exact He].
    exfalso. apply (match_edge_not_beyond p e He). apply Hall.
    exact (match_edge_first_admissible QN gc nn_iter iter_ok es _ lookup truck_ok rcq vc vc_ok p e He).
  Qed.
  Lemma match_edge_within : forall p c, In c es -> adm truck_ok vc c = true ->
    in_range p = true -> (forall c, In c es -> in_range (cpt c) = true) ->
    (forall c, adm_minimal p c -> within t u (gc p (cpt c))) ->
    exists e, match_edge p = Ok e /\ adm_minimal p e.
  Proof.
    intros p c Hc Hac Hp Hes Hall. unfold MM.match_edge.
    rewrite (search_eq QN gc nn_iter iter_ok es _ lookup truck_ok rcq vc vc_ok).
    destruct (find_iter_some nn_iter iter_ok es truck_ok vc p c Hc Hac) as [e He]. rewrite He.
    pose proof (find_iter nn_iter iter_ok es truck_ok vc p e He) as Hmin.
    exists e. split; [|exact Hmin]. unfold decide, hav.
    pose proof (Hes e (proj1 Hmin)) as Hb. unfold in_range in Hp, Hb.
    apply andb_prop in Hp. destruct Hp as [Hp1 Hp2]. apply andb_prop in Hb. destruct Hb as [Hb1 Hb2].
    rewrite Hp1, Hp2, Hb1, Hb2. cbn [andb bind within_tolerance leb QN].
    rewrite (edge_cmp_within t u _ (gc_nonneg _ _) (Hall e Hmin)). reflexivity.
  Qed.
End EdgeTolerance.

(* ------------------------------------------------------------------ the convention AT the tolerance *)
(* one inclusive rule for both matchers, exact when the tolerance is in Meters (no conversion factor): a
   candidate is accepted iff its great-circle distance is <= the tolerance *)
Lemma k_meters_meters : k_dist Meters Meters == 1.
Proof. vm_compute. reflexivity. Qed.
Lemma qle_bool_compat_l : forall a b t : Q, a == b -> Qle_bool a t = Qle_bool b t.
Proof.
  intros a b t H. destruct (Qle_bool b t) eqn:E.
  - apply Qle_bool_iff. rewrite H. apply Qle_bool_iff. exact E.
  - destruct (Qle_bool a t) eqn:E2; [|reflexivity]. apply Qle_bool_iff in E2. rewrite H in E2.
    apply Qle_bool_iff in E2. congruence.
Qed.
Lemma qle_bool_compat_r : forall a t t' : Q, t == t' -> Qle_bool a t = Qle_bool a t'.
Proof.
  intros a t t' H. destruct (Qle_bool a t') eqn:E.
  - apply Qle_bool_iff. rewrite H. apply Qle_bool_iff. exact E.
  - destruct (Qle_bool a t) eqn:E2; [|reflexivity]. apply Qle_bool_iff in E2. rewrite H in E2.
    apply Qle_bool_iff in E2. congruence.
Qed.
Lemma convert_meters_id : forall x : Q, convert_distance QN Meters Meters x == x.
Proof. intros x. rewrite convert_distance_factor', k_meters_meters. ring. Qed.

Lemma validate_tolerance_meters : forall (gc : point -> point -> Q) src dst t,
  in_range src = true -> in_range dst = true ->
  validate_tolerance QN gc src dst (Some (t, Meters))
  = if Qle_bool (gc src dst) t then Ok tt else Err e_failed.
Proof.
  intros gc src dst t Hs Hd. unfold validate_tolerance, hav. unfold in_range in Hs, Hd.
  apply andb_prop in Hs. destruct Hs as [Hs1 Hs2]. apply andb_prop in Hd. destruct Hd as [Hd1 Hd2].
  rewrite Hs1, Hs2, Hd1, Hd2. cbn [andb bind ltb QN]. unfold Qltb.
  rewrite (qle_bool_compat_l _ _ t (convert_meters_id (gc src dst))).
  destruct (Qle_bool (gc src dst) t); reflexivity.
Qed.
Lemma within_tolerance_meters : forall (d t : Q),
  within_tolerance QN (Some (t, Meters)) d = Qle_bool d t.
Proof.
  intros d t. cbn [within_tolerance leb QN]. apply qle_bool_compat_r. apply convert_meters_id.
Qed.
(* in particular, tolerance = distance (and tolerance 0 exactly on a candidate) is a match in both matchers *)
Lemma match_vertex_at_tolerance : forall (gc : point -> point -> Q) nn vs p v,
  nn p vs = Some v -> in_range p = true -> in_range (cpt v) = true ->
  match_vertex QN gc nn vs (Some (gc p (cpt v), Meters)) p = Ok v.
Proof.
  intros gc nn vs p v Hnn Hp Hv. unfold match_vertex. rewrite Hnn.
  rewrite (validate_tolerance_meters gc p (cpt v) _ Hp Hv).
  assert (H : Qle_bool (gc p (cpt v)) (gc p (cpt v)) = true) by (apply Qle_bool_iff, Qle_refl).
  rewrite H. reflexivity.
Qed.
Lemma decide_edge_at_tolerance : forall (gc : point -> point -> Q) p c,
  in_range p = true -> in_range (cpt c) = true ->
  decide QN gc (Some (gc p (cpt c), Meters)) p c = Ok (Some c).
Proof.
  intros gc p c Hp Hc. unfold decide, hav. unfold in_range in Hp, Hc.
  apply andb_prop in Hp. destruct Hp as [Hp1 Hp2]. apply andb_prop in Hc. destruct Hc as [Hc1 Hc2].
  rewrite Hp1, Hp2, Hc1, Hc2. cbn [andb bind]. rewrite within_tolerance_meters.
  assert (H : Qle_bool (gc p (cpt c)) (gc p (cpt c)) = true) by (apply Qle_bool_iff, Qle_refl).
  rewrite H. reflexivity.
Qed.
