(* Lemmas about the JSON layer of Model/MapMatch.v: what `process` writes into the query, that every
   other field keeps its value and position, and the state of the query at an error. *)
From Coq Require Import ZArith QArith List String Bool Floats.
From RC Require Import Base.Show Base.Res Base.Num Base.Json Model.Units Model.MapMatch.
Import ListNotations.
Import Units MM.
Local Open Scope string_scope.

(* ------------------------------------------------------------------ serde_json::Map::insert *)
Lemma oget_oset_same : forall m k v, oget (oset m k v) k = Some v.
Proof.
  intros m k v. induction m as [|[k' v'] r IH]; cbn [oset oget].
  - rewrite String.eqb_refl. reflexivity.
  - destruct (String.eqb k' k) eqn:E; cbn [oget]; rewrite E; [reflexivity | exact IH].
Qed.
Lemma oget_oset_other : forall m k v k0, k0 <> k -> oget (oset m k v) k0 = oget m k0.
Proof.
  intros m k v k0 Hne. induction m as [|[k' v'] r IH]; cbn [oset oget].
  - destruct (String.eqb k k0) eqn:E; [apply String.eqb_eq in E; congruence | reflexivity].
  - destruct (String.eqb k' k) eqn:E; cbn [oget].
    + apply String.eqb_eq in E. subst k'.
      destruct (String.eqb k k0) eqn:E2; [apply String.eqb_eq in E2; congruence | reflexivity].
    + destruct (String.eqb k' k0); [reflexivity | exact IH].
Qed.
(* the position and value of every other entry is kept; the written key is replaced in place or appended *)
Lemma oset_filter : forall (p : string -> bool) m k v, p k = false ->
  filter (fun kv => p (fst kv)) (oset m k v) = filter (fun kv => p (fst kv)) m.
Proof.
  intros p m k v Hk. induction m as [|[k' v'] r IH]; cbn [oset filter fst].
  - rewrite Hk. reflexivity.
  - destruct (String.eqb k' k) eqn:E; cbn [filter fst].
    + apply String.eqb_eq in E. subst k'. rewrite Hk. reflexivity.
    + rewrite IH. reflexivity.
Qed.
Lemma oset_keys : forall m k v,
  map fst (oset m k v) = if existsb (String.eqb k) (map fst m) then map fst m else (map fst m ++ [k])%list.
Proof.
  intros m k v. induction m as [|[k' v'] r IH]; cbn [oset map fst existsb app]; [reflexivity|].
  rewrite (String.eqb_sym k k'). destruct (String.eqb k' k) eqn:E; cbn [map fst orb]; [reflexivity|].
  rewrite IH. destruct (existsb (String.eqb k) (map fst r)); reflexivity.
Qed.

Lemma set_field_others : forall q k v q', is_match_key k = true -> set_field q k v = Ok q' ->
  others q' = others q.
Proof.
  intros q k v q' Hk H. destruct q; try discriminate. cbn [set_field] in H. injection H as <-.
  cbn [others]. f_equal. apply (oset_filter (fun k => negb (is_match_key k))). rewrite Hk. reflexivity.
Qed.
Lemma set_field_same : forall q k v q', set_field q k v = Ok q' -> jget q' k = Some v.
Proof.
  intros q k v q' H. destruct q; try discriminate. cbn [set_field] in H. injection H as <-.
  cbn [jget]. apply oget_oset_same.
Qed.
Lemma set_field_other : forall q k v q' k0, set_field q k v = Ok q' -> k0 <> k -> jget q' k0 = jget q k0.
Proof.
  intros q k v q' k0 H Hne. destruct q; try discriminate. cbn [set_field] in H. injection H as <-.
  cbn [jget]. apply oget_oset_other. exact Hne.
Qed.
Lemma set_field_object : forall m k v, set_field (JObj m) k v = Ok (JObj (oset m k v)).
Proof. reflexivity. Qed.

Lemma bind_ok : forall {A B} (r : res A) (f : A -> res B) b,
  bind r f = Ok b -> exists a, r = Ok a /\ f a = Ok b.
Proof. intros A B r f b H. destruct r; cbn [bind] in H; try discriminate. exists a. split; [reflexivity | exact H]. Qed.

Section AccessorFacts.
  Variable fq : float -> option Q.
  Notation json_num := (json_num fq).
  Notation get_num := (get_num fq).
  Notation get_origin_coordinate := (get_origin_coordinate fq).
  Notation get_destination_coordinate := (get_destination_coordinate fq).
Lemma get_num_object : forall q k x, get_num q k = Ok x -> exists m, q = JObj m.
Proof.
  intros q k x H. unfold MM.get_num in H. destruct q; cbn [jget] in H; try discriminate. eexists; reflexivity.
Qed.
Lemma origin_coordinate_object : forall q p, get_origin_coordinate q = Ok p -> exists m, q = JObj m.
Proof.
  intros q p H. unfold MM.get_origin_coordinate in H. apply bind_ok in H. destruct H as [x [Hx _]].
  exact (get_num_object q _ x Hx).
Qed.
(* the error cases of the coordinate accessors *)
Lemma origin_missing_x : forall q, jget q "origin_x" = None ->
  get_origin_coordinate q = Err (e_missing "origin_x").
Proof. intros q H. unfold MM.get_origin_coordinate, MM.get_num. rewrite H. reflexivity. Qed.
Lemma origin_ill_typed_x : forall q j, jget q "origin_x" = Some j -> json_num j = None ->
  get_origin_coordinate q = Err (e_type "origin_x").
Proof. intros q j H Hj. unfold MM.get_origin_coordinate, MM.get_num. rewrite H, Hj. reflexivity. Qed.
Lemma origin_missing_y : forall q jx x, jget q "origin_x" = Some jx -> json_num jx = Some x ->
  jget q "origin_y" = None -> get_origin_coordinate q = Err (e_missing "origin_y").
Proof. intros q jx x H Hj Hy. unfold MM.get_origin_coordinate, MM.get_num. rewrite H, Hj. cbn [bind]. rewrite Hy. reflexivity. Qed.
Lemma origin_ill_typed_y : forall q jx x jy, jget q "origin_x" = Some jx -> json_num jx = Some x ->
  jget q "origin_y" = Some jy -> json_num jy = None -> get_origin_coordinate q = Err (e_type "origin_y").
Proof.
  intros q jx x jy H Hj Hy Hjy. unfold MM.get_origin_coordinate, MM.get_num. rewrite H, Hj. cbn [bind].
  rewrite Hy, Hjy. reflexivity.
Qed.
Lemma destination_absent : forall q, jget q "destination_x" = None -> jget q "destination_y" = None ->
  get_destination_coordinate q = Ok None.
Proof. intros q Hx Hy. unfold MM.get_destination_coordinate. rewrite Hx, Hy. reflexivity. Qed.
Lemma destination_half : forall q j,
  (jget q "destination_x" = Some j -> jget q "destination_y" = None ->
   get_destination_coordinate q = Err (e_pair "destination_x" "destination_y"))
  /\ (jget q "destination_x" = None -> jget q "destination_y" = Some j ->
      get_destination_coordinate q = Err (e_pair "destination_y" "destination_x")).
Proof. intros q j. split; intros Hx Hy; unfold MM.get_destination_coordinate; rewrite Hx, Hy; reflexivity. Qed.
Lemma origin_coordinate_num : forall q jx jy x y, jget q "origin_x" = Some jx -> jget q "origin_y" = Some jy ->
  json_num jx = Some x -> json_num jy = Some y -> get_origin_coordinate q = Ok (x, y).
Proof.
  intros q jx jy x y Hx Hy Hjx Hjy. unfold MM.get_origin_coordinate, MM.get_num. rewrite Hx, Hjx. cbn [bind].
  rewrite Hy, Hjy. reflexivity.
Qed.

End AccessorFacts.

Lemma match_keys : is_match_key k_origin_vertex = true /\ is_match_key k_destination_vertex = true
  /\ is_match_key k_origin_edge = true /\ is_match_key k_destination_edge = true.
Proof. repeat split; reflexivity. Qed.

Lemma finish_fst_others : forall st r q, others st = others q ->
  (forall j, r = Ok j -> others j = others q) -> others (fst (finish st r)) = others q.
Proof. intros st r q Hst Hr. destruct r; cbn [finish fst]; auto. Qed.

(* ------------------------------------------------------------------ vertex plugin *)
Section VertexJson.
  Variable N : Num.
  Variable fq : float -> option Q.
  Variable gc : point -> point -> N.
  Variable nn : point -> list cand -> option cand.
  Variable vs : list cand.
  Variable tol : option (N * dist_unit).
  Notation get_origin_coordinate := (get_origin_coordinate fq).
  Notation get_destination_coordinate := (get_destination_coordinate fq).
  Notation match_vertex := (match_vertex N gc nn vs tol).
  Notation vertex_origin := (vertex_origin N fq gc nn vs tol).
  Notation vertex_destination := (vertex_destination N gc nn vs tol).
  Notation vertex_process := (vertex_process N fq gc nn vs tol).

  Lemma vertex_origin_ok : forall query q1 dst, vertex_origin query = Ok (q1, dst) ->
    exists src v, get_origin_coordinate query = Ok src /\ get_destination_coordinate query = Ok dst
                  /\ match_vertex src = Ok v /\ set_field query k_origin_vertex (JInt (cid v)) = Ok q1.
  Proof.
    intros query q1 dst H. unfold MM.vertex_origin in H.
    apply bind_ok in H. destruct H as [src [Hsrc H]].
    apply bind_ok in H. destruct H as [dst' [Hdst H]].
    apply bind_ok in H. destruct H as [v [Hv H]].
    apply bind_ok in H. destruct H as [q1' [Hq1 H]].
    injection H as <- <-. exists src, v. auto.
  Qed.
  Lemma vertex_destination_ok : forall q1 dst q2, vertex_destination q1 dst = Ok q2 ->
    match dst with
    | None => q2 = q1
    | Some d => exists w, match_vertex d = Ok w /\ set_field q1 k_destination_vertex (JInt (cid w)) = Ok q2
    end.
  Proof.
    intros q1 dst q2 H. destruct dst as [d|]; cbn [MM.vertex_destination] in H.
    - apply bind_ok in H. destruct H as [w [Hw H]]. exists w. auto.
    - injection H as <-. reflexivity.
  Qed.

  (* all other fields of the query are left unchanged, whatever the outcome *)
  Lemma vertex_process_others : forall query, others (fst (vertex_process query)) = others query.
  Proof.
    intros query. unfold MM.vertex_process.
    destruct (vertex_origin query) as [[q1 dst]| | |] eqn:Eo; try reflexivity.
    destruct (vertex_origin_ok _ _ _ Eo) as [src [v [_ [_ [_ Hq1]]]]].
    pose proof (set_field_others _ _ _ _ (proj1 match_keys) Hq1) as H1.
    apply finish_fst_others; [exact H1|].
    intros q2 Hd. pose proof (vertex_destination_ok _ _ _ Hd) as Hd'.
    destruct dst as [d|]; [|subst q2; exact H1].
    destruct Hd' as [w [_ Hq2]].
    rewrite (set_field_others _ _ _ _ (proj1 (proj2 match_keys)) Hq2). exact H1.
  Qed.

  (* on success the matched ids are in the query *)
  Lemma vertex_process_ok : forall query q', vertex_process query = (q', Ok tt) ->
    exists src v, get_origin_coordinate query = Ok src /\ match_vertex src = Ok v
      /\ jget q' k_origin_vertex = Some (JInt (cid v))
      /\ match get_destination_coordinate query with
         | Ok (Some d) => exists w, match_vertex d = Ok w /\ jget q' k_destination_vertex = Some (JInt (cid w))
         | Ok None => jget q' k_destination_vertex = jget query k_destination_vertex
         | _ => False
         end.
  Proof.
    intros query q' H. unfold MM.vertex_process in H.
    destruct (vertex_origin query) as [[q1 dst]| | |] eqn:Eo; try discriminate.
    destruct (vertex_destination q1 dst) as [q2| | |] eqn:Ed; cbn [finish] in H; try discriminate.
    injection H as <-.
    destruct (vertex_origin_ok _ _ _ Eo) as [src [v [Hsrc [Hdst [Hv Hq1]]]]].
    exists src, v. split; [exact Hsrc|]. split; [exact Hv|].
    pose proof (vertex_destination_ok _ _ _ Ed) as Hd. rewrite Hdst. destruct dst as [d|].
    - destruct Hd as [w [Hw Hq2]]. split.
      + rewrite (set_field_other _ _ _ _ k_origin_vertex Hq2); [|discriminate].
        exact (set_field_same _ _ _ _ Hq1).
      + exists w. split; [exact Hw | exact (set_field_same _ _ _ _ Hq2)].
    - subst q2. split; [exact (set_field_same _ _ _ _ Hq1)|].
      apply (set_field_other _ _ _ _ k_destination_vertex Hq1). discriminate.
  Qed.

  (* failures: the class is reported, and no match is written for the failing coordinate *)
  Lemma vertex_parse_failure : forall query c,
    get_origin_coordinate query = Err c
    \/ (exists src, get_origin_coordinate query = Ok src /\ get_destination_coordinate query = Err c) ->
    vertex_process query = (query, Err c).
  Proof.
    intros query c [H | [src [Hs H]]]; unfold MM.vertex_process, MM.vertex_origin.
    - rewrite H. reflexivity.
    - rewrite Hs, H. reflexivity.
  Qed.
  Lemma vertex_origin_failure : forall query src dst c, get_origin_coordinate query = Ok src ->
    get_destination_coordinate query = Ok dst -> match_vertex src = Err c ->
    vertex_process query = (query, Err c).
  Proof.
    intros query src dst c Hs Hd Hm. unfold MM.vertex_process, MM.vertex_origin.
    rewrite Hs, Hd. cbn [bind]. rewrite Hm. reflexivity.
  Qed.
  Lemma vertex_destination_failure : forall query src d v c, get_origin_coordinate query = Ok src ->
    get_destination_coordinate query = Ok (Some d) -> match_vertex src = Ok v -> match_vertex d = Err c ->
    exists q1, set_field query k_origin_vertex (JInt (cid v)) = Ok q1
               /\ vertex_process query = (q1, Err c)
               /\ jget q1 k_destination_vertex = jget query k_destination_vertex.
  Proof.
    intros query src d v c Hs Hd Hv Hm. destruct (origin_coordinate_object fq _ _ Hs) as [m ->].
    exists (JObj (oset m k_origin_vertex (JInt (cid v)))). split; [reflexivity|]. split.
    - unfold MM.vertex_process, MM.vertex_origin. rewrite Hs, Hd. cbn [bind]. rewrite Hv. cbn [bind set_field].
      cbn [MM.vertex_destination]. rewrite Hm. reflexivity.
    - cbn [jget]. apply oget_oset_other. discriminate.
  Qed.
  Lemma vertex_process_success : forall query src dst v, get_origin_coordinate query = Ok src ->
    get_destination_coordinate query = Ok dst -> match_vertex src = Ok v ->
    match dst with None => True | Some d => exists w, match_vertex d = Ok w end ->
    snd (vertex_process query) = Ok tt.
  Proof.
    intros query src dst v Hs Hd Hv Hw. destruct (origin_coordinate_object fq _ _ Hs) as [m ->].
    unfold MM.vertex_process, MM.vertex_origin. rewrite Hs, Hd. cbn [bind]. rewrite Hv. cbn [bind set_field].
    destruct dst as [d|]; cbn [MM.vertex_destination]; [|reflexivity].
    destruct Hw as [w Hw]. rewrite Hw. reflexivity.
  Qed.
End VertexJson.

(* ------------------------------------------------------------------ edge plugin *)
Section EdgeJson.
  Variable N : Num.
  Variable fq : float -> option Q.
  Variable gc : point -> point -> N.
  Variable nn_iter : point -> list cand -> list cand.
  Variable es : list cand.
  Variable tol : option (N * dist_unit).
  Variable mapping : list (string * Z).
  Variable lookup : option (list Z).
  Variable truck_ok : cand -> bool.
  Notation get_origin_coordinate := (get_origin_coordinate fq).
  Notation get_destination_coordinate := (get_destination_coordinate fq).
  Notation match_edge := (match_edge N gc nn_iter es tol lookup truck_ok).
  Notation edge_run := (edge_run N fq gc nn_iter es tol mapping lookup truck_ok).
  Notation edge_process := (edge_process N fq gc nn_iter es tol mapping lookup truck_ok).

  Lemma edge_run_ok : forall query q', edge_run query = Ok q' ->
    exists rcq src dst s, read_query mapping query = Ok rcq /\ get_origin_coordinate query = Ok src
      /\ get_destination_coordinate query = Ok dst /\ match_edge rcq src = Ok s
      /\ exists q1, set_field query k_origin_edge (JInt (cid s)) = Ok q1
         /\ match dst with
            | None => q' = q1
            | Some d => exists e, match_edge rcq d = Ok e /\ set_field q1 k_destination_edge (JInt (cid e)) = Ok q'
            end.
  Proof.
    intros query q' H. unfold MM.edge_run in H.
    apply bind_ok in H. destruct H as [rcq [Hrc H]].
    apply bind_ok in H. destruct H as [src [Hsrc H]].
    apply bind_ok in H. destruct H as [dst [Hdst H]].
    apply bind_ok in H. destruct H as [s [Hs H]].
    apply bind_ok in H. destruct H as [dopt [Hdo H]].
    apply bind_ok in H. destruct H as [q1 [Hq1 H]].
    exists rcq, src, dst, s. repeat (split; [assumption|]). exists q1. split; [exact Hq1|].
    destruct dst as [d|].
    - apply bind_ok in Hdo. destruct Hdo as [e [He Hdo]]. injection Hdo as <-. exists e. auto.
    - injection Hdo as <-. injection H as <-. reflexivity.
  Qed.

  Lemma edge_process_others : forall query, others (fst (edge_process query)) = others query.
  Proof.
    intros query. unfold MM.edge_process. apply finish_fst_others; [reflexivity|].
    intros q' H. destruct (edge_run_ok _ _ H) as [rcq [src [dst [s [_ [_ [_ [_ [q1 [Hq1 Hd]]]]]]]]]].
    pose proof (set_field_others _ _ _ _ (proj1 (proj2 (proj2 match_keys))) Hq1) as H1.
    destruct dst as [d|]; [|subst q'; exact H1].
    destruct Hd as [e [_ Hq2]].
    rewrite (set_field_others _ _ _ _ (proj2 (proj2 (proj2 match_keys))) Hq2). exact H1.
  Qed.

  Lemma edge_process_ok : forall query q', edge_process query = (q', Ok tt) ->
    exists rcq src s, read_query mapping query = Ok rcq /\ get_origin_coordinate query = Ok src
      /\ match_edge rcq src = Ok s /\ jget q' k_origin_edge = Some (JInt (cid s))
      /\ match get_destination_coordinate query with
         | Ok (Some d) => exists e, match_edge rcq d = Ok e /\ jget q' k_destination_edge = Some (JInt (cid e))
         | Ok None => jget q' k_destination_edge = jget query k_destination_edge
         | _ => False
         end.
  Proof.
    intros query q' H. unfold MM.edge_process in H.
    destruct (edge_run query) as [q2| | |] eqn:Er; cbn [finish] in H; try discriminate. injection H as <-.
    destruct (edge_run_ok _ _ Er) as [rcq [src [dst [s [Hrc [Hsrc [Hdst [Hs [q1 [Hq1 Hd]]]]]]]]]].
    exists rcq, src, s. repeat (split; [assumption|]). rewrite Hdst. destruct dst as [d|].
    - destruct Hd as [e [He Hq2]]. split.
      + rewrite (set_field_other _ _ _ _ k_origin_edge Hq2); [|discriminate].
        exact (set_field_same _ _ _ _ Hq1).
      + exists e. split; [exact He | exact (set_field_same _ _ _ _ Hq2)].
    - subst q2. split; [exact (set_field_same _ _ _ _ Hq1)|].
      apply (set_field_other _ _ _ _ k_destination_edge Hq1). discriminate.
  Qed.

  (* an error leaves the query exactly as it was: neither edge is written *)
  Lemma edge_process_err : forall query, snd (edge_process query) <> Ok tt -> fst (edge_process query) = query.
  Proof.
    intros query H. unfold MM.edge_process in *. destruct (edge_run query); cbn [finish fst snd] in *; congruence.
  Qed.
  Lemma edge_origin_failure : forall query rcq src dst c, read_query mapping query = Ok rcq ->
    get_origin_coordinate query = Ok src -> get_destination_coordinate query = Ok dst ->
    match_edge rcq src = Err c -> edge_process query = (query, Err c).
  Proof.
    intros query rcq src dst c Hrc Hs Hd Hm. unfold MM.edge_process, MM.edge_run.
    rewrite Hrc, Hs, Hd. cbn [bind]. rewrite Hm. reflexivity.
  Qed.
  Lemma edge_destination_failure : forall query rcq src d s c, read_query mapping query = Ok rcq ->
    get_origin_coordinate query = Ok src -> get_destination_coordinate query = Ok (Some d) ->
    match_edge rcq src = Ok s -> match_edge rcq d = Err c -> edge_process query = (query, Err c).
  Proof.
    intros query rcq src d s c Hrc Hs Hd Hms Hm. unfold MM.edge_process, MM.edge_run.
    rewrite Hrc, Hs, Hd. cbn [bind]. rewrite Hms. cbn [bind]. rewrite Hm. reflexivity.
  Qed.
  Lemma edge_parse_failure : forall query c,
    read_query mapping query = Err c
    \/ (exists rcq, read_query mapping query = Ok rcq /\ get_origin_coordinate query = Err c)
    \/ (exists rcq src, read_query mapping query = Ok rcq /\ get_origin_coordinate query = Ok src
                        /\ get_destination_coordinate query = Err c) ->
    edge_process query = (query, Err c).
  Proof.
    intros query c [H | [[rcq [Hr H]] | [rcq [src [Hr [Hs H]]]]]]; unfold MM.edge_process, MM.edge_run.
    - rewrite H. reflexivity.
    - rewrite Hr, H. reflexivity.
    - rewrite Hr, Hs, H. reflexivity.
  Qed.
  Lemma edge_process_success : forall query rcq src dst s, read_query mapping query = Ok rcq ->
    get_origin_coordinate query = Ok src -> get_destination_coordinate query = Ok dst ->
    match_edge rcq src = Ok s ->
    match dst with None => True | Some d => exists e, match_edge rcq d = Ok e end ->
    snd (edge_process query) = Ok tt.
  Proof.
    intros query rcq src dst s Hrc Hs Hd Hms He. destruct (origin_coordinate_object fq _ _ Hs) as [m ->].
    unfold MM.edge_process, MM.edge_run. rewrite Hrc, Hs, Hd. cbn [bind]. rewrite Hms. cbn [bind].
    destruct dst as [d|]; [|reflexivity].
    destruct He as [e He]. rewrite He. reflexivity.
  Qed.
End EdgeJson.
