(* C16 lemmas at the level of `process`: the nearest-neighbour / tolerance lemmas of MapMatch.v composed with the
   JSON lemmas of MapMatchJson.v, the reading of [others], and the concrete instances used as non-vacuity
   witnesses. *)
From Coq Require Import ZArith QArith List String Bool Floats Sorting.Sorted Sorting.Permutation.
From RC Require Import Base.Show Base.Res Base.Num Base.Json Model.Units Model.MapMatch
                       Proofs.MapMatch Proofs.MapMatchJson.
Import ListNotations.
Import Units MM.
Local Open Scope string_scope.

(* ------------------------------------------------------------------ what [others] says *)
Lemma is_match_key_eqb : forall k k', String.eqb k' k = true -> is_match_key k' = is_match_key k.
Proof. intros k k' H. apply String.eqb_eq in H. subst k'. reflexivity. Qed.
Lemma oget_filter_others : forall m k, is_match_key k = false ->
  oget (filter (fun kv => negb (is_match_key (fst kv))) m) k = oget m k.
Proof.
  intros m k Hk. induction m as [|[k' v'] r IH]; cbn [filter oget fst]; [reflexivity|].
  destruct (String.eqb k' k) eqn:E.
  - rewrite (is_match_key_eqb k k' E), Hk. cbn [negb oget]. rewrite E. reflexivity.
  - destruct (negb (is_match_key k')); cbn [oget]; [rewrite E|]; exact IH.
Qed.
(* equal [others]: every key except the four match keys has the same value on both sides, and these
   keys appear in the same order *)
Lemma others_jget : forall a b k, others a = others b -> is_match_key k = false -> jget a k = jget b k.
Proof.
  intros a b k H Hk. destruct a, b; cbn [others] in H; try discriminate; try reflexivity;
    try (injection H as H); try congruence.
  cbn [jget]. rewrite <- (oget_filter_others m k Hk), <- (oget_filter_others m0 k Hk), H. reflexivity.
Qed.
Lemma others_keys : forall m m', others (JObj m) = others (JObj m') ->
  filter (fun k => negb (is_match_key k)) (map fst m) = filter (fun k => negb (is_match_key k)) (map fst m').
Proof.
  intros m m' H. cbn [others] in H. injection H as H.
  assert (Hf : forall l : list (string * json),
             filter (fun k => negb (is_match_key k)) (map fst l)
             = map fst (filter (fun kv => negb (is_match_key (fst kv))) l)).
  { induction l as [|[k v] r IH]; cbn [map filter fst]; [reflexivity|].
    destruct (negb (is_match_key k)); cbn [map fst]; rewrite IH; reflexivity. }
  rewrite !Hf, H. reflexivity.
Qed.

Lemma d2_nonneg : forall a b, (0 <= d2 a b)%Q.
Proof.
  assert (Hsq : forall x : Q, (0 <= x * x)%Q).
  { intros x. destruct (Qlt_le_dec x 0) as [Hn | Hp].
    - setoid_replace (x * x)%Q with ((- x) * (- x))%Q by ring.
      apply Qmult_le_0_compat; apply (Qopp_le_compat x 0); apply Qlt_le_weak; exact Hn.
    - apply Qmult_le_0_compat; exact Hp. }
  intros a b. unfold d2. apply (Qle_trans _ (0 + 0)%Q); [discriminate|].
  apply Qplus_le_compat; apply Hsq.
Qed.

(* ------------------------------------------------------------------ process-level tolerance semantics *)
Section VertexTop.
  Variable fq : float -> option Q.
  Variable gc : point -> point -> Q.
  Hypothesis gc_nonneg : forall a b, (0 <= gc a b)%Q.
  Variable nn : point -> list cand -> option cand.
  Hypothesis nn_ok : nn_spec nn.
  Variable vs : list cand.
  Variable t : Q.
  Variable u : dist_unit.
  Notation tol := (Some (t, u)).
  Notation get_origin_coordinate := (get_origin_coordinate fq).
  Notation get_destination_coordinate := (get_destination_coordinate fq).
  Notation vertex_process := (vertex_process QN fq gc nn vs tol).

  Definition all_beyond (p : point) : Prop := forall c, minimal_in p vs c -> beyond t u (gc p (cpt c)).
  Definition all_within (p : point) : Prop := forall c, minimal_in p vs c -> within t u (gc p (cpt c)).
  Definition ranges_ok (p : point) : Prop :=
    in_range p = true /\ forall c, In c vs -> in_range (cpt c) = true.

  Lemma vertex_process_origin_beyond : forall query src dst,
    get_origin_coordinate query = Ok src -> get_destination_coordinate query = Ok dst ->
    all_beyond src -> vertex_process query = (query, Err e_failed).
  Proof.
    intros query src dst Hs Hd Hb. apply (vertex_origin_failure QN fq gc nn vs tol query src dst _ Hs Hd).
    exact (match_vertex_beyond gc gc_nonneg nn nn_ok vs t u src Hb).
  Qed.
  Lemma vertex_process_destination_beyond : forall query src d,
    get_origin_coordinate query = Ok src -> get_destination_coordinate query = Ok (Some d) ->
    all_beyond d ->
    snd (vertex_process query) = Err e_failed
    /\ jget (fst (vertex_process query)) k_destination_vertex = jget query k_destination_vertex.
  Proof.
    intros query src d Hs Hd Hb.
    pose proof (match_vertex_beyond gc gc_nonneg nn nn_ok vs t u d Hb) as Hmd.
    destruct (match_vertex_err_class QN gc nn vs tol src) as [[v Hv] | He].
    - destruct (vertex_destination_failure QN fq gc nn vs tol query src d v _ Hs Hd Hv Hmd) as [q1 [_ [Hp Hj]]].
      rewrite Hp. split; [reflexivity | exact Hj].
    - rewrite (vertex_origin_failure QN fq gc nn vs tol query src _ _ Hs Hd He). split; reflexivity.
  Qed.
  Lemma vertex_process_within : forall query src dst,
    get_origin_coordinate query = Ok src -> get_destination_coordinate query = Ok dst -> vs <> [] ->
    ranges_ok src -> all_within src ->
    match dst with None => True | Some d => ranges_ok d /\ all_within d end ->
    snd (vertex_process query) = Ok tt.
  Proof.
    intros query src dst Hs Hd Hne [Hr1 Hr2] Hw Hdst.
    destruct (match_vertex_within gc gc_nonneg nn nn_ok vs t u src Hne Hr1 Hr2 Hw) as [v [Hv _]].
    apply (vertex_process_success QN fq gc nn vs tol query src dst v Hs Hd Hv).
    destruct dst as [d|]; [|exact I]. destruct Hdst as [[Hd1 Hd2] Hwd].
    destruct (match_vertex_within gc gc_nonneg nn nn_ok vs t u d Hne Hd1 Hd2 Hwd) as [w [Hw' _]].
    exists w. exact Hw'.
  Qed.
End VertexTop.

Section EdgeTop.
  Variable fq : float -> option Q.
  Variable gc : point -> point -> Q.
  Hypothesis gc_nonneg : forall a b, (0 <= gc a b)%Q.
  Variable nn_iter : point -> list cand -> list cand.
  Hypothesis iter_ok : iter_spec nn_iter.
  Variable es : list cand.
  Variable t : Q.
  Variable u : dist_unit.
  Variable mapping : list (string * Z).
  Variable lookup : option (list Z).
  Variable truck_ok : cand -> bool.
  Variable rcq : option (list Z).
  Variable vc : cand -> bool.
  Hypothesis vc_ok : forall c, In c es -> valid_class rcq lookup c = Ok (vc c).
  Notation tol := (Some (t, u)).
  Notation get_origin_coordinate := (get_origin_coordinate fq).
  Notation get_destination_coordinate := (get_destination_coordinate fq).
  Notation edge_process := (edge_process QN fq gc nn_iter es tol mapping lookup truck_ok).
  Notation adm_minimal := (adm_minimal es truck_ok vc).

  Definition e_all_beyond (p : point) : Prop := forall c, adm_minimal p c -> beyond t u (gc p (cpt c)).
  Definition e_all_within (p : point) : Prop := forall c, adm_minimal p c -> within t u (gc p (cpt c)).
  Definition e_ranges_ok (p : point) : Prop :=
    in_range p = true /\ forall c, In c es -> in_range (cpt c) = true.

  Lemma edge_process_beyond : forall query src dst,
    read_query mapping query = Ok rcq ->
    get_origin_coordinate query = Ok src -> get_destination_coordinate query = Ok dst ->
    e_all_beyond src \/ (exists d, dst = Some d /\ e_all_beyond d) ->
    edge_process query = (query, Err e_failed).
  Proof.
    intros query src dst Hrc Hs Hd [Hb | [d [-> Hb]]].
    - apply (edge_origin_failure QN fq gc nn_iter es tol mapping lookup truck_ok query rcq src dst _ Hrc Hs Hd).
      exact (match_edge_beyond gc gc_nonneg nn_iter iter_ok es t u lookup truck_ok rcq vc vc_ok src Hb).
    - pose proof (match_edge_beyond gc gc_nonneg nn_iter iter_ok es t u lookup truck_ok rcq vc vc_ok d Hb) as Hmd.
      destruct (match_edge_err_class QN gc nn_iter iter_ok es tol lookup truck_ok rcq vc vc_ok src) as [[s Hv] | He].
      + exact (edge_destination_failure QN fq gc nn_iter es tol mapping lookup truck_ok query rcq src d s _ Hrc Hs Hd Hv Hmd).
      + exact (edge_origin_failure QN fq gc nn_iter es tol mapping lookup truck_ok query rcq src _ _ Hrc Hs Hd He).
  Qed.
  Lemma edge_process_within : forall query src dst c,
    read_query mapping query = Ok rcq ->
    get_origin_coordinate query = Ok src -> get_destination_coordinate query = Ok dst ->
    In c es -> adm truck_ok vc c = true ->
    e_ranges_ok src -> e_all_within src ->
    match dst with None => True | Some d => e_ranges_ok d /\ e_all_within d end ->
    snd (edge_process query) = Ok tt.
  Proof.
    intros query src dst c Hrc Hs Hd Hc Hac [Hr1 Hr2] Hw Hdst.
    destruct (match_edge_within gc gc_nonneg nn_iter iter_ok es t u lookup truck_ok rcq vc vc_ok
                src c Hc Hac Hr1 Hr2 Hw) as [s [Hms _]].
    apply (edge_process_success QN fq gc nn_iter es tol mapping lookup truck_ok query rcq src dst s Hrc Hs Hd Hms).
    destruct dst as [d|]; [|exact I]. destruct Hdst as [[Hd1 Hd2] Hwd].
    destruct (match_edge_within gc gc_nonneg nn_iter iter_ok es t u lookup truck_ok rcq vc vc_ok
                d c Hc Hac Hd1 Hd2 Hwd) as [e [He _]].
    exists e. exact He.
  Qed.
End EdgeTop.

(* ------------------------------------------------------------------ concrete witnesses *)
Local Open Scope Q_scope.
(* a stand-in great-circle distance for the witnesses: 10 km per unit of squared coordinate distance *)
Definition ex_gc (a b : point) : Q := 10000 * d2 b a.
Lemma ex_gc_nonneg : forall a b, 0 <= ex_gc a b.
Proof. intros a b. unfold ex_gc. apply Qmult_le_0_compat; [discriminate | apply d2_nonneg]. Qed.
(* the witnesses carry their coordinates as JSON integers: no JSON float has to be read *)
Definition ex_fq (f : float) : option Q := None.

Definition ex_vs : list cand :=
  [mkCand 7 (0, 0); mkCand 3 (8, 8); mkCand 12 (16, 16); mkCand 5 (8, 0); mkCand 9 (-4, 3)].
Definition ex_p : point := (1, 1).
Definition ex_query : json :=
  JObj [("name", JStr "q1"); ("origin_x", JInt 1); ("origin_y", JInt 1);
        ("origin_vertex", JInt 99); ("weights", JObj [("time", JInt 1)]);
        ("destination_x", JInt 16); ("destination_y", JInt 14); ("k", JArr [JInt 1; JNull])].
(* edges 0..3; the nearest (0) is excluded by the road classes, the next (1) by the vehicle table *)
Definition ex_es : list cand := [mkCand 0 (0, 0); mkCand 1 (2, 0); mkCand 2 (8, 8); mkCand 3 (16, 16)].
Definition ex_lookup : option (list Z) := Some [4; 1; 2; 1]%Z.
Definition ex_truck (c : cand) : bool := negb (Z.eqb (cid c) 1).
Definition ex_equery : json :=
  JObj [("origin_y", JInt 1); ("origin_x", JInt 1); ("road_classes", JArr [JInt 1; JInt 2]);
        ("tag", JStr "t")].

(* ------------------------------------------------------------------ final forms used by Props/C16.v *)
Lemma nearest_minimal_full : forall nn, nn_spec nn ->
  forall (N : Num) (gc : point -> point -> N) vs tol p v,
  match_vertex N gc nn vs tol p = Ok v ->
  In v vs /\ (forall c, In c vs -> d2 (cpt v) p <= d2 (cpt c) p)
  /\ exists m, min_d2 p vs = Some m /\ d2 (cpt v) p == m.
Proof.
  intros nn nn_ok N gc vs tol p v H. pose proof (match_vertex_minimal N gc nn nn_ok vs tol p v H) as Hm.
  split; [exact (proj1 Hm)|]. split; [exact (proj2 Hm)|].
  exact (proj2 (proj1 (minimal_iff_min_d2 p vs v) Hm)).
Qed.

Lemma edge_first_admissible_full : forall nn_iter, iter_spec nn_iter ->
  forall (N : Num) (gc : point -> point -> N) es tol lookup truck_ok rcq vc,
  (forall c, In c es -> valid_class rcq lookup c = Ok (vc c)) ->
  forall p e, match_edge N gc nn_iter es tol lookup truck_ok rcq p = Ok e ->
  In e es /\ adm truck_ok vc e = true
  /\ (forall c, In c es -> adm truck_ok vc c = true -> d2 (cpt e) p <= d2 (cpt c) p)
  /\ exists m, min_d2 p (filter (adm truck_ok vc) es) = Some m /\ d2 (cpt e) p == m.
Proof.
  intros nn_iter iter_ok N gc es tol lookup truck_ok rcq vc Hvc p e H.
  pose proof (match_edge_first_admissible N gc nn_iter iter_ok es tol lookup truck_ok rcq vc Hvc p e H) as Hm.
  pose proof (proj1 (adm_minimal_iff N gc es truck_ok vc p e) Hm) as Hf.
  destruct Hm as [Hin [Ha Hmin]]. repeat (split; [assumption|]).
  exact (proj2 (proj1 (minimal_iff_min_d2 p _ e) Hf)).
Qed.

(* the vertex matcher, all tolerance statements in one *)
Lemma vertex_tolerance_full : forall nn, nn_spec nn ->
  forall (gc : point -> point -> Q), (forall a b, 0 <= gc a b) ->
  forall vs t u p,
  (* beyond => Err, never a match *)
  ((forall c, minimal_in p vs c -> beyond t u (gc p (cpt c))) ->
     match_vertex QN gc nn vs (Some (t, u)) p = Err e_failed)
  /\ (forall v, match_vertex QN gc nn vs (Some (t, u)) p = Ok v -> ~ beyond t u (gc p (cpt v)))
  (* strictly within => a match, and it is a nearest candidate *)
  /\ (vs <> [] -> in_range p = true -> (forall c, In c vs -> in_range (cpt c) = true) ->
      (forall c, minimal_in p vs c -> within t u (gc p (cpt c))) ->
      exists v, match_vertex QN gc nn vs (Some (t, u)) p = Ok v /\ minimal_in p vs v)
  (* no tolerance configured => always a match *)
  /\ (vs <> [] -> exists v, match_vertex QN gc nn vs None p = Ok v /\ minimal_in p vs v).
Proof.
  intros nn nn_ok gc Hgc vs t u p. repeat split.
  - exact (match_vertex_beyond gc Hgc nn nn_ok vs t u p).
  - exact (match_vertex_not_beyond gc Hgc nn vs t u p).
  - exact (match_vertex_within gc Hgc nn nn_ok vs t u p).
  - intros Hne. exact (match_vertex_no_tolerance QN gc nn nn_ok vs p Hne).
Qed.

Lemma edge_tolerance_full : forall nn_iter, iter_spec nn_iter ->
  forall (gc : point -> point -> Q), (forall a b, 0 <= gc a b) ->
  forall es t u lookup truck_ok rcq vc,
  (forall c, In c es -> valid_class rcq lookup c = Ok (vc c)) ->
  forall p,
  ((forall c, adm_minimal es truck_ok vc p c -> beyond t u (gc p (cpt c))) ->
     match_edge QN gc nn_iter es (Some (t, u)) lookup truck_ok rcq p = Err e_failed)
  /\ (forall e, match_edge QN gc nn_iter es (Some (t, u)) lookup truck_ok rcq p = Ok e ->
        ~ beyond t u (gc p (cpt e)))
  /\ (forall c, In c es -> adm truck_ok vc c = true ->
      in_range p = true -> (forall c, In c es -> in_range (cpt c) = true) ->
      (forall c, adm_minimal es truck_ok vc p c -> within t u (gc p (cpt c))) ->
      exists e, match_edge QN gc nn_iter es (Some (t, u)) lookup truck_ok rcq p = Ok e
                /\ adm_minimal es truck_ok vc p e)
  /\ (forall c, In c es -> adm truck_ok vc c = true ->
      exists e, match_edge QN gc nn_iter es None lookup truck_ok rcq p = Ok e
                /\ adm_minimal es truck_ok vc p e).
Proof.
  intros nn_iter iter_ok gc Hgc es t u lookup truck_ok rcq vc Hvc p. repeat split.
  - exact (match_edge_beyond gc Hgc nn_iter iter_ok es t u lookup truck_ok rcq vc Hvc p).
  - exact (match_edge_not_beyond gc Hgc nn_iter iter_ok es t u lookup truck_ok rcq vc Hvc p).
  - exact (match_edge_within gc Hgc nn_iter iter_ok es t u lookup truck_ok rcq vc Hvc p).
  - exact (match_edge_no_tolerance QN gc nn_iter iter_ok es lookup truck_ok rcq vc Hvc p).
Qed.

(* no candidate / no admissible candidate: an error, at the level of process (nothing is written) *)
Lemma vertex_process_no_candidates : forall nn, nn_spec nn ->
  forall (N : Num) fq (gc : point -> point -> N) tol query src dst,
  get_origin_coordinate fq query = Ok src -> get_destination_coordinate fq query = Ok dst ->
  vertex_process N fq gc nn [] tol query = (query, Err e_failed).
Proof.
  intros nn nn_ok N fq gc tol query src dst Hs Hd.
  apply (vertex_origin_failure N fq gc nn [] tol query src dst _ Hs Hd).
  exact (match_vertex_no_candidates N gc nn nn_ok [] tol src eq_refl).
Qed.
Lemma edge_process_no_admissible : forall nn_iter, iter_spec nn_iter ->
  forall (N : Num) fq (gc : point -> point -> N) es tol mapping lookup truck_ok rcq vc,
  (forall c, In c es -> valid_class rcq lookup c = Ok (vc c)) ->
  (forall c, In c es -> adm truck_ok vc c = false) ->
  forall query src dst, read_query mapping query = Ok rcq ->
  get_origin_coordinate fq query = Ok src -> get_destination_coordinate fq query = Ok dst ->
  edge_process N fq gc nn_iter es tol mapping lookup truck_ok query = (query, Err e_failed).
Proof.
  intros nn_iter iter_ok N fq gc es tol mapping lookup truck_ok rcq vc Hvc Hall query src dst Hrc Hs Hd.
  apply (edge_origin_failure N fq gc nn_iter es tol mapping lookup truck_ok query rcq src dst _ Hrc Hs Hd).
  exact (match_edge_no_admissible N gc nn_iter iter_ok es tol lookup truck_ok rcq vc Hvc src Hall).
Qed.

(* other fields, in the form "same value for every other key, same order of the other keys" *)
Lemma vertex_other_fields : forall (N : Num) fq (gc : point -> point -> N) nn vs tol query,
  let q' := fst (vertex_process N fq gc nn vs tol query) in
  others q' = others query
  /\ (forall k, is_match_key k = false -> jget q' k = jget query k)
  /\ (jget query k_origin_edge = jget q' k_origin_edge /\ jget query k_destination_edge = jget q' k_destination_edge).
Proof.
  intros N fq gc nn vs tol query q'. pose proof (vertex_process_others N fq gc nn vs tol query) as H. fold q' in H.
  split; [exact H|]. split; [intros k Hk; exact (others_jget _ _ k H Hk)|].
  subst q'. unfold vertex_process.
  destruct (vertex_origin N fq gc nn vs tol query) as [[q1 dst]| | |] eqn:Eo; try (split; reflexivity).
  destruct (vertex_origin_ok N fq gc nn vs tol _ _ _ Eo) as [src [v [_ [_ [_ Hq1]]]]].
  assert (H1 : forall k, k <> k_origin_vertex -> jget q1 k = jget query k)
    by (intros k Hk; exact (set_field_other _ _ _ _ k Hq1 Hk)).
  destruct (vertex_destination N gc nn vs tol q1 dst) as [q2| | |] eqn:Ed; cbn [finish fst];
    try (split; symmetry; apply H1; discriminate).
  pose proof (vertex_destination_ok N gc nn vs tol _ _ _ Ed) as Hd. destruct dst as [d|].
  - destruct Hd as [w [_ Hq2]].
    split; symmetry; (rewrite (set_field_other _ _ _ _ _ Hq2); [apply H1|]); discriminate.
  - subst q2. split; symmetry; apply H1; discriminate.
Qed.
Lemma edge_other_fields : forall (N : Num) fq (gc : point -> point -> N) nn_iter es tol mapping lookup truck_ok query,
  let q' := fst (edge_process N fq gc nn_iter es tol mapping lookup truck_ok query) in
  others q' = others query
  /\ (forall k, is_match_key k = false -> jget q' k = jget query k).
Proof.
  intros N fq gc nn_iter es tol mapping lookup truck_ok query q'.
  pose proof (edge_process_others N fq gc nn_iter es tol mapping lookup truck_ok query) as H. fold q' in H.
  split; [exact H|]. intros k Hk; exact (others_jget _ _ k H Hk).
Qed.

(* ---- witnesses, computed ---- *)
Lemma ex_vertex_within :
  match_vertex QN ex_gc scan_nearest ex_vs (Some (25, Kilometers)) ex_p = Ok (mkCand 7 (0, 0))
  /\ (forall c, minimal_in ex_p ex_vs c -> within 25 Kilometers (ex_gc ex_p (cpt c)))
  /\ List.length ex_vs = 5%nat.
Proof.
  split; [vm_compute; reflexivity|]. split; [|reflexivity].
  intros c Hc. apply minimisers_spec in Hc. vm_compute in Hc. destruct Hc as [<- | []].
  vm_compute. reflexivity.
Qed.
Lemma ex_vertex_beyond :
  match_vertex QN ex_gc scan_nearest ex_vs (Some (15, Kilometers)) ex_p = Err e_failed
  /\ (forall c, minimal_in ex_p ex_vs c -> beyond 15 Kilometers (ex_gc ex_p (cpt c))).
Proof.
  split; [vm_compute; reflexivity|].
  intros c Hc. apply minimisers_spec in Hc. vm_compute in Hc. destruct Hc as [<- | []].
  vm_compute. reflexivity.
Qed.
Lemma ex_vertex_process :
  vertex_process QN ex_fq ex_gc scan_nearest ex_vs (Some (100, Miles)) ex_query
  = (JObj [("name", JStr "q1"); ("origin_x", JInt 1); ("origin_y", JInt 1);
           ("origin_vertex", JInt 7); ("weights", JObj [("time", JInt 1)]);
           ("destination_x", JInt 16); ("destination_y", JInt 14); ("k", JArr [JInt 1; JNull]);
           ("destination_vertex", JInt 12)]%string, Ok tt).
Proof. vm_compute. reflexivity. Qed.
Lemma ex_edge_skips :
  let vc := fun c => negb (Z.eqb (cid c) 0) in
  read_query [] ex_equery = Ok (Some [1; 2]%Z)
  /\ (forall c, In c ex_es -> valid_class (Some [1; 2]%Z) ex_lookup c = Ok (vc c))
  /\ match_edge QN ex_gc sort_nearest ex_es (Some (1200, Kilometers)) ex_lookup ex_truck (Some [1; 2]%Z) ex_p
     = Ok (mkCand 2 (8, 8))
  /\ adm ex_truck vc (mkCand 0 (0, 0)) = false /\ adm ex_truck vc (mkCand 1 (2, 0)) = false
  /\ fst (edge_process QN ex_fq ex_gc sort_nearest ex_es (Some (1200, Kilometers)) [] ex_lookup ex_truck ex_equery)
     = JObj [("origin_y", JInt 1); ("origin_x", JInt 1);
             ("road_classes", JArr [JInt 1; JInt 2]); ("tag", JStr "t"); ("origin_edge", JInt 2)]%string.
Proof.
  intros vc. split; [vm_compute; reflexivity|]. split.
  - intros c Hc. cbn in Hc. repeat (destruct Hc as [<- | Hc]; [vm_compute; reflexivity|]). destruct Hc.
  - repeat split; vm_compute; reflexivity.
Qed.
