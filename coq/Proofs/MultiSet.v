(* Lemmas about Model/MultiSet.v: the iterator enumerates exactly the Cartesian product, in
   little-endian mixed-radix order, for every family of sets (any number, any sizes, including
   empty sets and the empty family); fuel above the product of the sizes always suffices. *)
From Coq Require Import List Arith Bool String Lia Permutation.
From RC Require Import Base.Res Model.MultiSet.
Import ListNotations.
Import MS.

(* ---------- generic list facts ---------- *)

Lemma nodup_app {A} (l1 l2 : list A) :
  NoDup l1 -> NoDup l2 -> (forall x, In x l1 -> ~ In x l2) -> NoDup (l1 ++ l2).
Proof.
  induction l1 as [|a l1 IH]; intros H1 H2 Hd; cbn; [exact H2|].
  inversion H1 as [|? ? Hna Hl1]; subst. constructor.
  - rewrite in_app_iff. intros [Hin|Hin]; [exact (Hna Hin)|]. exact (Hd a (or_introl eq_refl) Hin).
  - apply IH; [exact Hl1 | exact H2 |]. intros x Hx. apply Hd. right. exact Hx.
Qed.

Lemma nodup_flat_map {B C} (f : B -> list C) (l : list B) :
  NoDup l -> (forall b, In b l -> NoDup (f b)) ->
  (forall b1 b2 c, In b1 l -> In b2 l -> In c (f b1) -> In c (f b2) -> b1 = b2) ->
  NoDup (flat_map f l).
Proof.
  induction l as [|a l IH]; intros Hl Hf Hd; cbn; [constructor|].
  inversion Hl as [|? ? Hna Hl']; subst.
  apply nodup_app.
  - apply Hf. left. reflexivity.
  - apply IH; [exact Hl' | |].
    + intros b Hb. apply Hf. right. exact Hb.
    + intros b1 b2 c H1 H2. apply Hd; right; assumption.
  - intros c Hc Hin. apply in_flat_map in Hin. destruct Hin as [b [Hb Hcb]].
    assert (a = b) as -> by (apply (Hd a b c); [left; reflexivity | right; exact Hb | exact Hc | exact Hcb]).
    exact (Hna Hb).
Qed.

Lemma nodup_map_inj {B C} (f : B -> C) (l : list B) :
  (forall x y, f x = f y -> x = y) -> NoDup l -> NoDup (map f l).
Proof.
  intros Hinj Hl. induction Hl as [|a l Hna Hl IH]; cbn; constructor; [|exact IH].
  rewrite in_map_iff. intros [y [Hy Hin]]. apply Hinj in Hy. subst y. exact (Hna Hin).
Qed.

Lemma skipn_nth_cons {A} (l : list A) n x :
  nth_error l n = Some x -> skipn n l = x :: skipn (S n) l.
Proof.
  revert n. induction l as [|a l IH]; intros [|n] H; cbn in *; try discriminate.
  - injection H as ->. reflexivity.
  - exact (IH n H).
Qed.

(* the j-th element of the v-th block of a flat_map with blocks of constant length n *)
Lemma flat_map_nth_block {B C} (f : B -> list C) n :
  (forall b, List.length (f b) = n) ->
  forall l v j b, nth_error l v = Some b -> j < n ->
  nth_error (flat_map f l) (j + n * v) = nth_error (f b) j.
Proof.
  intros Hlen l. induction l as [|a l IH]; intros [|v] j b Hv Hj; cbn in Hv; try discriminate.
  - injection Hv as ->. cbn [flat_map]. rewrite Nat.mul_0_r, Nat.add_0_r.
    apply nth_error_app1. rewrite Hlen. exact Hj.
  - cbn [flat_map]. rewrite nth_error_app2 by (rewrite Hlen; nia).
    rewrite Hlen. replace (j + n * S v - n) with (j + n * v) by nia.
    exact (IH v j b Hv Hj).
Qed.

Lemma Forall2_flat_map {A B C D} (R : A -> B -> Prop) (Q : C -> D -> Prop) f g l l' :
  Forall2 R l l' -> (forall a b, R a b -> Forall2 Q (f a) (g b)) ->
  Forall2 Q (flat_map f l) (flat_map g l').
Proof.
  intros H Hfg. induction H as [|a b l l' Hab H IH]; cbn; [constructor|].
  apply Forall2_app; [exact (Hfg a b Hab) | exact IH].
Qed.

Lemma Forall2_map_both {A B C D} (Q : C -> D -> Prop) (f : A -> C) (g : B -> D) l l' :
  Forall2 (fun a b => Q (f a) (g b)) l l' -> Forall2 Q (map f l) (map g l').
Proof. intros H. induction H; cbn; constructor; assumption. Qed.

Lemma Forall2_imp {A B} (R Q : A -> B -> Prop) l l' :
  (forall a b, R a b -> Q a b) -> Forall2 R l l' -> Forall2 Q l l'.
Proof. intros HRQ H. induction H; constructor; auto. Qed.

Lemma Forall2_seq_nth {A} (pre s : list A) :
  Forall2 (fun x a => nth_error (pre ++ s) x = Some a) (seq (List.length pre) (List.length s)) s.
Proof.
  revert pre. induction s as [|a s IH]; intros pre; cbn; constructor.
  - rewrite nth_error_app2 by lia. rewrite Nat.sub_diag. reflexivity.
  - specialize (IH (pre ++ [a])). rewrite app_length in IH. cbn in IH.
    rewrite Nat.add_1_r, <- app_assoc in IH. exact IH.
Qed.

(* swapping the two generators of a two-level flat_map *)
Lemma perm_flat_map_cons {B C} (h : B -> C) (k : B -> list C) (l : list B) :
  Permutation (flat_map (fun b => h b :: k b) l) (map h l ++ flat_map k l).
Proof.
  induction l as [|b l IH]; cbn; [constructor|].
  constructor. rewrite IH. rewrite app_assoc.
  rewrite (Permutation_app_comm (k b) (map h l)). rewrite <- app_assoc. reflexivity.
Qed.

Lemma perm_flat_map_swap {A B C} (g : A -> B -> C) (la : list A) (lb : list B) :
  Permutation (flat_map (fun b => map (fun a => g a b) la) lb)
              (flat_map (fun a => map (fun b => g a b) lb) la).
Proof.
  induction la as [|a la IH]; cbn.
  - induction lb; cbn; [constructor | assumption].
  - rewrite perm_flat_map_cons. apply Permutation_app_head. exact IH.
Qed.

Lemma perm_flat_map_ext {A B} (f : A -> list B) l l' :
  Permutation l l' -> Permutation (flat_map f l) (flat_map f l').
Proof.
  intros H. induction H; cbn.
  - constructor.
  - apply Permutation_app_head. assumption.
  - rewrite !app_assoc. apply Permutation_app_tail. apply Permutation_app_comm.
  - etransitivity; eassumption.
Qed.

(* ---------- mixed radix ---------- *)

(* little-endian mixed-radix value of an index vector *)
Fixpoint val (dims p : list nat) : nat :=
  match dims, p with
  | n :: ds, x :: ps => x + n * val ds ps
  | _, _ => 0
  end.
Definition fin (dims : list nat) : list nat := map (fun n => n - 1) dims.

Lemma val_cons n ds x ps : val (n :: ds) (x :: ps) = x + n * val ds ps.
Proof. reflexivity. Qed.
Lemma size_cons n ds : size (n :: ds) = n * size ds.
Proof. reflexivity. Qed.
Lemma inr_cons n ds x ps : in_range (n :: ds) (x :: ps) <-> x < n /\ in_range ds ps.
Proof.
  unfold in_range. split.
  - intros H. inversion H; subst. split; assumption.
  - intros [H1 H2]. constructor; assumption.
Qed.

Lemma val_lt dims p : in_range dims p -> val dims p < size dims.
Proof.
  intros H. induction H as [|n x ds ps Hx H IH]; [cbn; lia|].
  rewrite val_cons, size_cons. nia.
Qed.

Lemma tick_cons x ps n ds :
  tick (x :: ps) (fin (n :: ds)) =
    if x <? n - 1 then Some (S x :: ps)
    else match ps with
         | [] => None
         | _ :: _ => match tick ps (fin ds) with Some q => Some (0 :: q) | None => None end
         end.
Proof. reflexivity. Qed.

(* val (next p) = val p + 1, and the successor stays in range *)
Lemma tick_some dims p q :
  in_range dims p -> p <> [] -> tick p (fin dims) = Some q ->
  in_range dims q /\ val dims q = S (val dims p).
Proof.
  intros H. revert q. induction H as [|n x ds ps Hx H IH]; intros q Hne Ht; [congruence|].
  rewrite tick_cons in Ht. destruct (x <? n - 1) eqn:E.
  - injection Ht as <-. apply Nat.ltb_lt in E. split.
    + apply inr_cons. split; [lia | exact H].
    + rewrite !val_cons. lia.
  - apply Nat.ltb_ge in E. destruct ps as [|y ps']; [discriminate|].
    destruct (tick (y :: ps') (fin ds)) as [q'|] eqn:Et; [|discriminate].
    injection Ht as <-. destruct (IH q' ltac:(discriminate) eq_refl) as [Hr Hv].
    split.
    + apply inr_cons. split; [lia | exact Hr].
    + rewrite !val_cons, Hv. nia.
Qed.

(* the iterator finishes exactly at the last vector *)
Lemma tick_none dims p :
  in_range dims p -> p <> [] -> tick p (fin dims) = None -> S (val dims p) = size dims.
Proof.
  intros H. induction H as [|n x ds ps Hx H IH]; intros Hne Ht; [congruence|].
  rewrite tick_cons in Ht. destruct (x <? n - 1) eqn:E; [discriminate|].
  apply Nat.ltb_ge in E. destruct ps as [|y ps'].
  - inversion H; subst. rewrite val_cons, size_cons. cbn. lia.
  - destruct (tick (y :: ps') (fin ds)) as [q'|] eqn:Et; [discriminate|].
    specialize (IH ltac:(discriminate) eq_refl).
    rewrite val_cons, size_cons, <- IH. nia.
Qed.

(* ---------- the product ---------- *)

Section Product.
  Context {A : Type}.
  Implicit Types (ss : list (list A)) (s : list A).

  Definition dims_of ss : list nat := map (@List.length A) ss.

  Lemma total_size ss : total ss = size (dims_of ss).
  Proof.
    induction ss as [|s ss IH]; [reflexivity|].
    change (List.length s * total ss = List.length s * size (dims_of ss)). rewrite IH. reflexivity.
  Qed.

  Lemma product_cons s ss :
    product (s :: ss) = flat_map (fun tl => map (fun x => x :: tl) s) (product ss).
  Proof. reflexivity. Qed.

  Lemma product_length ss : List.length (product ss) = total ss.
  Proof.
    induction ss as [|s ss IH]; [reflexivity|].
    rewrite product_cons. change (total (s :: ss)) with (List.length s * total ss). rewrite <- IH.
    generalize (product ss) as L. induction L as [|tl L IHL]; cbn; [lia|].
    rewrite app_length, map_length, IHL. lia.
  Qed.

  Lemma product_in ss it : In it (product ss) <-> Forall2 (fun s x => In x s) ss it.
  Proof.
    revert it. induction ss as [|s ss IH]; intros it.
    - cbn. split.
      + intros [<-|[]]. constructor.
      + intros H. inversion H. left. reflexivity.
    - rewrite product_cons, in_flat_map. split.
      + intros [tl [Htl Hin]]. apply in_map_iff in Hin. destruct Hin as [x [<- Hx]].
        constructor; [exact Hx | apply IH; exact Htl].
      + intros H. inversion H as [|? x ? tl Hx Htl]; subst. exists tl. split; [apply IH; exact Htl|].
        apply in_map_iff. exists x. split; [reflexivity | exact Hx].
  Qed.

  Lemma product_nodup ss : Forall (@NoDup A) ss -> NoDup (product ss).
  Proof.
    intros H. induction H as [|s ss Hs H IH]; [cbn; constructor; [intros [] | constructor]|].
    rewrite product_cons. apply nodup_flat_map; [exact IH | |].
    - intros tl _. apply nodup_map_inj; [|exact Hs]. intros x y E. injection E as ->. reflexivity.
    - intros t1 t2 c _ _ H1 H2. apply in_map_iff in H1. apply in_map_iff in H2.
      destruct H1 as [x1 [<- _]]. destruct H2 as [x2 [E _]]. injection E as _ ->. reflexivity.
  Qed.

  Lemma product_empty ss : existsb is_nil ss = true -> product ss = [].
  Proof.
    induction ss as [|s ss IH]; cbn [existsb]; [discriminate|].
    rewrite product_cons. destruct s as [|a s]; cbn [is_nil orb].
    - intros _. clear IH. generalize (product ss) as L. intros L.
      induction L as [|x L IHL]; cbn; [reflexivity | exact IHL].
    - intros H. rewrite (IH H). reflexivity.
  Qed.

  (* same multiset as the textbook (first set slowest) product, duplicates included *)
  Lemma product_perm_be ss : Permutation (product ss) (product_be ss).
  Proof.
    induction ss as [|s ss IH]; [reflexivity|].
    rewrite product_cons. cbn [product_be].
    rewrite (perm_flat_map_ext _ _ _ IH).
    exact (perm_flat_map_swap (fun x tl => x :: tl) s (product_be ss)).
  Qed.

  (* the vector with mixed-radix value v sits at position v of the product *)
  Lemma pick_nth ss p :
    in_range (dims_of ss) p ->
    exists it, pick_all ss p = Ok it /\ nth_error (product ss) (val (dims_of ss) p) = Some it.
  Proof.
    revert p. induction ss as [|s ss IH]; intros p H.
    - inversion H; subst. exists []. split; reflexivity.
    - cbn [dims_of map] in H. fold (dims_of ss) in H.
      destruct p as [|j p]; [inversion H|]. apply inr_cons in H. destruct H as [Hj H].
      destruct (IH p H) as [it [Hp Hn]].
      destruct (nth_error s j) as [a|] eqn:Ej; [|apply nth_error_None in Ej; lia].
      exists (a :: it). split.
      + cbn [pick_all]. rewrite Ej, Hp. reflexivity.
      + rewrite product_cons. cbn [dims_of map]. fold (dims_of ss). rewrite val_cons.
        rewrite (flat_map_nth_block (fun tl => map (fun x => x :: tl) s) (List.length s)
                   (fun b => map_length _ _) (product ss) _ j it Hn Hj).
        exact (map_nth_error (fun x => x :: it) j s Ej).
  Qed.

  (* iteration from an in-range position yields the rest of the product *)
  Lemma collect_from ss : ss <> [] ->
    forall fuel p, in_range (dims_of ss) p ->
      size (dims_of ss) - val (dims_of ss) p < fuel ->
      collect fuel (mk ss (Some p) (fin (dims_of ss))) = Ok (skipn (val (dims_of ss) p) (product ss)).
  Proof.
    intros Hss fuel. induction fuel as [|fuel IH]; intros p Hr Hf; [lia|].
    pose proof (val_lt _ _ Hr) as Hlt.
    destruct (pick_nth ss p Hr) as [it [Hp Hn]].
    assert (Hpne : p <> []).
    { destruct ss; [congruence|]. inversion Hr; discriminate. }
    cbn [collect]. unfold next. cbn [pos sets final_pos]. rewrite Hp. cbn [bind].
    rewrite (skipn_nth_cons _ _ _ Hn).
    destruct (tick p (fin (dims_of ss))) as [q|] eqn:Et.
    - destruct (tick_some _ _ _ Hr Hpne Et) as [Hq Hv].
      replace (is_nil ss) with false by (destruct ss; [congruence | reflexivity]).
      rewrite (IH q Hq) by lia. cbn [bind]. rewrite Hv. reflexivity.
    - pose proof (tick_none _ _ Hr Hpne Et) as Hv.
      destruct fuel as [|fuel]; [lia|]. cbn [collect next pos bind].
      rewrite Hv, <- total_size, <- product_length, skipn_all. reflexivity.
  Qed.

  Lemma zeros_in_range ss :
    existsb is_nil ss = false -> in_range (dims_of ss) (repeat 0 (List.length ss)).
  Proof.
    induction ss as [|s ss IH]; cbn [existsb]; intros H; [constructor|].
    apply orb_false_elim in H. destruct H as [Hs H].
    cbn [dims_of map List.length repeat]. apply inr_cons. split; [|exact (IH H)].
    destruct s; [discriminate | cbn; lia].
  Qed.

  Lemma val_zeros dims n : val dims (repeat 0 n) = 0.
  Proof.
    revert n. induction dims as [|d ds IH]; intros [|n]; cbn [repeat val]; try reflexivity.
    rewrite IH. lia.
  Qed.

  (* MultiSet::from(sets).into_iter().collect() = the product, for EVERY family of sets;
     never a panic, never out of fuel once fuel exceeds the product of the sizes *)
  Theorem collect_ok ss fuel : total ss < fuel -> collect fuel (from ss) = Ok (product ss).
  Proof.
    intros Hf. destruct ss as [|s0 ss0] eqn:Ess.
    - destruct fuel as [|[|fuel]]; cbn in Hf; try lia. reflexivity.
    - rewrite <- Ess in *. assert (Hne : ss <> []) by (rewrite Ess; discriminate).
      unfold from. destruct (existsb is_nil ss) eqn:Eex.
      + rewrite (product_empty _ Eex). destruct fuel; [lia | reflexivity].
      + replace (map (fun v => List.length v - 1) ss) with (fin (dims_of ss))
          by (unfold fin, dims_of; rewrite map_map; reflexivity).
        rewrite (collect_from ss Hne fuel _ (zeros_in_range ss Eex)).
        * rewrite val_zeros. reflexivity.
        * rewrite val_zeros, <- total_size. lia.
  Qed.

  Corollary to_vec_ok ss : to_vec ss = Ok (product ss).
  Proof. apply collect_ok. lia. Qed.

  (* index vectors and items: [sel ss p it] = reading the sets at the index vector p gives it *)
  Inductive sel : list (list A) -> list nat -> list A -> Prop :=
  | sel_nil : sel [] [] []
  | sel_cons s ss j p a it : nth_error s j = Some a -> sel ss p it -> sel (s :: ss) (j :: p) (a :: it).

  (* the product of the index sets, read through the sets, is the product of the sets *)
  Lemma product_index_rel ss :
    Forall2 (sel ss) (product (index_sets (dims_of ss))) (product ss).
  Proof.
    induction ss as [|s ss IH]; [repeat constructor|].
    cbn [dims_of map index_sets]. fold (dims_of ss). fold (index_sets (dims_of ss)).
    rewrite !product_cons.
    apply (Forall2_flat_map _ _ _ _ _ _ IH). intros tl it Htl.
    apply Forall2_map_both.
    pose proof (Forall2_seq_nth [] s) as Hs. cbn [List.length app] in Hs.
    eapply Forall2_imp; [|exact Hs]. intros x a Hx. constructor; assumption.
  Qed.

  Lemma product_nonempty ss : existsb is_nil ss = false -> product ss <> [].
  Proof.
    intros H E. pose proof (product_length ss) as HL. rewrite E in HL. cbn in HL.
    induction ss as [|s ss IH]; [cbn in HL; lia|].
    cbn [existsb] in H. apply orb_false_elim in H. destruct H as [Hs H].
    change (total (s :: ss)) with (List.length s * total ss) in HL.
    destruct s; [discriminate|]. cbn in HL.
    apply IH; [exact H | | lia].
    destruct (product ss) eqn:Ep; [reflexivity|]. exfalso.
    pose proof (product_length ss) as HL2. rewrite Ep in HL2. cbn in HL2. lia.
  Qed.
End Product.

(* ---------- index vectors ---------- *)

Lemma dims_of_index_sets dims : dims_of (index_sets dims) = dims.
Proof.
  unfold dims_of, index_sets. rewrite map_map. rewrite <- (map_id dims) at 2.
  apply map_ext. intros n. apply seq_length.
Qed.

Lemma index_product_in dims p : In p (product (index_sets dims)) <-> in_range dims p.
Proof.
  rewrite product_in. unfold in_range, index_sets. revert p.
  induction dims as [|n ds IH]; intros p; cbn [map].
  - split; intros H; inversion H; constructor.
  - split; intros H; inversion H as [|? x ? tl Hx Htl]; subst; constructor.
    + apply in_seq in Hx. lia.
    + apply IH. exact Htl.
    + apply in_seq. lia.
    + apply IH. exact Htl.
Qed.

Lemma index_product_nodup dims : NoDup (product (index_sets dims)).
Proof.
  apply product_nodup. unfold index_sets. apply Forall_forall. intros s Hs.
  apply in_map_iff in Hs. destruct Hs as [n [<- _]]. apply seq_NoDup.
Qed.

Lemma index_product_length dims : List.length (product (index_sets dims)) = size dims.
Proof. rewrite product_length, total_size, dims_of_index_sets. reflexivity. Qed.
