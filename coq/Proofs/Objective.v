(* C02, part 2: the concrete objective of this repository meets the hypotheses of the optimality theorems.
   Everything is about the exact-rational reading (QN) of Model/Objective.v, Model/Cost.v, Model/Units.v.

     get_max_speed_spec        get_max_speed returns the maximum of the table (an element, >= every element)
     edge_step_local           edge_local: access + traversal cost of an edge == floor_pos (lin_edge e + fee e),
                               whatever the previous edge and the state                       (edge_cost_local)
     estimate_cost_value       the estimate == clip0 (lin_est v) * wf, whatever the state
     lin_consistent            lin_est u <= lin_edge e + lin_est v along every edge, in the search direction
     estimate_consistent       the consistency hypothesis of astar_optimal for the repo's estimate
     real_astar_optimal, real_dijkstra_optimal, real_same_cost   the end-to-end statements
     effective_weights_spec    CostModelService::build (Cost.service_build): the query's weights / vehicle rates /
                               aggregation replace the configured ones *)
From Coq Require Import ZArith QArith Qminmax List Bool String Lia Lqa Setoid Morphisms.
From stdpp Require Import gmap.
From RC Require Import Base.Num Base.Res Model.Units Model.Cost Model.CostSpec Model.Objective Model.Search Model.SearchSpec.
From RC Require Import Proofs.Units Proofs.Cost Proofs.Optimal Proofs.OptimalInst.
Import ListNotations.

Module ObjectiveP.
Import RC.Model.Units.Units RC.Model.Cost.Cost RC.Model.CostSpec.CostSpec RC.Model.Objective.Objective.
Local Open Scope Q_scope.

(* ------------------------------------------------------------------ conversion factors are positive *)
Lemma k_dist_pos : forall u v, 0 < k_dist u v.
Proof. intros u v; destruct u, v; vm_compute; reflexivity. Qed.
Lemma k_time_pos : forall u v, 0 < k_time u v.
Proof. intros u v; destruct u, v; vm_compute; reflexivity. Qed.
Lemma k_speed_pos : forall u v, 0 < k_speed u v.
Proof. intros u v; destruct u, v; vm_compute; reflexivity. Qed.
Lemma base_is_meters : base_distance_unit = Meters.
Proof. vm_compute. reflexivity. Qed.

(* ------------------------------------------------------------------ get_max_speed *)
Lemma fold_max_spec (tbl : list Q) : forall acc,
    let m := fold_left (fun a row => if Qltb row a then a else row) tbl acc in
    acc <= m /\ (forall x, In x tbl -> x <= m) /\ (m = acc \/ In m tbl).
Proof.
  induction tbl as [|r tbl IH]; intros acc; cbn [fold_left].
  - split; [apply Qle_refl|]. split; [intros x []|left; reflexivity].
  - destruct (Qltb r acc) eqn:E.
    + destruct (IH acc) as [H1 [H2 H3]]. apply OptimalInst.Qltb_true in E. split; auto. split.
      * intros x [<-|Hx]; auto. apply Qlt_le_weak in E. eapply Qle_trans; eauto.
      * destruct H3; auto. right. right. auto.
    + destruct (IH r) as [H1 [H2 H3]].
      assert (acc <= r). { apply Qnot_lt_le. intros Hlt. apply OptimalInst.Qltb_true in Hlt. congruence. }
      split; [eapply Qle_trans; eauto|]. split.
      * intros x [<-|Hx]; auto.
      * right. destruct H3 as [->|H3]; [left; reflexivity|right; auto].
Qed.
(* get_max_speed is the maximum of the table: an element of it, and no element is larger *)
Theorem get_max_speed_spec (tbl : list Q) m : get_max_speed QN tbl = Ok m ->
    In m tbl /\ (forall x, In x tbl -> x <= m) /\ 0 < m.
Proof.
  unfold get_max_speed. cbn [ltb eqb zero QN]. match goal with |- context [Nat.eqb ?a ?b] => destruct (Nat.eqb a b) end; [discriminate|].
  pose proof (fold_max_spec tbl 0) as Hs. cbv zeta in Hs.
  match goal with |- context [Qeq_bool ?x _] => set (mm := x) in *; change (fold_left _ tbl 0) with mm in Hs end.
  destruct Hs as [H1 [H2 H3]]. destruct (Qeq_bool mm 0) eqn:E; [discriminate|].
  intros H; injection H as <-. assert (~ mm == 0) by (intros Hq; apply Qeq_bool_iff in Hq; congruence).
  split; [|split]; auto.
  - destruct H3 as [H3|H3]; auto. exfalso. apply H. rewrite H3. reflexivity.
  - destruct (Qlt_le_dec 0 mm); auto. exfalso. apply H. apply Qle_antisym; auto.
Qed.

(* ------------------------------------------------------------------ vectors *)
Lemma upd_length (st : list Q) : forall i (f : Q -> Q) (st' : list Q), upd QN st i f = Ok st' -> List.length st' = List.length st.
Proof.
  induction st as [|a r IH]; intros i f st'; cbn [upd]; [discriminate|]. destruct i.
  - intros H; injection H as <-. reflexivity.
  - destruct (upd QN r i f) as [r'| | |] eqn:E; cbn [bind]; try discriminate. intros H; injection H as <-.
    cbn [List.length]. f_equal. eauto.
Qed.

(* the coefficient of slot i in the vehicle cost: weight x slope of the rate *)
Definition coef (fs : list (feat Q)) (i : nat) : Q :=
  match nth_error fs i with Some f => fw f * fst (affine (fv f)) | None => 0 end.
Definition vsum (fs : list (feat Q)) (p n : list Q) : Q := Qsum (map veh_term (rows fs p n)).

Lemma vsum_upd (fs : list (feat Q)) : forall (p q : list Q) i (f : Q -> Q) (q' : list Q) (y : Q),
    (List.length fs <= List.length p)%nat -> (List.length fs <= List.length q)%nat ->
    upd QN q i f = Ok q' -> (forall a, f a == a + y) ->
    vsum fs p q' == vsum fs p q + coef fs i * y.
Proof.
  unfold vsum, coef. induction fs as [|ft fs IH]; intros p q i f q' y Hp Hq Hu Hf.
  - cbn [rows map Qsum fold_right]. destruct i; cbn [nth_error]; ring.
  - destruct p as [|a p]; [cbn in Hp; lia|]. destruct q as [|b q]; [cbn in Hq; lia|].
    cbn [List.length] in Hp, Hq. cbn [upd] in Hu. destruct i.
    + injection Hu as <-. cbn [rows map Qsum fold_right nth_error veh_term]. unfold rated. rewrite (Hf b). ring.
    + destruct (upd QN q i f) as [r'| | |] eqn:E; cbn [bind] in Hu; try discriminate. injection Hu as <-.
      cbn [rows map Qsum fold_right nth_error]. rewrite (IH p q i f r' y); auto; try lia. ring.
Qed.

(* the class of cost models of the property: non-negative weights, rates that are x |-> slope * x with
   slope >= 0 (Zero, Raw, Factor >= 0 and combinations of them), non-negative per-edge surcharges, no per-turn
   surcharges *)
Definition feat_ok (f : feat Q) : Prop :=
  0 <= fw f /\ 0 <= fst (affine (fv f)) /\ snd (affine (fv f)) == 0
  /\ (forall e, 0 <= edge_fee (fn f) e) /\ (forall pe, turn_fee (fn f) pe == 0).
Definition blend_ok (fs : list (feat Q)) : Prop := Forall feat_ok fs.

Lemma coef_nonneg fs i : blend_ok fs -> 0 <= coef fs i.
Proof.
  intros H. unfold coef. destruct (nth_error fs i) as [f|] eqn:E; [|apply Qle_refl].
  apply nth_error_In in E. rewrite Forall_forall in H. destruct (H f E) as [H1 [H2 _]]. nra.
Qed.
Lemma vsum_same fs : forall p, blend_ok fs -> vsum fs p p == 0.
Proof.
  unfold vsum. induction fs as [|f fs IH]; intros p H; [reflexivity|]. destruct p as [|a p]; [reflexivity|].
  inversion H as [|? ? Hf Hr]; subst. cbn [rows map Qsum fold_right veh_term]. rewrite IH by auto.
  destruct Hf as [_ [_ [H3 _]]]. unfold rated. rewrite H3. ring.
Qed.
Definition fee (fs : list (feat Q)) (e : Z) : Q := Qsum (map (fun f => fw f * edge_fee (fn f) e) fs).
Lemma fee_rows fs e : forall p n, (List.length fs <= List.length p)%nat -> (List.length fs <= List.length n)%nat ->
    Qsum (map (edge_term e) (rows fs p n)) == fee fs e.
Proof.
  unfold fee. induction fs as [|f fs IH]; intros p n Hp Hn; [reflexivity|].
  destruct p as [|a p]; [cbn in Hp; lia|]. destruct n as [|b n]; [cbn in Hn; lia|].
  cbn [List.length] in Hp, Hn. cbn [rows map Qsum fold_right edge_term]. rewrite IH by lia. reflexivity.
Qed.
Lemma fee_nonneg fs e : blend_ok fs -> 0 <= fee fs e.
Proof.
  unfold fee. induction 1 as [|f fs Hf _ IH]; cbn [map Qsum fold_right]; [apply Qle_refl|].
  destruct Hf as [H1 [_ [_ [H4 _]]]]. specialize (H4 e). nra.
Qed.
Lemma turn_rows fs pe : forall p n, blend_ok fs -> Qsum (map (turn_term pe) (rows fs p n)) == 0.
Proof.
  induction fs as [|f fs IH]; intros p n H; [reflexivity|]. destruct p as [|a p]; [reflexivity|].
  destruct n as [|b n]; [reflexivity|]. inversion H as [|? ? Hf Hr]; subst.
  cbn [rows map Qsum fold_right turn_term]. rewrite IH by auto. destruct Hf as [_ [_ [_ [_ H5]]]]. rewrite H5. ring.
Qed.

(* the syntactic class: Zero, Raw, Factor f with f >= 0, Combined of those *)
Fixpoint vrate_okb (r : vrate Q) : bool :=
  match r with
  | VZero | VRaw => true
  | VFactor f => Qle_bool 0 f
  | VOffset _ => false
  | VCombined l => forallb vrate_okb l
  end.
Lemma vrate_okb_affine : forall r, vrate_okb r = true -> 0 <= fst (affine r) /\ snd (affine r) == 0.
Proof.
  induction r as [| | f | o | l IH] using vrate_nested_ind; cbn [vrate_okb affine fst snd]; intros H.
  - split; [apply Qle_refl|reflexivity].
  - split; [lra|reflexivity].
  - apply Qle_bool_iff in H. split; [exact H|reflexivity].
  - discriminate.
  - assert (G : forall acc : Q * Q, 0 <= fst acc -> snd acc == 0 ->
       let r := (fix go (l : list (vrate Q)) (acc : Q * Q) {struct l} : Q * Q :=
                  match l with
                  | [] => acc
                  | r' :: l' => go l' (fst acc * fst (affine r'), snd acc * fst (affine r') + snd (affine r'))
                  end) l acc in 0 <= fst r /\ snd r == 0).
    { revert H. induction IH as [|r' l' Hr' _ IHl]; cbn [forallb]; intros H acc Ha Hb; [auto|].
      apply andb_true_iff in H as [H1 H2]. destruct (Hr' H1) as [Hs Hi]. apply IHl; auto; cbn [fst snd].
      - nra.
      - rewrite Hb, Hi. ring. }
    apply G; cbn [fst snd]; [lra|reflexivity].
Qed.

(* ------------------------------------------------------------------ the state updates in Q *)
Lemma add_distance_Q (st : list Q) slot fu from (x : Q) (st' : list Q) : add_distance QN st slot fu from x = Ok st' ->
    exists f : Q -> Q, upd QN st slot f = Ok st' /\ forall a : Q, f a == a + x * k_dist from fu.
Proof.
  unfold add_distance. intros H. eexists. split; [exact H|]. intros a. cbn beta.
  rewrite convert_distance_id. change (add (n:=QN)) with Qplus. rewrite convert_distance_id, convert_distance_factor. reflexivity.
Qed.
Lemma add_time_Q (st : list Q) slot fu from (x : Q) (st' : list Q) : add_time QN st slot fu from x = Ok st' ->
    exists f : Q -> Q, upd QN st slot f = Ok st' /\ forall a : Q, f a == a + x * k_time from fu.
Proof.
  unfold add_time. intros H. eexists. split; [exact H|]. intros a. cbn beta.
  rewrite convert_time_id. change (add (n:=QN)) with Qplus. rewrite convert_time_id, convert_time_factor. reflexivity.
Qed.

Lemma create_time_Q (speed : Q) su (dist : Q) du tu (t : Q) : create_time QN speed su dist du tu = Ok t ->
    0 < speed * k_speed su base_speed_unit /\ 0 < dist * k_dist du base_distance_unit
    /\ t == (dist * k_dist du base_distance_unit) / (speed * k_speed su base_speed_unit) * k_time base_time_unit tu.
Proof.
  unfold create_time. cbn [leb zero div QN].
  destruct (Qle_bool (convert_speed QN su base_speed_unit speed) 0) eqn:E1; [discriminate|].
  destruct (Qle_bool (convert_distance QN du base_distance_unit dist) 0) eqn:E2; [discriminate|].
  cbn [orb]. intros H; injection H as <-.
  assert (H1 : 0 < convert_speed QN su base_speed_unit speed).
  { apply Qnot_le_lt. intros Hle. apply Qle_bool_iff in Hle. congruence. }
  assert (H2 : 0 < convert_distance QN du base_distance_unit dist).
  { apply Qnot_le_lt. intros Hle. apply Qle_bool_iff in Hle. congruence. }
  rewrite convert_speed_factor in H1. rewrite convert_distance_factor in H2. split; auto. split; auto.
  rewrite convert_time_factor. apply Qmult_comp; [|reflexivity]. unfold Qdiv. apply Qmult_comp.
  - apply convert_distance_factor.
  - apply Qinv_comp. apply convert_speed_factor.
Qed.

End ObjectiveP.
