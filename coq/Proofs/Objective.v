(* C02, part 2: the concrete objective of this repository meets the hypotheses of the optimality theorems.
   Everything is about the exact-rational reading (QN) of Model/Objective.v, Model/Cost.v, Model/Units.v.

     get_max_speed_spec        get_max_speed returns the maximum of the table (an element, >= every element)
     edge_step_local           edge_local: access + traversal cost of an edge == floor_pos (lin_edge e + fee e),
                               whatever the previous edge and the state                       (edge_cost_local)
     estimate_cost_value       the estimate == clip0 (lin_est v) * wf, whatever the state
     lin_consistent            lin_est u <= lin_edge e + lin_est v along every edge, in the search direction
     estimate_consistent       the consistency hypothesis of astar_optimal for the repo's estimate
     real_astar_optimal, real_dijkstra_optimal, real_same_cost   the end-to-end statements
     effective_weights_spec    CostModelService::build (Cost.service_build): the query's weights / vehicle rates /
                               aggregation replace the configured ones *)
From Coq Require Import ZArith QArith Qminmax List Bool String Lia Lqa Setoid Morphisms.
From stdpp Require Import gmap.
From RC Require Import Base.Num Base.Res Model.Units Model.Cost Model.CostSpec Model.Objective Model.Search Model.SearchSpec.
From RC Require Import Proofs.Units Proofs.Cost Proofs.Optimal Proofs.OptimalInst.
Import ListNotations.

Module ObjectiveP.
Import RC.Model.Units.Units RC.Model.Cost.Cost RC.Model.CostSpec.CostSpec RC.Model.Objective.Objective.
Local Open Scope Q_scope.
(* [ring] reports "not a valid ring equation" when the context holds a hypothesis such as [forall a, f a == a + y]
   (observed with Coq 8.16.1); [qring] retries after clearing every hypothesis the goal does not mention *)
Ltac qring := first [ring | (repeat match goal with H : _ |- _ => clear H end); ring].

(* ------------------------------------------------------------------ conversion factors are positive *)
Lemma k_dist_pos : forall u v, 0 < k_dist u v.
Proof. intros u v; destruct u, v; vm_compute; reflexivity. Qed.
Lemma k_time_pos : forall u v, 0 < k_time u v.
Proof. intros u v; destruct u, v; vm_compute; reflexivity. Qed.
Lemma k_speed_pos : forall u v, 0 < k_speed u v.
Proof. intros u v; destruct u, v; vm_compute; reflexivity. Qed.
Lemma base_is_meters : base_distance_unit = Meters.
Proof. vm_compute. reflexivity. Qed.

(* ------------------------------------------------------------------ get_max_speed *)
Lemma fold_max_spec (tbl : list Q) : forall acc,
    let m := fold_left (fun a row => if Qltb row a then a else row) tbl acc in
    acc <= m /\ (forall x, In x tbl -> x <= m) /\ (m = acc \/ In m tbl).
Proof.
  induction tbl as [|r tbl IH]; intros acc; cbn [fold_left].
  - split; [apply Qle_refl|]. split; [intros x []|left; reflexivity].
  - destruct (Qltb r acc) eqn:E.
    + destruct (IH acc) as [H1 [H2 H3]]. apply OptimalInst.Qltb_true in E. split; auto. split.
      * intros x [<-|Hx]; auto. apply Qlt_le_weak in E. eapply Qle_trans; eauto.
      * destruct H3; auto. right. right. auto.
    + destruct (IH r) as [H1 [H2 H3]].
      assert (acc <= r). { apply Qnot_lt_le. intros Hlt. apply OptimalInst.Qltb_true in Hlt. congruence. }
      split; [eapply Qle_trans; eauto|]. split.
      * intros x [<-|Hx]; auto.
      * right. destruct H3 as [->|H3]; [left; reflexivity|right; auto].
Qed.
(* get_max_speed is the maximum of the table: an element of it, and no element is larger *)
Theorem get_max_speed_spec (tbl : list Q) m : get_max_speed QN tbl = Ok m ->
    In m tbl /\ (forall x, In x tbl -> x <= m) /\ 0 < m.
Proof.
  unfold get_max_speed. cbn [ltb eqb zero QN]. match goal with |- context [Nat.eqb ?a ?b] => destruct (Nat.eqb a b) end; [discriminate|].
  pose proof (fold_max_spec tbl 0) as Hs. cbv zeta in Hs.
  match goal with |- context [Qeq_bool ?x _] => set (mm := x) in *; change (fold_left _ tbl 0) with mm in Hs end.
  destruct Hs as [H1 [H2 H3]]. destruct (Qeq_bool mm 0) eqn:E; [discriminate|].
  intros H; injection H as <-. assert (~ mm == 0) by (intros Hq; apply Qeq_bool_iff in Hq; congruence).
  split; [|split]; auto.
  - destruct H3 as [H3|H3]; auto. exfalso. apply H. rewrite H3. reflexivity.
  - destruct (Qlt_le_dec 0 mm); auto. exfalso. apply H. apply Qle_antisym; auto.
Qed.

(* ------------------------------------------------------------------ vectors *)
Lemma upd_length (st : list Q) : forall i (f : Q -> Q) (st' : list Q), upd QN st i f = Ok st' -> List.length st' = List.length st.
Proof.
  induction st as [|a r IH]; intros i f st'; cbn [upd]; [discriminate|]. destruct i.
  - intros H; injection H as <-. reflexivity.
  - destruct (upd QN r i f) as [r'| | |] eqn:E; cbn [bind]; try discriminate. intros H; injection H as <-.
    cbn [List.length]. f_equal. eauto.
Qed.

(* the coefficient of slot i in the vehicle cost: weight x slope of the rate *)
Definition coef (fs : list (feat Q)) (i : nat) : Q :=
  match nth_error fs i with Some f => fw f * fst (affine (fv f)) | None => 0 end.
Definition vsum (fs : list (feat Q)) (p n : list Q) : Q := Qsum (map veh_term (rows fs p n)).

Lemma vsum_upd (fs : list (feat Q)) : forall (p q : list Q) i (f : Q -> Q) (q' : list Q) (y : Q),
    (List.length fs <= List.length p)%nat -> (List.length fs <= List.length q)%nat ->
    upd QN q i f = Ok q' -> (forall a, f a == a + y) ->
    vsum fs p q' == vsum fs p q + coef fs i * y.
Proof.
  unfold vsum, coef, Qsum. induction fs as [|ft fs IH]; intros p q i f q' y Hp Hq Hu Hf.
  - cbn [rows map Qsum fold_right]. destruct i; cbn [nth_error]; qring.
  - destruct p as [|a p]; [cbn in Hp; lia|]. destruct q as [|b q]; [cbn in Hq; lia|].
    cbn [List.length] in Hp, Hq. cbn [upd] in Hu. destruct i.
    + injection Hu as <-. cbn [rows map Qsum fold_right nth_error veh_term]. unfold rated. rewrite (Hf b). qring.
    + destruct (upd QN q i f) as [r'| | |] eqn:E; cbn [bind] in Hu; try discriminate. injection Hu as <-.
      cbn [rows map Qsum fold_right nth_error]. rewrite (IH p q i f r' y ltac:(lia) ltac:(lia) E Hf). qring.
Qed.

(* the class of cost models of the property: non-negative weights, rates that are x |-> slope * x with
   slope >= 0 (Zero, Raw, Factor >= 0 and combinations of them), non-negative per-edge surcharges, no per-turn
   surcharges *)
Definition feat_ok (f : feat Q) : Prop :=
  0 <= fw f /\ 0 <= fst (affine (fv f)) /\ snd (affine (fv f)) == 0
  /\ (forall e, 0 <= edge_fee (fn f) e) /\ (forall pe, turn_fee (fn f) pe == 0).
Definition blend_ok (fs : list (feat Q)) : Prop := Forall feat_ok fs.

Lemma coef_nonneg fs i : blend_ok fs -> 0 <= coef fs i.
Proof.
  intros H. unfold coef. destruct (nth_error fs i) as [f|] eqn:E; [|apply Qle_refl].
  apply nth_error_In in E. unfold blend_ok in H. rewrite List.Forall_forall in H. destruct (H f E) as [H1 [H2 _]]. nra.
Qed.
Lemma vsum_same fs : forall p, blend_ok fs -> vsum fs p p == 0.
Proof.
  unfold vsum, Qsum. induction fs as [|f fs IH]; intros p H; [reflexivity|]. destruct p as [|a p]; [reflexivity|].
  inversion H as [|? ? Hf Hr]; subst. cbn [rows map Qsum fold_right veh_term]. rewrite IH by auto.
  destruct Hf as [_ [_ [H3 _]]]. unfold rated. rewrite H3. qring.
Qed.
Definition fee (fs : list (feat Q)) (e : Z) : Q := Qsum (map (fun f => fw f * edge_fee (fn f) e) fs).
Lemma fee_rows fs e : forall p n, (List.length fs <= List.length p)%nat -> (List.length fs <= List.length n)%nat ->
    Qsum (map (edge_term e) (rows fs p n)) == fee fs e.
Proof.
  unfold fee, Qsum. induction fs as [|f fs IH]; intros p n Hp Hn; [reflexivity|].
  destruct p as [|a p]; [cbn in Hp; lia|]. destruct n as [|b n]; [cbn in Hn; lia|].
  cbn [List.length] in Hp, Hn. cbn [rows map Qsum fold_right edge_term]. rewrite IH by lia. reflexivity.
Qed.
Lemma fee_nonneg fs e : blend_ok fs -> 0 <= fee fs e.
Proof.
  unfold fee, Qsum. induction 1 as [|f fs Hf _ IH]; cbn [map Qsum fold_right]; [apply Qle_refl|].
  destruct Hf as [H1 [_ [_ [H4 _]]]]. specialize (H4 e). nra.
Qed.
Lemma turn_rows fs pe : forall p n, blend_ok fs -> Qsum (map (turn_term pe) (rows fs p n)) == 0.
Proof.
  unfold Qsum. induction fs as [|f fs IH]; intros p n H; [reflexivity|]. destruct p as [|a p]; [reflexivity|].
  destruct n as [|b n]; [reflexivity|]. inversion H as [|? ? Hf Hr]; subst.
  cbn [rows map Qsum fold_right turn_term]. rewrite IH by auto. destruct Hf as [_ [_ [_ [_ H5]]]]. rewrite H5. qring.
Qed.

(* the syntactic class: Zero, Raw, Factor f with f >= 0, Combined of those *)
Fixpoint vrate_okb (r : vrate Q) : bool :=
  match r with
  | VZero | VRaw => true
  | VFactor f => Qle_bool 0 f
  | VOffset _ => false
  | VCombined l => forallb vrate_okb l
  end.
Lemma vrate_okb_affine : forall r, vrate_okb r = true -> 0 <= fst (affine r) /\ snd (affine r) == 0.
Proof.
  induction r as [| | f | o | l IH] using vrate_nested_ind; cbn [vrate_okb affine fst snd]; intros H.
  - split; [apply Qle_refl|reflexivity].
  - split; [lra|reflexivity].
  - apply Qle_bool_iff in H. split; [exact H|reflexivity].
  - discriminate.
  - assert (G : forall acc : Q * Q, 0 <= fst acc -> snd acc == 0 ->
       let r := (fix go (l : list (vrate Q)) (acc : Q * Q) {struct l} : Q * Q :=
                  match l with
                  | [] => acc
                  | r' :: l' => go l' (fst acc * fst (affine r'), snd acc * fst (affine r') + snd (affine r'))
                  end) l acc in 0 <= fst r /\ snd r == 0).
    { revert H. induction IH as [|r' l' Hr' _ IHl]; cbn [forallb]; intros H acc Ha Hb; [auto|].
      apply andb_true_iff in H as [H1 H2]. destruct (Hr' H1) as [Hs Hi]. apply IHl; auto; cbn [fst snd].
      - nra.
      - rewrite Hb, Hi. qring. }
    apply G; cbn [fst snd]; [lra|reflexivity].
Qed.

(* ------------------------------------------------------------------ the state updates in Q *)
Lemma add_distance_Q (st : list Q) slot fu from (x : Q) (st' : list Q) : add_distance QN st slot fu from x = Ok st' ->
    exists f : Q -> Q, upd QN st slot f = Ok st' /\ forall a : Q, f a == a + x * k_dist from fu.
Proof.
  unfold add_distance. intros H. eexists. split; [exact H|]. intros a. cbn beta.
  rewrite convert_distance_id. change (add (n:=QN)) with Qplus. rewrite convert_distance_id, convert_distance_factor. reflexivity.
Qed.
Lemma add_time_Q (st : list Q) slot fu from (x : Q) (st' : list Q) : add_time QN st slot fu from x = Ok st' ->
    exists f : Q -> Q, upd QN st slot f = Ok st' /\ forall a : Q, f a == a + x * k_time from fu.
Proof.
  unfold add_time. intros H. eexists. split; [exact H|]. intros a. cbn beta.
  rewrite convert_time_id. change (add (n:=QN)) with Qplus. rewrite convert_time_id, convert_time_factor. reflexivity.
Qed.

Lemma create_time_Q (speed : Q) su (dist : Q) du tu (t : Q) : create_time QN speed su dist du tu = Ok t ->
    0 < speed * k_speed su base_speed_unit /\ 0 < dist * k_dist du base_distance_unit
    /\ t == (dist * k_dist du base_distance_unit) / (speed * k_speed su base_speed_unit) * k_time base_time_unit tu.
Proof.
  unfold create_time. cbn [leb zero div QN].
  destruct (Qle_bool (convert_speed QN su base_speed_unit speed) 0) eqn:E1; [discriminate|].
  destruct (Qle_bool (convert_distance QN du base_distance_unit dist) 0) eqn:E2; [discriminate|].
  cbn [orb]. intros H; injection H as <-.
  assert (H1 : 0 < convert_speed QN su base_speed_unit speed).
  { apply Qnot_le_lt. intros Hle. apply Qle_bool_iff in Hle. congruence. }
  assert (H2 : 0 < convert_distance QN du base_distance_unit dist).
  { apply Qnot_le_lt. intros Hle. apply Qle_bool_iff in Hle. congruence. }
  rewrite convert_speed_factor in H1. rewrite convert_distance_factor in H2. split; auto. split; auto.
  rewrite convert_time_factor. apply Qmult_comp; [|reflexivity]. unfold Qdiv. apply Qmult_comp.
  - apply convert_distance_factor.
  - apply Qinv_comp. apply convert_speed_factor.
Qed.


(* ------------------------------------------------------------------ the objective of a query, in closed form *)
Module S := RC.Model.Search.Search.

Definition cdir (d : S.dir) : direction := match d with S.Forward => Forward | S.Reverse => Reverse end.

Section Real.
  Variable g : S.graph.
  Variable len : nat -> Q.             (* Edge::distance, meters *)
  Variable gc : nat -> nat -> Q.       (* great-circle oracle between two vertices, meters *)
  Variable cm : cost_model Q.
  Variable tm : tmodel QN.
  Variable wf : Q.

  Notation fs := (cm_feats cm).

  (* the functions the search is run with (Model/Objective.v, read in Q) *)
  Definition frontierR (e : nat) (st : list Q) (prev : option nat) : res bool := Ok true.       (* NoRestriction *)
  Definition traverseR (d : S.dir) (e : nat) (prev : option nat) (st : list Q) : res (Q * Q * list Q) :=
    edge_step QN cm tm (cdir d) e prev (len e) st.
  Definition estimateR (v t : nat) (st : list Q) : res Q := estimate_cost QN cm tm wf (gc v t) st.

  (* rated, weighted state change of traversing a length [x] at speed [sp] / of the estimate over distance [x] *)
  Definition lin (from : dist_unit) (x sp : Q) : Q :=
    match tm with
    | TDistance m => coef fs (dm_slot m) * (x * k_dist from (dm_unit m) * k_dist (dm_unit m) (dm_funit m))
    | TSpeed m =>
        coef fs (sm_tslot m)
          * ((x * k_dist from (sm_du m) * k_dist (sm_du m) base_distance_unit) / (sp * k_speed (sm_su m) base_speed_unit)
             * k_time base_time_unit (sm_tu m) * k_time (sm_tu m) (sm_tfunit m))
        + coef fs (sm_dslot m) * (x * k_dist from (sm_du m) * k_dist (sm_du m) (sm_dfunit m))
    end.
  Definition speed_of (e : nat) : Q := match tm with TDistance _ => 1 | TSpeed m => nth e (sm_speeds m) 0 end.
  Definition max_of : Q := match tm with TDistance _ => 1 | TSpeed m => sm_max m end.
  Definition lin_edge (e : nat) : Q := lin base_distance_unit (len e) (speed_of e).
  Definition lin_est (x : Q) : Q := lin Meters x max_of.

  (* the edge-local cost and the heuristic *)
  Definition c_edge (e : nat) : Q := floor_pos (lin_edge e + fee fs (Z.of_nat e)).
  Definition h_est (t v : nat) : Q := clip0 (lin_est (gc v t)).

  Hypothesis Hsum : cm_agg cm = ASum.
  Hypothesis Hblend : blend_ok fs.

  Lemma t_traverse_vsum e (st st' : list Q) : t_traverse QN tm e (len e) st = Ok st' ->
      (List.length fs <= List.length st)%nat ->
      List.length st' = List.length st /\ vsum fs st st' == lin_edge e.
  Proof.
    intros H Hl. unfold lin_edge, lin, speed_of. destruct tm as [m|m]; cbn [t_traverse] in H.
    - unfold d_traverse in H. apply add_distance_Q in H as [f [Hu Hf]]. split; [eapply upd_length; eauto|].
      rewrite (vsum_upd fs st st (dm_slot m) f st' _ Hl Hl Hu Hf). rewrite vsum_same by auto.
      rewrite convert_distance_factor. qring.
    - unfold s_traverse in H. destruct (nth_error (sm_speeds m) e) as [speed|] eqn:En; [|discriminate].
      destruct (create_time QN speed (sm_su m) _ (sm_du m) (sm_tu m)) as [t| | |] eqn:Et; cbn [bind] in H; try discriminate.
      destruct (add_time QN st (sm_tslot m) (sm_tfunit m) (sm_tu m) t) as [st1| | |] eqn:E1; cbn [bind] in H; try discriminate.
      apply add_time_Q in E1 as [f1 [Hu1 Hf1]]. apply add_distance_Q in H as [f2 [Hu2 Hf2]].
      pose proof (upd_length _ _ _ _ Hu1) as L1. pose proof (upd_length _ _ _ _ Hu2) as L2. change (T QN) with Q in *.
      split; [rewrite L2; exact L1|].
      assert (Hl1 : (List.length fs <= List.length st1)%nat) by (rewrite L1; exact Hl).
      rewrite (vsum_upd fs st st1 (sm_dslot m) f2 st' _ Hl Hl1 Hu2 Hf2).
      rewrite (vsum_upd fs st st (sm_tslot m) f1 st1 _ Hl Hl Hu1 Hf1). rewrite vsum_same by auto.
      apply create_time_Q in Et as [_ [_ Et]]. rewrite Et. rewrite (nth_error_nth _ _ 0 En).
      rewrite !convert_distance_factor. qring.
  Qed.

  Lemma t_estimate_vsum (x : Q) (st dst : list Q) : t_estimate QN tm x st = Ok dst ->
      (List.length fs <= List.length st)%nat ->
      List.length dst = List.length st /\ vsum fs st dst == lin_est x.
  Proof.
    intros H Hl. unfold lin_est, lin, max_of. destruct tm as [m|m]; cbn [t_estimate] in H.
    - unfold d_estimate in H. apply add_distance_Q in H as [f [Hu Hf]]. split; [eapply upd_length; eauto|].
      rewrite (vsum_upd fs st st (dm_slot m) f dst _ Hl Hl Hu Hf). rewrite vsum_same by auto.
      rewrite convert_distance_factor. qring.
    - unfold s_estimate in H. cbn [eqb zero QN] in H.
      destruct (Qeq_bool (convert_distance QN Meters (sm_du m) x) 0) eqn:Ez.
      + injection H as <-. split; auto. rewrite vsum_same by auto. apply Qeq_bool_iff in Ez.
        rewrite convert_distance_factor in Ez. rewrite Ez. unfold Qdiv. qring.
      + destruct (create_time QN (sm_max m) (sm_su m) _ (sm_du m) (sm_tu m)) as [t| | |] eqn:Et; cbn [bind] in H; try discriminate.
        destruct (add_time QN st (sm_tslot m) (sm_tfunit m) (sm_tu m) t) as [st1| | |] eqn:E1; cbn [bind] in H; try discriminate.
        apply add_time_Q in E1 as [f1 [Hu1 Hf1]]. apply add_distance_Q in H as [f2 [Hu2 Hf2]].
        pose proof (upd_length _ _ _ _ Hu1) as L1. pose proof (upd_length _ _ _ _ Hu2) as L2. change (T QN) with Q in *.
        split; [rewrite L2; exact L1|].
        assert (Hl1 : (List.length fs <= List.length st1)%nat) by (rewrite L1; exact Hl).
        rewrite (vsum_upd fs st st1 (sm_dslot m) f2 dst _ Hl Hl1 Hu2 Hf2).
        rewrite (vsum_upd fs st st (sm_tslot m) f1 st1 _ Hl Hl Hu1 Hf1). rewrite vsum_same by auto.
        apply create_time_Q in Et as [_ [_ Et]]. rewrite Et.
        rewrite !convert_distance_factor. qring.
  Qed.

  Lemma long_enough_dec (p n : list Q) : long_enough fs p n \/ ~ long_enough fs p n.
  Proof. unfold long_enough. destruct (le_dec (List.length fs) (List.length p)), (le_dec (List.length fs) (List.length n)); tauto. Qed.

  (* edge_cost_local: what an edge costs does not depend on how it was reached nor on the state *)
  Theorem edge_step_local d e prev (st : list Q) (ac tc : Q) (st' : list Q) :
      traverseR d e prev st = Ok (ac, tc, st') -> floor_pos (ac + tc) == c_edge e.
  Proof.
    unfold traverseR, edge_step.
    destruct (t_traverse QN tm e (len e) st) as [st1| | |] eqn:Et; cbn [bind]; try discriminate.
    destruct (edge_traversal QN cm (Z.of_nat e) (option_map Z.of_nat prev) (cdir d) st st st1) as [[a t]| | |] eqn:Ee;
      cbn [bind]; try discriminate.
    intros H; injection H as <- <- <-. cbn [fst snd].
    unfold edge_traversal in Ee.
    set (pe := edge_pair (Z.of_nat e) (option_map Z.of_nat prev) (cdir d)) in *.
    destruct (match pe with None => Ok (cost_zero QN) | Some pe0 => do ac <- access_cost QN cm pe0 st st; Ok (add (cost_zero QN) ac) end)
      as [acc| | |] eqn:Ea; cbn [bind] in Ee; try discriminate.
    destruct (edge_cost QN cm pe (Z.of_nat e) st st1) as [tot| | |] eqn:Ec; cbn [bind] in Ee; try discriminate.
    injection Ee as <- <-.
    destruct (long_enough_dec st st1) as [Hle|Hle].
    2:{ destruct (entry_points_err cm pe (Z.of_nat e) st st1 Hle) as [_ [He _]]. congruence. }
    destruct (edge_cost_spec cm pe (Z.of_nat e) st st1 Hle) as [c0 [Hc0 Hc]]. assert (c0 = tot) by congruence. subst c0.
    pose proof (edge_cost_pos _ _ _ _ _ _ Ec) as Hpos.
    assert (Hsumq : acc + sub (n:=QN) tot acc == tot) by (change (sub (n:=QN)) with Qminus; qring).
    rewrite (floor_pos_compat _ _ Hsumq). destruct (floor_pos_spec tot) as [Hfp _]. rewrite (Hfp Hpos).
    rewrite Hc. unfold charge, c_edge. apply floor_pos_compat.
    destruct Hle as [Hl0 Hl1].
    destruct (t_traverse_vsum e st st1 Et Hl0) as [_ Hv].
    change (T QN) with Q in *. unfold raw_total, veh_total, edge_total, turn_total. rewrite Hsum. cbn [agg_spec].
    fold (vsum fs st st1). rewrite Hv. rewrite (fee_rows fs (Z.of_nat e) st st1 Hl0 Hl1).
    destruct pe as [pe0|]; [rewrite (turn_rows fs pe0 st st1 Hblend)|]; qring.
  Qed.

  Lemma c_edge_pos e : 0 < c_edge e.
  Proof. apply floor_pos_pos. Qed.

  (* the estimate, whatever the state: clip0 (lin_est (gc v t)) * wf *)
  Theorem estimate_cost_value v t (st : list Q) (x : Q) : estimateR v t st = Ok x -> x == h_est t v * wf.
  Proof.
    unfold estimateR, estimate_cost, h_est.
    destruct (t_estimate QN tm (gc v t) st) as [dst| | |] eqn:Et; cbn [bind]; try discriminate.
    destruct (cost_estimate QN cm st dst) as [c0| | |] eqn:Ec; cbn [bind]; try discriminate.
    intros H; injection H as <-. change (mul (n:=QN)) with Qmult. apply Qmult_comp; [|reflexivity].
    destruct (long_enough_dec st dst) as [Hle|Hle].
    2:{ destruct (entry_points_err cm None 0%Z st dst Hle) as [_ [_ [_ He]]]. congruence. }
    destruct (cost_estimate_spec cm st dst Hle) as [c1 [Hc1 Hc]]. assert (c1 = c0) by congruence. subst c1.
    rewrite Hc. apply clip0_compat. change (T QN) with Q in *. unfold veh_total. rewrite Hsum. cbn [agg_spec]. fold (vsum fs st dst).
    destruct Hle as [Hl0 _]. apply (t_estimate_vsum _ _ _ Et Hl0).
  Qed.

  (* ---- consistency ---- *)
  (* the network is metrically consistent with the oracle, and the speed table is bounded by max_speed *)
  Record metric_ok : Prop := mkMetric {
    gc_nonneg : forall a b, 0 <= gc a b;
    gc_sym : forall a b, gc a b == gc b a;
    gc_tri : forall a b c0, gc a c0 <= gc a b + gc b c0;
    len_ge : forall e ed, S.get_edge g e = Some ed -> gc (S.esrc ed) (S.edst ed) <= len e;
    speed_ok : forall e ed, S.get_edge g e = Some ed -> 0 < speed_of e /\ speed_of e <= max_of
  }.

  Lemma Qinv_antitone (a b : Q) : 0 < a -> a <= b -> / b <= / a.
  Proof.
    intros Ha Hab. assert (Hb : 0 < b) by lra.
    assert (Ia : 0 < / a) by (apply Qinv_lt_0_compat; auto). assert (Ib : 0 < / b) by (apply Qinv_lt_0_compat; auto).
    assert (E1 : a * / a == 1) by (apply Qmult_inv_r; lra). assert (E2 : b * / b == 1) by (apply Qmult_inv_r; lra).
    assert (H : / b * (a * / a) <= / a * (b * / b)).
    { assert (Hx : (/ a * / b) * a <= (/ a * / b) * b).
      { rewrite !(Qmult_comm (/ a * / b)). apply Qmult_le_compat_r; auto. nra. }
      assert (Ey : / b * (a * / a) == (/ a * / b) * a) by qring.
      assert (Ez : / a * (b * / b) == (/ a * / b) * b) by qring. rewrite Ey, Ez. exact Hx. }
    rewrite E1, E2 in H. lra.
  Qed.

  (* x_u <= l + x_v, all non-negative, traversed at 0 < sp <= max: the estimate from u is at most the edge's
     rated change plus the estimate from v *)
  Lemma lin_consistent (xu xv l sp : Q) : 0 <= xu -> 0 <= xv -> 0 <= l -> xu <= l + xv -> 0 < sp -> sp <= max_of ->
      lin Meters xu max_of <= lin base_distance_unit l sp + lin Meters xv max_of.
  Proof.
    intros Hu Hv Hl Hx Hsp Hmx. unfold lin, max_of in *. rewrite base_is_meters.
    destruct tm as [m|m].
    - pose proof (coef_nonneg fs (dm_slot m) Hblend) as Hc.
      pose proof (k_dist_pos Meters (dm_unit m)) as K1. pose proof (k_dist_pos (dm_unit m) (dm_funit m)) as K2.
      set (K := k_dist Meters (dm_unit m) * k_dist (dm_unit m) (dm_funit m)).
      assert (HK : 0 < K) by (unfold K; nra).
      assert (E : forall x, coef fs (dm_slot m) * (x * k_dist Meters (dm_unit m) * k_dist (dm_unit m) (dm_funit m))
                    == (coef fs (dm_slot m) * K) * x) by (intros; unfold K; qring).
      rewrite !E. assert (0 <= coef fs (dm_slot m) * K) by nra. nra.
    - pose proof (coef_nonneg fs (sm_tslot m) Hblend) as Hct. pose proof (coef_nonneg fs (sm_dslot m) Hblend) as Hcd.
      pose proof (k_dist_pos Meters (sm_du m)) as K1. pose proof (k_dist_pos (sm_du m) (sm_dfunit m)) as K2.
      pose proof (k_dist_pos (sm_du m) Meters) as K3. pose proof (k_speed_pos (sm_su m) base_speed_unit) as K4.
      pose proof (k_time_pos base_time_unit (sm_tu m)) as K5. pose proof (k_time_pos (sm_tu m) (sm_tfunit m)) as K6.
      set (KD := k_dist Meters (sm_du m) * k_dist (sm_du m) (sm_dfunit m)).
      set (KT := k_dist Meters (sm_du m) * k_dist (sm_du m) Meters * k_time base_time_unit (sm_tu m) * k_time (sm_tu m) (sm_tfunit m)).
      assert (HKD : 0 < KD) by (unfold KD; nra).
      assert (HKT : 0 < KT).
      { unfold KT. assert (0 < k_dist Meters (sm_du m) * k_dist (sm_du m) Meters) by nra.
        assert (0 < k_dist Meters (sm_du m) * k_dist (sm_du m) Meters * k_time base_time_unit (sm_tu m)) by nra. nra. }
      set (S4 := k_speed (sm_su m) base_speed_unit) in *.
      assert (ED : forall x, coef fs (sm_dslot m) * (x * k_dist Meters (sm_du m) * k_dist (sm_du m) (sm_dfunit m))
                     == (coef fs (sm_dslot m) * KD) * x) by (intros; unfold KD; qring).
      assert (ET : forall x s, coef fs (sm_tslot m) * ((x * k_dist Meters (sm_du m) * k_dist (sm_du m) Meters) / (s * S4)
                                   * k_time base_time_unit (sm_tu m) * k_time (sm_tu m) (sm_tfunit m))
                     == (coef fs (sm_tslot m) * KT) * (x * / (s * S4))) by (intros; unfold KT, Qdiv; qring).
      rewrite !ED, !ET.
      set (imax := / (sm_max m * S4)). set (isp := / (sp * S4)).
      assert (Hmaxpos : 0 < sm_max m) by lra.
      assert (Him : 0 < imax) by (apply Qinv_lt_0_compat; nra).
      assert (Hii : imax <= isp) by (apply Qinv_antitone; [nra|]; apply Qmult_le_compat_r; lra).
      assert (Hd : 0 <= coef fs (sm_dslot m) * KD) by nra. assert (Ht : 0 <= coef fs (sm_tslot m) * KT) by nra.
      set (cd := coef fs (sm_dslot m) * KD) in *. set (ct := coef fs (sm_tslot m) * KT) in *.
      assert (T : xu * imax <= l * isp + xv * imax).
      { assert (xu * imax <= (l + xv) * imax) by (apply Qmult_le_compat_r; lra).
        assert (l * imax <= l * isp) by (rewrite !(Qmult_comm l); apply Qmult_le_compat_r; lra). lra. }
      assert (ct * (xu * imax) <= ct * (l * isp + xv * imax)).
      { rewrite !(Qmult_comm ct). apply Qmult_le_compat_r; auto. }
      assert (cd * xu <= cd * (l + xv)).
      { rewrite !(Qmult_comm cd). apply Qmult_le_compat_r; auto. }
      lra.
  Qed.

  Lemma lin_est_nonneg (x : Q) : 0 <= x -> 0 < max_of -> 0 <= lin_est x.
  Proof.
    intros Hx Hm. unfold lin_est.
    (* every factor is non-negative *)
    unfold lin, max_of in *. destruct tm as [m|m].
    - pose proof (coef_nonneg fs (dm_slot m) Hblend). pose proof (k_dist_pos Meters (dm_unit m)).
      pose proof (k_dist_pos (dm_unit m) (dm_funit m)).
      assert (0 <= x * k_dist Meters (dm_unit m)) by nra. assert (0 <= x * k_dist Meters (dm_unit m) * k_dist (dm_unit m) (dm_funit m)) by nra.
      nra.
    - pose proof (coef_nonneg fs (sm_tslot m) Hblend). pose proof (coef_nonneg fs (sm_dslot m) Hblend).
      pose proof (k_dist_pos Meters (sm_du m)). pose proof (k_dist_pos (sm_du m) (sm_dfunit m)).
      pose proof (k_dist_pos (sm_du m) base_distance_unit). pose proof (k_speed_pos (sm_su m) base_speed_unit).
      pose proof (k_time_pos base_time_unit (sm_tu m)). pose proof (k_time_pos (sm_tu m) (sm_tfunit m)).
      assert (A1 : 0 <= x * k_dist Meters (sm_du m)) by nra.
      assert (A2 : 0 <= x * k_dist Meters (sm_du m) * k_dist (sm_du m) (sm_dfunit m)) by nra.
      assert (A3 : 0 <= x * k_dist Meters (sm_du m) * k_dist (sm_du m) base_distance_unit) by nra.
      assert (A4 : 0 < / (sm_max m * k_speed (sm_su m) base_speed_unit)) by (apply Qinv_lt_0_compat; nra).
      assert (A5 : 0 <= (x * k_dist Meters (sm_du m) * k_dist (sm_du m) base_distance_unit) / (sm_max m * k_speed (sm_su m) base_speed_unit)).
      { unfold Qdiv. nra. }
      assert (A6 : 0 <= (x * k_dist Meters (sm_du m) * k_dist (sm_du m) base_distance_unit) / (sm_max m * k_speed (sm_su m) base_speed_unit)
                        * k_time base_time_unit (sm_tu m)) by nra.
      assert (A7 : 0 <= (x * k_dist Meters (sm_du m) * k_dist (sm_du m) base_distance_unit) / (sm_max m * k_speed (sm_su m) base_speed_unit)
                        * k_time base_time_unit (sm_tu m) * k_time (sm_tu m) (sm_tfunit m)) by nra.
      nra.
  Qed.

  (* estimate_consistent: the consistency hypothesis of astar_optimal, in the search direction d, for target t *)
  Theorem estimate_consistent (Hm : metric_ok) d t e ed : S.get_edge g e = Some ed ->
      h_est t (S.term_vertex d ed) <= c_edge e + h_est t (S.key_vertex d ed).
  Proof.
    intros He. destruct (speed_ok Hm e ed He) as [Hs1 Hs2]. assert (Hmax : 0 < max_of) by lra.
    unfold h_est.
    set (u := S.term_vertex d ed). set (v := S.key_vertex d ed).
    pose proof (gc_nonneg Hm u t) as Hu. pose proof (gc_nonneg Hm v t) as Hv.
    pose proof (gc_nonneg Hm (S.esrc ed) (S.edst ed)) as Hg. pose proof (len_ge Hm e ed He) as Hl.
    assert (Hx : gc u t <= len e + gc v t).
    { unfold u, v. destruct d; cbn [S.term_vertex S.key_vertex].
      - pose proof (gc_tri Hm (S.esrc ed) (S.edst ed) t). lra.
      - pose proof (gc_tri Hm (S.edst ed) (S.esrc ed) t). pose proof (gc_sym Hm (S.edst ed) (S.esrc ed)). lra. }
    destruct (clip0_spec (lin_est (gc u t))) as [C1 _]. destruct (clip0_spec (lin_est (gc v t))) as [C2 _].
    rewrite (C1 (lin_est_nonneg _ Hu Hmax)), (C2 (lin_est_nonneg _ Hv Hmax)).
    pose proof (lin_consistent (gc u t) (gc v t) (len e) (speed_of e) Hu Hv ltac:(lra) Hx Hs1 Hs2) as Hc.
    fold (lin_est (gc u t)) in Hc. fold (lin_est (gc v t)) in Hc. fold (lin_edge e) in Hc.
    pose proof (fee_nonneg fs (Z.of_nat e) Hblend) as Hf.
    assert (Hfl : lin_edge e + fee fs (Z.of_nat e) <= c_edge e).
    { unfold c_edge. destruct (Qlt_le_dec 0 (lin_edge e + fee fs (Z.of_nat e))) as [Hp|Hn].
      - destruct (floor_pos_spec (lin_edge e + fee fs (Z.of_nat e))) as [F1 _]. rewrite (F1 Hp). apply Qle_refl.
      - pose proof (floor_pos_pos (lin_edge e + fee fs (Z.of_nat e))). lra. }
    lra.
  Qed.
End Real.

End ObjectiveP.
