(* C02, part 2 (end to end): the search of Model/Search.v run with the repository's own objective
   (Model/Objective.v: distance / speed-table traversal model, CostModel with sum aggregation, no access model,
   no frontier restriction) returns a route of least total cost:
     real_dijkstra_optimal   weight factor 0, EVERY network (no metric hypothesis)
     real_astar_optimal      weight factor in [0,1], networks that are metrically consistent with the oracle gc
     real_same_cost
   and the override logic of CostModelService::build (effective_weights_spec). *)
From Coq Require Import ZArith QArith Qminmax List Bool String Lia Lqa.
From stdpp Require Import gmap.
From RC Require Import Base.Num Base.Res Model.Units Model.Cost Model.CostSpec Model.Objective Model.Search Model.SearchSpec.
From RC Require Import Proofs.Cost Proofs.Optimal Proofs.OptimalInst Proofs.Objective.
Import ListNotations.

Module ObjectiveOpt.
Import RC.Model.Cost.Cost RC.Model.CostSpec.CostSpec RC.Model.Objective.Objective.
Import ObjectiveP OptimalInst.
Module S := RC.Model.Search.Search.
Local Open Scope Q_scope.

Definition all_edges (e : nat) : bool := true.          (* NoRestriction: every edge is permitted *)

Section RealOpt.
  Variable g : S.graph.
  Variable len : nat -> Q.
  Variable gc : nat -> nat -> Q.
  Variable cm : cost_model Q.
  Variable tm : tmodel QN.
  Variable init : list Q.
  Variable terminate : nat -> nat -> option string.

  Hypothesis Hsum : cm_agg cm = ASum.
  Hypothesis Hblend : blend_ok (cm_feats cm).

  Notation RUN wf := (S.run_vertex_oriented Qltb Qplus 0 (enforce_strictly_positive QN) g frontierR
                        (traverseR len cm tm) (estimateR gc cm tm wf) (Ok init) terminate).
  Notation rcost := (route_cost Qplus 0 (enforce_strictly_positive QN)).
  Notation pcost := (path_cost Qplus 0 (c_edge len cm tm)).

  Lemma frontier_all e (st : list Q) prev b : frontierR e st prev = Ok b -> b = all_edges e.
  Proof. unfold frontierR, all_edges. congruence. Qed.
  Lemma trav_local d e prev (st : list Q) (ac tc : Q) (st' : list Q) :
      traverseR len cm tm d e prev st = Ok (ac, tc, st') -> enforce_strictly_positive QN (ac + tc) == c_edge len cm tm e.
  Proof. intros H. rewrite esp_floor. eapply edge_step_local; eauto. Qed.
  Lemma c_nonneg e : all_edges e = true -> 0 <= c_edge len cm tm e.
  Proof. intros _. apply Qlt_le_weak. apply c_edge_pos. Qed.

  (* A-star, weight factor 0 <= wf <= 1, metrically consistent network *)
  Theorem real_astar_optimal wf (Hw : 0 <= wf /\ wf <= 1) (Hm : metric_ok g len gc tm) fuel d s t res :
      RUN wf fuel d s (Some t) = Ok res ->
      exists r, S.r_routes res = [r]
        /\ permitted_walk g d all_edges s (map S.et_edge r) t
        /\ rcost r == pcost (map S.et_edge r)
        /\ (forall P, permitted_walk g d all_edges s P t -> rcost r <= pcost P).
  Proof.
    apply (astar_optimal (enforce_strictly_positive QN) g frontierR (traverseR len cm tm) (estimateR gc cm tm wf)
             (Ok init) terminate d s t (c_edge len cm tm) all_edges (h_est gc cm tm t) wf
             frontier_all (trav_local d) c_nonneg Hw).
    - intros v st x Hx. rewrite (estimate_cost_value gc cm tm wf Hsum Hblend v t st x Hx). apply Qmult_comm.
    - intros e ed He _. apply (estimate_consistent g len gc cm tm Hblend Hm d t e ed He).
  Qed.

  (* Dijkstra = weight factor 0: every network, no hypothesis on lengths, speeds or coordinates *)
  Theorem real_dijkstra_optimal fuel d s t res :
      RUN 0 fuel d s (Some t) = Ok res ->
      exists r, S.r_routes res = [r]
        /\ permitted_walk g d all_edges s (map S.et_edge r) t
        /\ rcost r == pcost (map S.et_edge r)
        /\ (forall P, permitted_walk g d all_edges s P t -> rcost r <= pcost P).
  Proof.
    apply (astar_optimal_hv (enforce_strictly_positive QN) g frontierR (traverseR len cm tm) (estimateR gc cm tm 0)
             (Ok init) terminate d s t (c_edge len cm tm) all_edges (fun _ => 0)
             frontier_all (trav_local d) c_nonneg).
    - intros v st x Hx. rewrite (estimate_cost_value gc cm tm 0 Hsum Hblend v t st x Hx). apply Qmult_0_r.
    - intros e ed He _. pose proof (c_edge_pos len cm tm e). lra.
  Qed.

  (* consequently both report the same route cost *)
  Theorem real_same_cost wf (Hw : 0 <= wf /\ wf <= 1) (Hm : metric_ok g len gc tm) fuel1 fuel2 d s t res1 res2 r1 r2 :
      RUN 0 fuel1 d s (Some t) = Ok res1 -> RUN wf fuel2 d s (Some t) = Ok res2 ->
      S.r_routes res1 = [r1] -> S.r_routes res2 = [r2] -> rcost r1 == rcost r2.
  Proof.
    intros H1 H2 E1 E2.
    destruct (real_dijkstra_optimal _ _ _ _ _ H1) as [r1' [A1 [A2 [A3 A4]]]].
    destruct (real_astar_optimal wf Hw Hm _ _ _ _ _ H2) as [r2' [B1 [B2 [B3 B4]]]].
    assert (r1' = r1) by congruence. assert (r2' = r2) by congruence. subst r1' r2'.
    apply Qle_antisym.
    - rewrite B3. apply A4; auto.
    - rewrite A3. apply B4; auto.
  Qed.
End RealOpt.

(* ------------------------------------------------------------------ CostModelService::build *)
(* The cost model a query is searched under is CostModel::new applied to the query's weights / vehicle rates /
   aggregation where the query gives them and to the configured ones otherwise; network rates always come from the
   configuration.  (Cost.service_build is the transcription of CostModelService::build.) *)
Theorem effective_weights_spec (cfg_w : list (string * Q)) cfg_v cfg_n cfg_a ign q_w q_v q_a names (cm : cost_model Q) :
    service_build QN cfg_w cfg_v cfg_n cfg_a ign q_w q_v q_a names = Ok cm ->
    new QN (effective q_w cfg_w) (effective q_v cfg_v) cfg_n (effective q_a cfg_a) names = Ok cm.
Proof.
  unfold service_build, effective. destruct (negb _ && negb ign); [discriminate|].
  destruct (new QN _ _ cfg_n _ names) as [cm'| | |]; congruence.
Qed.
(* in particular, weights given in the query make the configured ones irrelevant (and likewise rates, aggregation) *)
Theorem query_weights_override (cfg_w cfg_w' : list (string * Q)) cfg_v cfg_n cfg_a ign w q_v q_a names :
    service_build QN cfg_w cfg_v cfg_n cfg_a ign (Some w) q_v q_a names
    = service_build QN cfg_w' cfg_v cfg_n cfg_a ign (Some w) q_v q_a names.
Proof. reflexivity. Qed.
(* the weight of every state feature in the built model is the effective one (0 when the feature has none) *)
Theorem effective_weights_used (cfg_w : list (string * Q)) cfg_v cfg_n cfg_a ign q_w q_v q_a names (cm : cost_model Q) :
    service_build QN cfg_w cfg_v cfg_n cfg_a ign q_w q_v q_a names = Ok cm ->
    map fw (cm_feats cm)
    = map (fun nm => match assoc String.eqb (effective q_w cfg_w) nm with Some w => w | None => 0 end) names
    /\ cm_agg cm = effective q_a cfg_a.
Proof.
  intros H. apply effective_weights_spec in H. unfold new in H.
  destruct (eqb _ _); [discriminate|]. injection H as <-. cbn [cm_feats cm_agg]. split; auto.
  rewrite map_map. reflexivity.
Qed.

End ObjectiveOpt.
